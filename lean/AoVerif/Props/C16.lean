/-
C16 — binning, zooming and radial reductions preserve image content.
Theorems about the hand-written model `Model/ImageReduce.lean` (tied to the source by the correspondence
driver `Drive/C16.lean`, see `harness/props/c16.py`).
-/
import Mathlib.Algebra.BigOperators.Intervals
import Mathlib.Algebra.Order.BigOperators.Group.Finset
import Mathlib.Data.Complex.Basic
import Mathlib.Tactic.Ring
import Mathlib.Tactic.Linarith
import Mathlib.Tactic.FieldSimp
import AoVerif.Lemmas.RealScalar
import AoVerif.Model.ImageReduce
import AoVerif.Lemmas.ImageReduce
import AoVerif.Lemmas.ImageReduceLagrange

namespace AoVerif.Props.C16
open AoVerif AoVerif.ImageReduce Finset

set_option linter.unusedSectionVars false
set_option linter.unusedVariables false

/-! ## binImgs: exact block sums, flux conservation, stacks -/
section Bin
variable {α : Type} [AddCommMonoid α]

/-- splitting a sum over `n*m` consecutive indices into `m` blocks of `n` -/
theorem sum_range_blocks (n m : ℕ) (f : ℕ → α) :
    ∑ r ∈ range (n * m), f r = ∑ R ∈ range m, ∑ i ∈ range n, f (n * R + i) := by
  induction m with
  | zero => simp
  | succ m ih => rw [Nat.mul_succ, sum_range_add, ih, sum_range_succ]

/-- **Binning by `n` returns exactly the `n × n` block sums** (2-D path): output pixel `(R, C)` is the sum of the
input over rows `n*R … n*R+n-1` and columns `n*C … n*C+n-1`. -/
theorem bin_is_block_sum (n : ℕ) (img : ℕ → ℕ → α) (R C : ℕ) :
    binImgs2 0 n img R C = ∑ i ∈ range n, ∑ j ∈ range n, img (n * R + i) (n * C + j) := by
  simp only [binImgs2, binRows, binCols, sumToFrom_eq, zero_add]
  refine sum_congr rfl (fun i _ => sum_congr rfl (fun j _ => ?_))
  rw [Nat.add_comm i, Nat.add_comm j]

/-- **Total flux is preserved** for every image whose shape `(n*rows, n*cols)` is divisible by `n`. -/
theorem bin_total (n rows cols : ℕ) (img : ℕ → ℕ → α) :
    ∑ R ∈ range rows, ∑ C ∈ range cols, binImgs2 0 n img R C
      = ∑ r ∈ range (n * rows), ∑ c ∈ range (n * cols), img r c := by
  simp only [bin_is_block_sum]
  rw [sum_range_blocks n rows]
  refine sum_congr rfl (fun R _ => ?_)
  rw [sum_comm]
  refine sum_congr rfl (fun i _ => ?_)
  rw [sum_range_blocks n cols]

/-- **Stacks** (N-D path, any number of leading axes `ι`): every frame of the binned stack is the binned frame. -/
theorem bin_stack {ι : Type} (n : ℕ) (stack : ι → ℕ → ℕ → α) (b : ι) :
    binImgsN 0 n stack b = binImgs2 0 n (stack b) := rfl

/-- N-D path: block sums, frame by frame -/
theorem bin_stack_is_block_sum {ι : Type} (n : ℕ) (stack : ι → ℕ → ℕ → α) (b : ι) (R C : ℕ) :
    binImgsN 0 n stack b R C = ∑ i ∈ range n, ∑ j ∈ range n, stack b (n * R + i) (n * C + j) := by
  rw [bin_stack, bin_is_block_sum]

/-- N-D path: total flux of every frame is preserved -/
theorem bin_stack_total {ι : Type} (n rows cols : ℕ) (stack : ι → ℕ → ℕ → α) (b : ι) :
    ∑ R ∈ range rows, ∑ C ∈ range cols, binImgsN 0 n stack b R C
      = ∑ r ∈ range (n * rows), ∑ c ∈ range (n * cols), stack b r c := by
  rw [bin_stack, bin_total]

/-- `n = 1` is the identity (non-vacuity of the block structure) -/
theorem bin_one (img : ℕ → ℕ → α) (R C : ℕ) : binImgs2 0 1 img R C = img R C := by
  simp [bin_is_block_sum]

end Bin

/-- non-vacuity: a concrete 4×4 integer image binned by 2 -/
example : (List.range 2).map (fun R => (List.range 2).map (fun C =>
    binImgs2 (0 : ℤ) 2 (fun r c => (4 * r + c : ℤ)) R C)) = [[10, 18], [42, 50]] := by decide

/-! ## zoom / zoom_rbs from the spline contract -/
section Zoom

/-- numpy.linspace(0, n-1, n)[i] = i : the grid of an unchanged size is the node grid -/
theorem linspace0_same (n i : ℕ) (hi : i < n) : linspace0 (((n - 1 : ℕ) : ℝ)) n i = (i : ℝ) := by
  unfold linspace0
  by_cases h1 : n ≤ 1
  · have : i = 0 := by omega
    simp [h1, this]
  · rw [if_neg h1]
    by_cases h2 : i + 1 = n
    · rw [if_pos h2]; congr 1; omega
    · rw [if_neg h2]
      have : ((n - 1 : ℕ) : ℝ) ≠ 0 := by
        have : 0 < n - 1 := by omega
        exact_mod_cast this.ne'
      field_simp

/-- numpy.linspace(0, n-1, m*(n-1)+1)[m*i] = i : a refined grid contains the old nodes -/
theorem linspace0_nodes (n m i : ℕ) (hm : 0 < m) (hi : i < n) :
    linspace0 (((n - 1 : ℕ) : ℝ)) (m * (n - 1) + 1) (m * i) = (i : ℝ) := by
  unfold linspace0
  by_cases h1 : m * (n - 1) + 1 ≤ 1
  · have h0 : m * (n - 1) = 0 := by omega
    have hn : n - 1 = 0 := by
      rcases Nat.mul_eq_zero.mp h0 with h | h
      · omega
      · exact h
    have : i = 0 := by omega
    simp [h1, this]
  · rw [if_neg h1]
    by_cases h2 : m * i + 1 = m * (n - 1) + 1
    · rw [if_pos h2]
      have : m * i = m * (n - 1) := by omega
      have : i = n - 1 := Nat.eq_of_mul_eq_mul_left hm this
      rw [this]
    · rw [if_neg h2]
      have hn : 0 < n - 1 := by
        rcases Nat.eq_zero_or_pos (n - 1) with h | h
        · rw [h] at h1; simp at h1
        · exact h
      have h3 : ((n - 1 : ℕ) : ℝ) ≠ 0 := by exact_mod_cast hn.ne'
      have h4 : (m : ℝ) ≠ 0 := by exact_mod_cast hm.ne'
      simp only [Nat.add_sub_cancel, Nat.cast_mul]
      field_simp

/-- every linspace coordinate lies inside the node range `[0, stop]` -/
theorem linspace0_mem (stop : ℝ) (hs : 0 ≤ stop) (num i : ℕ) (hi : i < num) :
    0 ≤ linspace0 stop num i ∧ linspace0 stop num i ≤ stop := by
  unfold linspace0
  by_cases h1 : num ≤ 1
  · simp [h1, hs]
  · rw [if_neg h1]
    by_cases h2 : i + 1 = num
    · simp [h2, hs]
    · rw [if_neg h2]
      have hpos : (0 : ℝ) < ((num - 1 : ℕ) : ℝ) := by
        have : 0 < num - 1 := by omega
        exact_mod_cast this
      have hle : (i : ℝ) ≤ ((num - 1 : ℕ) : ℝ) := by
        have : i ≤ num - 1 := by omega
        exact_mod_cast this
      constructor
      · positivity
      · rw [mul_div_assoc', div_le_iff₀ hpos]
        nlinarith [Nat.cast_nonneg (α := ℝ) i]

variable (S : SplineKernel ℝ)

/-- **Unchanged size returns the input** (`zoom_rbs`; any array with more than `order` samples per axis). -/
theorem zoom_rbs_same_size_id (hS : SplineContract S) (order nx ny : ℕ) (d : ℕ → ℕ → ℝ) (hx : order < nx) (hy : order < ny)
    (i j : ℕ) (hi : i < nx) (hj : j < ny) :
    zoomRbs S order nx ny d nx ny i j = d i j := by
  unfold zoomRbs
  rw [linspace0_same nx i hi, linspace0_same ny j hj]
  exact hS.interp order nx ny d hx hy i hi j hj

/-- **The old samples are passed through when the new grid contains the old nodes**: new sizes
`mx*(nx-1)+1`, `my*(ny-1)+1` (independent factors per axis). -/
theorem zoom_rbs_nodes (hS : SplineContract S) (order nx ny mx my : ℕ) (d : ℕ → ℕ → ℝ) (hx : order < nx) (hy : order < ny)
    (hmx : 0 < mx) (hmy : 0 < my) (i j : ℕ) (hi : i < nx) (hj : j < ny) :
    zoomRbs S order nx ny d (mx * (nx - 1) + 1) (my * (ny - 1) + 1) (mx * i) (my * j) = d i j := by
  unfold zoomRbs
  rw [linspace0_nodes nx mx i hmx hi, linspace0_nodes ny my j hmy hj]
  exact hS.interp order nx ny d hx hy i hi j hj

/-- **Exact for tensor monomials up to the spline order**, any target size: the zoomed image is the monomial
evaluated at the new coordinates. -/
theorem zoom_rbs_monomial (hS : SplineContract S) (order nx ny p q xs ys : ℕ) (hx : order < nx) (hy : order < ny)
    (hp : p ≤ order) (hq : q ≤ order) (i j : ℕ) (hi : i < xs) (hj : j < ys) :
    zoomRbs S order nx ny (fun i j => (i : ℝ) ^ p * (j : ℝ) ^ q) xs ys i j
      = linspace0 (((nx - 1 : ℕ) : ℝ)) xs i ^ p * linspace0 (((ny - 1 : ℕ) : ℝ)) ys j ^ q := by
  unfold zoomRbs
  obtain ⟨a1, a2⟩ := linspace0_mem (((nx - 1 : ℕ) : ℝ)) (Nat.cast_nonneg _) xs i hi
  obtain ⟨b1, b2⟩ := linspace0_mem (((ny - 1 : ℕ) : ℝ)) (Nat.cast_nonneg _) ys j hj
  exact hS.monomial order nx ny p q hx hy hp hq _ _ a1 a2 b1 b2

/-- the kernel is linear over finite sums -/
theorem eval_sum {ι : Type} (hS : SplineContract S) (s : Finset ι) (order nx ny : ℕ) (c : ι → ℝ) (d : ι → ℕ → ℕ → ℝ) (x y : ℝ)
    (hne : s.Nonempty) :
    S.eval order nx ny (fun i j => ∑ t ∈ s, c t * d t i j) x y = ∑ t ∈ s, c t * S.eval order nx ny (d t) x y := by
  classical
  induction hne using Finset.Nonempty.cons_induction with
  | singleton a => simp only [sum_singleton]; exact hS.smul order nx ny (c a) (d a) x y
  | cons a s ha hs ih =>
    simp only [sum_cons]
    rw [hS.add order nx ny (fun i j => c a * d a i j) (fun i j => ∑ t ∈ s, c t * d t i j) x y, ih,
      hS.smul order nx ny (c a) (d a) x y]

/-- **Exact for polynomials up to the spline order** (`zoom_rbs`): a tensor polynomial
`P(x,y) = Σ_{p,q ≤ order} c p q · x^p y^q` sampled on the nodes is returned as `P` at the new coordinates. -/
theorem zoom_rbs_polynomial (hS : SplineContract S) (order nx ny xs ys : ℕ) (c : ℕ → ℕ → ℝ) (hx : order < nx) (hy : order < ny)
    (i j : ℕ) (hi : i < xs) (hj : j < ys) :
    zoomRbs S order nx ny
        (fun i j => ∑ pq ∈ range (order + 1) ×ˢ range (order + 1), c pq.1 pq.2 * ((i : ℝ) ^ pq.1 * (j : ℝ) ^ pq.2)) xs ys i j
      = ∑ pq ∈ range (order + 1) ×ˢ range (order + 1),
          c pq.1 pq.2 * (linspace0 (((nx - 1 : ℕ) : ℝ)) xs i ^ pq.1 * linspace0 (((ny - 1 : ℕ) : ℝ)) ys j ^ pq.2) := by
  have hne : (range (order + 1) ×ˢ range (order + 1)).Nonempty := ⟨(0, 0), by simp⟩
  have key := eval_sum S hS (range (order + 1) ×ˢ range (order + 1)) order nx ny (fun pq => c pq.1 pq.2)
    (fun pq i j => (i : ℝ) ^ pq.1 * (j : ℝ) ^ pq.2)
    (linspace0 (((nx - 1 : ℕ) : ℝ)) xs i) (linspace0 (((ny - 1 : ℕ) : ℝ)) ys j) hne
  unfold zoomRbs
  rw [key]
  refine sum_congr rfl (fun pq hpq => ?_)
  have hmem := Finset.mem_product.mp hpq
  have hp : pq.1 ≤ order := Nat.lt_succ_iff.mp (Finset.mem_range.mp hmem.1)
  have hq : pq.2 ≤ order := Nat.lt_succ_iff.mp (Finset.mem_range.mp hmem.2)
  have := zoom_rbs_monomial S hS order nx ny pq.1 pq.2 xs ys hx hy hp hq i j hi hj
  unfold zoomRbs at this
  rw [this]

/-- complex value of the pair (re, im) the model returns -/
def toC (z : ℝ × ℝ) : ℂ := ⟨z.1, z.2⟩

/-- **Complex data are treated as real + i·imag** (`zoom_rbs`): real and imaginary parts are zoomed separately … -/
theorem zoom_rbs_complex (order nx ny xs ys : ℕ) (d : ℕ → ℕ → ℂ) (i j : ℕ) :
    toC (zoomRbsComplex S order nx ny (fun i j => (d i j).re) (fun i j => (d i j).im) xs ys i j)
      = ((zoomRbs S order nx ny (fun i j => (d i j).re) xs ys i j : ℝ) : ℂ)
        + Complex.I * ((zoomRbs S order nx ny (fun i j => (d i j).im) xs ys i j : ℝ) : ℂ) := by
  apply Complex.ext <;> simp [toC, zoomRbsComplex]

/-- … consequently the complex zoom is ℂ-linear: multiplying the data by a complex constant multiplies the result. -/
theorem zoom_rbs_complex_smul (hS : SplineContract S) (order nx ny xs ys : ℕ) (w : ℂ) (d : ℕ → ℕ → ℂ) (i j : ℕ) :
    toC (zoomRbsComplex S order nx ny (fun i j => (w * d i j).re) (fun i j => (w * d i j).im) xs ys i j)
      = w * toC (zoomRbsComplex S order nx ny (fun i j => (d i j).re) (fun i j => (d i j).im) xs ys i j) := by
  have hneg : ∀ (e : ℕ → ℕ → ℝ) x y, S.eval order nx ny (fun i j => -e i j) x y = -S.eval order nx ny e x y := by
    intro e x y
    have := hS.smul order nx ny (-1) e x y
    simpa using this
  apply Complex.ext
  · simp only [toC, zoomRbsComplex, zoomRbs, Complex.mul_re]
    have h1 := hS.add order nx ny (fun i j => w.re * (d i j).re) (fun i j => -(w.im * (d i j).im))
    have h2 : (fun i j => w.re * (d i j).re - w.im * (d i j).im)
        = (fun i j => w.re * (d i j).re + -(w.im * (d i j).im)) := by
      funext i j; ring
    rw [h2, h1, hS.smul, hneg (fun i j => w.im * (d i j).im), hS.smul]
    ring
  · simp only [toC, zoomRbsComplex, zoomRbs, Complex.mul_im]
    have := hS.add order nx ny (fun i j => w.re * (d i j).im) (fun i j => w.im * (d i j).re)
    rw [this, hS.smul, hS.smul]

/-- … and a complex array with zero imaginary part zooms to a real result. -/
theorem zoom_rbs_complex_real (hS : SplineContract S) (order nx ny xs ys : ℕ) (d : ℕ → ℕ → ℝ) (i j : ℕ) :
    toC (zoomRbsComplex S order nx ny d (fun _ _ => 0) xs ys i j) = ((zoomRbs S order nx ny d xs ys i j : ℝ) : ℂ) := by
  have h0 : ∀ x y, S.eval order nx ny (fun _ _ => (0 : ℝ)) x y = 0 := by
    intro x y
    have := hS.smul order nx ny 0 (fun _ _ => (0 : ℝ)) x y
    simpa using this
  apply Complex.ext <;> simp [toC, zoomRbsComplex, zoomRbs, h0]

/-! ### the same four clauses for the other entry point `zoom` (orders 1, 3, 5) -/

theorem zoom_accepts (order nx ny xs ys : ℕ) (d : ℕ → ℕ → ℝ) (ho : order = 1 ∨ order = 3 ∨ order = 5) :
    zoom S order nx ny d xs ys = some (zoomRbs S order nx ny d xs ys) := by
  unfold zoom; rw [if_pos ho]

theorem zoomComplex_accepts (order nx ny xs ys : ℕ) (re im : ℕ → ℕ → ℝ) (ho : order = 1 ∨ order = 3 ∨ order = 5) :
    zoomComplex S order nx ny re im xs ys = some (zoomRbsComplex S order nx ny re im xs ys) := by
  unfold zoomComplex; rw [if_pos ho]

theorem zoom_same_size_id (hS : SplineContract S) (order nx ny : ℕ) (d : ℕ → ℕ → ℝ) (ho : order = 1 ∨ order = 3 ∨ order = 5)
    (hx : order < nx) (hy : order < ny) :
    ∃ out, zoom S order nx ny d nx ny = some out ∧ ∀ i < nx, ∀ j < ny, out i j = d i j :=
  ⟨_, zoom_accepts S order nx ny nx ny d ho, fun i hi j hj => zoom_rbs_same_size_id S hS order nx ny d hx hy i j hi hj⟩

theorem zoom_nodes (hS : SplineContract S) (order nx ny mx my : ℕ) (d : ℕ → ℕ → ℝ) (ho : order = 1 ∨ order = 3 ∨ order = 5)
    (hx : order < nx) (hy : order < ny) (hmx : 0 < mx) (hmy : 0 < my) :
    ∃ out, zoom S order nx ny d (mx * (nx - 1) + 1) (my * (ny - 1) + 1) = some out ∧
      ∀ i < nx, ∀ j < ny, out (mx * i) (my * j) = d i j :=
  ⟨_, zoom_accepts S order nx ny _ _ d ho,
    fun i hi j hj => zoom_rbs_nodes S hS order nx ny mx my d hx hy hmx hmy i j hi hj⟩

theorem zoom_polynomial (hS : SplineContract S) (order nx ny xs ys : ℕ) (c : ℕ → ℕ → ℝ) (ho : order = 1 ∨ order = 3 ∨ order = 5)
    (hx : order < nx) (hy : order < ny) :
    ∃ out, zoom S order nx ny
        (fun i j => ∑ pq ∈ range (order + 1) ×ˢ range (order + 1), c pq.1 pq.2 * ((i : ℝ) ^ pq.1 * (j : ℝ) ^ pq.2)) xs ys
        = some out ∧
      ∀ i < xs, ∀ j < ys, out i j = ∑ pq ∈ range (order + 1) ×ˢ range (order + 1),
          c pq.1 pq.2 * (linspace0 (((nx - 1 : ℕ) : ℝ)) xs i ^ pq.1 * linspace0 (((ny - 1 : ℕ) : ℝ)) ys j ^ pq.2) :=
  ⟨_, zoom_accepts S order nx ny _ _ _ ho,
    fun i hi j hj => zoom_rbs_polynomial S hS order nx ny xs ys c hx hy i j hi hj⟩

theorem zoom_complex (order nx ny xs ys : ℕ) (d : ℕ → ℕ → ℂ) (ho : order = 1 ∨ order = 3 ∨ order = 5) :
    ∃ out, zoomComplex S order nx ny (fun i j => (d i j).re) (fun i j => (d i j).im) xs ys = some out ∧
      ∀ i j, toC (out i j) = ((zoomRbs S order nx ny (fun i j => (d i j).re) xs ys i j : ℝ) : ℂ)
        + Complex.I * ((zoomRbs S order nx ny (fun i j => (d i j).im) xs ys i j : ℝ) : ℂ) :=
  ⟨_, zoomComplex_accepts S order nx ny xs ys _ _ ho, fun i j => zoom_rbs_complex S order nx ny xs ys d i j⟩

/-- `zoom` rejects every other order (`ValueError`) -/
theorem zoom_rejects (order nx ny xs ys : ℕ) (d : ℕ → ℕ → ℝ) (ho : ¬(order = 1 ∨ order = 3 ∨ order = 5)) :
    zoom S order nx ny d xs ys = none := by
  unfold zoom; rw [if_neg ho]

end Zoom

/-- non-vacuity of the spline contract: tensor-product Lagrange interpolation on the nodes meets every clause, so the
zoom theorems are not vacuous (`Lemmas/ImageReduceLagrange.lean`) -/
theorem spline_contract_consistent : ∃ S : SplineKernel ℝ, SplineContract S :=
  ⟨lagrangeKernel, lagrangeKernel_contract⟩

/-! ## azimuthal_average (any linearly ordered field, any image size, odd or even) -/
section Azimuthal
variable {K : Type} [Field K] [LinearOrder K] [IsStrictOrderedRing K]

/-- **No ring is empty**: for every output index `i < size/2` the ring `circle(i+1) − circle(i)` has at least one
pixel, so `ring.sum()` is a positive integer and the division is defined. -/
theorem rings_nonempty (size i : ℕ) (hi : i < size / 2) : (1 : K) ≤ azDen (K := K) size i := by
  obtain ⟨r, c, hr, hc, h1⟩ := ring_witness (K := K) size i hi
  rw [azDen_eq]
  have hrow : ∀ r' ∈ range size, (0 : K) ≤ ∑ c' ∈ range size, ring (K := K) size i r' c' :=
    fun r' _ => sum_nonneg (fun c' _ => ring_nonneg size i r' c')
  have h2 : ring (K := K) size i r c ≤ ∑ c' ∈ range size, ring (K := K) size i r c' :=
    single_le_sum (f := fun c' => ring (K := K) size i r c') (fun c' _ => ring_nonneg size i r c') (mem_range.mpr hc)
  have h3 : ∑ c' ∈ range size, ring (K := K) size i r c' ≤ ∑ r' ∈ range size, ∑ c' ∈ range size, ring (K := K) size i r' c' :=
    single_le_sum (f := fun r' => ∑ c' ∈ range size, ring (K := K) size i r' c') hrow (mem_range.mpr hr)
  linarith

/-- ring weights are 0 or 1 -/
theorem ring_zero_or_one (size i r c : ℕ) : ring (K := K) size i r c = 0 ∨ ring (K := K) size i r c = 1 := by
  unfold ring
  cases h2 : circle (K := K) ((i : ℕ) : K) size ((0 : ℕ) : K) ((0 : ℕ) : K) true r c
  · cases h1 : circle (K := K) (((i + 1 : ℕ) : K)) size ((0 : ℕ) : K) ((0 : ℕ) : K) true r c <;> simp [ind]
  · have h1 := circle_mono (K := K) ((i : ℕ) : K) ((i + 1 : ℕ) : K) (Nat.cast_nonneg _)
      (by exact_mod_cast Nat.le_succ i) size ((0 : ℕ) : K) ((0 : ℕ) : K) true r c h2
    rw [h1]; simp [ind]

/-- **The azimuthal average of a constant image is that constant**, at every output index. -/
theorem azavg_const (size : ℕ) (v : K) (i : ℕ) (hi : i < size / 2) :
    azimuthalAverage size (fun _ _ => v) i = v := by
  have hpos := azDen_pos (K := K) size i hi
  unfold azimuthalAverage
  rw [azNum_eq, div_eq_iff hpos.ne', azDen_eq, mul_comm v, sum_mul]
  exact sum_congr rfl (fun r _ => by rw [sum_mul])

/-- **Every output value lies between the image minimum and maximum**: if `m ≤ data ≤ M` on the image then
`m ≤ azimuthal_average(data)[i] ≤ M`. -/
theorem azavg_between_min_max (size : ℕ) (data : ℕ → ℕ → K) (m M : K)
    (hm : ∀ r < size, ∀ c < size, m ≤ data r c) (hM : ∀ r < size, ∀ c < size, data r c ≤ M)
    (i : ℕ) (hi : i < size / 2) :
    m ≤ azimuthalAverage size data i ∧ azimuthalAverage size data i ≤ M := by
  have hpos := azDen_pos (K := K) size i hi
  unfold azimuthalAverage
  rw [le_div_iff₀ hpos, div_le_iff₀ hpos, azNum_eq, azDen_eq, mul_sum, mul_sum]
  constructor
  · refine sum_le_sum (fun r hr => ?_)
    rw [mul_sum]
    refine sum_le_sum (fun c hc => ?_)
    rw [mul_comm]
    exact mul_le_mul_of_nonneg_left (hm r (mem_range.mp hr) c (mem_range.mp hc)) (ring_nonneg size i r c)
  · refine sum_le_sum (fun r hr => ?_)
    rw [mul_sum]
    refine sum_le_sum (fun c hc => ?_)
    rw [mul_comm M]
    exact mul_le_mul_of_nonneg_left (hM r (mem_range.mp hr) c (mem_range.mp hc)) (ring_nonneg size i r c)

/-- the average is the weighted mean with 0/1 weights: `avg · #ring = Σ_{ring} data` -/
theorem azavg_is_ring_mean (size : ℕ) (data : ℕ → ℕ → K) (i : ℕ) (hi : i < size / 2) :
    azimuthalAverage size data i * (∑ r ∈ range size, ∑ c ∈ range size, ring (K := K) size i r c)
      = ∑ r ∈ range size, ∑ c ∈ range size, ring size i r c * data r c := by
  have hpos := azDen_pos (K := K) size i hi
  unfold azimuthalAverage
  rw [← azDen_eq, ← azNum_eq, div_mul_cancel₀ _ hpos.ne']

end Azimuthal

/-- non-vacuity: the hypotheses of `azavg_between_min_max` hold for a concrete non-constant 4×4 rational image,
and both rings of a 4×4 image are non-empty with different averages -/
example : azimuthalAverage (K := ℚ) 4 (fun r c => (r * 4 + c : ℚ)) 0 = 15 / 2
    ∧ azimuthalAverage (K := ℚ) 4 (fun r c => (r * r + c : ℚ)) 1 = 5 := by
  constructor <;> decide +kernel

/-! ## encircled_energy (ℝ; any even size `2*dim`, any centre, any non-negative image with positive total,
any radius table that is non-negative and non-decreasing — in particular the code's `linspace(0, dim^(1/1.9), 20)^1.9`) -/
section EE
variable [Transc ℝ] [RealTransc]

/-- **The curve starts at 0**: `yi[0] = 0` (and `xi[0] = 0`), for every image, centre and radius table. -/
theorem ee_starts_zero_of (dim : ℕ) (xc yc : ℝ) (data : ℕ → ℕ → ℝ) (rad : ℕ → ℝ) :
    eeXi (K := ℝ) dim 0 = 0 ∧ eeCurveOf dim xc yc data rad 0 = 0 := by
  have hx : eeXi (K := ℝ) dim 0 = 0 := linspace0_at_zero _ _
  refine ⟨hx, ?_⟩
  unfold eeCurveOf
  rw [hx]
  -- every node with abscissa ≤ 0 carries the value 0
  have hnode : ∀ j, eeXp dim xc yc rad j ≤ 0 → eeFp dim xc yc data rad j = 0 := by
    intro j hj
    cases j with
    | zero => exact eeFp_zero _ _ _ _ _
    | succ j =>
      simp only [eeXp] at hj
      simp only [eeFp]
      rw [eeRaw_zero_of_count_zero dim xc yc data (rad j) (eeCount_zero_of_diam_zero dim xc yc (rad j) hj), zero_div]
  unfold interp
  cases h : lastLE (eeXp dim xc yc rad) 0 (eeNpt + 1) with
  | none => exact eeFp_zero _ _ _ _ _
  | some j =>
    obtain ⟨_, hle, _⟩ := lastLE_some _ _ _ _ h
    simp only
    by_cases h1 : j + 1 = eeNpt + 1
    · rw [if_pos h1]; exact hnode j hle
    · rw [if_neg h1]
      by_cases h2 : (0 : ℝ) ≤ eeXp dim xc yc rad j
      · rw [if_pos h2]; exact hnode j hle
      · exact absurd (eeXp_nonneg dim xc yc rad j) h2

theorem ee_starts_zero (dim : ℕ) (xc yc : ℝ) (data : ℕ → ℕ → ℝ) :
    eeXi (K := ℝ) dim 0 = 0 ∧ eeCurve dim xc yc data 0 = 0 :=
  ee_starts_zero_of dim xc yc data _

/-- the tabulated diameters `xi` are non-decreasing -/
theorem eeXi_mono (dim k k' : ℕ) (hk : k ≤ k') (hk' : k' < 4 * dim) : eeXi (K := ℝ) dim k ≤ eeXi dim k' :=
  linspace0_mono _ (Nat.cast_nonneg _) _ _ _ hk hk'

/-- **The curve never decreases** for a non-negative image (with positive total flux). -/
theorem ee_monotone_of (dim : ℕ) (xc yc : ℝ) (data : ℕ → ℕ → ℝ) (hd : NonnegOn dim data)
    (ht : 0 < sum2 (2 * dim) (2 * dim) data) (rad : ℕ → ℝ) (hr : RadOK rad)
    (k k' : ℕ) (hk : k ≤ k') (hk' : k' < 4 * dim) :
    eeCurveOf dim xc yc data rad k ≤ eeCurveOf dim xc yc data rad k' :=
  interp_mono _ (Nat.succ_pos _) _ _ (eeXp_mono dim xc yc rad hr) (eeFp_mono dim xc yc data hd ht rad hr) _ _
    (eeXi_mono dim k k' hk hk')

theorem ee_monotone (dim : ℕ) (xc yc : ℝ) (data : ℕ → ℕ → ℝ) (hd : NonnegOn dim data)
    (ht : 0 < sum2 (2 * dim) (2 * dim) data) (k k' : ℕ) (hk : k ≤ k') (hk' : k' < 4 * dim) :
    eeCurve dim xc yc data k ≤ eeCurve dim xc yc data k' :=
  ee_monotone_of dim xc yc data hd ht _ (eeRadius_ok dim) k k' hk hk'

/-- **The curve stays within [0, 1]** for a non-negative image. -/
theorem ee_le_one_of (dim : ℕ) (xc yc : ℝ) (data : ℕ → ℕ → ℝ) (hd : NonnegOn dim data)
    (ht : 0 < sum2 (2 * dim) (2 * dim) data) (rad : ℕ → ℝ) (hr : RadOK rad) (k : ℕ) :
    0 ≤ eeCurveOf dim xc yc data rad k ∧ eeCurveOf dim xc yc data rad k ≤ 1 := by
  obtain ⟨hlo, hhi⟩ := interp_bounds (eeNpt + 1) (Nat.succ_pos _) (eeXp dim xc yc rad) (eeFp dim xc yc data rad)
    (eeFp_mono dim xc yc data hd ht rad hr) (eeXi dim k)
  rw [eeFp_zero] at hlo
  exact ⟨hlo, le_trans hhi (eeFp_le_one dim xc yc data hd ht rad _)⟩

theorem ee_le_one (dim : ℕ) (xc yc : ℝ) (data : ℕ → ℕ → ℝ) (hd : NonnegOn dim data)
    (ht : 0 < sum2 (2 * dim) (2 * dim) data) (k : ℕ) :
    0 ≤ eeCurve dim xc yc data k ∧ eeCurve dim xc yc data k ≤ 1 :=
  ee_le_one_of dim xc yc data hd ht _ (eeRadius_ok dim) k

/-- **The reported diameter** is the tabulated diameter `xi[k*]` whose curve value is nearest the requested fraction:
no sample is closer, and `k*` is the first such sample. -/
theorem ee_diameter_is_nearest_sample (dim : ℕ) (hdim : 0 < dim) (xc yc : ℝ) (data : ℕ → ℕ → ℝ) (f : ℝ) :
    let ks := eeIndexOf dim xc yc data (eeRadius dim) f
    eeDiameter dim xc yc data f = eeXi dim ks ∧ ks < 4 * dim ∧
      (∀ k < 4 * dim, |eeCurve dim xc yc data ks - f| ≤ |eeCurve dim xc yc data k - f|) ∧
      (∀ k < ks, |eeCurve dim xc yc data ks - f| < |eeCurve dim xc yc data k - f|) := by
  intro ks
  have hks : ks = argmin (fun k => |eeCurveOf dim xc yc data (eeRadius dim) k - f|) (4 * dim - 1) := by
    show eeIndexOf dim xc yc data (eeRadius dim) f = _
    simp only [eeIndexOf, RealTransc.abs_eq]
  have hle := argmin_le (fun k => |eeCurveOf dim xc yc data (eeRadius dim) k - f|) (4 * dim - 1)
  have hmin := argmin_min (fun k => |eeCurveOf dim xc yc data (eeRadius dim) k - f|) (4 * dim - 1)
  have hfirst := argmin_first (fun k => |eeCurveOf dim xc yc data (eeRadius dim) k - f|) (4 * dim - 1)
  rw [← hks] at hle hmin hfirst
  exact ⟨rfl, by omega, fun k hk => hmin k (by omega), fun k hk => hfirst k hk⟩

/-- **… being where the curve crosses the requested fraction**: whenever two consecutive samples bracket the
fraction (`yi[a] ≤ f ≤ yi[a+1]`, i.e. the curve crosses it inside the tabulated range) the curve value at the
reported diameter is within half that curve step of the fraction. -/
theorem ee_diameter_nearest_crossing (dim : ℕ) (xc yc : ℝ) (data : ℕ → ℕ → ℝ) (f : ℝ) (a : ℕ)
    (ha : a + 1 < 4 * dim) (hlo : eeCurve dim xc yc data a ≤ f) (hhi : f ≤ eeCurve dim xc yc data (a + 1)) :
    |eeCurve dim xc yc data (eeIndexOf dim xc yc data (eeRadius dim) f) - f|
      ≤ (eeCurve dim xc yc data (a + 1) - eeCurve dim xc yc data a) / 2 := by
  have hdim : 0 < dim := by omega
  obtain ⟨_, _, hmin, _⟩ := ee_diameter_is_nearest_sample dim hdim xc yc data f
  have h1 := hmin a (by omega)
  have h2 := hmin (a + 1) ha
  rw [abs_of_nonpos (by linarith : eeCurve dim xc yc data a - f ≤ 0)] at h1
  rw [abs_of_nonneg (by linarith : 0 ≤ eeCurve dim xc yc data (a + 1) - f)] at h2
  linarith

/-- for a monotone curve the reported sample is adjacent to the crossing: no tabulated value lies strictly between
the curve value at the reported diameter and the fraction -/
theorem ee_diameter_adjacent (dim : ℕ) (hdim : 0 < dim) (xc yc : ℝ) (data : ℕ → ℕ → ℝ) (f : ℝ) (k : ℕ) (hk : k < 4 * dim) :
    let y := eeCurve dim xc yc data
    let ks := eeIndexOf dim xc yc data (eeRadius dim) f
    ¬ (y ks < y k ∧ y k ≤ f) ∧ ¬ (f ≤ y k ∧ y k < y ks) := by
  intro y ks
  obtain ⟨_, _, hmin, _⟩ := ee_diameter_is_nearest_sample dim hdim xc yc data f
  have h := hmin k hk
  constructor
  · rintro ⟨h1, h2⟩
    rw [abs_of_nonpos (by linarith : eeCurve dim xc yc data k - f ≤ 0),
      abs_of_nonpos (by change y ks - f ≤ 0; linarith)] at h
    change -(y ks - f) ≤ -(y k - f) at h
    linarith
  · rintro ⟨h1, h2⟩
    rw [abs_of_nonneg (by linarith : 0 ≤ eeCurve dim xc yc data k - f),
      abs_of_nonneg (by change 0 ≤ y ks - f; linarith)] at h
    change y ks - f ≤ y k - f at h
    linarith

end EE

/-- non-vacuity of the encircled-energy hypotheses: the all-ones image of any even size is non-negative with positive
total, and the code's radius table satisfies `RadOK` (`eeRadius_ok`) -/
example (dim : ℕ) (hdim : 0 < dim) :
    NonnegOn dim (fun _ _ => (1 : ℝ)) ∧ 0 < sum2 (K := ℝ) (2 * dim) (2 * dim) (fun _ _ => (1 : ℝ)) := by
  refine ⟨fun _ _ _ _ => zero_le_one, ?_⟩
  rw [sum2_eq]
  simp only [sum_const, card_range, smul_eq_mul, mul_one, nsmul_eq_mul]
  have : (0 : ℝ) < ((2 * dim : ℕ) : ℝ) := by exact_mod_cast (by omega : 0 < 2 * dim)
  positivity

/-
NOT PROVED (assumed or sampled; listed in `chk.assumptions` of harness/props/c16.py)

* `SplineContract S` for the kernel S = scipy.interpolate.RectBivariateSpline (s = 0, kx = ky = order, more than `order`
  nodes per axis): interpolation of the nodes, reproduction of tensor monomials of degree ≤ order inside the grid,
  linearity, locality.  FITPACK is external code; the contract is checked numerically on every instance the harness
  runs (`contract` in harness/props/c16.py) and is shown to be consistent by `spline_contract_consistent`.
* The tie model ↔ source (`Model/ImageReduce.lean` mirrors `binImgs`, `zoom`, `zoom_rbs`, `pupil.circle`,
  `azimuthal_average`, `encircled_energy`, `numpy.linspace`, `numpy.interp`, `numpy.argmin`) is a sampled
  correspondence, not a proof.
* Binary64 statements.  All theorems are over exact arithmetic (any commutative monoid for binning, any ordered
  field for the azimuthal average, ℝ for zoom and encircled energy).  Not proved in IEEE arithmetic:
    theorem ee_monotone_float : ∀ image of non-negative doubles, the computed yi is non-decreasing      (sampled, 1e-13 slack)
    theorem ee_le_one_float   : … the computed yi ≤ 1                                                    (sampled, 1e-13 slack)
    theorem azavg_between_float : … min ≤ computed avg ≤ max                                            (sampled, 1e-12·scale slack)
  and integer wrap-around of narrow dtypes in `binImgs` (the accumulators inherit `data.dtype`).
-/

end AoVerif.Props.C16
