/-
C02 — the tomographic reconstructor is the minimum-variance linear estimator.

Every theorem is about the model `AoVerif.Tomo.reconstructor` / `makeTomographicReconstructor`
(`Model/Tomo.lean`, mirroring `slopecovariance.create_tomographic_covariance_reconstructor` and
`CovarianceMatrix.make_tomographic_reconstructor`) over ℝ, for EVERY matrix size `N`, every partition `n`
(`2n < N`), every conditioning value `rcond ≥ 0`, every covariance matrix `C` in the stated class, and EVERY
pseudo-inverse kernel `pinv` that meets the numpy contract `NumpyPinv` on the call that is made (an SVD
`A = u·diag(s)·vt` with orthogonal factors and `P = pinvFromSvd u s vt`, cut-off `rcond·max s`).

Reading:  `Rm` = returned reconstructor, `Aoff = C[2n:,2n:]`, `Conoff = C[:2n,2n:]`, `Conon = C[:2n,:2n]`,
`J R' = tr(Conon − R' Coffon − Conoff R'ᵀ + R' Aoff R'ᵀ) = E|s_on − R' s_off|²` (`J_eq_sum_sq`),
`Π = projR` the orthogonal projector on the span of the right-singular vectors whose singular value exceeds
the cut-off ("retained singular subspace").
-/
import AoVerif.Lemmas.Tomo

namespace AoVerif.Props.C02
open AoVerif AoVerif.Tomo Matrix

set_option linter.unusedSectionVars false
set_option linter.unusedVariables false

/-! ### notation for the slices of the model as Mathlib matrices -/

/-- the returned reconstructor, `2n × (N-2n)` -/
noncomputable abbrev Rm (pinv : ℕ → ℝ → Mat ℝ → Mat ℝ) (N n : ℕ) (rcond : ℝ) (C : Mat ℝ) :
    Matrix (Fin (2 * n)) (Fin (N - 2 * n)) ℝ :=
  toMat (2 * n) (N - 2 * n) (reconstructor pinv N n rcond C)
noncomputable abbrev Aoff (N n : ℕ) (C : Mat ℝ) : Matrix (Fin (N - 2 * n)) (Fin (N - 2 * n)) ℝ :=
  toMat (N - 2 * n) (N - 2 * n) (covOffOff n C)
noncomputable abbrev Conoff (N n : ℕ) (C : Mat ℝ) : Matrix (Fin (2 * n)) (Fin (N - 2 * n)) ℝ :=
  toMat (2 * n) (N - 2 * n) (covOnOff n C)
noncomputable abbrev Conon (n : ℕ) (C : Mat ℝ) : Matrix (Fin (2 * n)) (Fin (2 * n)) ℝ :=
  toMat (2 * n) (2 * n) (covOnOn n C)
/-- the kernel call made by the code meets the numpy contract -/
abbrev KernelOK (pinv : ℕ → ℝ → Mat ℝ → Mat ℝ) (N n : ℕ) (rcond : ℝ) (C : Mat ℝ) : Type :=
  NumpyPinv (N - 2 * n) rcond (covOffOff n C) (pinv (N - 2 * n) rcond (covOffOff n C))

variable (pinv : ℕ → ℝ → Mat ℝ → Mat ℝ) (N n : ℕ) (rcond : ℝ) (C : Mat ℝ)

/-- product order and slices: `R = C[:2n,2n:] · pinv(C[2n:,2n:], rcond)` -/
theorem recon_eq : Rm pinv N n rcond C
    = Conoff N n C * toMat (N - 2 * n) (N - 2 * n) (pinv (N - 2 * n) rcond (covOffOff n C)) := by
  simp only [Rm, reconstructor, toMat_matMul]

/-- **wrapper**: the method hands the stored `2·Σn_k`-square matrix and `n_subaps[0]` to the function -/
theorem wrapper (n0 : ℕ) (rest : List ℕ) :
    makeTomographicReconstructor pinv (n0 :: rest) rcond C
      = reconstructor pinv (2 * (n0 + rest.sum)) n0 rcond C := by
  simp [makeTomographicReconstructor]

/-! ### normal equations -/

/-- **normal equations on the retained singular subspace** (any square `C_offoff`, any `rcond ≥ 0`):
`R · C_offoff = C_onoff · Π`. -/
theorem normal_eq_retained (hq : 2 * n < N) (hr : 0 ≤ rcond) (k : KernelOK pinv N n rcond C) :
    Rm pinv N n rcond C * Aoff N n C = Conoff N n C * k.svd.projR k.cutoff := by
  obtain ⟨hA, hP⟩ := k.contract
  rw [recon_eq, Matrix.mul_assoc, hP]
  conv_lhs => rw [show Aoff N n C = k.svd.mat from hA]
  rw [k.svd.pinv_mul_mat (k.cutoff_nonneg (by omega) hr)]

/-- `Π` is an orthogonal projector (symmetric, idempotent) … -/
theorem retained_projector (k : KernelOK pinv N n rcond C) :
    (k.svd.projR k.cutoff)ᵀ = k.svd.projR k.cutoff ∧
      k.svd.projR k.cutoff * k.svd.projR k.cutoff = k.svd.projR k.cutoff :=
  ⟨k.svd.projR_symm, k.svd.projR_idem⟩

/-- … it is `P·A`, it reduces `C_offoff` (commutes with it) when `C` is symmetric, and `R` lives on it:
`R Π = R`. -/
theorem retained_reduces (hq : 2 * n < N) (hr : 0 ≤ rcond) (hC : (toMat N N C)ᵀ = toMat N N C)
    (k : KernelOK pinv N n rcond C) :
    k.svd.projR k.cutoff * Aoff N n C = Aoff N n C * k.svd.projR k.cutoff ∧
      Rm pinv N n rcond C * k.svd.projR k.cutoff = Rm pinv N n rcond C := by
  obtain ⟨hA, hP⟩ := k.contract
  have hc := k.cutoff_nonneg (by omega) hr
  have hs : k.svd.matᵀ = k.svd.mat := by rw [← hA]; exact covOffOff_symm (by omega) C hC
  have hLR := k.svd.projL_eq_projR_of_symm hs k.cutoff
  constructor
  · rw [show Aoff N n C = k.svd.mat from hA]
    have e1 : k.svd.projR k.cutoff * k.svd.mat = k.svd.mat * k.svd.pinv k.cutoff * k.svd.mat := by
      rw [← hLR, ← k.svd.mat_mul_pinv hc]
    have e2 : k.svd.mat * k.svd.projR k.cutoff = k.svd.mat * k.svd.pinv k.cutoff * k.svd.mat := by
      rw [← k.svd.pinv_mul_mat hc, Matrix.mul_assoc]
    rw [e1, e2]
  · rw [recon_eq, hP, Matrix.mul_assoc, ← hLR, k.svd.pinv_mul_projL]

/-- **normal equations, zero conditioning, invertible `C_offoff`**: `R · C_offoff = C_onoff`, and the kernel
returned the inverse. -/
theorem normal_eq_full (hq : 2 * n < N) (hr : rcond = 0) (k : KernelOK pinv N n rcond C)
    (hinv : IsUnit (Aoff N n C).det) :
    Rm pinv N n rcond C * Aoff N n C = Conoff N n C ∧
      Rm pinv N n rcond C = Conoff N n C * (Aoff N n C)⁻¹ := by
  obtain ⟨hA, hP⟩ := k.contract
  have hinv' : IsUnit k.svd.mat.det := by rw [← hA]; exact hinv
  have hPinv : toMat (N - 2 * n) (N - 2 * n) (pinv (N - 2 * n) rcond (covOffOff n C)) = (Aoff N n C)⁻¹ := by
    rw [hP, k.cutoff_zero hr, k.svd.pinv_zero_eq_inv hinv', ← hA]
  constructor
  · rw [recon_eq, hPinv, Matrix.nonsing_inv_mul_cancel_right _ _ hinv]
  · rw [recon_eq, hPinv]

/-- **normal equations, zero conditioning, `C` symmetric positive semi-definite** — no invertibility needed:
the cross-covariance of a PSD matrix vanishes on the kernel of `C_offoff`, so `R · C_offoff = C_onoff` exactly. -/
theorem normal_eq_psd (hq : 2 * n < N) (hr : rcond = 0) (hC : (toMat N N C).PosSemidef)
    (k : KernelOK pinv N n rcond C) :
    Rm pinv N n rcond C * Aoff N n C = Conoff N n C := by
  rw [normal_eq_retained pinv N n rcond C hq (le_of_eq hr.symm) k, k.cutoff_zero hr]
  obtain ⟨hA, _⟩ := k.contract
  have hM := blocks_posSemidef (N := N) (n := n) (by omega) C hC
  rw [show toMat (N - 2 * n) (N - 2 * n) (covOffOff n C) = k.svd.mat from hA] at hM
  exact k.svd.offdiag_mul_projR_zero hM

/-! ### optimality -/

/-- the model's residual variance of a competitor `R'` is the matrix functional `J` -/
theorem residual_eq_J (hq : 2 * n < N) (hC : (toMat N N C)ᵀ = toMat N N C) (R' : Mat ℝ) :
    residualVariance N n C R'
      = J (Conon n C) (Conoff N n C) (Aoff N n C) (toMat (2 * n) (N - 2 * n) R') :=
  residualVariance_eq_J (by omega) C R' hC

/-- **optimality**: if `C` is symmetric PSD and `R` satisfies the normal equations then for EVERY competing
linear map `R'` the excess residual variance is `tr((R'−R) C_offoff (R'−R)ᵀ) ≥ 0`. -/
theorem optimal (hq : 2 * n < N) (hC : (toMat N N C).PosSemidef) (R : Matrix (Fin (2 * n)) (Fin (N - 2 * n)) ℝ)
    (hR : R * Aoff N n C = Conoff N n C) (R' : Matrix (Fin (2 * n)) (Fin (N - 2 * n)) ℝ) :
    J (Conon n C) (Conoff N n C) (Aoff N n C) R' - J (Conon n C) (Conoff N n C) (Aoff N n C) R
        = Matrix.trace ((R' - R) * Aoff N n C * (R' - R)ᵀ) ∧
      0 ≤ Matrix.trace ((R' - R) * Aoff N n C * (R' - R)ᵀ) := by
  have hs : (toMat N N C)ᵀ = toMat N N C := by
    have := hC.isHermitian; rwa [IsHermitian, conjTranspose_eq_transpose_of_trivial] at this
  exact ⟨J_sub_of_normal_eq _ _ _ (covOffOff_symm (by omega) C hs) R hR R',
    trace_conj_nonneg (covOffOff_posSemidef (by omega) C hC) _⟩

/-- **the returned reconstructor is optimal** (zero conditioning, `C` symmetric PSD): no linear map has a smaller
expected squared residual, stated on the model's own `residualVariance`. -/
theorem reconstructor_optimal (hq : 2 * n < N) (hr : rcond = 0) (hC : (toMat N N C).PosSemidef)
    (k : KernelOK pinv N n rcond C) (R' : Mat ℝ) :
    residualVariance N n C (reconstructor pinv N n rcond C) ≤ residualVariance N n C R' := by
  have hs : (toMat N N C)ᵀ = toMat N N C := by
    have := hC.isHermitian; rwa [IsHermitian, conjTranspose_eq_transpose_of_trivial] at this
  rw [residual_eq_J N n C hq hs, residual_eq_J N n C hq hs]
  have h := optimal N n C hq hC (Rm pinv N n rcond C) (normal_eq_psd pinv N n rcond C hq hr hC k)
    (toMat (2 * n) (N - 2 * n) R')
  linarith [h.1, h.2]

/-- **optimality on the retained subspace** (any `rcond ≥ 0`, `C` symmetric PSD): among all linear maps that use
only the retained singular subspace (`R' Π = R'`), the returned reconstructor has the smallest residual
variance, with excess `tr((R'−R) C_offoff (R'−R)ᵀ)`. -/
theorem optimal_retained (hq : 2 * n < N) (hr : 0 ≤ rcond) (hC : (toMat N N C).PosSemidef)
    (k : KernelOK pinv N n rcond C) (R' : Matrix (Fin (2 * n)) (Fin (N - 2 * n)) ℝ)
    (hR' : R' * k.svd.projR k.cutoff = R') :
    J (Conon n C) (Conoff N n C) (Aoff N n C) R' - J (Conon n C) (Conoff N n C) (Aoff N n C) (Rm pinv N n rcond C)
        = Matrix.trace ((R' - Rm pinv N n rcond C) * Aoff N n C * (R' - Rm pinv N n rcond C)ᵀ) ∧
      0 ≤ Matrix.trace ((R' - Rm pinv N n rcond C) * Aoff N n C * (R' - Rm pinv N n rcond C)ᵀ) := by
  have hs : (toMat N N C)ᵀ = toMat N N C := by
    have := hC.isHermitian; rwa [IsHermitian, conjTranspose_eq_transpose_of_trivial] at this
  refine ⟨?_, trace_conj_nonneg (covOffOff_posSemidef (by omega) C hC) _⟩
  have hadd := J_add (Conon n C) (Conoff N n C) (Aoff N n C) (covOffOff_symm (by omega) C hs)
    (Rm pinv N n rcond C) (R' - Rm pinv N n rcond C)
  rw [add_sub_cancel] at hadd
  rw [hadd]
  -- the linear term vanishes: (R A − C_onoff)(R'−R)ᵀ = C_onoff (Π − 1) Π (R'−R)ᵀ = 0
  have hRP := (retained_reduces pinv N n rcond C hq hr hs k).2
  have hD : (R' - Rm pinv N n rcond C) * k.svd.projR k.cutoff = R' - Rm pinv N n rcond C := by
    rw [Matrix.sub_mul, hR', hRP]
  have hlin : (Rm pinv N n rcond C * Aoff N n C - Conoff N n C) * (R' - Rm pinv N n rcond C)ᵀ = 0 := by
    rw [normal_eq_retained pinv N n rcond C hq hr k]
    conv_lhs => rw [← hD]
    rw [transpose_mul, k.svd.projR_symm, ← Matrix.mul_assoc, Matrix.sub_mul, Matrix.mul_assoc (Conoff N n C),
      k.svd.projR_idem, sub_self, Matrix.zero_mul]
  rw [hlin]; simp

/-- **strict optimality / uniqueness**: when `C_offoff` is positive definite every OTHER linear map has a strictly
larger residual variance than a solution of the normal equations -/
theorem optimal_strict (hq : 2 * n < N) (hC : (toMat N N C)ᵀ = toMat N N C) (hA : (Aoff N n C).PosDef)
    (R : Matrix (Fin (2 * n)) (Fin (N - 2 * n)) ℝ) (hR : R * Aoff N n C = Conoff N n C)
    (R' : Matrix (Fin (2 * n)) (Fin (N - 2 * n)) ℝ) (hne : R' ≠ R) :
    J (Conon n C) (Conoff N n C) (Aoff N n C) R < J (Conon n C) (Conoff N n C) (Aoff N n C) R' := by
  have h1 := J_sub_of_normal_eq (Conon n C) (Conoff N n C) (Aoff N n C) (covOffOff_symm (by omega) C hC) R hR R'
  have h2 := trace_conj_pos hA (R' - R) (sub_ne_zero.mpr hne)
  linarith

/-- `optimal_retained` on the model's own `residualVariance`: for any `rcond ≥ 0` no linear map supported on the
retained singular subspace has a smaller expected squared residual than the returned reconstructor -/
theorem reconstructor_optimal_retained (hq : 2 * n < N) (hr : 0 ≤ rcond) (hC : (toMat N N C).PosSemidef)
    (k : KernelOK pinv N n rcond C) (R' : Mat ℝ)
    (hR' : toMat (2 * n) (N - 2 * n) R' * k.svd.projR k.cutoff = toMat (2 * n) (N - 2 * n) R') :
    residualVariance N n C (reconstructor pinv N n rcond C) ≤ residualVariance N n C R' := by
  have hs : (toMat N N C)ᵀ = toMat N N C := by
    have := hC.isHermitian; rwa [IsHermitian, conjTranspose_eq_transpose_of_trivial] at this
  rw [residual_eq_J N n C hq hs, residual_eq_J N n C hq hs]
  have h := optimal_retained pinv N n rcond C hq hr hC k (toMat (2 * n) (N - 2 * n) R') hR'
  linarith [h.1, h.2]

/-! ### duplicate sensor -/

/-- **duplicate sensor, matrix form**: if the on-axis rows of the cross-covariance are a fixed linear image
`E · C_offoff` of the off-axis covariance (zero conditioning, invertible `C_offoff`) the reconstructor IS `E`. -/
theorem duplicate_matrix (hq : 2 * n < N) (hr : rcond = 0) (k : KernelOK pinv N n rcond C)
    (hinv : IsUnit (Aoff N n C).det) (E : Matrix (Fin (2 * n)) (Fin (N - 2 * n)) ℝ)
    (hE : Conoff N n C = E * Aoff N n C) : Rm pinv N n rcond C = E := by
  rw [(normal_eq_full pinv N n rcond C hq hr k hinv).2, hE, Matrix.mul_nonsing_inv_cancel_right _ _ hinv]

/-- **duplicate sensor**: the on-axis sensor has the same slopes as the off-axis sensor whose `2n` slopes start at
off-axis position `k0` (rows `i` and `2n+k0+i` of the covariance matrix coincide).  Then the reconstructor copies
that sensor and gives zero weight to every other slope: `R[i, k0+i] = 1`, all other entries `0`. -/
theorem duplicate (hq : 2 * n < N) (hr : rcond = 0) (k : KernelOK pinv N n rcond C)
    (hinv : IsUnit (Aoff N n C).det) (k0 : ℕ) (hk0 : k0 + 2 * n ≤ N - 2 * n)
    (hdup : ∀ i < 2 * n, ∀ j < N, C i j = C (2 * n + k0 + i) j) :
    ∀ (i : Fin (2 * n)) (j : Fin (N - 2 * n)),
      Rm pinv N n rcond C i j = if (j : ℕ) = k0 + i then 1 else 0 := by
  have hE : Conoff N n C
      = (Matrix.of fun (i : Fin (2 * n)) (j : Fin (N - 2 * n)) => if (j : ℕ) = k0 + i then (1 : ℝ) else 0)
          * Aoff N n C := by
    ext i j
    have hi := i.isLt; have hj := j.isLt
    rw [Matrix.mul_apply]
    have hidx : k0 + (i : ℕ) < N - 2 * n := by omega
    rw [Finset.sum_eq_single (⟨k0 + i, hidx⟩ : Fin (N - 2 * n))]
    · simp only [Matrix.of_apply, toMat_apply, covOnOff, covOffOff, if_true, one_mul]
      rw [hdup i hi (2 * n + j) (by omega)]; congr 1; omega
    · intro b _ hb
      have : (b : ℕ) ≠ k0 + i := fun h => hb (Fin.ext h)
      simp [this]
    · intro h; exact absurd (Finset.mem_univ _) h
  intro i j
  rw [duplicate_matrix pinv N n rcond C hq hr k hinv _ hE]; rfl

/-- consequence: applied to any off-axis slope vector the reconstructor returns exactly the duplicated sensor's
slopes -/
theorem duplicate_reproduces (hq : 2 * n < N) (hr : rcond = 0) (k : KernelOK pinv N n rcond C)
    (hinv : IsUnit (Aoff N n C).det) (k0 : ℕ) (hk0 : k0 + 2 * n ≤ N - 2 * n)
    (hdup : ∀ i < 2 * n, ∀ j < N, C i j = C (2 * n + k0 + i) j) (s : Fin (N - 2 * n) → ℝ) (i : Fin (2 * n)) :
    (Rm pinv N n rcond C *ᵥ s) i = s ⟨k0 + i, by have := i.isLt; omega⟩ := by
  have h := duplicate pinv N n rcond C hq hr k hinv k0 hk0 hdup
  simp only [mulVec, dotProduct, h]
  rw [Finset.sum_eq_single (⟨k0 + i, by have := i.isLt; omega⟩ : Fin (N - 2 * n))]
  · simp
  · intro b _ hb
    have : (b : ℕ) ≠ k0 + i := fun h => hb (Fin.ext h)
    simp [this]
  · intro h; exact absurd (Finset.mem_univ _) h

/-! #### duplicate sensor without invertibility

`duplicate_matrix`, `duplicate`, `duplicate_reproduces` need `rcond = 0` AND `IsUnit (det C_offoff)`: with a singular
`C_offoff` the selection matrix is only ONE of the solutions of the normal equations and `pinv` returns the minimum-norm
one, which need not be it.  What survives for every symmetric PSD `C` (zero conditioning): the reconstructor and the
selection matrix agree on everything the off-axis slopes can do — `R·C_offoff = E·C_offoff`, equivalently the
difference `(R − E)·s_off` has zero variance. -/

/-- the selection matrix "copy the `2n` slopes that start at off-axis position `k0`" -/
def selE (N n k0 : ℕ) : Matrix (Fin (2 * n)) (Fin (N - 2 * n)) ℝ :=
  Matrix.of fun i j => if (j : ℕ) = k0 + i then (1 : ℝ) else 0

/-- duplicated rows: the cross-covariance is the selection of the off-axis covariance -/
theorem conoff_eq_sel (hq : 2 * n < N) (k0 : ℕ) (hk0 : k0 + 2 * n ≤ N - 2 * n)
    (hdup : ∀ i < 2 * n, ∀ j < N, C i j = C (2 * n + k0 + i) j) :
    Conoff N n C = selE N n k0 * Aoff N n C := by
  ext i j
  have hi := i.isLt; have hj := j.isLt
  rw [Matrix.mul_apply]
  have hidx : k0 + (i : ℕ) < N - 2 * n := by omega
  rw [Finset.sum_eq_single (⟨k0 + i, hidx⟩ : Fin (N - 2 * n))]
  · simp only [selE, Matrix.of_apply, toMat_apply, covOnOff, covOffOff, if_true, one_mul]
    rw [hdup i hi (2 * n + j) (by omega)]; congr 1; omega
  · intro b _ hb
    have : (b : ℕ) ≠ k0 + i := fun h => hb (Fin.ext h)
    simp [selE, this]
  · intro h; exact absurd (Finset.mem_univ _) h

/-- **duplicate sensor, `C` symmetric PSD, `C_offoff` possibly singular** (zero conditioning): `R·C_offoff = E·C_offoff`,
and the residual `(R − E)·s_off` has zero variance `(R − E)·C_offoff·(R − E)ᵀ = 0` -/
theorem duplicate_psd (hq : 2 * n < N) (hr : rcond = 0) (hC : (toMat N N C).PosSemidef)
    (k : KernelOK pinv N n rcond C) (k0 : ℕ) (hk0 : k0 + 2 * n ≤ N - 2 * n)
    (hdup : ∀ i < 2 * n, ∀ j < N, C i j = C (2 * n + k0 + i) j) :
    Rm pinv N n rcond C * Aoff N n C = selE N n k0 * Aoff N n C
      ∧ (Rm pinv N n rcond C - selE N n k0) * Aoff N n C * (Rm pinv N n rcond C - selE N n k0)ᵀ = 0 := by
  have h1 : Rm pinv N n rcond C * Aoff N n C = selE N n k0 * Aoff N n C := by
    rw [normal_eq_psd pinv N n rcond C hq hr hC k]
    exact conoff_eq_sel N n C hq k0 hk0 hdup
  refine ⟨h1, ?_⟩
  rw [Matrix.sub_mul, h1, sub_self, Matrix.zero_mul]

/-! ### the functional `J` is the expected squared residual -/

/-- for covariance blocks that are the second moments of ANY finite sample of slope vectors (every symmetric PSD
matrix arises this way) `J R'` is the summed squared residual `Σ_t |s_on(t) − R' s_off(t)|²` -/
theorem J_eq_sum_sq {p q T : Type} [Fintype p] [Fintype q] [Fintype T]
    (Son : Matrix p T ℝ) (Soff : Matrix q T ℝ) (R' : Matrix p q ℝ) :
    J (Son * Sonᵀ) (Son * Soffᵀ) (Soff * Soffᵀ) R' = ∑ i, ∑ t, ((Son - R' * Soff) i t) ^ 2 :=
  Tomo.J_eq_sum_sq Son Soff R'

/-! ### the contract is consistent: Penrose equations follow from it -/

/-- the SVD-truncation contract implies the Penrose equations the harness checks numerically:
`P A P = P`, `(A P)ᵀ = A P`, `(P A)ᵀ = P A` for every cut-off, and `A P A = A` for zero conditioning -/
theorem contract_penrose (hq : 2 * n < N) (hr : 0 ≤ rcond) (k : KernelOK pinv N n rcond C) :
    let A := Aoff N n C
    let P := toMat (N - 2 * n) (N - 2 * n) (pinv (N - 2 * n) rcond (covOffOff n C))
    P * A * P = P ∧ (A * P)ᵀ = A * P ∧ (P * A)ᵀ = P * A ∧ (rcond = 0 → A * P * A = A) := by
  obtain ⟨hA, hP⟩ := k.contract
  have hc := k.cutoff_nonneg (by omega) hr
  intro A P
  have hA' : A = k.svd.mat := hA
  have hP' : P = k.svd.pinv k.cutoff := hP
  refine ⟨?_, ?_, ?_, ?_⟩
  · rw [hA', hP']; exact k.svd.penrose2 hc
  · rw [hA', hP']; exact k.svd.penrose3 hc
  · rw [hA', hP']; exact k.svd.penrose4 hc
  · intro h0; rw [hA', hP', k.cutoff_zero h0]; exact k.svd.penrose1

/-- the cut-off of the contract is `rcond` times the LARGEST singular value -/
theorem contract_cutoff (hq : 2 * n < N) (k : KernelOK pinv N n rcond C) :
    k.cutoff = rcond * sigMax (N - 2 * n) k.sv ∧ (∀ i < N - 2 * n, k.sv i ≤ sigMax (N - 2 * n) k.sv) ∧
      ∃ i < N - 2 * n, sigMax (N - 2 * n) k.sv = k.sv i :=
  ⟨rfl, fun i hi => sigMax_ge _ _ i hi, sigMax_mem _ (by omega) _⟩

/-! ### non-vacuity: the hypotheses are satisfiable on a concrete non-trivial configuration -/

section NonVacuity

/-- `C = G Gᵀ` for `G = [[1,0,0],[0,1,0],[1,0,1]]`: a 3×3 PSD matrix with non-zero cross-covariance, `n = 1` -/
def exC : Mat ℝ := fun i j =>
  if i = 0 ∧ j = 0 then 1 else if i = 1 ∧ j = 1 then 1 else if i = 2 ∧ j = 2 then 2
  else if (i = 0 ∧ j = 2) ∨ (i = 2 ∧ j = 0) then 1 else 0

/-- a kernel that returns `[[1/2]]` on the one call the code makes -/
noncomputable def exPinv : ℕ → ℝ → Mat ℝ → Mat ℝ := fun _ _ _ _ _ => 1 / 2

example : (toMat 3 3 exC).PosSemidef := by
  have : toMat 3 3 exC = (!![1, 0, 0; 0, 1, 0; 1, 0, 1] : Matrix (Fin 3) (Fin 3) ℝ)
      * (!![1, 0, 0; 0, 1, 0; 1, 0, 1] : Matrix (Fin 3) (Fin 3) ℝ)ᴴ := by
    ext i j; fin_cases i <;> fin_cases j <;>
      simp [exC, Matrix.mul_apply, Fin.sum_univ_three] <;> norm_num
  rw [this]; exact posSemidef_self_mul_conjTranspose _

/-- the contract hypothesis `KernelOK` is inhabited (zero conditioning): u = vt = [[1]], s = [2] -/
noncomputable example : KernelOK exPinv 3 1 0 exC where
  u := fun _ _ => 1
  sv := fun _ => 2
  vt := fun _ _ => 1
  orth_u := by
    have : Unique (Fin (3 - 2 * 1)) := (inferInstance : Unique (Fin 1))
    ext i j; simp [Matrix.mul_apply, Matrix.one_apply, Subsingleton.elim i j, Fintype.sum_unique]
  orth_vt := by
    have : Unique (Fin (3 - 2 * 1)) := (inferInstance : Unique (Fin 1))
    ext i j; simp [Matrix.mul_apply, Matrix.one_apply, Subsingleton.elim i j, Fintype.sum_unique]
  sv_nonneg := fun _ _ => by norm_num
  factor := by
    ext i j
    have hi : (i : ℕ) = 0 := by have := i.isLt; omega
    have hj : (j : ℕ) = 0 := by have := j.isLt; omega
    have : Unique (Fin (3 - 2 * 1)) := (inferInstance : Unique (Fin 1))
    simp [Matrix.mul_apply, covOffOff, exC, hi, hj, Fintype.sum_unique, Matrix.diagonal_apply,
      Subsingleton.elim default j]
  out := by
    ext i j
    simp [exPinv, pinvFromSvd, sumTo_eq_sum, truncInv_eq, sigMax]

example : IsUnit (Aoff 3 1 exC).det := by
  have : Aoff 3 1 exC = (2 : ℝ) • (1 : Matrix (Fin (3 - 2 * 1)) (Fin (3 - 2 * 1)) ℝ) := by
    ext i j
    have hi : (i : ℕ) = 0 := by have := i.isLt; omega
    have hj : (j : ℕ) = 0 := by have := j.isLt; omega
    have hij : i = j := Fin.ext (by omega)
    simp [covOffOff, exC, hi, hj, hij]
  rw [this]; simp

/-- `optimal_strict`'s hypothesis is satisfiable: here `C_offoff = [[2]]` is positive definite -/
example : (Aoff 3 1 exC).PosDef := by
  have : Aoff 3 1 exC = diagonal (fun _ => (2 : ℝ)) := by
    ext i j
    have hi : (i : ℕ) = 0 := by have := i.isLt; omega
    have hj : (j : ℕ) = 0 := by have := j.isLt; omega
    have hij : i = j := Fin.ext (by omega)
    simp [covOffOff, exC, hi, hj, hij]
  rw [this]; exact posDef_diagonal_iff.mpr (fun _ => by norm_num)

/-- a 2×2 instance WITH truncation: `A = U diag(2,1) Uᵀ`, `U = [[3/5,4/5],[4/5,-3/5]]`, `rcond = 3/4` (cut-off 3/2):
the kernel must return `U diag(1/2, 0) Uᵀ` -/
noncomputable def ex2U : Mat ℝ := fun i j => if i = 0 ∧ j = 0 then 3/5 else if i = 1 ∧ j = 1 then -3/5 else 4/5
def ex2S : ℕ → ℝ := fun i => if i = 0 then 2 else 1
noncomputable def ex2A : Mat ℝ := fun i j => if i = 0 ∧ j = 0 then 34/25 else if i = 1 ∧ j = 1 then 41/25 else 12/25
noncomputable def ex2P : Mat ℝ := fun i j => if i = 0 ∧ j = 0 then 9/50 else if i = 1 ∧ j = 1 then 16/50 else 12/50

noncomputable example : NumpyPinv 2 (3/4) ex2A ex2P where
  u := ex2U
  sv := ex2S
  vt := Tomo.transpose ex2U
  orth_u := by
    ext i j; fin_cases i <;> fin_cases j <;> simp [Matrix.mul_apply, Fin.sum_univ_two, ex2U] <;> norm_num
  orth_vt := by
    ext i j; fin_cases i <;> fin_cases j <;>
      simp [Matrix.mul_apply, Fin.sum_univ_two, ex2U, Tomo.transpose] <;> norm_num
  sv_nonneg := fun i _ => by unfold ex2S; split_ifs <;> norm_num
  factor := by
    ext i j; fin_cases i <;> fin_cases j <;>
      simp [Matrix.mul_apply, Fin.sum_univ_two, ex2U, ex2S, ex2A, Tomo.transpose, Matrix.diagonal_apply] <;> norm_num
  out := by
    ext i j; fin_cases i <;> fin_cases j <;>
      simp [pinvFromSvd, sumTo_eq_sum, Finset.sum_range_succ, truncInv_eq, sigMax, ex2U, ex2S, ex2P, Tomo.transpose,
        List.range_succ] <;> norm_num
/-- duplicate-sensor hypothesis: `C = [[I,I],[I,I]]` (4×4, n = 1, k0 = 0) has rows 0,1 equal to rows 2,3 -/
example : ∃ C : Mat ℝ, (∀ i < 2 * 1, ∀ j < 4, C i j = C (2 * 1 + 0 + i) j) ∧ C 0 2 = 1 :=
  ⟨fun i j => if i % 2 = j % 2 then 1 else 0, by intro i hi j hj; simp [Nat.add_mod], by simp⟩

/-- the hypotheses of `duplicate_psd` hold together on a matrix whose `C_offoff` is SINGULAR (so that `duplicate` does
not apply): `C = v vᵀ`, `v = e₀ + e₂` (4×4, n = 1, k0 = 0), `C_offoff = [[1,0],[0,0]]`, kernel `u = vt = 1`, `s = (1,0)` -/
def exS : Mat ℝ := fun i j => if (i = 0 ∨ i = 2) ∧ (j = 0 ∨ j = 2) then 1 else 0
def exSP : ℕ → ℝ → Mat ℝ → Mat ℝ := fun _ _ _ i j => if i = 0 ∧ j = 0 then 1 else 0

example : (toMat 4 4 exS).PosSemidef := by
  have : toMat 4 4 exS = (!![1; 0; 1; 0] : Matrix (Fin 4) (Fin 1) ℝ) * (!![1; 0; 1; 0] : Matrix (Fin 4) (Fin 1) ℝ)ᴴ := by
    ext i j; fin_cases i <;> fin_cases j <;> simp [exS, Matrix.mul_apply]
  rw [this]; exact posSemidef_self_mul_conjTranspose _

example : (∀ i < 2 * 1, ∀ j < 4, exS i j = exS (2 * 1 + 0 + i) j) ∧ ¬ IsUnit (Aoff 4 1 exS).det := by
  constructor
  · intro i hi j _
    have : i = 0 ∨ i = 1 := by omega
    rcases this with rfl | rfl <;> simp [exS]
  · have : (Aoff 4 1 exS).det = 0 := by
      have e : Aoff 4 1 exS = (!![1, 0; 0, 0] : Matrix (Fin 2) (Fin 2) ℝ) := by
        ext i j; fin_cases i <;> fin_cases j <;> simp [covOffOff, exS]
      rw [e]; simp [Matrix.det_fin_two]
    rw [this]; simp

noncomputable example : KernelOK exSP 4 1 0 exS where
  u := fun i j => if i = j then 1 else 0
  sv := fun i => if i = 0 then 1 else 0
  vt := fun i j => if i = j then 1 else 0
  orth_u := by
    ext i j; fin_cases i <;> fin_cases j <;> simp [Matrix.mul_apply, Fin.sum_univ_two]
  orth_vt := by
    ext i j; fin_cases i <;> fin_cases j <;> simp [Matrix.mul_apply, Fin.sum_univ_two]
  sv_nonneg := fun i _ => by split_ifs <;> norm_num
  factor := by
    ext i j; fin_cases i <;> fin_cases j <;>
      simp [Matrix.mul_apply, Fin.sum_univ_two, covOffOff, exS, Matrix.diagonal_apply]
  out := by
    ext i j; fin_cases i <;> fin_cases j <;>
      simp [exSP, pinvFromSvd, sumTo_eq_sum, Finset.sum_range_succ, truncInv_eq, sigMax, List.range_succ]

end NonVacuity

/-
NOT PROVED (listed in the evidence under `assumptions`; evaluated numerically by the harness on every run):

* `numpy_meets_contract` : for every square float matrix `A` and `rcond ≥ 0`, the outputs of `numpy.linalg.svd(A)` and
  `numpy.linalg.pinv(A, rcond)` inhabit `NumpyPinv q rcond A P` (orthogonal factors, non-negative singular values,
  `A = u·diag(s)·vt`, `P = pinvFromSvd q rcond u s vt`).  LAPACK is not modelled; every theorem above takes the
  contract as the hypothesis `KernelOK`, and the harness checks its fields (and the Penrose equations that
  `contract_penrose` derives from it) to rounding on each generated call.
* `holds_to_rounding` : "with zero conditioning and a well-conditioned C_offoff the equality holds to rounding" — a
  statement about binary32/binary64 arithmetic.  The exact-arithmetic content is `normal_eq_full` / `normal_eq_psd`;
  the rounding part is decided by the oracle (‖R·C_offoff − C_onoff‖ ≤ 1e-9·scale for float64 with cond ≤ 1e3,
  2e-3·scale for float32 with cond ≤ 30).
* `J_is_expectation` : `J R' = E|s_on − R' s_off|²` for a random slope vector with covariance `C`.  Proved for every
  finite sample (`J_eq_sum_sq`: second moments of any finite family of slope vectors); the measure-theoretic
  expectation is the probabilistic bridge of DESIGN §3.4 and is not formalised here.
-/

end AoVerif.Props.C02
