/-
C03 — covariance construction is independent of process count and scheduling.

Every theorem is about the definitions of `AoVerif/Model/Schedule.lean`, over payload types with NO algebraic laws:
an equation between two builds is an equation between their operation trees (same operands, same order), which is what
bit-identical float32 results need.  Quantification: ALL numbers of WFSs and layers, ALL worker counts ≥ 1, ALL
completion orders that let `Pool.map` return (every chunk completes at least once — weaker than "is a permutation"),
ALL histories of `threads = k` / build / arbitrary scribbling over the scratch attributes.
-/
import AoVerif.Model.Schedule

namespace AoVerif.Props.C03
open AoVerif.Model.Schedule

variable {C P Q A ρ α σ τ ι : Type}

/-! ### result collection of `Pool.map` does not depend on the completion order -/

/-- one completion event -/
private def slotStep (work : List σ) (run : σ → τ) (slots : List (Option τ)) (k : Nat) : List (Option τ) :=
  match work[k]? with
  | some w => slots.set k (some (run w))
  | none => slots

private theorem complete_eq_foldl (work : List σ) (run : σ → τ) (order : List Nat) :
    complete work run order = order.foldl (slotStep work run) (List.replicate work.length none) := rfl

private theorem slotStep_length (work : List σ) (run : σ → τ) (s : List (Option τ)) (k : Nat) :
    (slotStep work run s k).length = s.length := by
  unfold slotStep; split <;> simp

private theorem slotStep_get (work : List σ) (run : σ → τ) (s : List (Option τ)) (hs : s.length = work.length)
    (a k : Nat) :
    (slotStep work run s a)[k]? = if a = k ∧ k < work.length then (work[k]?).map (fun w => some (run w)) else s[k]? := by
  unfold slotStep
  cases hw : work[a]? with
  | none =>
    have : work.length ≤ a := by
      rcases Nat.lt_or_ge a work.length with h | h
      · rw [List.getElem?_eq_getElem h] at hw; cases hw
      · exact h
    have : ¬ (a = k ∧ k < work.length) := by omega
    simp [this]
  | some w =>
    have ha : a < work.length := by
      rcases Nat.lt_or_ge a work.length with h | h
      · exact h
      · rw [List.getElem?_eq_none h] at hw; cases hw
    rw [List.getElem?_set]
    by_cases hak : a = k
    · subst hak
      have hw' : work[a] = w := by
        rw [List.getElem?_eq_getElem ha] at hw; exact Option.some.inj hw
      simp [hs, ha, hw']
    · simp [hak]

private theorem foldl_slot_get (work : List σ) (run : σ → τ) (order : List Nat) :
    ∀ (s : List (Option τ)), s.length = work.length → ∀ k,
      (order.foldl (slotStep work run) s)[k]? =
        if k ∈ order ∧ k < work.length then (work[k]?).map (fun w => some (run w)) else s[k]? := by
  induction order with
  | nil => intro s _ k; simp
  | cons a rest ih =>
    intro s hs k
    rw [List.foldl_cons, ih _ (by rw [slotStep_length]; exact hs) k, slotStep_get work run s hs a k]
    by_cases h1 : k ∈ rest ∧ k < work.length
    · have : k ∈ a :: rest ∧ k < work.length := ⟨List.mem_cons_of_mem _ h1.1, h1.2⟩
      simp [h1, this]
    · rw [if_neg h1]
      by_cases h2 : a = k ∧ k < work.length
      · simp [h2]
      · have : ¬ (k ∈ a :: rest ∧ k < work.length) := by
          rintro ⟨hm, hl⟩
          rcases List.mem_cons.mp hm with e | e
          · exact h2 ⟨e.symm, hl⟩
          · exact h1 ⟨e, hl⟩
        rw [if_neg h2, if_neg this]

private theorem foldl_slot_length (work : List σ) (run : σ → τ) (order : List Nat) :
    ∀ (s : List (Option τ)), (order.foldl (slotStep work run) s).length = s.length := by
  induction order with
  | nil => intro s; rfl
  | cons a rest ih => intro s; rw [List.foldl_cons, ih, slotStep_length]

/-- **collection is positional.**  Whatever the order in which the pieces complete (repetitions and foreign numbers
    allowed), once every piece has completed the slots hold exactly `run work[k]` at position `k`. -/
theorem complete_eq_of_cover (work : List σ) (run : σ → τ) (order : List Nat)
    (hcover : ∀ k, k < work.length → k ∈ order) :
    complete work run order = work.map (fun w => some (run w)) := by
  rw [complete_eq_foldl]
  apply List.ext_getElem?
  intro k
  rw [foldl_slot_get work run order _ (by simp) k]
  by_cases hk : k < work.length
  · simp [hcover k hk, hk]
  · have : ¬ (k ∈ order ∧ k < work.length) := fun h => hk h.2
    rw [if_neg this, List.getElem?_eq_none (by simp; omega), List.getElem?_eq_none (by simp; omega)]

/-- DESIGN name.  `collect π results`: the results, each written into its own slot when it arrives, read back
    positionally — for every permutation `π` of the task numbers this is `results` itself. -/
theorem collect_perm_invariant (results : List τ) (π : List Nat) (hπ : π.Perm (List.range results.length)) :
    complete results id π = results.map some := by
  have := complete_eq_of_cover results id π (fun k hk => (hπ.mem_iff).mpr (List.mem_range.mpr hk))
  simpa using this

/-- two completion orders of the same pieces give the same slots -/
theorem complete_order_irrelevant (work : List σ) (run : σ → τ) (π₁ π₂ : List Nat)
    (h₁ : π₁.Perm (List.range work.length)) (h₂ : π₂.Perm (List.range work.length)) :
    complete work run π₁ = complete work run π₂ := by
  rw [complete_eq_of_cover work run π₁ (fun k hk => (h₁.mem_iff).mpr (List.mem_range.mpr hk)),
    complete_eq_of_cover work run π₂ (fun k hk => (h₂.mem_iff).mpr (List.mem_range.mpr hk))]

/-- a piece that never completes leaves its slot empty: `get()` cannot return (the hypothesis above is needed) -/
theorem complete_missing (work : List σ) (run : σ → τ) (order : List Nat) (k : Nat) (hk : k < work.length)
    (hmiss : k ∉ order) : (complete work run order)[k]? = some none := by
  rw [complete_eq_foldl, foldl_slot_get work run order _ (by simp) k]
  have : ¬ (k ∈ order ∧ k < work.length) := fun h => hmiss h.1
  rw [if_neg this]
  simp [hk]

theorem allSome_map_some (l : List τ) : allSome (l.map some) = some l := by
  induction l with
  | nil => rfl
  | cons a r ih => simp [allSome, ih]

/-! ### chunking -/

theorem chunkSize_pos (len workers : Nat) (h : 0 < len) : 0 < chunkSize len workers := by
  unfold chunkSize
  rw [if_neg (by omega)]
  split
  · rename_i h0
    rcases Nat.eq_zero_or_pos (workers * 4) with hz | hp
    · rw [hz, Nat.mod_zero] at h0; omega
    · have := Nat.div_mul_cancel (Nat.dvd_of_mod_eq_zero h0)
      rcases Nat.eq_zero_or_pos (len / (workers * 4)) with hq | hq
      · rw [hq] at this; omega
      · exact hq
  · exact Nat.succ_pos _

theorem chunks_flatten (c : Nat) (hc : 0 < c) (l : List ι) : (chunks c l).flatten = l := by
  induction l using chunks.induct c with
  | case1 l h =>
    rw [chunks, dif_pos h]
    rcases h with h | h
    · omega
    · simp [h]
  | case2 l h ih =>
    rw [chunks, dif_neg h, List.flatten_cons, ih, List.take_append_drop]

theorem chunks_map (f : ι → τ) (c : Nat) (l : List ι) :
    (chunks c l).map (List.map f) = chunks c (l.map f) := by
  induction l using chunks.induct c with
  | case1 l h =>
    rw [chunks, dif_pos h, chunks, dif_pos (by rcases h with h | h; exact Or.inl h; exact Or.inr (by simp [h]))]
    rfl
  | case2 l h ih =>
    have h' : ¬ (c = 0 ∨ l.map f = []) := by
      intro e; apply h; rcases e with e | e
      · exact Or.inl e
      · exact Or.inr (List.map_eq_nil_iff.mp e)
    rw [chunks, dif_neg h, List.map_cons, ih, chunks.eq_1 c (l.map f), dif_neg h', List.map_take, List.map_drop]

private theorem ceil_step (n c : Nat) (hc : 0 < c) (hn : c < n) :
    (if n % c = 0 then n / c else n / c + 1) = (if (n - c) % c = 0 then (n - c) / c else (n - c) / c + 1) + 1 := by
  have h1 : n % c = (n - c) % c := Nat.mod_eq_sub_mod (Nat.le_of_lt hn)
  have h2 : n / c = (n - c) / c + 1 := Nat.div_eq_sub_div hc (Nat.le_of_lt hn)
  rw [h1, h2]
  split <;> rfl

/-- `Pool._get_tasks` produces exactly `MapResult._number_left` chunks -/
theorem chunks_length (c : Nat) (hc : 0 < c) (l : List ι) :
    (chunks c l).length = if l.length % c = 0 then l.length / c else l.length / c + 1 := by
  induction l using chunks.induct c with
  | case1 l h =>
    rw [chunks, dif_pos h]
    rcases h with h | h
    · omega
    · simp [h]
  | case2 l h ih =>
    rw [chunks, dif_neg h, List.length_cons, ih, List.length_drop]
    have hl : 0 < l.length := List.length_pos_iff.mpr (fun e => h (Or.inr e))
    rcases Nat.lt_or_ge c l.length with hlt | hge
    · rw [ceil_step l.length c hc hlt]
    · have e0 : l.length - c = 0 := by omega
      rw [e0]
      rcases Nat.lt_or_ge l.length c with hlt | hge'
      · rw [Nat.mod_eq_of_lt hlt, Nat.div_eq_of_lt hlt]
        have : l.length ≠ 0 := by omega
        simp [this]
      · have e : l.length = c := by omega
        rw [e, Nat.mod_self, Nat.div_self hc]
        simp

theorem chunks_length_numChunks (workers : Nat) (l : List ι) :
    (chunks (chunkSize l.length workers) l).length = numChunks l.length workers := by
  unfold numChunks
  rcases Nat.eq_zero_or_pos l.length with h0 | hp
  · have hl : l = [] := List.eq_nil_of_length_eq_zero h0
    subst hl
    rw [chunks, dif_pos (Or.inr rfl)]
    simp [chunkSize]
  · have hc := chunkSize_pos l.length workers hp
    rw [chunks_length _ hc]
    have hne : chunkSize l.length workers ≠ 0 := by omega
    simp [hne]

/-- **`Pool.map` is `map`.**  For every worker count and every completion order under which every chunk completes,
    `pool.map(f, args)` returns `[f(a) for a in args]`.  (The statement also covers `workers = 0`, but only through Lean's
    `n % 0 = n`: CPython has no such pool — `Pool(0)` raises `ValueError`, modelled by `build … = none`.  The statement about
    the library is `poolMap_eq_pos` below, whose chunk size is characterised without any division by zero in `chunkSize_spec`.) -/
theorem poolMap_eq (workers : Nat) (order : List Nat) (f : A → ρ) (args : List A)
    (hcover : ∀ k, k < numChunks args.length workers → k ∈ order) :
    poolMap workers order f args = some (args.map f) := by
  unfold poolMap
  rw [complete_eq_of_cover _ _ _ (by rw [chunks_length_numChunks]; exact hcover)]
  have e : ∀ X : List (List A), List.map (fun w => some (List.map f w)) X = List.map some (List.map (List.map f) X) := by
    intro X; simp [List.map_map, Function.comp_def]
  rw [e, allSome_map_some, Option.map_some, chunks_map]
  rcases Nat.eq_zero_or_pos args.length with h0 | hp
  · have hl : args = [] := List.eq_nil_of_length_eq_zero h0
    subst hl
    rw [chunks, dif_pos (Or.inr (by rfl))]
    rfl
  · have hc := chunkSize_pos args.length workers hp
    rw [chunks_flatten _ hc]

/-- for at least one worker the model's chunk size IS CPython's `ceil(len / (4·workers))`: the least `c` with
    `c · 4·workers ≥ len` — no `% 0`, `/ 0` involved -/
theorem chunkSize_spec (len workers : Nat) (hw : 1 ≤ workers) :
    len ≤ chunkSize len workers * (workers * 4) ∧ ∀ c, len ≤ c * (workers * 4) → chunkSize len workers ≤ c := by
  have hp : 0 < workers * 4 := by omega
  have hdm := Nat.div_add_mod len (workers * 4)
  have hlt := Nat.mod_lt len hp
  unfold chunkSize
  by_cases h0 : len = 0
  · rw [if_pos h0]; subst h0; exact ⟨by simp, fun c _ => Nat.zero_le c⟩
  · rw [if_neg h0]
    by_cases hm : len % (workers * 4) = 0
    · rw [if_pos hm]
      rw [hm, Nat.add_zero] at hdm
      refine ⟨by rw [Nat.mul_comm]; omega, fun c hc => ?_⟩
      rw [Nat.mul_comm c] at hc
      exact Nat.div_le_of_le_mul hc
    · rw [if_neg hm]
      refine ⟨?_, fun c hc => ?_⟩
      · rw [Nat.add_mul, Nat.one_mul, Nat.mul_comm]; omega
      · apply Nat.succ_le_of_lt
        apply Nat.lt_of_not_le
        intro hle
        have := Nat.mul_le_mul_right (workers * 4) hle
        rw [Nat.mul_comm (len / (workers * 4))] at this
        omega

/-- **`Pool.map` is `map`, for the pools that exist** (`workers ≥ 1`): the form of `poolMap_eq` that says something about
    CPython; nothing in it rests on the value Lean gives to `n % 0` -/
theorem poolMap_eq_pos (workers : Nat) (hw : 1 ≤ workers) (order : List Nat) (f : A → ρ) (args : List A)
    (hcover : ∀ k, k < numChunks args.length workers → k ∈ order) :
    poolMap workers order f args = some (args.map f)
      ∧ args.length ≤ chunkSize args.length workers * (workers * 4) :=
  ⟨poolMap_eq workers order f args hcover, (chunkSize_spec args.length workers hw).1⟩

/-- the result of `Pool.map` does not depend on the number of workers nor on the schedule -/
theorem poolMap_workers_schedule_irrelevant (w₁ w₂ : Nat) (π₁ π₂ : List Nat) (f : A → ρ) (args : List A)
    (h₁ : ∀ k, k < numChunks args.length w₁ → k ∈ π₁) (h₂ : ∀ k, k < numChunks args.length w₂ → k ∈ π₂) :
    poolMap w₁ π₁ f args = poolMap w₂ π₂ f args := by
  rw [poolMap_eq w₁ π₁ f args h₁, poolMap_eq w₂ π₂ f args h₂]

/-! ### workers -/

/-- `order` is an interleaving of the per-worker completion sequences `queues`: worker `w` finishes the chunks it was
    handed in the order `queues[w]`, and the workers run concurrently in any way whatsoever -/
inductive Interleaving : List (List Nat) → List Nat → Prop
  | done (qs : List (List Nat)) (h : ∀ q ∈ qs, q = []) : Interleaving qs []
  | step (pre : List (List Nat)) (k : Nat) (q : List Nat) (post : List (List Nat)) (rest : List Nat) :
      Interleaving (pre ++ q :: post) rest → Interleaving (pre ++ (k :: q) :: post) (k :: rest)

theorem Interleaving.mem_iff {qs : List (List Nat)} {o : List Nat} (h : Interleaving qs o) (k : Nat) :
    k ∈ o ↔ ∃ q ∈ qs, k ∈ q := by
  induction h with
  | done qs hq =>
    constructor
    · intro hk; cases hk
    · rintro ⟨q, hq', hk⟩; rw [hq q hq'] at hk; cases hk
  | step pre a q post rest _ ih =>
    constructor
    · intro hk
      rcases List.mem_cons.mp hk with e | e
      · exact ⟨a :: q, by simp, by rw [e]; exact List.mem_cons_self⟩
      · obtain ⟨q', hq', hk'⟩ := ih.mp e
        rcases List.mem_append.mp hq' with h1 | h1
        · exact ⟨q', List.mem_append_left _ h1, hk'⟩
        · rcases List.mem_cons.mp h1 with h2 | h2
          · exact ⟨a :: q, by simp, by rw [h2] at hk'; exact List.mem_cons_of_mem _ hk'⟩
          · exact ⟨q', List.mem_append_right _ (List.mem_cons_of_mem _ h2), hk'⟩
    · rintro ⟨q', hq', hk'⟩
      rcases List.mem_append.mp hq' with h1 | h1
      · exact List.mem_cons_of_mem _ (ih.mpr ⟨q', List.mem_append_left _ h1, hk'⟩)
      · rcases List.mem_cons.mp h1 with h2 | h2
        · rw [h2] at hk'
          rcases List.mem_cons.mp hk' with e | e
          · rw [e]; exact List.mem_cons_self
          · exact List.mem_cons_of_mem _ (ih.mpr ⟨q, by simp, e⟩)
        · exact List.mem_cons_of_mem _ (ih.mpr ⟨q', List.mem_append_right _ (List.mem_cons_of_mem _ h2), hk'⟩)

/-- **any number of workers, any assignment of chunks to workers, any interleaving of the workers.**  If every chunk is
    handed to some worker, then however the workers' progress interleaves, `pool.map(f, args) = [f(a) for a in args]`. -/
theorem poolMap_any_interleaving (workers : Nat) (queues : List (List Nat)) (order : List Nat) (f : A → ρ) (args : List A)
    (hi : Interleaving queues order)
    (hall : ∀ k, k < numChunks args.length workers → ∃ q ∈ queues, k ∈ q) :
    poolMap workers order f args = some (args.map f) :=
  poolMap_eq workers order f args (fun k hk => (hi.mem_iff k).mpr (hall k hk))

/-! ### positional consumption (`thread_n`) -/

theorem consume_positional (step : α → Nat → Nat → ρ → α) (g : Nat × Nat → ρ) :
    ∀ (ps : List (Nat × Nat)) (pre : List ρ) (m : α),
      consume step ps pre.length (pre ++ ps.map g) m = some (ps.foldl (fun m p => step m p.1 p.2 (g p)) m) := by
  intro ps
  induction ps with
  | nil => intro pre m; rfl
  | cons p ps ih =>
    intro pre m
    obtain ⟨i, j⟩ := p
    have hget : (pre ++ List.map g ((i, j) :: ps))[pre.length]? = some (g (i, j)) := by
      simp
    rw [consume, hget]
    simp only []
    have := ih (pre ++ [g (i, j)]) (step m i j (g (i, j)))
    rw [List.length_append, List.length_singleton, List.append_assoc] at this
    rw [List.map_cons, List.foldl_cons]
    exact this

/-- the loop nest over `(wfs_i, wfs_j ≤ wfs_i)` visits `pairs n` in order -/
theorem foldl_pairs (n : Nat) (step : α → Nat → Nat → α) (m : α) :
    (pairs n).foldl (fun m p => step m p.1 p.2) m
      = (List.range n).foldl (fun m i => (List.range (i + 1)).foldl (fun m j => step m i j) m) m := by
  unfold pairs
  rw [List.foldl_flatMap]
  congr 1
  funext m i
  rw [List.foldl_map]

/-- number of tasks per layer: n(n+1)/2 -/
theorem pairs_length (n : Nat) : 2 * (pairs n).length = n * (n + 1) := by
  unfold pairs
  induction n with
  | zero => simp
  | succ n ih =>
    rw [List.range_succ, List.flatMap_append, List.length_append, Nat.mul_add, ih]
    simp [Nat.mul_add, Nat.add_mul]
    omega

/-! ### the multi-process build performs the single-process operation tree -/

/-- one layer: under ANY schedule that lets `map` return, the mp loop body leaves exactly the matrix of the
    single-process loop body, and `self.cov_mats` = the results in task order -/
theorem mpLayer_eq_single (K : Kernel C P Q A ρ α) (c : C) (q : Q) (workers : Nat) (order : List Nat) (m : α) (l : Nat)
    (hcover : ∀ k, k < numChunks (pairs (K.nWfs c)).length workers → k ∈ order) :
    mpLayer K c q workers order m l = some (singleLayer K c q m l, (layerArgs K c q l).map K.wfs) := by
  unfold mpLayer
  have hlen : (layerArgs K c q l).length = (pairs (K.nWfs c)).length := by simp [layerArgs]
  rw [poolMap_eq workers order K.wfs (layerArgs K c q l) (by rw [hlen]; exact hcover)]
  simp only []
  have hmap : (layerArgs K c q l).map K.wfs = (pairs (K.nWfs c)).map (fun p => K.wfs (K.mkArg c q l p.1 p.2)) := by
    simp [layerArgs, List.map_map, Function.comp_def]
  have hc := consume_positional (fun m i j r => K.acc c q m l i j r) (fun p => K.wfs (K.mkArg c q l p.1 p.2))
    (pairs (K.nWfs c)) [] m
  rw [List.length_nil, List.nil_append] at hc
  rw [hmap, hc, Option.map_some]
  congr 1
  congr 1
  exact foldl_pairs (K.nWfs c) (fun m i j => K.acc c q m l i j (K.wfs (K.mkArg c q l i j))) m

/-- the hypothesis on a build's schedule: during every layer's `map`, every chunk completes -/
def SchedOK (K : Kernel C P Q A ρ α) (c : C) (workers : Nat) (sched : Nat → List Nat) : Prop :=
  ∀ l, l < K.nLayers c → ∀ k, k < numChunks (pairs (K.nWfs c)).length workers → k ∈ sched l

private theorem assembleMP_aux (K : Kernel C P Q A ρ α) (c : C) (q : Q) (workers : Nat) (sched : Nat → List Nat) :
    ∀ (ls : List Nat) (m : α) (cm : List ρ),
      (∀ l ∈ ls, ∀ k, k < numChunks (pairs (K.nWfs c)).length workers → k ∈ sched l) →
      (ls.foldl (fun st l => match st with
          | none => none
          | some (m, _) => mpLayer K c q workers (sched l) m l) (some (m, cm))).map Prod.fst
        = some (ls.foldl (singleLayer K c q) m) := by
  intro ls
  induction ls with
  | nil => intro m cm _; rfl
  | cons l ls ih =>
    intro m cm h
    rw [List.foldl_cons, List.foldl_cons]
    simp only []
    rw [mpLayer_eq_single K c q workers (sched l) m l (h l List.mem_cons_self)]
    exact ih _ _ (fun l' hl' => h l' (List.mem_cons_of_mem _ hl'))

/-- DESIGN name.  **∀ threads, ∀ schedules: `_make_covariance_matrix_mp` = `_make_covariance_matrix`** as operation
    trees over a matrix type without algebraic laws (hence bit-identical). -/
theorem mp_eq_single (K : Kernel C P Q A ρ α) (c : C) (q : Q) (workers : Nat) (sched : Nat → List Nat) (cm0 : List ρ)
    (h : SchedOK K c workers sched) :
    (assembleMP K c q workers sched cm0).map Prod.fst = some (assembleSingle K c q) := by
  unfold assembleMP assembleSingle
  exact assembleMP_aux K c q workers sched _ _ _ (fun l hl => h l (List.mem_range.mp hl))

/-- two multi-process builds with different worker counts and different schedules agree -/
theorem mp_eq_mp (K : Kernel C P Q A ρ α) (c : C) (q : Q) (w₁ w₂ : Nat) (s₁ s₂ : Nat → List Nat) (cm₁ cm₂ : List ρ)
    (h₁ : SchedOK K c w₁ s₁) (h₂ : SchedOK K c w₂ s₂) :
    (assembleMP K c q w₁ s₁ cm₁).map Prod.fst = (assembleMP K c q w₂ s₂ cm₂).map Prod.fst := by
  rw [mp_eq_single K c q w₁ s₁ cm₁ h₁, mp_eq_single K c q w₂ s₂ cm₂ h₂]

/-! ### no state is carried from one build to the next -/

/-- one build, from ANY object state: the value returned is the reference matrix — a function of the constructor
    arguments alone; the constructor arguments and `threads` are left as they were -/
theorem build_returns_reference (K : Kernel C P Q A ρ α) (o : Obj C P Q ρ α) (sched : Nat → List Nat)
    (ht : 1 ≤ o.threads) (hs : o.threads ≠ 1 → SchedOK K o.cfg o.threads sched) :
    (build K o sched).2 = some (reference K o.cfg) ∧ (build K o sched).1.cfg = o.cfg
      ∧ (build K o sched).1.threads = o.threads := by
  unfold build
  simp only []
  by_cases h1 : o.threads = 1
  · rw [if_pos h1]
    exact ⟨rfl, rfl, rfl⟩
  · rw [if_neg h1, if_neg (by omega)]
    have h := mp_eq_single K o.cfg (K.layerGeom o.cfg (K.positions o.cfg)) o.threads sched o.covMats (hs h1)
    cases hmp : assembleMP K o.cfg (K.layerGeom o.cfg (K.positions o.cfg)) o.threads sched o.covMats with
    | none => rw [hmp] at h; cases h
    | some r =>
      obtain ⟨m, cm⟩ := r
      rw [hmp] at h
      simp only [Option.map_some, Option.some.injEq] at h
      subst h
      exact ⟨rfl, rfl, rfl⟩

/-- the first build's result does not depend on the scratch attributes it finds (two objects with the same constructor
    arguments, arbitrary other fields, arbitrary thread counts and schedules) -/
theorem build_ignores_scratch (K : Kernel C P Q A ρ α) (o₁ o₂ : Obj C P Q ρ α) (s₁ s₂ : Nat → List Nat)
    (hc : o₁.cfg = o₂.cfg) (ht₁ : 1 ≤ o₁.threads) (ht₂ : 1 ≤ o₂.threads)
    (hs₁ : o₁.threads ≠ 1 → SchedOK K o₁.cfg o₁.threads s₁) (hs₂ : o₂.threads ≠ 1 → SchedOK K o₂.cfg o₂.threads s₂) :
    (build K o₁ s₁).2 = (build K o₂ s₂).2 := by
  rw [(build_returns_reference K o₁ s₁ ht₁ hs₁).1, (build_returns_reference K o₂ s₂ ht₂ hs₂).1, hc]

/-- a history is admissible when every `threads = k` has k ≥ 1 and every build's schedule lets `map` return
    (for the thread count in force at that moment) -/
def HistOK (K : Kernel C P Q A ρ α) (c : C) : Nat → List (Op P Q ρ α) → Prop
  | _, [] => True
  | _, .setThreads k :: h => 1 ≤ k ∧ HistOK K c k h
  | t, .build s :: h => (t ≠ 1 → SchedOK K c t s) ∧ HistOK K c t h
  | t, .scribble _ _ _ _ :: h => HistOK K c t h

/-- DESIGN name.  **∀ histories**: every build of an admissible history — whatever was built before it, in whichever
    mode, with whichever schedule, whatever garbage was written into the scratch attributes in between — returns the
    same matrix `reference cfg`. -/
theorem rebuild_idempotent (K : Kernel C P Q A ρ α) :
    ∀ (h : List (Op P Q ρ α)) (o : Obj C P Q ρ α), 1 ≤ o.threads → HistOK K o.cfg o.threads h →
      ∀ out ∈ run K h o, out = some (reference K o.cfg) := by
  intro h
  induction h with
  | nil => intro o _ _ out hout; cases hout
  | cons op h ih =>
    intro o ht hok out hout
    cases op with
    | setThreads k =>
      exact ih { o with threads := k } hok.1 hok.2 out hout
    | build s =>
      obtain ⟨hs, hrest⟩ := hok
      obtain ⟨hval, hcfg, hthr⟩ := build_returns_reference K o s ht hs
      rw [run] at hout
      rcases List.mem_cons.mp hout with e | e
      · rw [e, hval]
      · have := ih (build K o s).1 (by rw [hthr]; exact ht) (by rw [hcfg, hthr]; exact hrest) out e
        rw [this, hcfg]
    | scribble p q m rs =>
      exact ih { o with subapPositions := p, layerGeom := q, covMatrix := m, covMats := rs } ht hok out hout

/-- one output per build (so the statement above is about every build, not about an empty list) -/
theorem run_length (K : Kernel C P Q A ρ α) :
    ∀ (h : List (Op P Q ρ α)) (o : Obj C P Q ρ α),
      (run K h o).length = (h.filter (fun op => match op with | .build _ => true | _ => false)).length := by
  intro h
  induction h with
  | nil => intro o; rfl
  | cons op h ih =>
    intro o
    cases op with
    | setThreads k => simpa [run] using ih _
    | build s => simpa [run] using ih _
    | scribble p q m rs => simpa [run] using ih _

/-- no operation of a history touches the constructor arguments -/
theorem cfg_invariant (K : Kernel C P Q A ρ α) :
    ∀ (h : List (Op P Q ρ α)) (o : Obj C P Q ρ α), (finalState K h o).cfg = o.cfg := by
  intro h
  induction h with
  | nil => intro o; rfl
  | cons op h ih =>
    intro o
    cases op with
    | setThreads k => exact ih _
    | build s =>
      rw [finalState, ih]
      unfold build
      simp only []
      split
      · rfl
      · split
        · rfl
        · split <;> rfl
    | scribble p q m rs => exact ih _

/-- two histories on two instances with the same constructor arguments: all builds of both return one matrix -/
theorem histories_agree (K : Kernel C P Q A ρ α) (h₁ h₂ : List (Op P Q ρ α)) (o₁ o₂ : Obj C P Q ρ α)
    (hc : o₁.cfg = o₂.cfg) (ht₁ : 1 ≤ o₁.threads) (ht₂ : 1 ≤ o₂.threads)
    (hk₁ : HistOK K o₁.cfg o₁.threads h₁) (hk₂ : HistOK K o₂.cfg o₂.threads h₂) :
    ∀ a ∈ run K h₁ o₁, ∀ b ∈ run K h₂ o₂, a = b := by
  intro a ha b hb
  rw [rebuild_idempotent K h₁ o₁ ht₁ hk₁ a ha, rebuild_idempotent K h₂ o₂ ht₂ hk₂ b hb, hc]

/-- **constructor attributes changed between builds**: whatever history `h₁` the instance has been through, once its
    constructor attributes are replaced by `c'` (the caller assigns `obj.layer_r0s = …`, `obj.gs_positions = …`) every
    build of any admissible further history `h₂` returns the matrix of a FRESH object made with `c'` — nothing of the old
    configuration is carried over -/
theorem reconfigure_between_builds (K : Kernel C P Q A ρ α) (h₁ h₂ : List (Op P Q ρ α)) (o : Obj C P Q ρ α) (c' : C)
    (ht : 1 ≤ (finalState K h₁ o).threads) (hk : HistOK K c' (finalState K h₁ o).threads h₂) :
    ∀ out ∈ run K h₂ { finalState K h₁ o with cfg := c' }, out = some (reference K c') :=
  rebuild_idempotent K h₂ { finalState K h₁ o with cfg := c' } ht hk

/-! ### the theorems are not vacuous, and the model can tell a wrong collection from a right one -/

section NonVacuity

/-- a free instantiation: results are the argument tuples themselves, the matrix is the log of what was added -/
def logKernel : Kernel (Nat × Nat) Unit Unit (Nat × Nat × Nat) (Nat × Nat × Nat) (List (Nat × Nat × Nat × (Nat × Nat × Nat))) where
  nWfs c := c.1
  nLayers c := c.2
  positions _ := ()
  layerGeom _ _ := ()
  mkArg _ _ l i j := (l, i, j)
  wfs a := a
  zero _ := []
  acc _ _ m l i j r := m ++ [(l, i, j, r)]
  mirror m := m

/-- 3 WFSs (6 tasks), 2 layers, 2 workers (chunk size 1, 6 chunks), adversarial orders -/
def exSched : Nat → List Nat := fun l => if l = 0 then [5, 3, 1, 0, 2, 4] else [2, 2, 0, 1, 5, 4, 3]

example : SchedOK logKernel (3, 2) 2 exSched := by
  intro l hl k hk
  have hl' : l < 2 := hl
  have hk' : k < 6 := hk
  unfold exSched
  rcases (by omega : l = 0 ∨ l = 1) with rfl | rfl <;>
    rcases (by omega : k = 0 ∨ k = 1 ∨ k = 2 ∨ k = 3 ∨ k = 4 ∨ k = 5) with rfl | rfl | rfl | rfl | rfl | rfl <;> decide

def exObj : Obj (Nat × Nat) Unit Unit (Nat × Nat × Nat) (List (Nat × Nat × Nat × (Nat × Nat × Nat))) :=
  { cfg := (3, 2), threads := 1, subapPositions := (), layerGeom := (), covMatrix := [(9, 9, 9, (9, 9, 9))], covMats := [] }

/-- the history hypotheses are satisfiable on a history that toggles the thread count and scribbles -/
example : HistOK logKernel exObj.cfg exObj.threads
    [.build exSched, .setThreads 2, .build exSched, .scribble () () [(7, 7, 7, (7, 7, 7))] [(1, 1, 1)], .build exSched,
     .setThreads 1, .build exSched] := by
  have hs : SchedOK logKernel (3, 2) 2 exSched := by
    intro l hl k hk
    have hl' : l < 2 := hl
    have hk' : k < 6 := hk
    unfold exSched
    rcases (by omega : l = 0 ∨ l = 1) with rfl | rfl <;>
      rcases (by omega : k = 0 ∨ k = 1 ∨ k = 2 ∨ k = 3 ∨ k = 4 ∨ k = 5) with rfl | rfl | rfl | rfl | rfl | rfl <;> decide
  refine ⟨fun h => absurd rfl h, ?_, fun _ => hs, fun _ => hs, ?_, fun h => absurd rfl h, trivial⟩ <;> decide

/-- the hypotheses of `reconfigure_between_builds` on a concrete case: after a build the configuration (3 WFS, 2 layers) is
    replaced by (1 WFS, 1 layer), then single-process builds follow; and the two configurations have different references,
    so the statement is about the NEW configuration -/
example : 1 ≤ (finalState logKernel [.build exSched] exObj).threads
    ∧ HistOK logKernel (1, 1) (finalState logKernel [.build exSched] exObj).threads [.build exSched, .build exSched]
    ∧ reference logKernel (1, 1) ≠ reference logKernel exObj.cfg := by
  refine ⟨by decide, ⟨fun h => absurd rfl h, fun h => absurd rfl h, trivial⟩, by decide⟩

/-- `chunkSize_spec` at a concrete pool: 6 tasks on 2 workers go out in chunks of 1, 13 tasks on 1 worker in chunks of 4 -/
example : chunkSize 6 2 = 1 ∧ chunkSize 13 1 = 4 := by decide

/-- three workers with queues [2,0], [1], [3]: one of their interleavings -/
example : Interleaving [[2, 0], [1], [3]] [2, 3, 1, 0] :=
  .step [] 2 [0] [[1], [3]] _ (.step [[0], [1]] 3 [] [] _ (.step [[0]] 1 [] [[]] _ (.step [] 0 [] [[], []] _
    (.done _ (by intro q hq; simp at hq; exact hq)))))

/-- the reference matrix of that configuration really lists 12 accumulations (the model is not degenerate) -/
example : (reference logKernel (3, 2)).length = 12 := by decide

/-- a collection that appends results in COMPLETION order (what `imap_unordered` would give) is told apart by the
    model: the same two results, completed in the other order, are collected differently -/
def collectUnordered (work : List σ) (run : σ → τ) (order : List Nat) : List τ :=
  order.filterMap fun k => (work[k]?).map run

theorem unordered_collection_depends_on_order :
    collectUnordered [10, 20] id [0, 1] ≠ collectUnordered [10, 20] id [1, 0] := by decide

/-- a DEFECTIVE single-process build that accumulates into whatever matrix the previous build left (no re-zeroing) -/
def buildNoZero (K : Kernel C P Q A ρ α) (o : Obj C P Q ρ α) : Obj C P Q ρ α × Option α :=
  let q := K.layerGeom o.cfg (K.positions o.cfg)
  let m := K.mirror ((List.range (K.nLayers o.cfg)).foldl (singleLayer K o.cfg q) o.covMatrix)
  ({ o with subapPositions := K.positions o.cfg, layerGeom := q, covMatrix := m }, some m)

/-- … the state machine tells it apart: its second build does not return what its first build returned, whereas
    `rebuild_idempotent` holds for the real `build` (so that theorem is a statement about re-initialisation, not a tautology) -/
theorem stale_matrix_is_told_apart :
    (buildNoZero logKernel exObj).2 ≠ (buildNoZero logKernel (buildNoZero logKernel exObj).1).2 := by
  intro h
  have h' := congrArg (fun x : Option (List (Nat × Nat × Nat × (Nat × Nat × Nat))) => x.map List.length) h
  revert h'
  decide

end NonVacuity

/-
NOT PROVED (and why) — none of these is one of the DESIGN §4 theorems, all of which are proved above at full strength:
  * `wfs_covariance`, the four `+=` of one task and `mirror_covariance_matrix` are FUNCTIONS of their arguments (`Kernel.wfs`,
    `Kernel.acc`, `Kernel.mirror` are uninterpreted functions, so a hidden dependence on process-local or global state is
    outside the model).  Purity is property C20's subject; here it is sampled by the oracle (permuted execution orders in one
    process, real fork pools with 1…8 workers).
  * CPython's `MapResult._set` stores a chunk's results by the slice assignment `_value[i*cs:(i+1)*cs] = result` into one
    flat list; the model keeps one slot per chunk and flattens at the end.  The equivalence of the two is not proved; the
    model's `poolMap` is compared with CPython's real `MapResult`, driven in adversarial orders, on every run.
  * each chunk completes exactly once (`complete` tolerates repetitions; CPython's `_number_left` counter would not).
  * IEEE arithmetic and pickling are not modelled: "bit-identical" is derived from "same operation tree", which presumes
    that parent and workers evaluate each operation identically (same machine, same libm; fork pools).
-/

end AoVerif.Props.C03
