/-
C13 — Karhunen–Loève modes are orthonormal, piston-free and diagonalise the Kolmogorov covariance.
Theorems about the model `Model/KL.lean` at `K = ℝ`; the constants `d`, `fnorm`, `fktom` and the structure
function are the definitions REGENERATED from the source (`Gen/Formulas.lean`).
-/
import Mathlib.Analysis.Real.Sqrt
import Mathlib.Tactic.IntervalCases
import Mathlib.Tactic.LinearCombination
import AoVerif.Lemmas.RealScalar
import AoVerif.Lemmas.KL
import AoVerif.Model.KL

namespace AoVerif.Props.C13
open AoVerif AoVerif.KL Finset

set_option linter.unusedSectionVars false
variable [Transc ℝ] [RealTransc]

/-! ### the returned pupil is the annulus indicator; the masked rendering vanishes outside -/

/-- the pixel radius of `pcgeom` : `sqrt(ax² + ay²)` -/
noncomputable def pixRadius (ncp ncmar row col : ℕ) : ℝ := Real.sqrt (cr2 (K := ℝ) ncp ncmar row col)

theorem pupil_is_annulus (ri : ℝ) (hri : 0 ≤ ri) (ncp ncmar row col : ℕ) :
    pupil ri ncp ncmar row col =
      if ri ≤ pixRadius ncp ncmar row col ∧ pixRadius ncp ncmar row col ≤ 1 then 1 else 0 := by
  have h0 : (0:ℝ) ≤ cr2 (K := ℝ) ncp ncmar row col := by unfold cr2; positivity
  have e1 : ri ≤ pixRadius ncp ncmar row col ↔ ri ^ (2:ℕ) ≤ cr2 (K := ℝ) ncp ncmar row col := Real.le_sqrt hri h0
  have e2 : pixRadius ncp ncmar row col ≤ 1 ↔ (cr2 (K := ℝ) ncp ncmar row col : ℝ) ≤ 1 := by
    unfold pixRadius; rw [Real.sqrt_le_iff]; norm_num
  unfold pupil inAp
  simp only [Bool.and_eq_true, decide_eq_true_eq, Nat.cast_one, Nat.cast_zero, e1, e2]

theorem pupil_zero_or_one (ri : ℝ) (ncp ncmar row col : ℕ) :
    pupil ri ncp ncmar row col = 0 ∨ pupil ri ncp ncmar row col = 1 := by
  unfold pupil; split <;> simp

/-- with `mask=True` the Cartesian rendering is exactly zero at every pixel outside the annulus, whatever the
spline returned there -/
theorem masked_zero_outside (ri : ℝ) (ncp ncmar row col : ℕ) (v : ℝ)
    (hout : ¬ (ri ≤ pixRadius ncp ncmar row col ∧ pixRadius ncp ncmar row col ≤ 1)) (hri : 0 ≤ ri) :
    pol2car ri ncp ncmar true v row col = 0 := by
  unfold pol2car
  rw [pupil_is_annulus ri hri, if_neg hout]; simp

/-- inside the annulus masking changes nothing -/
theorem masked_id_inside (ri : ℝ) (ncp ncmar row col : ℕ) (v : ℝ) (hri : 0 ≤ ri)
    (hin : ri ≤ pixRadius ncp ncmar row col ∧ pixRadius ncp ncmar row col ≤ 1) :
    pol2car ri ncp ncmar true v row col = v := by
  unfold pol2car
  rw [pupil_is_annulus ri hri, if_pos hin]; simp

/-! ### round 3: the structure function of the code is Kolmogorov's; the Cartesian rendering of a separable polar function -/

/-- the structure function REGENERATED from `stf_kolmogorov` is `6.8839 · r^(5/3)` : a change of the constant or of the
exponent in the source breaks this theorem (the other theorems hold for any structure function) -/
theorem stf_is_kolmogorov (r : ℝ) : Gen.kl_stf_kolmogorov (K := ℝ) r = 6.8839 * r ^ ((5 : ℝ) / 3) := by
  real_unfold [Gen.kl_stf_kolmogorov] <;> norm_num

/-- inside the table the closed azimuth is the table itself -/
theorem wrapCol_inside {α : Type} (npp : ℕ) (pol : ℕ → ℕ → α) (a b : ℕ) (hb : b < npp) : wrapCol npp pol a b = pol a b := by
  unfold wrapCol
  rw [if_neg (by omega)]

/-- order-1 `map_coordinates` of a separable table `R ⊗ A` (what `gkl_sfi` returns) is the product of the two
one-dimensional interpolants: the rendering at a pixel is (linear interpolant of the radial samples at its `cr`)
× (linear interpolant of the azimuthal samples at its `cp`) -/
theorem bilinear_separable (R A : ℕ → ℝ) (a b : ℕ) (u v : ℝ) :
    bilin (K := ℝ) (sfi R A) a b u v = lerp u (R a) (R (a + 1)) * lerp v (A b) (A (b + 1)) := by
  real_unfold [bilin, lerp, sfi]
  ring

/-- the repaired `pol2car` closes the azimuth: in the last azimuthal cell (between sample `npp-1` and `2π`) the
rendering interpolates between the LAST azimuthal sample and the FIRST one (before the repair it was held at the
last sample: a seam along `φ = 0`) -/
theorem wrap_closes_azimuth (R A : ℕ → ℝ) (npp a : ℕ) (hnpp : 0 < npp) (u v : ℝ) :
    bilin (K := ℝ) (wrapCol npp (sfi R A)) a (npp - 1) u v
      = lerp u (R a) (R (a + 1)) * lerp v (A (npp - 1)) (A 0) := by
  have h1 : npp - 1 + 1 = npp := by omega
  have h2 : npp - 1 ≠ npp := by omega
  unfold bilin
  rw [h1]
  simp only [wrapCol, if_neg h2, if_true]
  real_unfold [lerp, sfi]
  ring

/-- every other cell of the closed table is interpolated as before -/
theorem wrap_other_cells (pol : ℕ → ℕ → ℝ) (npp a b : ℕ) (hb : b + 1 < npp) (u v : ℝ) :
    bilin (K := ℝ) (wrapCol npp pol) a b u v = bilin (K := ℝ) pol a b u v := by
  unfold bilin
  rw [wrapCol_inside npp pol a b (by omega), wrapCol_inside npp pol a (b + 1) hb,
    wrapCol_inside npp pol (a + 1) b (by omega), wrapCol_inside npp pol (a + 1) (b + 1) hb]

/-- the azimuthal coordinate handed to `map_coordinates` stays inside the closed table `[0, npp]` -/
theorem cpCoord_range (npp : ℕ) (hnpp : 1 ≤ npp) (phi : ℝ) :
    0 < cpCoord (K := ℝ) npp phi ∧ cpCoord (K := ℝ) npp phi < npp := by
  have h : (1 : ℝ) ≤ (npp : ℝ) := by exact_mod_cast hnpp
  unfold cpCoord clip
  have e1 : ((1e-3 : ℝ)) = 1 / 1000 := by norm_num
  rw [e1]
  split_ifs with h1 h2
  · constructor <;> linarith
  · constructor <;> linarith
  · have h1' := not_le.1 h1
    have h2' := not_le.1 h2
    constructor <;> linarith

/-! ### round 3: selection of the `nfunc` largest, the stop rule of the order loop -/

/-- the functions returned are the largest of the orders that were computed: no flat index left out by
`argsort(-evs)[0:nfunc]` has a larger variance than a returned one -/
theorem selected_are_largest (nr nfunc : ℕ) (ev : ℕ → ℝ) (a : List ℕ)
    (hsorted : a.Pairwise (fun x y => ev y ≤ ev x)) :
    ∀ x ∈ oind nr nfunc a, ∀ y ∈ a.drop nfunc, ev y ≤ ev x := by
  intro x hx y hy
  have hx' : x ∈ a.take nfunc := (mem_expand nr _ x).1 (List.mem_of_mem_take hx)
  rw [← List.take_append_drop nfunc a] at hsorted
  exact (List.pairwise_append.1 hsorted).2.2 x hx' y hy

/-- what the stop rule of the order loop establishes: `nus = t` is an order `1 ≤ t < nt` at which at least `nfunc`
computed functions (orders ≥ 1 counted twice) have a variance larger than every variance of order `t`, and it is the
FIRST such order.  Whether a LATER order holds a larger variance is not decided by the loop (oracle: the returned
variances are compared with the spectrum of all orders) -/
theorem stop_rule_count (nr nfunc nt t : ℕ) (ev : ℕ → ℕ → ℝ) (h : findNus nr nfunc nt ev = some t) :
    1 ≤ t ∧ t < nt ∧ nfunc ≤ loopCount nr ev t (maxOf nr (ev t)) ∧
      ∀ s, 1 ≤ s → s < t → loopCount nr ev s (maxOf nr (ev s)) < nfunc := by
  unfold findNus at h
  have hmem := List.mem_of_find?_eq_some h
  have hp := List.find?_some h
  rw [List.mem_range'_1] at hmem
  refine ⟨hmem.1, by omega, by simpa using hp, ?_⟩
  intro s hs1 hst
  by_contra hcon
  rw [List.find?_eq_some_iff_append] at h
  obtain ⟨_, as, bs, hab, hall⟩ := h
  have hs : s ∈ List.range' 1 (nt - 1) := by rw [List.mem_range'_1]; omega
  rw [hab] at hs
  have hsorted : (List.range' 1 (nt - 1)).Pairwise (· < ·) := List.pairwise_lt_range'
  rw [hab] at hsorted
  rcases List.mem_append.1 hs with hs | hs
  · have := hall s hs
    simp at this
    omega
  · rcases List.mem_cons.1 hs with hs | hs
    · omega
    · have := (List.pairwise_append.1 hsorted).2.1
      have := List.rel_of_pairwise_cons this hs
      omega

/-- non-vacuity of `stop_rule_count` and the loop on a concrete table: two radial points, variances
order 0: (5, 0), order 1: (4, 1), order 2: (2, 0.5); three functions requested: after order 1 only 5 exceeds 4 (count 1),
after order 2: 5, 4, 4 exceed 2 (count 1·1 + 2·1 = 3) -/
example : findNus (K := ℕ) 2 3 4 (fun t k => [[5, 0], [4, 1], [2, 0]].getD t [] |>.getD k 0) = some 2 := by decide

/-! ### returned variances are in non-increasing order; both members of a pair carry the same variance -/

/-- `evals = evs[oind]` is non-increasing whenever `a` orders the flat eigenvalue table non-increasingly
(the contract of `argsort(-evs)`) -/
theorem evals_sorted (nr nfunc : ℕ) (ev : ℕ → ℝ) (a : List ℕ)
    (hsorted : a.Pairwise (fun x y => ev y ≤ ev x)) :
    ((oind nr nfunc a).map ev).Pairwise (fun u v => v ≤ u) := by
  rw [List.pairwise_map]
  exact oind_pairwise (R := fun x y => ev y ≤ ev x) (fun x => le_refl _) hsorted

/-- an index of order ≥ 1 met at position `i` of the expansion is repeated at position `i+1`: the two members of a
cos/sin pair share radial function and variance -/
theorem pair_adjacent (nr : ℕ) (a : List ℕ) (ev : ℕ → ℝ) :
    ∀ x ∈ a, nr ≤ x → ∃ i, (expand nr a)[i]? = some x ∧ (expand nr a)[i+1]? = some x
      ∧ ((expand nr a).map ev)[i]? = ((expand nr a).map ev)[i+1]? := by
  intro x hx hnr
  obtain ⟨i, h1, h2⟩ := expand_pair nr a x hx hnr
  exact ⟨i, h1, h2, by simp [List.getElem?_map, h1, h2]⟩

/-- non-vacuity of the sortedness hypothesis, and the glue on a concrete table: flat indices `[0, 1, 4, 7]` with
`nr = 3` (4 and 7 are of order ≥ 1 and are doubled), eigenvalue table `10 - x`, five functions requested -/
example : [0, 1, 4, 7].Pairwise (fun x y => ((10 - y : ℕ) : ℝ) ≤ ((10 - x : ℕ) : ℝ)) ∧
    oind 3 5 [0, 1, 4, 7] = [0, 1, 4, 4, 7] ∧ oordList 3 (oind 3 5 [0, 1, 4, 7]) = [0, 0, 2, 1, 4] := by
  refine ⟨by simp, by simp [oind, expand], by simp [oind, expand, oordList, oordAt]⟩

/-! ### the piston filter is orthogonal for every `nr`; order-0 functions are piston-free -/

/-- `piston_orth(nr)ᵀ · piston_orth(nr) = I` for every `nr` -/
theorem piston_orth_orthogonal (nr j j' : ℕ) (hj : j < nr) (hj' : j' < nr) :
    ∑ i ∈ range nr, pistonOrth (K := ℝ) nr i j * pistonOrth (K := ℝ) nr i j' = if j = j' then 1 else 0 :=
  pistonOrth_orthonormal nr j j' hj hj'

/-- its last column is the normalised piston, every other column sums to zero -/
theorem piston_orth_columns (nr j : ℕ) :
    (j + 1 = nr → ∀ i, pistonOrth (K := ℝ) nr i j = 1 / Real.sqrt nr) ∧
    (j + 1 < nr → ∑ i ∈ range nr, pistonOrth (K := ℝ) nr i j = 0) :=
  ⟨fun h i => pistonOrth_last nr i j h, fun h => pistonOrth_col_sum nr j h⟩

/-- the polar K-L function with azimuthal index `o` and radial index `k` of order `freq o`, as synthesised by
`gkl_sfi` from `rabas[:, i] = kers[:, k, freq o]` and `azbas[o, :]` -/
noncomputable def polarFn (nr nord npp : ℕ) (V : ℕ → ℕ → ℕ → ℝ) (o k a b : ℕ) : ℝ :=
  sfi (fun a => kers nr V (freq o) a k) (fun b => azi nord npp o b) a b

/-- the azimuthal index assigned by `gkl_fcom` to the function at position `i` with flat index `x` has frequency
`tord = x / nr` (so `polarFn … (oordAt nr i x) (x % nr)` is the function the code returns at position `i`) -/
theorem freq_oordAt (nr i x : ℕ) : freq (oordAt nr i x) = x / nr := by
  unfold freq oordAt
  split_ifs <;> omega

/-- order-0 functions other than the piston (whose recorded variance is the appended `0`) have zero pupil mean -/
theorem order0_zero_mean (nr nord npp : ℕ) (V : ℕ → ℕ → ℕ → ℝ) (k : ℕ) (hk : k + 1 < nr) :
    (1 / ((nr:ℝ) * npp)) * ∑ a ∈ range nr, ∑ b ∈ range npp, polarFn nr nord npp V 0 k a b = 0 := by
  unfold polarFn sfi
  simp only [← Finset.mul_sum, ← Finset.sum_mul]
  have : freq 0 = 0 := rfl
  rw [this, kers0_sum nr V k hk]; simp

theorem piston_variance_zero (nr : ℕ) (E : ℕ → ℕ → ℝ) (hnr : 0 < nr) : evs nr E 0 (nr - 1) = 0 := by
  unfold evs; simp [show ¬ (nr - 1 + 1 < nr) by omega]

/-- every function of azimuthal index `o ≠ 0` resolved by the grid has zero pupil mean -/
theorem higher_order_zero_mean (nr nord npp : ℕ) (V : ℕ → ℕ → ℕ → ℝ) (o k : ℕ) (ho : o < nord) (h0 : o ≠ 0)
    (hres : freq o < npp) :
    (1 / ((nr:ℝ) * npp)) * ∑ a ∈ range nr, ∑ b ∈ range npp, polarFn nr nord npp V o k a b = 0 := by
  unfold polarFn sfi
  simp only [← Finset.mul_sum]
  rw [azi_sum nord npp o ho h0 hres]; simp

/-! ### distinct positions of the returned basis are distinct modes -/

/-- **distinct positions are distinct modes**: when `argsort` returned indices without repetition (it returns a
permutation), two different positions `i < j` of the returned basis carry different (azimuthal index, radial index) pairs
`(oord[i], pio[i]) = (oordAt nr i oind[i], oind[i] % nr)` -/
theorem modes_distinct (nr nfunc : ℕ) (a : List ℕ) (hnr : 0 < nr) (ha : a.Nodup) (i j x y : ℕ) (hij : i < j)
    (hi : (oind nr nfunc a)[i]? = some x) (hj : (oind nr nfunc a)[j]? = some y) :
    (oordAt nr i x, x % nr) ≠ (oordAt nr j y, y % nr) := by
  intro h
  rw [Prod.mk.injEq] at h
  have hq : x / nr = y / nr := by rw [← freq_oordAt nr i x, ← freq_oordAt nr j y, h.1]
  have hxy : x = y := by rw [← Nat.div_add_mod x nr, ← Nat.div_add_mod y nr, hq, h.2]
  subst hxy
  obtain ⟨rfl, hx⟩ := expand_same_index nr (a.take nfunc) (ha.sublist (List.take_sublist _ _)) i j x hij
    (oind_getElem? nr nfunc a i x hi) (oind_getElem? nr nfunc a j x hj)
  exact oordAt_succ_ne nr i x hnr hx h.1

/-- the same, on the flat index: position ↦ (flat index, azimuthal index) is injective -/
theorem modes_distinct_flat (nr nfunc : ℕ) (a : List ℕ) (hnr : 0 < nr) (ha : a.Nodup) (i j x y : ℕ) (hij : i < j)
    (hi : (oind nr nfunc a)[i]? = some x) (hj : (oind nr nfunc a)[j]? = some y) :
    (x, oordAt nr i x) ≠ (y, oordAt nr j y) := by
  intro h
  rw [Prod.mk.injEq] at h
  exact modes_distinct nr nfunc a hnr ha i j x y hij hi hj (by rw [h.2, h.1])

example : [4, 0, 7, 1].Nodup ∧ oind 3 6 [4, 0, 7, 1] = [4, 4, 0, 7, 7, 1]
    ∧ oordList 3 (oind 3 6 [4, 0, 7, 1]) = [2, 1, 0, 3, 4, 0] := by
  refine ⟨by decide, by simp [oind, expand], by simp [oind, expand, oordList, oordAt]⟩

/-! ### "tip and tilt first, equal": what holds structurally -/

/-- when the largest eigenvalue of the flat table belongs to an order ≥ 1 (`nr ≤ a[0]`) and at least two functions are
requested, the first two returned functions are the two members of one cos/sin pair: same flat index, hence the same
variance and the same radial function, azimuthal indices `2t` (sin tθ) and `2t-1` (cos tθ) -/
theorem first_pair_equal (nr nfunc x : ℕ) (rest : List ℕ) (ev : ℕ → ℝ) (hnr : 0 < nr) (hx : nr ≤ x) (hn : 2 ≤ nfunc) :
    (oind nr nfunc (x :: rest))[0]? = some x ∧ (oind nr nfunc (x :: rest))[1]? = some x
      ∧ ((oind nr nfunc (x :: rest)).map ev)[0]? = ((oind nr nfunc (x :: rest)).map ev)[1]?
      ∧ oordAt nr 0 x = 2 * (x / nr) ∧ oordAt nr 1 x = 2 * (x / nr) - 1 := by
  obtain ⟨m, rfl⟩ : ∃ m, nfunc = m + 2 := ⟨nfunc - 2, by omega⟩
  have h1 : 1 ≤ x / nr := (Nat.le_div_iff_mul_le hnr).2 (by omega)
  have e : oind nr (m + 2) (x :: rest) = x :: x :: (expand nr (rest.take (m + 1))).take m := by
    unfold oind
    rw [List.take_succ_cons, expand, if_neg (by omega), List.take_succ_cons, List.take_succ_cons]
  refine ⟨by rw [e]; rfl, by rw [e]; rfl, by rw [e]; rfl, ?_, ?_⟩
  · unfold oordAt; simp
  · unfold oordAt; simp [h1]

/-- tip and tilt first and equal, GIVEN the spectral fact that the largest eigenvalue belongs to azimuthal order 1
(`nr ≤ a[0] < 2 nr`, not proved: a property of the Kolmogorov kernel's spectrum): the first two returned functions then
are `R(r)·sin θ` and `R(r)·cos θ` with one common radial factor `R` and one common variance -/
theorem tip_tilt_first_partial (nr nfunc nord npp x : ℕ) (rest : List ℕ) (ev : ℕ → ℝ) (V : ℕ → ℕ → ℕ → ℝ)
    (hnr : 0 < nr) (hx : nr ≤ x) (hx2 : x < 2 * nr) (hn : 2 ≤ nfunc) (hnord : 2 < nord) :
    (oind nr nfunc (x :: rest))[0]? = some x ∧ (oind nr nfunc (x :: rest))[1]? = some x
      ∧ ((oind nr nfunc (x :: rest)).map ev)[0]? = ((oind nr nfunc (x :: rest)).map ev)[1]?
      ∧ (∀ a b, polarFn nr nord npp V (oordAt nr 0 x) (x % nr) a b
            = kers nr V 1 a (x % nr) * Real.sin (TrigGrid.ang npp b))
      ∧ (∀ a b, polarFn nr nord npp V (oordAt nr 1 x) (x % nr) a b
            = kers nr V 1 a (x % nr) * Real.cos (TrigGrid.ang npp b)) := by
  obtain ⟨h0, h1, h2, h3, h4⟩ := first_pair_equal nr nfunc x rest ev hnr hx hn
  have hq : x / nr = 1 := by
    have : 1 ≤ x / nr := (Nat.le_div_iff_mul_le hnr).2 (by omega)
    have : x / nr < 2 := (Nat.div_lt_iff_lt_mul hnr).2 (by omega)
    omega
  rw [hq] at h3 h4
  refine ⟨h0, h1, h2, ?_, ?_⟩
  · intro a b
    rw [h3]
    unfold polarFn sfi
    have := azi_even nord npp 1 b (by omega) (by omega)
    simp only [this, show freq (2 * 1) = 1 from rfl, Nat.cast_one, one_mul]
  · intro a b
    rw [h4, show 2 * 1 - 1 = 2 * 0 + 1 from rfl]
    unfold polarFn sfi
    have := azi_odd nord npp 0 b (by omega)
    simp only [this, show freq (2 * 0 + 1) = 1 from rfl, zero_add, Nat.cast_one, one_mul]

/-! ### orthonormality over the pupil on the native polar grid -/

/-- `(1/(nr·npp)) Σ_a Σ_b K K' = δ` for any two functions built from eigen-decompositions meeting the `eigh`
contract (orthonormal eigenvectors), as long as the azimuthal grid resolves both frequencies -/
theorem polar_orthonormal (nr nord npp : ℕ) (V : ℕ → ℕ → ℕ → ℝ)
    (h0 : Orthonormal0 nr (V 0)) (hT : ∀ t, 0 < t → OrthonormalT nr (V t))
    (o k o' k' : ℕ) (ho : o < nord) (ho' : o' < nord) (hk : k < nr) (hk' : k' < nr)
    (hres : freq o + freq o' < npp) :
    (1 / ((nr:ℝ) * npp)) * ∑ a ∈ range nr, ∑ b ∈ range npp,
        polarFn nr nord npp V o k a b * polarFn nr nord npp V o' k' a b
      = if o = o' ∧ k = k' then 1 else 0 := by
  have hnr : (0:ℝ) < nr := by exact_mod_cast (show 0 < nr by omega)
  have hnpp : (0:ℝ) < npp := by exact_mod_cast (show 0 < npp by omega)
  unfold polarFn sfi
  have e : ∀ a b, kers nr V (freq o) a k * azi nord npp o b * (kers nr V (freq o') a k' * azi nord npp o' b)
      = (kers nr V (freq o) a k * kers nr V (freq o') a k') * (azi nord npp o b * azi nord npp o' b) := by
    intro a b; ring
  simp only [e, ← Finset.mul_sum, ← Finset.sum_mul]
  rw [azi_gram nord npp o o' ho ho' hres]
  by_cases hoo : o = o'
  · subst hoo
    rw [kers_gram nr V h0 hT (freq o) k k' hk hk']
    by_cases hkk : k = k'
    · subst hkk
      simp only [and_self, if_true]
      by_cases hz : o = 0
      · subst hz
        have : freq 0 = 0 := rfl
        simp only [this, if_true]; field_simp
      · have : freq o ≠ 0 := by unfold freq; omega
        simp only [this, hz, if_false]; field_simp
    · simp [hkk]
  · simp [hoo]

/-! ### diagonalisation of the Kolmogorov covariance (orders ≥ 1): the constants, given the azimuthal block identity -/

open TrigGrid in
/-- entry of the structure-function matrix between the grid points `(a,b)` and `(a',b')` of the native polar grid:
`D(|x - x'|/2)`, `x = rad_a (cos θ_b, sin θ_b)` (pupil radius 1, so `|x-x'|/2` is the separation in diameters) -/
noncomputable def Dent (stf : ℝ → ℝ) (rad : ℕ → ℝ) (n a b a' b' : ℕ) : ℝ :=
  stf (0.5 * Real.sqrt ((rad a * Real.cos (ang n b) - rad a' * Real.cos (ang n b')) ^ 2
    + (rad a * Real.sin (ang n b) - rad a' * Real.sin (ang n b')) ^ 2))

/-- contract of `eigh` on the matrix `M` of one order `t ≥ 1`: orthonormal eigenvectors, `M V = V diag(e)` -/
def EigT (nr : ℕ) (M : ℕ → ℕ → ℝ) (v : ℕ → ℕ → ℝ) (e : ℕ → ℝ) : Prop :=
  OrthonormalT nr v ∧ ∀ a k, a < nr → k < nr → ∑ a' ∈ range nr, M a a' * v a' k = e k * v a k

theorem quad_of_eig (nr : ℕ) (M v : ℕ → ℕ → ℝ) (e : ℕ → ℝ) (h : EigT nr M v e) (k k' : ℕ) (hk : k < nr)
    (hk' : k' < nr) :
    ∑ a ∈ range nr, ∑ a' ∈ range nr, v a k * M a a' * v a' k' = if k = k' then e k else 0 := by
  have e1 : ∀ a ∈ range nr, ∑ a' ∈ range nr, v a k * M a a' * v a' k' = e k' * (v a k * v a k') := by
    intro a ha
    simp only [mul_assoc, ← Finset.mul_sum]
    rw [h.2 a k' (mem_range.1 ha) hk']; ring
  rw [sum_congr rfl e1, ← Finset.mul_sum, h.1 k k' hk hk']
  split_ifs with hkk
  · subst hkk; ring
  · ring

theorem halfDist_comm (ra rb : ℝ) (n c : ℕ) : halfDist ra rb n c = halfDist rb ra n c := by
  unfold halfDist; congr 3; ring

/-- the kernel is `fnorm · (2π/nth)` times the cosine transform of the structure function along the azimuth,
for both triangles -/
theorem kernel_eq (stf : ℝ → ℝ) (ri : ℝ) (nr : ℕ) (rad : ℕ → ℝ) (a a' p : ℕ) :
    kernel stf ri nr rad a a' p = Gen.kl_fnorm ri * (((2 : ℕ) : ℝ) * Transc.pi / ((5 * nr : ℕ) : ℝ))
      * rdftRe (5 * nr) (fun c => stf (halfDist (rad a) (rad a') (5 * nr) c)) p := by
  unfold kernel kernLow
  split_ifs
  · rfl
  · simp only [halfDist_comm (rad a') (rad a)]

/-- `-1/2 · ⟨K_i D K_j⟩ = variance · δ_ij` for two functions of azimuthal index `o, o' ≠ 0`, PROVIDED the azimuthal
double sum block-diagonalises (`haz`: cos/sin are eigenvectors of the circulant-in-azimuth structure matrix with the
cosine transform as eigenvalue).  What is proved here is that every constant of the construction (`fnorm`, `2π/nth`,
`fktom`, the `√(2 nr)` scaling, the `1/(nr·npp)` pupil averages) is the right one. -/
theorem diagonalises_partial (stf : ℝ → ℝ) (ri : ℝ) (nr nord : ℕ) (rad : ℕ → ℝ) (V : ℕ → ℕ → ℕ → ℝ)
    (E : ℕ → ℕ → ℝ) (o k o' k' : ℕ) (hnr : 0 < nr) (hri : ri ^ 2 ≠ 1) (ho : o ≠ 0) (ho' : o' ≠ 0)
    (hk : k < nr) (hk' : k' < nr)
    (heig : EigT nr (eighInput stf ri nr rad (freq o)) (V (freq o)) (E (freq o)))
    (haz : ∀ a a', a < nr → a' < nr →
      ∑ b ∈ range (5 * nr), ∑ b' ∈ range (5 * nr),
          azi nord (5 * nr) o b * Dent stf rad (5 * nr) a b a' b' * azi nord (5 * nr) o' b'
        = (if o = o' then ((5 * nr : ℕ) : ℝ) / 2 else 0)
            * rdftRe (5 * nr) (fun c => stf (halfDist (rad a) (rad a') (5 * nr) c)) (freq o)) :
    -(1 / 2 : ℝ) * (1 / ((nr : ℝ) * ((5 * nr : ℕ) : ℝ))) ^ 2 *
      ∑ a ∈ range nr, ∑ b ∈ range (5 * nr), ∑ a' ∈ range nr, ∑ b' ∈ range (5 * nr),
        polarFn nr nord (5 * nr) V o k a b * Dent stf rad (5 * nr) a b a' b' * polarFn nr nord (5 * nr) V o' k' a' b'
      = if o = o' ∧ k = k' then evs nr E (freq o) k else 0 := by
  have hf : freq o ≠ 0 := by unfold freq; omega
  have hf' : freq o' ≠ 0 := by unfold freq; omega
  -- 1. separate the radial and the azimuthal sums
  have step1 : ∑ a ∈ range nr, ∑ b ∈ range (5 * nr), ∑ a' ∈ range nr, ∑ b' ∈ range (5 * nr),
        polarFn nr nord (5 * nr) V o k a b * Dent stf rad (5 * nr) a b a' b' * polarFn nr nord (5 * nr) V o' k' a' b'
      = ∑ a ∈ range nr, ∑ a' ∈ range nr, (kers nr V (freq o) a k * kers nr V (freq o') a' k') *
          ((if o = o' then ((5 * nr : ℕ) : ℝ) / 2 else 0)
            * rdftRe (5 * nr) (fun c => stf (halfDist (rad a) (rad a') (5 * nr) c)) (freq o)) := by
    apply sum_congr rfl; intro a ha
    rw [sum_comm]
    apply sum_congr rfl; intro a' ha'
    rw [← haz a a' (mem_range.1 ha) (mem_range.1 ha'), Finset.mul_sum]
    apply sum_congr rfl; intro b _
    rw [Finset.mul_sum]
    apply sum_congr rfl; intro b' _
    unfold polarFn sfi; ring
  rw [step1]
  by_cases hoo : o = o'
  · subst hoo
    simp only [if_true, true_and]
    -- 2. the cosine transform is the eigh input divided by fktom·fnorm·2π/nth = -1/(2 nr nth)
    have hM : ∀ a a', rdftRe (5 * nr) (fun c => stf (halfDist (rad a) (rad a') (5 * nr) c)) (freq o)
        = -(2 * (nr:ℝ) * ((5 * nr : ℕ) : ℝ)) * eighInput stf ri nr rad (freq o) a a' := by
      intro a a'
      unfold eighInput
      rw [if_neg hf, kernel_eq]
      generalize rdftRe (5 * nr) (fun c => stf (halfDist (rad a) (rad a') (5 * nr) c)) (freq o) = S
      real_unfold [Gen.kl_fktom, Gen.kl_fnorm]
      have h1 : (1:ℝ) - ri ^ 2 ≠ 0 := fun h => hri (by linarith)
      have h2 : (nr:ℝ) ≠ 0 := by exact_mod_cast hnr.ne'
      have h3 := Real.pi_ne_zero
      push_cast
      field_simp
    have hker : ∀ a c, kers nr V (freq o) a c = Real.sqrt ((2 * nr : ℕ) : ℝ) * V (freq o) a c := by
      intro a c; real_unfold [kers]; rw [if_neg hf]
    simp only [hM, hker]
    have hs : Real.sqrt ((2 * nr : ℕ) : ℝ) * Real.sqrt ((2 * nr : ℕ) : ℝ) = 2 * (nr:ℝ) := by
      rw [Real.mul_self_sqrt (Nat.cast_nonneg _)]; push_cast; ring
    have e2 : ∀ a a', Real.sqrt ((2 * nr : ℕ) : ℝ) * V (freq o) a k * (Real.sqrt ((2 * nr : ℕ) : ℝ) * V (freq o) a' k')
          * (((5 * nr : ℕ) : ℝ) / 2 * (-(2 * (nr:ℝ) * ((5 * nr : ℕ) : ℝ)) * eighInput stf ri nr rad (freq o) a a'))
        = (-(2 * (nr:ℝ) ^ 2 * ((5 * nr : ℕ) : ℝ) ^ 2)) * (V (freq o) a k * eighInput stf ri nr rad (freq o) a a' * V (freq o) a' k') := by
      intro a a'
      linear_combination (V (freq o) a k * V (freq o) a' k' * (((5 * nr : ℕ) : ℝ) / 2
        * (-(2 * (nr:ℝ) * ((5 * nr : ℕ) : ℝ)) * eighInput stf ri nr rad (freq o) a a'))) * hs
    simp only [e2, ← Finset.mul_sum]
    rw [quad_of_eig nr _ _ _ heig k k' hk hk']
    have h2 : (nr:ℝ) ≠ 0 := by exact_mod_cast hnr.ne'
    have h5 : (((5 * nr : ℕ)) : ℝ) ≠ 0 := by exact_mod_cast (show 5 * nr ≠ 0 by omega)
    have hev : evs nr E (freq o) k = E (freq o) k := by unfold evs; rw [if_neg hf]
    split_ifs with hkk
    · rw [hev]; field_simp
    · simp
  · simp [hoo]

/-! ### the azimuthal block identity: cos / sin diagonalise the circulant-in-azimuth structure matrix -/

section block
open TrigGrid

theorem halfDist_eq (ra rb : ℝ) (n c : ℕ) :
    halfDist ra rb n c = 0.5 * Real.sqrt (clamp0 (ra ^ 2 + rb ^ 2 - 2 * ra * rb * Real.cos ((c:ℝ) * 2 * Real.pi / n))) := by
  real_unfold [halfDist, thetaK]

theorem clamp0_nonneg {x : ℝ} (hx : 0 ≤ x) : clamp0 x = x := by
  unfold clamp0
  simp only [Nat.cast_zero]
  split_ifs with h
  · linarith
  · rfl

/-- the argument of the structure function is `n`-periodic and even in the azimuthal offset -/
theorem halfDist_periodic (ra rb : ℝ) (n : ℕ) (hn : 0 < n) (c : ℕ) : halfDist ra rb n (c + n) = halfDist ra rb n c := by
  rw [halfDist_eq, halfDist_eq]
  have hn' : (n:ℝ) ≠ 0 := by exact_mod_cast hn.ne'
  have : ((c + n : ℕ) : ℝ) * 2 * Real.pi / n = (c:ℝ) * 2 * Real.pi / n + 2 * Real.pi := by push_cast; field_simp
  rw [this, Real.cos_add_two_pi]

theorem halfDist_even (ra rb : ℝ) (n : ℕ) (hn : 0 < n) (c : ℕ) (hc : c ≤ n) : halfDist ra rb n (n - c) = halfDist ra rb n c := by
  rw [halfDist_eq, halfDist_eq]
  have hn' : (n:ℝ) ≠ 0 := by exact_mod_cast hn.ne'
  have : ((n - c : ℕ) : ℝ) * 2 * Real.pi / n = 2 * Real.pi - (c:ℝ) * 2 * Real.pi / n := by
    rw [Nat.cast_sub hc]; field_simp
  rw [this, Real.cos_two_pi_sub]

/-- the structure-matrix entry between two grid points depends on their azimuthal offset modulo `n` only, through
exactly the quantity `gkl_kernel` evaluates (law of cosines) -/
theorem Dent_eq (stf : ℝ → ℝ) (rad : ℕ → ℝ) (n a b a' b' : ℕ) (hn : 0 < n) (hb' : b' ≤ b + n) :
    Dent stf rad n a b a' b' = stf (halfDist (rad a) (rad a') n (b + n - b')) := by
  unfold Dent
  rw [halfDist_eq]
  have hn' : (n:ℝ) ≠ 0 := by exact_mod_cast hn.ne'
  have hc : Real.cos (((b + n - b' : ℕ) : ℝ) * 2 * Real.pi / n) = Real.cos (ang n b - ang n b') := by
    have : ((b + n - b' : ℕ) : ℝ) * 2 * Real.pi / n = (ang n b - ang n b') + 2 * Real.pi := by
      rw [Nat.cast_sub hb']; unfold ang; push_cast; field_simp; ring
    rw [this, Real.cos_add_two_pi]
  rw [hc, Real.cos_sub]
  have h1 := Real.sin_sq_add_cos_sq (ang n b)
  have h2 := Real.sin_sq_add_cos_sq (ang n b')
  have hX : rad a ^ 2 + rad a' ^ 2 - 2 * rad a * rad a' *
        (Real.cos (ang n b) * Real.cos (ang n b') + Real.sin (ang n b) * Real.sin (ang n b'))
      = (rad a * Real.cos (ang n b) - rad a' * Real.cos (ang n b')) ^ 2
        + (rad a * Real.sin (ang n b) - rad a' * Real.sin (ang n b')) ^ 2 := by
    linear_combination (-(rad a ^ 2)) * h1 + (-(rad a' ^ 2)) * h2
  rw [hX, clamp0_nonneg (by positivity)]

theorem rdftRe_eq (n : ℕ) (w : ℕ → ℝ) (p : ℕ) :
    rdftRe n w p = ∑ c ∈ range n, w c * Real.cos ((p:ℝ) * ang n c) := by
  real_unfold [rdftRe, thetaK]
  apply sum_congr rfl; intro c _
  congr 2
  unfold ang; push_cast; ring

/-- `haz` of `diagonalises_partial`, proved: for azimuthal indices `o, o' ≠ 0` resolved by the grid -/
theorem azimuthal_block (stf : ℝ → ℝ) (rad : ℕ → ℝ) (n nord o o' a a' : ℕ) (ho : o < nord) (ho' : o' < nord)
    (h0 : o ≠ 0) (h0' : o' ≠ 0) (hres : freq o + freq o' < n) :
    ∑ b ∈ range n, ∑ b' ∈ range n, azi nord n o b * Dent stf rad n a b a' b' * azi nord n o' b'
      = (if o = o' then (n:ℝ) / 2 else 0) * rdftRe n (fun c => stf (halfDist (rad a) (rad a') n c)) (freq o) := by
  have hn : 0 < n := by omega
  set w : ℕ → ℝ := fun c => stf (halfDist (rad a) (rad a') n c) with hw
  have hper : ∀ m, w (m + n) = w m := fun m => by simp only [hw, halfDist_periodic _ _ n hn]
  have hev : ∀ c, c ≤ n → w (n - c) = w c := fun c hc => by simp only [hw, halfDist_even _ _ n hn c hc]
  have hD : ∀ b ∈ range n, ∀ b' ∈ range n, Dent stf rad n a b a' b' = w (b + n - b') := by
    intro b _ b' hb'
    exact Dent_eq stf rad n a b a' b' hn (by have := mem_range.1 hb'; omega)
  have hDs : ∀ (A A' : ℕ → ℝ), ∑ b ∈ range n, ∑ b' ∈ range n, A b * Dent stf rad n a b a' b' * A' b'
      = ∑ b ∈ range n, ∑ b' ∈ range n, A b * w (b + n - b') * A' b' :=
    fun A A' => sum_congr rfl (fun b hb => sum_congr rfl (fun b' hb' => by rw [hD b hb b' hb']))
  rw [rdftRe_eq]
  rcases index_cases o with rfl | ⟨k, rfl, hf⟩ | ⟨k, hk, rfl, hf⟩
  · exact absurd rfl h0
  · rcases index_cases o' with rfl | ⟨k', rfl, hf'⟩ | ⟨k', hk', rfl, hf'⟩
    · exact absurd rfl h0'
    · rw [hf, hf'] at hres
      simp only [azi_odd _ _ _ _ ho, azi_odd _ _ _ _ ho']
      rw [hDs, block_cos_cos n (k+1) (k'+1) (by omega) (by omega) (by omega) hper, hf]
      by_cases h : k = k'
      · subst h; simp
      · rw [if_neg (by omega), if_neg (by omega)]
    · simp only [azi_odd _ _ _ _ ho, azi_even _ _ _ _ hk' ho']
      rw [hf, hf'] at hres
      rw [hDs, block_cos_sin n (k+1) k' (by omega) hk' (by omega) hper, sum_even_sin n (k+1) hn hev,
        mul_zero, if_neg (by omega), zero_mul]
  · rcases index_cases o' with rfl | ⟨k', rfl, hf'⟩ | ⟨k', hk', rfl, hf'⟩
    · exact absurd rfl h0'
    · simp only [azi_even _ _ _ _ hk ho, azi_odd _ _ _ _ ho']
      rw [hf, hf'] at hres
      rw [hDs, block_sin_cos n k (k'+1) hk (by omega) (by omega) hper, sum_even_sin n k hn hev,
        mul_zero, if_neg (by omega), zero_mul]
    · rw [hf, hf'] at hres
      simp only [azi_even _ _ _ _ hk ho, azi_even _ _ _ _ hk' ho']
      rw [hDs, block_sin_sin n k k' hk hk' (by omega) hper, hf]
      by_cases h : k = k'
      · subst h; simp
      · rw [if_neg h, if_neg (by omega)]

end block

/-- **diagonalisation, azimuthal orders ≥ 1** (native grid, `npp = nth = 5 nr`): for any two returned functions of
azimuthal index `o, o' ≠ 0` below the Nyquist order of the grid, `-1/2` times the double pupil average of
`K D K'` is the returned variance if they are the same function and `0` otherwise — for every structure function,
every `ri² ≠ 1`, every `nr`, and every eigen-decomposition meeting the `eigh` contract. -/
theorem diagonalises (stf : ℝ → ℝ) (ri : ℝ) (nr nord : ℕ) (rad : ℕ → ℝ) (V : ℕ → ℕ → ℕ → ℝ)
    (E : ℕ → ℕ → ℝ) (o k o' k' : ℕ) (hnr : 0 < nr) (hri : ri ^ 2 ≠ 1) (h0 : o ≠ 0) (h0' : o' ≠ 0)
    (ho : o < nord) (ho' : o' < nord) (hres : freq o + freq o' < 5 * nr) (hk : k < nr) (hk' : k' < nr)
    (heig : EigT nr (eighInput stf ri nr rad (freq o)) (V (freq o)) (E (freq o))) :
    -(1 / 2 : ℝ) * (1 / ((nr : ℝ) * ((5 * nr : ℕ) : ℝ))) ^ 2 *
      ∑ a ∈ range nr, ∑ b ∈ range (5 * nr), ∑ a' ∈ range nr, ∑ b' ∈ range (5 * nr),
        polarFn nr nord (5 * nr) V o k a b * Dent stf rad (5 * nr) a b a' b' * polarFn nr nord (5 * nr) V o' k' a' b'
      = if o = o' ∧ k = k' then evs nr E (freq o) k else 0 :=
  diagonalises_partial stf ri nr nord rad V E o k o' k' hnr hri h0 h0' hk hk' heig
    (fun a a' _ _ => by
      have := azimuthal_block stf rad (5 * nr) nord o o' a a' ho ho' h0 h0' hres
      simpa using this)

/-! ### diagonalisation when one or both functions have azimuthal order 0 (piston-filtered block) -/

section order0
open TrigGrid

theorem Dent_symm (stf : ℝ → ℝ) (rad : ℕ → ℝ) (n a b a' b' : ℕ) :
    Dent stf rad n a b a' b' = Dent stf rad n a' b' a b := by
  unfold Dent; congr 3; ring

/-- the four-fold pupil sum separates into a radial double sum of azimuthal double sums -/
theorem quad_split (stf : ℝ → ℝ) (nr nord n : ℕ) (rad : ℕ → ℝ) (V : ℕ → ℕ → ℕ → ℝ) (o k o' k' : ℕ) :
    ∑ a ∈ range nr, ∑ b ∈ range n, ∑ a' ∈ range nr, ∑ b' ∈ range n,
        polarFn nr nord n V o k a b * Dent stf rad n a b a' b' * polarFn nr nord n V o' k' a' b'
      = ∑ a ∈ range nr, ∑ a' ∈ range nr, (kers nr V (freq o) a k * kers nr V (freq o') a' k') *
          ∑ b ∈ range n, ∑ b' ∈ range n, azi nord n o b * Dent stf rad n a b a' b' * azi nord n o' b' := by
  apply sum_congr rfl; intro a _
  rw [sum_comm]
  apply sum_congr rfl; intro a' _
  rw [Finset.mul_sum]
  apply sum_congr rfl; intro b _
  rw [Finset.mul_sum]
  apply sum_congr rfl; intro b' _
  unfold polarFn sfi; ring

/-- the azimuthal block with the constant function on the left: `n · Σ_c w(c)` against the constant function, `0`
against every cos / sin resolved by the grid -/
theorem azimuthal_block0 (stf : ℝ → ℝ) (rad : ℕ → ℝ) (n nord o' a a' : ℕ) (hn : 0 < n)
    (ho' : o' ≠ 0 → o' < nord) (hres : freq o' < n) :
    ∑ b ∈ range n, ∑ b' ∈ range n, azi nord n 0 b * Dent stf rad n a b a' b' * azi nord n o' b'
      = (if o' = 0 then (n:ℝ) else 0) * rdftRe n (fun c => stf (halfDist (rad a) (rad a') n c)) 0 := by
  set w : ℕ → ℝ := fun c => stf (halfDist (rad a) (rad a') n c) with hw
  have hper : ∀ m, w (m + n) = w m := fun m => by simp only [hw, halfDist_periodic _ _ n hn]
  have hD : ∑ b ∈ range n, ∑ b' ∈ range n, azi nord n 0 b * Dent stf rad n a b a' b' * azi nord n o' b'
      = ∑ b ∈ range n, ∑ b' ∈ range n, w (b + n - b') * azi nord n o' b' := by
    apply sum_congr rfl; intro b _
    apply sum_congr rfl; intro b' hb'
    rw [azi_zero, one_mul, Dent_eq stf rad n a b a' b' hn (by have := mem_range.1 hb'; omega)]
  rw [hD, block_one n hn hper, rdftRe_eq]
  have hs : ∑ c ∈ range n, w c * Real.cos (((0:ℕ):ℝ) * ang n c) = ∑ c ∈ range n, w c := by
    apply sum_congr rfl; intro c _; simp
  rw [hs]
  by_cases h0 : o' = 0
  · subst h0
    simp only [azi_zero, sum_const, card_range, nsmul_eq_mul, mul_one, if_true]; ring
  · rw [azi_sum nord n o' (ho' h0) h0 hres, if_neg h0]; ring

/-- … and with the constant function on the right (the structure matrix is symmetric) -/
theorem azimuthal_block0' (stf : ℝ → ℝ) (rad : ℕ → ℝ) (n nord o a a' : ℕ) (hn : 0 < n)
    (ho : o < nord) (h0 : o ≠ 0) (hres : freq o < n) :
    ∑ b ∈ range n, ∑ b' ∈ range n, azi nord n o b * Dent stf rad n a b a' b' * azi nord n 0 b' = 0 := by
  have := azimuthal_block0 stf rad n nord o a' a hn (fun _ => ho) hres
  rw [if_neg h0, zero_mul] at this
  rw [sum_comm, ← this]
  apply sum_congr rfl; intro b' _
  apply sum_congr rfl; intro b _
  rw [Dent_symm]; ring

/-- every cosine-transform coefficient of the structure function is `-(2·nr·nth)` times the (scaled) kernel entry -/
theorem rdft_eq_kernel (stf : ℝ → ℝ) (ri : ℝ) (nr : ℕ) (rad : ℕ → ℝ) (a a' p : ℕ) (hnr : 0 < nr) (hri : ri ^ 2 ≠ 1) :
    rdftRe (5 * nr) (fun c => stf (halfDist (rad a) (rad a') (5 * nr) c)) p
      = -(2 * (nr:ℝ) * ((5 * nr : ℕ) : ℝ)) * (Gen.kl_fktom ri (nr : ℝ) * kernel stf ri nr rad a a' p) := by
  rw [kernel_eq]
  generalize rdftRe (5 * nr) (fun c => stf (halfDist (rad a) (rad a') (5 * nr) c)) p = S
  real_unfold [Gen.kl_fktom, Gen.kl_fnorm]
  have h1 : (1:ℝ) - ri ^ 2 ≠ 0 := fun h => hri (by linarith)
  have h2 : (nr:ℝ) ≠ 0 := by exact_mod_cast hnr.ne'
  have h3 := Real.pi_ne_zero
  push_cast
  field_simp

/-- contract of `eigh` on the filtered order-0 block `M[0:nr-1, 0:nr-1]`: orthonormal eigenvectors, `M V = V diag(e)` -/
def EigT0 (nr : ℕ) (M : ℕ → ℕ → ℝ) (v : ℕ → ℕ → ℝ) (e : ℕ → ℝ) : Prop :=
  Orthonormal0 nr v ∧ ∀ a k, a + 1 < nr → k + 1 < nr → ∑ a' ∈ range (nr - 1), M a a' * v a' k = e k * v a k

theorem EigT0.toEigT {nr : ℕ} {M v : ℕ → ℕ → ℝ} {e : ℕ → ℝ} (h : EigT0 nr M v e) : EigT (nr - 1) M v e :=
  ⟨fun k k' hk hk' => h.1 k k' (by omega) (by omega), fun a k ha hk => h.2 a k (by omega) (by omega)⟩

theorem eighInput_zero (stf : ℝ → ℝ) (ri : ℝ) (nr : ℕ) (rad : ℕ → ℝ) (q q' : ℕ) :
    eighInput stf ri nr rad 0 q q'
      = Gen.kl_fktom ri (nr : ℝ) * b1 nr (fun i j => kernel stf ri nr rad i j 0) q q' := by
  unfold eighInput; rw [if_pos rfl]

/-- **diagonalisation, two order-0 functions** (neither of them the piston, `k, k' < nr-1`) -/
theorem diagonalises_order0_same (stf : ℝ → ℝ) (ri : ℝ) (nr nord : ℕ) (rad : ℕ → ℝ) (V : ℕ → ℕ → ℕ → ℝ)
    (E : ℕ → ℕ → ℝ) (k k' : ℕ) (hri : ri ^ 2 ≠ 1) (hk : k + 1 < nr) (hk' : k' + 1 < nr)
    (heig : EigT0 nr (eighInput stf ri nr rad 0) (V 0) (E 0)) :
    -(1 / 2 : ℝ) * (1 / ((nr : ℝ) * ((5 * nr : ℕ) : ℝ))) ^ 2 *
      ∑ a ∈ range nr, ∑ b ∈ range (5 * nr), ∑ a' ∈ range nr, ∑ b' ∈ range (5 * nr),
        polarFn nr nord (5 * nr) V 0 k a b * Dent stf rad (5 * nr) a b a' b' * polarFn nr nord (5 * nr) V 0 k' a' b'
      = if k = k' then evs nr E 0 k else 0 := by
  have hnr : 0 < nr := by omega
  have hf : freq 0 = 0 := rfl
  rw [quad_split, hf]
  have haz : ∀ a a', ∑ b ∈ range (5 * nr), ∑ b' ∈ range (5 * nr),
        azi nord (5 * nr) 0 b * Dent stf rad (5 * nr) a b a' b' * azi nord (5 * nr) 0 b'
      = ((5 * nr : ℕ) : ℝ) * (-(2 * (nr:ℝ) * ((5 * nr : ℕ) : ℝ))
          * (Gen.kl_fktom ri (nr : ℝ) * kernel stf ri nr rad a a' 0)) := by
    intro a a'
    rw [azimuthal_block0 stf rad (5 * nr) nord 0 a a' (by omega) (fun h => absurd rfl h) (by rw [hf]; omega),
      if_pos rfl, rdft_eq_kernel stf ri nr rad a a' 0 hnr hri]
  have hker : ∀ a c, kers nr V 0 a c = Real.sqrt (nr : ℝ) * vs0 nr (V 0) c a := by
    intro a c; real_unfold [kers]; simp only [if_true]
  simp only [haz, hker]
  have hs : Real.sqrt (nr : ℝ) * Real.sqrt (nr : ℝ) = (nr:ℝ) := Real.mul_self_sqrt (Nat.cast_nonneg _)
  have e2 : ∀ a a', Real.sqrt (nr : ℝ) * vs0 nr (V 0) k a * (Real.sqrt (nr : ℝ) * vs0 nr (V 0) k' a')
        * (((5 * nr : ℕ) : ℝ) * (-(2 * (nr:ℝ) * ((5 * nr : ℕ) : ℝ))
          * (Gen.kl_fktom ri (nr : ℝ) * kernel stf ri nr rad a a' 0)))
      = (-(2 * (nr:ℝ) ^ 2 * ((5 * nr : ℕ) : ℝ) ^ 2) * Gen.kl_fktom ri (nr : ℝ))
          * (vs0 nr (V 0) k a * kernel stf ri nr rad a a' 0 * vs0 nr (V 0) k' a') := by
    intro a a'
    linear_combination (vs0 nr (V 0) k a * vs0 nr (V 0) k' a' * (((5 * nr : ℕ) : ℝ) * (-(2 * (nr:ℝ) * ((5 * nr : ℕ) : ℝ))
          * (Gen.kl_fktom ri (nr : ℝ) * kernel stf ri nr rad a a' 0)))) * hs
  simp only [e2, ← Finset.mul_sum]
  rw [vs0_quad nr (fun i j => kernel stf ri nr rad i j 0) (V 0) k k' hk hk']
  have e3 : Gen.kl_fktom ri (nr : ℝ) * ∑ q ∈ range (nr - 1), ∑ q' ∈ range (nr - 1),
        V 0 q k * b1 nr (fun i j => kernel stf ri nr rad i j 0) q q' * V 0 q' k'
      = ∑ q ∈ range (nr - 1), ∑ q' ∈ range (nr - 1), V 0 q k * eighInput stf ri nr rad 0 q q' * V 0 q' k' := by
    simp only [eighInput_zero, Finset.mul_sum]
    exact sum_congr rfl (fun q _ => sum_congr rfl (fun q' _ => by ring))
  rw [mul_assoc (-(2 * (nr:ℝ) ^ 2 * ((5 * nr : ℕ) : ℝ) ^ 2)), e3,
    quad_of_eig (nr - 1) _ _ _ heig.toEigT k k' (by omega) (by omega)]
  have h2 : (nr:ℝ) ≠ 0 := by exact_mod_cast hnr.ne'
  have h5 : (((5 * nr : ℕ)) : ℝ) ≠ 0 := by exact_mod_cast (show 5 * nr ≠ 0 by omega)
  have hev : evs nr E 0 k = E 0 k := by unfold evs; rw [if_pos rfl, if_pos hk]
  split_ifs with hkk
  · rw [hev]; field_simp
  · simp

/-- **diagonalisation, an order-0 function against a function of order ≥ 1**: the covariance vanishes (whatever the
radial factors are — the piston included) -/
theorem diagonalises_order0_cross (stf : ℝ → ℝ) (nr nord : ℕ) (rad : ℕ → ℝ) (V : ℕ → ℕ → ℕ → ℝ)
    (o k o' k' : ℕ) (h00 : (o = 0 ∧ o' ≠ 0) ∨ (o ≠ 0 ∧ o' = 0)) (ho : o < nord) (ho' : o' < nord)
    (hres : freq o + freq o' < 5 * nr) :
    -(1 / 2 : ℝ) * (1 / ((nr : ℝ) * ((5 * nr : ℕ) : ℝ))) ^ 2 *
      ∑ a ∈ range nr, ∑ b ∈ range (5 * nr), ∑ a' ∈ range nr, ∑ b' ∈ range (5 * nr),
        polarFn nr nord (5 * nr) V o k a b * Dent stf rad (5 * nr) a b a' b' * polarFn nr nord (5 * nr) V o' k' a' b'
      = 0 := by
  have hn : 0 < 5 * nr := by omega
  rw [quad_split]
  rcases h00 with ⟨rfl, h0'⟩ | ⟨h0, rfl⟩
  · have : ∀ a a', ∑ b ∈ range (5 * nr), ∑ b' ∈ range (5 * nr),
        azi nord (5 * nr) 0 b * Dent stf rad (5 * nr) a b a' b' * azi nord (5 * nr) o' b' = 0 := by
      intro a a'
      rw [azimuthal_block0 stf rad (5 * nr) nord o' a a' hn (fun _ => ho') (by omega), if_neg h0', zero_mul]
    simp [this]
  · have : ∀ a a', ∑ b ∈ range (5 * nr), ∑ b' ∈ range (5 * nr),
        azi nord (5 * nr) o b * Dent stf rad (5 * nr) a b a' b' * azi nord (5 * nr) 0 b' = 0 := by
      intro a a'
      exact azimuthal_block0' stf rad (5 * nr) nord o a a' hn ho h0 (by omega)
    simp [this]

/-- **diagonalisation when one or both functions have azimuthal order 0** (native grid, `npp = nth = 5 nr`): same identity
as `diagonalises`; an order-0 function must not be the piston (`k < nr-1`: the piston's recorded variance is the appended
`0`, not its covariance) -/
theorem diagonalises_order0 (stf : ℝ → ℝ) (ri : ℝ) (nr nord : ℕ) (rad : ℕ → ℝ) (V : ℕ → ℕ → ℕ → ℝ)
    (E : ℕ → ℕ → ℝ) (o k o' k' : ℕ) (hri : ri ^ 2 ≠ 1) (h00 : o = 0 ∨ o' = 0)
    (ho : o < nord) (ho' : o' < nord) (hres : freq o + freq o' < 5 * nr)
    (hk : o = 0 → k + 1 < nr) (hk' : o' = 0 → k' + 1 < nr)
    (heig : EigT0 nr (eighInput stf ri nr rad 0) (V 0) (E 0)) :
    -(1 / 2 : ℝ) * (1 / ((nr : ℝ) * ((5 * nr : ℕ) : ℝ))) ^ 2 *
      ∑ a ∈ range nr, ∑ b ∈ range (5 * nr), ∑ a' ∈ range nr, ∑ b' ∈ range (5 * nr),
        polarFn nr nord (5 * nr) V o k a b * Dent stf rad (5 * nr) a b a' b' * polarFn nr nord (5 * nr) V o' k' a' b'
      = if o = o' ∧ k = k' then evs nr E (freq o) k else 0 := by
  by_cases hoo : o = o'
  · subst hoo
    have h0 : o = 0 := by rcases h00 with h | h <;> exact h
    subst h0
    simp only [true_and]
    exact diagonalises_order0_same stf ri nr nord rad V E k k' hri (hk rfl) (hk' rfl) heig
  · rw [if_neg (fun h => hoo h.1)]
    exact diagonalises_order0_cross stf nr nord rad V o k o' k' (by omega) ho ho' hres

/-- **diagonalisation, all azimuthal orders**: `diagonalises` and `diagonalises_order0` together -/
theorem diagonalises_all (stf : ℝ → ℝ) (ri : ℝ) (nr nord : ℕ) (rad : ℕ → ℝ) (V : ℕ → ℕ → ℕ → ℝ)
    (E : ℕ → ℕ → ℝ) (o k o' k' : ℕ) (hri : ri ^ 2 ≠ 1)
    (ho : o < nord) (ho' : o' < nord) (hres : freq o + freq o' < 5 * nr) (hk : k < nr) (hk' : k' < nr)
    (hp : o = 0 → k + 1 < nr) (hp' : o' = 0 → k' + 1 < nr)
    (heig0 : EigT0 nr (eighInput stf ri nr rad 0) (V 0) (E 0))
    (heigT : ∀ t, 0 < t → EigT nr (eighInput stf ri nr rad t) (V t) (E t)) :
    -(1 / 2 : ℝ) * (1 / ((nr : ℝ) * ((5 * nr : ℕ) : ℝ))) ^ 2 *
      ∑ a ∈ range nr, ∑ b ∈ range (5 * nr), ∑ a' ∈ range nr, ∑ b' ∈ range (5 * nr),
        polarFn nr nord (5 * nr) V o k a b * Dent stf rad (5 * nr) a b a' b' * polarFn nr nord (5 * nr) V o' k' a' b'
      = if o = o' ∧ k = k' then evs nr E (freq o) k else 0 := by
  by_cases h00 : o = 0 ∨ o' = 0
  · exact diagonalises_order0 stf ri nr nord rad V E o k o' k' hri h00 ho ho' hres hp hp' heig0
  · have h0 : o ≠ 0 := fun h => h00 (Or.inl h)
    have h0' : o' ≠ 0 := fun h => h00 (Or.inr h)
    exact diagonalises stf ri nr nord rad V E o k o' k' (by omega) hri h0 h0' ho ho' hres hk hk'
      (heigT (freq o) (by unfold freq; omega))

/-- **the returned basis diagonalises the covariance**: for two positions `i`, `j` of the basis returned by `gkl_fcom`
(flat eigen-table indices `x = oind[i]`, `y = oind[j]`, none of them the piston entry `nr-1`), the covariance of the two
returned functions is the returned variance `evals[i] = evs[x]` when `i = j` and `0` otherwise -/
theorem returned_basis_diagonalises (stf : ℝ → ℝ) (ri : ℝ) (nr nord nfunc : ℕ) (rad : ℕ → ℝ) (V : ℕ → ℕ → ℕ → ℝ)
    (E : ℕ → ℕ → ℝ) (a : List ℕ) (ha : a.Nodup) (hnr : 0 < nr) (hri : ri ^ 2 ≠ 1) (i j x y : ℕ)
    (hi : (oind nr nfunc a)[i]? = some x) (hj : (oind nr nfunc a)[j]? = some y)
    (hnp : x ≠ nr - 1) (hnp' : y ≠ nr - 1)
    (ho : oordAt nr i x < nord) (ho' : oordAt nr j y < nord) (hres : x / nr + y / nr < 5 * nr)
    (heig0 : EigT0 nr (eighInput stf ri nr rad 0) (V 0) (E 0))
    (heigT : ∀ t, 0 < t → EigT nr (eighInput stf ri nr rad t) (V t) (E t)) :
    -(1 / 2 : ℝ) * (1 / ((nr : ℝ) * ((5 * nr : ℕ) : ℝ))) ^ 2 *
      ∑ a ∈ range nr, ∑ b ∈ range (5 * nr), ∑ a' ∈ range nr, ∑ b' ∈ range (5 * nr),
        polarFn nr nord (5 * nr) V (oordAt nr i x) (x % nr) a b * Dent stf rad (5 * nr) a b a' b'
          * polarFn nr nord (5 * nr) V (oordAt nr j y) (y % nr) a' b'
      = if i = j then evs nr E (x / nr) (x % nr) else 0 := by
  have hpist : ∀ p z, z ≠ nr - 1 → oordAt nr p z = 0 → z % nr + 1 < nr := by
    intro p z hz h
    have hq : z / nr = 0 := by rw [← freq_oordAt nr p z, h]; rfl
    have hlt : z < nr := by
      rcases Nat.div_eq_zero_iff.1 hq with h | h
      · omega
      · exact h
    rw [Nat.mod_eq_of_lt hlt]; omega
  rw [diagonalises_all stf ri nr nord rad V E (oordAt nr i x) (x % nr) (oordAt nr j y) (y % nr) hri ho ho'
    (by rw [freq_oordAt, freq_oordAt]; exact hres) (Nat.mod_lt _ hnr) (Nat.mod_lt _ hnr)
    (hpist i x hnp) (hpist j y hnp') heig0 heigT, freq_oordAt]
  by_cases hij : i = j
  · subst hij
    have hxy : x = y := by rw [hi] at hj; exact Option.some.inj hj
    subst hxy
    simp
  · rw [if_neg hij]
    have hne : (oordAt nr i x, x % nr) ≠ (oordAt nr j y, y % nr) := by
      rcases Nat.lt_or_gt_of_ne hij with h | h
      · exact modes_distinct nr nfunc a hnr ha i j x y h hi hj
      · exact (modes_distinct nr nfunc a hnr ha j i y x h hj hi).symm
    rw [if_neg (fun h => hne (by rw [h.1, h.2]))]

end order0

/-! ### the basis as returned: positions of `oind` instead of `(o, k)` pairs -/

/-- **the returned basis is orthonormal**: two positions `i`, `j` of the basis returned by `gkl_fcom` carry functions whose
pupil average of the product is `δ_ij` (argsort without repetitions, `eigh` contract, grid resolving both frequencies) -/
theorem returned_basis_orthonormal (nr nord npp nfunc : ℕ) (V : ℕ → ℕ → ℕ → ℝ) (a : List ℕ) (ha : a.Nodup) (hnr : 0 < nr)
    (h0 : Orthonormal0 nr (V 0)) (hT : ∀ t, 0 < t → OrthonormalT nr (V t)) (i j x y : ℕ)
    (hi : (oind nr nfunc a)[i]? = some x) (hj : (oind nr nfunc a)[j]? = some y)
    (ho : oordAt nr i x < nord) (ho' : oordAt nr j y < nord) (hres : x / nr + y / nr < npp) :
    (1 / ((nr:ℝ) * npp)) * ∑ a ∈ range nr, ∑ b ∈ range npp,
        polarFn nr nord npp V (oordAt nr i x) (x % nr) a b * polarFn nr nord npp V (oordAt nr j y) (y % nr) a b
      = if i = j then 1 else 0 := by
  rw [polar_orthonormal nr nord npp V h0 hT _ _ _ _ ho ho' (Nat.mod_lt _ hnr) (Nat.mod_lt _ hnr)
    (by rw [freq_oordAt, freq_oordAt]; exact hres)]
  by_cases hij : i = j
  · subst hij
    have hxy : x = y := by rw [hi] at hj; exact Option.some.inj hj
    subst hxy
    simp
  · rw [if_neg hij]
    have hne : (oordAt nr i x, x % nr) ≠ (oordAt nr j y, y % nr) := by
      rcases Nat.lt_or_gt_of_ne hij with h | h
      · exact modes_distinct nr nfunc a hnr ha i j x y h hi hj
      · exact (modes_distinct nr nfunc a hnr ha j i y x h hj hi).symm
    rw [if_neg (fun h => hne (by rw [h.1, h.2]))]

/-- positivity of the selected variances is exactly what keeps the piston out of the basis: the flat table entry of the
piston (`nr - 1`: order 0, last radial index) is the appended `0`, so an entry with a positive variance is not the piston.
(This discharges the hypotheses `x ≠ nr - 1` of `returned_basis_diagonalises` from `evals > 0`, which is NOT proved —
a fact about the Kolmogorov spectrum, evaluated by the oracle.) -/
theorem piston_not_selected_partial (nr : ℕ) (E : ℕ → ℕ → ℝ) (x : ℕ) (hnr : 0 < nr)
    (hpos : 0 < evs nr E (x / nr) (x % nr)) : x ≠ nr - 1 := by
  rintro rfl
  have h1 : (nr - 1) / nr = 0 := Nat.div_eq_of_lt (by omega)
  have h2 : (nr - 1) % nr = nr - 1 := Nat.mod_eq_of_lt (by omega)
  rw [h1, h2, piston_variance_zero nr E hnr] at hpos
  exact lt_irrefl _ hpos

/-- **every returned function is piston-free**: zero pupil mean at every position of the returned basis whose flat index
is not the piston entry -/
theorem returned_basis_zero_mean (nr nord npp : ℕ) (V : ℕ → ℕ → ℕ → ℝ) (hnr : 0 < nr) (i x : ℕ)
    (hnp : x ≠ nr - 1) (ho : oordAt nr i x < nord) (hres : x / nr < npp) :
    (1 / ((nr:ℝ) * npp)) * ∑ a ∈ range nr, ∑ b ∈ range npp, polarFn nr nord npp V (oordAt nr i x) (x % nr) a b = 0 := by
  by_cases h0 : oordAt nr i x = 0
  · have hq : x / nr = 0 := by rw [← freq_oordAt nr i x, h0]; rfl
    have hlt : x < nr := by
      rcases Nat.div_eq_zero_iff.1 hq with h | h
      · omega
      · exact h
    rw [h0]
    exact order0_zero_mean nr nord npp V (x % nr) (by rw [Nat.mod_eq_of_lt hlt]; omega)
  · exact higher_order_zero_mean nr nord npp V _ _ ho h0 (by rw [freq_oordAt]; exact hres)

/-
NOT PROVED (statements kept here; listed in `chk.assumptions`; evaluated numerically by the oracle on the real code)

* variances_positive, tip_tilt_first : every selected eigenvalue is > 0 and the largest one belongs to order 1 — facts about
  the spectrum of the Kolmogorov kernel (no foundation in Mathlib); `piston_not_selected_partial` shows that positivity is what keeps
  the piston (variance 0, mean 1) out of the basis (hypotheses `x ≠ nr - 1` of `returned_basis_diagonalises` / `_zero_mean`).  What holds
  without spectral facts is proved: `first_pair_equal` (largest eigenvalue of order ≥ 1 ⇒ the first two functions are one
  cos/sin pair with equal variance) and `tip_tilt_first_partial` (… of order exactly 1 ⇒ they are R(r) sin θ, R(r) cos θ).
* order_loop_adequate : the orders `0 .. nus-1` kept by the `while` loop contain the `nfunc` largest eigenvalues of ALL orders
  (needs monotone decay of the largest eigenvalue with the azimuthal order).
* cartesian_follows_polar : `|pol2car(geom, K)(x, y) - K(r(x,y), θ(x,y))| ≤ resampling error` (`map_coordinates` is an external
  kernel; the oracle checks the value lies in the range of the surrounding polar samples).
-/

/-- non-vacuity of the order-0 `eigh` contract (`nr = 3`: a 2×2 block `2·I`, eigenvectors `I`, eigenvalues `2, 2`) and of the
hypotheses of `tip_tilt_first_partial` -/
example : EigT0 3 (fun a a' => if a = a' then 2 else 0) (fun q m => if q = m then 1 else 0) (fun _ => 2)
    ∧ ((3 ≤ 4 ∧ 4 < 2 * 3) ∧ oind 3 3 [4, 0] = [4, 4, 0]) := by
  refine ⟨⟨?_, ?_⟩, by omega, by simp [oind, expand]⟩
  · intro m m' hm hm'
    have : m < 2 := by omega
    have : m' < 2 := by omega
    interval_cases m <;> interval_cases m' <;> simp
  · intro a k ha hk
    have : a < 2 := by omega
    have : k < 2 := by omega
    interval_cases a <;> interval_cases k <;> simp

/-- non-vacuity of the `eigh` contracts: the identity matrices satisfy them -/
example : Orthonormal0 3 (fun q m => if q = m then 1 else 0) ∧ OrthonormalT 2 (fun a k => if a = k then 1 else 0) := by
  constructor
  · intro m m' hm hm'
    have : m < 2 := by omega
    have : m' < 2 := by omega
    interval_cases m <;> interval_cases m' <;> simp
  · intro k k' hk hk'
    interval_cases k <;> interval_cases k' <;> simp

end AoVerif.Props.C13
