/-
C01 — the slope covariance matrix equals the true covariance of the WFS slopes.

Model: `Model/SlopeCov.lean` (hand-written mirror of `CovarianceMatrix`, after the fixes `fixes/C01-*.diff`), whose per-pair
kernels are tied BY `rfl` to the definitions translator T1 regenerates from the source on every run
(`kernel_xx_is_generated` …).  Reading of the property:

  * the turbulent phase of layer `l` is a map `φ l : ℝ² → H` into a real inner-product space (`H = L²(Ω)` of the probability
    space; `⟪X, Y⟫ = E[XY]` is the covariance of centred variables) whose structure function is the layer's
    `sf · r0 L0`:  `‖φ u − φ v‖² = sf |u − v|`  (`IsSqDist`; hypothesis H2 of DESIGN §3 for von Kármán);
  * the slope of sub-aperture `a` of sensor `w` along an axis is `subapSlope φ c l w axis a`
    `= (λ_w / 2π) · (φ(p + d/2·e) − φ(p − d/2·e)) / d` at the projected centre `p = layerPos` and diameter `d = layerDiam`.
-/
import Mathlib.Analysis.InnerProductSpace.GramMatrix
import Mathlib.Analysis.Complex.Basic
import AoVerif.Lemmas.SlopeCov
import AoVerif.Gen.Formulas

namespace AoVerif.Props.C01
open AoVerif AoVerif.SlopeCov

set_option linter.unusedSectionVars false
variable [Transc ℝ] [RealTransc]
variable {H : Type} [NormedAddCommGroup H] [InnerProductSpace ℝ H]
local notation "⟪" x ", " y "⟫" => inner ℝ x y

/-! ### tie to the source: the model kernels ARE the regenerated `compute_covariance_*` -/

theorem kernel_xx_is_generated (s0 s1 d1 d2 r0 L0 : ℝ) :
    Gen.compute_covariance_xx s0 s1 d1 d2 r0 L0 = covXX (fun r => Gen.structure_function_vk r r0 L0) s0 s1 d1 d2 := rfl
theorem kernel_yy_is_generated (s0 s1 d1 d2 r0 L0 : ℝ) :
    Gen.compute_covariance_yy s0 s1 d1 d2 r0 L0 = covYY (fun r => Gen.structure_function_vk r r0 L0) s0 s1 d1 d2 := rfl
theorem kernel_xy_is_generated (s0 s1 d1 d2 r0 L0 : ℝ) :
    Gen.compute_covariance_xy s0 s1 d1 d2 r0 L0 = covXY (fun r => Gen.structure_function_vk r r0 L0) s0 s1 d1 d2 := rfl

/-! ### the polarisation argument on the regenerated kernels: each is twice the inner product of two finite differences -/

theorem kernel_xx_eq_cov (φ : ℝ × ℝ → H) (r0 L0 : ℝ) (hD : IsSqDist φ (fun r => Gen.structure_function_vk r r0 L0))
    (p q : ℝ × ℝ) (d1 d2 : ℝ) :
    Gen.compute_covariance_xx (q.1 - p.1) (q.2 - p.2) d1 d2 r0 L0 = 2 * ⟪fdiff φ p d1 false, fdiff φ q d2 false⟫ :=
  covXX_eq_inner φ _ hD p q d1 d2

theorem kernel_yy_eq_cov (φ : ℝ × ℝ → H) (r0 L0 : ℝ) (hD : IsSqDist φ (fun r => Gen.structure_function_vk r r0 L0))
    (p q : ℝ × ℝ) (d1 d2 : ℝ) :
    Gen.compute_covariance_yy (q.1 - p.1) (q.2 - p.2) d1 d2 r0 L0 = 2 * ⟪fdiff φ p d1 true, fdiff φ q d2 true⟫ :=
  covYY_eq_inner φ _ hD p q d1 d2

theorem kernel_xy_eq_cov (φ : ℝ × ℝ → H) (r0 L0 : ℝ) (hD : IsSqDist φ (fun r => Gen.structure_function_vk r r0 L0))
    (p q : ℝ × ℝ) (d1 d2 : ℝ) :
    Gen.compute_covariance_xy (q.1 - p.1) (q.2 - p.2) d1 d2 r0 L0 = 2 * ⟪fdiff φ p d1 false, fdiff φ q d2 true⟫ :=
  covXY_eq_inner φ _ hD p q d1 d2

/-- the `cov_yx` of the repaired `wfs_covariance`: `compute_covariance_xy` with the diameters exchanged -/
theorem kernel_yx_eq_cov (φ : ℝ × ℝ → H) (r0 L0 : ℝ) (hD : IsSqDist φ (fun r => Gen.structure_function_vk r r0 L0))
    (p q : ℝ × ℝ) (d1 d2 : ℝ) :
    Gen.compute_covariance_xy (q.1 - p.1) (q.2 - p.2) d2 d1 r0 L0 = 2 * ⟪fdiff φ p d1 true, fdiff φ q d2 false⟫ :=
  covYX_eq_inner φ _ hD p q d1 d2

/-! ### geometry: cone projection of centres and diameters -/

/-- a sub-aperture centre seen from a guide star at altitude `alt ≠ 0` in direction `θ` (arcsec) crosses the layer at
`(1 − h/alt)·p + h·θ·π/180/3600`; its diameter shrinks by the same factor -/
theorem projection_lgs (c : Cfg ℝ) (l : Layer ℝ) (w a : ℕ) (h : (c.wfs w).gsAlt ≠ 0) :
    layerPos c l w a
      = ((1 - l.alt / (c.wfs w).gsAlt) * (subapPos c.telDiam (c.wfs w) a).1 + (c.wfs w).gsX * Real.pi / 180 / 3600 * l.alt,
         (1 - l.alt / (c.wfs w).gsAlt) * (subapPos c.telDiam (c.wfs w) a).2 + (c.wfs w).gsY * Real.pi / 180 / 3600 * l.alt)
      ∧ layerDiam c l w = (c.wfs w).diam * (1 - l.alt / (c.wfs w).gsAlt) := by
  have h' : (c.wfs w).gsAlt < 0 ∨ 0 < (c.wfs w).gsAlt := lt_or_gt_of_ne h
  real_unfold [layerPos, layerDiam, scaleFactor, translation]
  simp [h']

theorem projection_ngs (c : Cfg ℝ) (l : Layer ℝ) (w a : ℕ) (h : (c.wfs w).gsAlt = 0) :
    layerPos c l w a
      = ((subapPos c.telDiam (c.wfs w) a).1 + (c.wfs w).gsX * Real.pi / 180 / 3600 * l.alt,
         (subapPos c.telDiam (c.wfs w) a).2 + (c.wfs w).gsY * Real.pi / 180 / 3600 * l.alt)
      ∧ layerDiam c l w = (c.wfs w).diam := by
  real_unfold [layerPos, layerDiam, scaleFactor, translation]
  simp [h]

/-- pupil-plane centre of the sub-aperture at mask cell `(row, col)`: `index·d − D/2 − d/2` -/
theorem subapPos_eq (D : ℝ) (w : Wfs ℝ) (a : ℕ) :
    subapPos D w a = (((w.idx a).1 : ℝ) * w.diam - D / 2 - w.diam / 2, ((w.idx a).2 : ℝ) * w.diam - D / 2 - w.diam / 2) := by
  real_unfold [subapPos]

/-! ### every entry is the covariance of the two slopes, summed over layers -/

/-- before mirroring, block `(i, j)`, `j ≤ i`: the entry is `Σ_layers ⟪slope_i, slope_j⟫`, the column sub-aperture displaced
by the code's regularisation `ε·(1,1)` (`ε = 1e-20` m in the code; for `ε = 0` see `entry_eq_cov`) -/
theorem entry_lower_eq_cov (sf : ℝ → ℝ → ℝ → ℝ) (c : Cfg ℝ) (φ : Layer ℝ → ℝ × ℝ → H)
    (hD : ∀ l ∈ c.layers, IsSqDist (φ l) (fun r => sf r l.r0 l.L0))
    (i j : ℕ) (ey ex : Bool) (a b : ℕ) (hi : i < c.nwfs) (hji : j ≤ i) (ha : a < c.nsubs i) (hb : b < c.nsubs j) :
    preMirror sf c (rowIdx c.nsubs i ey a) (rowIdx c.nsubs j ex b)
      = (c.layers.map (fun l => ⟪slopeAt (φ l) c l i ey (layerPos c l i a),
          slopeAt (φ l) c l j ex ((layerPos c l j b).1 + c.eps, (layerPos c l j b).2 + c.eps)⟫)).sum := by
  rw [preMirror_entry sf c i j ey ex a b hi ha hb, if_pos hji, entryF]
  congr 1
  apply List.map_congr_left
  intro l hl
  exact blockEntry_eq_inner sf c l (φ l) (hD l hl) i j ey ex a b

/-- before mirroring the blocks above the block diagonal are zero -/
theorem upper_zero_before_mirror (sf : ℝ → ℝ → ℝ → ℝ) (c : Cfg ℝ)
    (i j : ℕ) (ey ex : Bool) (a b : ℕ) (hi : i < c.nwfs) (hij : i < j) (ha : a < c.nsubs i) (hb : b < c.nsubs j) :
    preMirror sf c (rowIdx c.nsubs i ey a) (rowIdx c.nsubs j ex b) = 0 := by
  rw [preMirror_entry sf c i j ey ex a b hi ha hb, if_neg (by omega)]

theorem entryF_eq_gram (sf : ℝ → ℝ → ℝ → ℝ) (c : Cfg ℝ) (h0 : c.eps = 0) (φ : Layer ℝ → ℝ × ℝ → H)
    (hD : ∀ l ∈ c.layers, IsSqDist (φ l) (fun r => sf r l.r0 l.L0)) (i j : ℕ) (ey ex : Bool) (a b : ℕ) :
    entryF sf c i j ey ex a b = (c.layers.map (fun l => ⟪subapSlope (φ l) c l i ey a, subapSlope (φ l) c l j ex b⟫)).sum := by
  unfold entryF
  congr 1
  apply List.map_congr_left
  intro l hl
  rw [blockEntry_eq_inner sf c l (φ l) (hD l hl) i j ey ex a b, h0]
  simp [subapSlope]

/-- **entry_eq_cov**: every entry of the returned matrix (both triangles, all four kinds of block, any pair of sensors) is
the covariance of the two corresponding slopes summed over layers -/
theorem entry_eq_cov (sf : ℝ → ℝ → ℝ → ℝ) (c : Cfg ℝ) (h0 : c.eps = 0) (φ : Layer ℝ → ℝ × ℝ → H)
    (hD : ∀ l ∈ c.layers, IsSqDist (φ l) (fun r => sf r l.r0 l.L0))
    (i j : ℕ) (ey ex : Bool) (a b : ℕ) (hi : i < c.nwfs) (hj : j < c.nwfs) (ha : a < c.nsubs i) (hb : b < c.nsubs j) :
    covarianceMatrix sf c (rowIdx c.nsubs i ey a) (rowIdx c.nsubs j ex b)
      = (c.layers.map (fun l => ⟪subapSlope (φ l) c l i ey a, subapSlope (φ l) c l j ex b⟫)).sum := by
  rw [final_entry sf c i j ey ex a b hi hj ha hb]
  split_ifs
  · exact entryF_eq_gram sf c h0 φ hD i j ey ex a b
  · rw [entryF_eq_gram sf c h0 φ hD j i ex ey b a]
    congr 1
    apply List.map_congr_left
    intro l _
    exact real_inner_comm _ _

/-! ### ordering: per sensor all x-slopes then all y-slopes, sensors in order -/

/-- which `(sensor, axis, sub-aperture)` sits at row `r` of a system of `W` sensors -/
def decode (n : ℕ → ℕ) : ℕ → ℕ → ℕ × Bool × ℕ
  | 0, _ => (0, false, 0)
  | W + 1, r =>
    if r < 2 * offs n W then decode n W r
    else (W, decide (n W ≤ r - 2 * offs n W),
          if n W ≤ r - 2 * offs n W then r - 2 * offs n W - n W else r - 2 * offs n W)

/-- `rowIdx` enumerates ALL rows `0 … 2·total − 1`: every row is the slot of exactly the triple `decode` returns -/
theorem ordering_onto (n : ℕ → ℕ) (W r : ℕ) (h : r < 2 * offs n W) :
    (decode n W r).1 < W ∧ (decode n W r).2.2 < n (decode n W r).1
      ∧ rowIdx n (decode n W r).1 (decode n W r).2.1 (decode n W r).2.2 = r := by
  induction W with
  | zero => simp [offs] at h
  | succ W ih =>
    unfold decode
    by_cases h1 : r < 2 * offs n W
    · rw [if_pos h1]
      obtain ⟨h2, h3, h4⟩ := ih h1
      exact ⟨by omega, h3, h4⟩
    · rw [if_neg h1]
      simp only [offs] at h
      by_cases h2 : n W ≤ r - 2 * offs n W
      · simp only [h2, if_true, decide_true, rowIdx]; refine ⟨by omega, by omega, ?_⟩; omega
      · simp only [h2, if_false, decide_false, rowIdx]; refine ⟨by omega, by omega, ?_⟩; simp; omega

/-- no two slopes share a row -/
theorem ordering_injective (n : ℕ → ℕ) (i i' : ℕ) (ey ey' : Bool) (a a' : ℕ) (ha : a < n i) (ha' : a' < n i')
    (h : rowIdx n i ey a = rowIdx n i' ey' a') : i = i' ∧ ey = ey' ∧ a = a' := by
  have h1 := (row_inside_iff n i' i ey' ey a' ha').mp (by
    rw [← h]; exact (row_inside_iff n i i ey ey a ha).mpr ⟨rfl, rfl⟩)
  obtain ⟨rfl, rfl⟩ := h1
  refine ⟨rfl, rfl, ?_⟩
  unfold rowIdx at h; omega

/-- sensors appear in order -/
theorem ordering_sensors (n : ℕ → ℕ) {i j : ℕ} (h : j < i) (ey ex : Bool) (a b : ℕ) (hb : b < n j) :
    rowIdx n j ex b < rowIdx n i ey a := rowIdx_lt_of_lt n h ey ex a b hb

/-- within a sensor every x-slope precedes every y-slope, and sub-apertures keep their `where` order -/
theorem ordering_x_then_y (n : ℕ → ℕ) (i a b : ℕ) (ha : a < n i) :
    rowIdx n i false a < rowIdx n i true b ∧ rowIdx n i false a = 2 * offs n i + a
      ∧ rowIdx n i true b = 2 * offs n i + n i + b := by
  unfold rowIdx; simp; omega

/-! ### mirror -/

/-- `tril(M) + tril(M,-1).T` is symmetric whatever `M` is, and keeps the lower triangle of `M` -/
theorem mirror_correct (M : ℕ → ℕ → ℝ) (r s : ℕ) :
    mirror M r s = mirror M s r ∧ (s ≤ r → mirror M r s = M r s) ∧ (r < s → mirror M r s = M s r) := by
  unfold mirror
  simp only [Nat.cast_zero, add_zero, zero_add]
  refine ⟨?_, fun h => by rw [if_pos h], fun h => by rw [if_neg (by omega)]⟩
  rcases lt_trichotomy r s with h | h | h
  · rw [if_neg (by omega), if_pos (by omega)]
  · subst h; rfl
  · rw [if_pos (by omega), if_neg (by omega)]

/-- **assembled_symm** -/
theorem assembled_symm (sf : ℝ → ℝ → ℝ → ℝ) (c : Cfg ℝ) (r s : ℕ) :
    covarianceMatrix sf c r s = covarianceMatrix sf c s r := (mirror_correct _ r s).1

/-! ### the matrix is a Gram matrix, hence positive semi-definite -/

/-- the slope that row `r` of the matrix stands for -/
noncomputable def rowSlope (φ : Layer ℝ → ℝ × ℝ → H) (c : Cfg ℝ) (l : Layer ℝ) (r : ℕ) : H :=
  subapSlope (φ l) c l (decode c.nsubs c.nwfs r).1 (decode c.nsubs c.nwfs r).2.1 (decode c.nsubs c.nwfs r).2.2

/-- **assembled_eq_gram**: the whole matrix is `Σ_layers Gram(slopes of that layer)` -/
theorem assembled_eq_gram (sf : ℝ → ℝ → ℝ → ℝ) (c : Cfg ℝ) (h0 : c.eps = 0) (φ : Layer ℝ → ℝ × ℝ → H)
    (hD : ∀ l ∈ c.layers, IsSqDist (φ l) (fun r => sf r l.r0 l.L0)) (r s : ℕ) (hr : r < c.size) (hs : s < c.size) :
    covarianceMatrix sf c r s = (c.layers.map (fun l => ⟪rowSlope φ c l r, rowSlope φ c l s⟫)).sum := by
  obtain ⟨r1, r2, r3⟩ := ordering_onto c.nsubs c.nwfs r hr
  obtain ⟨s1, s2, s3⟩ := ordering_onto c.nsubs c.nwfs s hs
  conv_lhs => rw [← r3, ← s3]
  exact entry_eq_cov sf c h0 φ hD _ _ _ _ _ _ r1 s1 r2 s2

theorem gram_list_posSemidef {n : Type} [Fintype n] (ls : List (Layer ℝ)) (v : Layer ℝ → n → H) :
    (Matrix.of fun r s => (ls.map (fun l => ⟪v l r, v l s⟫)).sum).PosSemidef := by
  induction ls with
  | nil =>
    have : (Matrix.of fun (r s : n) => (([] : List (Layer ℝ)).map (fun l => ⟪v l r, v l s⟫)).sum) = 0 := by
      ext r s; simp
    rw [this]; exact Matrix.PosSemidef.zero
  | cons l ls ih =>
    have : (Matrix.of fun r s => ((l :: ls).map (fun l => ⟪v l r, v l s⟫)).sum)
        = Matrix.gram ℝ (v l) + Matrix.of fun r s => (ls.map (fun l => ⟪v l r, v l s⟫)).sum := by
      ext r s; simp [Matrix.gram]
    rw [this]; exact (Matrix.posSemidef_gram ℝ (v l)).add ih

/-- **assembled_posSemidef** -/
theorem assembled_posSemidef (sf : ℝ → ℝ → ℝ → ℝ) (c : Cfg ℝ) (h0 : c.eps = 0) (φ : Layer ℝ → ℝ × ℝ → H)
    (hD : ∀ l ∈ c.layers, IsSqDist (φ l) (fun r => sf r l.r0 l.L0)) :
    (Matrix.of fun (r s : Fin c.size) => covarianceMatrix sf c r s).PosSemidef := by
  have : (Matrix.of fun (r s : Fin c.size) => covarianceMatrix sf c r s)
      = Matrix.of fun (r s : Fin c.size) => (c.layers.map (fun l => ⟪rowSlope φ c l r, rowSlope φ c l s⟫)).sum := by
    ext r s; exact assembled_eq_gram sf c h0 φ hD r s r.2 s.2
  rw [this]
  exact gram_list_posSemidef c.layers (fun l (r : Fin c.size) => rowSlope φ c l r)

/-! ### additivity over layers -/

/-- the matrix of the concatenated layer list is the sum of the matrices of the two parts (every entry) -/
theorem additive_layers (sf : ℝ → ℝ → ℝ → ℝ) (c : Cfg ℝ) (l1 l2 : List (Layer ℝ)) (r s : ℕ) :
    covarianceMatrix sf { c with layers := l1 ++ l2 } r s
      = covarianceMatrix sf { c with layers := l1 } r s + covarianceMatrix sf { c with layers := l2 } r s := by
  have hpre : ∀ r s, preMirror sf { c with layers := l1 ++ l2 } r s
      = preMirror sf { c with layers := l1 } r s + preMirror sf { c with layers := l2 } r s := by
    intro r s
    have e1 : layerWrites sf { c with layers := l1 ++ l2 } = layerWrites sf { c with layers := l1 } := rfl
    have e2 : layerWrites sf { c with layers := l2 } = layerWrites sf { c with layers := l1 } := rfl
    unfold preMirror allWrites
    simp only [applyWrites_eq, e1, e2, List.flatMap_append, List.map_append, List.sum_append, Nat.cast_zero]
    ring
  unfold covarianceMatrix mirror
  simp only [hpre, Nat.cast_zero, add_zero, zero_add]
  split_ifs <;> rfl

/-! ### scaling with the wavelengths and with r0 -/

theorem r0Scale_lam (c : Cfg ℝ) (μ : ℕ → ℝ) (l : Layer ℝ) (i j : ℕ) :
    r0Scale { c with wfs := fun w => { c.wfs w with lam := μ w * (c.wfs w).lam } } l i j
      = μ i * μ j * r0Scale c l i j := by
  have e : ∀ w, layerDiam { c with wfs := fun w => { c.wfs w with lam := μ w * (c.wfs w).lam } } l w = layerDiam c l w :=
    fun _ => rfl
  unfold r0Scale
  rw [e, e]
  simp only
  ring

/-- **scale_wavelength**: multiplying the wavelength of sensor `w` by `μ w` multiplies block `(i, j)` by `μ i · μ j` -/
theorem scale_wavelength (sf : ℝ → ℝ → ℝ → ℝ) (c : Cfg ℝ) (μ : ℕ → ℝ)
    (i j : ℕ) (ey ex : Bool) (a b : ℕ) (hi : i < c.nwfs) (hj : j < c.nwfs) (ha : a < c.nsubs i) (hb : b < c.nsubs j) :
    covarianceMatrix sf { c with wfs := fun w => { c.wfs w with lam := μ w * (c.wfs w).lam } }
        (rowIdx c.nsubs i ey a) (rowIdx c.nsubs j ex b)
      = μ i * μ j * covarianceMatrix sf c (rowIdx c.nsubs i ey a) (rowIdx c.nsubs j ex b) := by
  set c' : Cfg ℝ := { c with wfs := fun w => { c.wfs w with lam := μ w * (c.wfs w).lam } } with hc'
  have hn : c'.nsubs = c.nsubs := rfl
  have hF : ∀ i j ey ex a b, entryF sf c' i j ey ex a b = μ i * μ j * entryF sf c i j ey ex a b := by
    intro i j ey ex a b
    unfold entryF
    rw [← List.sum_map_mul_left]
    congr 1
    apply List.map_congr_left
    intro l _
    have hk : kernEntry sf c' l i j ey ex a b = kernEntry sf c l i j ey ex a b := rfl
    unfold blockEntry
    rw [hk, hc', r0Scale_lam]
    ring
  have := final_entry sf c' i j ey ex a b hi hj ha hb
  rw [hn] at this
  rw [this, final_entry sf c i j ey ex a b hi hj ha hb, hF, hF]
  split_ifs
  · rfl
  · ring

theorem covXX_smul (κ : ℝ) (f : ℝ → ℝ) (s0 s1 d1 d2 : ℝ) : covXX (fun r => κ * f r) s0 s1 d1 d2 = κ * covXX f s0 s1 d1 d2 := by
  unfold covXX; ring
theorem covYY_smul (κ : ℝ) (f : ℝ → ℝ) (s0 s1 d1 d2 : ℝ) : covYY (fun r => κ * f r) s0 s1 d1 d2 = κ * covYY f s0 s1 d1 d2 := by
  unfold covYY; ring
theorem covXY_smul (κ : ℝ) (f : ℝ → ℝ) (s0 s1 d1 d2 : ℝ) : covXY (fun r => κ * f r) s0 s1 d1 d2 = κ * covXY f s0 s1 d1 d2 := by
  unfold covXY; ring

/-- **scale_r0**: if the structure function scales by `κ` when r0 is multiplied by `k` (for von Kármán `κ = k^(-5/3)`,
`vk_scales_r0`), multiplying every layer's r0 by `k` multiplies the matrix by `κ` -/
theorem scale_r0 (sf : ℝ → ℝ → ℝ → ℝ) (k κ : ℝ) (hs : ∀ r r0 L0, sf r (k * r0) L0 = κ * sf r r0 L0) (c : Cfg ℝ)
    (i j : ℕ) (ey ex : Bool) (a b : ℕ) (hi : i < c.nwfs) (hj : j < c.nwfs) (ha : a < c.nsubs i) (hb : b < c.nsubs j) :
    covarianceMatrix sf { c with layers := c.layers.map (fun l => { l with r0 := k * l.r0 }) }
        (rowIdx c.nsubs i ey a) (rowIdx c.nsubs j ex b)
      = κ * covarianceMatrix sf c (rowIdx c.nsubs i ey a) (rowIdx c.nsubs j ex b) := by
  set c' : Cfg ℝ := { c with layers := c.layers.map (fun l => { l with r0 := k * l.r0 }) } with hc'
  have hn : c'.nsubs = c.nsubs := rfl
  have hF : ∀ i j ey ex a b, entryF sf c' i j ey ex a b = κ * entryF sf c i j ey ex a b := by
    intro i j ey ex a b
    unfold entryF
    rw [← List.sum_map_mul_left]
    show ((c.layers.map (fun l => { l with r0 := k * l.r0 })).map _).sum = _
    rw [List.map_map]
    congr 1
    apply List.map_congr_left
    intro l _
    have hsc : r0Scale c' { l with r0 := k * l.r0 } i j = r0Scale c l i j := rfl
    have hsep : sep c' { l with r0 := k * l.r0 } i j a b = sep c l i j a b := rfl
    have hd : ∀ w, layerDiam c' { l with r0 := k * l.r0 } w = layerDiam c l w := fun _ => rfl
    simp only [Function.comp, blockEntry, kernEntry, hsc, hsep, hd, hs]
    cases ey <;> cases ex <;> simp only [covXX_smul, covYY_smul, covXY_smul] <;> ring
  have := final_entry sf c' i j ey ex a b hi hj ha hb
  rw [hn] at this
  rw [this, final_entry sf c i j ey ex a b hi hj ha hb, hF, hF]
  split_ifs <;> rfl

/-- the regenerated von Kármán structure function is proportional to `r0^(-5/3)` -/
theorem vk_scales_r0 (k r r0 L0 : ℝ) (hk : 0 < k) (hr0 : 0 < r0) (hL : 0 ≤ L0) :
    Gen.structure_function_vk r (k * r0) L0 = k ^ (-(5:ℝ) / 3) * Gen.structure_function_vk r r0 L0 := by
  real_unfold [Gen.structure_function_vk]
  have h1 : L0 / (k * r0) = k⁻¹ * (L0 / r0) := by field_simp
  have h2 : (k⁻¹ * (L0 / r0)) ^ ((5:ℝ) / 3) = k ^ (-(5:ℝ) / 3) * (L0 / r0) ^ ((5:ℝ) / 3) := by
    rw [Real.mul_rpow (inv_nonneg.mpr hk.le) (div_nonneg hL hr0.le), Real.inv_rpow hk.le, ← Real.rpow_neg hk.le]
    congr 2; ring
  rw [h1, h2]
  split_ifs <;> ring

/-- **scale_r0_layers**: `scale_r0` with the scaling law demanded only of the configuration's own layers (their `r0`, `L0`),
which is all the von Kármán function can offer (`vk_scales_r0` needs `r0 > 0`, `L0 ≥ 0`) -/
theorem scale_r0_layers (sf : ℝ → ℝ → ℝ → ℝ) (k κ : ℝ) (c : Cfg ℝ)
    (hs : ∀ l ∈ c.layers, ∀ r, sf r (k * l.r0) l.L0 = κ * sf r l.r0 l.L0)
    (i j : ℕ) (ey ex : Bool) (a b : ℕ) (hi : i < c.nwfs) (hj : j < c.nwfs) (ha : a < c.nsubs i) (hb : b < c.nsubs j) :
    covarianceMatrix sf { c with layers := c.layers.map (fun l => { l with r0 := k * l.r0 }) }
        (rowIdx c.nsubs i ey a) (rowIdx c.nsubs j ex b)
      = κ * covarianceMatrix sf c (rowIdx c.nsubs i ey a) (rowIdx c.nsubs j ex b) := by
  set c' : Cfg ℝ := { c with layers := c.layers.map (fun l => { l with r0 := k * l.r0 }) } with hc'
  have hn : c'.nsubs = c.nsubs := rfl
  have hF : ∀ i j ey ex a b, entryF sf c' i j ey ex a b = κ * entryF sf c i j ey ex a b := by
    intro i j ey ex a b
    unfold entryF
    rw [← List.sum_map_mul_left]
    show ((c.layers.map (fun l => { l with r0 := k * l.r0 })).map _).sum = _
    rw [List.map_map]
    congr 1
    apply List.map_congr_left
    intro l hl
    have hsc : r0Scale c' { l with r0 := k * l.r0 } i j = r0Scale c l i j := rfl
    have hsep : sep c' { l with r0 := k * l.r0 } i j a b = sep c l i j a b := rfl
    have hd : ∀ w, layerDiam c' { l with r0 := k * l.r0 } w = layerDiam c l w := fun _ => rfl
    have hs' := hs l hl
    simp only [Function.comp, blockEntry, kernEntry, hsc, hsep, hd, hs']
    cases ey <;> cases ex <;> simp only [covXX_smul, covYY_smul, covXY_smul] <;> ring
  have := final_entry sf c' i j ey ex a b hi hj ha hb
  rw [hn] at this
  rw [this, final_entry sf c i j ey ex a b hi hj ha hb, hF, hF]
  split_ifs <;> rfl

/-- **scale_r0_vk**: the two composed — with the library's von Kármán structure function, multiplying every layer's r0 by
`k > 0` multiplies every entry of the matrix by `k^(-5/3)` (layers with `r0 > 0`, `L0 ≥ 0`) -/
theorem scale_r0_vk (k : ℝ) (hk : 0 < k) (c : Cfg ℝ) (hl : ∀ l ∈ c.layers, 0 < l.r0 ∧ 0 ≤ l.L0)
    (i j : ℕ) (ey ex : Bool) (a b : ℕ) (hi : i < c.nwfs) (hj : j < c.nwfs) (ha : a < c.nsubs i) (hb : b < c.nsubs j) :
    covarianceMatrix Gen.structure_function_vk { c with layers := c.layers.map (fun l => { l with r0 := k * l.r0 }) }
        (rowIdx c.nsubs i ey a) (rowIdx c.nsubs j ex b)
      = k ^ (-(5:ℝ) / 3)
        * covarianceMatrix Gen.structure_function_vk c (rowIdx c.nsubs i ey a) (rowIdx c.nsubs j ex b) :=
  scale_r0_layers Gen.structure_function_vk k _ c
    (fun l h r => vk_scales_r0 k r l.r0 l.L0 hk (hl l h).1 (hl l h).2) i j ey ex a b hi hj ha hb

/-! ### a layer AT a guide star's altitude: outside the domain

At `l.alt = gsAlt ≠ 0` the cone factor `1 − h/alt` and with it the projected diameter are 0; the code then divides by zero
(`r0_scale = λλ/(8π²·0·d)`: inf/NaN entries).  In Lean `x / 0 = 0`, so the theorems above remain TRUE there but say nothing
about the code (`layer_at_gs_altitude`: the model's entries are 0).  The domain on which they are statements about slopes
is `Cfg.WellPosed`: there every projected diameter is non-zero and `subapSlope` is the genuine quotient
`(λ/2π)·Δφ/d` (`slope_is_quotient`); `entry_eq_cov_wellposed` is `entry_eq_cov` with that made explicit. -/

theorem layerDiam_ne_zero (c : Cfg ℝ) (l : Layer ℝ) (w : ℕ) (hd : (c.wfs w).diam ≠ 0)
    (h : (c.wfs w).gsAlt = 0 ∨ l.alt ≠ (c.wfs w).gsAlt) : layerDiam c l w ≠ 0 := by
  real_unfold [layerDiam, scaleFactor]
  rcases h with h | h
  · simp [h, hd]
  · by_cases h0 : (c.wfs w).gsAlt = 0
    · simp [h0, hd]
    · have h' : (c.wfs w).gsAlt < 0 ∨ 0 < (c.wfs w).gsAlt := lt_or_gt_of_ne h0
      rw [if_pos h']
      refine mul_ne_zero hd ?_
      intro e
      apply h
      have : l.alt / (c.wfs w).gsAlt = 1 := by linarith
      exact (div_eq_one_iff_eq h0).mp this

/-- at the guide star's own altitude the projected diameter is 0 and — by Lean's `x / 0 = 0`, NOT by anything the code
does (it returns inf/NaN) — every contribution of that layer to the sensor's blocks is 0 in the model -/
theorem layer_at_gs_altitude (sf : ℝ → ℝ → ℝ → ℝ) (c : Cfg ℝ) (l : Layer ℝ) (w : ℕ) (h0 : (c.wfs w).gsAlt ≠ 0)
    (h : l.alt = (c.wfs w).gsAlt) :
    layerDiam c l w = 0 ∧ ∀ j ey ex a b, blockEntry sf c l w j ey ex a b = 0 ∧ blockEntry sf c l j w ey ex a b = 0 := by
  have h' : (c.wfs w).gsAlt < 0 ∨ 0 < (c.wfs w).gsAlt := lt_or_gt_of_ne h0
  have hd : layerDiam c l w = 0 := by
    real_unfold [layerDiam, scaleFactor]
    rw [if_pos h', h, div_self h0]; ring
  refine ⟨hd, fun j ey ex a b => ?_⟩
  unfold blockEntry r0Scale
  rw [hd]
  constructor <;> simp

/-- the property's domain as far as the geometry goes: sub-apertures have a size and no layer sits AT the altitude of a
guide star at finite altitude (the generators keep every layer strictly below every such guide star) -/
def WellPosed (c : Cfg ℝ) : Prop :=
  ∀ w, w < c.nwfs → (c.wfs w).diam ≠ 0 ∧ ∀ l ∈ c.layers, (c.wfs w).gsAlt = 0 ∨ l.alt ≠ (c.wfs w).gsAlt

/-- where the projected diameter is non-zero the model's slope IS `(λ/2π)·(φ(p + d/2·e) − φ(p − d/2·e))/d`: stated without
division -/
theorem slope_is_quotient (φ : ℝ × ℝ → H) (c : Cfg ℝ) (l : Layer ℝ) (w : ℕ) (isY : Bool) (a : ℕ)
    (hd : layerDiam c l w ≠ 0) :
    (2 * Real.pi * layerDiam c l w) • subapSlope φ c l w isY a
      = (c.wfs w).lam • fdiff φ (layerPos c l w a) (layerDiam c l w) isY := by
  unfold subapSlope slopeAt
  rw [smul_smul]
  congr 1
  have : 2 * Real.pi * layerDiam c l w ≠ 0 := mul_ne_zero (mul_ne_zero two_ne_zero Real.pi_ne_zero) hd
  field_simp

/-- **entry_eq_cov_wellposed**: `entry_eq_cov` on the property's domain, with the meaning of the slopes made explicit: no
division by zero hides in the right-hand side -/
theorem entry_eq_cov_wellposed (sf : ℝ → ℝ → ℝ → ℝ) (c : Cfg ℝ) (h0 : c.eps = 0) (hw : WellPosed c)
    (φ : Layer ℝ → ℝ × ℝ → H) (hD : ∀ l ∈ c.layers, IsSqDist (φ l) (fun r => sf r l.r0 l.L0))
    (i j : ℕ) (ey ex : Bool) (a b : ℕ) (hi : i < c.nwfs) (hj : j < c.nwfs) (ha : a < c.nsubs i) (hb : b < c.nsubs j) :
    covarianceMatrix sf c (rowIdx c.nsubs i ey a) (rowIdx c.nsubs j ex b)
        = (c.layers.map (fun l => ⟪subapSlope (φ l) c l i ey a, subapSlope (φ l) c l j ex b⟫)).sum
      ∧ ∀ l ∈ c.layers, layerDiam c l i ≠ 0 ∧ layerDiam c l j ≠ 0
        ∧ (2 * Real.pi * layerDiam c l i) • subapSlope (φ l) c l i ey a
            = (c.wfs i).lam • fdiff (φ l) (layerPos c l i a) (layerDiam c l i) ey
        ∧ (2 * Real.pi * layerDiam c l j) • subapSlope (φ l) c l j ex b
            = (c.wfs j).lam • fdiff (φ l) (layerPos c l j b) (layerDiam c l j) ex := by
  refine ⟨entry_eq_cov sf c h0 φ hD i j ey ex a b hi hj ha hb, fun l hl => ?_⟩
  have di := layerDiam_ne_zero c l i (hw i hi).1 ((hw i hi).2 l hl)
  have dj := layerDiam_ne_zero c l j (hw j hj).1 ((hw j hj).2 l hl)
  exact ⟨di, dj, slope_is_quotient (φ l) c l i ey a di, slope_is_quotient (φ l) c l j ex b dj⟩

/-! ### `numpy.where(mask == 1)`: exactly the cells holding a one, in row-major order -/

theorem where_ordering (mask : List (List ℕ)) :
    (∀ r c, (r, c) ∈ whereOnes mask ↔ r < mask.length ∧ c < (mask.getD r []).length ∧ (mask.getD r []).getD c 0 = 1)
    ∧ (whereOnes mask).Pairwise (fun p q => p.1 < q.1 ∨ (p.1 = q.1 ∧ p.2 < q.2)) := by
  constructor
  · intro r c
    simp only [whereOnes, whereRow, List.mem_flatMap, List.mem_map, List.mem_filter, List.mem_range, Prod.mk.injEq,
      beq_iff_eq]
    constructor
    · rintro ⟨r', hr', c', ⟨hc', h1⟩, rfl, rfl⟩; exact ⟨hr', hc', h1⟩
    · rintro ⟨hr, hc, h1⟩; exact ⟨r, hr, c, ⟨hc, h1⟩, rfl, rfl⟩
  · unfold whereOnes
    rw [List.pairwise_flatMap]
    constructor
    · intro r _
      rw [List.pairwise_map]
      unfold whereRow
      apply List.Pairwise.filter
      exact (List.pairwise_lt_range).imp (fun h => Or.inr ⟨rfl, h⟩)
    · apply (List.pairwise_lt_range).imp
      intro r1 r2 h x hx y hy
      simp only [List.mem_map] at hx hy
      obtain ⟨_, _, rfl⟩ := hx
      obtain ⟨_, _, rfl⟩ := hy
      exact Or.inl h

/-- **where_links_cfg**: the sensor the model builds from a mask (`Wfs.ofMask`, what the driver runs) has `nsub`/`idx`
enumerating EXACTLY the cells holding a one, each once, in row-major order — `where_ordering` carried over to the
fields `Cfg.nsubs`/`idx` that `subapPos`, `rowIdx` and the entry theorems are about -/
theorem where_links_cfg (mask : List (List ℕ)) (diam gsAlt gsX gsY lam : ℝ) :
    let w := Wfs.ofMask mask diam gsAlt gsX gsY lam
    (∀ a, a < w.nsub → (w.idx a).1 < mask.length ∧ (w.idx a).2 < (mask.getD (w.idx a).1 []).length
        ∧ (mask.getD (w.idx a).1 []).getD (w.idx a).2 0 = 1)
    ∧ (∀ r c, r < mask.length → c < (mask.getD r []).length → (mask.getD r []).getD c 0 = 1 → ∃ a, a < w.nsub ∧ w.idx a = (r, c))
    ∧ (∀ a b, a < b → b < w.nsub →
        (w.idx a).1 < (w.idx b).1 ∨ ((w.idx a).1 = (w.idx b).1 ∧ (w.idx a).2 < (w.idx b).2)) := by
  intro w
  obtain ⟨hmem, hpw⟩ := where_ordering mask
  have hidx : ∀ a (h : a < (whereOnes mask).length), w.idx a = (whereOnes mask)[a] := by
    intro a h
    show (whereOnes mask).getD a (0, 0) = _
    simp [List.getD_eq_getElem?_getD, h]
  refine ⟨?_, ?_, ?_⟩
  · intro a ha
    have ha' : a < (whereOnes mask).length := ha
    rw [hidx a ha']
    exact (hmem _ _).mp (List.getElem_mem ha')
  · intro r c hr hc h1
    obtain ⟨a, ha, e⟩ := List.getElem_of_mem ((hmem r c).mpr ⟨hr, hc, h1⟩)
    exact ⟨a, ha, by rw [hidx a ha, e]⟩
  · intro a b hab hb
    have hb' : b < (whereOnes mask).length := hb
    have ha' : a < (whereOnes mask).length := by omega
    rw [hidx a ha', hidx b hb']
    exact (List.pairwise_iff_getElem.mp hpw) a b ha' hb' hab

/-- `n_subaps = pupil_mask.sum()` (constructor, line 75) is the number of cells `numpy.where(mask == 1)` returns — for
a 0/1 mask, which is what the property quantifies over -/
theorem nsub_eq_mask_sum (mask : List (List ℕ)) (h01 : ∀ row ∈ mask, ∀ v ∈ row, v = 0 ∨ v = 1)
    (diam gsAlt gsX gsY lam : ℝ) :
    (Wfs.ofMask mask diam gsAlt gsX gsY lam).nsub = (mask.map List.sum).sum := by
  show (whereOnes mask).length = _
  have hrow : ∀ row : List ℕ, (∀ v ∈ row, v = 0 ∨ v = 1) → (whereRow row).length = row.sum := by
    intro row
    induction row using List.reverseRecOn with
    | nil => intro _; rfl
    | append_singleton row v ih =>
      intro h
      have hv := h v (by simp)
      have ih' := ih (fun u hu => h u (by simp [hu]))
      unfold whereRow at ih' ⊢
      rw [List.length_append, List.length_singleton, List.range_succ, List.filter_append, List.length_append,
        List.sum_append, List.sum_singleton]
      have e1 : (List.range row.length).filter (fun c => (row ++ [v]).getD c 0 == 1)
          = (List.range row.length).filter (fun c => row.getD c 0 == 1) := by
        apply List.filter_congr
        intro c hc
        have hc' : c < row.length := List.mem_range.mp hc
        simp [List.getD_eq_getElem?_getD, List.getElem?_append_left hc']
      rw [e1, ih']
      congr 1
      rcases hv with rfl | rfl <;> simp [List.getD_eq_getElem?_getD]
  unfold whereOnes
  induction mask using List.reverseRecOn with
  | nil => rfl
  | append_singleton m row ih =>
    have ih' := ih (fun r hr => h01 r (by simp [hr]))
    rw [List.length_append, List.length_singleton, List.range_succ, List.flatMap_append, List.length_append,
      List.map_append, List.sum_append]
    have e1 : (List.range m.length).flatMap (fun r => (whereRow ((m ++ [row]).getD r [])).map (fun c => (r, c)))
        = (List.range m.length).flatMap (fun r => (whereRow (m.getD r [])).map (fun c => (r, c))) := by
      apply List.flatMap_congr
      intro r hr
      have hr' : r < m.length := List.mem_range.mp hr
      simp [List.getD_eq_getElem?_getD, List.getElem?_append_left hr']
    rw [e1, ih']
    congr 1
    simp [List.getD_eq_getElem?_getD, hrow row (h01 row (by simp))]

/-! ### the hypotheses are satisfiable (non-vacuity) -/

/-- a squared-distance structure function exists and is not trivial: `φ = id : ℝ² → ℂ`, `D(r) = r²` -/
example : ∃ (φ : ℝ × ℝ → ℂ) (sf : ℝ → ℝ), IsSqDist φ sf ∧ sf 1 ≠ 0 := by
  refine ⟨fun u => ⟨u.1, u.2⟩, fun r => r ^ 2, ?_, by norm_num⟩
  intro u v
  rw [Complex.sq_norm, Complex.normSq_apply]
  beta_reduce
  rw [Real.sq_sqrt (by positivity)]
  simp only [Complex.sub_re, Complex.sub_im]
  ring

/-- the hypotheses of `entry_eq_cov` / `assembled_posSemidef` on a concrete two-sensor, one-layer system -/
example : ∃ (c : Cfg ℝ) (sf : ℝ → ℝ → ℝ → ℝ) (φ : Layer ℝ → ℝ × ℝ → ℂ), c.eps = 0 ∧ c.nwfs = 2 ∧ c.size = 6
    ∧ (∀ l ∈ c.layers, IsSqDist (φ l) (fun r => sf r l.r0 l.L0)) ∧ c.layers.length = 1 := by
  refine ⟨⟨4, 2, fun w => ⟨w + 1, fun a => (a, w), 2, 0, 0, 0, 1⟩, [⟨0, 1, 25⟩], 0⟩,
    fun r _ _ => r ^ 2, fun _ u => ⟨u.1, u.2⟩, rfl, rfl, by simp [Cfg.size, offs, Cfg.nsubs], ?_, rfl⟩
  intro l _ u v
  rw [Complex.sq_norm, Complex.normSq_apply]
  beta_reduce
  rw [Real.sq_sqrt (by positivity)]
  simp only [Complex.sub_re, Complex.sub_im]
  ring

/-- `WellPosed` holds on a mixed NGS/LGS system with an elevated layer, and fails exactly at the guide star's altitude -/
example : WellPosed (⟨4, 2, fun w => ⟨1, fun _ => (0, 0), 2, if w = 0 then 0 else 90000, 0, 0, 1⟩, [⟨10000, 1, 25⟩], 0⟩ : Cfg ℝ)
    ∧ ¬ WellPosed (⟨4, 2, fun w => ⟨1, fun _ => (0, 0), 2, if w = 0 then 0 else 90000, 0, 0, 1⟩, [⟨90000, 1, 25⟩], 0⟩ : Cfg ℝ) := by
  constructor
  · intro w hw
    refine ⟨by norm_num, fun l hl => ?_⟩
    simp only [List.mem_singleton] at hl
    subst hl
    by_cases h : w = 0
    · left; simp [h]
    · right; simp [h]
  · intro h
    have := (h 1 (by norm_num)).2 ⟨90000, 1, 25⟩ (by simp)
    norm_num at this

/-- the hypothesis of `scale_r0_vk` on a concrete layer list -/
example : ∀ l ∈ ([⟨0, 0.1, 25⟩, ⟨5000, 0.2, 10⟩] : List (Layer ℝ)), 0 < l.r0 ∧ 0 ≤ l.L0 := by
  intro l hl
  simp only [List.mem_cons, List.not_mem_nil, or_false] at hl
  rcases hl with rfl | rfl <;> norm_num

/-- `where_links_cfg` on a non point-symmetric mask: three cells, in row-major order -/
example : (Wfs.ofMask [[0, 1], [1, 1]] (1 : ℝ) 0 0 0 1).nsub = 3
    ∧ (Wfs.ofMask [[0, 1], [1, 1]] (1 : ℝ) 0 0 0 1).idx 0 = (0, 1)
    ∧ (Wfs.ofMask [[0, 1], [1, 1]] (1 : ℝ) 0 0 0 1).idx 2 = (1, 1) := by
  refine ⟨by decide, by decide, by decide⟩

/-
NOT PROVED (listed in the evidence under `assumptions`):
  * H2 — `∃ φ, IsSqDist φ (fun r => if r = 0 then 0 else Gen.structure_function_vk r r0 L0)` for the von Kármán closed form
    (needs the Bessel function K_{5/6}; Mathlib 4.33 has none).  It is the hypothesis `hD` of the theorems above.
  * the Gram / PSD corollaries for the code's `ε = 1e-20` (they are proved for `ε = 0`; `entry_lower_eq_cov` holds for every ε).
  * anything about float32 storage or IEEE rounding.
-/

end AoVerif.Props.C01
