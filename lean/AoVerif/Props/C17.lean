/-
C17 — atmospheric and photometric conversions are mutually inverse and scale right.
Every theorem is about the definitions in `Gen/Formulas.lean`, REGENERATED from /repo on each run.
-/
import Mathlib.Analysis.Real.Pi.Bounds
import AoVerif.Lemmas.RealScalar
import AoVerif.Gen.Formulas

namespace AoVerif.Props.C17
open AoVerif AoVerif.Gen Real

set_option linter.unusedSectionVars false
variable [Transc ℝ] [RealTransc]

/-! ### Cn2 ↔ r0 ↔ seeing are exact inverse pairs -/

theorem cn2_r0_inv (cn2 lamda : ℝ) (hc : 0 < cn2) (hl : 0 < lamda) :
    r0_to_cn2 (cn2_to_r0 cn2 lamda) lamda = cn2 := by
  simp only [r0_to_cn2, cn2_to_r0, RealTransc.rpow_eq, RealTransc.pi_eq, Nat.cast_ofNat]
  have hpi := Real.pi_pos
  have hx : 0 < 423e-3 * (2 * π / lamda) ^ (2:ℕ) * cn2 := by positivity
  rw [← Real.rpow_mul hx.le]
  norm_num
  field_simp

theorem r0_cn2_inv (r0 lamda : ℝ) (hr : 0 < r0) (hl : 0 < lamda) :
    cn2_to_r0 (r0_to_cn2 r0 lamda) lamda = r0 := by
  simp only [r0_to_cn2, cn2_to_r0, RealTransc.rpow_eq, RealTransc.pi_eq, Nat.cast_ofNat]
  have hpi := Real.pi_pos
  have hb : 0 < 423e-3 * (2 * π / lamda) ^ (2:ℕ) := by positivity
  have : 423e-3 * (2 * π / lamda) ^ (2:ℕ) * (r0 ^ ((-3:ℝ) / 5 * 0 + (-5) / 3) / (423e-3 * (2 * π / lamda) ^ (2:ℕ)))
      = r0 ^ ((-5:ℝ) / 3) := by
    field_simp; norm_num
  norm_num at this ⊢
  rw [this, ← Real.rpow_mul hr.le]
  norm_num

theorem r0_seeing_inv (r0 lamda : ℝ) (hr : 0 < r0) (hl : 0 < lamda) :
    seeing_to_r0 (r0_to_seeing r0 lamda) lamda = r0 := by
  simp only [seeing_to_r0, r0_to_seeing, RealTransc.pi_eq, Nat.cast_ofNat]
  have hpi := Real.pi_pos
  field_simp

theorem seeing_r0_inv (s lamda : ℝ) (hs : 0 < s) (hl : 0 < lamda) :
    r0_to_seeing (seeing_to_r0 s lamda) lamda = s := by
  simp only [seeing_to_r0, r0_to_seeing, RealTransc.pi_eq, Nat.cast_ofNat]
  have hpi := Real.pi_pos
  field_simp

/-! ### composite converters are the compositions of the elementary ones -/

theorem cn2_to_seeing_eq_comp (cn2 lamda : ℝ) :
    cn2_to_seeing cn2 lamda = r0_to_seeing (cn2_to_r0 cn2 lamda) lamda := rfl

theorem seeing_to_cn2_eq_comp (s lamda : ℝ) :
    seeing_to_cn2 s lamda = r0_to_cn2 (seeing_to_r0 s lamda) lamda := rfl

theorem r0_pos_of_cn2 (cn2 lamda : ℝ) (hc : 0 < cn2) (hl : 0 < lamda) : 0 < cn2_to_r0 cn2 lamda := by
  simp only [cn2_to_r0, RealTransc.rpow_eq, RealTransc.pi_eq, Nat.cast_ofNat]
  have hpi := Real.pi_pos
  positivity

theorem r0_pos_of_seeing (s lamda : ℝ) (hs : 0 < s) (hl : 0 < lamda) : 0 < seeing_to_r0 s lamda := by
  simp only [seeing_to_r0, RealTransc.pi_eq, Nat.cast_ofNat]
  have hpi := Real.pi_pos
  positivity

theorem cn2_seeing_inv (cn2 lamda : ℝ) (hc : 0 < cn2) (hl : 0 < lamda) :
    seeing_to_cn2 (cn2_to_seeing cn2 lamda) lamda = cn2 := by
  rw [seeing_to_cn2_eq_comp, cn2_to_seeing_eq_comp,
    r0_seeing_inv _ _ (r0_pos_of_cn2 _ _ hc hl) hl, cn2_r0_inv _ _ hc hl]

theorem seeing_cn2_inv (s lamda : ℝ) (hs : 0 < s) (hl : 0 < lamda) :
    cn2_to_seeing (seeing_to_cn2 s lamda) lamda = s := by
  rw [seeing_to_cn2_eq_comp, cn2_to_seeing_eq_comp,
    r0_cn2_inv _ _ (r0_pos_of_seeing _ _ hs hl) hl, seeing_r0_inv _ _ hs hl]


/-! ### scaling laws -/

theorem r0_scales_lambda (cn2 lamda c : ℝ) (hc : 0 < cn2) (hl : 0 < lamda) (hcc : 0 < c) :
    cn2_to_r0 cn2 (c * lamda) = c ^ ((6:ℝ)/5) * cn2_to_r0 cn2 lamda := by
  simp only [cn2_to_r0, RealTransc.rpow_eq, RealTransc.pi_eq, Nat.cast_ofNat]
  have hpi := Real.pi_pos
  have e : 423e-3 * (2 * π / (c * lamda)) ^ (2:ℕ) * cn2
      = (c ^ (2:ℕ))⁻¹ * (423e-3 * (2 * π / lamda) ^ (2:ℕ) * cn2) := by field_simp
  rw [e, Real.mul_rpow (by positivity) (by positivity), ← Real.rpow_natCast, ← Real.rpow_neg_one,
    ← Real.rpow_mul hcc.le, ← Real.rpow_mul hcc.le]
  norm_num

theorem seeing_scales_lambda (cn2 lamda c : ℝ) (hc : 0 < cn2) (hl : 0 < lamda) (hcc : 0 < c) :
    cn2_to_seeing cn2 (c * lamda) = c ^ (-(1:ℝ)/5) * cn2_to_seeing cn2 lamda := by
  rw [cn2_to_seeing_eq_comp, cn2_to_seeing_eq_comp, r0_scales_lambda _ _ _ hc hl hcc]
  have hr := r0_pos_of_cn2 cn2 lamda hc hl
  simp only [r0_to_seeing, RealTransc.pi_eq, Nat.cast_ofNat]
  have hpi := Real.pi_pos
  have h65 : c ^ ((6:ℝ)/5) = c * c ^ ((1:ℝ)/5) := by
    rw [show ((6:ℝ)/5) = 1 + 1/5 by norm_num, Real.rpow_add hcc, Real.rpow_one]
  have hneg : c ^ (-(1:ℝ)/5) = (c ^ ((1:ℝ)/5))⁻¹ := by
    rw [show (-(1:ℝ)/5) = -(1/5) by norm_num, Real.rpow_neg hcc.le]
  have hp : 0 < c ^ ((1:ℝ)/5) := Real.rpow_pos_of_pos hcc _
  rw [h65, hneg]
  field_simp

/-- every row of the (regenerated) twelve-band table has positive bandwidth and zero-point -/
theorem table_positive : ∀ row ∈ (FLUX_DICTIONARY : List (String × ℝ × ℝ × ℝ)),
    0 < row.2.2.1 ∧ 0 < row.2.2.2 := by
  intro row h
  simp only [FLUX_DICTIONARY, List.mem_cons, List.not_mem_nil, or_false] at h
  rcases h with h|h|h|h|h|h|h|h|h|h|h|h <;> subst h <;> norm_num

theorem table_has_twelve_bands : (FLUX_DICTIONARY : List (String × ℝ × ℝ × ℝ)).length = 12 := rfl


theorem slopevar_r0_inv (r0 w d : ℝ) (hr : 0 < r0) (hw : 0 < w) (hd : 0 < d) :
    r0_from_slopes_kernel (slope_variance_from_r0 r0 w d) w d = r0 := by
  real_unfold [r0_from_slopes_kernel, slope_variance_from_r0]
  have hd' : 0 < d ^ ((-1:ℝ) / 3) := Real.rpow_pos_of_pos hd _
  have hr' : 0 < r0 ^ ((-5:ℝ) / 3) := Real.rpow_pos_of_pos hr _
  have e : ∀ a b c : ℝ, 0 < a → 0 < b → 0 < c → a * b / (a * c * b) = c⁻¹ := by
    intro a b c ha hb hc; field_simp
  rw [e _ _ _ (by positivity) hd' hr', ← Real.rpow_neg hr.le, ← Real.rpow_mul hr.le]
  norm_num

theorem r0_slopevar_inv (v w d : ℝ) (hv : 0 < v) (hw : 0 < w) (hd : 0 < d) :
    slope_variance_from_r0 (r0_from_slopes_kernel v w d) w d = v := by
  real_unfold [r0_from_slopes_kernel, slope_variance_from_r0]
  have hd' : 0 < d ^ ((-1:ℝ) / 3) := Real.rpow_pos_of_pos hd _
  have hx : 0 < 162e-3 * w ^ (2:ℕ) * d ^ ((-1:ℝ) / 3) / v := by positivity
  rw [← Real.rpow_mul hx.le]
  norm_num
  rw [Real.rpow_neg_one]
  field_simp

theorem mag_flux_inv_row (m w0 w1 w2 : ℝ) (h1 : 0 < w1) (h2 : 0 < w2) :
    flux_to_magnitude (magnitude_to_flux m w0 w1 w2) w0 w1 w2 = m := by
  real_unfold [flux_to_magnitude, magnitude_to_flux]
  have e : ∀ a b : ℝ, 0 < b → w2 * a * b * w1 / (b * w1) / w2 = a := by
    intro a b hb; field_simp
  rw [e _ _ (by norm_num), Real.logb_rpow (by norm_num) (by norm_num)]
  norm_num
  ring

theorem flux_mag_inv_row (f w0 w1 w2 : ℝ) (hf : 0 < f) (h1 : 0 < w1) (h2 : 0 < w2) :
    magnitude_to_flux (flux_to_magnitude f w0 w1 w2) w0 w1 w2 = f := by
  real_unfold [flux_to_magnitude, magnitude_to_flux]
  have hb : (0:ℝ) < 15100000 := by norm_num
  generalize (15100000:ℝ) = b at hb ⊢
  have hx : 0 < f / (b * w1) / w2 := by positivity
  have e : ∀ x : ℝ, (-4e-1:ℝ) * (-25e-1 * x) = x := by intro x; norm_num; ring
  rw [e, Real.rpow_logb (by norm_num) (by norm_num) hx]
  field_simp

theorem five_mag_factor_100 (m w0 w1 w2 : ℝ) :
    magnitude_to_flux m w0 w1 w2 = 100 * magnitude_to_flux (m + 5) w0 w1 w2 := by
  real_unfold [magnitude_to_flux]
  have : (10:ℝ) ^ (-4e-1 * (m + 5)) = (10:ℝ) ^ (-4e-1 * m) * (10:ℝ) ^ (-(2:ℝ)) := by
    rw [← Real.rpow_add (by norm_num)]; congr 1; norm_num; ring
  rw [this, Real.rpow_neg (by norm_num), Real.rpow_two]
  norm_num
  ring

theorem mag_flux_inv : ∀ row ∈ (FLUX_DICTIONARY : List (String × ℝ × ℝ × ℝ)), ∀ m : ℝ,
    flux_to_magnitude (magnitude_to_flux m row.2.1 row.2.2.1 row.2.2.2) row.2.1 row.2.2.1 row.2.2.2 = m :=
  fun row h m => mag_flux_inv_row m _ _ _ (table_positive row h).1 (table_positive row h).2

theorem flux_mag_inv : ∀ row ∈ (FLUX_DICTIONARY : List (String × ℝ × ℝ × ℝ)), ∀ f : ℝ, 0 < f →
    magnitude_to_flux (flux_to_magnitude f row.2.1 row.2.2.1 row.2.2.2) row.2.1 row.2.2.1 row.2.2.2 = f :=
  fun row h f hf => flux_mag_inv_row f _ _ _ hf (table_positive row h).1 (table_positive row h).2


theorem r0_scales_cn2 (cn2 lamda c : ℝ) (hc : 0 < cn2) (hl : 0 < lamda) (hcc : 0 < c) :
    cn2_to_r0 (c * cn2) lamda = c ^ (-(3:ℝ)/5) * cn2_to_r0 cn2 lamda := by
  real_unfold [cn2_to_r0]
  have hpi := Real.pi_pos
  have hx : 0 ≤ 423e-3 * (2 * π / lamda) ^ (2:ℕ) * cn2 := by positivity
  have e : ∀ A : ℝ, A * (c * cn2) = c * (A * cn2) := fun A => by ring
  rw [e, Real.mul_rpow hcc.le hx]

theorem photons_per_band_linear (n : ℕ) (mag : ℝ) (mask : ℕ → ℝ) (pxl t w0 w1 w2 : ℝ) :
    photons_per_band n mag mask pxl t w0 w1 w2
      = magnitude_to_flux mag w0 w1 w2 * t * ((∑ i ∈ Finset.range n, mask i) * pxl ^ 2) := by
  real_unfold [photons_per_band]

theorem photons_per_mag_linear (n : ℕ) (mag : ℝ) (mask : ℕ → ℝ) (pxl band t : ℝ) :
    photons_per_mag n mag mask pxl band t
      = (1000 * (10:ℝ) ^ (-mag / 2.5) * band * 10) * ((∑ i ∈ Finset.range n, mask i) * pxl ^ 2 * 100 ^ 2) * t := by
  real_unfold [photons_per_mag]

noncomputable def cθ : ℝ := 581e-4 * (423e-3 * (2 * π) ^ 2) ^ ((3:ℝ)/5)

/-- r0 in closed form -/
theorem cn2_to_r0_closed (cn2 lamda : ℝ) (hc : 0 < cn2) (hl : 0 < lamda) :
    cn2_to_r0 cn2 lamda = (423e-3 * (2 * π) ^ 2) ^ (-(3:ℝ)/5) * lamda ^ ((6:ℝ)/5) * cn2 ^ (-(3:ℝ)/5) := by
  real_unfold [cn2_to_r0]
  have hpi := Real.pi_pos
  have e : 423e-3 * (2 * π / lamda) ^ (2:ℕ) * cn2 = (423e-3 * (2 * π) ^ 2) * (lamda ^ (2:ℕ))⁻¹ * cn2 := by
    field_simp
  rw [e, Real.mul_rpow (by positivity) hc.le, Real.mul_rpow (by positivity) (by positivity),
    ← Real.rpow_natCast lamda, ← Real.rpow_neg_one, ← Real.rpow_mul hl.le, ← Real.rpow_mul hl.le]
  norm_num

theorem coherence_single_layer (cn2 v lamda : ℝ) (hc : 0 < cn2) (hv : 0 < v) (hl : 0 < lamda) :
    coherenceTime 1 (fun _ => cn2) (fun _ => v) lamda = cθ * cn2_to_r0 cn2 lamda / v := by
  rw [cn2_to_r0_closed _ _ hc hl]
  real_unfold [coherenceTime, Finset.sum_range_one, cθ]
  have hpi := Real.pi_pos
  have hv' : 0 < v ^ ((5:ℝ)/3) := Real.rpow_pos_of_pos hv _
  rw [Real.mul_rpow hc.le hv'.le, ← Real.rpow_mul hv.le]
  have hA : 0 < 423e-3 * (2 * π) ^ 2 := by positivity
  have hm : ((423e-3:ℝ) * (2 * π) ^ 2) ^ ((3:ℝ)/5) * (423e-3 * (2 * π) ^ 2) ^ (-(3:ℝ)/5) = 1 := by
    rw [← Real.rpow_add hA]; norm_num
  have hvv : v ^ ((5:ℝ) / 3 * (-3 / 5)) = v⁻¹ := by
    rw [← Real.rpow_neg_one]; norm_num
  rw [hvv]
  generalize (423e-3 * (2 * π) ^ 2) ^ ((3:ℝ)/5) = P at hm ⊢
  generalize (423e-3 * (2 * π) ^ 2) ^ (-(3:ℝ)/5) = Q at hm ⊢
  calc cn2 ^ (-(3:ℝ) / 5) * v⁻¹ * 581e-4 * lamda ^ ((6:ℝ) / 5)
      = (P * Q) * (cn2 ^ (-(3:ℝ) / 5) * v⁻¹ * 581e-4 * lamda ^ ((6:ℝ) / 5)) := by rw [hm, one_mul]
    _ = _ := by ring

theorem isoplanatic_single_layer (cn2 h lamda : ℝ) (hc : 0 < cn2) (hh : 0 < h) (hl : 0 < lamda) :
    isoplanaticAngle 1 (fun _ => cn2) (fun _ => h) lamda
      = (cθ * cn2_to_r0 cn2 lamda / h) * (180 * 3600 / π) := by
  rw [cn2_to_r0_closed _ _ hc hl]
  real_unfold [isoplanaticAngle, Finset.sum_range_one, cθ]
  have hpi := Real.pi_pos
  have hv' : 0 < h ^ ((5:ℝ)/3) := Real.rpow_pos_of_pos hh _
  rw [Real.mul_rpow hc.le hv'.le, ← Real.rpow_mul hh.le]
  have hA : 0 < 423e-3 * (2 * π) ^ 2 := by positivity
  have hm : ((423e-3:ℝ) * (2 * π) ^ 2) ^ ((3:ℝ)/5) * (423e-3 * (2 * π) ^ 2) ^ (-(3:ℝ)/5) = 1 := by
    rw [← Real.rpow_add hA]; norm_num
  have hvv : h ^ ((5:ℝ) / 3 * (-3 / 5)) = h⁻¹ := by
    rw [← Real.rpow_neg_one]; norm_num
  rw [hvv]
  generalize (423e-3 * (2 * π) ^ 2) ^ ((3:ℝ)/5) = P at hm ⊢
  generalize (423e-3 * (2 * π) ^ 2) ^ (-(3:ℝ)/5) = Q at hm ⊢
  calc 581e-4 * lamda ^ ((6:ℝ) / 5) * (cn2 ^ (-(3:ℝ) / 5) * h⁻¹) * 180 * 3600 / π
      = (P * Q) * (581e-4 * lamda ^ ((6:ℝ) / 5) * (cn2 ^ (-(3:ℝ) / 5) * h⁻¹) * 180 * 3600 / π) := by rw [hm, one_mul]
    _ = _ := by ring

/-- the constant is the published 0.314 to the rounding of the published constants -/
theorem cθ_approx : |cθ - 0.314| < 0.002 := by
  have hpi1 := Real.pi_gt_d2
  have hpi2 := Real.pi_lt_d2
  have hA : 0 < (423e-3:ℝ) * (2 * π) ^ 2 := by positivity
  have hc0 : 0 < cθ := by unfold cθ; positivity
  -- cθ^5 = 0.0581^5 * A^3
  have h5 : cθ ^ (5:ℕ) = 581e-4 ^ (5:ℕ) * (423e-3 * (2 * π) ^ 2) ^ (3:ℕ) := by
    unfold cθ
    rw [mul_pow, ← Real.rpow_natCast ((_ : ℝ) ^ ((3:ℝ)/5)), ← Real.rpow_mul hA.le]
    norm_num
  have lo : (0.312:ℝ) ^ (5:ℕ) < cθ ^ (5:ℕ) := by
    rw [h5]
    have : (423e-3:ℝ) * (2 * 3.14) ^ 2 < 423e-3 * (2 * π) ^ 2 := by gcongr
    calc (0.312:ℝ) ^ (5:ℕ) < 581e-4 ^ (5:ℕ) * (423e-3 * (2 * 3.14) ^ 2) ^ (3:ℕ) := by norm_num
      _ < _ := by gcongr
  have hi : cθ ^ (5:ℕ) < (0.316:ℝ) ^ (5:ℕ) := by
    rw [h5]
    have : (423e-3:ℝ) * (2 * π) ^ 2 < 423e-3 * (2 * 3.15) ^ 2 := by gcongr
    calc 581e-4 ^ (5:ℕ) * (423e-3 * (2 * π) ^ 2) ^ (3:ℕ) < 581e-4 ^ (5:ℕ) * (423e-3 * (2 * 3.15) ^ 2) ^ (3:ℕ) := by gcongr
      _ < _ := by norm_num
  have l := lt_of_pow_lt_pow_left₀ 5 hc0.le lo
  have u := lt_of_pow_lt_pow_left₀ 5 (by norm_num) hi
  rw [abs_lt]; constructor <;> linarith

end AoVerif.Props.C17
