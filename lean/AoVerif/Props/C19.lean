/-
C19 — empirical estimators implement their definitions.

Model: `AoVerif.Model.Estimators` (hand-written, mirrors `calculate_structure_function`, `calc_slope_temporalps`,
`get_tps_time_axis`; tied to the source by the correspondence driver `Drive/C19.lean`).  All theorems are for
every array size, lag, step, frame count and every real-valued input; nothing is enumerated.
-/
import Mathlib.Tactic.Ring
import Mathlib.Tactic.Linarith
import Mathlib.Tactic.FieldSimp
import AoVerif.Lemmas.RealScalar
import AoVerif.Lemmas.Estimators
import AoVerif.Lemmas.EstimatorsTps

namespace AoVerif.Props.C19
open AoVerif AoVerif.Model.Estimators AoVerif.Lemmas.Estimators AoVerif.Lemmas.EstimatorsTps Finset

set_option linter.unusedSectionVars false
set_option linter.unusedVariables false
variable [Transc ℝ] [RealTransc]

/-! ## Structure function -/

/-- the mean squared difference of the phase with itself shifted by `i` rows: the DEFINITION the estimator
    must implement -/
noncomputable def msd (n0 n1 : ℕ) (φ : ℕ → ℕ → ℝ) (i : ℕ) : ℝ :=
  (∑ r ∈ range (n0 - i), ∑ c ∈ range n1, (φ r c - φ (r + i) c) ^ 2) / (((n0 - i) * n1 : ℕ) : ℝ)

theorem lagMean_eq_msd (n0 n1 : ℕ) (φ : ℕ → ℕ → ℝ) (i : ℕ) : lagMean n0 n1 φ i = msd n0 n1 φ i := by
  real_unfold [lagMean, msd]

/-- the output has the documented length `xm`, whatever the buffer held -/
theorem sf_size (n0 n1 : ℕ) (φ : ℕ → ℕ → ℝ) (nb step : Option ℕ) (hs : 1 ≤ step.getD 1) :
    (calcSF n0 n1 φ nb step).size = sfXm nb n1 (step.getD 1) := by
  simp only [calcSF]
  rw [sfLoop_size _ _ _ _ _ hs, Array.size_replicate]

/-- **sf_def** — for EVERY initial buffer `u` (so also for `numpy.empty`): entry `j ≥ 1` is the mean squared
    difference at shift `j*step` along the first axis. -/
theorem sf_def_any_buffer (n0 n1 : ℕ) (φ : ℕ → ℕ → ℝ) (nb step : Option ℕ) (hs : 1 ≤ step.getD 1)
    (u : Array ℝ) (hu : u.size = sfXm nb n1 (step.getD 1)) (j : ℕ) (h1 : 1 ≤ j)
    (hj : j < sfXm nb n1 (step.getD 1)) :
    (calcSFEmpty n0 n1 φ nb step u)[j]? = some (msd n0 n1 φ (j * step.getD 1)) := by
  simp only [calcSFEmpty]
  rw [sfLoop_get _ _ _ _ _ hs _ hu, if_pos ⟨h1, hj⟩, lagMean_eq_msd]

theorem calcSF_eq_empty_zeros (n0 n1 : ℕ) (φ : ℕ → ℕ → ℝ) (nb step : Option ℕ) :
    calcSF n0 n1 φ nb step
      = calcSFEmpty n0 n1 φ nb step (Array.replicate (sfXm nb n1 (step.getD 1)) ((0 : ℕ) : ℝ)) := rfl

/-- **sf_def** for the repaired function -/
theorem sf_def (n0 n1 : ℕ) (φ : ℕ → ℕ → ℝ) (nb step : Option ℕ) (hs : 1 ≤ step.getD 1) (j : ℕ) (h1 : 1 ≤ j)
    (hj : j < sfXm nb n1 (step.getD 1)) :
    (calcSF n0 n1 φ nb step)[j]? = some (msd n0 n1 φ (j * step.getD 1)) := by
  rw [calcSF_eq_empty_zeros]
  exact sf_def_any_buffer n0 n1 φ nb step hs _ (by simp) j h1 hj

/-- **sf_def_overlap** — the meaningful part of `sf_def`.  `sf_def` itself has no overlap hypothesis and is therefore true
for a lag without overlapping rows only through the convention `0/0 = 0` of Lean's reals (see `sf_no_overlap`).  Here the lag
overlaps the phase (`j*step < n0`) and there is at least one column: the number of averaged terms is positive and entry `j`
TIMES that number is the sum of the squared differences at shift `j*step` (division-free, so no convention is involved). -/
theorem sf_def_overlap (n0 n1 : ℕ) (φ : ℕ → ℕ → ℝ) (nb step : Option ℕ) (hs : 1 ≤ step.getD 1) (j : ℕ) (h1 : 1 ≤ j)
    (hj : j < sfXm nb n1 (step.getD 1)) (hov : j * step.getD 1 < n0) (hn1 : 0 < n1) :
    ∃ v : ℝ, (calcSF n0 n1 φ nb step)[j]? = some v ∧ 0 < (n0 - j * step.getD 1) * n1 ∧
      v * (((n0 - j * step.getD 1) * n1 : ℕ) : ℝ)
        = ∑ r ∈ range (n0 - j * step.getD 1), ∑ c ∈ range n1, (φ r c - φ (r + j * step.getD 1) c) ^ 2 := by
  have hpos : 0 < (n0 - j * step.getD 1) * n1 := Nat.mul_pos (by omega) hn1
  refine ⟨_, sf_def n0 n1 φ nb step hs j h1 hj, hpos, ?_⟩
  have hne : (((n0 - j * step.getD 1) * n1 : ℕ) : ℝ) ≠ 0 := by exact_mod_cast hpos.ne'
  unfold msd
  exact div_mul_cancel₀ _ hne

/-- **sf_no_overlap** — the empty case split off from `sf_def`: for a lag with no overlapping rows (`n0 ≤ j*step`; possible
because the code bounds the lags by `shape[1]` while it shifts along axis 0) there is nothing to average — the count of
terms is 0 and the model's entry is the junk value `0/0` (`= 0` in Lean's reals; the real code returns NaN with a
RuntimeWarning).  Nothing is claimed about the real code there; the oracle skips those lags. -/
theorem sf_no_overlap (n0 n1 : ℕ) (φ : ℕ → ℕ → ℝ) (nb step : Option ℕ) (hs : 1 ≤ step.getD 1) (j : ℕ) (h1 : 1 ≤ j)
    (hj : j < sfXm nb n1 (step.getD 1)) (hno : n0 ≤ j * step.getD 1) :
    (n0 - j * step.getD 1) * n1 = 0 ∧ (calcSF n0 n1 φ nb step)[j]? = some ((0 : ℝ) / ((0 : ℕ) : ℝ)) := by
  have h0 : n0 - j * step.getD 1 = 0 := Nat.sub_eq_zero_of_le hno
  refine ⟨by rw [h0, Nat.zero_mul], ?_⟩
  rw [sf_def n0 n1 φ nb step hs j h1 hj]
  unfold msd
  simp [h0]

/-- the loop never writes entry 0: the pinned function returns whatever the buffer held there (D16) -/
theorem sf_zero_lag_is_buffer (n0 n1 : ℕ) (φ : ℕ → ℕ → ℝ) (nb step : Option ℕ) (hs : 1 ≤ step.getD 1)
    (u : Array ℝ) (hu : u.size = sfXm nb n1 (step.getD 1)) :
    (calcSFEmpty n0 n1 φ nb step u)[0]? = u[0]? := by
  simp only [calcSFEmpty]
  rw [sfLoop_get _ _ _ _ _ hs _ hu, if_neg (by omega)]

/-- **sf_zero_lag** — the repaired function returns exactly 0 at lag 0 -/
theorem sf_zero_lag (n0 n1 : ℕ) (φ : ℕ → ℕ → ℝ) (nb step : Option ℕ) (hs : 1 ≤ step.getD 1)
    (hx : 0 < sfXm nb n1 (step.getD 1)) :
    (calcSF n0 n1 φ nb step)[0]? = some 0 := by
  rw [calcSF_eq_empty_zeros, sf_zero_lag_is_buffer _ _ _ _ _ hs _ (by simp), Array.getElem?_replicate, if_pos hx]
  simp

/-- with `numpy.empty` the claim "value 0 at lag 0" is false: a buffer that held 7 gives 7 (recorded probe) -/
theorem sf_zero_lag_fails_on_empty :
    (calcSFEmpty 16 16 (fun _ _ => (0 : ℝ)) none none (Array.replicate 4 7))[0]? = some 7 := by
  rw [sf_zero_lag_is_buffer _ _ _ _ _ (by decide) _ (by decide)]
  simp

/-- **sf_ramp** — a ramp of slope `a` along the first axis (any column offsets `b`) gives `a² (j·step)²` -/
theorem msd_ramp (n0 n1 : ℕ) (a : ℝ) (b : ℕ → ℝ) (i : ℕ) (hi : i < n0) (h1 : 0 < n1) :
    msd n0 n1 (fun r c => a * r + b c) i = a ^ 2 * (i : ℝ) ^ 2 := by
  unfold msd
  have e : ∀ r c : ℕ, (a * (r : ℝ) + b c - (a * ((r + i : ℕ) : ℝ) + b c)) ^ 2 = a ^ 2 * (i : ℝ) ^ 2 := by
    intro r c; push_cast; ring
  simp only [e, sum_const, card_range, nsmul_eq_mul]
  have hpos : (0 : ℝ) < (((n0 - i) * n1 : ℕ) : ℝ) := by
    have : 0 < (n0 - i) * n1 := Nat.mul_pos (by omega) h1
    exact_mod_cast this
  rw [← mul_assoc, ← Nat.cast_mul]
  field_simp

theorem sf_ramp (n0 n1 : ℕ) (a : ℝ) (b : ℕ → ℝ) (nb step : Option ℕ) (hs : 1 ≤ step.getD 1) (j : ℕ) (h1 : 1 ≤ j)
    (hj : j < sfXm nb n1 (step.getD 1)) (hrow : j * step.getD 1 < n0) :
    (calcSF n0 n1 (fun r c => a * r + b c) nb step)[j]? = some (a ^ 2 * ((j * step.getD 1 : ℕ) : ℝ) ^ 2) := by
  have hn1 : 0 < n1 := by
    rcases Nat.eq_zero_or_pos n1 with h | h
    · subst h; simp [sfXm] at hj
    · exact h
  rw [sf_def _ _ _ _ _ hs j h1 hj, msd_ramp _ _ _ _ _ hrow hn1]

/-- **sf_quadratic** — scaling the phase by `a` scales every returned value (lag 0 included) by `a²` -/
theorem msd_quadratic (n0 n1 : ℕ) (φ : ℕ → ℕ → ℝ) (a : ℝ) (i : ℕ) :
    msd n0 n1 (fun r c => a * φ r c) i = a ^ 2 * msd n0 n1 φ i := by
  unfold msd
  have e : ∀ r c : ℕ, (a * φ r c - a * φ (r + i) c) ^ 2 = a ^ 2 * (φ r c - φ (r + i) c) ^ 2 := by
    intro r c; ring
  simp only [e, ← mul_sum]
  ring

theorem sf_quadratic (n0 n1 : ℕ) (φ : ℕ → ℕ → ℝ) (a : ℝ) (nb step : Option ℕ) (hs : 1 ≤ step.getD 1) (j : ℕ) :
    (calcSF n0 n1 (fun r c => a * φ r c) nb step)[j]?
      = ((calcSF n0 n1 φ nb step)[j]?).map (fun v => a ^ 2 * v) := by
  by_cases hj : j < sfXm nb n1 (step.getD 1)
  · rcases Nat.eq_zero_or_pos j with h0 | h1
    · subst h0
      rw [sf_zero_lag _ _ _ _ _ hs hj, sf_zero_lag _ _ _ _ _ hs hj]; simp
    · rw [sf_def _ _ _ _ _ hs j h1 hj, sf_def _ _ _ _ _ hs j h1 hj, msd_quadratic]; simp
  · rw [Array.getElem?_eq_none (by rw [sf_size _ _ _ _ _ hs]; omega),
      Array.getElem?_eq_none (by rw [sf_size _ _ _ _ _ hs]; omega)]; simp

/-- adding a constant (piston) to the phase changes nothing -/
theorem msd_piston (n0 n1 : ℕ) (φ : ℕ → ℕ → ℝ) (p : ℝ) (i : ℕ) :
    msd n0 n1 (fun r c => φ r c + p) i = msd n0 n1 φ i := by
  unfold msd
  have e : ∀ r c : ℕ, (φ r c + p - (φ (r + i) c + p)) ^ 2 = (φ r c - φ (r + i) c) ^ 2 := by intro r c; ring
  simp only [e]

/-- every returned value is non-negative -/
theorem msd_nonneg (n0 n1 : ℕ) (φ : ℕ → ℕ → ℝ) (i : ℕ) : 0 ≤ msd n0 n1 φ i := by
  unfold msd
  apply div_nonneg
  · exact sum_nonneg fun r _ => sum_nonneg fun c _ => sq_nonneg _
  · exact Nat.cast_nonneg _

/-- non-vacuity of the hypotheses of `sf_def`/`sf_ramp`/`sf_zero_lag`: a 16×16 phase, default arguments, lag 3 -/
example : 1 ≤ (none : Option ℕ).getD 1 ∧ 1 ≤ 3 ∧ 3 < sfXm none 16 ((none : Option ℕ).getD 1)
    ∧ 3 * (none : Option ℕ).getD 1 < 16 ∧ 0 < sfXm none 16 1 := by decide


/-! ## Temporal power spectrum (one `(nF, nS)` block `x t s`: frame `t`, sub-aperture `s`) -/

theorem tps_size (nF nS : ℕ) (x : ℕ → ℕ → ℝ) : (tpsMean nF nS x).size = nF / 2 := by
  simp [tpsMean, tpsLen]

/-- the returned array holds the bins `k < nF/2` of the sub-aperture-averaged periodogram -/
theorem tps_get (nF nS : ℕ) (x : ℕ → ℕ → ℝ) (k : ℕ) (hk : k < nF / 2) :
    (tpsMean nF nS x)[k]? = some (pgram nF nS x k) := by
  simp only [tpsMean, tpsLen, Array.getElem?_ofFn, dif_pos hk]

/-- `|Σ_t x_t e^{-2πi k t/n}|²` is what `pgram1` computes -/
theorem pgram1_eq_norm_sq (n : ℕ) (x : ℕ → ℝ) (k : ℕ) :
    pgram1 n x k
      = ‖∑ t ∈ range n, (x t : ℂ) * Complex.exp (((-(2 * Real.pi * (k : ℝ) * (t : ℝ) / (n : ℝ)) : ℝ) : ℂ) * Complex.I)‖ ^ 2 := by
  rw [Complex.sq_norm, Complex.normSq_apply, Complex.re_sum, Complex.im_sum, pgram1_real]
  simp only [Complex.re_ofReal_mul, Complex.im_ofReal_mul, Complex.exp_ofReal_mul_I_re, Complex.exp_ofReal_mul_I_im,
    Real.cos_neg, Real.sin_neg, mul_neg, sum_neg_distrib]
  ring

/-- **tps_def** — entry `k` is the squared modulus of the Fourier transform along the frame axis, averaged over
    sub-apertures -/
theorem tps_def (nF nS : ℕ) (x : ℕ → ℕ → ℝ) (k : ℕ) (hk : k < nF / 2) :
    (tpsMean nF nS x)[k]? = some ((∑ s ∈ range nS,
      ‖∑ t ∈ range nF, (x t s : ℂ) * Complex.exp (((-(2 * Real.pi * (k : ℝ) * (t : ℝ) / (nF : ℝ)) : ℝ) : ℂ) * Complex.I)‖ ^ 2)
        / (nS : ℝ)) := by
  rw [tps_get _ _ _ _ hk, pgram_real]
  simp only [pgram1_eq_norm_sq]

/-- leading axes are independent: block `b` of the batched output is the spectrum of block `b` of the input -/
theorem tps_batch (lead nF nS : ℕ) (d : ℕ → ℝ) (b k : ℕ) (hb : b < lead) (hk : k < nF / 2) :
    (tpsMeanBatch lead nF nS d)[b * (nF / 2) + k]? = (tpsMean nF nS (block nF nS d b))[k]? := by
  have hlt : b * (nF / 2) + k < lead * (nF / 2) := by
    calc b * (nF / 2) + k < b * (nF / 2) + nF / 2 := by omega
      _ = (b + 1) * (nF / 2) := by ring
      _ ≤ lead * (nF / 2) := Nat.mul_le_mul_right _ hb
  have hpos : 0 < nF / 2 := by omega
  rw [tps_get _ _ _ _ hk]
  simp only [tpsMeanBatch, tpsLen, Array.getElem?_ofFn, dif_pos hlt]
  rw [Nat.mul_comm b, Nat.mul_add_div hpos, Nat.mul_add_mod, Nat.div_eq_of_lt hk, Nat.mod_eq_of_lt hk, Nat.add_zero]

/-- **tps_quadratic** — scaling the slopes by `a` scales the spectrum by `a²` -/
theorem pgram_quadratic (nF nS : ℕ) (x : ℕ → ℕ → ℝ) (a : ℝ) (k : ℕ) :
    pgram nF nS (fun t s => a * x t s) k = a ^ 2 * pgram nF nS x k := by
  simp only [pgram_real, pgram1_real, mul_assoc, ← mul_sum]
  rw [← mul_div_assoc, mul_sum]
  congr 1
  apply sum_congr rfl; intro s _
  ring

theorem tps_quadratic (nF nS : ℕ) (x : ℕ → ℕ → ℝ) (a : ℝ) (k : ℕ) :
    (tpsMean nF nS (fun t s => a * x t s))[k]? = ((tpsMean nF nS x)[k]?).map (fun v => a ^ 2 * v) := by
  by_cases hk : k < nF / 2
  · rw [tps_get _ _ _ _ hk, tps_get _ _ _ _ hk, pgram_quadratic]; simp
  · rw [Array.getElem?_eq_none (by rw [tps_size]; omega), Array.getElem?_eq_none (by rw [tps_size]; omega)]; simp

/-- the pinned function (second squaring, D17) scales with the FOURTH power of the amplitude … -/
theorem tps_pinned_quartic (nF nS : ℕ) (x : ℕ → ℕ → ℝ) (a : ℝ) (k : ℕ) :
    pgramPinned nF nS (fun t s => a * x t s) k = a ^ 4 * pgramPinned nF nS x k := by
  real_unfold [pgramPinned]
  simp only [pgram1_real, mul_assoc, ← mul_sum]
  rw [← mul_div_assoc, mul_sum]
  congr 1
  apply sum_congr rfl; intro s _
  ring

/-- … so "quadratic in amplitude" is false for it: one frame, one sub-aperture, slope 1, amplitude 2 gives 16, not 4 -/
theorem tps_quadratic_fails_pinned :
    ¬ (∀ a : ℝ, pgramPinned 1 1 (fun _ _ => a * 1) 0 = a ^ 2 * pgramPinned 1 1 (fun _ _ => (1 : ℝ)) 0) := by
  intro h
  have h2 := h 2
  rw [tps_pinned_quartic] at h2
  have hp : pgramPinned 1 1 (fun _ _ => (1 : ℝ)) 0 = 1 := by
    real_unfold [pgramPinned]
    simp [pgram1_real]
  rw [hp] at h2
  norm_num at h2

/-- Parseval over the full period: `Σ_{k<n} P_k = n · mean_s Σ_t x_{t,s}²` -/
theorem tps_parseval_full (nF nS : ℕ) (x : ℕ → ℕ → ℝ) :
    ∑ k ∈ range nF, pgram nF nS x k = (nF : ℝ) * ((∑ s ∈ range nS, ∑ t ∈ range nF, x t s ^ 2) / (nS : ℝ)) := by
  simp only [pgram_real]
  rw [← sum_div, sum_comm, ← mul_div_assoc, mul_sum]
  congr 1
  apply sum_congr rfl; intro s _
  exact parseval1 nF (fun t => x t s)

theorem pgram_mirror (nF nS : ℕ) (x : ℕ → ℕ → ℝ) (k : ℕ) (hk : k ≤ nF) (hn : 0 < nF) :
    pgram nF nS x (nF - k) = pgram nF nS x k := by
  simp only [pgram_real]
  congr 1
  apply sum_congr rfl; intro s _
  exact pgram1_mirror nF (fun t => x t s) k hk hn

/-- **tps_parseval** — Parseval in the form the function can be checked in: it returns only the bins `k < n/2`;
    twice their sum, minus the zero-frequency bin counted once, plus the bins `n/2 … n - n/2` that the slice
    `[: n/2]` drops (the Nyquist bin for even `n`; the two mirror bins `(n∓1)/2` for odd `n`), is
    `n · mean_s Σ_t x²`. -/
theorem tps_parseval (nF nS : ℕ) (x : ℕ → ℕ → ℝ) (hn : 2 ≤ nF) :
    2 * ∑ k ∈ range (nF / 2), pgram nF nS x k - pgram nF nS x 0
        + ∑ k ∈ Ico (nF / 2) (nF - nF / 2 + 1), pgram nF nS x k
      = (nF : ℝ) * ((∑ s ∈ range nS, ∑ t ∈ range nF, x t s ^ 2) / (nS : ℝ)) := by
  rw [← tps_parseval_full]
  exact (sum_half nF hn (pgram nF nS x) (fun k _ hk => pgram_mirror nF nS x k hk.le (by omega))).symm

/-- even frame count: exactly the Nyquist bin is dropped -/
theorem tps_parseval_even (m nS : ℕ) (x : ℕ → ℕ → ℝ) (hm : 1 ≤ m) :
    2 * ∑ k ∈ range m, pgram (2 * m) nS x k - pgram (2 * m) nS x 0 + pgram (2 * m) nS x m
      = ((2 * m : ℕ) : ℝ) * ((∑ s ∈ range nS, ∑ t ∈ range (2 * m), x t s ^ 2) / (nS : ℝ)) := by
  have h := tps_parseval (2 * m) nS x (by omega)
  have h2 : 2 * m / 2 = m := by omega
  have h3 : 2 * m - m + 1 = m + 1 := by omega
  rw [h2, h3, Nat.Ico_succ_singleton, sum_singleton] at h
  exact h

/-- odd frame count: the two mirror bins `m`, `m+1` (equal for real data) are dropped -/
theorem tps_parseval_odd (m nS : ℕ) (x : ℕ → ℕ → ℝ) (hm : 1 ≤ m) :
    2 * ∑ k ∈ range m, pgram (2 * m + 1) nS x k - pgram (2 * m + 1) nS x 0 + 2 * pgram (2 * m + 1) nS x m
      = ((2 * m + 1 : ℕ) : ℝ) * ((∑ s ∈ range nS, ∑ t ∈ range (2 * m + 1), x t s ^ 2) / (nS : ℝ)) := by
  have h := tps_parseval (2 * m + 1) nS x (by omega)
  have h2 : (2 * m + 1) / 2 = m := by omega
  have h3 : 2 * m + 1 - m + 1 = m + 2 := by omega
  have hmir := pgram_mirror (2 * m + 1) nS x m (by omega) (by omega)
  rw [show 2 * m + 1 - m = m + 1 by omega] at hmir
  rw [h2, h3, sum_Ico_succ_top (by omega), Nat.Ico_succ_singleton, sum_singleton, hmir] at h
  linarith

/-- **tps_sinusoid_peak** — slopes that are a pure sinusoid at frequency bin `k0` (any amplitude `A s` and phase
    `φ s` per sub-aperture) put all returned power in bin `k0`: `n²/4 · mean(A²)` there, exactly 0 elsewhere -/
theorem tps_sinusoid (nF nS : ℕ) (A φ : ℕ → ℝ) (k0 k : ℕ) (h0 : 0 < k0) (hk0 : k0 < nF / 2) (hk : k < nF / 2) :
    pgram nF nS (fun t s => A s * Real.cos (2 * Real.pi * (k0 : ℝ) * (t : ℝ) / (nF : ℝ) + φ s)) k
      = if k = k0 then (nF : ℝ) ^ 2 / 4 * ((∑ s ∈ range nS, A s ^ 2) / (nS : ℝ)) else 0 := by
  rw [pgram_real]
  simp only [pgram1_sinusoid nF _ _ k0 k h0 hk0 hk]
  split_ifs
  · rw [← mul_sum, mul_div_assoc]
  · simp

theorem tps_sinusoid_peak (nF nS : ℕ) (A φ : ℕ → ℝ) (k0 k : ℕ) (h0 : 0 < k0) (hk0 : k0 < nF / 2) (hk : k < nF / 2)
    (hne : k ≠ k0) (hS : 0 < nS) (hA : ∃ s ∈ range nS, A s ≠ 0) :
    pgram nF nS (fun t s => A s * Real.cos (2 * Real.pi * (k0 : ℝ) * (t : ℝ) / (nF : ℝ) + φ s)) k
      < pgram nF nS (fun t s => A s * Real.cos (2 * Real.pi * (k0 : ℝ) * (t : ℝ) / (nF : ℝ) + φ s)) k0 := by
  rw [tps_sinusoid nF nS A φ k0 k h0 hk0 hk, tps_sinusoid nF nS A φ k0 k0 h0 hk0 hk0, if_neg hne, if_pos rfl]
  have hn : (0 : ℝ) < (nF : ℝ) := by
    have : 0 < nF := by omega
    exact_mod_cast this
  have hs : (0 : ℝ) < (nS : ℝ) := by exact_mod_cast hS
  obtain ⟨s, hs', hAs⟩ := hA
  have hsum : 0 < ∑ s ∈ range nS, A s ^ 2 :=
    sum_pos' (fun i _ => sq_nonneg _) ⟨s, hs', by positivity⟩
  positivity

/-- non-vacuity: 8 frames, sinusoid in bin 2, looked at from bin 3; 3 sub-apertures of amplitude 1 -/
example : 0 < 2 ∧ 2 < 8 / 2 ∧ 3 < 8 / 2 ∧ 3 ≠ 2 ∧ 0 < 3 ∧ (∃ s ∈ range 3, (fun _ : ℕ => (1 : ℝ)) s ≠ 0) ∧ 2 ≤ 8 :=
  ⟨by norm_num, by norm_num, by norm_num, by norm_num, by norm_num, ⟨0, by simp, by norm_num⟩, by norm_num⟩

/-! ## Frequency axis -/

theorem tps_axis_size (fr : ℝ) (n : ℕ) : (tpsAxis fr n).size = n / 2 := by
  simp [tpsAxis, tpsLen]

/-- **tps_axis** — entry `k` of the frequency axis is `k·frame_rate/n_frames` (and there are `n_frames/2` entries) -/
theorem tps_axis (fr : ℝ) (n k : ℕ) (hfr : fr ≠ 0) (hk : k < n / 2) :
    (tpsAxis fr n)[k]? = some ((k : ℝ) * fr / (n : ℝ)) := by
  have hn : (n : ℝ) ≠ 0 := by
    have : 0 < n := by omega
    exact_mod_cast this.ne'
  have hlt : k < (n - 1) / 2 + 1 := by omega
  simp only [tpsAxis, tpsLen, Array.getElem?_ofFn, dif_pos hk, fftfreq, if_pos hlt, Nat.cast_one]
  congr 1
  field_simp

/-- the full `fftfreq` convention: non-negative frequencies first, then the negative ones -/
theorem fftfreq_eq (fr : ℝ) (n k : ℕ) (hfr : fr ≠ 0) (hn : 0 < n) (hk : k < n) :
    fftfreq n (((1 : ℕ) : ℝ) / fr) k
      = (if k < (n - 1) / 2 + 1 then (k : ℝ) else (k : ℝ) - n) * fr / n := by
  have hn' : (n : ℝ) ≠ 0 := by exact_mod_cast hn.ne'
  simp only [fftfreq, Nat.cast_one]
  split_ifs with h
  · field_simp
  · rw [Nat.cast_sub hk.le]; field_simp; ring

example : (100 : ℝ) ≠ 0 ∧ 3 < 9 / 2 := by norm_num

/-
NOT PROVED (not carried by any theorem; listed in `chk.assumptions`):

  * "applied to generated screens it [the structure-function estimator] follows the analytic structure function":
        ∀ screens φ drawn from the von Kármán ensemble with parameters (r0, L0),
          E[ msd n0 n1 φ i ] = D_vk(i·pixel_scale; r0, L0)   (and concentration around it)
    — a statistical statement about an ensemble of random screens; Mathlib 4.33 has neither the Bessel functions
    entering D_vk nor the spectral representation needed; evaluated nowhere in this check (C07 treats the screens).

  * the float arithmetic of the output length, `int(numpy.min([nbOfPoint, phase.shape[1] / step - 1]))`, equals the
    natural-number expression `sfXm` of the model — IEEE division/truncation, compared exhaustively by the
    correspondence (`C19 xm`) for every shape[1] ≤ 10 (quick) / 30 (thorough), every nbOfPoint and step in range.

  * `numpy.fft.fft` = the naive DFT sum of the model (external kernel; compared numerically on every generated instance).

For lags with `j*step ≥ n0` (no overlapping rows; reachable because the code bounds the lags by `shape[1]`, not
`shape[0]`) the mean is over an empty set: `sf_def` then states `0/0` (`= 0` over ℝ, NaN at `Float` and in NumPy);
`sf_ramp` carries the hypothesis `j*step < n0`; the oracle skips those lags, the correspondence compares NaN with NaN.
-/

end AoVerif.Props.C19
