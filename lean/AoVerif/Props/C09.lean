/-
C09 — scaled Fourier transforms are exact inverse pairs obeying Parseval.
Theorems are about `Model/Fourier.lean` (hand-written mirror of `aotools/fouriertransform.py`, tied to the code by the
correspondence driver), for EVERY length n ≥ 1 (odd and even), over any field `K` containing a primitive n-th root
of unity `ζ` (for `K = ℂ`, `ζ = e^{-2πi/n}`), the twiddle table of the DFT kernel being `m ↦ ζ^m`.
The real-input variants (`rft/irft`, `rft2/irft2`) are proved over ℂ for even n: both compositions, and Parseval on the
half-spectrum as the code lays it out (weights 1 at `dcPos`/`nyqPos`, 2 elsewhere).

NOT PROVED (decided by the oracle / correspondence only, see harness/props/c09.py):
  * real-input variants for odd n — false on the code (open finding `real:irft∘rft:odd`: the API cannot know the length);
  * closeness of the transform of a sampled centred Gaussian to the analytic Gaussian (numeric bound only);
  * leading batch dimensions (stack = frames) and non-square inputs of `rft2` — not modelled, oracle/correspondence only
    (`irft2` is modelled on `N × m` half-spectra, proved on `n × (n/2+1)`);
  * numpy's C2R `irfft` discards the imaginary parts of the DC and Nyquist bins, the model keeps them: model = code on
    half-spectra whose DC/Nyquist bins are real (`irft_real` shows the model's output is real exactly there);
  * binary64 rounding.
-/
import Mathlib.Data.Complex.Basic
import Mathlib.Analysis.SpecialFunctions.Complex.Circle
import Mathlib.RingTheory.RootsOfUnity.Complex
import AoVerif.Lemmas.DFT
import AoVerif.Lemmas.DFTReal
import AoVerif.Lemmas.DFTHalf

namespace AoVerif.Props.C09
open Finset AoVerif AoVerif.Fourier AoVerif.DFT

section field
variable {K : Type} [Field K] {n : ℕ} {ζ : K}

/-- `ft` is the centred DFT: the origin of the spatial and of the frequency grid is the centre sample `n/2`
(`X_k = δ Σ_j x_j ζ^{(j-c)(k-c)}`), for odd and even n. -/
theorem ft_centred (hζ : IsPrimitiveRoot ζ n) (hn : 0 < n) (δ : K) (x : ℕ → K) (k : ℕ) :
    ft n (fun m => ζ ^ m) δ x k
      = δ * ∑ j ∈ range n, x j * ζ ^ (((j:ℤ) - ((n / 2 : ℕ) : ℤ)) * ((k:ℤ) - ((n / 2 : ℕ) : ℤ))) := by
  rw [DFT.ft_centred hζ hn, mul_comm]; rfl

/-- `ift ∘ ft = id` when `δ_f = 1/(n δ)`, every n ≥ 1 -/
theorem ift_ft (hζ : IsPrimitiveRoot ζ n) (hn : 0 < n) (δ δf : K) (hδ : (n:K) * δ * δf = 1) (x : ℕ → K)
    {j : ℕ} (hj : j < n) :
    ift n (fun m => ζ⁻¹ ^ m) (1 / (n:K)) (n:K) δf (ft n (fun m => ζ ^ m) δ x) j = x j := by
  have hnK := natCast_ne_zero hζ hn
  rw [ift_centred hζ hn]
  have : cdft n ζ⁻¹ (ft n (fun m => ζ ^ m) δ x) j = cdft n ζ⁻¹ (fun m => cdft n ζ x m * δ) j :=
    cdft_congr (fun m _ => DFT.ft_centred hζ hn δ x m) j
  rw [this, cdft_mul_const, cdft_inv hζ hn x hj]
  field_simp
  linear_combination (x j) * hδ

/-- `ft ∘ ift = id` -/
theorem ft_ift (hζ : IsPrimitiveRoot ζ n) (hn : 0 < n) (δ δf : K) (hδ : (n:K) * δ * δf = 1) (X : ℕ → K)
    {k : ℕ} (hk : k < n) :
    ft n (fun m => ζ ^ m) δ (ift n (fun m => ζ⁻¹ ^ m) (1 / (n:K)) (n:K) δf X) k = X k := by
  have hnK := natCast_ne_zero hζ hn
  rw [DFT.ft_centred hζ hn]
  have : cdft n ζ (ift n (fun m => ζ⁻¹ ^ m) (1 / (n:K)) (n:K) δf X) k
      = cdft n ζ (fun j => (1 / (n:K)) * cdft n ζ⁻¹ X j * (n:K) * δf) k :=
    cdft_congr (fun j _ => ift_centred hζ hn _ _ _ X j) k
  have h2 : cdft n ζ (fun j => (1 / (n:K)) * cdft n ζ⁻¹ X j * (n:K) * δf) k
      = cdft n ζ (fun j => cdft n ζ⁻¹ X j * δf) k :=
    cdft_congr (fun j _ => by field_simp) k
  have h3 := cdft_inv (hζ.inv) hn X hk
  rw [inv_inv] at h3
  rw [this, h2, cdft_mul_const, h3]
  linear_combination (X k) * hδ

/-- linearity -/
theorem ft_linear (hζ : IsPrimitiveRoot ζ n) (hn : 0 < n) (δ a b : K) (x y : ℕ → K) (k : ℕ) :
    ft n (fun m => ζ ^ m) δ (fun j => a * x j + b * y j) k
      = a * ft n (fun m => ζ ^ m) δ x k + b * ft n (fun m => ζ ^ m) δ y k := by
  simp only [DFT.ft_centred hζ hn]
  rw [cdft_add, cdft_smul, cdft_smul]; ring

theorem ift_linear (hζ : IsPrimitiveRoot ζ n) (hn : 0 < n) (ninv nC δf a b : K) (x y : ℕ → K) (k : ℕ) :
    ift n (fun m => ζ⁻¹ ^ m) ninv nC δf (fun j => a * x j + b * y j) k
      = a * ift n (fun m => ζ⁻¹ ^ m) ninv nC δf x k + b * ift n (fun m => ζ⁻¹ ^ m) ninv nC δf y k := by
  simp only [ift_centred hζ hn]
  rw [cdft_add, cdft_smul, cdft_smul]; ring

/-- shift theorem: a circular shift by `s` samples multiplies the spectrum by `ζ^{s (k - c)}` -/
theorem shift_theorem (hζ : IsPrimitiveRoot ζ n) (hn : 0 < n) (δ : K) (x : ℕ → K) {s : ℕ} (hs : s ≤ n) (k : ℕ) :
    ft n (fun m => ζ ^ m) δ (fun m => x ((m + (n - s)) % n)) k
      = ζ ^ ((s:ℤ) * ((k:ℤ) - ((n / 2 : ℕ) : ℤ))) * ft n (fun m => ζ ^ m) δ x k := by
  simp only [DFT.ft_centred hζ hn]
  rw [cdft_shift hζ hn x hs]; ring

/-- bilinear Parseval/Plancherel over any field: `δ_f Σ_k X_k Ỹ_k = δ Σ_j x_j y_j` with `Ỹ` the transform of `y`
against the inverse root (for `K = ℂ`, `y = conj x` this is Parseval, see `parseval`). -/
theorem plancherel (hζ : IsPrimitiveRoot ζ n) (hn : 0 < n) (δ δf : K) (hδ : (n:K) * δ * δf = 1) (x y : ℕ → K) :
    (∑ k ∈ range n, ft n (fun m => ζ ^ m) δ x k * ft n (fun m => ζ⁻¹ ^ m) δ y k) * δf
      = (∑ j ∈ range n, x j * y j) * δ := by
  simp only [DFT.ft_centred hζ hn, DFT.ft_centred hζ.inv hn]
  have : ∀ k ∈ range n, cdft n ζ x k * δ * (cdft n ζ⁻¹ y k * δ) = (cdft n ζ x k * cdft n ζ⁻¹ y k) * (δ * δ) :=
    fun k _ => by ring
  rw [sum_congr rfl this, ← sum_mul, DFT.plancherel hζ hn]
  linear_combination ((∑ m ∈ range n, x m * y m) * δ) * hδ

/-! ### two dimensions: `ift2 ∘ ft2 = id` (separability) -/

theorem ft_congr (δ : K) (w : ℕ → K) {x y : ℕ → K} (h : ∀ m < n, x m = y m) (k : ℕ) :
    ft n w δ x k = ft n w δ y k := by
  unfold ft fftshift dft ifftshift
  rcases Nat.eq_zero_or_pos n with h0 | hn
  · subst h0; rfl
  · simp only [sumTo_eq_sum]
    congr 1
    apply sum_congr rfl; intro j _
    rw [h _ (Nat.mod_lt _ hn)]

theorem ift_congr (ninv nC δf : K) (w : ℕ → K) {x y : ℕ → K} (h : ∀ m < n, x m = y m) (k : ℕ) :
    ift n w ninv nC δf x k = ift n w ninv nC δf y k := by
  unfold ift fftshift idft ifftshift
  rcases Nat.eq_zero_or_pos n with h0 | hn
  · subst h0; rfl
  · simp only [sumTo_eq_sum]
    congr 3
    apply sum_congr rfl; intro j _
    rw [h _ (Nat.mod_lt _ hn)]

theorem ift2_ft2 (hζ : IsPrimitiveRoot ζ n) (hn : 0 < n) (δ δf : K) (hδ : (n:K) * δ * δf = 1) (x : ℕ → ℕ → K)
    {a b : ℕ} (ha : a < n) (hb : b < n) :
    ift2 n (fun m => ζ⁻¹ ^ m) (1 / (n:K)) (n:K) δf (ft2 n (fun m => ζ ^ m) δ x) a b = x a b := by
  unfold ift2 ft2
  -- inner inverse along the last axis undoes the outer forward transform along the first axis … after swapping:
  have inner : ∀ a' < n, ift n (fun m => ζ⁻¹ ^ m) (1 / (n:K)) (n:K) δf
      (fun b' => ft n (fun m => ζ ^ m) δ (fun a'' => ft n (fun m => ζ ^ m) δ (fun b'' => x a'' b'') b') a') b
      = ft n (fun m => ζ ^ m) δ (fun a'' => x a'' b) a' := by
    intro a' _
    -- the transform along axis a is a linear combination over a'' of transforms along b: commute and invert
    have hlin : ∀ b', ft n (fun m => ζ ^ m) δ (fun a'' => ft n (fun m => ζ ^ m) δ (fun b'' => x a'' b'') b') a'
        = ft n (fun m => ζ ^ m) δ (fun b'' => ft n (fun m => ζ ^ m) δ (fun a'' => x a'' b'') a') b' := by
      intro b'
      simp only [DFT.ft_centred hζ hn]
      unfold cdft
      simp only [sum_mul, mul_sum]
      rw [sum_comm]
      apply sum_congr rfl; intro i _; apply sum_congr rfl; intro l _; ring
    simp only [hlin]
    exact ift_ft hζ hn δ δf hδ (fun b'' => ft n (fun m => ζ ^ m) δ (fun a'' => x a'' b'') a') hb
  rw [ift_congr _ _ _ _ inner a]
  exact ift_ft hζ hn δ δf hδ (fun a'' => x a'' b) ha

/-- the other composition in 2-D: `ft2 ∘ ift2 = id` -/
theorem ft2_ift2 (hζ : IsPrimitiveRoot ζ n) (hn : 0 < n) (δ δf : K) (hδ : (n:K) * δ * δf = 1) (X : ℕ → ℕ → K)
    {a b : ℕ} (ha : a < n) (hb : b < n) :
    ft2 n (fun m => ζ ^ m) δ (ift2 n (fun m => ζ⁻¹ ^ m) (1 / (n:K)) (n:K) δf X) a b = X a b := by
  unfold ift2 ft2
  have inner : ∀ a' < n, ft n (fun m => ζ ^ m) δ
      (fun b' => ift n (fun m => ζ⁻¹ ^ m) (1 / (n:K)) (n:K) δf
        (fun a'' => ift n (fun m => ζ⁻¹ ^ m) (1 / (n:K)) (n:K) δf (fun b'' => X a'' b'') b') a') b
      = ift n (fun m => ζ⁻¹ ^ m) (1 / (n:K)) (n:K) δf (fun a'' => X a'' b) a' := by
    intro a' _
    have hlin : ∀ b', ift n (fun m => ζ⁻¹ ^ m) (1 / (n:K)) (n:K) δf
          (fun a'' => ift n (fun m => ζ⁻¹ ^ m) (1 / (n:K)) (n:K) δf (fun b'' => X a'' b'') b') a'
        = ift n (fun m => ζ⁻¹ ^ m) (1 / (n:K)) (n:K) δf
          (fun b'' => ift n (fun m => ζ⁻¹ ^ m) (1 / (n:K)) (n:K) δf (fun a'' => X a'' b'') a') b' := by
      intro b'
      simp only [ift_centred hζ hn]
      unfold cdft
      simp only [sum_mul, mul_sum]
      rw [sum_comm]
      apply sum_congr rfl; intro i _; apply sum_congr rfl; intro l _; ring
    simp only [hlin]
    exact ft_ift hζ hn δ δf hδ
      (fun b'' => ift n (fun m => ζ⁻¹ ^ m) (1 / (n:K)) (n:K) δf (fun a'' => X a'' b'') a') hb
  rw [ft_congr _ _ inner a]
  exact ft_ift hζ hn δ δf hδ (fun a'' => X a'' b) ha

end field

/-! ### complex numbers: Parseval proper, with `ζ = e^{-2πi/n}` -/

section complex
open Complex

theorem conj_root {n : ℕ} {ζ : ℂ} (hζ : IsPrimitiveRoot ζ n) (hn : 0 < n) : (starRingEnd ℂ) ζ = ζ⁻¹ := by
  have h1 : ‖ζ‖ = 1 := hζ.norm'_eq_one (by omega)
  exact (Complex.inv_eq_conj h1).symm

/-- Parseval: `Σ_j |x_j|² δ = Σ_k |X_k|² δ_f` -/
theorem parseval {n : ℕ} {ζ : ℂ} (hζ : IsPrimitiveRoot ζ n) (hn : 0 < n) (δ δf : ℝ) (hδ : (n:ℝ) * δ * δf = 1)
    (x : ℕ → ℂ) :
    (∑ k ∈ range n, Complex.normSq (ft n (fun m => ζ ^ m) (δ:ℂ) x k)) * δf
      = (∑ j ∈ range n, Complex.normSq (x j)) * δ := by
  have hδ' : ((n:ℂ)) * (δ:ℂ) * (δf:ℂ) = 1 := by exact_mod_cast hδ
  have hc := conj_root hζ hn
  have key := plancherel hζ hn (δ:ℂ) (δf:ℂ) hδ' x (fun j => (starRingEnd ℂ) (x j))
  -- the transform of conj x against ζ⁻¹ is the conjugate of the transform of x
  have hconj : ∀ k, ft n (fun m => ζ⁻¹ ^ m) (δ:ℂ) (fun j => (starRingEnd ℂ) (x j)) k
      = (starRingEnd ℂ) (ft n (fun m => ζ ^ m) (δ:ℂ) x k) := by
    intro k
    rw [DFT.ft_centred hζ.inv hn, DFT.ft_centred hζ hn]
    unfold cdft
    rw [map_mul, map_sum, Complex.conj_ofReal]
    congr 1
    apply sum_congr rfl; intro m _
    rw [map_mul, map_zpow₀, hc]
  simp only [hconj, Complex.mul_conj] at key
  have := congrArg Complex.re key
  simpa [← Complex.ofReal_sum, ← Complex.ofReal_mul] using this

/-- 2-D Parseval for `ft2` over ℂ: `Σ_{a,b} |x_{ab}|² δ² = Σ_{a,b} |X_{ab}|² δ_f²` (1-D Parseval along each axis) -/
theorem parseval2 {n : ℕ} {ζ : ℂ} (hζ : IsPrimitiveRoot ζ n) (hn : 0 < n) (δ δf : ℝ) (hδ : (n:ℝ) * δ * δf = 1)
    (x : ℕ → ℕ → ℂ) :
    (∑ a ∈ range n, ∑ b ∈ range n, Complex.normSq (ft2 n (fun m => ζ ^ m) (δ:ℂ) x a b)) * (δf * δf)
      = (∑ a ∈ range n, ∑ b ∈ range n, Complex.normSq (x a b)) * (δ * δ) := by
  unfold ft2
  -- along axis −2 (index a), for every fixed b
  have h1 : ∀ b ∈ range n,
      (∑ a ∈ range n, Complex.normSq (ft n (fun m => ζ ^ m) (δ:ℂ)
          (fun a' => ft n (fun m => ζ ^ m) (δ:ℂ) (fun b' => x a' b') b) a)) * δf
        = (∑ a' ∈ range n, Complex.normSq (ft n (fun m => ζ ^ m) (δ:ℂ) (fun b' => x a' b') b)) * δ :=
    fun b _ => parseval hζ hn δ δf hδ (fun a' => ft n (fun m => ζ ^ m) (δ:ℂ) (fun b' => x a' b') b)
  -- along axis −1 (index b), for every fixed a'
  have h2 : ∀ a' ∈ range n,
      (∑ b ∈ range n, Complex.normSq (ft n (fun m => ζ ^ m) (δ:ℂ) (fun b' => x a' b') b)) * δf
        = (∑ b' ∈ range n, Complex.normSq (x a' b')) * δ :=
    fun a' _ => parseval hζ hn δ δf hδ (fun b' => x a' b')
  rw [sum_comm]
  calc (∑ b ∈ range n, ∑ a ∈ range n, Complex.normSq (ft n (fun m => ζ ^ m) (δ:ℂ)
          (fun a' => ft n (fun m => ζ ^ m) (δ:ℂ) (fun b' => x a' b') b) a)) * (δf * δf)
      = (∑ b ∈ range n, (∑ a ∈ range n, Complex.normSq (ft n (fun m => ζ ^ m) (δ:ℂ)
          (fun a' => ft n (fun m => ζ ^ m) (δ:ℂ) (fun b' => x a' b') b) a)) * δf) * δf := by
        rw [← sum_mul]; ring
    _ = (∑ b ∈ range n, (∑ a' ∈ range n, Complex.normSq (ft n (fun m => ζ ^ m) (δ:ℂ) (fun b' => x a' b') b)) * δ) * δf := by
        rw [sum_congr rfl h1]
    _ = (∑ a' ∈ range n, (∑ b ∈ range n, Complex.normSq (ft n (fun m => ζ ^ m) (δ:ℂ) (fun b' => x a' b') b)) * δf) * δ := by
        rw [← sum_mul, ← sum_mul, sum_comm]; ring
    _ = (∑ a' ∈ range n, (∑ b' ∈ range n, Complex.normSq (x a' b')) * δ) * δ := by
        rw [sum_congr rfl h2]
    _ = _ := by rw [← sum_mul]; ring

/-- the concrete root used by the FFT kernel, `ζ = e^{-2πi/n}`, is a primitive n-th root: the theorems are not vacuous -/
theorem fft_root_primitive {n : ℕ} (hn : 0 < n) :
    IsPrimitiveRoot (Complex.exp (2 * Real.pi * Complex.I / n))⁻¹ n :=
  (Complex.isPrimitiveRoot_exp n (by omega)).inv

/-! ### real-input variants -/

variable {n : ℕ} {ζ : ℂ}

/-- **real variants are an inverse pair for even lengths**: `irft(rft(x, δ), 1/(nδ)) = x` for real `x` -/
theorem irft_rft (hζ : IsPrimitiveRoot ζ n) (hn : 0 < n) (heven : n % 2 = 0) (δ δf : ℝ) (hδ : (n:ℝ) * δ * δf = 1)
    (x : ℕ → ℂ) (hx : ∀ j, (starRingEnd ℂ) (x j) = x j) {j : ℕ} (hj : j < n) :
    irft (n / 2 + 1) (fun m => ζ⁻¹ ^ m) (1 / (n:ℂ)) (starRingEnd ℂ) (((2 * (n / 2 + 1 - 1) : ℕ)) : ℂ) (δf:ℂ)
      (rft n (fun m => ζ ^ m) (δ:ℂ) x) j = x j := by
  have h2 : 2 * (n / 2 + 1 - 1) = n := by omega
  have hnC : (n:ℂ) ≠ 0 := natCast_ne_zero hζ hn
  unfold irft
  rw [h2]
  unfold ifftshift irfft
  set u : ℕ → ℂ := fftshift n x with hu
  have hureal : ∀ j, (starRingEnd ℂ) (u j) = u j := fun j => hx _
  -- the Hermitian completion of the (un-shifted) half-spectrum is the full spectrum of `u`, times δ
  have hfull : ∀ k < n, hermComplete n (starRingEnd ℂ)
      (fun k => rft n (fun m => ζ ^ m) (δ:ℂ) x ((k + (n / 2 + 1) / 2) % (n / 2 + 1))) k
      = dft n (fun m => ζ ^ m) u k * (δ:ℂ) := by
    intro k hk
    have hG : ∀ q, q < n / 2 + 1 → rft n (fun m => ζ ^ m) (δ:ℂ) x ((q + (n / 2 + 1) / 2) % (n / 2 + 1))
        = dft n (fun m => ζ ^ m) u q * (δ:ℂ) := by
      intro q hq
      unfold rft rfft
      show dft n (fun m => ζ ^ m) (fftshift n x) (((q + (n / 2 + 1) / 2) % (n / 2 + 1) + (n / 2 + 1 - (n / 2 + 1) / 2)) % (n / 2 + 1)) * (δ:ℂ) = _
      rw [shift_cancel _ _ hq]
    unfold hermComplete
    split_ifs with hle
    · exact hG k (by omega)
    · show (starRingEnd ℂ) (rft n (fun m => ζ ^ m) (δ:ℂ) x ((n - k + (n / 2 + 1) / 2) % (n / 2 + 1))) = _
      rw [hG (n - k) (by omega), map_mul, Complex.conj_ofReal, dft_herm hζ hn u hureal (by omega)]
  rw [idft_congr' _ _ hfull, idft_mul_const, idft_dft hζ hn u (Nat.mod_lt _ hn)]
  simp only [hu, fftshift]
  rw [shift_cancel _ _ hj]
  have : ((n:ℂ)) * (δ:ℂ) * (δf:ℂ) = 1 := by exact_mod_cast hδ
  linear_combination (x j) * this

/-! #### where `rft` puts the two self-conjugate bins, and Parseval on the half-spectrum

`rft` returns the `n/2+1` bins `0 … n/2` of the DFT of the (shifted) signal, themselves passed through
`fftshift` of length `n/2+1`.  After that shift DC sits at position `(n/2+1)/2` and Nyquist right before it. -/

/-- position of the DC bin in the output of `rft` (length `n/2+1`) -/
def dcPos (n : ℕ) : ℕ := (n / 2 + 1) / 2
/-- position of the Nyquist bin in the output of `rft` for even `n ≥ 2` -/
def nyqPos (n : ℕ) : ℕ := (n / 2 + 1) / 2 - 1
/-- Parseval weight of position `k` of the output of `rft`: the two self-conjugate bins count once, the others twice -/
noncomputable def halfWeight (n k : ℕ) : ℝ := if k = dcPos n ∨ k = nyqPos n then 1 else 2

/-- the bin at `dcPos` is DC: the plain sum of the samples times δ (every n ≥ 1, any field) -/
theorem rft_dc {K : Type} [Field K] {n : ℕ} {ζ : K} (hn : 0 < n) (δ : K) (x : ℕ → K) :
    rft n (fun m => ζ ^ m) δ x (dcPos n) = (∑ j ∈ range n, x j) * δ := by
  unfold rft rfft dcPos
  show dft n (fun m => ζ ^ m) (fftshift n x) (((n / 2 + 1) / 2 + (n / 2 + 1 - (n / 2 + 1) / 2)) % (n / 2 + 1)) * δ = _
  have h0 : ((n / 2 + 1) / 2 + (n / 2 + 1 - (n / 2 + 1) / 2)) % (n / 2 + 1) = 0 :=
    (fftshift_zero_iff (n / 2 + 1) _ (Nat.div_lt_self (by omega) (by norm_num))).2 rfl
  rw [h0]
  unfold dft fftshift
  rw [sumTo_eq_sum]
  simp only [Nat.mul_zero, Nat.zero_mod, pow_zero, mul_one]
  rw [sum_shift hn x (n - n / 2)]

/-- the bin at `nyqPos` is the Nyquist bin `n/2` of the DFT of the shifted signal (even n ≥ 2) -/
theorem rft_nyquist {K : Type} [Field K] {n : ℕ} {ζ : K} (hn : 0 < n) (heven : n % 2 = 0) (δ : K) (x : ℕ → K) :
    rft n (fun m => ζ ^ m) δ x (nyqPos n) = dft n (fun m => ζ ^ m) (fftshift n x) (n / 2) * δ := by
  unfold rft rfft nyqPos
  show dft n (fun m => ζ ^ m) (fftshift n x)
    (((n / 2 + 1) / 2 - 1 + (n / 2 + 1 - (n / 2 + 1) / 2)) % (n / 2 + 1)) * δ = _
  have h0 : ((n / 2 + 1) / 2 - 1 + (n / 2 + 1 - (n / 2 + 1) / 2)) % (n / 2 + 1) = n / 2 + 1 - 1 :=
    (fftshift_last_iff (n / 2 + 1) _ (by omega) (by omega)).2 rfl
  rw [h0, Nat.add_sub_cancel]

/-- **Parseval on the half-spectrum** (even n, real x): `Σ_j x_j² δ = δ_f Σ_k w_k |H_k|²` over the `n/2+1` bins of
`H = rft(x, δ)` as the code lays them out, `w = 1` at `dcPos`/`nyqPos` and `2` elsewhere -/
theorem parseval_half (hζ : IsPrimitiveRoot ζ n) (hn : 0 < n) (heven : n % 2 = 0) (δ δf : ℝ) (hδ : (n:ℝ) * δ * δf = 1)
    (x : ℕ → ℂ) (hx : ∀ j, (starRingEnd ℂ) (x j) = x j) :
    (∑ k ∈ range (n / 2 + 1), halfWeight n k * Complex.normSq (rft n (fun m => ζ ^ m) (δ:ℂ) x k)) * δf
      = (∑ j ∈ range n, Complex.normSq (x j)) * δ := by
  obtain ⟨r, hr⟩ : ∃ r, n = 2 * (r + 1) := ⟨n / 2 - 1, by omega⟩
  have hm : n / 2 + 1 = r + 2 := by omega
  have hureal : ∀ j, (starRingEnd ℂ) (fftshift n x j) = fftshift n x j := fun j => hx _
  -- the weighted energy of the un-shifted half-spectrum
  have hhalf := dft_half_parseval hζ r hr (fftshift n x) hureal
  have hxs : ∑ j ∈ range n, Complex.normSq (fftshift n x j) = ∑ j ∈ range n, Complex.normSq (x j) :=
    sum_shift hn (fun j => Complex.normSq (x j)) (n - n / 2)
  rw [hxs] at hhalf
  -- position k of the output reads bin σ k, and its weight is the weight of that bin
  let f : ℕ → ℝ := fun q => (if q = 0 ∨ q = r + 1 then (1:ℝ) else 2)
    * Complex.normSq (dft n (fun m => ζ ^ m) (fftshift n x) q) * (δ * δ)
  have hk : ∀ k ∈ range (n / 2 + 1), halfWeight n k * Complex.normSq (rft n (fun m => ζ ^ m) (δ:ℂ) x k)
      = f ((k + (n / 2 + 1 - (n / 2 + 1) / 2)) % (n / 2 + 1)) := by
    intro k hk
    have hk' := mem_range.mp hk
    have hw : halfWeight n k
        = (if (k + (n / 2 + 1 - (n / 2 + 1) / 2)) % (n / 2 + 1) = 0
            ∨ (k + (n / 2 + 1 - (n / 2 + 1) / 2)) % (n / 2 + 1) = r + 1 then (1:ℝ) else 2) := by
      have e1 := fftshift_zero_iff (n / 2 + 1) k hk'
      have e2 := fftshift_last_iff (n / 2 + 1) k (by omega) hk'
      have e3 : n / 2 + 1 - 1 = r + 1 := by omega
      rw [e3] at e2
      unfold halfWeight dcPos nyqPos
      simp only [e1, e2]
    rw [hw]
    unfold rft rfft
    show _ * Complex.normSq (dft n (fun m => ζ ^ m) (fftshift n x)
      ((k + (n / 2 + 1 - (n / 2 + 1) / 2)) % (n / 2 + 1)) * (δ:ℂ)) = _
    rw [Complex.normSq_mul, Complex.normSq_ofReal]
    simp only [f]; ring
  rw [sum_congr rfl hk, sum_shift (by omega) f, hm]
  simp only [f]
  rw [← sum_mul, hhalf]
  linear_combination ((∑ j ∈ range n, Complex.normSq (x j)) * δ) * hδ

/-! #### two dimensions -/

/-- **2-D real variants are an inverse pair for even n×n real input**: `irft2(rft2(x, δ), 1/(nδ)) = x`.
(`irft2` is called as the code calls it on the `n × (n/2+1)` output of `rft2`: `N = n`, `m = n/2+1`, both kernel
tables of length `n = 2 (m − 1)`.) -/
theorem irft2_rft2 (hζ : IsPrimitiveRoot ζ n) (hn : 0 < n) (heven : n % 2 = 0) (δ δf : ℝ) (hδ : (n:ℝ) * δ * δf = 1)
    (x : ℕ → ℕ → ℂ) (hx : ∀ a b, (starRingEnd ℂ) (x a b) = x a b) {a b : ℕ} (ha : a < n) (hb : b < n) :
    irft2 n (n / 2 + 1) (fun m => ζ⁻¹ ^ m) (1 / (n:ℂ)) (fun m => ζ⁻¹ ^ m) (1 / (n:ℂ)) (starRingEnd ℂ) (n:ℂ) (δf:ℂ)
      (rft2 n (fun m => ζ ^ m) (δ:ℂ) x) a b = x a b := by
  have hδ' : ((n:ℂ)) * (δ:ℂ) * (δf:ℂ) = 1 := by exact_mod_cast hδ
  unfold irft2 rft2
  -- along axis −2 the pinned pair cancels (every bin k of the half-spectrum)
  have inner : (fun k => ift_pinned n (fun m => ζ⁻¹ ^ m) (1 / (n:ℂ)) (n:ℂ) (δf:ℂ)
        (fun a' => ft_pinned n (fun m => ζ ^ m) (δ:ℂ) (fun a'' => rft n (fun m => ζ ^ m) (δ:ℂ) (fun b' => x a'' b') k) a') a)
      = rft n (fun m => ζ ^ m) (δ:ℂ) (fun b' => x a b') := by
    funext k
    exact ift_pinned_ft_pinned hζ hn (δ:ℂ) (δf:ℂ) hδ' (fun a'' => rft n (fun m => ζ ^ m) (δ:ℂ) (fun b' => x a'' b') k) ha
  rw [inner]
  -- along axis −1 the 1-D real pair cancels
  have h2 : ((2 * (n / 2 + 1 - 1) : ℕ) : ℂ) = (n:ℂ) := by
    have : 2 * (n / 2 + 1 - 1) = n := by omega
    rw [this]
  have := irft_rft hζ hn heven δ δf hδ (fun b' => x a b') (fun j => hx a j) hb
  rw [h2] at this
  exact this

/-- **Parseval on the 2-D half-spectrum** (even n, real n×n x): `Σ_{a,b} x_{ab}² δ² = δ_f² Σ_{a,k} w_k |H_{ak}|²` over the
`n × (n/2+1)` bins of `H = rft2(x, δ)`; only the halved LAST axis carries weights (`halfWeight`, as in 1-D) -/
theorem parseval_half2 (hζ : IsPrimitiveRoot ζ n) (hn : 0 < n) (heven : n % 2 = 0) (δ δf : ℝ) (hδ : (n:ℝ) * δ * δf = 1)
    (x : ℕ → ℕ → ℂ) (hx : ∀ a b, (starRingEnd ℂ) (x a b) = x a b) :
    (∑ a ∈ range n, ∑ k ∈ range (n / 2 + 1),
        halfWeight n k * Complex.normSq (rft2 n (fun m => ζ ^ m) (δ:ℂ) x a k)) * (δf * δf)
      = (∑ a ∈ range n, ∑ b ∈ range n, Complex.normSq (x a b)) * (δ * δ) := by
  unfold rft2
  -- axis −2: Parseval of the pinned composition, for every bin k of the last axis
  have h1 : ∀ k ∈ range (n / 2 + 1),
      (∑ a ∈ range n, halfWeight n k * Complex.normSq (ft_pinned n (fun m => ζ ^ m) (δ:ℂ)
          (fun a' => rft n (fun m => ζ ^ m) (δ:ℂ) (fun b' => x a' b') k) a)) * δf
        = (∑ a' ∈ range n, halfWeight n k * Complex.normSq (rft n (fun m => ζ ^ m) (δ:ℂ) (fun b' => x a' b') k)) * δ := by
    intro k _
    rw [← mul_sum, ← mul_sum, mul_assoc, mul_assoc,
      parseval_pinned hζ hn δ δf hδ (fun a' => rft n (fun m => ζ ^ m) (δ:ℂ) (fun b' => x a' b') k)]
  -- axis −1: half-spectrum Parseval of every (real) row
  have h2 : ∀ a' ∈ range n,
      (∑ k ∈ range (n / 2 + 1), halfWeight n k * Complex.normSq (rft n (fun m => ζ ^ m) (δ:ℂ) (fun b' => x a' b') k)) * δf
        = (∑ b' ∈ range n, Complex.normSq (x a' b')) * δ :=
    fun a' _ => parseval_half hζ hn heven δ δf hδ (fun b' => x a' b') (fun j => hx a' j)
  rw [sum_comm]
  calc (∑ k ∈ range (n / 2 + 1), ∑ a ∈ range n, halfWeight n k * Complex.normSq (ft_pinned n (fun m => ζ ^ m) (δ:ℂ)
          (fun a' => rft n (fun m => ζ ^ m) (δ:ℂ) (fun b' => x a' b') k) a)) * (δf * δf)
      = (∑ k ∈ range (n / 2 + 1), (∑ a ∈ range n, halfWeight n k * Complex.normSq (ft_pinned n (fun m => ζ ^ m) (δ:ℂ)
          (fun a' => rft n (fun m => ζ ^ m) (δ:ℂ) (fun b' => x a' b') k) a)) * δf) * δf := by
        rw [← sum_mul]; ring
    _ = (∑ k ∈ range (n / 2 + 1), (∑ a' ∈ range n,
          halfWeight n k * Complex.normSq (rft n (fun m => ζ ^ m) (δ:ℂ) (fun b' => x a' b') k)) * δ) * δf := by
        rw [sum_congr rfl h1]
    _ = (∑ a' ∈ range n, (∑ k ∈ range (n / 2 + 1),
          halfWeight n k * Complex.normSq (rft n (fun m => ζ ^ m) (δ:ℂ) (fun b' => x a' b') k)) * δf) * δ := by
        rw [← sum_mul, ← sum_mul, sum_comm]; ring
    _ = (∑ a' ∈ range n, (∑ b' ∈ range n, Complex.normSq (x a' b')) * δ) * δ := by
        rw [sum_congr rfl h2]
    _ = _ := by rw [← sum_mul]; ring

/-! #### the other composition on half-spectra

In the model `irfft` keeps the imaginary parts of the DC and Nyquist bins, which numpy's complex-to-real transform
discards; model and code agree on half-spectra whose DC and Nyquist bins are real — the domain of `irft`, on which the
correspondence runs — and exactly there the model's output is real (`irft_real`). -/

/-- `irft` of a half-spectrum (even n) whose DC and Nyquist bins — at `dcPos`, `nyqPos` — are real is a real signal -/
theorem irft_real (hζ : IsPrimitiveRoot ζ n) (hn : 0 < n) (heven : n % 2 = 0) (δf : ℝ) (H : ℕ → ℂ)
    (hdc : (starRingEnd ℂ) (H (dcPos n)) = H (dcPos n)) (hnyq : (starRingEnd ℂ) (H (nyqPos n)) = H (nyqPos n)) (j : ℕ) :
    (starRingEnd ℂ) (irft (n / 2 + 1) (fun m => ζ⁻¹ ^ m) (1 / (n:ℂ)) (starRingEnd ℂ) (((2 * (n / 2 + 1 - 1) : ℕ)) : ℂ) (δf:ℂ) H j)
      = irft (n / 2 + 1) (fun m => ζ⁻¹ ^ m) (1 / (n:ℂ)) (starRingEnd ℂ) (((2 * (n / 2 + 1 - 1) : ℕ)) : ℂ) (δf:ℂ) H j := by
  have h2 : 2 * (n / 2 + 1 - 1) = n := by omega
  unfold irft
  rw [h2]
  unfold irfft
  show (starRingEnd ℂ) (idft n (fun m => ζ⁻¹ ^ m) (1 / (n:ℂ)) (hermComplete n (starRingEnd ℂ) (ifftshift (n / 2 + 1) H))
      ((j + n / 2) % n) * (n:ℂ) * (δf:ℂ)) = _
  have h0 : (starRingEnd ℂ) (ifftshift (n / 2 + 1) H 0) = ifftshift (n / 2 + 1) H 0 := by
    show (starRingEnd ℂ) (H ((0 + (n / 2 + 1) / 2) % (n / 2 + 1))) = H ((0 + (n / 2 + 1) / 2) % (n / 2 + 1))
    rw [Nat.zero_add, Nat.mod_eq_of_lt (by omega)]
    exact hdc
  have hN : (starRingEnd ℂ) (ifftshift (n / 2 + 1) H (n / 2)) = ifftshift (n / 2 + 1) H (n / 2) := by
    show (starRingEnd ℂ) (H ((n / 2 + (n / 2 + 1) / 2) % (n / 2 + 1))) = H ((n / 2 + (n / 2 + 1) / 2) % (n / 2 + 1))
    have : n / 2 + (n / 2 + 1) / 2 = ((n / 2 + 1) / 2 - 1) + (n / 2 + 1) := by omega
    rw [this, Nat.add_mod_right, Nat.mod_eq_of_lt (by omega)]
    exact hnyq
  rw [map_mul, map_mul, Complex.conj_ofReal, map_natCast,
    idft_real_of_herm hζ hn _ (hermComplete_herm heven _ h0 hN)]
  rfl

/-- `rft(irft(H, 1/(nδ)), δ) = H` on the `n/2+1` bins (even n) -/
theorem rft_irft (hζ : IsPrimitiveRoot ζ n) (hn : 0 < n) (heven : n % 2 = 0) (δ δf : ℝ) (hδ : (n:ℝ) * δ * δf = 1)
    (H : ℕ → ℂ) {k : ℕ} (hk : k < n / 2 + 1) :
    rft n (fun m => ζ ^ m) (δ:ℂ)
      (irft (n / 2 + 1) (fun m => ζ⁻¹ ^ m) (1 / (n:ℂ)) (starRingEnd ℂ) (((2 * (n / 2 + 1 - 1) : ℕ)) : ℂ) (δf:ℂ) H) k = H k := by
  have h2 : 2 * (n / 2 + 1 - 1) = n := by omega
  have hδ' : ((n:ℂ)) * (δ:ℂ) * (δf:ℂ) = 1 := by exact_mod_cast hδ
  have hfull : ∀ j < n, fftshift n
        (irft (n / 2 + 1) (fun m => ζ⁻¹ ^ m) (1 / (n:ℂ)) (starRingEnd ℂ) (((2 * (n / 2 + 1 - 1) : ℕ)) : ℂ) (δf:ℂ) H) j
      = idft n (fun m => ζ⁻¹ ^ m) (1 / (n:ℂ)) (hermComplete n (starRingEnd ℂ) (ifftshift (n / 2 + 1) H)) j
          * ((n:ℂ) * (δf:ℂ)) := by
    intro j hj
    unfold fftshift irft
    rw [h2]
    unfold irfft
    show idft n (fun m => ζ⁻¹ ^ m) (1 / (n:ℂ)) (hermComplete n (starRingEnd ℂ) (ifftshift (n / 2 + 1) H))
      (((j + (n - n / 2)) % n + n / 2) % n) * (n:ℂ) * (δf:ℂ) = _
    rw [shift_cancel' _ _ hj]; ring
  have hq : (k + (n / 2 + 1 - (n / 2 + 1) / 2)) % (n / 2 + 1) < n / 2 + 1 := Nat.mod_lt _ (by omega)
  unfold rft rfft
  show dft n (fun m => ζ ^ m) (fftshift n
      (irft (n / 2 + 1) (fun m => ζ⁻¹ ^ m) (1 / (n:ℂ)) (starRingEnd ℂ) (((2 * (n / 2 + 1 - 1) : ℕ)) : ℂ) (δf:ℂ) H))
    ((k + (n / 2 + 1 - (n / 2 + 1) / 2)) % (n / 2 + 1)) * (δ:ℂ) = H k
  rw [dft_congr' _ hfull, dft_mul_const', dft_idft hζ hn _ (by omega)]
  unfold hermComplete
  rw [if_pos (by omega)]
  show H (((k + (n / 2 + 1 - (n / 2 + 1) / 2)) % (n / 2 + 1) + (n / 2 + 1) / 2) % (n / 2 + 1)) * _ * _ = _
  rw [shift_cancel' _ _ hk]
  linear_combination (H k) * hδ'

/-- `rft2(irft2(H, 1/(nδ)), δ) = H` on the `n × (n/2+1)` bins (even n) -/
theorem rft2_irft2 (hζ : IsPrimitiveRoot ζ n) (hn : 0 < n) (heven : n % 2 = 0) (δ δf : ℝ) (hδ : (n:ℝ) * δ * δf = 1)
    (H : ℕ → ℕ → ℂ) {a k : ℕ} (ha : a < n) (hk : k < n / 2 + 1) :
    rft2 n (fun m => ζ ^ m) (δ:ℂ)
      (irft2 n (n / 2 + 1) (fun m => ζ⁻¹ ^ m) (1 / (n:ℂ)) (fun m => ζ⁻¹ ^ m) (1 / (n:ℂ)) (starRingEnd ℂ) (n:ℂ) (δf:ℂ) H) a k
      = H a k := by
  have hδ' : ((n:ℂ)) * (δ:ℂ) * (δf:ℂ) = 1 := by exact_mod_cast hδ
  have h2 : ((2 * (n / 2 + 1 - 1) : ℕ) : ℂ) = (n:ℂ) := by
    have : 2 * (n / 2 + 1 - 1) = n := by omega
    rw [this]
  unfold rft2 irft2
  have inner : (fun a' => rft n (fun m => ζ ^ m) (δ:ℂ)
        (fun b' => irft (n / 2 + 1) (fun m => ζ⁻¹ ^ m) (1 / (n:ℂ)) (starRingEnd ℂ) (n:ℂ) (δf:ℂ)
          (fun k' => ift_pinned n (fun m => ζ⁻¹ ^ m) (1 / (n:ℂ)) (n:ℂ) (δf:ℂ) (fun a'' => H a'' k') a') b') k)
      = ift_pinned n (fun m => ζ⁻¹ ^ m) (1 / (n:ℂ)) (n:ℂ) (δf:ℂ) (fun a'' => H a'' k) := by
    funext a'
    have := rft_irft hζ hn heven δ δf hδ
      (fun k' => ift_pinned n (fun m => ζ⁻¹ ^ m) (1 / (n:ℂ)) (n:ℂ) (δf:ℂ) (fun a'' => H a'' k') a') hk
    rw [h2] at this
    exact this
  rw [inner]
  exact ft_pinned_ift_pinned hζ hn (δ:ℂ) (δf:ℂ) hδ' (fun a'' => H a'' k) ha

/-- non-vacuity of the hypothesis set of the real-variant theorems (`n = 2`, `ζ = e^{-2πi/2}`, `δ = 1`, `δ_f = 1/2`, `x ≡ 1`),
and the layout for `n = 6`: the 4 bins come out as `[2, Nyquist, DC, 1]` -/
example : ∃ (n : ℕ) (ζ : ℂ) (δ δf : ℝ) (x : ℕ → ℂ), IsPrimitiveRoot ζ n ∧ 0 < n ∧ n % 2 = 0 ∧ (n:ℝ) * δ * δf = 1
    ∧ ∀ j, (starRingEnd ℂ) (x j) = x j :=
  ⟨2, _, 1, 1 / 2, fun _ => 1, fft_root_primitive (by norm_num), by norm_num, by norm_num, by norm_num,
    fun _ => map_one _⟩
example : dcPos 6 = 2 ∧ nyqPos 6 = 1 ∧ dcPos 2 = 1 ∧ nyqPos 2 = 0 ∧ dcPos 8 = 2 ∧ nyqPos 8 = 1 := by decide

end complex

end AoVerif.Props.C09
