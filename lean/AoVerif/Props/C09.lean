/-
C09 — scaled Fourier transforms are exact inverse pairs obeying Parseval.
Theorems are about `Model/Fourier.lean` (hand-written mirror of `aotools/fouriertransform.py`, tied to the code by the
correspondence driver), for EVERY length n ≥ 1 (odd and even), over any field `K` containing a primitive n-th root
of unity `ζ` (for `K = ℂ`, `ζ = e^{-2πi/n}`), the twiddle table of the DFT kernel being `m ↦ ζ^m`.
-/
import Mathlib.Data.Complex.Basic
import Mathlib.Analysis.SpecialFunctions.Complex.Circle
import Mathlib.RingTheory.RootsOfUnity.Complex
import AoVerif.Lemmas.DFT
import AoVerif.Lemmas.DFTReal

namespace AoVerif.Props.C09
open Finset AoVerif AoVerif.Fourier AoVerif.DFT

section field
variable {K : Type} [Field K] {n : ℕ} {ζ : K}

/-- `ft` is the centred DFT: the origin of the spatial and of the frequency grid is the centre sample `n/2`
(`X_k = δ Σ_j x_j ζ^{(j-c)(k-c)}`), for odd and even n. -/
theorem ft_centred (hζ : IsPrimitiveRoot ζ n) (hn : 0 < n) (δ : K) (x : ℕ → K) (k : ℕ) :
    ft n (fun m => ζ ^ m) δ x k
      = δ * ∑ j ∈ range n, x j * ζ ^ (((j:ℤ) - ((n / 2 : ℕ) : ℤ)) * ((k:ℤ) - ((n / 2 : ℕ) : ℤ))) := by
  rw [DFT.ft_centred hζ hn, mul_comm]; rfl

/-- `ift ∘ ft = id` when `δ_f = 1/(n δ)`, every n ≥ 1 -/
theorem ift_ft (hζ : IsPrimitiveRoot ζ n) (hn : 0 < n) (δ δf : K) (hδ : (n:K) * δ * δf = 1) (x : ℕ → K)
    {j : ℕ} (hj : j < n) :
    ift n (fun m => ζ⁻¹ ^ m) (1 / (n:K)) (n:K) δf (ft n (fun m => ζ ^ m) δ x) j = x j := by
  have hnK := natCast_ne_zero hζ hn
  rw [ift_centred hζ hn]
  have : cdft n ζ⁻¹ (ft n (fun m => ζ ^ m) δ x) j = cdft n ζ⁻¹ (fun m => cdft n ζ x m * δ) j :=
    cdft_congr (fun m _ => DFT.ft_centred hζ hn δ x m) j
  rw [this, cdft_mul_const, cdft_inv hζ hn x hj]
  field_simp
  linear_combination (x j) * hδ

/-- `ft ∘ ift = id` -/
theorem ft_ift (hζ : IsPrimitiveRoot ζ n) (hn : 0 < n) (δ δf : K) (hδ : (n:K) * δ * δf = 1) (X : ℕ → K)
    {k : ℕ} (hk : k < n) :
    ft n (fun m => ζ ^ m) δ (ift n (fun m => ζ⁻¹ ^ m) (1 / (n:K)) (n:K) δf X) k = X k := by
  have hnK := natCast_ne_zero hζ hn
  rw [DFT.ft_centred hζ hn]
  have : cdft n ζ (ift n (fun m => ζ⁻¹ ^ m) (1 / (n:K)) (n:K) δf X) k
      = cdft n ζ (fun j => (1 / (n:K)) * cdft n ζ⁻¹ X j * (n:K) * δf) k :=
    cdft_congr (fun j _ => ift_centred hζ hn _ _ _ X j) k
  have h2 : cdft n ζ (fun j => (1 / (n:K)) * cdft n ζ⁻¹ X j * (n:K) * δf) k
      = cdft n ζ (fun j => cdft n ζ⁻¹ X j * δf) k :=
    cdft_congr (fun j _ => by field_simp) k
  have h3 := cdft_inv (hζ.inv) hn X hk
  rw [inv_inv] at h3
  rw [this, h2, cdft_mul_const, h3]
  linear_combination (X k) * hδ

/-- linearity -/
theorem ft_linear (hζ : IsPrimitiveRoot ζ n) (hn : 0 < n) (δ a b : K) (x y : ℕ → K) (k : ℕ) :
    ft n (fun m => ζ ^ m) δ (fun j => a * x j + b * y j) k
      = a * ft n (fun m => ζ ^ m) δ x k + b * ft n (fun m => ζ ^ m) δ y k := by
  simp only [DFT.ft_centred hζ hn]
  rw [cdft_add, cdft_smul, cdft_smul]; ring

theorem ift_linear (hζ : IsPrimitiveRoot ζ n) (hn : 0 < n) (ninv nC δf a b : K) (x y : ℕ → K) (k : ℕ) :
    ift n (fun m => ζ⁻¹ ^ m) ninv nC δf (fun j => a * x j + b * y j) k
      = a * ift n (fun m => ζ⁻¹ ^ m) ninv nC δf x k + b * ift n (fun m => ζ⁻¹ ^ m) ninv nC δf y k := by
  simp only [ift_centred hζ hn]
  rw [cdft_add, cdft_smul, cdft_smul]; ring

/-- shift theorem: a circular shift by `s` samples multiplies the spectrum by `ζ^{s (k - c)}` -/
theorem shift_theorem (hζ : IsPrimitiveRoot ζ n) (hn : 0 < n) (δ : K) (x : ℕ → K) {s : ℕ} (hs : s ≤ n) (k : ℕ) :
    ft n (fun m => ζ ^ m) δ (fun m => x ((m + (n - s)) % n)) k
      = ζ ^ ((s:ℤ) * ((k:ℤ) - ((n / 2 : ℕ) : ℤ))) * ft n (fun m => ζ ^ m) δ x k := by
  simp only [DFT.ft_centred hζ hn]
  rw [cdft_shift hζ hn x hs]; ring

/-- bilinear Parseval/Plancherel over any field: `δ_f Σ_k X_k Ỹ_k = δ Σ_j x_j y_j` with `Ỹ` the transform of `y`
against the inverse root (for `K = ℂ`, `y = conj x` this is Parseval, see `parseval`). -/
theorem plancherel (hζ : IsPrimitiveRoot ζ n) (hn : 0 < n) (δ δf : K) (hδ : (n:K) * δ * δf = 1) (x y : ℕ → K) :
    (∑ k ∈ range n, ft n (fun m => ζ ^ m) δ x k * ft n (fun m => ζ⁻¹ ^ m) δ y k) * δf
      = (∑ j ∈ range n, x j * y j) * δ := by
  simp only [DFT.ft_centred hζ hn, DFT.ft_centred hζ.inv hn]
  have : ∀ k ∈ range n, cdft n ζ x k * δ * (cdft n ζ⁻¹ y k * δ) = (cdft n ζ x k * cdft n ζ⁻¹ y k) * (δ * δ) :=
    fun k _ => by ring
  rw [sum_congr rfl this, ← sum_mul, DFT.plancherel hζ hn]
  linear_combination ((∑ m ∈ range n, x m * y m) * δ) * hδ

/-! ### two dimensions: `ift2 ∘ ft2 = id` (separability) -/

theorem ft_congr (δ : K) (w : ℕ → K) {x y : ℕ → K} (h : ∀ m < n, x m = y m) (k : ℕ) :
    ft n w δ x k = ft n w δ y k := by
  unfold ft fftshift dft ifftshift
  rcases Nat.eq_zero_or_pos n with h0 | hn
  · subst h0; rfl
  · simp only [sumTo_eq_sum]
    congr 1
    apply sum_congr rfl; intro j _
    rw [h _ (Nat.mod_lt _ hn)]

theorem ift_congr (ninv nC δf : K) (w : ℕ → K) {x y : ℕ → K} (h : ∀ m < n, x m = y m) (k : ℕ) :
    ift n w ninv nC δf x k = ift n w ninv nC δf y k := by
  unfold ift fftshift idft ifftshift
  rcases Nat.eq_zero_or_pos n with h0 | hn
  · subst h0; rfl
  · simp only [sumTo_eq_sum]
    congr 3
    apply sum_congr rfl; intro j _
    rw [h _ (Nat.mod_lt _ hn)]

theorem ift2_ft2 (hζ : IsPrimitiveRoot ζ n) (hn : 0 < n) (δ δf : K) (hδ : (n:K) * δ * δf = 1) (x : ℕ → ℕ → K)
    {a b : ℕ} (ha : a < n) (hb : b < n) :
    ift2 n (fun m => ζ⁻¹ ^ m) (1 / (n:K)) (n:K) δf (ft2 n (fun m => ζ ^ m) δ x) a b = x a b := by
  unfold ift2 ft2
  -- inner inverse along the last axis undoes the outer forward transform along the first axis … after swapping:
  have inner : ∀ a' < n, ift n (fun m => ζ⁻¹ ^ m) (1 / (n:K)) (n:K) δf
      (fun b' => ft n (fun m => ζ ^ m) δ (fun a'' => ft n (fun m => ζ ^ m) δ (fun b'' => x a'' b'') b') a') b
      = ft n (fun m => ζ ^ m) δ (fun a'' => x a'' b) a' := by
    intro a' _
    -- the transform along axis a is a linear combination over a'' of transforms along b: commute and invert
    have hlin : ∀ b', ft n (fun m => ζ ^ m) δ (fun a'' => ft n (fun m => ζ ^ m) δ (fun b'' => x a'' b'') b') a'
        = ft n (fun m => ζ ^ m) δ (fun b'' => ft n (fun m => ζ ^ m) δ (fun a'' => x a'' b'') a') b' := by
      intro b'
      simp only [DFT.ft_centred hζ hn]
      unfold cdft
      simp only [sum_mul, mul_sum]
      rw [sum_comm]
      apply sum_congr rfl; intro i _; apply sum_congr rfl; intro l _; ring
    simp only [hlin]
    exact ift_ft hζ hn δ δf hδ (fun b'' => ft n (fun m => ζ ^ m) δ (fun a'' => x a'' b'') a') hb
  rw [ift_congr _ _ _ _ inner a]
  exact ift_ft hζ hn δ δf hδ (fun a'' => x a'' b) ha

end field

/-! ### complex numbers: Parseval proper, with `ζ = e^{-2πi/n}` -/

section complex
open Complex

theorem conj_root {n : ℕ} {ζ : ℂ} (hζ : IsPrimitiveRoot ζ n) (hn : 0 < n) : (starRingEnd ℂ) ζ = ζ⁻¹ := by
  have h1 : ‖ζ‖ = 1 := hζ.norm'_eq_one (by omega)
  exact (Complex.inv_eq_conj h1).symm

/-- Parseval: `Σ_j |x_j|² δ = Σ_k |X_k|² δ_f` -/
theorem parseval {n : ℕ} {ζ : ℂ} (hζ : IsPrimitiveRoot ζ n) (hn : 0 < n) (δ δf : ℝ) (hδ : (n:ℝ) * δ * δf = 1)
    (x : ℕ → ℂ) :
    (∑ k ∈ range n, Complex.normSq (ft n (fun m => ζ ^ m) (δ:ℂ) x k)) * δf
      = (∑ j ∈ range n, Complex.normSq (x j)) * δ := by
  have hδ' : ((n:ℂ)) * (δ:ℂ) * (δf:ℂ) = 1 := by exact_mod_cast hδ
  have hc := conj_root hζ hn
  have key := plancherel hζ hn (δ:ℂ) (δf:ℂ) hδ' x (fun j => (starRingEnd ℂ) (x j))
  -- the transform of conj x against ζ⁻¹ is the conjugate of the transform of x
  have hconj : ∀ k, ft n (fun m => ζ⁻¹ ^ m) (δ:ℂ) (fun j => (starRingEnd ℂ) (x j)) k
      = (starRingEnd ℂ) (ft n (fun m => ζ ^ m) (δ:ℂ) x k) := by
    intro k
    rw [DFT.ft_centred hζ.inv hn, DFT.ft_centred hζ hn]
    unfold cdft
    rw [map_mul, map_sum, Complex.conj_ofReal]
    congr 1
    apply sum_congr rfl; intro m _
    rw [map_mul, map_zpow₀, hc]
  simp only [hconj, Complex.mul_conj] at key
  have := congrArg Complex.re key
  simpa [← Complex.ofReal_sum, ← Complex.ofReal_mul] using this

/-- the concrete root used by the FFT kernel, `ζ = e^{-2πi/n}`, is a primitive n-th root: the theorems are not vacuous -/
theorem fft_root_primitive {n : ℕ} (hn : 0 < n) :
    IsPrimitiveRoot (Complex.exp (2 * Real.pi * Complex.I / n))⁻¹ n :=
  (Complex.isPrimitiveRoot_exp n (by omega)).inv

/-! ### real-input variants -/

variable {n : ℕ} {ζ : ℂ}

/-- **real variants are an inverse pair for even lengths**: `irft(rft(x, δ), 1/(nδ)) = x` for real `x` -/
theorem irft_rft (hζ : IsPrimitiveRoot ζ n) (hn : 0 < n) (heven : n % 2 = 0) (δ δf : ℝ) (hδ : (n:ℝ) * δ * δf = 1)
    (x : ℕ → ℂ) (hx : ∀ j, (starRingEnd ℂ) (x j) = x j) {j : ℕ} (hj : j < n) :
    irft (n / 2 + 1) (fun m => ζ⁻¹ ^ m) (1 / (n:ℂ)) (starRingEnd ℂ) (((2 * (n / 2 + 1 - 1) : ℕ)) : ℂ) (δf:ℂ)
      (rft n (fun m => ζ ^ m) (δ:ℂ) x) j = x j := by
  have h2 : 2 * (n / 2 + 1 - 1) = n := by omega
  have hnC : (n:ℂ) ≠ 0 := natCast_ne_zero hζ hn
  unfold irft
  rw [h2]
  unfold ifftshift irfft
  set u : ℕ → ℂ := fftshift n x with hu
  have hureal : ∀ j, (starRingEnd ℂ) (u j) = u j := fun j => hx _
  -- the Hermitian completion of the (un-shifted) half-spectrum is the full spectrum of `u`, times δ
  have hfull : ∀ k < n, hermComplete n (starRingEnd ℂ)
      (fun k => rft n (fun m => ζ ^ m) (δ:ℂ) x ((k + (n / 2 + 1) / 2) % (n / 2 + 1))) k
      = dft n (fun m => ζ ^ m) u k * (δ:ℂ) := by
    intro k hk
    have hG : ∀ q, q < n / 2 + 1 → rft n (fun m => ζ ^ m) (δ:ℂ) x ((q + (n / 2 + 1) / 2) % (n / 2 + 1))
        = dft n (fun m => ζ ^ m) u q * (δ:ℂ) := by
      intro q hq
      unfold rft rfft
      show dft n (fun m => ζ ^ m) (fftshift n x) (((q + (n / 2 + 1) / 2) % (n / 2 + 1) + (n / 2 + 1 - (n / 2 + 1) / 2)) % (n / 2 + 1)) * (δ:ℂ) = _
      rw [shift_cancel _ _ hq]
    unfold hermComplete
    split_ifs with hle
    · exact hG k (by omega)
    · show (starRingEnd ℂ) (rft n (fun m => ζ ^ m) (δ:ℂ) x ((n - k + (n / 2 + 1) / 2) % (n / 2 + 1))) = _
      rw [hG (n - k) (by omega), map_mul, Complex.conj_ofReal, dft_herm hζ hn u hureal (by omega)]
  rw [idft_congr' _ _ hfull, idft_mul_const, idft_dft hζ hn u (Nat.mod_lt _ hn)]
  simp only [hu, fftshift]
  rw [shift_cancel _ _ hj]
  have : ((n:ℂ)) * (δ:ℂ) * (δf:ℂ) = 1 := by exact_mod_cast hδ
  linear_combination (x j) * this

end complex

end AoVerif.Props.C09
