/-
C12 — Zernike indexing, modes, normalisations and gradient matrices.
Theorems about the hand-written model `Model/Zernike.lean` (tied to the code by `Drive/C12.lean` + `harness/props/c12.py`).
-/
import Mathlib.Data.Nat.Sqrt
import Mathlib.Tactic.Ring
import Mathlib.Tactic.Linarith
import Mathlib.Algebra.Order.Floor.Ring
import Mathlib.Tactic.LinearCombination
import Mathlib.Logic.Function.Basic
import Mathlib.Algebra.Order.Ring.Rat
import Mathlib.Analysis.SpecialFunctions.Integrals.Basic
import Mathlib.Algebra.Order.BigOperators.Group.List
import Mathlib.Data.Rat.Cast.Order
import Mathlib.Data.Rat.Cast.Lemmas
import AoVerif.Lemmas.RealScalar
import AoVerif.Lemmas.ZernikeRadial
import AoVerif.Lemmas.ZernikePoly
import AoVerif.Model.Zernike

namespace AoVerif.Props.C12
open AoVerif AoVerif.Model.Zernike

/-! ### Noll index: all `j ≥ 1` (unbounded) -/

/-- the radial order computed by the code is the unique `n` with `n(n+1)/2 < j ≤ (n+1)(n+2)/2` -/
theorem nollN_spec (j : ℕ) :
    nollN j * (nollN j + 1) ≤ 2 * (j - 1) ∧ 2 * (j - 1) < (nollN j + 1) * (nollN j + 2) := by
  unfold nollN
  set x := 8 * (j - 1) + 1 with hx
  set s := Nat.sqrt x with hs
  have h1 : s ^ 2 ≤ x := Nat.sqrt_le' x
  have h2 : x < (s + 1) ^ 2 := Nat.lt_succ_sqrt' x
  have hs1 : 1 ≤ s := by
    rw [hs, Nat.le_sqrt']; omega
  set n := (s - 1) / 2 with hn
  have ha : 2 * n + 1 ≤ s := by omega
  have hb : s ≤ 2 * n + 2 := by omega
  constructor
  · have : (2 * n + 1) ^ 2 ≤ x := le_trans (Nat.pow_le_pow_left ha 2) h1
    nlinarith
  · have : x < (2 * n + 3) ^ 2 := lt_of_lt_of_le h2 (Nat.pow_le_pow_left (by omega) 2)
    nlinarith


/-- … and that `n` is unique -/
theorem nollN_unique (j n : ℕ) (h1 : n * (n + 1) ≤ 2 * (j - 1)) (h2 : 2 * (j - 1) < (n + 1) * (n + 2)) :
    nollN j = n := by
  obtain ⟨g1, g2⟩ := nollN_spec j
  set k := nollN j
  rcases Nat.lt_trichotomy k n with h | h | h
  · exfalso
    have : (k + 1) * (k + 2) ≤ n * (n + 1) := Nat.mul_le_mul (by omega) (by omega)
    omega
  · exact h
  · exfalso
    have : (n + 1) * (n + 2) ≤ k * (k + 1) := Nat.mul_le_mul (by omega) (by omega)
    omega

/-- `n(n+1)` is even, so `2 * (n(n+1)/2) = n(n+1)` -/
theorem two_mul_tri (n : ℕ) : 2 * (n * (n + 1) / 2) = n * (n + 1) := by
  have : n * (n + 1) % 2 = 0 := by
    rcases Nat.even_or_odd n with ⟨a, ha⟩ | ⟨a, ha⟩
    · subst ha; rw [show (a + a) * (a + a + 1) = 2 * (a * (a + a + 1)) by ring]; simp
    · subst ha; rw [show (2 * a + 1) * (2 * a + 1 + 1) = 2 * ((2 * a + 1) * (a + 1)) by ring]; simp
  omega

/-- position of `j` inside its radial block: `1 ≤ p = j - n(n+1)/2 ≤ n + 1` -/
theorem noll_block (j : ℕ) (hj : 1 ≤ j) :
    nollN j * (nollN j + 1) / 2 + 1 ≤ j ∧ j ≤ nollN j * (nollN j + 1) / 2 + nollN j + 1 := by
  obtain ⟨g1, g2⟩ := nollN_spec j
  have t := two_mul_tri (nollN j)
  set n := nollN j
  set T := n * (n + 1) / 2
  have e : (n + 1) * (n + 2) = n * (n + 1) + 2 * n + 2 := by ring
  constructor <;> omega

/-- the pair returned for every `j ≥ 1` lies in `{|m| ≤ n, n − |m| even}` -/
theorem zernIndex_valid (j : ℕ) (hj : 1 ≤ j) :
    (zernIndex j).2.natAbs ≤ (zernIndex j).1 ∧ ((zernIndex j).1 - (zernIndex j).2.natAbs) % 2 = 0 := by
  obtain ⟨b1, b2⟩ := noll_block j hj
  have habs : (zernIndex j).2.natAbs = nollAbsM j := by
    unfold zernIndex; simp only; split_ifs with h1 h2 <;> simp [h1]
  rw [habs]
  show nollAbsM j ≤ nollN j ∧ (nollN j - nollAbsM j) % 2 = 0
  unfold nollAbsM
  simp only
  set n := nollN j
  set T := n * (n + 1) / 2
  omega

/-- explicit inverse, one direction: `nollOf (zernIndex j) = j` for every `j ≥ 1` -/
theorem nollOf_zernIndex (j : ℕ) (hj : 1 ≤ j) : nollOf (zernIndex j).1 (zernIndex j).2 = j := by
  obtain ⟨b1, b2⟩ := noll_block j hj
  unfold nollOf zernIndex nollAbsM
  simp only
  set n := nollN j
  set T := n * (n + 1) / 2
  split_ifs <;> simp_all <;> omega


/-- position of `nollOf n m` in block `n` -/
theorem nollOf_block (n : ℕ) (m : ℤ) (hm : m.natAbs ≤ n) :
    n * (n + 1) / 2 + 1 ≤ nollOf n m ∧ nollOf n m ≤ n * (n + 1) / 2 + n + 1 := by
  unfold nollOf
  simp only
  set T := n * (n + 1) / 2
  split_ifs <;> omega

theorem nollN_nollOf (n : ℕ) (m : ℤ) (hm : m.natAbs ≤ n) : nollN (nollOf n m) = n := by
  obtain ⟨b1, b2⟩ := nollOf_block n m hm
  have t := two_mul_tri n
  have e : (n + 1) * (n + 2) = n * (n + 1) + 2 * n + 2 := by ring
  apply nollN_unique <;> omega

/-- explicit inverse, other direction: every valid `(n, m)` is hit, by `nollOf n m ≥ 1` -/
theorem zernIndex_nollOf (n : ℕ) (m : ℤ) (hm : m.natAbs ≤ n) (hpar : (n - m.natAbs) % 2 = 0) :
    1 ≤ nollOf n m ∧ zernIndex (nollOf n m) = (n, m) := by
  obtain ⟨b1, b2⟩ := nollOf_block n m hm
  refine ⟨by omega, ?_⟩
  have hn := nollN_nollOf n m hm
  unfold zernIndex nollAbsM
  simp only [hn]
  unfold nollOf at b1 b2 ⊢
  simp only at b1 b2 ⊢
  set T := n * (n + 1) / 2
  split_ifs at b1 b2 ⊢ <;> simp_all <;> omega

/-- the valid index pairs -/
def Valid (p : ℕ × ℤ) : Prop := p.2.natAbs ≤ p.1 ∧ (p.1 - p.2.natAbs) % 2 = 0

/-- **Noll bijection**: `j ↦ zernIndex j` is a bijection from `{j | 1 ≤ j}` onto `{(n, m) | |m| ≤ n, n − |m| even}` -/
theorem noll_bijective :
    Function.Bijective (fun j : {j : ℕ // 1 ≤ j} => (⟨zernIndex j.1, zernIndex_valid j.1 j.2⟩ : {p : ℕ × ℤ // Valid p})) := by
  constructor
  · intro a b h
    have h' : zernIndex a.1 = zernIndex b.1 := congrArg Subtype.val h
    apply Subtype.ext
    rw [← nollOf_zernIndex a.1 a.2, ← nollOf_zernIndex b.1 b.2, h']
  · rintro ⟨⟨n, m⟩, hv⟩
    obtain ⟨h1, h2⟩ := zernIndex_nollOf n m hv.1 hv.2
    exact ⟨⟨nollOf n m, h1⟩, Subtype.ext h2⟩

/-- radial orders never decrease along the Noll sequence -/
theorem nollN_mono (j j' : ℕ) (hj : 1 ≤ j) (h : j ≤ j') : nollN j ≤ nollN j' := by
  obtain ⟨a1, a2⟩ := nollN_spec j
  obtain ⟨c1, c2⟩ := nollN_spec j'
  by_contra hlt
  have : (nollN j' + 1) * (nollN j' + 2) ≤ nollN j * (nollN j + 1) := Nat.mul_le_mul (by omega) (by omega)
  omega

/-- **ordering**: the Noll sequence is sorted by `n`, then by `|m|` -/
theorem noll_ordered (j j' : ℕ) (hj : 1 ≤ j) (h : j < j') :
    (zernIndex j).1 ≤ (zernIndex j').1 ∧
      ((zernIndex j).1 = (zernIndex j').1 → (zernIndex j).2.natAbs ≤ (zernIndex j').2.natAbs) := by
  refine ⟨nollN_mono j j' hj h.le, ?_⟩
  intro hn
  have habs : ∀ i, (zernIndex i).2.natAbs = nollAbsM i := by
    intro i; unfold zernIndex; simp only; split_ifs with h1 h2 <;> simp [h1]
  rw [habs, habs]
  have hn' : nollN j = nollN j' := hn
  obtain ⟨b1, b2⟩ := noll_block j hj
  obtain ⟨c1, c2⟩ := noll_block j' (by omega)
  unfold nollAbsM
  simp only
  rw [← hn'] at c1 c2 ⊢
  set n := nollN j
  set T := n * (n + 1) / 2
  omega

/-- **sign / parity rule**: even `j` ↔ cosine (`m > 0`), odd `j` ↔ sine (`m < 0`), for every `m ≠ 0` -/
theorem noll_sign (j : ℕ) :
    (0 < (zernIndex j).2 → j % 2 = 0) ∧ ((zernIndex j).2 < 0 → j % 2 = 1) ∧
      ((zernIndex j).2 ≠ 0 → (j % 2 = 0 → 0 < (zernIndex j).2) ∧ (j % 2 = 1 → (zernIndex j).2 < 0)) := by
  unfold zernIndex
  simp only
  split_ifs <;> simp_all <;> omega

/-- `m = 0` occurs exactly once per even radial order, at the first index of its block -/
theorem noll_m_zero (j : ℕ) (hj : 1 ≤ j) :
    (zernIndex j).2 = 0 ↔ (nollN j % 2 = 0 ∧ j = nollN j * (nollN j + 1) / 2 + 1) := by
  obtain ⟨b1, b2⟩ := noll_block j hj
  unfold zernIndex nollAbsM
  simp only
  set n := nollN j
  set T := n * (n + 1) / 2
  split_ifs <;> simp_all <;> omega

/-- non-vacuity: index 8 is the cosine coma `(3, 1)`, and `nollOf` recovers it -/
example : zernIndex 8 = (3, 1) ∧ nollOf 3 1 = 8 ∧ zernIndex 7 = (3, -1) ∧ Valid (zernIndex 8) := by
  unfold Valid; decide +kernel


/-! ### the binary64 formula of the code computes the same radial order -/

/-- what is used of IEEE-754 binary64 round-to-nearest: monotone, exact on the integers up to 2⁵³, relative error ≤ 2⁻⁵³ -/
structure Binary64Rounding (rnd : ℝ → ℝ) : Prop where
  mono : Monotone rnd
  exact_nat : ∀ k : ℕ, k ≤ 2 ^ 53 → rnd k = k
  rel : ∀ t : ℝ, 0 ≤ t → |rnd t - t| ≤ t / 2 ^ 53

theorem float_sqrt_floor (rnd : ℝ → ℝ) (h : Binary64Rounding rnd) (x : ℕ) (hx : x < 2 ^ 52) :
    (Nat.sqrt x : ℝ) ≤ rnd (Real.sqrt x) ∧ rnd (Real.sqrt x) < (Nat.sqrt x : ℝ) + 1 := by
  set s := Nat.sqrt x with hs
  have h1 : s ^ 2 ≤ x := Nat.sqrt_le' x
  have h2 : x < (s + 1) ^ 2 := Nat.lt_succ_sqrt' x
  have hs26 : s < 2 ^ 26 := by
    by_contra hc
    have : (2 ^ 26) ^ 2 ≤ s ^ 2 := Nat.pow_le_pow_left (by omega) 2
    omega
  have h1r : ((s : ℝ)) ^ 2 ≤ x := by exact_mod_cast h1
  have h2r : (x : ℝ) ≤ ((s : ℝ) + 1) ^ 2 - 1 := by
    have : x + 1 ≤ (s + 1) ^ 2 := h2
    have : ((x : ℝ)) + 1 ≤ ((s : ℝ) + 1) ^ 2 := by exact_mod_cast this
    linarith
  have hs0 : (0 : ℝ) ≤ s := Nat.cast_nonneg s
  set t := Real.sqrt x with ht
  have ht0 : 0 ≤ t := Real.sqrt_nonneg _
  have htsq : t ^ 2 = x := Real.sq_sqrt (Nat.cast_nonneg x)
  constructor
  · have : (s : ℝ) ≤ t := by
      rw [ht]; apply Real.le_sqrt_of_sq_le; exact h1r
    have := h.mono this
    rwa [h.exact_nat s (by omega)] at this
  · have hrel := h.rel t ht0
    have hup : rnd t ≤ t + t / 2 ^ 53 := by
      have := (abs_le.mp hrel).2; linarith
    have hs1 : (0 : ℝ) < (s : ℝ) + 1 := by positivity
    set D : ℝ := (s : ℝ) + 1 with hD
    set δ : ℝ := 1 / (2 * D) with hδdef
    have hδD : δ * (2 * D) = 1 := by rw [hδdef]; field_simp
    have hδpos : 0 < δ := by rw [hδdef]; positivity
    have hD1 : 1 ≤ D := by rw [hD]; linarith
    have hδle : δ ≤ D := by nlinarith
    -- t ≤ D - δ
    have hδ : t ≤ D - δ := by
      rw [← pow_le_pow_iff_left₀ ht0 (by linarith) two_ne_zero, htsq]
      nlinarith
    -- D/2^53 ≤ δ  since D² ≤ 2^52
    have hD26 : D ≤ 2 ^ 26 := by
      rw [hD]
      have : s + 1 ≤ 2 ^ 26 := by omega
      exact_mod_cast this
    have hε : D / 2 ^ 53 ≤ δ := by
      rw [div_le_iff₀ (by positivity)]
      have : D * D ≤ 2 ^ 26 * 2 ^ 26 := mul_le_mul hD26 hD26 (by linarith) (by positivity)
      nlinarith
    have htD : t < D := by linarith
    have : t / 2 ^ 53 < D / 2 ^ 53 := div_lt_div_of_pos_right htD (by positivity)
    linarith

/-- **the code's float formula agrees with the `Nat.sqrt` model for every `1 ≤ j < 2⁴⁹`**:
`int((-1. + numpy.sqrt(8*(j-1)+1))/2.)` (truncation = floor, the value is ≥ 0) is `nollN j`, for ANY rounding function with the
three IEEE properties above.  (`8*(j-1)+1 < 2⁵²` is an exact binary64 integer; `-1.+s` and `/2.` are exact for a binary64 `s ≥ 1`;
the remaining steps `p`, `k`, `m` are integer arithmetic below 2⁵³, exact in binary64.) -/
theorem zernIndex_float_agrees (rnd : ℝ → ℝ) (h : Binary64Rounding rnd) (j : ℕ) (hj1 : 1 ≤ j) (hj : j < 2 ^ 49) :
    ⌊(-1 + rnd (Real.sqrt ((8 * (j - 1) + 1 : ℕ) : ℝ))) / 2⌋ = (nollN j : ℤ) := by
  have hx : 8 * (j - 1) + 1 < 2 ^ 52 := by omega
  obtain ⟨a1, a2⟩ := float_sqrt_floor rnd h (8 * (j - 1) + 1) hx
  unfold nollN
  set s := Nat.sqrt (8 * (j - 1) + 1) with hs
  have hs1 : 1 ≤ s := by rw [hs, Nat.le_sqrt']; omega
  set n := (s - 1) / 2 with hn
  have ha : 2 * n + 1 ≤ s := by omega
  have hb : s ≤ 2 * n + 2 := by omega
  have har : (2 * (n : ℝ) + 1) ≤ s := by exact_mod_cast ha
  have hbr : (s : ℝ) ≤ 2 * (n : ℝ) + 2 := by exact_mod_cast hb
  generalize rnd (Real.sqrt ((8 * (j - 1) + 1 : ℕ) : ℝ)) = r at a1 a2 ⊢
  rw [Int.floor_eq_iff]
  push_cast
  constructor <;> linarith

/-- non-vacuity: the identity on ℝ restricted … any rounding satisfying the interface exists, e.g. the identity -/
example : Binary64Rounding id := ⟨monotone_id, fun _ _ => rfl, fun t ht => by simp; positivity⟩

/-! ### structure of the generated arrays: all sizes, rotations, normalisations -/

section Arrays
set_option linter.unusedSectionVars false

/-- **list = slices of count**, for payloads with NO algebraic laws (same operations in the same order):
`zernikeArray([j₁,…], N, norm, rot)[t] = zernikeArray(J, N, norm, rot)[j_t − 1]` whenever `1 ≤ j_t ≤ J` -/
theorem list_eq_slices {K : Type} [Add K] [Sub K] [Mul K] [Div K] [Neg K] [NatCast K] [OfScientific K] [HPow K Nat K]
    [Transc K] [LE K] [DecidableLE K]
    (js : List ℕ) (J N : ℕ) (norm : Norm) (rot : K) (h : ∀ j ∈ js, 1 ≤ j ∧ j ≤ J) :
    zernikeArrayList js N norm rot = js.map (fun j => (zernikeArrayCount J N norm rot).getD (j - 1) []) := by
  unfold zernikeArrayList zernikeArrayCount
  apply List.map_congr_left
  intro j hj
  obtain ⟨h1, h2⟩ := h j hj
  have hlt : j - 1 < J := by omega
  simp [List.getD_eq_getElem?_getD, hlt, show j - 1 + 1 = j by omega]

variable [Transc ℝ]

theorem image_length (N : ℕ) (f : ℕ → ℕ → ℝ) : (image N f).length = N * N := by
  unfold image
  simp [List.length_flatMap]

theorem normalise_length (norm : Norm) (N : ℕ) (img : List ℝ) : (normalise norm N img).length = img.length := by
  cases norm <;> simp [normalise]

theorem zernikeArrayCount_getD_length (J N : ℕ) (norm : Norm) (rot : ℝ) (z : ℕ) (hz : z < J) :
    ((zernikeArrayCount J N norm rot).getD z []).length = N * N := by
  unfold zernikeArrayCount
  simp [List.getD_eq_getElem?_getD, hz, normalise_length, nollImage, image_length]

theorem axpy_getD (phase img : List ℝ) (c : ℝ) (k : ℕ) (h1 : k < phase.length) (h2 : k < img.length) :
    (axpy phase img c).getD k 0 = phase.getD k 0 + img.getD k 0 * c := by
  unfold axpy
  simp [List.getD_eq_getElem?_getD, List.getElem?_zipWith, List.getElem?_eq_getElem h1, List.getElem?_eq_getElem h2]

theorem axpy_length (phase img : List ℝ) (c : ℝ) : (axpy phase img c).length = min phase.length img.length := by
  unfold axpy; simp

/-- the accumulation loop over `(mode, coefficient)` pairs -/
theorem fold_axpy (L k : ℕ) (hk : k < L) :
    ∀ (zs : List (List ℝ)) (cs : List ℝ) (init : List ℝ), init.length = L → (∀ img ∈ zs, img.length = L) →
      zs.length = cs.length →
      ((List.zip zs cs).foldl (fun phase zc => axpy phase zc.1 zc.2) init).getD k 0
        = init.getD k 0 + ∑ z ∈ Finset.range cs.length, (zs.getD z []).getD k 0 * cs.getD z 0 := by
  intro zs
  induction zs with
  | nil => intro cs init _ _ hl; cases cs <;> simp_all
  | cons img zs ih =>
    intro cs init hi hz hl
    cases cs with
    | nil => simp at hl
    | cons c cs =>
      simp only [List.zip_cons_cons, List.foldl_cons, List.length_cons]
      have himg : img.length = L := hz img (by simp)
      rw [ih cs (axpy init img c) (by rw [axpy_length, hi, himg]; simp) (fun i hi' => hz i (by simp [hi']))
        (by simpa using hl)]
      rw [axpy_getD _ _ _ _ (by omega) (by omega), Finset.sum_range_succ']
      simp only [List.getD_cons_succ, List.getD_cons_zero]
      ring

/-- **a phase built from coefficients is that linear combination**, pixel by pixel, for every size, normalisation, rotation -/
theorem phase_linear (cs : List ℝ) (N : ℕ) (norm : Norm) (rot : ℝ) (k : ℕ) (hk : k < N * N) :
    (phaseFromZernikes cs N norm rot).getD k 0
      = ∑ z ∈ Finset.range cs.length, ((zernikeArrayCount cs.length N norm rot).getD z []).getD k 0 * cs.getD z 0 := by
  unfold phaseFromZernikes
  simp only
  rw [fold_axpy (N * N) k hk _ cs _ (by simp) ?_ (by simp [zernikeArrayCount])]
  · simp [List.getD_eq_getElem?_getD, hk]
    norm_num
  · intro img himg
    unfold zernikeArrayCount at himg
    simp only [List.mem_map, List.mem_range] at himg
    obtain ⟨i, _, rfl⟩ := himg
    simp [normalise_length, nollImage, image_length]


/-! ### modes vanish outside the inscribed pupil -/

/-- "the centre of pixel `(row, col)` of an `N`-grid lies outside the inscribed circle of radius `N/2`", in exact integers -/
def Outside (N row col : ℕ) : Prop :=
  (N : ℤ) ^ 2 < (2 * (col : ℤ) + 1 - N) ^ 2 + (2 * (row : ℤ) + 1 - N) ^ 2

theorem circleMask_outside (N row col : ℕ) (h : Outside N row col) : (circleMask N row col : ℝ) = 0 := by
  unfold circleMask
  simp only
  rw [if_neg]
  · simp
  · unfold Outside at h
    have h' : ((N : ℝ)) ^ 2 < (2 * (col : ℝ) + 1 - N) ^ 2 + (2 * (row : ℝ) + 1 - N) ^ 2 := by exact_mod_cast h
    push_cast
    norm_num
    nlinarith

/-- **every generated mode vanishes outside the inscribed pupil**: all `(n, m)`, sizes `N` (odd and even), rotations -/
theorem vanish_outside (n : ℕ) (m : ℤ) (N : ℕ) (rot : ℝ) (row col : ℕ) (h : Outside N row col) :
    modePixel n m N rot row col = 0 := by
  unfold modePixel
  simp only
  rw [circleMask_outside N row col h, mul_zero]

theorem nollPixel_vanish_outside (j N : ℕ) (rot : ℝ) (row col : ℕ) (h : Outside N row col) :
    nollPixel j N rot row col = 0 := vanish_outside _ _ _ _ _ _ h

/-- … and stays zero under the `p2v` / `rms` division (pixel of a normalised array) -/
theorem normalise_vanish (norm : Norm) (N : ℕ) (img : List ℝ) (k : ℕ) (h : img.getD k 0 = 0) :
    (normalise norm N img).getD k 0 = 0 := by
  by_cases hk : k < img.length
  · cases norm <;> simp_all [normalise, List.getD_eq_getElem?_getD]
  · cases norm <;> simp_all [normalise, List.getD_eq_getElem?_getD]

/-- the two indicator factors of `zernike_nm` (`R ≤ 1` and `circle(N/2, N)`) are the same indicator over ℝ -/
theorem clip_eq_mask [RealTransc] (N row col : ℕ) (hN : 0 < N) :
    clip (coord N col : ℝ) (coord N row) = circleMask N row col := by
  real_unfold [clip, circleMask, coord]
  have hN' : (0 : ℝ) < N := by exact_mod_cast hN
  have key : (√((((col : ℝ) - N / 2 + 0.5) / (N / 2)) ^ 2 + (((row : ℝ) - N / 2 + 0.5) / (N / 2)) ^ 2) ≤ 1) ↔
      (((col : ℝ) + 0.5 - N / 2) * ((col : ℝ) + 0.5 - N / 2) + ((row : ℝ) + 0.5 - N / 2) * ((row : ℝ) + 0.5 - N / 2)
        ≤ (N : ℝ) / 2 * (N / 2)) := by
    rw [Real.sqrt_le_one]
    have e : (((col : ℝ) - N / 2 + 0.5) / (N / 2)) ^ 2 + (((row : ℝ) - N / 2 + 0.5) / (N / 2)) ^ 2
        = (((col : ℝ) + 0.5 - N / 2) * ((col : ℝ) + 0.5 - N / 2) + ((row : ℝ) + 0.5 - N / 2) * ((row : ℝ) + 0.5 - N / 2))
            / ((N : ℝ) / 2 * (N / 2)) := by
      field_simp; ring
    rw [e, div_le_one (by positivity)]
  by_cases hc : (√((((col : ℝ) - N / 2 + 0.5) / (N / 2)) ^ 2 + (((row : ℝ) - N / 2 + 0.5) / (N / 2)) ^ 2) ≤ 1)
  · rw [if_pos hc, if_pos (key.mp hc)]
  · rw [if_neg hc, if_neg (fun h => hc (key.mpr h))]

/-- non-vacuity: corner pixel of a 4-grid is outside, pixel (1,1) is not -/
example : Outside 4 0 0 ∧ ¬ Outside 4 1 1 := by unfold Outside; decide


/-! ### unit rms / unit peak-to-valley under the other normalisations -/

theorem listSum_eq_sum (l : List ℝ) : listSum l = l.sum := by
  unfold listSum
  have : ∀ (l : List ℝ) (a : ℝ), l.foldl (fun acc b => acc + b) a = a + l.sum := by
    intro l
    induction l with
    | nil => simp
    | cons b l ih => intro a; simp [ih, add_assoc]
  rw [this]; norm_num

theorem sum_sq_div (l : List ℝ) (s : ℝ) : ((l.map (fun v => v / s)).map (fun v => v ^ 2)).sum = (l.map (fun v => v ^ 2)).sum / s ^ 2 := by
  induction l with
  | nil => simp
  | cons b l ih => simp only [List.map_cons, List.sum_cons, ih, div_pow, add_div]

/-- **unit RMS over the pupil** after `norm="rms"`: `sqrt(Σ Z'² / Σ circle) = 1`, for every image that is not identically
zero on the grid (hypothesis `hS`; otherwise the code divides by zero) and every non-empty pupil (`hC`) -/
theorem rms_unit [RealTransc] (N : ℕ) (img : List ℝ)
    (hC : 0 < listSum (circleImage N : List ℝ)) (hS : listSum (img.map (fun v => v ^ 2)) ≠ 0) :
    Transc.sqrt (listSum ((normalise .rms N img).map (fun v => v ^ 2)) / listSum (circleImage N : List ℝ)) = 1 := by
  simp only [normalise, RealTransc.sqrt_eq]
  rw [listSum_eq_sum] at hS
  rw [listSum_eq_sum ((List.map _ img).map _), sum_sq_div, listSum_eq_sum (img.map _)]
  set S := (img.map (fun v => v ^ 2)).sum with hSdef
  set C := listSum (circleImage N : List ℝ)
  have hS0 : 0 ≤ S := by
    rw [hSdef]; apply List.sum_nonneg; intro x hx
    simp only [List.mem_map] at hx; obtain ⟨v, _, rfl⟩ := hx; positivity
  have hSpos : 0 < S := lt_of_le_of_ne hS0 (Ne.symm hS)
  rw [Real.sq_sqrt (by positivity)]
  have : S / (S / C) / C = 1 := by field_simp
  rw [this, Real.sqrt_one]

/-! peak-to-valley -/

theorem foldl_max_div (d : ℝ) (hd : 0 < d) (l : List ℝ) (a : ℝ) :
    (l.map (fun v => v / d)).foldl (fun acc b => if acc ≤ b then b else acc) (a / d)
      = (l.foldl (fun acc b => if acc ≤ b then b else acc) a) / d := by
  induction l generalizing a with
  | nil => simp
  | cons b l ih =>
    simp only [List.map_cons, List.foldl_cons, div_le_div_iff_of_pos_right hd]
    split_ifs <;> exact ih _

theorem foldl_min_div (d : ℝ) (hd : 0 < d) (l : List ℝ) (a : ℝ) :
    (l.map (fun v => v / d)).foldl (fun acc b => if b ≤ acc then b else acc) (a / d)
      = (l.foldl (fun acc b => if b ≤ acc then b else acc) a) / d := by
  induction l generalizing a with
  | nil => simp
  | cons b l ih =>
    simp only [List.map_cons, List.foldl_cons, div_le_div_iff_of_pos_right hd]
    split_ifs <;> exact ih _

theorem le_foldl_max (l : List ℝ) (a : ℝ) : a ≤ l.foldl (fun acc b => if acc ≤ b then b else acc) a := by
  induction l generalizing a with
  | nil => simp
  | cons b l ih =>
    simp only [List.foldl_cons]
    split_ifs with h
    · exact le_trans h (ih b)
    · exact ih a

theorem foldl_min_le (l : List ℝ) (a : ℝ) : l.foldl (fun acc b => if b ≤ acc then b else acc) a ≤ a := by
  induction l generalizing a with
  | nil => simp
  | cons b l ih =>
    simp only [List.foldl_cons]
    split_ifs with h
    · exact le_trans (ih b) h
    · exact ih a

theorem listMin_le_listMax (l : List ℝ) : listMin l ≤ listMax l := by
  cases l with
  | nil => simp [listMin, listMax]
  | cons a l => exact le_trans (foldl_min_le l a) (le_foldl_max l a)

/-- **unit peak-to-valley** after `norm="p2v"`: `max − min = 1` for every image that is not constant on the grid
(hypothesis `hd`; a constant image makes the code divide by zero) -/
theorem p2v_unit (N : ℕ) (img : List ℝ) (hd : listMax img - listMin img ≠ 0) :
    listMax (normalise .p2v N img) - listMin (normalise .p2v N img) = 1 := by
  simp only [normalise]
  set d := listMax img - listMin img with hddef
  have hpos : 0 < d := lt_of_le_of_ne (sub_nonneg.mpr (listMin_le_listMax img)) (Ne.symm hd)
  cases img with
  | nil => simp [listMax, listMin] at hddef; exact absurd hddef (by simpa using hd)
  | cons a l =>
    simp only [List.map_cons, listMax, listMin] at hddef ⊢
    rw [foldl_max_div d hpos, foldl_min_div d hpos, ← sub_div, ← hddef, div_self hd]

/-- non-vacuity of `hC`: the pupil of a 2-grid is not empty -/
example : 0 < listSum (circleImage 2 : List ℝ) := by
  norm_num [listSum, circleImage, image, circleMask, List.range, List.range.loop, List.flatMap]

/-- non-vacuity of the two hypotheses: a two-pixel image `[1, -1]` -/
example : listMax ([1, -1] : List ℝ) - listMin ([1, -1] : List ℝ) ≠ 0 ∧ listSum (([1, -1] : List ℝ).map (fun v => v ^ 2)) ≠ 0 := by
  norm_num [listMax, listMin, listSum]

end Arrays


/-! ### radial polynomials -/

section Radial
set_option linter.unusedSectionVars false
variable [Transc ℝ]

/-- the factorial sum of the code is the polynomial `Σ_i c_i r^(n-2i)` with `c_i = radialCoef n m i` (all `n, m, r`) -/
theorem radialFunc_eq_coef (n m : ℕ) (r : ℝ) :
    radialFunc n m r = ∑ i ∈ Finset.range ((n - m) / 2 + 1), radialCoef n m i * r ^ (n - 2 * i) := by
  unfold radialFunc
  rw [sumTo_real]
  apply Finset.sum_congr rfl
  intro i _
  unfold radialTerm radialCoef
  ring

/-- `radialFunc n m r = r^m · radialQuot n m (r²)`: the radial part used by the Cartesian model is the code's, all valid `(n, m)` -/
theorem radialFunc_eq_quot (n m : ℕ) (hm : m ≤ n) (hpar : (n - m) % 2 = 0) (r : ℝ) :
    radialFunc n m r = r ^ m * radialQuot n m (r ^ 2) := by
  unfold radialFunc radialQuot
  rw [sumTo_real, sumTo_real, Finset.mul_sum]
  apply Finset.sum_congr rfl
  intro i hi
  rw [Finset.mem_range] at hi
  unfold radialTerm radialQuotTerm
  have e : n - 2 * i = m + 2 * ((n - m) / 2 - i) := by omega
  rw [e, pow_add, pow_mul]
  ring

/-- **TABLE** (kernel-checked exact rational arithmetic, `n ≤ 30`; NOT the unbounded claim): `R_n^m(1) = 1` -/
theorem table_radial_at_one : ∀ n ∈ List.range 31, ∀ m ∈ List.range (n + 1), (n - m) % 2 = 0 →
    radialFunc n m (1 : ℚ) = 1 := by decide +kernel

/-- **TABLE** (kernel-checked exact rational arithmetic, `n, n' ≤ 10`; NOT the unbounded claim): radial orthogonality
`∫₀¹ R_n^m R_n'^m ρ dρ = δ_{nn'} / (2(n+1))`, the integral being taken term by term (`radialInner`) -/
theorem table_radial_orthogonal : ∀ m ∈ List.range 11, ∀ n ∈ List.range 11, ∀ n' ∈ List.range 11,
    m ≤ n → m ≤ n' → (n - m) % 2 = 0 → (n' - m) % 2 = 0 →
    radialInner n n' m = (if n = n' then 1 / ((2 * (n + 1) : ℕ) : ℚ) else 0) := by decide +kernel

/-- the term-by-term integral `radialInner` IS the integral `∫₀¹ R_n^m(ρ) R_n'^m(ρ) ρ dρ` of the model's radial functions (all `n, n', m`) -/
theorem radial_integral (n n' m : ℕ) :
    ∫ ρ in (0:ℝ)..1, radialFunc n m ρ * radialFunc n' m ρ * ρ = radialInner n n' m := by
  simp_rw [radialFunc_eq_coef]
  unfold radialInner
  rw [sumTo_real]
  simp_rw [sumTo_real, Finset.sum_mul_sum, Finset.sum_mul]
  rw [intervalIntegral.integral_finsetSum]
  · apply Finset.sum_congr rfl
    intro i _
    rw [intervalIntegral.integral_finsetSum]
    · apply Finset.sum_congr rfl
      intro i' _
      have e : ∀ ρ : ℝ, radialCoef n m i * ρ ^ (n - 2 * i) * (radialCoef n' m i' * ρ ^ (n' - 2 * i')) * ρ
          = (radialCoef n m i * radialCoef n' m i') * ρ ^ (n - 2 * i + (n' - 2 * i') + 1) := by
        intro ρ; ring
      simp_rw [e]
      rw [intervalIntegral.integral_const_mul, integral_pow]
      push_cast
      simp
      ring
    · intro i' _
      apply Continuous.intervalIntegrable
      fun_prop
  · intro i _
    apply Continuous.intervalIntegrable
    fun_prop

theorem sumTo_rat (n : ℕ) (f : ℕ → ℚ) : sumTo n f = ∑ i ∈ Finset.range n, f i := by
  unfold sumTo; rw [sumToFrom_eq]; norm_num

theorem radialCoef_cast (n m i : ℕ) : ((radialCoef n m i : ℚ) : ℝ) = radialCoef n m i := by
  unfold radialCoef altSign
  split_ifs <;> push_cast <;> rfl

theorem radialInner_cast (n n' m : ℕ) : ((radialInner n n' m : ℚ) : ℝ) = radialInner n n' m := by
  unfold radialInner
  rw [sumTo_rat, sumTo_real]
  simp_rw [sumTo_rat, sumTo_real]
  push_cast
  simp_rw [radialCoef_cast]

/-- continuous radial orthonormality over ℝ for `n, n' ≤ 10` (from the kernel-checked TABLE; not the unbounded claim) -/
theorem radial_orthogonal_le10 (m n n' : ℕ) (h1 : n ≤ 10) (h2 : n' ≤ 10) (hm : m ≤ n) (hm' : m ≤ n')
    (hp : (n - m) % 2 = 0) (hp' : (n' - m) % 2 = 0) :
    ∫ ρ in (0:ℝ)..1, radialFunc n m ρ * radialFunc n' m ρ * ρ = if n = n' then 1 / (2 * ((n:ℝ) + 1)) else 0 := by
  rw [radial_integral, ← radialInner_cast,
    table_radial_orthogonal m (by simp; omega) n (by simp; omega) n' (by simp; omega) hm hm' hp hp']
  split_ifs <;> push_cast <;> rfl

theorem radialFunc_cast (n m : ℕ) (q : ℚ) : ((radialFunc n m q : ℚ) : ℝ) = radialFunc n m (q : ℝ) := by
  unfold radialFunc
  rw [sumTo_rat, sumTo_real]
  push_cast
  apply Finset.sum_congr rfl
  intro i _
  unfold radialTerm altSign
  split_ifs <;> push_cast <;> rfl

/-- `R_n^m(1) = 1` over ℝ for `n ≤ 30` (from the kernel-checked TABLE; not the unbounded claim) -/
theorem radial_at_one_le30 (n m : ℕ) (h : n ≤ 30) (hm : m ≤ n) (hp : (n - m) % 2 = 0) : radialFunc n m (1 : ℝ) = 1 := by
  have := table_radial_at_one n (by simp; omega) m (by simp; omega) hp
  have h2 := radialFunc_cast n m 1
  rw [this] at h2
  simpa using h2.symm

end Radial

/-! ### `R_n^m(1) = 1` for ALL valid `(n, m)` (not a table) -/

section RadialAtOne
open AoVerif.Lemmas.ZernikePoly (fact_eq_factorial valid_split)

theorem altSign_real (i : ℕ) (x : ℝ) : altSign i x = (-1) ^ i * x := by
  unfold altSign
  rcases Nat.even_or_odd i with h | h
  · rw [if_pos (Nat.even_iff.mp h), h.neg_one_pow, one_mul]
  · rw [if_neg (by rw [Nat.odd_iff.mp h]; decide), h.neg_one_pow, neg_one_mul]

theorem altSign_rat (i : ℕ) (x : ℚ) : altSign i x = (-1) ^ i * x := by
  unfold altSign
  rcases Nat.even_or_odd i with h | h
  · rw [if_pos (Nat.even_iff.mp h), h.neg_one_pow, one_mul]
  · rw [if_neg (by rw [Nat.odd_iff.mp h]; decide), h.neg_one_pow, neg_one_mul]

/-- **`R_n^m(1) = 1` for every valid `(n, m)`** (all radial orders): the code's factorial sum at `r = 1` is
`Σ_k (-1)^k C(a,k) C(a+s-k,a)` with `a = (n+m)/2`, `s = (n-m)/2`, which is `[x^s] (1-x)^a (1-x)^-(a+1) = 1`
(`Lemmas/ZernikeRadial.lean`, induction on `a` with Pascal's rule) -/
theorem radial_at_one (n m : ℕ) (hm : m ≤ n) (hp : (n - m) % 2 = 0) : radialFunc n m (1 : ℝ) = 1 := by
  obtain ⟨hs, hn⟩ := valid_split n m hm hp
  unfold radialFunc
  rw [sumTo_real]
  refine Eq.trans ?_ (Lemmas.ZernikeRadial.alt_sum_factorial (K := ℝ) ((n + m) / 2) ((n - m) / 2) hs)
  apply Finset.sum_congr rfl
  intro i _
  unfold radialTerm
  rw [altSign_real, one_pow, one_mul, fact_eq_factorial, fact_eq_factorial, fact_eq_factorial, fact_eq_factorial, hn i]

/-- the same over ℚ (the scalar of the kernel-checked table `table_radial_at_one`, which this supersedes) -/
theorem radial_at_one_rat (n m : ℕ) (hm : m ≤ n) (hp : (n - m) % 2 = 0) : radialFunc n m (1 : ℚ) = 1 := by
  obtain ⟨hs, hn⟩ := valid_split n m hm hp
  unfold radialFunc
  have e : ∀ (k : ℕ) (f : ℕ → ℚ), sumTo k f = ∑ i ∈ Finset.range k, f i := by
    intro k f; unfold sumTo; rw [sumToFrom_eq]; norm_num
  rw [e]
  refine Eq.trans ?_ (Lemmas.ZernikeRadial.alt_sum_factorial (K := ℚ) ((n + m) / 2) ((n - m) / 2) hs)
  apply Finset.sum_congr rfl
  intro i _
  unfold radialTerm
  rw [altSign_rat, one_pow, one_mul, fact_eq_factorial, fact_eq_factorial, fact_eq_factorial, fact_eq_factorial, hn i]

/-- every Noll mode: `R(1) = 1` for the `(n, |m|)` of every index `j ≥ 1` -/
theorem radial_at_one_noll (j : ℕ) (hj : 1 ≤ j) :
    radialFunc (zernIndex j).1 (zernIndex j).2.natAbs (1 : ℝ) = 1 :=
  radial_at_one _ _ (zernIndex_valid j hj).1 (zernIndex_valid j hj).2

/-- non-vacuity: (n, m) = (4, 2) is valid, and its value at 1 is the literal sum `4·1 − 3·1 = 1` -/
example : (2 : ℕ) ≤ 4 ∧ (4 - 2) % 2 = 0 ∧ radialFunc 4 2 (1 : ℚ) = 1 := by decide +kernel

end RadialAtOne

/-! ### the Cartesian model is the code's polar expression -/

section Polar
set_option linter.unusedSectionVars false
variable [Transc ℝ] [RealTransc]

theorem cs_polar (m : ℕ) (r θ : ℝ) :
    cs m (r * Real.cos θ) (r * Real.sin θ) = (r ^ m * Real.cos (m * θ), r ^ m * Real.sin (m * θ)) := by
  induction m with
  | zero => simp [cs]
  | succ m ih =>
    simp only [cs, ih]
    have e : ((m + 1 : ℕ) : ℝ) * θ = m * θ + θ := by push_cast; ring
    rw [e, Real.cos_add, Real.sin_add]
    ext <;> simp only <;> ring

/-- **polar reading of the Cartesian model** (all valid `(n, m)`, all `r, θ, rot`): at the point `(r cos θ, r sin θ)` the model's mode is
the code's expression `sqrt(n+1)·R_n^0(r)`, `sqrt(2(n+1))·R_n^m(r)·cos(mθ+rot)` resp. `sqrt(2(n+1))·R_n^|m|(r)·sin(|m|θ+rot)` -/
theorem mode_polar (n : ℕ) (m : ℤ) (hm : m.natAbs ≤ n) (hpar : (n - m.natAbs) % 2 = 0) (rot r θ : ℝ) :
    modeCart n m rot (r * Real.cos θ) (r * Real.sin θ) =
      if m = 0 then Real.sqrt (n + 1) * radialFunc n 0 r
      else if 0 < m then Real.sqrt (2 * (n + 1)) * radialFunc n m.natAbs r * Real.cos (m.natAbs * θ + rot)
      else Real.sqrt (2 * (n + 1)) * radialFunc n m.natAbs r * Real.sin (m.natAbs * θ + rot) := by
  have hr2 : (r * Real.cos θ) ^ 2 + (r * Real.sin θ) ^ 2 = r ^ 2 := by
    have := Real.cos_sq_add_sin_sq θ
    nlinarith [this]
  unfold modeCart
  simp only [hr2, cs_polar]
  split_ifs with h0 hpos
  · subst h0
    rw [radialFunc_eq_quot n 0 (by omega) (by simpa using hpar)]
    simp only [RealTransc.sqrt_eq]
    push_cast; ring
  · rw [radialFunc_eq_quot n m.natAbs hm hpar, Real.cos_add]
    simp only [RealTransc.sqrt_eq, RealTransc.cos_eq, RealTransc.sin_eq]
    push_cast; ring
  · rw [radialFunc_eq_quot n m.natAbs hm hpar, Real.sin_add]
    simp only [RealTransc.sqrt_eq, RealTransc.cos_eq, RealTransc.sin_eq]
    push_cast; ring
end Polar

/-! ### gamma (gradient) matrices -/

/-- TABLE (`nzrad ≤ 12`; superseded by the unbounded `gammaNM_noll` below, kept as a cross-check of it) -/
theorem table_gammaNM_noll : ∀ nzrad ∈ List.range 13,
    gammaNM nzrad = (List.range ((nzrad + 1) * (nzrad + 2) / 2)).map (fun i => (nollN (i + 1), nollAbsM (i + 1))) := by
  decide +kernel

/-- the `|m|` at position `t` (0-based) of radial block `p` -/
def blockM (p t : ℕ) : ℕ := ((t + 1 + p % 2) / 2) * 2 - p % 2

/-- what the inner loop of `makegammas` appends for one `q` -/
def gammaEmit (p q : ℕ) : List (ℕ × ℕ) :=
  if (p - q) % 2 = 0 then (if q > 0 then [(p, q), (p, q)] else [(p, q)]) else []

/-- number of entries appended for `q < r` -/
def blockCount (p r : ℕ) : ℕ := if p % 2 = 0 then (if r = 0 then 0 else 1 + 2 * ((r - 1) / 2)) else 2 * (r / 2)

theorem gammaOrder_prefix (p r : ℕ) (hr : r ≤ p + 1) :
    (List.range r).flatMap (gammaEmit p) = (List.range (blockCount p r)).map (fun t => (p, blockM p t)) := by
  induction r with
  | zero => simp [blockCount]
  | succ r ih =>
    rw [List.range_succ, List.flatMap_append, ih (by omega)]
    simp only [List.flatMap_cons, List.flatMap_nil, List.append_nil]
    unfold gammaEmit
    by_cases hpar : (p - r) % 2 = 0
    · by_cases hq : r > 0
      · simp only [hpar, hq, if_true]
        have hc : blockCount p (r + 1) = blockCount p r + 2 := by unfold blockCount; split_ifs <;> omega
        have h1 : blockM p (blockCount p r) = r := by unfold blockM blockCount; split_ifs <;> omega
        have h2 : blockM p (blockCount p r + 1) = r := by unfold blockM blockCount; split_ifs <;> omega
        rw [hc, List.range_succ, List.range_succ]
        simp [h1, h2]
      · have hr0 : r = 0 := by omega
        subst hr0
        have hp : p % 2 = 0 := by omega
        simp [blockCount, blockM, hp]
    · simp only [hpar, if_false, List.append_nil]
      have hc : blockCount p (r + 1) = blockCount p r := by
        unfold blockCount
        rcases Nat.mod_two_eq_zero_or_one p with hp | hp
        · have hr1 : r ≠ 0 := by rintro rfl; simp [hp] at hpar
          simp only [hp, if_true, Nat.add_eq_zero_iff, one_ne_zero, and_false, if_false, hr1]
          omega
        · simp only [hp, one_ne_zero, if_false]
          omega
      rw [hc]

theorem gammaOrder_eq (p : ℕ) : gammaOrder p = (List.range (p + 1)).map (fun t => (p, blockM p t)) := by
  have h := gammaOrder_prefix p (p + 1) le_rfl
  have hc : blockCount p (p + 1) = p + 1 := by unfold blockCount; split_ifs <;> omega
  rw [hc] at h
  exact h

theorem tri_succ (n : ℕ) : (n + 1) * (n + 2) / 2 = n * (n + 1) / 2 + (n + 1) := by
  have h1 := two_mul_tri n
  have h2 := two_mul_tri (n + 1)
  have e : (n + 1) * (n + 1 + 1) = n * (n + 1) + 2 * (n + 1) := by ring
  rw [show n + 1 + 1 = n + 2 from rfl] at h2 e
  omega

/-- the pair at position `t` of block `n`, read off the Noll model -/
theorem noll_at_block (n t : ℕ) (ht : t ≤ n) :
    (nollN (n * (n + 1) / 2 + t + 1), nollAbsM (n * (n + 1) / 2 + t + 1)) = (n, blockM n t) := by
  have h1 := two_mul_tri n
  have e : (n + 1) * (n + 2) = n * (n + 1) + 2 * n + 2 := by ring
  have hn : nollN (n * (n + 1) / 2 + t + 1) = n := by
    apply nollN_unique <;> omega
  unfold nollAbsM blockM
  simp only [hn]
  congr 1
  omega

/-- **the `(n, m)` bookkeeping of `makegammas` is the Noll sequence, for every `nzrad`** -/
theorem gammaNM_noll (nzrad : ℕ) :
    gammaNM nzrad = (List.range ((nzrad + 1) * (nzrad + 2) / 2)).map (fun i => (nollN (i + 1), nollAbsM (i + 1))) := by
  induction nzrad with
  | zero => decide +kernel
  | succ k ih =>
    have hg : gammaNM (k + 1) = gammaNM k ++ gammaOrder (k + 1) := by
      unfold gammaNM
      rw [List.range_succ, List.flatMap_append]
      simp
    have hT : (k + 1 + 1) * (k + 1 + 2) / 2 = (k + 1) * (k + 2) / 2 + (k + 2) := tri_succ (k + 1)
    rw [hg, ih, gammaOrder_eq, hT, @List.range_add ((k + 1) * (k + 2) / 2) (k + 2), List.map_append, List.map_map]
    congr 1
    apply List.map_congr_left
    intro t ht
    rw [List.mem_range] at ht
    simp only [Function.comp]
    exact (noll_at_block (k + 1) t (by omega)).symm

/-- **TABLE** (kernel-checked exact integer polynomial arithmetic, radial orders ≤ 8 = 45 modes; NOT the unbounded claim):
`∂ₓ P_i = Σ_j g^x_ij P_j` as a polynomial identity (every coefficient of the residual vanishes) -/
theorem table_gamma_dx : ∀ i ∈ List.range 45, (Poly.norm (gammaResidual false 8 i)).all (fun t => t.2.2 = 0) = true := by
  decide +kernel

/-- **TABLE**, same for `∂_y` and the y matrix (with rule d signs) -/
theorem table_gamma_dy : ∀ i ∈ List.range 45, (Poly.norm (gammaResidual true 8 i)).all (fun t => t.2.2 = 0) = true := by
  decide +kernel

section GammaCleared
set_option linter.unusedSectionVars false
variable [Transc ℝ] [RealTransc]

/-- normalisation constant of mode (n, m): `sqrt(n+1)` or `sqrt(2(n+1))` -/
noncomputable def normConst (n m : ℕ) : ℝ := if m = 0 then Real.sqrt (n + 1) else Real.sqrt (2 * (n + 1))

theorem gammaA_cleared (ni mi nj mj : ℕ) (h : ¬ (mi = 0 ∧ mj = 0)) :
    (gammaA ni mi nj mj : ℝ) * normConst nj mj = (((nj + 1) * (if mi = 0 then 2 else 1) : ℕ) : ℝ) * normConst ni mi := by
  have ha : (0:ℝ) ≤ (ni:ℝ) + 1 := by positivity
  have hb : (0:ℝ) ≤ (nj:ℝ) + 1 := by positivity
  have s2 : Real.sqrt 2 * Real.sqrt 2 = 2 := Real.mul_self_sqrt (by norm_num)
  have sb : Real.sqrt ((nj:ℝ) + 1) * Real.sqrt ((nj:ℝ) + 1) = (nj:ℝ) + 1 := Real.mul_self_sqrt hb
  real_unfold [gammaA, normConst]
  by_cases h1 : mi = 0 <;> by_cases h2 : mj = 0
  · exact absurd ⟨h1, h2⟩ h
  · simp only [h1, h2, true_or, if_true, if_false]
    push_cast
    rw [Real.sqrt_mul ha, Real.sqrt_mul (by norm_num : (0:ℝ) ≤ 2)]
    norm_num
    linear_combination (Real.sqrt ((ni:ℝ) + 1) * Real.sqrt ((nj:ℝ) + 1) * Real.sqrt ((nj:ℝ) + 1)) * s2 + (2 * Real.sqrt ((ni:ℝ) + 1)) * sb
  · simp only [h1, h2, or_true, if_true, if_false]
    push_cast
    rw [Real.sqrt_mul ha, Real.sqrt_mul (by norm_num : (0:ℝ) ≤ 2)]
    norm_num
    linear_combination (Real.sqrt 2 * Real.sqrt ((ni:ℝ) + 1)) * sb
  · simp only [h1, h2, or_self, if_false]
    push_cast
    rw [Real.sqrt_mul ha, Real.sqrt_mul (by norm_num : (0:ℝ) ≤ 2), Real.sqrt_mul (by norm_num : (0:ℝ) ≤ 2)]
    norm_num
    linear_combination (Real.sqrt 2 * Real.sqrt ((ni:ℝ) + 1)) * sb
theorem not_both_zero_of_gamxZero (mi mj i j : ℕ) (h : gamxZero mi mj i j = false) : ¬ (mi = 0 ∧ mj = 0) := by
  rintro ⟨rfl, rfl⟩
  simp [gamxZero] at h

theorem not_both_zero_of_gamyZero (mi mj i j : ℕ) (h : gamyZero mi mj i j = false) : ¬ (mi = 0 ∧ mj = 0) := by
  rintro ⟨rfl, rfl⟩
  simp [gamyZero] at h

/-- **clearing the square roots** (all `nzrad`, all entries): `γˣ_ij · c_j = g_ij · c_i` with the INTEGER `g_ij = gamxInt` and
`c = normConst` the Noll normalisation constant, so `∂ₓZ_i = Σ γˣ_ij Z_j  ⟺  ∂ₓP_i = Σ g_ij P_j` for `Z = c·P` -/
theorem gamx_cleared (nm : List (ℕ × ℕ)) (i j : ℕ) :
    (gamxEntry nm i j : ℝ) * normConst (nm.getD j (0, 0)).1 (nm.getD j (0, 0)).2
      = (gamxInt nm i j : ℝ) * normConst (nm.getD i (0, 0)).1 (nm.getD i (0, 0)).2 := by
  unfold gamxEntry gamxInt
  simp only
  by_cases hji : j ≤ i
  · cases hz : gamxZero (nm.getD i (0, 0)).2 (nm.getD j (0, 0)).2 i j
    · simp only [hji, if_true, and_self, Bool.false_eq_true, if_false]
      rw [gammaA_cleared _ _ _ _ (not_both_zero_of_gamxZero _ _ _ _ hz)]
      push_cast; ring
    · simp [hji]; norm_num
  · simp [hji]; norm_num

theorem gamy_cleared (nm : List (ℕ × ℕ)) (i j : ℕ) :
    (gamyEntry nm i j : ℝ) * normConst (nm.getD j (0, 0)).1 (nm.getD j (0, 0)).2
      = (gamyInt nm i j : ℝ) * normConst (nm.getD i (0, 0)).1 (nm.getD i (0, 0)).2 := by
  unfold gamyEntry gamyInt
  simp only
  by_cases hji : j ≤ i
  · cases hz : gamyZero (nm.getD i (0, 0)).2 (nm.getD j (0, 0)).2 i j
    · simp only [hji, if_true, and_self, Bool.false_eq_true, if_false]
      cases hn : gamyNeg (nm.getD i (0, 0)).2 (nm.getD j (0, 0)).2 i
      · simp only [Bool.false_eq_true, if_false]
        rw [gammaA_cleared _ _ _ _ (not_both_zero_of_gamyZero _ _ _ _ hz)]
        push_cast; ring
      · simp only [if_true]
        have := gammaA_cleared (nm.getD i (0, 0)).1 (nm.getD i (0, 0)).2 (nm.getD j (0, 0)).1 (nm.getD j (0, 0)).2
          (not_both_zero_of_gamyZero _ _ _ _ hz)
        generalize nm.getD i (0, 0) = a at *
        generalize nm.getD j (0, 0) = b at *
        have e : (-(1.0:ℝ)) = -1 := by norm_num
        rw [e]
        split_ifs at this ⊢ <;> push_cast at this ⊢ <;> linear_combination (-1 : ℝ) * this
    · simp [hji]; norm_num
  · simp [hji]; norm_num
end GammaCleared


/-! ### bridge from the kernel-checked gamma tables to true derivatives (`HasDerivAt`)

`Lemmas/ZernikePoly.lean` (all orders): `Poly.eval` is a ring homomorphism for the list operations, `Poly.dx`/`Poly.dy` are the partial
derivatives of `Poly.eval`, `csPoly`/`radialQuotPoly` evaluate to `cs`/`radialQuot` (exact integer division in `radialCoefInt`). -/

section GammaBridge
open AoVerif.Lemmas.ZernikePoly
set_option linter.unusedSectionVars false
variable [Transc ℝ] [RealTransc]

/-- **bridge (a)**: the Cartesian model of a mode at `rot = 0` IS its normalisation constant times the evaluation of the
integer polynomial `zernPoly n m` (all valid `(n, m)`, all `x y`) -/
theorem modeCart_eq_poly (n : ℕ) (m : ℤ) (hm : m.natAbs ≤ n) (hpar : (n - m.natAbs) % 2 = 0) (x y : ℝ) :
    modeCart n m 0 x y = modeCartPoly n m x y := by
  unfold modeCart modeCartPoly zernPoly
  simp only [eval_csPoly, RealTransc.cos_eq, RealTransc.sin_eq, Real.cos_zero, Real.sin_zero]
  split_ifs with h0 hpos
  · subst h0
    rw [eval_radialQuotPoly n 0 (by omega) (by simpa using hpar)]
  · rw [eval_mul, eval_radialQuotPoly n m.natAbs hm hpar]; ring
  · rw [eval_mul, eval_radialQuotPoly n m.natAbs hm hpar]; ring

theorem modeCartPoly_eq_normConst (n : ℕ) (m : ℤ) (x y : ℝ) :
    modeCartPoly n m x y = normConst n m.natAbs * Poly.eval (zernPoly n m) x y := by
  unfold modeCartPoly normConst
  simp only [RealTransc.sqrt_eq, Int.natAbs_eq_zero]
  split_ifs <;> push_cast <;> rfl

theorem zernIndex_natAbs (j : ℕ) : (zernIndex j).2.natAbs = nollAbsM j := by
  unfold zernIndex; simp only; split_ifs with h1 h2 <;> simp [h1]

/-- the Noll mode `j` at `rot = 0` as constant × integer polynomial -/
theorem nollMode_eq_poly (j : ℕ) (hj : 1 ≤ j) (x y : ℝ) :
    modeCart (zernIndex j).1 (zernIndex j).2 0 x y = normConst (nollN j) (nollAbsM j) * Poly.eval (nollPoly j) x y := by
  rw [modeCart_eq_poly _ _ (zernIndex_valid j hj).1 (zernIndex_valid j hj).2, modeCartPoly_eq_normConst, zernIndex_natAbs]
  rfl

/-- number of modes of radial order ≤ `nzrad` = size of the gamma matrices of `makegammas nzrad` -/
def nModes (nzrad : ℕ) : ℕ := (nzrad + 1) * (nzrad + 2) / 2

theorem gammaNM_getD (nzrad j : ℕ) (hj : j < nModes nzrad) :
    (gammaNM nzrad).getD j (0, 0) = (nollN (j + 1), nollAbsM (j + 1)) := by
  unfold nModes at hj
  rw [gammaNM_noll]
  simp [List.getD_eq_getElem?_getD, hj]

theorem gammaNM_length (nzrad : ℕ) : (gammaNM nzrad).length = nModes nzrad := by
  rw [gammaNM_noll]; simp [nModes]

/-- the decidable polynomial check for one `nzrad`: every coefficient of every residual `∂P_i − Σ_j g_ij P_j` vanishes -/
def ResidualTable (useY : Bool) (nzrad : ℕ) : Prop :=
  ∀ i ∈ List.range (nModes nzrad), (Poly.norm (gammaResidual useY nzrad i)).all (fun t => t.2.2 = 0) = true

instance (useY : Bool) (nzrad : ℕ) : Decidable (ResidualTable useY nzrad) := by unfold ResidualTable; infer_instance

/-- a residual table read as an identity of polynomial FUNCTIONS over ℝ (any `nzrad`) -/
theorem residual_dx_eval (nzrad : ℕ) (htab : ResidualTable false nzrad) (i : ℕ) (hi : i < nModes nzrad) (x y : ℝ) :
    Poly.eval (Poly.dx (nollPoly (i + 1))) x y
      = ∑ j ∈ Finset.range (nModes nzrad), (gamxInt (gammaNM nzrad) i j : ℝ) * Poly.eval (nollPoly (j + 1)) x y := by
  have h := eval_of_norm_all_zero _ (htab i (List.mem_range.mpr hi)) x y
  unfold gammaResidual at h
  simp only [Bool.false_eq_true, if_false] at h
  rw [eval_append, eval_flatMap_range, gammaNM_length] at h
  simp only [eval_smul] at h
  have e : ∑ j ∈ Finset.range (nModes nzrad), ((-(gamxInt (gammaNM nzrad) i j) : ℤ) : ℝ) * Poly.eval (nollPoly (j + 1)) x y
      = -∑ j ∈ Finset.range (nModes nzrad), (gamxInt (gammaNM nzrad) i j : ℝ) * Poly.eval (nollPoly (j + 1)) x y := by
    rw [← Finset.sum_neg_distrib]
    apply Finset.sum_congr rfl
    intro j _
    push_cast; ring
  rw [e] at h
  linarith

theorem residual_dy_eval (nzrad : ℕ) (htab : ResidualTable true nzrad) (i : ℕ) (hi : i < nModes nzrad) (x y : ℝ) :
    Poly.eval (Poly.dy (nollPoly (i + 1))) x y
      = ∑ j ∈ Finset.range (nModes nzrad), (gamyInt (gammaNM nzrad) i j : ℝ) * Poly.eval (nollPoly (j + 1)) x y := by
  have h := eval_of_norm_all_zero _ (htab i (List.mem_range.mpr hi)) x y
  unfold gammaResidual at h
  simp only [if_true] at h
  rw [eval_append, eval_flatMap_range, gammaNM_length] at h
  simp only [eval_smul] at h
  have e : ∑ j ∈ Finset.range (nModes nzrad), ((-(gamyInt (gammaNM nzrad) i j) : ℤ) : ℝ) * Poly.eval (nollPoly (j + 1)) x y
      = -∑ j ∈ Finset.range (nModes nzrad), (gamyInt (gammaNM nzrad) i j : ℝ) * Poly.eval (nollPoly (j + 1)) x y := by
    rw [← Finset.sum_neg_distrib]
    apply Finset.sum_congr rfl
    intro j _
    push_cast; ring
  rw [e] at h
  linarith

/-- **reduction of the derivative claim to a decidable check, for EVERY `nzrad`**: if the integer-polynomial residuals of `makegammas nzrad`
all vanish (`ResidualTable false nzrad`, a finite computation), then `∂ₓ Z_i = Σ_j γˣ_ij Z_j` holds as a true derivative of the model's
modes at every point, for every row `i` of the matrix -/
theorem gamma_dx_of_table (nzrad : ℕ) (htab : ResidualTable false nzrad) (i : ℕ) (hi : i < nModes nzrad) (x y : ℝ) :
    HasDerivAt (fun x => modeCart (zernIndex (i + 1)).1 (zernIndex (i + 1)).2 0 x y)
      (∑ j ∈ Finset.range (nModes nzrad),
        gamxEntry (gammaNM nzrad) i j * modeCart (zernIndex (j + 1)).1 (zernIndex (j + 1)).2 0 x y) x := by
  have ef : (fun x => modeCart (zernIndex (i + 1)).1 (zernIndex (i + 1)).2 0 x y)
      = fun x => normConst (nollN (i + 1)) (nollAbsM (i + 1)) * Poly.eval (nollPoly (i + 1)) x y := by
    funext x; exact nollMode_eq_poly (i + 1) (by omega) x y
  rw [ef]
  refine ((hasDerivAt_eval_dx (nollPoly (i + 1)) x y).const_mul _).congr_deriv ?_
  rw [residual_dx_eval nzrad htab i hi, Finset.mul_sum]
  apply Finset.sum_congr rfl
  intro j hj
  rw [Finset.mem_range] at hj
  have hc := gamx_cleared (gammaNM nzrad) i j
  rw [gammaNM_getD nzrad i hi, gammaNM_getD nzrad j hj] at hc
  rw [nollMode_eq_poly (j + 1) (by omega)]
  simp only at hc
  linear_combination (-Poly.eval (nollPoly (j + 1)) x y) * hc

theorem gamma_dy_of_table (nzrad : ℕ) (htab : ResidualTable true nzrad) (i : ℕ) (hi : i < nModes nzrad) (x y : ℝ) :
    HasDerivAt (fun y => modeCart (zernIndex (i + 1)).1 (zernIndex (i + 1)).2 0 x y)
      (∑ j ∈ Finset.range (nModes nzrad),
        gamyEntry (gammaNM nzrad) i j * modeCart (zernIndex (j + 1)).1 (zernIndex (j + 1)).2 0 x y) y := by
  have ef : (fun y => modeCart (zernIndex (i + 1)).1 (zernIndex (i + 1)).2 0 x y)
      = fun y => normConst (nollN (i + 1)) (nollAbsM (i + 1)) * Poly.eval (nollPoly (i + 1)) x y := by
    funext y; exact nollMode_eq_poly (i + 1) (by omega) x y
  rw [ef]
  refine ((hasDerivAt_eval_dy (nollPoly (i + 1)) x y).const_mul _).congr_deriv ?_
  rw [residual_dy_eval nzrad htab i hi, Finset.mul_sum]
  apply Finset.sum_congr rfl
  intro j hj
  rw [Finset.mem_range] at hj
  have hc := gamy_cleared (gammaNM nzrad) i j
  rw [gammaNM_getD nzrad i hi, gammaNM_getD nzrad j hj] at hc
  rw [nollMode_eq_poly (j + 1) (by omega)]
  simp only at hc
  linear_combination (-Poly.eval (nollPoly (j + 1)) x y) * hc

/-- **TABLE** (kernel-checked, `nzrad = 12` = 91 modes; NOT the unbounded claim) -/
theorem table_gamma_dx12 : ResidualTable false 12 := by decide +kernel

/-- **TABLE** (kernel-checked, `nzrad = 12` = 91 modes; NOT the unbounded claim) -/
theorem table_gamma_dy12 : ResidualTable true 12 := by decide +kernel

/-- the x TABLE for `nzrad = 8` read as an identity of polynomial FUNCTIONS over ℝ -/
theorem table_gamma_dx_eval (i : ℕ) (hi : i < 45) (x y : ℝ) :
    Poly.eval (Poly.dx (nollPoly (i + 1))) x y
      = ∑ j ∈ Finset.range 45, (gamxInt (gammaNM 8) i j : ℝ) * Poly.eval (nollPoly (j + 1)) x y :=
  residual_dx_eval 8 table_gamma_dx i hi x y

theorem table_gamma_dy_eval (i : ℕ) (hi : i < 45) (x y : ℝ) :
    Poly.eval (Poly.dy (nollPoly (i + 1))) x y
      = ∑ j ∈ Finset.range 45, (gamyInt (gammaNM 8) i j : ℝ) * Poly.eval (nollPoly (j + 1)) x y :=
  residual_dy_eval 8 table_gamma_dy i hi x y

/-- **∂ₓ Z_i = Σ_j γˣ_ij Z_j as a true derivative**, for the 45 modes of radial order ≤ 8 (BOUNDED: rests on the kernel-checked
TABLE `table_gamma_dx`; everything else — bridge (a), `Poly.dx` = derivative, clearing of the square roots — holds for all orders) -/
theorem gamma_dx_le8 (i : ℕ) (hi : i < 45) (x y : ℝ) :
    HasDerivAt (fun x => modeCart (zernIndex (i + 1)).1 (zernIndex (i + 1)).2 0 x y)
      (∑ j ∈ Finset.range 45, gamxEntry (gammaNM 8) i j * modeCart (zernIndex (j + 1)).1 (zernIndex (j + 1)).2 0 x y) x :=
  gamma_dx_of_table 8 table_gamma_dx i hi x y

theorem gamma_dy_le8 (i : ℕ) (hi : i < 45) (x y : ℝ) :
    HasDerivAt (fun y => modeCart (zernIndex (i + 1)).1 (zernIndex (i + 1)).2 0 x y)
      (∑ j ∈ Finset.range 45, gamyEntry (gammaNM 8) i j * modeCart (zernIndex (j + 1)).1 (zernIndex (j + 1)).2 0 x y) y :=
  gamma_dy_of_table 8 table_gamma_dy i hi x y

/-- the same for the 91 modes of radial order ≤ 12 (BOUNDED: rests on the kernel-checked TABLE `table_gamma_dx12`) -/
theorem gamma_dx_le12 (i : ℕ) (hi : i < 91) (x y : ℝ) :
    HasDerivAt (fun x => modeCart (zernIndex (i + 1)).1 (zernIndex (i + 1)).2 0 x y)
      (∑ j ∈ Finset.range 91, gamxEntry (gammaNM 12) i j * modeCart (zernIndex (j + 1)).1 (zernIndex (j + 1)).2 0 x y) x :=
  gamma_dx_of_table 12 table_gamma_dx12 i hi x y

theorem gamma_dy_le12 (i : ℕ) (hi : i < 91) (x y : ℝ) :
    HasDerivAt (fun y => modeCart (zernIndex (i + 1)).1 (zernIndex (i + 1)).2 0 x y)
      (∑ j ∈ Finset.range 91, gamyEntry (gammaNM 12) i j * modeCart (zernIndex (j + 1)).1 (zernIndex (j + 1)).2 0 x y) y :=
  gamma_dy_of_table 12 table_gamma_dy12 i hi x y

/-- non-vacuity of the table hypothesis: it holds for `nzrad = 2` (and is a genuine check: it FAILS for the x matrix read against ∂_y) -/
example : ResidualTable false 2 ∧ ResidualTable true 2 ∧
    ¬ (∀ i ∈ List.range (nModes 2), (Poly.norm (Poly.dy (nollPoly (i + 1)) ++ (List.range (gammaNM 2).length).flatMap (fun j =>
        Poly.smul (-(gamxInt (gammaNM 2) i j)) (nollPoly (j + 1))))).all (fun t => t.2.2 = 0) = true) := by
  decide +kernel

/-- non-vacuity: a lawful `Transc ℝ` exists (any `kv`), and `i = 7` (coma, Noll 8) is one of the 45 modes -/
example : (∃ T : Transc ℝ, @RealTransc T) ∧ 7 < 45 := ⟨⟨realTransc (fun _ _ => 0), realTransc_lawful _⟩, by decide⟩

end GammaBridge


/-! ### the side conditions of `rms_unit` / `p2v_unit` discharged for the ACTUAL images `nollImage j N 0` -/

section NonDegenerate
open AoVerif.Lemmas.ZernikePoly
set_option linter.unusedSectionVars false
variable [Transc ℝ] [RealTransc]

theorem coord_eq_coordE (N i : ℕ) : (coord N i : ℝ) = coordE N i := rfl

theorem circleMask_eq_maskE (N r c : ℕ) : (circleMask N r c : ℝ) = maskE N r c := rfl

theorem intCast_cast (c : ℤ) : ((Poly.intCast c : ℚ) : ℝ) = Poly.intCast c := by
  unfold Poly.intCast
  split_ifs <;> push_cast <;> rfl

theorem eval_cast (p : Poly) (x y : ℚ) : ((Poly.eval p x y : ℚ) : ℝ) = Poly.eval p (x : ℝ) (y : ℝ) := by
  unfold Poly.eval
  have : ∀ a : ℚ, ((p.foldl (fun acc t => acc + Poly.intCast t.2.2 * x ^ t.1 * y ^ t.2.1) a : ℚ) : ℝ)
      = p.foldl (fun acc t => acc + Poly.intCast t.2.2 * (x : ℝ) ^ t.1 * (y : ℝ) ^ t.2.1) (a : ℝ) := by
    induction p with
    | nil => intro a; rfl
    | cons t p ih =>
      intro a
      simp only [List.foldl_cons]
      rw [ih]
      congr 1
      push_cast [intCast_cast]
      rfl
  rw [this]
  congr 1

theorem coordE_cast (N i : ℕ) : ((coordE N i : ℚ) : ℝ) = coordE N i := by
  unfold coordE
  push_cast
  norm_num

theorem maskE_cast (N r c : ℕ) : ((maskE N r c : ℚ) : ℝ) = maskE N r c := by
  unfold maskE
  simp only
  have key : ((((c : ℕ) : ℚ) + 0.5 - ((N : ℕ) : ℚ) / ((2 : ℕ) : ℚ)) * (((c : ℕ) : ℚ) + 0.5 - ((N : ℕ) : ℚ) / ((2 : ℕ) : ℚ))
        + (((r : ℕ) : ℚ) + 0.5 - ((N : ℕ) : ℚ) / ((2 : ℕ) : ℚ)) * (((r : ℕ) : ℚ) + 0.5 - ((N : ℕ) : ℚ) / ((2 : ℕ) : ℚ))
        ≤ ((N : ℕ) : ℚ) / ((2 : ℕ) : ℚ) * (((N : ℕ) : ℚ) / ((2 : ℕ) : ℚ))) ↔
      ((((c : ℕ) : ℝ) + 0.5 - ((N : ℕ) : ℝ) / ((2 : ℕ) : ℝ)) * (((c : ℕ) : ℝ) + 0.5 - ((N : ℕ) : ℝ) / ((2 : ℕ) : ℝ))
        + (((r : ℕ) : ℝ) + 0.5 - ((N : ℕ) : ℝ) / ((2 : ℕ) : ℝ)) * (((r : ℕ) : ℝ) + 0.5 - ((N : ℕ) : ℝ) / ((2 : ℕ) : ℝ))
        ≤ ((N : ℕ) : ℝ) / ((2 : ℕ) : ℝ) * (((N : ℕ) : ℝ) / ((2 : ℕ) : ℝ))) := by
    rw [← Rat.cast_le (K := ℝ)]
    push_cast
    norm_num
  by_cases h : ((((c : ℕ) : ℚ) + 0.5 - ((N : ℕ) : ℚ) / ((2 : ℕ) : ℚ)) * (((c : ℕ) : ℚ) + 0.5 - ((N : ℕ) : ℚ) / ((2 : ℕ) : ℚ))
        + (((r : ℕ) : ℚ) + 0.5 - ((N : ℕ) : ℚ) / ((2 : ℕ) : ℚ)) * (((r : ℕ) : ℚ) + 0.5 - ((N : ℕ) : ℚ) / ((2 : ℕ) : ℚ))
        ≤ ((N : ℕ) : ℚ) / ((2 : ℕ) : ℚ) * (((N : ℕ) : ℚ) / ((2 : ℕ) : ℚ)))
  · rw [if_pos h, if_pos (key.mp h)]; push_cast; rfl
  · rw [if_neg h, if_neg (fun h' => h (key.mpr h'))]; push_cast; rfl

theorem polyPixel_cast (j N r c : ℕ) : ((polyPixel (K := ℚ) j N r c : ℚ) : ℝ) = polyPixel (K := ℝ) j N r c := by
  unfold polyPixel
  push_cast [eval_cast, coordE_cast, maskE_cast]
  rfl

theorem normConst_pos (n m : ℕ) : 0 < normConst n m := by
  unfold normConst
  split_ifs <;> apply Real.sqrt_pos.mpr <;> positivity

/-- **the generated pixel IS the Noll constant times the exact rational pixel**: every `j ≥ 1`, `N ≥ 1`, pixel, at `rot = 0` -/
theorem nollPixel_eq_polyPixel (j N : ℕ) (hj : 1 ≤ j) (hN : 0 < N) (r c : ℕ) :
    nollPixel j N (0 : ℝ) r c = normConst (nollN j) (nollAbsM j) * ((polyPixel (K := ℚ) j N r c : ℚ) : ℝ) := by
  unfold nollPixel modePixel
  simp only
  rw [nollMode_eq_poly j hj, clip_eq_mask N r c hN, polyPixel_cast]
  unfold polyPixel
  rw [coord_eq_coordE, coord_eq_coordE, circleMask_eq_maskE]
  ring

theorem mem_image (N : ℕ) (f : ℕ → ℕ → ℝ) (r c : ℕ) (hr : r < N) (hc : c < N) : f r c ∈ image N f := by
  unfold image
  simp only [List.mem_flatMap, List.mem_map, List.mem_range]
  exact ⟨r, hr, c, hc, rfl⟩

theorem le_foldl_max_of_mem (l : List ℝ) (a x : ℝ) (hx : x ∈ l) :
    x ≤ l.foldl (fun acc b => if acc ≤ b then b else acc) a := by
  induction l generalizing a with
  | nil => simp at hx
  | cons b l ih =>
    simp only [List.foldl_cons]
    rcases List.mem_cons.mp hx with rfl | h
    · refine le_trans ?_ (le_foldl_max l _)
      split_ifs with h
      · exact le_rfl
      · exact le_of_lt (not_le.mp h)
    · exact ih _ h

theorem foldl_min_le_of_mem (l : List ℝ) (a x : ℝ) (hx : x ∈ l) :
    l.foldl (fun acc b => if b ≤ acc then b else acc) a ≤ x := by
  induction l generalizing a with
  | nil => simp at hx
  | cons b l ih =>
    simp only [List.foldl_cons]
    rcases List.mem_cons.mp hx with rfl | h
    · refine le_trans (foldl_min_le l _) ?_
      split_ifs with h
      · exact le_rfl
      · exact le_of_lt (not_le.mp h)
    · exact ih _ h

theorem le_listMax_of_mem (l : List ℝ) (x : ℝ) (hx : x ∈ l) : x ≤ listMax l := by
  cases l with
  | nil => simp at hx
  | cons a l =>
    rcases List.mem_cons.mp hx with rfl | h
    · exact le_foldl_max l _
    · exact le_foldl_max_of_mem l a x h

theorem listMin_le_of_mem (l : List ℝ) (x : ℝ) (hx : x ∈ l) : listMin l ≤ x := by
  cases l with
  | nil => simp at hx
  | cons a l =>
    rcases List.mem_cons.mp hx with rfl | h
    · exact foldl_min_le l _
    · exact foldl_min_le_of_mem l a x h

/-- an image with two different pixel values has a non-zero peak-to-valley (hypothesis `hd` of `p2v_unit`) -/
theorem p2v_ne_zero_of_two (l : List ℝ) (x y : ℝ) (hx : x ∈ l) (hy : y ∈ l) (hxy : x ≠ y) : listMax l - listMin l ≠ 0 := by
  intro h
  have h1 := le_listMax_of_mem l x hx
  have h2 := listMin_le_of_mem l x hx
  have h3 := le_listMax_of_mem l y hy
  have h4 := listMin_le_of_mem l y hy
  apply hxy
  linarith

/-- an image with a non-zero pixel has a non-zero sum of squares (hypothesis `hS` of `rms_unit`) -/
theorem sumsq_ne_zero_of_mem (l : List ℝ) (x : ℝ) (hx : x ∈ l) (hx0 : x ≠ 0) : listSum (l.map (fun v => v ^ 2)) ≠ 0 := by
  rw [listSum_eq_sum]
  have hmem : x ^ 2 ∈ l.map (fun v => v ^ 2) := List.mem_map.mpr ⟨x, hx, rfl⟩
  have hnn : ∀ v ∈ l.map (fun v => v ^ 2), (0 : ℝ) ≤ v := by
    intro v hv
    obtain ⟨w, _, rfl⟩ := List.mem_map.mp hv
    positivity
  have := List.single_le_sum hnn _ hmem
  have hpos : 0 < x ^ 2 := by positivity
  linarith

/-- **reduction of `hd` to a decidable exact check, every `j ≥ 1`, `N ≥ 1`**: if some exact rational pixel differs from pixel (0, 0)
(`nonconstPix ℚ j N`, a finite computation) then the image generated for `norm="p2v"` has a non-zero peak-to-valley -/
theorem noll_p2v_ne_zero (j N : ℕ) (hj : 1 ≤ j) (hN : 0 < N) (h : nonconstPix ℚ j N = true) :
    listMax (nollImage j N (0 : ℝ)) - listMin (nollImage j N (0 : ℝ)) ≠ 0 := by
  unfold nonconstPix at h
  simp only [List.any_eq_true, List.mem_range, decide_eq_true_eq] at h
  obtain ⟨r, hr, c, hc, hne⟩ := h
  refine p2v_ne_zero_of_two _ (nollPixel j N 0 r c) (nollPixel j N 0 0 0)
    (mem_image N _ r c hr hc) (mem_image N _ 0 0 hN hN) ?_
  rw [nollPixel_eq_polyPixel j N hj hN, nollPixel_eq_polyPixel j N hj hN]
  intro he
  have := mul_left_cancel₀ (ne_of_gt (normConst_pos _ _)) he
  exact hne (by exact_mod_cast this)

/-- **reduction of `hS` to a decidable exact check** -/
theorem noll_sumsq_ne_zero (j N : ℕ) (hj : 1 ≤ j) (hN : 0 < N) (h : nonzeroPix ℚ j N = true) :
    listSum ((nollImage j N (0 : ℝ)).map (fun v => v ^ 2)) ≠ 0 := by
  unfold nonzeroPix at h
  simp only [List.any_eq_true, List.mem_range, decide_eq_true_eq] at h
  obtain ⟨r, hr, c, hc, hne⟩ := h
  refine sumsq_ne_zero_of_mem _ (nollPixel j N 0 r c) (mem_image N _ r c hr hc) ?_
  rw [nollPixel_eq_polyPixel j N hj hN]
  apply mul_ne_zero (ne_of_gt (normConst_pos _ _))
  intro h0
  apply hne
  have : ((polyPixel (K := ℚ) j N r c : ℚ) : ℝ) = ((0 : ℚ) : ℝ) := by rw [h0]; simp
  have := Rat.cast_injective this
  simpa using this

/-- the pupil of every grid `N ≥ 1` is non-empty (hypothesis `hC` of `rms_unit`): the pixel `(N/2, N/2)` lies inside -/
theorem pupil_nonempty (N : ℕ) (hN : 0 < N) : 0 < listSum (circleImage N : List ℝ) := by
  rw [listSum_eq_sum]
  have hmem : (circleMask N (N / 2) (N / 2) : ℝ) ∈ (circleImage N : List ℝ) :=
    mem_image N _ (N / 2) (N / 2) (Nat.div_lt_self hN (by norm_num)) (Nat.div_lt_self hN (by norm_num))
  have hnn : ∀ v ∈ (circleImage N : List ℝ), (0 : ℝ) ≤ v := by
    intro v hv
    unfold circleImage image at hv
    simp only [List.mem_flatMap, List.mem_map, List.mem_range] at hv
    obtain ⟨r, _, c, _, rfl⟩ := hv
    unfold circleMask
    simp only
    split_ifs <;> norm_num
  have hle := List.single_le_sum hnn _ hmem
  have hone : (circleMask N (N / 2) (N / 2) : ℝ) = 1 := by
    unfold circleMask
    simp only
    rw [if_pos]
    · norm_num
    · rcases Nat.even_or_odd' N with ⟨k, rfl | rfl⟩
      · have hk : 1 ≤ k := by omega
        have hk' : (1 : ℝ) ≤ k := by exact_mod_cast hk
        rw [show 2 * k / 2 = k by omega]
        push_cast
        norm_num
        nlinarith
      · rw [show (2 * k + 1) / 2 = k by omega]
        push_cast
        norm_num
        nlinarith [sq_nonneg ((k : ℝ))]
  linarith

/-- **TABLE** (kernel-checked exact rational pixels, `j ≤ 28`, `N ≤ 12`, `rot = 0`; NOT an unbounded claim): the mode is constant on the
grid exactly for the listed exclusions `constExcl` (all modes for `N = 1`; piston, defocus, … for `N = 2`; piston, Noll 15 and 25 for
`N = 3`; none for `4 ≤ N ≤ 12`) and identically zero exactly for `zeroExcl` -/
theorem table_nondegenerate_le6 : ∀ N ∈ List.range 7, ∀ j ∈ List.range 29, 1 ≤ N → 1 ≤ j →
    nonconstPix ℚ j N = !(constExcl j N) ∧ nonzeroPix ℚ j N = !(zeroExcl j N) := by decide +kernel

theorem table_nondegenerate_7_9 : ∀ N ∈ [7, 8, 9], ∀ j ∈ List.range 29, 1 ≤ j →
    nonconstPix ℚ j N = !(constExcl j N) ∧ nonzeroPix ℚ j N = !(zeroExcl j N) := by decide +kernel

theorem table_nondegenerate_10_12 : ∀ N ∈ [10, 11, 12], ∀ j ∈ List.range 29, 1 ≤ j →
    nonconstPix ℚ j N = !(constExcl j N) ∧ nonzeroPix ℚ j N = !(zeroExcl j N) := by decide +kernel

theorem table_nondegenerate (j N : ℕ) (hj : 1 ≤ j) (hj28 : j ≤ 28) (hN : 1 ≤ N) (hN12 : N ≤ 12) :
    nonconstPix ℚ j N = !(constExcl j N) ∧ nonzeroPix ℚ j N = !(zeroExcl j N) := by
  have hjm : j ∈ List.range 29 := List.mem_range.mpr (by omega)
  by_cases h6 : N ≤ 6
  · exact table_nondegenerate_le6 N (List.mem_range.mpr (by omega)) j hjm hN hj
  · by_cases h9 : N ≤ 9
    · exact table_nondegenerate_7_9 N (by have : N = 7 ∨ N = 8 ∨ N = 9 := by omega
                                          rcases this with rfl | rfl | rfl <;> simp) j hjm hj
    · exact table_nondegenerate_10_12 N (by have : N = 10 ∨ N = 11 ∨ N = 12 := by omega
                                            rcases this with rfl | rfl | rfl <;> simp) j hjm hj

theorem constExcl_false_of_ge4 (j N : ℕ) (hN : 4 ≤ N) : constExcl j N = false := by
  unfold constExcl
  have h1 : (N == 1) = false := by simp; omega
  have h2 : (N == 2) = false := by simp; omega
  have h3 : (N == 3) = false := by simp; omega
  simp [h1, h2, h3]

theorem zeroExcl_false_of_ge4 (j N : ℕ) (hN : 4 ≤ N) : zeroExcl j N = false := by
  unfold zeroExcl
  have h1 : (N == 1) = false := by simp; omega
  have h2 : (N == 2) = false := by simp; omega
  have h3 : (N == 3) = false := by simp; omega
  simp [h1, h2, h3]

/-- **unit peak-to-valley of the ACTUAL generated mode** `zernikeArray(·, N, "p2v")[j-1]` (model, `rot = 0`): every `1 ≤ j ≤ 28` and
`1 ≤ N ≤ 12` outside the exclusion list `constExcl` — in particular all `4 ≤ N ≤ 12` (BOUNDED: rests on the TABLE) -/
theorem p2v_unit_noll (j N : ℕ) (hj : 1 ≤ j) (hj28 : j ≤ 28) (hN : 1 ≤ N) (hN12 : N ≤ 12) (hex : constExcl j N = false) :
    listMax (normalise .p2v N (nollImage j N (0 : ℝ))) - listMin (normalise .p2v N (nollImage j N (0 : ℝ))) = 1 := by
  apply p2v_unit
  apply noll_p2v_ne_zero j N hj hN
  rw [(table_nondegenerate j N hj hj28 hN hN12).1, hex]; rfl

/-- **unit RMS of the ACTUAL generated mode** `zernikeArray(·, N, "rms")[j-1]` (model, `rot = 0`), outside the exclusion list `zeroExcl` -/
theorem rms_unit_noll (j N : ℕ) (hj : 1 ≤ j) (hj28 : j ≤ 28) (hN : 1 ≤ N) (hN12 : N ≤ 12) (hex : zeroExcl j N = false) :
    Transc.sqrt (listSum ((normalise .rms N (nollImage j N (0 : ℝ))).map (fun v => v ^ 2)) / listSum (circleImage N : List ℝ)) = 1 := by
  apply rms_unit N _ (pupil_nonempty N hN)
  apply noll_sumsq_ne_zero j N hj hN
  rw [(table_nondegenerate j N hj hj28 hN hN12).2, hex]; rfl

/-- in particular: every mode `j ≤ 28` on every grid `4 ≤ N ≤ 12` -/
theorem p2v_unit_noll_ge4 (j N : ℕ) (hj : 1 ≤ j) (hj28 : j ≤ 28) (hN : 4 ≤ N) (hN12 : N ≤ 12) :
    listMax (normalise .p2v N (nollImage j N (0 : ℝ))) - listMin (normalise .p2v N (nollImage j N (0 : ℝ))) = 1 :=
  p2v_unit_noll j N hj hj28 (by omega) hN12 (constExcl_false_of_ge4 j N hN)

theorem rms_unit_noll_ge4 (j N : ℕ) (hj : 1 ≤ j) (hj28 : j ≤ 28) (hN : 4 ≤ N) (hN12 : N ≤ 12) :
    Transc.sqrt (listSum ((normalise .rms N (nollImage j N (0 : ℝ))).map (fun v => v ^ 2)) / listSum (circleImage N : List ℝ)) = 1 :=
  rms_unit_noll j N hj hj28 (by omega) hN12 (zeroExcl_false_of_ge4 j N hN)

end NonDegenerate

/-- non-vacuity of the hypotheses of `p2v_unit_noll` / `rms_unit_noll`: coma on a 5-grid is not excluded -/
example : (1 ≤ 8 ∧ 8 ≤ 28 ∧ 1 ≤ 5 ∧ 5 ≤ 12) ∧ constExcl 8 5 = false ∧ zeroExcl 8 5 = false := by decide

/-- the exclusions are genuine: piston on a 3-grid is constant and non-zero (all nine pixels inside the pupil), defocus on a 2-grid is
identically zero (`2r² − 1` at `r² = 1/2`), spherical (Noll 11) on a 2-grid is constant but non-zero; tilt on a 3-grid is neither -/
example : nonconstPix ℚ 1 3 = false ∧ nonzeroPix ℚ 1 3 = true ∧ nonconstPix ℚ 4 2 = false ∧ nonzeroPix ℚ 4 2 = false ∧
    nonconstPix ℚ 11 2 = false ∧ nonzeroPix ℚ 11 2 = true ∧ nonconstPix ℚ 2 3 = true ∧ nonzeroPix ℚ 2 3 = true := by decide +kernel

/-! ### exactness of the integer division in `radialCoefInt` (what `table_gamma_dx/dy` rest on), all orders + a kernel-checked table -/

section CoefExact
open AoVerif.Lemmas.ZernikePoly (fact_eq_factorial valid_split)

/-- the quotient in `radialCoefInt` is exact for EVERY valid `(n, m)` and `i ≤ (n-m)/2`: `q · (i! ((n+m)/2-i)! ((n-m)/2-i)!) = (n-i)!` -/
theorem radialCoefInt_exact (n m i : ℕ) (hm : m ≤ n) (hp : (n - m) % 2 = 0) (hi : i ≤ (n - m) / 2) :
    (radialCoefInt n m i).natAbs * (fact i * fact ((n + m) / 2 - i) * fact ((n - m) / 2 - i)) = fact (n - i) := by
  obtain ⟨hs, hn⟩ := valid_split n m hm hp
  have habs : (radialCoefInt n m i).natAbs = fact (n - i) / (fact i * fact ((n + m) / 2 - i) * fact ((n - m) / 2 - i)) := by
    unfold radialCoefInt
    simp only
    split_ifs
    · exact Int.natAbs_natCast _
    · rw [Int.natAbs_neg]; exact Int.natAbs_natCast _
  rw [habs]
  simp only [fact_eq_factorial, hn i]
  exact Nat.div_mul_cancel (Lemmas.ZernikeRadial.factorial_dvd _ _ i hi hs)

/-- **TABLE** (kernel-checked, `n ≤ 12`: every coefficient used by `table_gamma_dx/dy/dx12/dy12`; superseded by `radialCoefInt_exact`) -/
theorem table_radialCoefInt_exact : ∀ n ∈ List.range 13, ∀ m ∈ List.range (n + 1), (n - m) % 2 = 0 → ∀ i ∈ List.range ((n - m) / 2 + 1),
    (radialCoefInt n m i).natAbs * (fact i * fact ((n + m) / 2 - i) * fact ((n - m) / 2 - i)) = fact (n - i) := by decide +kernel

end CoefExact

/-! ### `int(numpy.round(·))` of the count path -/

/-- an integral count (`7`, `7.0`, `numpy.float64(7)`) is passed through unchanged -/
theorem npRound_integral (k d : ℕ) (hd : 0 < d) : npRound (k * d) d = k := by
  unfold npRound
  simp [Nat.mul_div_cancel _ hd, Nat.mul_mod_left, hd]

/-- **a count / size given as an integral float is the integer call**: `zernikeArray(7.0, 8.0) = zernikeArray(7, 8)` (law-free payload) -/
theorem count_float_integral {K : Type} [Add K] [Sub K] [Mul K] [Div K] [Neg K] [NatCast K] [OfScientific K] [HPow K Nat K]
    [Transc K] [LE K] [DecidableLE K] (J N d e : ℕ) (hd : 0 < d) (he : 0 < e) (norm : Norm) (rot : K) :
    zernikeArrayCountF (J * d) d (N * e) e norm rot = zernikeArrayCount J N norm rot := by
  unfold zernikeArrayCountF
  rw [npRound_integral J d hd, npRound_integral N e he]

/-- ties go to the even neighbour (`numpy.round(2.5) = 2`, `numpy.round(3.5) = 4`), otherwise to the nearest integer -/
example : npRound 5 2 = 2 ∧ npRound 7 2 = 4 ∧ npRound 66 10 = 7 ∧ npRound 64 10 = 6 ∧ npRound 1 2 = 0 := by decide


/-
NOT PROVED (kept as statements; listed in `chk.assumptions` of harness/props/c12.py):

* `radial_orthogonal : ∀ n n' m (valid), ∫ ρ in 0..1, radialFunc n m ρ * radialFunc n' m ρ * ρ = if n = n' then 1/(2(n+1)) else 0`
    — proved for n, n' ≤ 10 (`radial_orthogonal_le10`, from `radial_integral` + the TABLE); the general case needs the
      Jacobi-polynomial theory Mathlib lacks.  Together with the angular integrals this is continuous orthonormality.
* `gram_tends_to_identity : Tendsto (fun N => Gram matrix of zernikeArray J N) atTop (𝓝 1)` — a Riemann-sum / lattice-point statement;
    numeric only (oracle bound `2(n_max+1)/N`).
* `gamma_dx : ∀ nzrad i (x y : ℝ), HasDerivAt (fun x => modeCart n_i m_i 0 x y) (Σ_j gamxEntry (gammaNM nzrad) i j * modeCart n_j m_j 0 x y) x`
  (and `gamma_dy`) for ALL `nzrad` — proved for every `nzrad` only CONDITIONALLY on the decidable integer-polynomial check
    `ResidualTable _ nzrad` (`gamma_dx_of_table`, `gamma_dy_of_table`), and unconditionally for the 45 / 91 modes of radial order ≤ 8 / ≤ 12
    (`gamma_dx_le8`, `gamma_dy_le8`, `gamma_dx_le12`, `gamma_dy_le12`), where the check is a kernel-evaluated TABLE (`table_gamma_dx`,
    `table_gamma_dy`, `table_gamma_dx12`, `table_gamma_dy12`).  Every other link holds for all orders: `modeCart_eq_poly` (mode = c · eval
    zernPoly, incl. exactness of the integer division in `radialCoefInt`), `hasDerivAt_eval_dx/dy` (`Poly.dx/dy` = partial derivatives of
    `Poly.eval`), `gamx_cleared`/`gamy_cleared` (square roots), `gammaNM_noll` (ordering).  The missing piece is `∀ nzrad, ResidualTable _ nzrad`,
    i.e. Noll's derivative recurrence for general `n`: in complex form `∂_z̄ V_n^m = Σ_{n' = n-1, n-3, …} (n'+1) V_{n'}^{m+1}`, whose coefficient
    identity `Σ_t (-1)^t (n-2t) (n-1-t-k)!/(k-t)! = (n-k)!/k!` telescopes, PLUS its translation into the cos/sin, index-parity and Noll-position
    bookkeeping of rules b–d for a general row — not done.  Orders > 12 are not exercised either (oracle: exact-stencil derivative of the
    generated modes against `makegammas`, `nzrad ≤ 8` quick / `≤ 12` thorough).
-/

end AoVerif.Props.C12
