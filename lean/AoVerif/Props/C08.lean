/-
C08 — all closed-form turbulence statistics describe one von Kármán model.

Every theorem is about the definitions in `Gen/Formulas.lean`, REGENERATED from /repo on each run (translator T1):
`phase_covariance`, `structure_function_vk`, `structure_function_kolmogorov`, `kl_stf_kolmogorov`,
`kl_stf_vonKarman`, `kl_stf_vonKarman_yao`, `psd_ft_phase_screen`, `psd_ft_sh_phase_screen`.
The Bessel function `Transc.kv` is unconstrained (= universally quantified): the identities between the copies, the
shape identity with explicit constants, D(0) = 0 and the r0^(−5/3) scalings hold for ANY `kv`; monotonicity,
saturation, limits and positive semi-definiteness are proved from the NAMED HYPOTHESES `H1` / `PosDefKernel` (H2) of
`Lemmas/VonKarman.lean` — classical facts about K_{5/6} that Mathlib 4.33 cannot state, theorem hypotheses, not axioms.

Notation (Model/VonKarman.lean): h(x) = x^(5/6) K_{5/6}(x) (`hK`), h₀ = 2^(−1/6) Γ(5/6), κ_D = 0.17253 (`kappaD`),
κ_C = Γ(11/6) Γ(5/6) π^(−8/3) (24 Γ(6/5)/5)^(5/6) (`kappaC`), `amp r0 L0` = (L0/r0)^(5/3), `xarg r L0` = 2πr/L0,
C₀ = `covZero` = κ_C/2 · amp, `sfPos` = κ_D · amp · (1 − h(x)/h₀), `sfSat` = κ_D · amp, `covIdeal` = C₀ · h(x)/h₀.
-/
import AoVerif.Lemmas.VonKarman
import AoVerif.Lemmas.ExpKernel
import AoVerif.Gen.Formulas

namespace AoVerif.Props.C08
open AoVerif AoVerif.Gen AoVerif.VonKarman Real Filter Topology

set_option linter.unusedSectionVars false

section Main
variable [Transc ℝ] [RealTransc]

/-! ### the copies agree (any `kv`) -/

/-- the Karhunen–Loève copy is the slope-covariance structure function at r0 = 1 — for all arguments -/
theorem copies_agree (r L0 : ℝ) : kl_stf_vonKarman r L0 = structure_function_vk r 1 L0 := by
  simp only [kl_stf_vonKarman, structure_function_vk, Nat.cast_one]

/-- the two phase-screen generators use the same power spectrum -/
theorem psd_copies_agree (f fm f0 r0 : ℝ) : psd_ft_sh_phase_screen f fm f0 r0 = psd_ft_phase_screen f fm f0 r0 := rfl

/-- the two Kolmogorov copies differ exactly by the ratio of their published constants -/
theorem kolmogorov_copies (r r0 : ℝ) :
    kl_stf_kolmogorov (r / r0) = (6.8839 / 6.88) * structure_function_kolmogorov r r0 := by
  real_unfold [kl_stf_kolmogorov, structure_function_kolmogorov]
  norm_num
  ring

theorem kolmogorov_constants_close : |(6.8839 : ℝ) / 6.88 - 1| < 6e-4 := by
  rw [abs_lt]; constructor <;> norm_num

/-! ### zero separation -/

/-- D(0) = 0 exactly, for every r0, L0 and every `kv` -/
theorem D_zero (r0 L0 : ℝ) : structure_function_vk 0 r0 L0 = 0 := by
  real_unfold [structure_function_vk]
  simp

theorem kl_D_zero (L0 : ℝ) : kl_stf_vonKarman 0 L0 = 0 := by
  rw [copies_agree, D_zero]

theorem kolmogorov_zero (r0 : ℝ) : structure_function_kolmogorov 0 r0 = 0 := by
  real_unfold [structure_function_kolmogorov]
  rw [zero_div, Real.zero_rpow (by norm_num), mul_zero]

/-! ### normal forms -/

theorem h0_pos : 0 < (h0 : ℝ) := by
  real_unfold [h0]
  have := Real.Gamma_pos_of_pos (show (0:ℝ) < 5/6 by norm_num)
  positivity

theorem kappaC_pos : 0 < (kappaC : ℝ) := by
  real_unfold [kappaC]
  have h1 := Real.Gamma_pos_of_pos (show (0:ℝ) < 5/6 by norm_num)
  have h2 := Real.Gamma_pos_of_pos (show (0:ℝ) < 11/6 by norm_num)
  have h3 := Real.Gamma_pos_of_pos (show (0:ℝ) < 6/5 by norm_num)
  have hpi := Real.pi_pos
  positivity

theorem kappaD_pos : 0 < (kappaD : ℝ) := by
  real_unfold [kappaD]; norm_num

theorem amp_pos (r0 L0 : ℝ) (hr : 0 < r0) (hL : 0 < L0) : 0 < (amp r0 L0 : ℝ) := by
  real_unfold [amp]; positivity

/-- for r > 0 the structure function is κ_D (L0/r0)^(5/3) (1 − h(2πr/L0)/h₀) -/
theorem vk_normal_form (r r0 L0 : ℝ) (hr : 0 < r) (hL : 0 < L0) :
    structure_function_vk r r0 L0 = sfPos r r0 L0 := by
  have hc : ¬ (r ≤ 0 ∧ 0 ≤ r) := fun h => absurd h.1 (not_le.mpr hr)
  real_unfold [structure_function_vk, sfPos, hK, h0, kappaD, amp, xarg]
  simp only [if_neg hc]
  have hG := Real.Gamma_pos_of_pos (show (0:ℝ) < 5/6 by norm_num)
  have hpi := Real.pi_pos
  have e : (2 * π * r / L0) ^ ((5:ℝ)/6) = (2:ℝ) ^ ((5:ℝ)/6) * π ^ ((5:ℝ)/6) * (r / L0) ^ ((5:ℝ)/6) := by
    rw [show 2 * π * r / L0 = 2 * π * (r / L0) by ring, Real.mul_rpow (by positivity) (by positivity),
      Real.mul_rpow (by positivity) (by positivity)]
  have e2 : (2:ℝ) ^ ((5:ℝ)/6) = 2 * (2:ℝ) ^ ((-1:ℝ)/6) := by
    rw [show ((5:ℝ)/6) = 1 + (-1)/6 by norm_num, Real.rpow_add (by norm_num), Real.rpow_one]
  have h2 : 0 < (2:ℝ) ^ ((-1:ℝ)/6) := by positivity
  rw [e, e2]
  field_simp

/-- the covariance is C₀ · h(x)/h₀ at the code's own shifted separation r + 1e-40 — for all arguments, any `kv` -/
theorem cov_normal_form (r r0 L0 : ℝ) :
    phase_covariance r r0 L0 = covIdeal (r + 1e-40) r0 L0 := by
  real_unfold [phase_covariance, covIdeal, covZero, kappaC, hK, h0, amp, xarg]
  have hG := Real.Gamma_pos_of_pos (show (0:ℝ) < 5/6 by norm_num)
  have hpi := Real.pi_pos
  have e1 : (2:ℝ) ^ ((-5:ℝ)/6) = ((2:ℝ) * (2:ℝ) ^ ((-1:ℝ)/6))⁻¹ := by
    rw [show ((-5:ℝ)/6) = -(1 + (-1)/6) by norm_num, Real.rpow_neg (by norm_num), Real.rpow_add (by norm_num),
      Real.rpow_one]
  have e2 : π ^ ((-8:ℝ)/3) = (π ^ ((8:ℝ)/3))⁻¹ := by
    rw [show ((-8:ℝ)/3) = -(8/3) by norm_num, Real.rpow_neg hpi.le]
  have e3 : (24:ℝ) / 5 * Real.Gamma (6/5) = 24 * Real.Gamma (6/5) / 5 := by ring
  have h2 : 0 < (2:ℝ) ^ ((-1:ℝ)/6) := by positivity
  have h3 : 0 < π ^ ((8:ℝ)/3) := by positivity
  rw [e1, e2, e3]
  field_simp

/-- the slope-covariance function in the Karhunen–Loève module's dimensionless variables -/
theorem vk_dimensionless (r r0 L0 : ℝ) (hr0 : 0 < r0) :
    structure_function_vk r r0 L0 = kl_stf_vonKarman (r / r0) (L0 / r0) := by
  by_cases hr : r = 0
  · subst hr; rw [zero_div, kl_D_zero, D_zero]
  · have hc : ¬ (r ≤ 0 ∧ 0 ≤ r) := fun h => hr (le_antisymm h.1 h.2)
    have hq : r / r0 ≠ 0 := div_ne_zero hr hr0.ne'
    have hc' : ¬ (r / r0 ≤ 0 ∧ 0 ≤ r / r0) := fun h => hq (le_antisymm h.1 h.2)
    real_unfold [structure_function_vk, kl_stf_vonKarman]
    simp only [if_neg hc, if_neg hc']
    have a1 : L0 / r0 / 1 = L0 / r0 := div_one _
    have a2 : r / r0 / (L0 / r0) = r / L0 := by field_simp
    have a3 : 2 * π * (r / r0) / (L0 / r0) = 2 * π * r / L0 := by field_simp
    rw [a1, a2, a3]

/-! ### the shape identity: structure function = 2 (C₀ − C), with the explicit constants of the two formulas -/

/-- κ_C · D(s) = κ_D · 2 (C₀ − C(s)) between the normal forms, s > 0 not even needed -/
theorem shape_identity_normal (s r0 L0 : ℝ) :
    (kappaC : ℝ) * sfPos s r0 L0 = kappaD * (2 * (covZero r0 L0 - covIdeal s r0 L0)) := by
  have := h0_pos.ne'
  real_unfold [sfPos, covIdeal, covZero]
  field_simp

/-- **shape identity on the generated code**: κ_C · structure_function_vk(r + ε) = κ_D · 2 (C₀ − phase_covariance(r)),
ε = 1e-40 being `phase_covariance`'s own offset; C₀ = κ_C/2 · (L0/r0)^(5/3).  (κ_C/κ_D − 1 ≈ 5.7·10⁻⁴ is the
rounding of the published constants: evaluated numerically by the harness, not proved.) -/
theorem shape_identity (r r0 L0 : ℝ) (hr : 0 ≤ r) (hL : 0 < L0) :
    (kappaC : ℝ) * structure_function_vk (r + 1e-40) r0 L0
      = kappaD * (2 * (covZero r0 L0 - phase_covariance r r0 L0)) := by
  have hpos : (0:ℝ) < r + 1e-40 := by
    have : (0:ℝ) < 1e-40 := by norm_num
    linarith
  rw [vk_normal_form _ _ _ hpos hL, cov_normal_form, shape_identity_normal]

/-! ### r0^(−5/3) scaling (any `kv`) -/

private theorem amp_scaling_raw (c r0 L0 : ℝ) (hc : 0 < c) (hr : 0 < r0) (hL : 0 < L0) :
    (L0 / (c * r0)) ^ ((5:ℝ)/3) = c ^ ((-5:ℝ)/3) * (L0 / r0) ^ ((5:ℝ)/3) := by
  rw [show L0 / (c * r0) = c⁻¹ * (L0 / r0) by field_simp, Real.mul_rpow (by positivity) (by positivity),
    Real.inv_rpow hc.le, ← Real.rpow_neg hc.le]
  norm_num

theorem amp_scaling (c r0 L0 : ℝ) (hc : 0 < c) (hr : 0 < r0) (hL : 0 < L0) :
    (amp (c * r0) L0 : ℝ) = c ^ ((-5:ℝ)/3) * amp r0 L0 := by
  real_unfold [amp]
  exact amp_scaling_raw c r0 L0 hc hr hL

theorem r0_scaling_vk (c r r0 L0 : ℝ) (hc : 0 < c) (hr0 : 0 < r0) (hL : 0 < L0) :
    structure_function_vk r (c * r0) L0 = c ^ ((-5:ℝ)/3) * structure_function_vk r r0 L0 := by
  have ha := amp_scaling_raw c r0 L0 hc hr0 hL
  real_unfold [structure_function_vk]
  rw [ha]
  split_ifs <;> ring

theorem r0_scaling_cov (c r r0 L0 : ℝ) (hc : 0 < c) (hr0 : 0 < r0) (hL : 0 < L0) :
    phase_covariance r (c * r0) L0 = c ^ ((-5:ℝ)/3) * phase_covariance r r0 L0 := by
  have ha := amp_scaling_raw c r0 L0 hc hr0 hL
  real_unfold [phase_covariance]
  rw [ha]
  ring

theorem r0_scaling_kolmogorov (c r r0 : ℝ) (hc : 0 < c) (hr0 : 0 < r0) (hr : 0 ≤ r) :
    structure_function_kolmogorov r (c * r0) = c ^ ((-5:ℝ)/3) * structure_function_kolmogorov r r0 := by
  real_unfold [structure_function_kolmogorov]
  rw [show r / (c * r0) = c⁻¹ * (r / r0) by field_simp, Real.mul_rpow (by positivity) (by positivity),
    Real.inv_rpow hc.le, ← Real.rpow_neg hc.le]
  norm_num
  ring

theorem r0_scaling_psd (c f fm f0 r0 : ℝ) (hc : 0 < c) (hr0 : 0 < r0) :
    psd_ft_phase_screen f fm f0 (c * r0) = c ^ ((-5:ℝ)/3) * psd_ft_phase_screen f fm f0 r0 := by
  real_unfold [psd_ft_phase_screen]
  rw [Real.mul_rpow hc.le hr0.le]
  ring

theorem psd_nonneg (f fm f0 r0 : ℝ) (hr0 : 0 < r0) : 0 ≤ psd_ft_phase_screen f fm f0 r0 := by
  real_unfold [psd_ft_phase_screen]
  positivity

/-! ### monotonicity, bounds, limits — under H1 -/

theorem xarg_eq (r L0 : ℝ) : (xarg r L0 : ℝ) = 2 * π / L0 * r := by
  real_unfold [xarg]; ring

theorem xarg_pos (r L0 : ℝ) (hr : 0 < r) (hL : 0 < L0) : 0 < (xarg r L0 : ℝ) := by
  rw [xarg_eq]; have := Real.pi_pos; positivity

theorem sfPos_eq (r r0 L0 : ℝ) : (sfPos r r0 L0 : ℝ) = kappaD * amp r0 L0 * (1 - hK (xarg r L0) / h0) := by
  real_unfold [sfPos]

theorem sfSat_nonneg (r0 L0 : ℝ) (hr0 : 0 < r0) (hL : 0 < L0) : 0 ≤ (kappaD * amp r0 L0 : ℝ) :=
  (mul_pos kappaD_pos (amp_pos r0 L0 hr0 hL)).le

theorem D_nonneg (H : H1) (r r0 L0 : ℝ) (hr : 0 ≤ r) (hr0 : 0 < r0) (hL : 0 < L0) :
    0 ≤ structure_function_vk r r0 L0 := by
  rcases hr.eq_or_lt with h | h
  · rw [← h, D_zero]
  · rw [vk_normal_form _ _ _ h hL, sfPos_eq]
    have h1 := H.le_h0 (xarg_pos r L0 h hL)
    have h2 : hK (xarg r L0) / h0 ≤ (1:ℝ) := (div_le_one h0_pos).mpr h1
    exact mul_nonneg (sfSat_nonneg r0 L0 hr0 hL) (by linarith)

/-- the structure function never exceeds its saturation value κ_D (L0/r0)^(5/3) -/
theorem D_le_sat (H : H1) (r r0 L0 : ℝ) (hr : 0 ≤ r) (hr0 : 0 < r0) (hL : 0 < L0) :
    structure_function_vk r r0 L0 ≤ sfSat r0 L0 := by
  have hs := sfSat_nonneg r0 L0 hr0 hL
  rcases hr.eq_or_lt with h | h
  · rw [← h, D_zero]; real_unfold [sfSat]; exact hs
  · rw [vk_normal_form _ _ _ h hL, sfPos_eq]
    real_unfold [sfSat]
    have h1 := H.nonneg (xarg_pos r L0 h hL)
    have h2 : 0 ≤ hK (xarg r L0) / (h0:ℝ) := div_nonneg h1 h0_pos.le
    calc kappaD * amp r0 L0 * (1 - hK (xarg r L0) / h0) ≤ kappaD * amp r0 L0 * 1 := by gcongr; linarith
      _ = _ := mul_one _

/-- **non-decreasing** on [0, ∞), zero included -/
theorem D_monotone (H : H1) (r s r0 L0 : ℝ) (hr : 0 ≤ r) (hrs : r ≤ s) (hr0 : 0 < r0) (hL : 0 < L0) :
    structure_function_vk r r0 L0 ≤ structure_function_vk s r0 L0 := by
  rcases hr.eq_or_lt with h | h
  · rw [← h, D_zero]; exact D_nonneg H s r0 L0 (hr.trans hrs) hr0 hL
  · have hs : 0 < s := lt_of_lt_of_le h hrs
    rw [vk_normal_form _ _ _ h hL, vk_normal_form _ _ _ hs hL, sfPos_eq, sfPos_eq]
    have hx : (xarg r L0 : ℝ) ≤ xarg s L0 := by
      rw [xarg_eq, xarg_eq]; have := Real.pi_pos; gcongr
    have ha := H.antitone (Set.mem_Ioi.mpr (xarg_pos r L0 h hL)) (Set.mem_Ioi.mpr (xarg_pos s L0 hs hL)) hx
    have hs' := sfSat_nonneg r0 L0 hr0 hL
    have h0p := h0_pos
    gcongr

private theorem sf_limit {l : Filter ℝ} {f : ℝ → ℝ} {a : ℝ} (r0 L0 : ℝ) (hf : Tendsto f l (𝓝 a)) :
    Tendsto (fun r => (kappaD * amp r0 L0 : ℝ) * (1 - f r / h0)) l (𝓝 (kappaD * amp r0 L0 * (1 - a / h0))) :=
  ((hf.div_const _).const_sub _).const_mul _

/-- D(r) → 0 = D(0) as r → 0⁺: the structure function is continuous at zero separation -/
theorem D_tendsto_zero (H : H1) (r0 L0 : ℝ) (hL : 0 < L0) :
    Tendsto (fun r => structure_function_vk r r0 L0) (𝓝[>] 0) (𝓝 0) := by
  have hpi := Real.pi_pos
  have hx : Tendsto (fun r : ℝ => (xarg r L0 : ℝ)) (𝓝[>] 0) (𝓝[>] 0) := by
    refine tendsto_nhdsWithin_iff.mpr ⟨?_, ?_⟩
    · have : Tendsto (fun r : ℝ => 2 * π / L0 * r) (𝓝 0) (𝓝 (2 * π / L0 * 0)) :=
        (continuous_const.mul continuous_id).tendsto 0
      rw [mul_zero] at this
      simp only [xarg_eq]
      exact this.mono_left nhdsWithin_le_nhds
    · filter_upwards [self_mem_nhdsWithin] with r hr
      exact xarg_pos r L0 hr hL
  have h1 := sf_limit r0 L0 (H.lim_zero.comp hx)
  rw [div_self h0_pos.ne', sub_self, mul_zero] at h1
  refine h1.congr' ?_
  filter_upwards [self_mem_nhdsWithin] with r hr
  rw [vk_normal_form _ _ _ hr hL, sfPos_eq]
  rfl

/-- **saturation**: D(r) → κ_D (L0/r0)^(5/3) as r → ∞ -/
theorem D_saturates (H : H1) (r0 L0 : ℝ) (hL : 0 < L0) :
    Tendsto (fun r => structure_function_vk r r0 L0) atTop (𝓝 (sfSat r0 L0)) := by
  have hpi := Real.pi_pos
  have hx : Tendsto (fun r : ℝ => (xarg r L0 : ℝ)) atTop atTop := by
    simp only [xarg_eq]
    exact tendsto_id.const_mul_atTop (by positivity)
  have h1 := sf_limit r0 L0 (H.lim_top.comp hx)
  rw [zero_div, sub_zero, mul_one] at h1
  have e : (sfSat r0 L0 : ℝ) = kappaD * amp r0 L0 := by real_unfold [sfSat]
  rw [e]
  refine h1.congr' ?_
  filter_upwards [eventually_gt_atTop 0] with r hr
  rw [vk_normal_form _ _ _ hr hL, sfPos_eq]
  rfl

/-! ### the covariance under H1 -/

theorem covZero_pos (r0 L0 : ℝ) (hr0 : 0 < r0) (hL : 0 < L0) : 0 < (covZero r0 L0 : ℝ) := by
  have h1 := kappaC_pos
  have h2 := amp_pos r0 L0 hr0 hL
  real_unfold [covZero]
  positivity

theorem covIdeal_eq (s r0 L0 : ℝ) : (covIdeal s r0 L0 : ℝ) = covZero r0 L0 * (hK (xarg s L0) / h0) := rfl

private theorem eps_pos : (0:ℝ) < 1e-40 := by norm_num

/-- 0 ≤ C(r) ≤ C₀ -/
theorem cov_bounds (H : H1) (r r0 L0 : ℝ) (hr : 0 ≤ r) (hr0 : 0 < r0) (hL : 0 < L0) :
    0 ≤ phase_covariance r r0 L0 ∧ phase_covariance r r0 L0 ≤ covZero r0 L0 := by
  have hs : (0:ℝ) < r + 1e-40 := by have := eps_pos; linarith
  have hx := xarg_pos _ L0 hs hL
  have hc := covZero_pos r0 L0 hr0 hL
  have h0p := h0_pos
  rw [cov_normal_form, covIdeal_eq]
  constructor
  · exact mul_nonneg hc.le (div_nonneg (H.nonneg hx) h0p.le)
  · have : hK (xarg (r + 1e-40) L0) / h0 ≤ (1:ℝ) := (div_le_one h0p).mpr (H.le_h0 hx)
    calc covZero r0 L0 * (hK (xarg (r + 1e-40) L0) / h0) ≤ covZero r0 L0 * 1 := by gcongr
      _ = _ := mul_one _

/-- the covariance is non-increasing in the separation -/
theorem cov_antitone (H : H1) (r s r0 L0 : ℝ) (hr : 0 ≤ r) (hrs : r ≤ s) (hr0 : 0 < r0) (hL : 0 < L0) :
    phase_covariance s r0 L0 ≤ phase_covariance r r0 L0 := by
  have hr' : (0:ℝ) < r + 1e-40 := by have := eps_pos; linarith
  have hs' : (0:ℝ) < s + 1e-40 := by linarith
  have hx : (xarg (r + 1e-40) L0 : ℝ) ≤ xarg (s + 1e-40) L0 := by
    rw [xarg_eq, xarg_eq]; have := Real.pi_pos; gcongr
  have ha := H.antitone (Set.mem_Ioi.mpr (xarg_pos _ L0 hr' hL)) (Set.mem_Ioi.mpr (xarg_pos _ L0 hs' hL)) hx
  have hc := (covZero_pos r0 L0 hr0 hL).le
  have h0p := h0_pos
  rw [cov_normal_form, cov_normal_form, covIdeal_eq, covIdeal_eq]
  gcongr

/-- C(r) → 0 as r → ∞ (so D → 2 C₀·κ_D/κ_C, consistently with `D_saturates` and `shape_identity`) -/
theorem cov_tendsto_zero (H : H1) (r0 L0 : ℝ) (hL : 0 < L0) :
    Tendsto (fun r => phase_covariance r r0 L0) atTop (𝓝 0) := by
  have hpi := Real.pi_pos
  have hx : Tendsto (fun r : ℝ => (xarg (r + 1e-40) L0 : ℝ)) atTop atTop := by
    simp only [xarg_eq]
    exact (tendsto_atTop_add_const_right _ _ tendsto_id).const_mul_atTop (by positivity)
  have h1 := ((H.lim_top.comp hx).div_const (h0:ℝ)).const_mul (covZero r0 L0 : ℝ)
  rw [zero_div, mul_zero] at h1
  refine h1.congr' (Eventually.of_forall fun r => ?_)
  show _ = phase_covariance r r0 L0
  rw [cov_normal_form, covIdeal_eq]
  rfl

/-- C₀ is the zero-separation limit of the ideal covariance C₀ h(2πs/L0)/h₀ -/
theorem covIdeal_tendsto_covZero (H : H1) (r0 L0 : ℝ) (hL : 0 < L0) :
    Tendsto (fun s => (covIdeal s r0 L0 : ℝ)) (𝓝[>] 0) (𝓝 (covZero r0 L0)) := by
  have hpi := Real.pi_pos
  have hx : Tendsto (fun r : ℝ => (xarg r L0 : ℝ)) (𝓝[>] 0) (𝓝[>] 0) := by
    refine tendsto_nhdsWithin_iff.mpr ⟨?_, ?_⟩
    · have : Tendsto (fun r : ℝ => 2 * π / L0 * r) (𝓝 0) (𝓝 (2 * π / L0 * 0)) :=
        (continuous_const.mul continuous_id).tendsto 0
      rw [mul_zero] at this
      simp only [xarg_eq]
      exact this.mono_left nhdsWithin_le_nhds
    · filter_upwards [self_mem_nhdsWithin] with r hr
      exact xarg_pos r L0 hr hL
  have h1 := ((H.lim_zero.comp hx).div_const (h0:ℝ)).const_mul (covZero r0 L0 : ℝ)
  rw [div_self h0_pos.ne', mul_one] at h1
  exact h1

/-! ### positive semi-definiteness — under H2

READ THIS BEFORE COUNTING THE NEXT THEOREM AS "PSD PROVED".  `PosDefKernel E g` says `0 ≤ Σᵢⱼ cᵢ cⱼ g(dist pᵢ pⱼ)` for
all finite point sets — which IS positive semi-definiteness of the matrices `g(dist pᵢ pⱼ)`.  `cov_posSemidef` assumes
it for `g = h(2π(· + 1e-40)/L0)` and concludes it for `phase_covariance = (C₀/h₀)·g` with `C₀/h₀ ≥ 0`: it transports
the property through the coded formula (constants non-negative, the argument really is `2π(r+1e-40)/L0`), it does NOT
establish it.  The property clause "every matrix of phase covariances is positive semi-definite" is carried by the
eigenvalue oracle of `harness/props/c08.py` only (and listed there under `assumptions` as NOT PROVED).
`H1_H2_jointly_satisfiable` below shows that H1 and H2 can hold together (one `kv`), i.e. that the theorems under these
hypotheses are not vacuous — nothing more. -/

/-- **every matrix of phase covariances between finitely many points is positive semi-definite**, if the radial
kernel the code evaluates, r ↦ h(2π(r + 1e-40)/L0), is positive definite on the space `E` the points live in
(hypothesis H2: for E = ℝ² this is the non-negativity of the von Kármán spectrum, up to the code's 1e-40 offset) -/
theorem cov_posSemidef {E : Type*} [PseudoMetricSpace E] (r0 L0 : ℝ) (hr0 : 0 < r0) (hL : 0 < L0)
    (H2 : PosDefKernel E (fun r => (hK (xarg (r + 1e-40) L0) : ℝ))) (n : ℕ) (p : Fin n → E) :
    (Matrix.of fun i j : Fin n => phase_covariance (dist (p i) (p j)) r0 L0).PosSemidef := by
  have ha : 0 ≤ (covZero r0 L0 / h0 : ℝ) := div_nonneg (covZero_pos r0 L0 hr0 hL).le h0_pos.le
  have e : (Matrix.of fun i j : Fin n => phase_covariance (dist (p i) (p j)) r0 L0)
      = Matrix.of fun i j : Fin n => covZero r0 L0 / h0 * (hK (xarg (dist (p i) (p j) + 1e-40) L0) : ℝ) := by
    ext i j
    simp only [Matrix.of_apply]
    rw [cov_normal_form, covIdeal_eq]
    ring
  rw [e]
  exact posSemidef_of_kernel H2 ha n p

/-! ### Yao's series (KL module): Kolmogorov limit and zero -/

theorem yao_zero (L : ℝ) : kl_stf_vonKarman_yao 0 L = 0 := by
  real_unfold [kl_stf_vonKarman_yao]
  rw [Real.zero_rpow (by norm_num)]
  ring

/-- Yao's expansion tends to the Kolmogorov law 6.88 r^(5/3) as the outer scale grows -/
theorem yao_tendsto_kolmogorov (r : ℝ) :
    Tendsto (fun L => kl_stf_vonKarman_yao r L) atTop (𝓝 (6.88 * r ^ ((5:ℝ)/3))) := by
  have hq : Tendsto (fun L : ℝ => r / L) atTop (𝓝 0) := tendsto_const_nhds.div_atTop tendsto_id
  have h13 : Tendsto (fun L : ℝ => (r / L) ^ ((1:ℝ)/3)) atTop (𝓝 0) := by
    have := hq.rpow_const (p := (1:ℝ)/3) (Or.inr (by norm_num))
    rwa [Real.zero_rpow (by norm_num)] at this
  have h73 : Tendsto (fun L : ℝ => (r / L) ^ ((7:ℝ)/3)) atTop (𝓝 0) := by
    have := hq.rpow_const (p := (7:ℝ)/3) (Or.inr (by norm_num))
    rwa [Real.zero_rpow (by norm_num)] at this
  have h2 : Tendsto (fun L : ℝ => (r / L) ^ (2:ℕ)) atTop (𝓝 0) := by
    have := hq.pow 2
    rwa [zero_pow (by norm_num)] at this
  have := (((h13.const_mul 1.485).const_sub 1).add (h2.const_mul 5.383)).sub (h73.const_mul 6.281)
  have := this.const_mul (6.88 * r ^ ((5:ℝ)/3))
  simp only [mul_zero, sub_zero, add_zero, mul_one] at this
  real_unfold [kl_stf_vonKarman_yao]
  norm_num at this ⊢
  exact this

/-! ### constants -/

/-- "saturates at twice the variance 0.0863 (L0/r0)^(5/3)": κ_D / 2 is 0.0863 to the rounding of that figure -/
theorem saturation_constant : |(kappaD : ℝ) / 2 - 0.0863| < 5e-5 := by
  real_unfold [kappaD]
  rw [abs_lt]; constructor <;> norm_num

/-- the property's wording: the structure function IS twice (C₀ − C), up to the ratio κ_D/κ_C of the published constants -/
theorem D_eq_twice_cov_diff (r r0 L0 : ℝ) (hr : 0 ≤ r) (hL : 0 < L0) :
    structure_function_vk (r + 1e-40) r0 L0
      = (kappaD / kappaC : ℝ) * (2 * (covZero r0 L0 - phase_covariance r r0 L0)) := by
  have h := shape_identity r r0 L0 hr hL
  have hk := kappaC_pos.ne'
  field_simp
  linarith

/-- the saturation value is twice the variance C₀, up to the same ratio -/
theorem sat_eq_twice_variance (r0 L0 : ℝ) : (sfSat r0 L0 : ℝ) = kappaD / kappaC * (2 * covZero r0 L0) := by
  have hk := kappaC_pos.ne'
  real_unfold [sfSat, covZero]
  field_simp

/-! ### the Kolmogorov law and the spectrum are monotone -/

theorem kolmogorov_monotone (r s r0 : ℝ) (hr : 0 ≤ r) (hrs : r ≤ s) (hr0 : 0 < r0) :
    structure_function_kolmogorov r r0 ≤ structure_function_kolmogorov s r0 := by
  real_unfold [structure_function_kolmogorov]
  have : r / r0 ≤ s / r0 := by gcongr
  have h2 : (r / r0) ^ ((5:ℝ)/3) ≤ (s / r0) ^ ((5:ℝ)/3) :=
    Real.rpow_le_rpow (by positivity) this (by norm_num)
  linarith

/-- the screen spectrum is non-increasing in the spatial frequency -/
theorem psd_antitone (f g fm f0 r0 : ℝ) (hf : 0 ≤ f) (hfg : f ≤ g) (hr0 : 0 < r0) (hf0 : f0 ≠ 0) :
    psd_ft_phase_screen g fm f0 r0 ≤ psd_ft_phase_screen f fm f0 r0 := by
  real_unfold [psd_ft_phase_screen]
  have hf0' : 0 < f0 ^ 2 := by positivity
  have h1 : f ^ 2 ≤ g ^ 2 := by gcongr
  have hq : (f / fm) ^ 2 ≤ (g / fm) ^ 2 := by
    rw [div_pow, div_pow]; gcongr
  have he : Real.exp (-1 * (g / fm) ^ 2) ≤ Real.exp (-1 * (f / fm) ^ 2) := Real.exp_le_exp.mpr (by linarith)
  have hd : (f ^ 2 + f0 ^ 2) ^ ((11:ℝ)/6) ≤ (g ^ 2 + f0 ^ 2) ^ ((11:ℝ)/6) :=
    Real.rpow_le_rpow (by positivity) (by linarith) (by norm_num)
  have hdp : 0 < (f ^ 2 + f0 ^ 2) ^ ((11:ℝ)/6) := by positivity
  have hc : 0 ≤ 23e-3 * r0 ^ ((-5:ℝ)/3) := by positivity
  gcongr

/-! ### the ideal kernel (no offset): positive semi-definite under the classical H2 -/

/-- ideal covariance on [0,∞): C₀ at r = 0, C₀ h(2πr/L0)/h₀ for r > 0 -/
noncomputable def covExt (r r0 L0 : ℝ) : ℝ := if r = 0 then covZero r0 L0 else covIdeal r r0 L0

/-- h extended by its limit h₀ at 0 -/
noncomputable def hExt (x : ℝ) : ℝ := if x = 0 then h0 else hK x

/-- with the classical H2 (r ↦ hExt(2πr/L0) positive definite on `E`) the ideal covariance matrices are positive
semi-definite; `phase_covariance r` is `covExt (r + 1e-40)` (`cov_normal_form`) -/
theorem covExt_posSemidef {E : Type*} [PseudoMetricSpace E] (r0 L0 : ℝ) (hr0 : 0 < r0) (hL : 0 < L0)
    (H2 : PosDefKernel E (fun r => hExt (xarg r L0))) (n : ℕ) (p : Fin n → E) :
    (Matrix.of fun i j : Fin n => covExt (dist (p i) (p j)) r0 L0).PosSemidef := by
  have ha : 0 ≤ (covZero r0 L0 / h0 : ℝ) := div_nonneg (covZero_pos r0 L0 hr0 hL).le h0_pos.le
  have e : (Matrix.of fun i j : Fin n => covExt (dist (p i) (p j)) r0 L0)
      = Matrix.of fun i j : Fin n => covZero r0 L0 / h0 * hExt (xarg (dist (p i) (p j)) L0) := by
    ext i j
    simp only [Matrix.of_apply, covExt, hExt]
    have hpi := Real.pi_pos
    by_cases h : dist (p i) (p j) = 0
    · have hx : (xarg (dist (p i) (p j)) L0 : ℝ) = 0 := by rw [h, xarg_eq, mul_zero]
      rw [if_pos h, if_pos hx]
      have := h0_pos.ne'
      field_simp
    · have hx : (xarg (dist (p i) (p j)) L0 : ℝ) ≠ 0 := by
        rw [xarg_eq]; positivity
      rw [if_neg h, if_neg hx, covIdeal_eq]
      ring
  rw [e]
  exact posSemidef_of_kernel H2 ha n p

theorem cov_eq_covExt (r r0 L0 : ℝ) (hr : 0 ≤ r) : phase_covariance r r0 L0 = covExt (r + 1e-40) r0 L0 := by
  have : r + 1e-40 ≠ 0 := by
    have : (0:ℝ) < 1e-40 := by norm_num
    positivity
  rw [cov_normal_form, covExt, if_neg this]

end Main

/-! ### non-vacuity of the named hypotheses -/

/-- H1 is satisfiable: with `kv ν x = h₀ e^(−x) / x^(5/6)` one gets h(x) = h₀ e^(−x) on (0,∞) -/
example : ∃ kv : ℝ → ℝ → ℝ, @H1 (realTransc kv) := by
  have hc : (0:ℝ) < 2 ^ ((-1:ℝ)/6) * Real.Gamma (5/6) := by
    have := Real.Gamma_pos_of_pos (show (0:ℝ) < 5/6 by norm_num)
    positivity
  generalize hcdef : (2:ℝ) ^ ((-1:ℝ)/6) * Real.Gamma (5/6) = c at hc
  refine ⟨fun _ x => c * Real.exp (-x) / x ^ ((5:ℝ)/6), ?_⟩
  let _ : Transc ℝ := realTransc (fun _ x => c * Real.exp (-x) / x ^ ((5:ℝ)/6))
  have hh : ∀ x : ℝ, 0 < x → (hK x : ℝ) = c * Real.exp (-x) := by
    intro x hx
    have hx' : 0 < x ^ ((5:ℝ)/6) := by positivity
    show x ^ (((5:ℕ):ℝ) / ((6:ℕ):ℝ)) * (c * Real.exp (-x) / x ^ ((5:ℝ)/6)) = _
    simp only [Nat.cast_ofNat]
    field_simp
  have h0e : (h0 : ℝ) = c := by
    show (((2:ℕ):ℝ)) ^ ((-((1:ℕ):ℝ)) / ((6:ℕ):ℝ)) * Real.Gamma (((5:ℕ):ℝ) / ((6:ℕ):ℝ)) = c
    simp only [Nat.cast_ofNat, Nat.cast_one]
    exact hcdef
  refine ⟨?_, ?_, ?_⟩
  · intro x hx y hy hxy
    rw [hh x hx, hh y hy]
    have : Real.exp (-y) ≤ Real.exp (-x) := Real.exp_le_exp.mpr (by linarith)
    gcongr
  · rw [h0e]
    have : Tendsto (fun x : ℝ => c * Real.exp (-x)) (𝓝 0) (𝓝 (c * Real.exp (-0))) :=
      (continuous_const.mul (Real.continuous_exp.comp continuous_neg)).tendsto 0
    rw [neg_zero, Real.exp_zero, mul_one] at this
    refine (this.mono_left nhdsWithin_le_nhds).congr' ?_
    filter_upwards [self_mem_nhdsWithin] with x hx
    exact (hh x hx).symm
  · have : Tendsto (fun x : ℝ => c * Real.exp (-x)) atTop (𝓝 (c * 0)) :=
      Real.tendsto_exp_neg_atTop_nhds_zero.const_mul c
    rw [mul_zero] at this
    refine this.congr' ?_
    filter_upwards [eventually_gt_atTop 0] with x hx
    exact (hh x hx).symm

/-- H2 alone is satisfiable on every space, trivially: with `kv ν x = x^(−5/6)` the kernel is the constant 1 (this `kv`
violates H1; the joint witness is `H1_H2_jointly_satisfiable`) -/
example (E : Type) [PseudoMetricSpace E] (L0 : ℝ) (hL : 0 < L0) : ∃ kv : ℝ → ℝ → ℝ,
    @PosDefKernel E _ (fun r => @hK ℝ _ _ _ (realTransc kv) (@xarg ℝ _ _ _ (realTransc kv) (r + 1e-40) L0)) := by
  refine ⟨fun _ x => 1 / x ^ ((5:ℝ)/6), ?_⟩
  intro n p c
  have hk : ∀ r : ℝ, 0 ≤ r →
      @hK ℝ _ _ _ (realTransc fun _ x => 1 / x ^ ((5:ℝ)/6))
        (@xarg ℝ _ _ _ (realTransc fun _ x => 1 / x ^ ((5:ℝ)/6)) (r + 1e-40) L0) = 1 := by
    intro r hr
    have hpi := Real.pi_pos
    have : (0:ℝ) < 2 * π * (r + 1e-40) / L0 := by
      have : (0:ℝ) < 1e-40 := by norm_num
      positivity
    have hx' : 0 < (2 * π * (r + 1e-40) / L0) ^ ((5:ℝ)/6) := by positivity
    show (((2:ℕ):ℝ) * π * (r + 1e-40) / L0) ^ (((5:ℕ):ℝ) / ((6:ℕ):ℝ))
      * (1 / (((2:ℕ):ℝ) * π * (r + 1e-40) / L0) ^ ((5:ℝ)/6)) = 1
    simp only [Nat.cast_ofNat]
    field_simp
  simp only [hk _ dist_nonneg, mul_one]
  rw [← Finset.sum_mul_sum]
  exact mul_self_nonneg _

/-- **H1 and H2 are JOINTLY satisfiable, by one and the same `kv`** (on the line `E = ℝ`, every `L0 > 0`): with
`kv ν x = h₀ e^(−x) / x^(5/6)` one has `h(x) = h₀ e^(−x)` on (0,∞), which satisfies H1, and the coded kernel
`r ↦ h(2π(r + 1e-40)/L0) = h₀ e^(−2π·1e-40/L0) · e^(−(2π/L0) r)` is the exponential (Ornstein–Uhlenbeck) kernel, positive
definite on ℝ (`exp_kernel_nonneg`).  So the hypothesis set {H1, H2} used by the theorems above is consistent; a joint
witness on an ARBITRARY pseudo-metric space cannot exist (a non-constant antitone kernel is not positive definite on the
bipartite metric d(aᵢ,bⱼ)=1, d(aᵢ,aⱼ)=d(bᵢ,bⱼ)=2), which is why `cov_posSemidef` takes H2 for the space at hand. -/
theorem H1_H2_jointly_satisfiable (L0 : ℝ) (hL : 0 < L0) : ∃ kv : ℝ → ℝ → ℝ,
    @H1 (realTransc kv) ∧
    @PosDefKernel ℝ _ (fun r => @hK ℝ _ _ _ (realTransc kv) (@xarg ℝ _ _ _ (realTransc kv) (r + 1e-40) L0)) := by
  have hc : (0:ℝ) < 2 ^ ((-1:ℝ)/6) * Real.Gamma (5/6) := by
    have := Real.Gamma_pos_of_pos (show (0:ℝ) < 5/6 by norm_num)
    positivity
  generalize hcdef : (2:ℝ) ^ ((-1:ℝ)/6) * Real.Gamma (5/6) = c at hc
  refine ⟨fun _ x => c * Real.exp (-x) / x ^ ((5:ℝ)/6), ?_, ?_⟩
  · let _ : Transc ℝ := realTransc (fun _ x => c * Real.exp (-x) / x ^ ((5:ℝ)/6))
    have hh : ∀ x : ℝ, 0 < x → (hK x : ℝ) = c * Real.exp (-x) := by
      intro x hx
      have hx' : 0 < x ^ ((5:ℝ)/6) := by positivity
      show x ^ (((5:ℕ):ℝ) / ((6:ℕ):ℝ)) * (c * Real.exp (-x) / x ^ ((5:ℝ)/6)) = _
      simp only [Nat.cast_ofNat]
      field_simp
    have h0e : (h0 : ℝ) = c := by
      show (((2:ℕ):ℝ)) ^ ((-((1:ℕ):ℝ)) / ((6:ℕ):ℝ)) * Real.Gamma (((5:ℕ):ℝ) / ((6:ℕ):ℝ)) = c
      simp only [Nat.cast_ofNat, Nat.cast_one]
      exact hcdef
    refine ⟨?_, ?_, ?_⟩
    · intro x hx y hy hxy
      rw [hh x hx, hh y hy]
      have : Real.exp (-y) ≤ Real.exp (-x) := Real.exp_le_exp.mpr (by linarith)
      gcongr
    · rw [h0e]
      have : Tendsto (fun x : ℝ => c * Real.exp (-x)) (𝓝 0) (𝓝 (c * Real.exp (-0))) :=
        (continuous_const.mul (Real.continuous_exp.comp continuous_neg)).tendsto 0
      rw [neg_zero, Real.exp_zero, mul_one] at this
      refine (this.mono_left nhdsWithin_le_nhds).congr' ?_
      filter_upwards [self_mem_nhdsWithin] with x hx
      exact (hh x hx).symm
    · have : Tendsto (fun x : ℝ => c * Real.exp (-x)) atTop (𝓝 (c * 0)) :=
        Real.tendsto_exp_neg_atTop_nhds_zero.const_mul c
      rw [mul_zero] at this
      refine this.congr' ?_
      filter_upwards [eventually_gt_atTop 0] with x hx
      exact (hh x hx).symm
  · intro n p w
    have hpi := Real.pi_pos
    have hk : ∀ r : ℝ, 0 ≤ r →
        @hK ℝ _ _ _ (realTransc fun _ x => c * Real.exp (-x) / x ^ ((5:ℝ)/6))
          (@xarg ℝ _ _ _ (realTransc fun _ x => c * Real.exp (-x) / x ^ ((5:ℝ)/6)) (r + 1e-40) L0)
        = c * Real.exp (-(2 * π * 1e-40 / L0)) * Real.exp (-(2 * π / L0 * r)) := by
      intro r hr
      have hx : (0:ℝ) < 2 * π * (r + 1e-40) / L0 := by
        have : (0:ℝ) < 1e-40 := by norm_num
        positivity
      have hx' : 0 < (2 * π * (r + 1e-40) / L0) ^ ((5:ℝ)/6) := by positivity
      show (((2:ℕ):ℝ) * π * (r + 1e-40) / L0) ^ (((5:ℕ):ℝ) / ((6:ℕ):ℝ))
        * (c * Real.exp (-(((2:ℕ):ℝ) * π * (r + 1e-40) / L0)) / (((2:ℕ):ℝ) * π * (r + 1e-40) / L0) ^ ((5:ℝ)/6)) = _
      simp only [Nat.cast_ofNat]
      rw [mul_assoc c, ← Real.exp_add]
      have e : -(2 * π * 1e-40 / L0) + -(2 * π / L0 * r) = -(2 * π * (r + 1e-40) / L0) := by ring
      rw [e]
      field_simp
    simp only [Real.dist_eq]
    have hb : (0:ℝ) ≤ 2 * π / L0 := by positivity
    have h := exp_kernel_nonneg (2 * π / L0) hb p w
    have hA : (0:ℝ) ≤ c * Real.exp (-(2 * π * 1e-40 / L0)) := by positivity
    calc (0:ℝ) ≤ (c * Real.exp (-(2 * π * 1e-40 / L0)))
            * ∑ i, ∑ j, w i * w j * Real.exp (-(2 * π / L0 * |p i - p j|)) := mul_nonneg hA h
      _ = _ := by
        rw [Finset.mul_sum]
        refine Finset.sum_congr rfl fun i _ => ?_
        rw [Finset.mul_sum]
        refine Finset.sum_congr rfl fun j _ => ?_
        rw [hk _ (abs_nonneg _)]
        ring

/-- the remaining hypotheses (r ≥ 0, r0 > 0, L0 > 0, c > 0) are plain positivity conditions on the property's domain -/
example : (0:ℝ) ≤ 0 ∧ (0:ℝ) < 0.2 ∧ (0:ℝ) < 25 ∧ (0:ℝ) < 1.5 := by norm_num

/-
NOT PROVED (stay numeric; listed in `chk.assumptions` of harness/props/c08.py):
  * H1 itself for the true Bessel function:  x ↦ x^(5/6) K_{5/6}(x) is antitone on (0,∞), → 2^(−1/6) Γ(5/6) at 0⁺, → 0 at ∞.
  * H2 itself: r ↦ h(2π r / L0) (extended by h₀ at 0) is a positive-definite radial kernel on ℝ² (von Kármán spectrum ≥ 0);
    `cov_posSemidef` is stated for the kernel the code evaluates (offset 1e-40), for which the classical fact holds
    only up to that offset.
  * hankel_identity : D(r) = 4π ∫₀^∞ f Φ(f) (1 − J₀(2π f r)) df  for Φ = psd_ft_phase_screen (fm → ∞, f0 = 1/L0)
    — no Bessel J₀ / Hankel transform in Mathlib; moreover it holds only to the rounding of 0.023 (ratio 1.0052).
  * kolmogorov_limit : structure_function_vk r r0 L0 → 6.88 (r/r0)^(5/3) as L0 → ∞ — needs the small-argument
    expansion of K_{5/6}; and it holds only to the rounding of the constants (0.17253 ↔ 6.88).
  * constants_close : |κ_D / κ_C − 1| < 10⁻³ (numerically −5.7·10⁻⁴ = 6.88/6.8839 − 1) — needs numeric bounds on
    Γ(5/6), Γ(11/6), Γ(6/5) which Mathlib does not provide.
  * C(0) = C₀ exactly: `phase_covariance 0` is C₀ h(2π·1e-40/L0)/h₀, equal to C₀ only in the limit (H1.lim_zero).
-/

end AoVerif.Props.C08
