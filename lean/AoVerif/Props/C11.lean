/-
C11 — propagators form a group and agree with each other and with theory.

Exact discrete identities on the C10 model (`Model/Propagation.lean` at `K = ℝ`, `C = ℂ`), with the FFT kernel `w m = ζ^m`,
`wi m = ζ⁻¹^m`.  Group laws, programs of steps (`runAS_eq_sum`) and the transfer function (`as_transfer_phase`, `as_is_spectrum_sum`):
`ζ` ANY primitive N-th root of unity, every `N ≥ 1`.  Fresnel-sum identities: `ζ = e^{-2πi/N}` (the FFT's own root); the original
statements are for even `N` with the centre written `N/2`; the `…_anyN` versions state the same identities for EVERY `N` (odd included)
with all grids centred on sample `⌊N/2⌋` (the repaired code, fixes/C11-odd-grid-centre.diff).  Output indices range over the grid `a, b < N`.
-/
import AoVerif.Lemmas.Propagation

namespace AoVerif.Props.C11
open Finset AoVerif AoVerif.Fourier AoVerif.Propagation

set_option linter.unusedSectionVars false
variable [Transc ℝ] [RealTransc]

/-! ### `angularSpectrum` at unit magnification is a one-parameter group -/
section group
variable {N : ℕ} {ζ : ℂ}

/-- distance 0 returns the input (any spacings, any kernel) -/
theorem as_zero (N : ℕ) (w wi : ℕ → ℂ) (U : ℕ → ℕ → ℂ) (wvl d1 d2 : ℝ) {a b : ℕ} (ha : a < N) (hb : b < N) :
    angularSpectrum N w wi U wvl d1 d2 0 a b = U a b :=
  angularSpectrum_zero N w wi U wvl d1 d2 ha hb

/-- only the samples on the grid are read -/
theorem angularSpectrum_congr (N : ℕ) (w wi : ℕ → ℂ) {U V : ℕ → ℕ → ℂ} (h : ∀ a < N, ∀ b < N, U a b = V a b)
    (wvl d1 d2 z : ℝ) {a b : ℕ} (ha : a < N) (hb : b < N) :
    angularSpectrum N w wi U wvl d1 d2 z a b = angularSpectrum N w wi V wvl d1 d2 z a b := by
  by_cases hz : z = 0
  · subst hz; rw [angularSpectrum_zero N w wi U wvl d1 d2 ha hb, angularSpectrum_zero N w wi V wvl d1 d2 ha hb, h a ha b hb]
  · rw [angularSpectrum_eq N w wi U wvl d1 d2 z hz ha hb, angularSpectrum_eq N w wi V wvl d1 d2 z hz ha hb]
    apply mul_left_congr
    apply ift2'_congr; intro a' ha' b' hb'
    apply mul_left_congr
    apply ft2'_congr; intro a'' ha'' b'' hb''
    rw [h a'' ha'' b'' hb'']

theorem asTheta2_add (wvl d1 z1 z2 : ℝ) (a b : ℕ) :
    asTheta2 N wvl d1 d1 z1 a b + asTheta2 N wvl d1 d1 z2 a b = asTheta2 N wvl d1 d1 (z1 + z2) a b := by
  unfold asTheta2; ring

theorem asTheta2_zero (wvl d1 : ℝ) (a b : ℕ) : asTheta2 N wvl d1 d1 0 a b = 0 := by
  unfold asTheta2; simp

/-- at unit magnification `Q1 = Q3 = 1`: the propagator is `ift2 ∘ (Q2 ·) ∘ ft2` -/
theorem as_unit_eq (w wi : ℕ → ℂ) (U : ℕ → ℕ → ℂ) (wvl d1 z : ℝ) (hd1 : d1 ≠ 0) (hz : z ≠ 0)
    {a b : ℕ} (ha : a < N) (hb : b < N) :
    angularSpectrum N w wi U wvl d1 d1 z a b
      = ift2' N wi (1 / ((N:ℝ) * d1))
          (fun a b => (CField.cis (asTheta2 N wvl d1 d1 z a b) : ℂ) * ft2' N w d1 U a b) a b := by
  rw [angularSpectrum_eq N w wi U wvl d1 d1 z hz ha hb]
  have h3 : asTheta3 N wvl d1 d1 z a b = 0 := by
    unfold asTheta3; simp only [div_self hd1, Nat.cast_one, sub_self]; simp
  have h1 : ∀ a b, asTheta1 N wvl d1 d1 z a b = 0 := by
    intro a b; unfold asTheta1; simp only [div_self hd1, Nat.cast_one, sub_self]; simp
  rw [h3, cis_zero, one_mul]
  apply ift2'_congr; intro a' _ b' _
  apply mul_left_congr
  apply ft2'_congr; intro a'' _ b'' _
  rw [h1, cis_zero, div_self hd1]; simp

/-- distances add under composition, for EVERY split `z₁ + z₂` (zero parts and opposite signs included) -/
theorem as_add (hζ : IsPrimitiveRoot ζ N) (hN : 0 < N) (U : ℕ → ℕ → ℂ) (wvl d1 z1 z2 : ℝ) (hd1 : d1 ≠ 0)
    {a b : ℕ} (ha : a < N) (hb : b < N) :
    angularSpectrum N (fun m => ζ ^ m) (fun m => ζ⁻¹ ^ m)
        (angularSpectrum N (fun m => ζ ^ m) (fun m => ζ⁻¹ ^ m) U wvl d1 d1 z2) wvl d1 d1 z1 a b
      = angularSpectrum N (fun m => ζ ^ m) (fun m => ζ⁻¹ ^ m) U wvl d1 d1 (z1 + z2) a b := by
  have hNr : (N:ℝ) ≠ 0 := by exact_mod_cast (Nat.pos_iff_ne_zero.mp hN)
  have hdf : (N:ℝ) * d1 * (1 / ((N:ℝ) * d1)) = 1 := by field_simp
  by_cases h1 : z1 = 0
  · subst h1; rw [angularSpectrum_zero N _ _ _ wvl d1 d1 ha hb, zero_add]
  by_cases h2 : z2 = 0
  · subst h2; rw [add_zero]
    exact angularSpectrum_congr N _ _ (fun a' ha' b' hb' => angularSpectrum_zero N _ _ U wvl d1 d1 ha' hb') wvl d1 d1 z1 ha hb
  -- both parts are genuine propagations
  have lhs : angularSpectrum N (fun m => ζ ^ m) (fun m => ζ⁻¹ ^ m)
        (angularSpectrum N (fun m => ζ ^ m) (fun m => ζ⁻¹ ^ m) U wvl d1 d1 z2) wvl d1 d1 z1 a b
      = ift2' N (fun m => ζ⁻¹ ^ m) (1 / ((N:ℝ) * d1))
          (fun a b => (CField.cis (asTheta2 N wvl d1 d1 (z1 + z2) a b) : ℂ) * ft2' N (fun m => ζ ^ m) d1 U a b) a b := by
    rw [as_unit_eq _ _ _ wvl d1 z1 hd1 h1 ha hb]
    apply ift2'_congr; intro a' ha' b' hb'
    have : ft2' N (fun m => ζ ^ m) d1 (angularSpectrum N (fun m => ζ ^ m) (fun m => ζ⁻¹ ^ m) U wvl d1 d1 z2) a' b'
        = ft2' N (fun m => ζ ^ m) d1 (ift2' N (fun m => ζ⁻¹ ^ m) (1 / ((N:ℝ) * d1))
            (fun a b => (CField.cis (asTheta2 N wvl d1 d1 z2 a b) : ℂ) * ft2' N (fun m => ζ ^ m) d1 U a b)) a' b' :=
      ft2'_congr N _ d1 (fun a'' ha'' b'' hb'' => as_unit_eq _ _ U wvl d1 z2 hd1 h2 ha'' hb'') a' b'
    rw [this, ft2'_ift2' hζ hN d1 _ hdf _ ha' hb', ← mul_assoc, ← cis_add, asTheta2_add]
  rw [lhs]
  by_cases h12 : z1 + z2 = 0
  · rw [h12, angularSpectrum_zero N _ _ U wvl d1 d1 ha hb]
    have : ift2' N (fun m => ζ⁻¹ ^ m) (1 / ((N:ℝ) * d1))
          (fun a b => (CField.cis (asTheta2 N wvl d1 d1 0 a b) : ℂ) * ft2' N (fun m => ζ ^ m) d1 U a b) a b
        = ift2' N (fun m => ζ⁻¹ ^ m) (1 / ((N:ℝ) * d1)) (ft2' N (fun m => ζ ^ m) d1 U) a b :=
      ift2'_congr N _ _ (fun a' _ b' _ => by rw [asTheta2_zero, cis_zero, one_mul]) a b
    rw [this, ift2'_ft2' hζ hN d1 _ hdf U ha hb]
  · rw [as_unit_eq _ _ U wvl d1 (z1 + z2) hd1 h12 ha hb]

/-- `−z` undoes `+z` -/
theorem as_neg (hζ : IsPrimitiveRoot ζ N) (hN : 0 < N) (U : ℕ → ℕ → ℂ) (wvl d1 z : ℝ) (hd1 : d1 ≠ 0)
    {a b : ℕ} (ha : a < N) (hb : b < N) :
    angularSpectrum N (fun m => ζ ^ m) (fun m => ζ⁻¹ ^ m)
        (angularSpectrum N (fun m => ζ ^ m) (fun m => ζ⁻¹ ^ m) U wvl d1 d1 z) wvl d1 d1 (-z) a b = U a b := by
  rw [as_add hζ hN U wvl d1 (-z) z hd1 ha hb, neg_add_cancel, angularSpectrum_zero N _ _ U wvl d1 d1 ha hb]

/-- **all programs**: a sequence of unit-magnification propagation steps over distances `zs` (first element first) -/
noncomputable def runAS (N : ℕ) (ζ : ℂ) (wvl d1 : ℝ) : List ℝ → (ℕ → ℕ → ℂ) → ℕ → ℕ → ℂ
  | [], U => U
  | z :: zs, U => runAS N ζ wvl d1 zs (angularSpectrum N (fun m => ζ ^ m) (fun m => ζ⁻¹ ^ m) U wvl d1 d1 z)

/-- every program of propagation steps equals ONE propagation over the total distance — hence any two programs whose distances sum
to the same total return the same field (`runAS_eq_of_sum_eq`); zero steps, opposite signs and the empty program included -/
theorem runAS_eq_sum (hζ : IsPrimitiveRoot ζ N) (hN : 0 < N) (wvl d1 : ℝ) (hd1 : d1 ≠ 0) (zs : List ℝ) (U : ℕ → ℕ → ℂ)
    {a b : ℕ} (ha : a < N) (hb : b < N) :
    runAS N ζ wvl d1 zs U a b = angularSpectrum N (fun m => ζ ^ m) (fun m => ζ⁻¹ ^ m) U wvl d1 d1 zs.sum a b := by
  induction zs generalizing U with
  | nil => rw [List.sum_nil, angularSpectrum_zero N _ _ U wvl d1 d1 ha hb]; rfl
  | cons z zs ih =>
    show runAS N ζ wvl d1 zs (angularSpectrum N (fun m => ζ ^ m) (fun m => ζ⁻¹ ^ m) U wvl d1 d1 z) a b = _
    rw [ih, as_add hζ hN U wvl d1 zs.sum z hd1 ha hb, List.sum_cons, add_comm]

theorem runAS_eq_of_sum_eq (hζ : IsPrimitiveRoot ζ N) (hN : 0 < N) (wvl d1 : ℝ) (hd1 : d1 ≠ 0) (zs zs' : List ℝ)
    (h : zs.sum = zs'.sum) (U : ℕ → ℕ → ℂ) {a b : ℕ} (ha : a < N) (hb : b < N) :
    runAS N ζ wvl d1 zs U a b = runAS N ζ wvl d1 zs' U a b := by
  rw [runAS_eq_sum hζ hN wvl d1 hd1 zs U ha hb, runAS_eq_sum hζ hN wvl d1 hd1 zs' U ha hb, h]

/-! ### the transfer function of `angularSpectrum` (pins kernel sign, frequency grid and z-scaling) -/

/-- the phase of `Q2` is exactly `−π λ z (f_x² + f_y²)/m` on the frequency grid `f_j = (j − ⌊N/2⌋)/(N d₁)` (every `N`, any magnification) -/
theorem as_transfer_phase (wvl d1 d2 z : ℝ) (hw : wvl ≠ 0) (a b : ℕ) :
    asTheta2 N wvl d1 d2 z a b
      = -(Real.pi * wvl * z / (d2 / d1) * ((((b:ℝ) - ((N / 2 : ℕ) : ℝ)) / ((N:ℝ) * d1)) ^ 2
          + (((a:ℝ) - ((N / 2 : ℕ) : ℝ)) / ((N:ℝ) * d1)) ^ 2)) := by
  unfold asTheta2 gridIdx wavevector
  simp only [RealTransc.pi_eq, Nat.cast_ofNat, Nat.cast_one]
  have hp := Real.pi_ne_zero
  field_simp

/-- even `N`, unit magnification: `θ₂ = −π λ z ((f_x)² + (f_y)²)`, `f_j = (j − N/2)/(N d₁)` -/
theorem as_transfer_phase_even (hev : Even N) (wvl d1 z : ℝ) (hw : wvl ≠ 0) (hd1 : d1 ≠ 0) (a b : ℕ) :
    asTheta2 N wvl d1 d1 z a b
      = -(Real.pi * wvl * z * ((((b:ℝ) - N / 2) / ((N:ℝ) * d1)) ^ 2 + (((a:ℝ) - N / 2) / ((N:ℝ) * d1)) ^ 2)) := by
  rw [as_transfer_phase wvl d1 d1 z hw a b, half_cast hev, div_self hd1, div_one]

/-- at unit magnification `angularSpectrum` IS the direct angular-spectrum sum: centred forward DFT of the input (weight `d₁²`), times
`e^{iθ₂}` with the phase above, centred inverse DFT (weight `df² = 1/(N d₁)²`), both centred on sample `⌊N/2⌋` -/
theorem as_is_spectrum_sum (hζ : IsPrimitiveRoot ζ N) (hN : 0 < N) (U : ℕ → ℕ → ℂ) (wvl d1 z : ℝ) (hd1 : d1 ≠ 0) (hz : z ≠ 0)
    {a b : ℕ} (ha : a < N) (hb : b < N) :
    angularSpectrum N (fun m => ζ ^ m) (fun m => ζ⁻¹ ^ m) U wvl d1 d1 z a b
      = (∑ p ∈ range N, ∑ q ∈ range N,
          ((CField.cis (asTheta2 N wvl d1 d1 z p q) : ℂ)
            * ((∑ a' ∈ range N, ∑ b' ∈ range N, U a' b'
                * (ζ ^ (((a':ℤ) - DFT.ctr N) * ((p:ℤ) - DFT.ctr N)) * ζ ^ (((b':ℤ) - DFT.ctr N) * ((q:ℤ) - DFT.ctr N))))
              * ((d1:ℂ) * (d1:ℂ))))
          * (ζ⁻¹ ^ (((p:ℤ) - DFT.ctr N) * ((a:ℤ) - DFT.ctr N)) * ζ⁻¹ ^ (((q:ℤ) - DFT.ctr N) * ((b:ℤ) - DFT.ctr N))))
        * (((1 / ((N:ℝ) * d1) : ℝ) : ℂ) * ((1 / ((N:ℝ) * d1) : ℝ) : ℂ)) := by
  rw [as_unit_eq _ _ U wvl d1 z hd1 hz ha hb, ift2'_eq_cdft2 hζ hN, DFT2.cdft2_sum]
  apply mul_right_congr
  apply sum_congr rfl; intro p _
  apply sum_congr rfl; intro q _
  rw [ft2'_eq_cdft2 hζ hN, DFT2.cdft2_sum]

end group

/-! ### magnified return trip -/
section mag
variable {N : ℕ} {ζ : ℂ}

theorem wavevector_ne_zero (wvl : ℝ) (hw : wvl ≠ 0) : wavevector wvl ≠ 0 := by
  unfold wavevector
  simp only [RealTransc.pi_eq, Nat.cast_ofNat]
  exact div_ne_zero (mul_ne_zero two_ne_zero Real.pi_ne_zero) hw

theorem theta13 (wvl d1 d2 z : ℝ) (hd1 : d1 ≠ 0) (hd2 : d2 ≠ 0) (hz : z ≠ 0) (a b : ℕ) :
    asTheta1 N wvl d2 d1 (-z) a b + asTheta3 N wvl d1 d2 z a b
      = -(wavevector wvl / 2 * 1e-10 * (d2 - d1) / (d2 * z)) := by
  unfold asTheta1 asTheta3
  simp only [Nat.cast_one, Nat.cast_ofNat]
  generalize (1e-10 : ℝ) = ε
  generalize wavevector wvl = k
  field_simp
  ring

theorem theta31 (wvl d1 d2 z : ℝ) (hd1 : d1 ≠ 0) (hd2 : d2 ≠ 0) (hz : z ≠ 0) (a b : ℕ) :
    asTheta3 N wvl d2 d1 (-z) a b + asTheta1 N wvl d1 d2 z a b
      = wavevector wvl / 2 * 1e-10 * (d1 - d2) / (d1 * z) := by
  unfold asTheta1 asTheta3
  simp only [Nat.cast_one, Nat.cast_ofNat]
  generalize (1e-10 : ℝ) = ε
  generalize wavevector wvl = k
  field_simp
  ring

theorem theta22 (hN : 0 < N) (wvl d1 d2 z : ℝ) (hw : wvl ≠ 0) (hd1 : d1 ≠ 0) (hd2 : d2 ≠ 0) (a b : ℕ) :
    asTheta2 N wvl d2 d1 (-z) a b + asTheta2 N wvl d1 d2 z a b = 0 := by
  have hNr : (N:ℝ) ≠ 0 := by exact_mod_cast (Nat.pos_iff_ne_zero.mp hN)
  have hk := wavevector_ne_zero wvl hw
  unfold asTheta2
  simp only [Nat.cast_one, Nat.cast_ofNat]
  generalize wavevector wvl = k at hk
  generalize (Transc.pi : ℝ) = p
  field_simp
  ring

/-- propagating `d1 → d2` over `z` and back `d2 → d1` over `−z` recovers the input up to the constant phase
`c = k/2 · 1e-10 · (d1² − d2²)/(d1 d2 z)` (`= k/2 · 1e-10 · (1 − m²)/(m z)`), which comes only from the `1e-10` added to `r1sq` -/
theorem as_mag_inverse (hζ : IsPrimitiveRoot ζ N) (hN : 0 < N) (U : ℕ → ℕ → ℂ) (wvl d1 d2 z : ℝ)
    (hw : wvl ≠ 0) (hd1 : d1 ≠ 0) (hd2 : d2 ≠ 0) (hz : z ≠ 0) {a b : ℕ} (ha : a < N) (hb : b < N) :
    angularSpectrum N (fun m => ζ ^ m) (fun m => ζ⁻¹ ^ m)
        (angularSpectrum N (fun m => ζ ^ m) (fun m => ζ⁻¹ ^ m) U wvl d1 d2 z) wvl d2 d1 (-z) a b
      = (CField.cis (wavevector wvl / 2 * 1e-10 * (d1 ^ 2 - d2 ^ 2) / (d1 * d2 * z)) : ℂ) * U a b := by
  have hNC : (N:ℂ) ≠ 0 := by exact_mod_cast (Nat.pos_iff_ne_zero.mp hN)
  have hd1C : (d1:ℂ) ≠ 0 := by exact_mod_cast hd1
  have hd2C : (d2:ℂ) ≠ 0 := by exact_mod_cast hd2
  have hnz : -z ≠ 0 := neg_ne_zero.2 hz
  -- the forward field on the grid, in centred-sum form
  have hV : ∀ a' < N, ∀ b' < N, angularSpectrum N (fun m => ζ ^ m) (fun m => ζ⁻¹ ^ m) U wvl d1 d2 z a' b'
      = (CField.cis (asTheta3 N wvl d1 d2 z a' b') : ℂ) * (DFT2.cdft2 N ζ⁻¹ (fun a b =>
          (CField.cis (asTheta2 N wvl d1 d2 z a b) : ℂ) * (DFT2.cdft2 N ζ (fun a b =>
            (CField.cis (asTheta1 N wvl d1 d2 z a b) : ℂ) * U a b / ((d2 / d1 : ℝ) : ℂ)) a b * ((d1:ℂ) * (d1:ℂ)))) a' b'
          * (((1 / ((N:ℝ) * d1) : ℝ) : ℂ) * ((1 / ((N:ℝ) * d1) : ℝ) : ℂ))) := by
    intro a' ha' b' hb'
    rw [angularSpectrum_eq N _ _ U wvl d1 d2 z hz ha' hb', ift2'_eq_cdft2 hζ hN]
    apply mul_left_congr; apply mul_right_congr
    exact DFT2.cdft2_congr (fun a'' _ b'' _ => by rw [ft2'_eq_cdft2 hζ hN]) a' b'
  set Y : ℕ → ℕ → ℂ := fun a b => (CField.cis (asTheta1 N wvl d1 d2 z a b) : ℂ) * U a b / ((d2 / d1 : ℝ) : ℂ) with hY
  set X : ℕ → ℕ → ℂ := fun a b => (CField.cis (asTheta2 N wvl d1 d2 z a b) : ℂ)
      * (DFT2.cdft2 N ζ Y a b * ((d1:ℂ) * (d1:ℂ))) with hX
  set κ1 : ℂ := (CField.cis (-(wavevector wvl / 2 * 1e-10 * (d2 - d1) / (d2 * z))) : ℂ)
      * (((1 / ((N:ℝ) * d1) : ℝ) : ℂ) * ((1 / ((N:ℝ) * d1) : ℝ) : ℂ)) / ((d1 / d2 : ℝ) : ℂ) with hκ1
  rw [angularSpectrum_eq N _ _ _ wvl d2 d1 (-z) hnz ha hb, ift2'_eq_cdft2 hζ hN]
  -- Y' = κ1 · cdft2⁻¹ X on the grid
  have hY' : ∀ a' < N, ∀ b' < N,
      (CField.cis (asTheta1 N wvl d2 d1 (-z) a' b') : ℂ)
          * angularSpectrum N (fun m => ζ ^ m) (fun m => ζ⁻¹ ^ m) U wvl d1 d2 z a' b' / ((d1 / d2 : ℝ) : ℂ)
        = κ1 * DFT2.cdft2 N ζ⁻¹ X a' b' := by
    intro a' ha' b' hb'
    rw [hV a' ha' b' hb', hκ1, ← theta13 (N := N) wvl d1 d2 z hd1 hd2 hz a' b', cis_add]
    ring
  -- X' = κ2 · cdft2 Y on the grid
  have hinvX : ∀ a' < N, ∀ b' < N, DFT2.cdft2 N ζ (DFT2.cdft2 N ζ⁻¹ X) a' b' = (N:ℂ) * (N:ℂ) * X a' b' := by
    intro a' ha' b' hb'
    have := DFT2.cdft2_inv hζ.inv hN X ha' hb'
    rwa [inv_inv] at this
  have hX' : ∀ a' < N, ∀ b' < N,
      (CField.cis (asTheta2 N wvl d2 d1 (-z) a' b') : ℂ) * ft2' N (fun m => ζ ^ m) d2 (fun a b =>
          (CField.cis (asTheta1 N wvl d2 d1 (-z) a b) : ℂ)
            * angularSpectrum N (fun m => ζ ^ m) (fun m => ζ⁻¹ ^ m) U wvl d1 d2 z a b / ((d1 / d2 : ℝ) : ℂ)) a' b'
        = (κ1 * ((N:ℂ) * (N:ℂ)) * ((d1:ℂ) * (d1:ℂ)) * ((d2:ℂ) * (d2:ℂ))) * DFT2.cdft2 N ζ Y a' b' := by
    intro a' ha' b' hb'
    rw [ft2'_eq_cdft2 hζ hN, DFT2.cdft2_congr hY' a' b', DFT2.cdft2_const_mul, hinvX a' ha' b' hb']
    have h22 : (CField.cis (asTheta2 N wvl d2 d1 (-z) a' b') : ℂ) * (CField.cis (asTheta2 N wvl d1 d2 z a' b') : ℂ) = 1 := by
      rw [← cis_add, theta22 hN wvl d1 d2 z hw hd1 hd2, cis_zero]
    rw [hX]
    linear_combination (κ1 * ((N:ℂ) * (N:ℂ)) * (DFT2.cdft2 N ζ Y a' b' * ((d1:ℂ) * (d1:ℂ))) * ((d2:ℂ) * (d2:ℂ))) * h22
  rw [DFT2.cdft2_congr hX' a b, DFT2.cdft2_const_mul, DFT2.cdft2_inv hζ hN Y ha hb, hY, hκ1]
  have hc : (CField.cis (wavevector wvl / 2 * 1e-10 * (d1 ^ 2 - d2 ^ 2) / (d1 * d2 * z)) : ℂ)
      = (CField.cis (asTheta3 N wvl d2 d1 (-z) a b) : ℂ) * (CField.cis (asTheta1 N wvl d1 d2 z a b) : ℂ)
        * (CField.cis (-(wavevector wvl / 2 * 1e-10 * (d2 - d1) / (d2 * z))) : ℂ) := by
    rw [← cis_add, theta31 (N := N) wvl d1 d2 z hd1 hd2 hz a b, ← cis_add]
    congr 1
    field_simp
    ring
  rw [hc]
  push_cast
  field_simp

end mag

/-! ### the single-FFT propagators ARE the centred Fresnel / Fraunhofer sums -/
section sums
variable {N : ℕ}

/-- Riemann sum of the Fresnel–Kirchhoff integral `(1/(iλz)) ∬ U(x₁,y₁) e^{+iπ((X−x₁)²+(Y−y₁)²)/(λz)} dx₁dy₁` over the input
samples `U a' b'` sitting at `(x₁, y₁) = ((b' − N/2) d, (a' − N/2) d)`, evaluated at the observation point `(X, Y)` -/
noncomputable def fresnelSum (N : ℕ) (wvl z d : ℝ) (U : ℕ → ℕ → ℂ) (X Y : ℝ) : ℂ :=
  1 / (Complex.I * wvl * z) * ∑ a' ∈ range N, ∑ b' ∈ range N,
    U a' b' * Complex.exp (((Real.pi * ((X - ((b':ℝ) - N / 2) * d) ^ 2 + (Y - ((a':ℝ) - N / 2) * d) ^ 2) / (wvl * z) : ℝ) : ℂ)
      * Complex.I) * (d:ℂ) ^ 2

/-- Riemann sum of the Fraunhofer integral in the focal plane of a lens against the object:
`e^{iπ(X²+Y²)/(λf)}/(iλf) ∬ U(x₁,y₁) e^{−2πi(X x₁ + Y y₁)/(λf)} dx₁dy₁` -/
noncomputable def fraunhoferSum (N : ℕ) (wvl f d : ℝ) (U : ℕ → ℕ → ℂ) (X Y : ℝ) : ℂ :=
  Complex.exp (((Real.pi * (X ^ 2 + Y ^ 2) / (wvl * f) : ℝ) : ℂ) * Complex.I) / (Complex.I * wvl * f)
    * ∑ a' ∈ range N, ∑ b' ∈ range N,
      U a' b' * Complex.exp (((-(2 * Real.pi * (X * (((b':ℝ) - N / 2) * d) + Y * (((a':ℝ) - N / 2) * d)) / (wvl * f)) : ℝ) : ℂ)
        * Complex.I) * (d:ℂ) ^ 2

theorem fresnelAmp_eq (wvl z : ℝ) : (fresnelAmp wvl z : ℂ) = 1 / (Complex.I * wvl * z) := by
  unfold fresnelAmp; simp [ofReal_def, i_def]

/-- kernel bookkeeping: the quadratic factors times the DFT twiddles are the Fresnel kernel -/
theorem fresnel_phase (hN : 0 < N) (hev : Even N) (wvl d1 z : ℝ) (hw : wvl ≠ 0) (hd1 : d1 ≠ 0) (hz : z ≠ 0) (a b a' b' : ℕ) :
    quadTheta N wvl (wvl * z / ((N:ℝ) * d1)) z a b + quadTheta N wvl d1 z a' b'
        + (-(2 * Real.pi * (((((a':ℤ) - DFT.ctr N) * ((a:ℤ) - DFT.ctr N) : ℤ) : ℝ)) / N))
        + (-(2 * Real.pi * (((((b':ℤ) - DFT.ctr N) * ((b:ℤ) - DFT.ctr N) : ℤ) : ℝ)) / N))
      = Real.pi * ((((b:ℝ) - N / 2) * (wvl * z / ((N:ℝ) * d1)) - ((b':ℝ) - N / 2) * d1) ^ 2
          + (((a:ℝ) - N / 2) * (wvl * z / ((N:ℝ) * d1)) - ((a':ℝ) - N / 2) * d1) ^ 2) / (wvl * z) := by
  have hNr : (N:ℝ) ≠ 0 := by exact_mod_cast (Nat.pos_iff_ne_zero.mp hN)
  unfold quadTheta gridIdx wavevector
  simp only [RealTransc.pi_eq, Nat.cast_ofNat]
  simp only [Int.cast_mul, Int.cast_sub, Int.cast_natCast, half_cast hev]
  field_simp
  ring

/-- `oneStepFresnel`: output sample `(a, b)` IS the centred Fresnel sum at `(x, y) = ((b − N/2) d₂, (a − N/2) d₂)`,
`d₂ = λz/(N d₁)` (signed): kernel `e^{+iπ|x₂−x₁|²/(λz)}/(iλz)`, weight `d₁²`, no transposition, no reflection -/
theorem oneStep_is_fresnel_sum (hN : 0 < N) (hev : Even N) (U : ℕ → ℕ → ℂ) (wvl d1 z : ℝ)
    (hw : wvl ≠ 0) (hd1 : d1 ≠ 0) (hz : z ≠ 0) {a b : ℕ} (ha : a < N) (hb : b < N) :
    oneStepFresnel N (fun m => fftRoot N ^ m) U wvl d1 z a b
      = fresnelSum N wvl z d1 U (((b:ℝ) - N / 2) * (wvl * z / ((N:ℝ) * d1))) (((a:ℝ) - N / 2) * (wvl * z / ((N:ℝ) * d1))) := by
  have hζ := fftRoot_primitive hN
  rw [oneStepFresnel_eq N _ U wvl d1 z ha hb, ft2'_eq_cdft2 hζ hN, DFT2.cdft2_sum, fresnelAmp_eq]
  unfold fresnelSum
  rw [mul_assoc]
  apply mul_left_congr
  rw [sum_mul, mul_sum]
  apply sum_congr rfl; intro a' _
  rw [sum_mul, mul_sum]
  apply sum_congr rfl; intro b' _
  rw [fftRoot_zpow, fftRoot_zpow, ← cis_def, ← fresnel_phase hN hev wvl d1 z hw hd1 hz a b a' b', cis_add, cis_add, cis_add]
  ring

theorem fraunhofer_phase (hN : 0 < N) (hev : Even N) (wvl d1 f : ℝ) (hw : wvl ≠ 0) (hd1 : d1 ≠ 0) (hf : f ≠ 0) (a b a' b' : ℕ) :
    (-(2 * Real.pi * (((((a':ℤ) - DFT.ctr N) * ((a:ℤ) - DFT.ctr N) : ℤ) : ℝ)) / N))
        + (-(2 * Real.pi * (((((b':ℤ) - DFT.ctr N) * ((b:ℤ) - DFT.ctr N) : ℤ) : ℝ)) / N))
      = -(2 * Real.pi * ((((b:ℝ) - N / 2) * (wvl * f / ((N:ℝ) * d1))) * (((b':ℝ) - N / 2) * d1)
          + (((a:ℝ) - N / 2) * (wvl * f / ((N:ℝ) * d1))) * (((a':ℝ) - N / 2) * d1)) / (wvl * f)) := by
  have hNr : (N:ℝ) ≠ 0 := by exact_mod_cast (Nat.pos_iff_ne_zero.mp hN)
  simp only [Int.cast_mul, Int.cast_sub, Int.cast_natCast, half_cast hev]
  field_simp
  ring

theorem lens_phase (hN : 0 < N) (hev : Even N) (wvl d1 f : ℝ) (hw : wvl ≠ 0) (hd1 : d1 ≠ 0) (hf : f ≠ 0) (a b : ℕ) :
    lensTheta N wvl d1 f a b
      = Real.pi * ((((b:ℝ) - N / 2) * (wvl * f / ((N:ℝ) * d1))) ^ 2 + (((a:ℝ) - N / 2) * (wvl * f / ((N:ℝ) * d1))) ^ 2) / (wvl * f) := by
  have hNr : (N:ℝ) ≠ 0 := by exact_mod_cast (Nat.pos_iff_ne_zero.mp hN)
  unfold lensTheta gridIdx wavevector
  simp only [RealTransc.pi_eq, Nat.cast_ofNat, half_cast hev]
  field_simp

/-- `lensAgainst`: output sample `(a, b)` IS the centred Fraunhofer sum at `((b − N/2) d₂, (a − N/2) d₂)`, `d₂ = λf/(N d₁)` -/
theorem lens_is_fraunhofer_sum (hN : 0 < N) (hev : Even N) (U : ℕ → ℕ → ℂ) (wvl d1 f : ℝ)
    (hw : wvl ≠ 0) (hd1 : d1 ≠ 0) (hf : f ≠ 0) {a b : ℕ} (ha : a < N) (hb : b < N) :
    lensAgainst N (fun m => fftRoot N ^ m) U wvl d1 f a b
      = fraunhoferSum N wvl f d1 U (((b:ℝ) - N / 2) * (wvl * f / ((N:ℝ) * d1))) (((a:ℝ) - N / 2) * (wvl * f / ((N:ℝ) * d1))) := by
  have hζ := fftRoot_primitive hN
  rw [lensAgainst_eq N _ U wvl d1 f ha hb, ft2'_eq_cdft2 hζ hN, DFT2.cdft2_sum, lens_phase hN hev wvl d1 f hw hd1 hf, i_def]
  unfold fraunhoferSum
  rw [← cis_def, mul_assoc]
  apply mul_left_congr
  rw [sum_mul]
  apply sum_congr rfl; intro a' _
  rw [sum_mul]
  apply sum_congr rfl; intro b' _
  rw [fftRoot_zpow, fftRoot_zpow, ← cis_def, ← fraunhofer_phase hN hev wvl d1 f hw hd1 hf a b a' b', cis_add]
  ring

end sums

/-! ### `twoStepFresnel`: two chained one-step propagations, and where the result lands -/
section twostep
variable {N : ℕ}

theorem quadTheta_sq (wvl d d' z : ℝ) (h : d ^ 2 = d' ^ 2) (a b : ℕ) :
    quadTheta N wvl d z a b = quadTheta N wvl d' z a b := by
  unfold quadTheta
  rw [mul_pow, mul_pow, h, ← mul_pow, ← mul_pow]

theorem ft2'_sq {ζ : ℂ} (hζ : IsPrimitiveRoot ζ N) (hN : 0 < N) (d d' : ℝ) (h : d ^ 2 = d' ^ 2) (x : ℕ → ℕ → ℂ) (a b : ℕ) :
    ft2' N (fun m => ζ ^ m) d x a b = ft2' N (fun m => ζ ^ m) d' x a b := by
  rw [ft2'_eq_cdft2 hζ hN, ft2'_eq_cdft2 hζ hN]
  have : (d:ℂ) * (d:ℂ) = (d':ℂ) * (d':ℂ) := by
    have := congrArg (fun t : ℝ => (t:ℂ)) h
    simp only [Complex.ofReal_pow] at this
    rw [← sq, ← sq, this]
  rw [this]

/-- `oneStepFresnel` depends on the input spacing only through its square -/
theorem oneStep_sq {ζ : ℂ} (hζ : IsPrimitiveRoot ζ N) (hN : 0 < N) (U : ℕ → ℕ → ℂ) (wvl d d' z : ℝ) (h : d ^ 2 = d' ^ 2)
    {a b : ℕ} (ha : a < N) (hb : b < N) :
    oneStepFresnel N (fun m => ζ ^ m) U wvl d z a b = oneStepFresnel N (fun m => ζ ^ m) U wvl d' z a b := by
  rw [oneStepFresnel_eq N _ U wvl d z ha hb, oneStepFresnel_eq N _ U wvl d' z ha hb]
  have h2 : (wvl * z / ((N:ℝ) * d)) ^ 2 = (wvl * z / ((N:ℝ) * d')) ^ 2 := by
    rw [div_pow, div_pow, mul_pow (N:ℝ) d, mul_pow (N:ℝ) d', h]
  rw [quadTheta_sq wvl _ _ z h2 a b, ft2'_sq hζ hN d d' h]
  apply mul_left_congr
  exact ft2'_congr N _ d' (fun a' _ b' _ => by rw [quadTheta_sq wvl d d' z h a' b']) a b

theorem oneStep_congr (w : ℕ → ℂ) {U V : ℕ → ℕ → ℂ} (h : ∀ a < N, ∀ b < N, U a b = V a b) (wvl d z : ℝ)
    {a b : ℕ} (ha : a < N) (hb : b < N) :
    oneStepFresnel N w U wvl d z a b = oneStepFresnel N w V wvl d z a b := by
  rw [oneStepFresnel_eq N w U wvl d z ha hb, oneStepFresnel_eq N w V wvl d z ha hb]
  apply mul_left_congr
  exact ft2'_congr N w d (fun a' ha' b' hb' => by rw [h a' ha' b' hb']) a b

theorem d1a_sq (wvl d1 d2 z : ℝ) :
    (twoStepD1a N wvl d1 d2 z) ^ 2 = (wvl * twoStepDz1 d1 d2 z / ((N:ℝ) * d1)) ^ 2 := by
  unfold twoStepD1a
  simp only [RealTransc.abs_eq]
  rw [div_pow, div_pow, mul_pow, mul_pow, sq_abs]
  ring

/-- the two-step propagator (before the final orientation repair) is literally two chained `oneStepFresnel` calls:
over `Dz1` from spacing `d1`, then over `Dz2 = z − Dz1` from the intermediate spacing `d1a` (any FFT kernel table) -/
theorem twoStep_is_two_steps (hN : 0 < N) (w : ℕ → ℂ) (U : ℕ → ℕ → ℂ) (wvl d1 d2 z : ℝ)
    (hw : wvl ≠ 0) (hd1 : d1 ≠ 0) (hd2 : d2 ≠ 0) (hz : z ≠ 0) {a b : ℕ} (ha : a < N) (hb : b < N) :
    twoStepFresnel_pinned N w U wvl d1 d2 z a b
      = oneStepFresnel N w (oneStepFresnel N w U wvl d1 (twoStepDz1 d1 d2 z)) wvl (twoStepD1a N wvl d1 d2 z)
          (z - twoStepDz1 d1 d2 z) a b := by
  have hNr : (N:ℝ) ≠ 0 := by exact_mod_cast (Nat.pos_iff_ne_zero.mp hN)
  obtain ⟨hD1, hD2, hD⟩ := twoStep_distances d1 d2 z hd1 hd2 hz
  rw [twoStepFresnel_pinned_eq N w U wvl d1 d2 z ha hb, oneStepFresnel_eq N w _ wvl _ _ ha hb]
  have hout : d2 ^ 2 = (wvl * (z - twoStepDz1 d1 d2 z) / ((N:ℝ) * twoStepD1a N wvl d1 d2 z)) ^ 2 := by
    rw [div_pow, mul_pow (N:ℝ), d1a_sq]
    generalize twoStepDz1 d1 d2 z = D1 at hD1 hD2 hD ⊢
    field_simp
    linear_combination (-1 : ℝ) * hD
  rw [quadTheta_sq wvl _ _ _ hout a b]
  apply mul_left_congr
  apply ft2'_congr; intro a' ha' b' hb'
  apply mul_right_congr
  rw [oneStepFresnel_eq N w U wvl d1 _ ha' hb', quadTheta_sq wvl _ _ _ (d1a_sq wvl d1 d2 z) a' b']

/-- the two-stage Riemann sum of the Fresnel–Kirchhoff integral that `twoStepFresnel` evaluates: the intermediate field is
sampled at its TRUE positions `((b'−N/2) s₁, (a'−N/2) s₁)`, `s₁ = λ Dz1/(N d₁)` (signed), and propagated over `Dz2` to `(X, Y)` -/
noncomputable def twoStageSum (N : ℕ) (wvl d1 d2 z : ℝ) (U : ℕ → ℕ → ℂ) (X Y : ℝ) : ℂ :=
  fresnelSum N wvl (z - twoStepDz1 d1 d2 z) (wvl * twoStepDz1 d1 d2 z / ((N:ℝ) * d1))
    (fun a' b' => fresnelSum N wvl (twoStepDz1 d1 d2 z) d1 U
      (((b':ℝ) - N / 2) * (wvl * twoStepDz1 d1 d2 z / ((N:ℝ) * d1)))
      (((a':ℝ) - N / 2) * (wvl * twoStepDz1 d1 d2 z / ((N:ℝ) * d1)))) X Y

theorem fresnelSum_congr (wvl z d : ℝ) {U V : ℕ → ℕ → ℂ} (h : ∀ a < N, ∀ b < N, U a b = V a b) (X Y : ℝ) :
    fresnelSum N wvl z d U X Y = fresnelSum N wvl z d V X Y := by
  unfold fresnelSum
  apply mul_left_congr
  apply sum_congr rfl; intro a' ha'
  apply sum_congr rfl; intro b' hb'
  rw [h a' (mem_range.mp ha') b' (mem_range.mp hb')]

/-- the pinned two-step output sample `(a, b)` is the two-stage Fresnel sum at `((b − N/2) S₂, (a − N/2) S₂)` with the signed
spacing `S₂ = d₁ Dz2/Dz1` -/
theorem twoStep_pinned_is_two_sums (hN : 0 < N) (hev : Even N) (U : ℕ → ℕ → ℂ) (wvl d1 d2 z : ℝ)
    (hw : wvl ≠ 0) (hd1 : d1 ≠ 0) (hd2 : d2 ≠ 0) (hz : z ≠ 0) {a b : ℕ} (ha : a < N) (hb : b < N) :
    twoStepFresnel_pinned N (fun m => fftRoot N ^ m) U wvl d1 d2 z a b
      = twoStageSum N wvl d1 d2 z U
          (((b:ℝ) - N / 2) * (d1 * (z - twoStepDz1 d1 d2 z) / twoStepDz1 d1 d2 z))
          (((a:ℝ) - N / 2) * (d1 * (z - twoStepDz1 d1 d2 z) / twoStepDz1 d1 d2 z)) := by
  have hζ := fftRoot_primitive hN
  have hNr : (N:ℝ) ≠ 0 := by exact_mod_cast (Nat.pos_iff_ne_zero.mp hN)
  obtain ⟨hD1, hD2, hD⟩ := twoStep_distances d1 d2 z hd1 hd2 hz
  have hs1 : wvl * twoStepDz1 d1 d2 z / ((N:ℝ) * d1) ≠ 0 :=
    div_ne_zero (mul_ne_zero hw hD1) (mul_ne_zero hNr hd1)
  rw [twoStep_is_two_steps hN _ U wvl d1 d2 z hw hd1 hd2 hz ha hb,
    oneStep_sq hζ hN _ wvl _ _ _ (d1a_sq wvl d1 d2 z) ha hb,
    oneStep_is_fresnel_sum hN hev _ wvl _ _ hw hs1 hD2 ha hb]
  unfold twoStageSum
  have hS : wvl * (z - twoStepDz1 d1 d2 z) / ((N:ℝ) * (wvl * twoStepDz1 d1 d2 z / ((N:ℝ) * d1)))
      = d1 * (z - twoStepDz1 d1 d2 z) / twoStepDz1 d1 d2 z := by
    field_simp
  rw [hS]
  exact fresnelSum_congr wvl _ _
    (fun a' ha' b' hb' => oneStep_is_fresnel_sum hN hev U wvl d1 _ hw hd1 hD1 ha' hb') _ _

end twostep

/-! ### orientation of the repaired `twoStepFresnel` -/
section orientation
variable {N : ℕ}

/-- the Fresnel sum takes the same value at the two ends `∓(N/2) S` of the output period (`S = λz/(N d)`) -/
theorem fresnelSum_edgeX (hN : 0 < N) (hev : Even N) (wvl z d : ℝ) (hw : wvl ≠ 0) (hz : z ≠ 0) (hd : d ≠ 0)
    (V : ℕ → ℕ → ℂ) (Y : ℝ) :
    fresnelSum N wvl z d V (-((N:ℝ) / 2) * (wvl * z / ((N:ℝ) * d))) Y
      = fresnelSum N wvl z d V (((N:ℝ) / 2) * (wvl * z / ((N:ℝ) * d))) Y := by
  have hNr : (N:ℝ) ≠ 0 := by exact_mod_cast (Nat.pos_iff_ne_zero.mp hN)
  unfold fresnelSum
  apply mul_left_congr
  apply sum_congr rfl; intro a' _
  apply sum_congr rfl; intro b' _
  apply mul_right_congr; apply mul_left_congr
  rw [← cis_def, ← cis_def]
  have : Real.pi * ((-((N:ℝ) / 2) * (wvl * z / ((N:ℝ) * d)) - ((b':ℝ) - N / 2) * d) ^ 2
        + (Y - ((a':ℝ) - N / 2) * d) ^ 2) / (wvl * z)
      = Real.pi * ((((N:ℝ) / 2) * (wvl * z / ((N:ℝ) * d)) - ((b':ℝ) - N / 2) * d) ^ 2
        + (Y - ((a':ℝ) - N / 2) * d) ^ 2) / (wvl * z) + 2 * Real.pi * ((((b':ℤ) - ((N / 2 : ℕ) : ℤ) : ℤ)) : ℝ) := by
    simp only [Int.cast_sub, Int.cast_natCast, half_cast hev]
    field_simp
    ring
  rw [this, cis_add, cis_two_pi_int, mul_one]

theorem fresnelSum_edgeY (hN : 0 < N) (hev : Even N) (wvl z d : ℝ) (hw : wvl ≠ 0) (hz : z ≠ 0) (hd : d ≠ 0)
    (V : ℕ → ℕ → ℂ) (X : ℝ) :
    fresnelSum N wvl z d V X (-((N:ℝ) / 2) * (wvl * z / ((N:ℝ) * d)))
      = fresnelSum N wvl z d V X (((N:ℝ) / 2) * (wvl * z / ((N:ℝ) * d))) := by
  have hNr : (N:ℝ) ≠ 0 := by exact_mod_cast (Nat.pos_iff_ne_zero.mp hN)
  unfold fresnelSum
  apply mul_left_congr
  apply sum_congr rfl; intro a' _
  apply sum_congr rfl; intro b' _
  apply mul_right_congr; apply mul_left_congr
  rw [← cis_def, ← cis_def]
  have : Real.pi * ((X - ((b':ℝ) - N / 2) * d) ^ 2
        + (-((N:ℝ) / 2) * (wvl * z / ((N:ℝ) * d)) - ((a':ℝ) - N / 2) * d) ^ 2) / (wvl * z)
      = Real.pi * ((X - ((b':ℝ) - N / 2) * d) ^ 2
        + (((N:ℝ) / 2) * (wvl * z / ((N:ℝ) * d)) - ((a':ℝ) - N / 2) * d) ^ 2) / (wvl * z)
          + 2 * Real.pi * ((((a':ℤ) - ((N / 2 : ℕ) : ℤ) : ℤ)) : ℝ) := by
    simp only [Int.cast_sub, Int.cast_natCast, half_cast hev]
    field_simp
    ring
  rw [this, cis_add, cis_two_pi_int, mul_one]

/-- coordinate of the point-reflected index on the descending grid = coordinate of the index on the ascending grid,
up to the output period at index 0 -/
theorem reflected_coord {a : ℕ} (ha : a < N) (S : ℝ) (h0 : 0 < a) :
    ((((N - a) % N : ℕ) : ℝ) - N / 2) * S = ((a:ℝ) - N / 2) * (-S) := by
  rw [Nat.mod_eq_of_lt (by omega : N - a < N), Nat.cast_sub (le_of_lt ha)]
  ring

theorem fresnelSum_reflX (hN : 0 < N) (hev : Even N) (wvl z d : ℝ) (hw : wvl ≠ 0) (hz : z ≠ 0) (hd : d ≠ 0)
    (V : ℕ → ℕ → ℂ) (Y : ℝ) {b : ℕ} (hb : b < N) :
    fresnelSum N wvl z d V (((((N - b) % N : ℕ) : ℝ) - N / 2) * (wvl * z / ((N:ℝ) * d))) Y
      = fresnelSum N wvl z d V (((b:ℝ) - N / 2) * (-(wvl * z / ((N:ℝ) * d)))) Y := by
  rcases Nat.eq_zero_or_pos b with h0 | hpos
  · subst h0
    have e1 : ((((N - 0) % N : ℕ) : ℝ) - N / 2) * (wvl * z / ((N:ℝ) * d)) = -((N:ℝ) / 2) * (wvl * z / ((N:ℝ) * d)) := by
      simp
    have e2 : (((0:ℕ):ℝ) - N / 2) * (-(wvl * z / ((N:ℝ) * d))) = ((N:ℝ) / 2) * (wvl * z / ((N:ℝ) * d)) := by
      simp
    rw [e1, e2]
    exact fresnelSum_edgeX hN hev wvl z d hw hz hd V Y
  · rw [reflected_coord hb _ hpos]

theorem fresnelSum_reflY (hN : 0 < N) (hev : Even N) (wvl z d : ℝ) (hw : wvl ≠ 0) (hz : z ≠ 0) (hd : d ≠ 0)
    (V : ℕ → ℕ → ℂ) (X : ℝ) {a : ℕ} (ha : a < N) :
    fresnelSum N wvl z d V X (((((N - a) % N : ℕ) : ℝ) - N / 2) * (wvl * z / ((N:ℝ) * d)))
      = fresnelSum N wvl z d V X (((a:ℝ) - N / 2) * (-(wvl * z / ((N:ℝ) * d)))) := by
  rcases Nat.eq_zero_or_pos a with h0 | hpos
  · subst h0
    have e1 : ((((N - 0) % N : ℕ) : ℝ) - N / 2) * (wvl * z / ((N:ℝ) * d)) = -((N:ℝ) / 2) * (wvl * z / ((N:ℝ) * d)) := by
      simp
    have e2 : (((0:ℕ):ℝ) - N / 2) * (-(wvl * z / ((N:ℝ) * d))) = ((N:ℝ) / 2) * (wvl * z / ((N:ℝ) * d)) := by
      simp
    rw [e1, e2]
    exact fresnelSum_edgeY hN hev wvl z d hw hz hd V X
  · rw [reflected_coord ha _ hpos]

/-- **orientation** of the repaired `twoStepFresnel`: for every magnification `m = d₂/d₁ > 0` (including `m = 1`) and either sign of
`z`, output sample `(a, b)` is the two-stage Fresnel sum at `(x, y) = (+(b − N/2) d₂, +(a − N/2) d₂)` — the same grid orientation as
the input and as `angularSpectrum` -/
theorem twoStep_orientation (hN : 0 < N) (hev : Even N) (U : ℕ → ℕ → ℂ) (wvl d1 d2 z : ℝ)
    (hw : wvl ≠ 0) (hd1 : 0 < d1) (hd2 : 0 < d2) (hz : z ≠ 0) {a b : ℕ} (ha : a < N) (hb : b < N) :
    twoStepFresnel N (fun m => fftRoot N ^ m) U wvl d1 d2 z a b
      = twoStageSum N wvl d1 d2 z U (((b:ℝ) - N / 2) * d2) (((a:ℝ) - N / 2) * d2) := by
  have hNr : (N:ℝ) ≠ 0 := by exact_mod_cast (Nat.pos_iff_ne_zero.mp hN)
  have hd1' := hd1.ne'
  have hd2' := hd2.ne'
  obtain ⟨hD1, hD2, hD⟩ := twoStep_distances d1 d2 z hd1' hd2' hz
  rw [twoStepFresnel_eq N _ U wvl d1 d2 z ha hb, reflIdx_even hev, reflIdx_even hev]
  by_cases hm : 1 - d2 / d1 = 0
  · -- m = 1: both partial distances are z/2, no reflection
    have hDz : twoStepDz1 d1 d2 z = z / 2 := by
      rw [twoStepDz1_of_eq _ _ _ hm]
      have : d2 / d1 = 1 := by linarith
      rw [this]; norm_num
    have hd : d2 = d1 := by
      have : d2 / d1 = 1 := by linarith
      field_simp at this; exact this
    have hnot : ¬ (twoStepDz1 d1 d2 z * (z - twoStepDz1 d1 d2 z) < 0) := by
      rw [hDz]; nlinarith [sq_nonneg z]
    rw [if_neg hnot, twoStep_pinned_is_two_sums hN hev U wvl d1 d2 z hw hd1' hd2' hz ha hb]
    have hS : d1 * (z - twoStepDz1 d1 d2 z) / twoStepDz1 d1 d2 z = d2 := by
      rw [hDz, hd]; field_simp; ring
    rw [hS]
  · -- m ≠ 1: Dz2 = −m·Dz1, exactly one step runs backwards, the code reflects the result
    have hDz : twoStepDz1 d1 d2 z = z / (1 - d2 / d1) := twoStepDz1_of_ne _ _ _ hm
    have h' : d1 - d2 ≠ 0 := by
      intro h0; apply hm; field_simp; linarith
    have hrel : z - twoStepDz1 d1 d2 z = -(d2 / d1) * twoStepDz1 d1 d2 z := by
      have e : z / (1 - d2 / d1) = z * d1 / (d1 - d2) := by field_simp
      rw [hDz, e]; field_simp; ring
    have hneg : twoStepDz1 d1 d2 z * (z - twoStepDz1 d1 d2 z) < 0 := by
      rw [hrel]
      have h1 : 0 < d2 / d1 := div_pos hd2 hd1
      have h2 : 0 < (twoStepDz1 d1 d2 z) ^ 2 := by positivity
      nlinarith
    have hlt : ∀ c : ℕ, (N - c) % N < N := fun c => Nat.mod_lt _ hN
    rw [if_pos hneg, twoStep_pinned_is_two_sums hN hev U wvl d1 d2 z hw hd1' hd2' hz (hlt a) (hlt b)]
    have hs1 : wvl * twoStepDz1 d1 d2 z / ((N:ℝ) * d1) ≠ 0 :=
      div_ne_zero (mul_ne_zero hw hD1) (mul_ne_zero hNr hd1')
    have hS : d1 * (z - twoStepDz1 d1 d2 z) / twoStepDz1 d1 d2 z
        = wvl * (z - twoStepDz1 d1 d2 z) / ((N:ℝ) * (wvl * twoStepDz1 d1 d2 z / ((N:ℝ) * d1))) := by
      field_simp
    have hS2 : d2 = -(wvl * (z - twoStepDz1 d1 d2 z) / ((N:ℝ) * (wvl * twoStepDz1 d1 d2 z / ((N:ℝ) * d1)))) := by
      rw [← hS, hrel]; field_simp
    unfold twoStageSum
    rw [hS, fresnelSum_reflX hN hev wvl _ _ hw hD2 hs1 _ _ hb, fresnelSum_reflY hN hev wvl _ _ hw hD2 hs1 _ _ ha, ← hS2]

/-- what was wrong at the pinned commit (D7): for every magnification `m ≠ 1` the un-repaired two-step output sample `(a, b)` is the
two-stage Fresnel field at `(−(b − N/2) d₂, −(a − N/2) d₂)` — the field point-reflected about the centre sample -/
theorem twoStep_pinned_point_reflected (hN : 0 < N) (hev : Even N) (U : ℕ → ℕ → ℂ) (wvl d1 d2 z : ℝ)
    (hw : wvl ≠ 0) (hd1 : d1 ≠ 0) (hd2 : d2 ≠ 0) (hz : z ≠ 0) (hm : 1 - d2 / d1 ≠ 0) {a b : ℕ} (ha : a < N) (hb : b < N) :
    twoStepFresnel_pinned N (fun m => fftRoot N ^ m) U wvl d1 d2 z a b
      = twoStageSum N wvl d1 d2 z U (((b:ℝ) - N / 2) * (-d2)) (((a:ℝ) - N / 2) * (-d2)) := by
  obtain ⟨hD1, _, _⟩ := twoStep_distances d1 d2 z hd1 hd2 hz
  have h' : d1 - d2 ≠ 0 := by
    intro h0; apply hm; field_simp; linarith
  have hDz : twoStepDz1 d1 d2 z = z / (1 - d2 / d1) := twoStepDz1_of_ne _ _ _ hm
  have hS : d1 * (z - twoStepDz1 d1 d2 z) / twoStepDz1 d1 d2 z = -d2 := by
    have e : z / (1 - d2 / d1) = z * d1 / (d1 - d2) := by field_simp
    rw [hDz, e]; field_simp; ring
  rw [twoStep_pinned_is_two_sums hN hev U wvl d1 d2 z hw hd1 hd2 hz ha hb, hS]

end orientation

/-! ### every grid size: the same identities with the centre sample `⌊N/2⌋` (even AND odd `N`) -/
section anyN
variable {N : ℕ}

/-- `fresnelSum` with the input samples at `((b' − c) d, (a' − c) d)` for an arbitrary centre index `c` -/
noncomputable def fresnelSumC (N : ℕ) (c wvl z d : ℝ) (U : ℕ → ℕ → ℂ) (X Y : ℝ) : ℂ :=
  1 / (Complex.I * wvl * z) * ∑ a' ∈ range N, ∑ b' ∈ range N,
    U a' b' * Complex.exp (((Real.pi * ((X - ((b':ℝ) - c) * d) ^ 2 + (Y - ((a':ℝ) - c) * d) ^ 2) / (wvl * z) : ℝ) : ℂ)
      * Complex.I) * (d:ℂ) ^ 2

/-- `fraunhoferSum` with an arbitrary centre index `c` -/
noncomputable def fraunhoferSumC (N : ℕ) (c wvl f d : ℝ) (U : ℕ → ℕ → ℂ) (X Y : ℝ) : ℂ :=
  Complex.exp (((Real.pi * (X ^ 2 + Y ^ 2) / (wvl * f) : ℝ) : ℂ) * Complex.I) / (Complex.I * wvl * f)
    * ∑ a' ∈ range N, ∑ b' ∈ range N,
      U a' b' * Complex.exp (((-(2 * Real.pi * (X * (((b':ℝ) - c) * d) + Y * (((a':ℝ) - c) * d)) / (wvl * f)) : ℝ) : ℂ)
        * Complex.I) * (d:ℂ) ^ 2

theorem fresnelSumC_half (wvl z d : ℝ) (U : ℕ → ℕ → ℂ) (X Y : ℝ) :
    fresnelSumC N ((N:ℝ) / 2) wvl z d U X Y = fresnelSum N wvl z d U X Y := rfl
theorem fraunhoferSumC_half (wvl f d : ℝ) (U : ℕ → ℕ → ℂ) (X Y : ℝ) :
    fraunhoferSumC N ((N:ℝ) / 2) wvl f d U X Y = fraunhoferSum N wvl f d U X Y := rfl

theorem fresnel_phase_anyN (hN : 0 < N) (wvl d1 z : ℝ) (hw : wvl ≠ 0) (hd1 : d1 ≠ 0) (hz : z ≠ 0) (a b a' b' : ℕ) :
    quadTheta N wvl (wvl * z / ((N:ℝ) * d1)) z a b + quadTheta N wvl d1 z a' b'
        + (-(2 * Real.pi * (((((a':ℤ) - DFT.ctr N) * ((a:ℤ) - DFT.ctr N) : ℤ) : ℝ)) / N))
        + (-(2 * Real.pi * (((((b':ℤ) - DFT.ctr N) * ((b:ℤ) - DFT.ctr N) : ℤ) : ℝ)) / N))
      = Real.pi * ((((b:ℝ) - ((N / 2 : ℕ) : ℝ)) * (wvl * z / ((N:ℝ) * d1)) - ((b':ℝ) - ((N / 2 : ℕ) : ℝ)) * d1) ^ 2
          + (((a:ℝ) - ((N / 2 : ℕ) : ℝ)) * (wvl * z / ((N:ℝ) * d1)) - ((a':ℝ) - ((N / 2 : ℕ) : ℝ)) * d1) ^ 2) / (wvl * z) := by
  have hNr : (N:ℝ) ≠ 0 := by exact_mod_cast (Nat.pos_iff_ne_zero.mp hN)
  unfold quadTheta gridIdx wavevector
  simp only [RealTransc.pi_eq, Nat.cast_ofNat]
  simp only [Int.cast_mul, Int.cast_sub, Int.cast_natCast]
  generalize ((N / 2 : ℕ) : ℝ) = c
  field_simp
  ring

/-- **every `N`** (odd included): `oneStepFresnel` output sample `(a, b)` IS the Fresnel sum centred on sample `⌊N/2⌋`, evaluated at
`((b − ⌊N/2⌋) d₂, (a − ⌊N/2⌋) d₂)`, `d₂ = λz/(N d₁)` -/
theorem oneStep_is_fresnel_sum_anyN (hN : 0 < N) (U : ℕ → ℕ → ℂ) (wvl d1 z : ℝ)
    (hw : wvl ≠ 0) (hd1 : d1 ≠ 0) (hz : z ≠ 0) {a b : ℕ} (ha : a < N) (hb : b < N) :
    oneStepFresnel N (fun m => fftRoot N ^ m) U wvl d1 z a b
      = fresnelSumC N ((N / 2 : ℕ) : ℝ) wvl z d1 U (((b:ℝ) - ((N / 2 : ℕ) : ℝ)) * (wvl * z / ((N:ℝ) * d1)))
          (((a:ℝ) - ((N / 2 : ℕ) : ℝ)) * (wvl * z / ((N:ℝ) * d1))) := by
  have hζ := fftRoot_primitive hN
  rw [oneStepFresnel_eq N _ U wvl d1 z ha hb, ft2'_eq_cdft2 hζ hN, DFT2.cdft2_sum, fresnelAmp_eq]
  unfold fresnelSumC
  rw [mul_assoc]
  apply mul_left_congr
  rw [sum_mul, mul_sum]
  apply sum_congr rfl; intro a' _
  rw [sum_mul, mul_sum]
  apply sum_congr rfl; intro b' _
  rw [fftRoot_zpow, fftRoot_zpow, ← cis_def, ← fresnel_phase_anyN hN wvl d1 z hw hd1 hz a b a' b', cis_add, cis_add, cis_add]
  ring

theorem fraunhofer_phase_anyN (hN : 0 < N) (wvl d1 f : ℝ) (hw : wvl ≠ 0) (hd1 : d1 ≠ 0) (hf : f ≠ 0) (a b a' b' : ℕ) :
    (-(2 * Real.pi * (((((a':ℤ) - DFT.ctr N) * ((a:ℤ) - DFT.ctr N) : ℤ) : ℝ)) / N))
        + (-(2 * Real.pi * (((((b':ℤ) - DFT.ctr N) * ((b:ℤ) - DFT.ctr N) : ℤ) : ℝ)) / N))
      = -(2 * Real.pi * ((((b:ℝ) - ((N / 2 : ℕ) : ℝ)) * (wvl * f / ((N:ℝ) * d1))) * (((b':ℝ) - ((N / 2 : ℕ) : ℝ)) * d1)
          + (((a:ℝ) - ((N / 2 : ℕ) : ℝ)) * (wvl * f / ((N:ℝ) * d1))) * (((a':ℝ) - ((N / 2 : ℕ) : ℝ)) * d1)) / (wvl * f)) := by
  have hNr : (N:ℝ) ≠ 0 := by exact_mod_cast (Nat.pos_iff_ne_zero.mp hN)
  simp only [Int.cast_mul, Int.cast_sub, Int.cast_natCast]
  generalize ((N / 2 : ℕ) : ℝ) = c
  field_simp
  ring

theorem lens_phase_anyN (hN : 0 < N) (wvl d1 f : ℝ) (hw : wvl ≠ 0) (hd1 : d1 ≠ 0) (hf : f ≠ 0) (a b : ℕ) :
    lensTheta N wvl d1 f a b
      = Real.pi * ((((b:ℝ) - ((N / 2 : ℕ) : ℝ)) * (wvl * f / ((N:ℝ) * d1))) ^ 2
          + (((a:ℝ) - ((N / 2 : ℕ) : ℝ)) * (wvl * f / ((N:ℝ) * d1))) ^ 2) / (wvl * f) := by
  have hNr : (N:ℝ) ≠ 0 := by exact_mod_cast (Nat.pos_iff_ne_zero.mp hN)
  unfold lensTheta gridIdx wavevector
  simp only [RealTransc.pi_eq, Nat.cast_ofNat]
  generalize ((N / 2 : ℕ) : ℝ) = c
  field_simp

/-- **every `N`**: `lensAgainst` output sample `(a, b)` IS the Fraunhofer sum centred on sample `⌊N/2⌋` -/
theorem lens_is_fraunhofer_sum_anyN (hN : 0 < N) (U : ℕ → ℕ → ℂ) (wvl d1 f : ℝ)
    (hw : wvl ≠ 0) (hd1 : d1 ≠ 0) (hf : f ≠ 0) {a b : ℕ} (ha : a < N) (hb : b < N) :
    lensAgainst N (fun m => fftRoot N ^ m) U wvl d1 f a b
      = fraunhoferSumC N ((N / 2 : ℕ) : ℝ) wvl f d1 U (((b:ℝ) - ((N / 2 : ℕ) : ℝ)) * (wvl * f / ((N:ℝ) * d1)))
          (((a:ℝ) - ((N / 2 : ℕ) : ℝ)) * (wvl * f / ((N:ℝ) * d1))) := by
  have hζ := fftRoot_primitive hN
  rw [lensAgainst_eq N _ U wvl d1 f ha hb, ft2'_eq_cdft2 hζ hN, DFT2.cdft2_sum, lens_phase_anyN hN wvl d1 f hw hd1 hf, i_def]
  unfold fraunhoferSumC
  rw [← cis_def, mul_assoc]
  apply mul_left_congr
  rw [sum_mul]
  apply sum_congr rfl; intro a' _
  rw [sum_mul]
  apply sum_congr rfl; intro b' _
  rw [fftRoot_zpow, fftRoot_zpow, ← cis_def, ← fraunhofer_phase_anyN hN wvl d1 f hw hd1 hf a b a' b', cis_add]
  ring

/-- the two-stage Fresnel sum of `twoStepFresnel` with every grid centred on index `c` -/
noncomputable def twoStageSumC (N : ℕ) (c wvl d1 d2 z : ℝ) (U : ℕ → ℕ → ℂ) (X Y : ℝ) : ℂ :=
  fresnelSumC N c wvl (z - twoStepDz1 d1 d2 z) (wvl * twoStepDz1 d1 d2 z / ((N:ℝ) * d1))
    (fun a' b' => fresnelSumC N c wvl (twoStepDz1 d1 d2 z) d1 U
      (((b':ℝ) - c) * (wvl * twoStepDz1 d1 d2 z / ((N:ℝ) * d1)))
      (((a':ℝ) - c) * (wvl * twoStepDz1 d1 d2 z / ((N:ℝ) * d1)))) X Y

theorem twoStageSumC_half (wvl d1 d2 z : ℝ) (U : ℕ → ℕ → ℂ) (X Y : ℝ) :
    twoStageSumC N ((N:ℝ) / 2) wvl d1 d2 z U X Y = twoStageSum N wvl d1 d2 z U X Y := rfl

theorem fresnelSumC_congr (c wvl z d : ℝ) {U V : ℕ → ℕ → ℂ} (h : ∀ a < N, ∀ b < N, U a b = V a b) (X Y : ℝ) :
    fresnelSumC N c wvl z d U X Y = fresnelSumC N c wvl z d V X Y := by
  unfold fresnelSumC
  apply mul_left_congr
  apply sum_congr rfl; intro a' ha'
  apply sum_congr rfl; intro b' hb'
  rw [h a' (mem_range.mp ha') b' (mem_range.mp hb')]

/-- **every `N`**: the un-reflected two-step output sample `(a, b)` is the two-stage Fresnel sum (centre `⌊N/2⌋`) at
`((b − ⌊N/2⌋) S₂, (a − ⌊N/2⌋) S₂)`, `S₂ = d₁ Dz2/Dz1` (signed) -/
theorem twoStep_pinned_is_two_sums_anyN (hN : 0 < N) (U : ℕ → ℕ → ℂ) (wvl d1 d2 z : ℝ)
    (hw : wvl ≠ 0) (hd1 : d1 ≠ 0) (hd2 : d2 ≠ 0) (hz : z ≠ 0) {a b : ℕ} (ha : a < N) (hb : b < N) :
    twoStepFresnel_pinned N (fun m => fftRoot N ^ m) U wvl d1 d2 z a b
      = twoStageSumC N ((N / 2 : ℕ) : ℝ) wvl d1 d2 z U
          (((b:ℝ) - ((N / 2 : ℕ) : ℝ)) * (d1 * (z - twoStepDz1 d1 d2 z) / twoStepDz1 d1 d2 z))
          (((a:ℝ) - ((N / 2 : ℕ) : ℝ)) * (d1 * (z - twoStepDz1 d1 d2 z) / twoStepDz1 d1 d2 z)) := by
  have hζ := fftRoot_primitive hN
  have hNr : (N:ℝ) ≠ 0 := by exact_mod_cast (Nat.pos_iff_ne_zero.mp hN)
  obtain ⟨hD1, hD2, hD⟩ := twoStep_distances d1 d2 z hd1 hd2 hz
  have hs1 : wvl * twoStepDz1 d1 d2 z / ((N:ℝ) * d1) ≠ 0 :=
    div_ne_zero (mul_ne_zero hw hD1) (mul_ne_zero hNr hd1)
  rw [twoStep_is_two_steps hN _ U wvl d1 d2 z hw hd1 hd2 hz ha hb,
    oneStep_sq hζ hN _ wvl _ _ _ (d1a_sq wvl d1 d2 z) ha hb,
    oneStep_is_fresnel_sum_anyN hN _ wvl _ _ hw hs1 hD2 ha hb]
  unfold twoStageSumC
  have hS : wvl * (z - twoStepDz1 d1 d2 z) / ((N:ℝ) * (wvl * twoStepDz1 d1 d2 z / ((N:ℝ) * d1)))
      = d1 * (z - twoStepDz1 d1 d2 z) / twoStepDz1 d1 d2 z := by
    field_simp
  rw [hS]
  exact fresnelSumC_congr _ wvl _ _
    (fun a' ha' b' hb' => oneStep_is_fresnel_sum_anyN hN U wvl d1 _ hw hd1 hD1 ha' hb') _ _

/-- on an odd grid the reflected index sits at exactly the mirrored coordinate: `reflIdx a − c = −(a − c)`, `c = ⌊N/2⌋` -/
theorem reflected_coord_odd (hodd : ¬ Even N) {a : ℕ} (ha : a < N) (S : ℝ) :
    (((reflIdx N a : ℕ) : ℝ) - ((N / 2 : ℕ) : ℝ)) * S = ((a:ℝ) - ((N / 2 : ℕ) : ℝ)) * (-S) := by
  rw [reflIdx_odd hodd ha]
  obtain ⟨c, rfl⟩ := Nat.not_even_iff_odd.mp hodd
  have h2 : (2 * c + 1) / 2 = c := by omega
  have h3 : 2 * c + 1 - 1 - a = 2 * c - a := by omega
  rw [h2, h3, Nat.cast_sub (by omega : a ≤ 2 * c)]
  push_cast
  ring

/-- **orientation, every `N`** (odd included): for every magnification `m = d₂/d₁ > 0` and either sign of `z`, the repaired
`twoStepFresnel` output sample `(a, b)` is the two-stage Fresnel sum (all grids centred on sample `⌊N/2⌋`) at
`(+(b − ⌊N/2⌋) d₂, +(a − ⌊N/2⌋) d₂)` -/
theorem twoStep_orientation_anyN (hN : 0 < N) (U : ℕ → ℕ → ℂ) (wvl d1 d2 z : ℝ)
    (hw : wvl ≠ 0) (hd1 : 0 < d1) (hd2 : 0 < d2) (hz : z ≠ 0) {a b : ℕ} (ha : a < N) (hb : b < N) :
    twoStepFresnel N (fun m => fftRoot N ^ m) U wvl d1 d2 z a b
      = twoStageSumC N ((N / 2 : ℕ) : ℝ) wvl d1 d2 z U (((b:ℝ) - ((N / 2 : ℕ) : ℝ)) * d2) (((a:ℝ) - ((N / 2 : ℕ) : ℝ)) * d2) := by
  by_cases hev : Even N
  · rw [twoStep_orientation hN hev U wvl d1 d2 z hw hd1 hd2 hz ha hb, half_cast hev, twoStageSumC_half]
  have hd1' := hd1.ne'
  have hd2' := hd2.ne'
  rw [twoStepFresnel_eq N _ U wvl d1 d2 z ha hb]
  by_cases hm : 1 - d2 / d1 = 0
  · have hDz : twoStepDz1 d1 d2 z = z / 2 := by
      rw [twoStepDz1_of_eq _ _ _ hm]
      have : d2 / d1 = 1 := by linarith
      rw [this]; norm_num
    have hd : d2 = d1 := by
      have : d2 / d1 = 1 := by linarith
      field_simp at this; exact this
    have hnot : ¬ (twoStepDz1 d1 d2 z * (z - twoStepDz1 d1 d2 z) < 0) := by
      rw [hDz]; nlinarith [sq_nonneg z]
    rw [if_neg hnot, twoStep_pinned_is_two_sums_anyN hN U wvl d1 d2 z hw hd1' hd2' hz ha hb]
    have hS : d1 * (z - twoStepDz1 d1 d2 z) / twoStepDz1 d1 d2 z = d2 := by
      rw [hDz, hd]; field_simp; ring
    rw [hS]
  · have hDz : twoStepDz1 d1 d2 z = z / (1 - d2 / d1) := twoStepDz1_of_ne _ _ _ hm
    have h' : d1 - d2 ≠ 0 := by
      intro h0; apply hm; field_simp; linarith
    have hrel : z - twoStepDz1 d1 d2 z = -(d2 / d1) * twoStepDz1 d1 d2 z := by
      have e : z / (1 - d2 / d1) = z * d1 / (d1 - d2) := by field_simp
      rw [hDz, e]; field_simp; ring
    obtain ⟨hD1, hD2, hD⟩ := twoStep_distances d1 d2 z hd1' hd2' hz
    have hneg : twoStepDz1 d1 d2 z * (z - twoStepDz1 d1 d2 z) < 0 := by
      rw [hrel]
      have h1 : 0 < d2 / d1 := div_pos hd2 hd1
      have h2 : 0 < (twoStepDz1 d1 d2 z) ^ 2 := by positivity
      nlinarith
    rw [if_pos hneg, twoStep_pinned_is_two_sums_anyN hN U wvl d1 d2 z hw hd1' hd2' hz (reflIdx_lt hN a) (reflIdx_lt hN b),
      reflected_coord_odd hev ha, reflected_coord_odd hev hb]
    have hS : -(d1 * (z - twoStepDz1 d1 d2 z) / twoStepDz1 d1 d2 z) = d2 := by
      rw [hrel]; field_simp
    rw [hS]

/-! non-vacuity on an odd grid -/
example : IsPrimitiveRoot (fftRoot 7) 7 ∧ 0 < 7 ∧ ¬ Even 7 ∧ (5e-7:ℝ) ≠ 0 ∧ (0:ℝ) < 1e-3 ∧ (0:ℝ) < 1.5e-3 ∧ (-20:ℝ) ≠ 0 :=
  ⟨fftRoot_primitive (by norm_num), by norm_num, by decide, by norm_num, by norm_num, by norm_num, by norm_num⟩

end anyN
/-! ### non-vacuity -/
example : IsPrimitiveRoot (fftRoot 8) 8 ∧ 0 < 8 ∧ Even 8 ∧ (5e-7:ℝ) ≠ 0 ∧ (0:ℝ) < 1e-3 ∧ (0:ℝ) < 1.5e-3 ∧ (-20:ℝ) ≠ 0 :=
  ⟨fftRoot_primitive (by norm_num), by norm_num, by decide, by norm_num, by norm_num, by norm_num, by norm_num⟩

end AoVerif.Props.C11
