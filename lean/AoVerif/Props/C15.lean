/-
C15 — centroiders locate, shift, scale and batch consistently.
Theorems are about `Model/Centroid.lean` (hand-written mirror of `aotools/image_processing/centroiders.py` with the
fixes of `fixes/C15-*.diff`, tied to the code by the correspondence driver), for EVERY frame size `ny × nx`, every
stack index type `ι` (any number of leading axes), over any linearly ordered field `K`.
-/
import AoVerif.Lemmas.Centroid
import AoVerif.Lemmas.CentroidShift
import AoVerif.Lemmas.CentroidSort
import AoVerif.Lemmas.CentroidSym
import AoVerif.Lemmas.CentroidCorr
import AoVerif.Lemmas.CentroidCirc
import AoVerif.Lemmas.CentroidComplex
import AoVerif.Lemmas.CentroidPad
import AoVerif.Lemmas.CentroidFlat

namespace AoVerif.Props.C15
open Finset AoVerif AoVerif.Centroid
set_option linter.unusedSectionVars false

section field
variable {K : Type} [Field K] [LinearOrder K] [IsStrictOrderedRing K]

/-! ### a stack of frames gives the same answers as each frame processed alone

The four `stack_eq_frames_*` statements are about `cogN`/`bpN`/`quadCellN`/`corrCentroidN`, which take the stack as a
function of the frame index and are therefore the 2-D expression per frame BY CONSTRUCTION (the proofs are `rfl`): they
only record that the model treats every frame by the same rule.  The content of the clause — the index arithmetic of
the real N-D path (`.max(-1).max(-1)`, `thres[..., None, None]`, `numpy.indices` broadcast against the stack,
`reshape`/`sort`/`[..., -k]`, `.sum(-2)`, `(im.T - im.min((1, 2))).T`) on ONE C-ordered buffer — is in the
`flat_eq_frames_*` theorems below, about the `…Flat` definitions that the driver executes against the real code. -/

/-- `centre_of_gravity`: the N-D path on a stack (any leading axes `ι`) = the 2-D path on each frame,
for every threshold and `min_threshold` -/
theorem stack_eq_frames_cog {ι : Type} (ny nx : ℕ) (t mn : K) (stack : ι → ℕ → ℕ → K) (i : ι) :
    cogN ny nx t mn stack i = cog2 ny nx t mn (stack i) := by
  unfold cogN cog2 moments thresholded
  split_ifs <;> rfl

/-- `brightest_pixel`: stack = frames (by construction of `bpN`; about the code for `1 ≤ k ≤ ny·nx`) -/
theorem stack_eq_frames_bp {ι : Type} (ny nx k : ℕ) (stack : ι → ℕ → ℕ → K) (i : ι) :
    bpN ny nx k stack i = bp2 ny nx k (stack i) := by
  unfold bpN bp2
  rw [stack_eq_frames_cog]

theorem stack_eq_frames_quad {ι : Type} (ny nx : ℕ) (stack : ι → ℕ → ℕ → K) (i : ι) :
    quadCellN ny nx stack i = quadCell ny nx (stack i) := rfl

/-- `correlation_centroid`: every frame of a `(t, y, x)` stack is treated exactly like a single 2-D image
(own minimum removed, same reference, same padding), for any FFT kernel tables -/
theorem stack_eq_frames_corr {ι C : Type} [Add C] [Mul C] [OfScientific C] (ny nx pad : ℕ)
    (wy wx wiy wix : ℕ → C) (ninvy ninvx zero : C) (conj : C → C) (absC : C → K)
    (memo : (ℕ → ℕ → C) → Img C) (ofReal : K → C) (t : K) (stack : ι → ℕ → ℕ → K) (ref : ℕ → ℕ → K) (i : ι) :
    corrCentroidN ny nx pad wy wx wiy wix ninvy ninvx zero conj absC memo ofReal t stack ref i
      = corrCentroid ny nx pad wy wx wiy wix ninvy ninvx zero conj absC memo ofReal t (stack i) ref := rfl

/-! ### the N-D paths on the flat C-ordered buffer = the 2-D path on each frame

`a : ℕ → K` is the buffer of a C-ordered array of shape `(nf, ny, nx)` (any number of leading axes flattened in C order);
`frameOf ny nx a i` is `img[i]`.  No bound on `i` is needed (the model reads the buffer wherever it is asked to). -/

/-- `centre_of_gravity`, N-D path: per-frame maxima by two axis reductions, `thres[..., None, None]` broadcast,
`numpy.indices((ny, nx))` broadcast against the stack, `.sum(-1).sum(-1)` — frame `i` gets exactly the 2-D answer of
`img[i]`, for every threshold and `min_threshold`, every frame size -/
theorem flat_eq_frames_cog (ny nx : ℕ) (t mn : K) (a : ℕ → K) (i : ℕ) :
    cogFlat ny nx t mn a i = cog2 ny nx t mn (frameOf ny nx a i) :=
  cogFlat_eq_frame ny nx t mn a i

/-- `brightest_pixel`, N-D path: `reshape(lead + (ny·nx,))`, `numpy.sort(…)[..., -k]`, `pxlValues[..., None, None]`,
clip, N-D centre of gravity — frame `i` gets exactly the 2-D answer of `img[i]` (the statement holds for every `k`; the
model mirrors the code for `1 ≤ k ≤ ny·nx`, see `kthLargest_outside_domain`) -/
theorem flat_eq_frames_bp (ny nx k : ℕ) (a : ℕ → K) (i : ℕ) :
    bpFlat ny nx k a i = bp2 ny nx k (frameOf ny nx a i) :=
  bpFlat_eq_frame ny nx k a i

/-- `quadCell`, N-D path: `img.sum(-2)[..., 1] - img.sum(-2)[..., 0]`, `img.sum(-1)[..., 1] - img.sum(-1)[..., 0]` on the
buffer, frames with at least two columns -/
theorem flat_eq_frames_quad {nx : ℕ} (ny : ℕ) (hx : 2 ≤ nx) (a : ℕ → K) (i : ℕ) :
    quadFlat ny nx a i = quadCell ny nx (frameOf ny nx a i) :=
  quadFlat_eq_frame ny hx a i

/-- `correlation_centroid` on a `(t, y, x)` buffer: `(im.T - im.min((1, 2))).T` removes from every pixel the minimum of
ITS frame, then each `im[frame]` is correlated with the same reference — frame `i` gets the answer of the 2-D entry -/
theorem flat_eq_frames_corr {C : Type} [Add C] [Mul C] [OfScientific C] (ny nx pad : ℕ)
    (wy wx wiy wix : ℕ → C) (ninvy ninvx zero : C) (conj : C → C) (absC : C → K)
    (memo : (ℕ → ℕ → C) → Img C) (ofReal : K → C) (t : K) (a : ℕ → K) (ref : ℕ → ℕ → K) (i : ℕ) :
    corrFlat ny nx pad wy wx wiy wix ninvy ninvx zero conj absC memo ofReal t a ref i
      = corrCentroid ny nx pad wy wx wiy wix ninvy ninvx zero conj absC memo ofReal t (frameOf ny nx a i) ref :=
  corrFlat_eq_frame ny nx pad wy wx wiy wix ninvy ninvx zero conj absC memo ofReal t a ref i

/-- the buffer index arithmetic is not vacuous: in a `(2, 2, 3)` buffer element `[1, 1, 2]` sits at index 11 and is
unravelled back to frame 1, row 1, column 2 -/
example : (1 * 2 + 1) * 3 + 2 = 11 ∧ unravelF 2 3 11 = 1 ∧ unravelY 2 3 11 = 1 ∧ unravelX 3 11 = 2 := by decide

/-! ### single bright pixel -/

/-- centre of gravity of a single bright pixel is that pixel's `(x, y)`, for every threshold below 1 (and every
absolute floor `0 ≤ min_threshold` below the pixel value) -/
theorem cog_single_pixel {ny nx y0 x0 : ℕ} (hy : y0 < ny) (hx : x0 < nx) {v t mn : K} (hv : 0 < v)
    (ht1 : t < 1) (hmn0 : 0 ≤ mn) (hmn : mn < v) :
    cog2 ny nx t mn (delta y0 x0 v) = ((x0 : K), (y0 : K)) := by
  unfold cog2 thresholded
  split_ifs with hnz
  · have hmax : max2 ny nx (delta y0 x0 v) = v := by
      apply max2_unique (Nat.lt_of_le_of_lt (Nat.zero_le _) hy) (Nat.lt_of_le_of_lt (Nat.zero_le _) hx)
      · exact ⟨y0, hy, x0, hx, by simp [delta]⟩
      · intro y _ x _; unfold delta; split_ifs <;> [exact le_refl _; exact hv.le]
    have hth : thresOf t mn v < v := by
      unfold thresOf; rw [maxK_eq_max]; apply max_lt _ hmn
      calc t * v < 1 * v := mul_lt_mul_of_pos_right ht1 hv
        _ = v := one_mul v
    have hth0 : 0 ≤ thresOf t mn v := thresOf_nonneg hmn0
    have e : ∀ y < ny, ∀ x < nx, clipSub (thresOf t mn (max2 ny nx (delta y0 x0 v))) (delta y0 x0 v y x)
        = delta y0 x0 (v - thresOf t mn v) y x := by
      intro y _ x _
      rw [hmax]; unfold delta
      split_ifs
      · unfold clipSub; rw [if_pos hth]
      · exact clipSub_zero hth0
    rw [moments_congr e]
    exact moments_delta hy hx (sub_pos.mpr hth).ne'
  · exact moments_delta hy hx hv.ne'

/-! ### invariance under multiplication by a positive constant -/

/-- general form: scaling the image and the absolute floor `min_threshold` together -/
theorem cog_scale_invariant_floor (ny nx : ℕ) {c : K} (hc : 0 < c) (t mn : K) (img : ℕ → ℕ → K) :
    cog2 ny nx t (c * mn) (fun y x => c * img y x) = cog2 ny nx t mn img := by
  unfold cog2
  rw [moments_congr (fun y _ x _ => thresholded_mul hc ny nx t mn img y x)]
  exact moments_mul hc.ne' ny nx _

/-- `centre_of_gravity(c·img, threshold) = centre_of_gravity(img, threshold)` for every `c > 0` and every threshold
(`min_threshold = 0`) -/
theorem cog_scale_invariant (ny nx : ℕ) {c : K} (hc : 0 < c) (t : K) (img : ℕ → ℕ → K) :
    cog2 ny nx t 0 (fun y x => c * img y x) = cog2 ny nx t 0 img := by
  have := cog_scale_invariant_floor ny nx hc t 0 img
  rwa [mul_zero] at this

/-! ### shift equivariance -/

/-- `numpy.roll` of a NON-NEGATIVE image by ANY integer `(ky, kx)` that keeps the content inside the frame moves the
centre of gravity by exactly `(kx, ky)`, for every threshold `t < 1` and every absolute floor `0 ≤ min_threshold`
below the maximum (so that the centroid is defined) -/
theorem cog_shift_equivariant {ny nx : ℕ} (hy : 0 < ny) (hx : 0 < nx) (ky kx : ℤ) {t mn : K} (img : ℕ → ℕ → K)
    (hnn : ∀ y < ny, ∀ x < nx, 0 ≤ img y x) (ht1 : t < 1) (hmn0 : 0 ≤ mn) (hmn : mn < max2 ny nx img)
    (hin : ContentInside ny nx ky kx img) :
    cog2 ny nx t mn (roll2 ny nx ky kx img)
      = ((cog2 ny nx t mn img).1 + (kx : K), (cog2 ny nx t mn img).2 + (ky : K)) :=
  cog2_roll2 hy hx ky kx hmn0 img hin (thresholded_total_pos hy hx hnn ht1 hmn0 hmn).ne'

/-- the hypotheses of `cog_shift_equivariant` are satisfiable by a non-trivial shift: a 1×3 frame `[2,1,0]` moved right -/
example : ContentInside (K := ℚ) 1 3 0 1 (fun _ x => if x = 0 then 2 else if x = 1 then 1 else 0)
    ∧ (0 : ℚ) < max2 1 3 (fun _ x => if x = 0 then 2 else if x = 1 then 1 else 0) := by
  constructor
  · intro y hy x hx h
    have : x = 0 ∨ x = 1 ∨ x = 2 := by omega
    rcases this with rfl | rfl | rfl <;> simp_all
  · decide +kernel

/-! ### brightest pixel -/

/-- **Domain of the brightest-pixel model.**  `kthLargest l k` mirrors `numpy.sort(l)[-k]` only for `1 ≤ k ≤ len l`.
Outside it differs from the code: for `k = 0` numpy's `[-0]` is `[0]`, the SMALLEST element, while the (total) model
returns its default `0`; for `k > len l` numpy raises `IndexError`, while the model's truncated subtraction reads index 0
(the same value as `k = len l`).  Every brightest-pixel theorem of this file is therefore a statement about the code
only for `1 ≤ k ≤ ny·nx` (the property asks for `k ≥ 2`); the driver rejects `k = 0` and `k > ny·nx`, and the harness
never draws them. -/
theorem kthLargest_outside_domain (l : List K) :
    kthLargest l 0 = 0 ∧ ∀ k, l.length < k → kthLargest l k = kthLargest l l.length := by
  unfold kthLargest
  refine ⟨?_, ?_⟩
  · rw [List.getD_eq_default _ _ (by rw [sortK_length]; omega)]; exact Nat.cast_zero
  · intro k hk
    rw [Nat.sub_eq_zero_of_le hk.le, Nat.sub_self]

theorem bp2_eq (ny nx k : ℕ) (img : ℕ → ℕ → K) :
    bp2 ny nx k img = cog2 ny nx 0 0 (fun y x => clip0 (img y x - kthLargest (flat ny nx img) k)) := by
  unfold bp2; simp only [Nat.cast_zero]

/-- brightest-pixel centroid of a single bright pixel is that pixel's `(x, y)` whenever the fraction selects at
least two pixels (`2 ≤ k ≤ ny·nx`) -/
theorem bp_single_pixel {ny nx y0 x0 k : ℕ} (hy : y0 < ny) (hx : x0 < nx) {v : K} (hv : 0 < v)
    (hk : 2 ≤ k) (hkN : k ≤ ny * nx) :
    bp2 ny nx k (delta y0 x0 v) = ((x0 : K), (y0 : K)) := by
  rw [bp2_eq]
  have hlen : k ≤ (flat ny nx (delta y0 x0 v)).length := by rw [flat_length]; exact hkN
  have hp0 : kthLargest (flat ny nx (delta y0 x0 v)) k = 0 := by
    obtain ⟨y, _, x, _, e⟩ := mem_flat (kthLargest_mem (by omega) hlen)
    by_contra hne
    have hpv : kthLargest (flat ny nx (delta y0 x0 v)) k = v := by
      rw [e] at hne ⊢; unfold delta at hne ⊢; split_ifs at hne ⊢ with h
      · rfl
      · exact absurd rfl hne
    have hc := kthLargest_count_ge (by omega) hlen
    rw [hpv, countP_flat] at hc
    have h1 : ∑ y ∈ range ny, ∑ x ∈ range nx, (if decide (v ≤ delta y0 x0 v y x) = true then 1 else 0) = 1 := by
      rw [sum_eq_single y0, sum_eq_single x0]
      · simp [delta]
      · intro x _ hne; simp [delta, hne, hv]
      · intro h; exact absurd (mem_range.mpr hx) h
      · intro y _ hne; apply sum_eq_zero; intro x _; simp [delta, hne, hv]
      · intro h; exact absurd (mem_range.mpr hy) h
    omega
  have e : ∀ y < ny, ∀ x < nx, clip0 (delta y0 x0 v y x - kthLargest (flat ny nx (delta y0 x0 v)) k) = delta y0 x0 v y x := by
    intro y _ x _
    rw [hp0, sub_zero]; unfold delta; split_ifs
    · exact clip0_of_pos hv
    · unfold clip0; simp
  unfold cog2
  have h0 : nonzero (0 : K) = false := by
    rw [Bool.eq_false_iff]; intro h; exact (nonzero_iff 0).mp h rfl
  unfold thresholded
  rw [h0]
  simp only [Bool.false_eq_true, if_false]
  rw [moments_congr e]
  exact moments_delta hy hx hv.ne'

/-- `brightest_pixel(c·img) = brightest_pixel(img)` for every `c > 0` and every pixel count `1 ≤ k ≤ ny·nx` (the
equation also holds in the model for `k = 0` and `k > ny·nx`, where the model is NOT the code: see
`kthLargest_outside_domain`; the restricted form is `bp_scale_invariant_in_domain`) -/
theorem bp_scale_invariant (ny nx k : ℕ) {c : K} (hc : 0 < c) (img : ℕ → ℕ → K) :
    bp2 ny nx k (fun y x => c * img y x) = bp2 ny nx k img := by
  rw [bp2_eq, bp2_eq, flat_mul, kthLargest_map_mul hc]
  have e : (fun y x => clip0 (c * img y x - c * kthLargest (flat ny nx img) k))
      = (fun y x => c * clip0 (img y x - kthLargest (flat ny nx img) k)) := by
    funext y x; rw [← mul_sub, clip0_mul hc]
  rw [e]
  exact cog_scale_invariant ny nx hc 0 _

/-- the statement about the code: pixel counts in the domain of `brightest_pixel` -/
theorem bp_scale_invariant_in_domain (ny nx k : ℕ) (_hk : 1 ≤ k) (_hkN : k ≤ ny * nx) {c : K} (hc : 0 < c)
    (img : ℕ → ℕ → K) :
    bp2 ny nx k (fun y x => c * img y x) = bp2 ny nx k img := bp_scale_invariant ny nx k hc img

/-- `numpy.roll` of a non-negative image by any `(ky, kx)` that keeps the content inside the frame moves the
brightest-pixel centroid by exactly `(kx, ky)`; `hdef` says that the centroid is defined (the k-th brightest value is
below the maximum, otherwise every pixel is clipped to zero) -/
theorem bp_shift_equivariant {ny nx k : ℕ} (hy : 0 < ny) (hx : 0 < nx) (ky kx : ℤ) (img : ℕ → ℕ → K)
    (hnn : ∀ y < ny, ∀ x < nx, 0 ≤ img y x) (hk : 0 < k) (hkN : k ≤ ny * nx)
    (hdef : kthLargest (flat ny nx img) k < max2 ny nx img)
    (hin : ContentInside ny nx ky kx img) :
    bp2 ny nx k (roll2 ny nx ky kx img)
      = ((bp2 ny nx k img).1 + (kx : K), (bp2 ny nx k img).2 + (ky : K)) := by
  rw [bp2_eq, bp2_eq, kthLargest_perm (flat_roll2_perm hy hx ky kx img)]
  set p := kthLargest (flat ny nx img) k with hp
  have hlen : k ≤ (flat ny nx img).length := by rw [flat_length]; exact hkN
  have hp0 : 0 ≤ p := by
    obtain ⟨y, hyy, x, hxx, e⟩ := mem_flat (kthLargest_mem hk hlen)
    rw [hp, e]; exact hnn y hyy x hxx
  obtain ⟨⟨y1, hy1, x1, hx1, e1⟩, _⟩ := max2_spec hy hx img
  have hroll : (fun y x => clip0 (roll2 ny nx ky kx img y x - p))
      = roll2 ny nx ky kx (fun y x => clip0 (img y x - p)) := rfl
  rw [hroll]
  apply cog_shift_equivariant hy hx ky kx _ (fun y _ x _ => clip0_nonneg _) zero_lt_one (le_refl _)
  · have h1 : 0 < clip0 (img y1 x1 - p) := by
      rw [clip0_of_pos (by rw [← e1]; exact sub_pos.mpr hdef), ← e1]; exact sub_pos.mpr hdef
    exact lt_of_lt_of_le h1 ((max2_spec hy hx (fun y x => clip0 (img y x - p))).2 y1 hy1 x1 hx1)
  · intro y hyy x hxx hne
    apply hin y hyy x hxx
    have := clip0_ne_zero hne
    have : p < img y x := sub_pos.mp this
    exact (lt_of_le_of_lt hp0 this).ne'

/-! ### correlation centroid

`correlation_centroid` = thresholded centre of gravity (2-D path) of the correlation surface minus the padding offset
(`corrTail`).  The correlation of an image with a copy of itself displaced by `s = (sy, sx)` is point-symmetric about
the pixel `(P_y/2 + sy, P_x/2 + sx)` of the padded `P_y × P_x` surface (`P = n·padding`, zero lag at `P/2` after
`fftshift`): that symmetry is the hypothesis `PointSym` below. -/

/-- the correlation centroid is displaced by exactly `s` from the array centre `(nx/2, ny/2)`, for EVERY padding ≥ 1,
every frame size (odd or even) and every threshold `t < 1` -/
theorem corr_tail_displacement {ny nx pad my mx : ℕ} (hny : 0 < ny) (hnx : 0 < nx) (hpad : 0 < pad) (sy sx : ℤ)
    {t : K} (ht1 : t < 1) (corr : ℕ → ℕ → K)
    (hmy : (my : ℤ) = ((ny * pad / 2 : ℕ) : ℤ) + sy) (hmx : (mx : ℤ) = ((nx * pad / 2 : ℕ) : ℤ) + sx)
    (hnn : ∀ a < ny * pad, ∀ b < nx * pad, 0 ≤ corr a b) (hpos : ∃ a < ny * pad, ∃ b < nx * pad, 0 < corr a b)
    (hsym : PointSym (ny * pad) (nx * pad) my mx corr) :
    corrTail ny nx pad t corr = (((nx / 2 : ℕ) : K) + (sx : K), ((ny / 2 : ℕ) : K) + (sy : K)) := by
  unfold corrTail
  simp only [Nat.cast_zero]
  rw [cog2_pointSym (Nat.mul_pos hny hpad) (Nat.mul_pos hnx hpad) ht1 hnn hpos hsym]
  unfold padOffset
  have h1 : nx / 2 ≤ nx * pad / 2 := Nat.div_le_div_right (Nat.le_mul_of_pos_right _ hpad)
  have h2 : ny / 2 ≤ ny * pad / 2 := Nat.div_le_div_right (Nat.le_mul_of_pos_right _ hpad)
  have ex : (mx : K) = ((nx * pad / 2 : ℕ) : K) + (sx : K) := by
    have : ((mx : ℤ) : K) = ((((nx * pad / 2 : ℕ) : ℤ) + sx : ℤ) : K) := by rw [hmx]
    simpa only [Int.cast_add, Int.cast_natCast] using this
  have ey : (my : K) = ((ny * pad / 2 : ℕ) : K) + (sy : K) := by
    have : ((my : ℤ) : K) = ((((ny * pad / 2 : ℕ) : ℤ) + sy : ℤ) : K) := by rw [hmy]
    simpa only [Int.cast_add, Int.cast_natCast] using this
  simp only [Prod.mk.injEq]
  rw [Nat.cast_sub h1, Nat.cast_sub h2, ex, ey]
  constructor <;> ring

/-- non-vacuity: the 1×4 correlation surface `[0,1,2,1]` (padding 1, displacement 0) is point-symmetric about 2 -/
example : PointSym (K := ℚ) (1 * 1) (4 * 1) 0 2 (fun _ b => if b = 0 then 0 else if b = 2 then 2 else 1) := by
  intro a ha b hb h
  have ha0 : a = 0 := by omega
  have : b = 0 ∨ b = 1 ∨ b = 2 ∨ b = 3 := by omega
  subst ha0
  rcases this with rfl | rfl | rfl | rfl <;> simp_all

/-- multiplying the correlation surface (i.e. the image or the reference) by `c > 0` does not move the result -/
theorem corr_tail_scale_invariant (ny nx pad : ℕ) {c : K} (hc : 0 < c) (t : K) (corr : ℕ → ℕ → K) :
    corrTail ny nx pad t (fun a b => c * corr a b) = corrTail ny nx pad t corr := by
  unfold corrTail
  simp only [Nat.cast_zero]
  rw [cog_scale_invariant _ _ hc]

/-- a displacement of the correlation surface that keeps it inside the padded frame moves the result by the same
amount (relative form of the displacement clause, no symmetry needed) -/
theorem corr_tail_shift_equivariant {ny nx pad : ℕ} (hny : 0 < ny) (hnx : 0 < nx) (hpad : 0 < pad) (ky kx : ℤ)
    {t : K} (ht1 : t < 1) (corr : ℕ → ℕ → K)
    (hnn : ∀ a < ny * pad, ∀ b < nx * pad, 0 ≤ corr a b) (hpos : 0 < max2 (ny * pad) (nx * pad) corr)
    (hin : ContentInside (ny * pad) (nx * pad) ky kx corr) :
    corrTail ny nx pad t (roll2 (ny * pad) (nx * pad) ky kx corr)
      = ((corrTail ny nx pad t corr).1 + (kx : K), (corrTail ny nx pad t corr).2 + (ky : K)) := by
  unfold corrTail
  simp only [Nat.cast_zero]
  rw [cog_shift_equivariant (Nat.mul_pos hny hpad) (Nat.mul_pos hnx hpad) ky kx corr hnn ht1 (le_refl 0) hpos hin]
  simp only [Prod.mk.injEq]
  constructor <;> ring

/-! ### the spectral pipeline of `cross_correlate` is the circular cross-correlation -/

/-- over any field with primitive roots of unity of orders `P_y`, `P_x` (twiddle tables `m ↦ ζ^m`, inverse tables
`m ↦ ζ⁻¹^m`): `ifft2(fft2(X) · fft2⁻(Y))[i, j] = Σ_{p,q} Y[p,q] · X[(p+i) mod P_y, (q+j) mod P_x]`, where `fft2⁻` is
the transform against the inverse roots (`= conj(fft2(Y))` for a real image `Y`) -/
theorem xcorr_is_circular_correlation {F : Type} [Field F] {py px : ℕ} {ζy ζx : F}
    (hζy : IsPrimitiveRoot ζy py) (hy : 0 < py) (hζx : IsPrimitiveRoot ζx px) (hx : 0 < px)
    (X Y : ℕ → ℕ → F) (i j : ℕ) :
    (idft2 idm py px (fun m => ζy⁻¹ ^ m) (fun m => ζx⁻¹ ^ m) (1 / (py : F)) (1 / (px : F))
      (fun a b => (dft2 idm py px (fun m => ζy ^ m) (fun m => ζx ^ m) X).px a b
                * (dft2 idm py px (fun m => ζy⁻¹ ^ m) (fun m => ζx⁻¹ ^ m) Y).px a b)).px i j
      = ∑ p ∈ range py, ∑ q ∈ range px, Y p q * X ((p + i) % py) ((q + j) % px) :=
  idft2_mul_dft2 hζy hy hζx hx X Y i j

end field

/-! ### correlation centroid, end to end over ℝ/ℂ -/

/-- **corr_displacement.**  `cross_correlate` (the model's FFT pipeline over ℂ: `conj` = complex conjugation, `abs` =
modulus, twiddle tables of ANY primitive roots of unity of orders `P = n·padding`) followed by the tail of
`correlation_centroid` (thresholded centre of gravity, padding offset), applied to real non-negative images `x` (frame)
and `y` (reference, not blank) such that the zero-padded frame is the zero-padded reference displaced by `s = (sy, sx)` (`hdisp`, on the padded frame):
the result is exactly `(nx/2 + sx, ny/2 + sy)` — for every frame size (odd or even), EVERY padding ≥ 1, every threshold
`t < 1` — provided the non-zero part of the correlation surface does not wrap around the padded frame (`hnowrap`; for an
undisplaced pair on an even frame: the autocorrelation vanishes at the Nyquist lag). -/
theorem corr_displacement {ny nx pad my mx : ℕ} (hny : 0 < ny) (hnx : 0 < nx) (hpad : 0 < pad) {ζy ζx : ℂ}
    (hζy : IsPrimitiveRoot ζy (ny * pad)) (hζx : IsPrimitiveRoot ζx (nx * pad)) (sy sx : ℤ) {t : ℝ} (ht1 : t < 1)
    (x y : ℕ → ℕ → ℝ) (hx0 : ∀ u v, 0 ≤ x u v) (hy0 : ∀ u v, 0 ≤ y u v) (hyne : ∃ u < ny, ∃ v < nx, y u v ≠ 0)
    (hdisp : ∀ u < ny * pad, ∀ v < nx * pad,
      zeroPad ny nx 0 x u v = roll2 (ny * pad) (nx * pad) sy sx (zeroPad ny nx 0 y) u v)
    (hmy : (my : ℤ) = ((ny * pad / 2 : ℕ) : ℤ) + sy) (hmx : (mx : ℤ) = ((nx * pad / 2 : ℕ) : ℤ) + sx)
    (hmyl : my < ny * pad) (hmxl : mx < nx * pad)
    (hnowrap : ∀ a < ny * pad, ∀ b < nx * pad,
      (crossCorrelate ny nx pad (fun m => ζy ^ m) (fun m => ζx ^ m) (fun m => ζy⁻¹ ^ m) (fun m => ζx⁻¹ ^ m)
        (1 / ((ny * pad : ℕ) : ℂ)) (1 / ((nx * pad : ℕ) : ℂ)) 0 (starRingEnd ℂ) (fun z => ‖z‖) idm
        (fun u v => (x u v : ℂ)) (fun u v => (y u v : ℂ))).px a b ≠ 0 →
      a ≤ 2 * my ∧ 2 * my - a < ny * pad ∧ b ≤ 2 * mx ∧ 2 * mx - b < nx * pad) :
    corrTail ny nx pad t
      (crossCorrelate ny nx pad (fun m => ζy ^ m) (fun m => ζx ^ m) (fun m => ζy⁻¹ ^ m) (fun m => ζx⁻¹ ^ m)
        (1 / ((ny * pad : ℕ) : ℂ)) (1 / ((nx * pad : ℕ) : ℂ)) 0 (starRingEnd ℂ) (fun z => ‖z‖) idm
        (fun u v => (x u v : ℂ)) (fun u v => (y u v : ℂ))).px
      = (((nx / 2 : ℕ) : ℝ) + (sx : ℝ), ((ny / 2 : ℕ) : ℝ) + (sy : ℝ)) := by
  have hy : 0 < ny * pad := Nat.mul_pos hny hpad
  have hx : 0 < nx * pad := Nat.mul_pos hnx hpad
  have hS := fun a b => (crossCorrelate_real hζy hy hζx hx x y hx0 hy0 a b).trans
    (circCorr_congr hy hx (zeroPad ny nx 0 y) hdisp _ _)
  apply corr_tail_displacement hny hnx hpad sy sx ht1 _ hmy hmx
  · intro a _ b _; exact norm_nonneg _
  · refine ⟨my, hmyl, mx, hmxl, ?_⟩
    rw [hS]
    apply shifted_circCorr_centre_pos hy hx _ sy sx hmy hmx
    obtain ⟨u, hu, v, hv, hne⟩ := hyne
    refine ⟨u, lt_of_lt_of_le hu (Nat.le_mul_of_pos_right _ hpad), v, lt_of_lt_of_le hv (Nat.le_mul_of_pos_right _ hpad), ?_⟩
    unfold zeroPad; rw [if_pos ⟨hu, hv⟩]; exact hne
  · exact pointSym_shifted_circCorr hy hx _ sy sx hmy hmx _ hS hnowrap

/-! ### `corr_displacement` on the un-padded inputs

The two hypotheses of `corr_displacement` that talk about the padded frames (`hdisp`, `hnowrap`) are consequences of
statements about the `ny × nx` input arrays: `im = numpy.roll(ref, (sy, sx))` with the content of `ref` (the pixels
above its minimum — `correlation_centroid` removes the minimum of both arrays first) in a box of extent `(wy, wx)` that
stays inside the frame, and the extreme correlation lags `s ± (w − 1)` inside the window `[−⌊P/2⌋, P − ⌊P/2⌋ − 1]` of
each padded axis (`P = n·padding`; automatic for padding ≥ 2, see `corr_displacement_of_roll_pad_ge_two`). -/

section field
variable {K : Type} [Field K] [LinearOrder K] [IsStrictOrderedRing K]

/-- **(1) `hdisp` from the roll.**  If `im = numpy.roll(ref, (sy, sx))` on the `ny × nx` frame and the content of `ref`
(pixels different from its minimum) stays inside the frame, then both arrays have the same minimum and the zero-padded
`im − min im` is the zero-padded `ref − min ref` rolled by `(sy, sx)` on the PADDED axes — for every padding ≥ 1 -/
theorem corr_hdisp_of_roll {ny nx pad : ℕ} (hny : 0 < ny) (hnx : 0 < nx) (hpad : 0 < pad) (sy sx : ℤ) (ref : ℕ → ℕ → K)
    (hin : ContentInside ny nx sy sx (fun u v => ref u v - min2 ny nx ref)) :
    min2 ny nx (roll2 ny nx sy sx ref) = min2 ny nx ref ∧
    ∀ u < ny * pad, ∀ v < nx * pad,
      zeroPad ny nx 0 (fun u v => roll2 ny nx sy sx ref u v - min2 ny nx (roll2 ny nx sy sx ref)) u v
        = roll2 (ny * pad) (nx * pad) sy sx (zeroPad ny nx 0 (fun u v => ref u v - min2 ny nx ref)) u v := by
  refine ⟨min2_roll2 hny hnx sy sx ref, ?_⟩
  rw [min2_roll2 hny hnx]
  exact zeroPad_roll2 hny hnx (Nat.le_mul_of_pos_right _ hpad) (Nat.le_mul_of_pos_right _ hpad) sy sx
    (fun u v => ref u v - min2 ny nx ref) hin

end field

/-- **(2) `hnowrap` from the box condition.**  If the content of the reference `y` lies in a box of extent `(wy, wx)`
and the lags `s ± (w − 1)` lie in `[−⌊P/2⌋, P − ⌊P/2⌋ − 1]` on both axes, the non-zero part of the correlation
surface of `cross_correlate` does not wrap around the padded frame (the hypothesis `hnowrap` of `corr_displacement`) -/
theorem corr_hnowrap_of_box {ny nx pad my mx : ℕ} (hny : 0 < ny) (hnx : 0 < nx) (hpad : 0 < pad) {ζy ζx : ℂ}
    (hζy : IsPrimitiveRoot ζy (ny * pad)) (hζx : IsPrimitiveRoot ζx (nx * pad)) (sy sx : ℤ)
    (x y : ℕ → ℕ → ℝ) (hx0 : ∀ u v, 0 ≤ x u v) (hy0 : ∀ u v, 0 ≤ y u v)
    (hdisp : ∀ u < ny * pad, ∀ v < nx * pad,
      zeroPad ny nx 0 x u v = roll2 (ny * pad) (nx * pad) sy sx (zeroPad ny nx 0 y) u v)
    (hmy : (my : ℤ) = ((ny * pad / 2 : ℕ) : ℤ) + sy) (hmx : (mx : ℤ) = ((nx * pad / 2 : ℕ) : ℤ) + sx)
    {y0 x0 wy wx : ℕ} (hbox : ContentInBox ny nx y0 x0 wy wx y)
    (hloy : -((ny * pad / 2 : ℕ) : ℤ) ≤ sy - ((wy : ℤ) - 1))
    (hhiy : sy + ((wy : ℤ) - 1) ≤ ((ny * pad : ℕ) : ℤ) - ((ny * pad / 2 : ℕ) : ℤ) - 1)
    (hlox : -((nx * pad / 2 : ℕ) : ℤ) ≤ sx - ((wx : ℤ) - 1))
    (hhix : sx + ((wx : ℤ) - 1) ≤ ((nx * pad : ℕ) : ℤ) - ((nx * pad / 2 : ℕ) : ℤ) - 1) :
    ∀ a < ny * pad, ∀ b < nx * pad,
      (crossCorrelate ny nx pad (fun m => ζy ^ m) (fun m => ζx ^ m) (fun m => ζy⁻¹ ^ m) (fun m => ζx⁻¹ ^ m)
        (1 / ((ny * pad : ℕ) : ℂ)) (1 / ((nx * pad : ℕ) : ℂ)) 0 (starRingEnd ℂ) (fun z => ‖z‖) idm
        (fun u v => (x u v : ℂ)) (fun u v => (y u v : ℂ))).px a b ≠ 0 →
      a ≤ 2 * my ∧ 2 * my - a < ny * pad ∧ b ≤ 2 * mx ∧ 2 * mx - b < nx * pad := by
  have hy : 0 < ny * pad := Nat.mul_pos hny hpad
  have hx : 0 < nx * pad := Nat.mul_pos hnx hpad
  have hS := fun a b => (crossCorrelate_real hζy hy hζx hx x y hx0 hy0 a b).trans
    (circCorr_congr hy hx (zeroPad ny nx 0 y) hdisp _ _)
  exact nowrap_of_box hy hx y sy sx hmy hmx hbox hloy hhiy hlox hhix _ hS

/-- `corr_displacement` with `hnowrap` discharged by the box condition; non-negativity is only needed inside the frame
(`cross_correlate` reads nothing else) -/
theorem corr_displacement_of_box {ny nx pad : ℕ} (hny : 0 < ny) (hnx : 0 < nx) (hpad : 0 < pad) {ζy ζx : ℂ}
    (hζy : IsPrimitiveRoot ζy (ny * pad)) (hζx : IsPrimitiveRoot ζx (nx * pad)) (sy sx : ℤ) {t : ℝ} (ht1 : t < 1)
    (x y : ℕ → ℕ → ℝ) (hx0 : ∀ u < ny, ∀ v < nx, 0 ≤ x u v) (hy0 : ∀ u < ny, ∀ v < nx, 0 ≤ y u v)
    (hyne : ∃ u < ny, ∃ v < nx, y u v ≠ 0)
    (hdisp : ∀ u < ny * pad, ∀ v < nx * pad,
      zeroPad ny nx 0 x u v = roll2 (ny * pad) (nx * pad) sy sx (zeroPad ny nx 0 y) u v)
    {y0 x0 wy wx : ℕ} (hbox : ContentInBox ny nx y0 x0 wy wx y)
    (hloy : -((ny * pad / 2 : ℕ) : ℤ) ≤ sy - ((wy : ℤ) - 1))
    (hhiy : sy + ((wy : ℤ) - 1) ≤ ((ny * pad : ℕ) : ℤ) - ((ny * pad / 2 : ℕ) : ℤ) - 1)
    (hlox : -((nx * pad / 2 : ℕ) : ℤ) ≤ sx - ((wx : ℤ) - 1))
    (hhix : sx + ((wx : ℤ) - 1) ≤ ((nx * pad : ℕ) : ℤ) - ((nx * pad / 2 : ℕ) : ℤ) - 1) :
    corrTail ny nx pad t
      (crossCorrelate ny nx pad (fun m => ζy ^ m) (fun m => ζx ^ m) (fun m => ζy⁻¹ ^ m) (fun m => ζx⁻¹ ^ m)
        (1 / ((ny * pad : ℕ) : ℂ)) (1 / ((nx * pad : ℕ) : ℂ)) 0 (starRingEnd ℂ) (fun z => ‖z‖) idm
        (fun u v => (x u v : ℂ)) (fun u v => (y u v : ℂ))).px
      = (((nx / 2 : ℕ) : ℝ) + (sx : ℝ), ((ny / 2 : ℕ) : ℝ) + (sy : ℝ)) := by
  -- the box is not empty
  obtain ⟨u0, hu0, v0, hv0, hne0⟩ := hyne
  obtain ⟨b1, b2, b3, b4⟩ := hbox u0 hu0 v0 hv0 hne0
  -- only the frame is read: replace both arrays by their zero-extensions (non-negative everywhere)
  have hcc : crossCorrelate ny nx pad (fun m => ζy ^ m) (fun m => ζx ^ m) (fun m => ζy⁻¹ ^ m) (fun m => ζx⁻¹ ^ m)
        (1 / ((ny * pad : ℕ) : ℂ)) (1 / ((nx * pad : ℕ) : ℂ)) 0 (starRingEnd ℂ) (fun z => ‖z‖) idm
        (fun u v => (x u v : ℂ)) (fun u v => (y u v : ℂ))
      = crossCorrelate ny nx pad (fun m => ζy ^ m) (fun m => ζx ^ m) (fun m => ζy⁻¹ ^ m) (fun m => ζx⁻¹ ^ m)
        (1 / ((ny * pad : ℕ) : ℂ)) (1 / ((nx * pad : ℕ) : ℂ)) 0 (starRingEnd ℂ) (fun z => ‖z‖) idm
        (fun u v => ((zeroPad ny nx (0 : ℝ) x u v : ℝ) : ℂ)) (fun u v => ((zeroPad ny nx (0 : ℝ) y u v : ℝ) : ℂ)) := by
    apply crossCorrelate_congr_frame
    · intro u hu v hv; unfold zeroPad; rw [if_pos ⟨hu, hv⟩]
    · intro u hu v hv; unfold zeroPad; rw [if_pos ⟨hu, hv⟩]
  have hz : ∀ (z : ℕ → ℕ → ℝ), (∀ u < ny, ∀ v < nx, 0 ≤ z u v) → ∀ u v, 0 ≤ zeroPad ny nx 0 z u v := by
    intro z hz u v; unfold zeroPad; split_ifs with hc
    · exact hz u hc.1 v hc.2
    · exact le_refl _
  have hbox' : ContentInBox ny nx y0 x0 wy wx (zeroPad ny nx 0 y) := by
    intro u hu v hv hne
    unfold zeroPad at hne; rw [if_pos ⟨hu, hv⟩] at hne
    exact hbox u hu v hv hne
  have hdisp' : ∀ u < ny * pad, ∀ v < nx * pad, zeroPad ny nx 0 (zeroPad ny nx 0 x) u v
      = roll2 (ny * pad) (nx * pad) sy sx (zeroPad ny nx 0 (zeroPad ny nx 0 y)) u v := by
    rw [zeroPad_idem, zeroPad_idem]; exact hdisp
  obtain ⟨my, hmy⟩ : ∃ my : ℕ, (my : ℤ) = ((ny * pad / 2 : ℕ) : ℤ) + sy :=
    ⟨(((ny * pad / 2 : ℕ) : ℤ) + sy).toNat, Int.toNat_of_nonneg (by omega)⟩
  obtain ⟨mx, hmx⟩ : ∃ mx : ℕ, (mx : ℤ) = ((nx * pad / 2 : ℕ) : ℤ) + sx :=
    ⟨(((nx * pad / 2 : ℕ) : ℤ) + sx).toNat, Int.toNat_of_nonneg (by omega)⟩
  rw [hcc]
  apply corr_displacement hny hnx hpad hζy hζx sy sx ht1 _ _ (hz x hx0) (hz y hy0) _ hdisp' hmy hmx
    (by omega) (by omega)
  · exact corr_hnowrap_of_box hny hnx hpad hζy hζx sy sx _ _ (hz x hx0) (hz y hy0) hdisp' hmy hmx hbox'
      hloy hhiy hlox hhix
  · exact ⟨u0, hu0, v0, hv0, by unfold zeroPad; rw [if_pos ⟨hu0, hv0⟩]; exact hne0⟩

/-- **corr_displacement_of_roll** — the displacement clause on the un-padded inputs of `correlation_centroid`.
`ref` is ANY real `ny × nx` array that is not constant; its content (the pixels above its minimum, which
`correlation_centroid` removes) lies in the box `[y0, y0+wy) × [x0, x0+wx)`; `im = numpy.roll(ref, (sy, sx))` with
the displaced box still inside the frame; the lags `s ± (w − 1)` fit the window `[−⌊P/2⌋, P − ⌊P/2⌋ − 1]`,
`P = n·padding`, on both axes.  Then `correlation_centroid(im, ref, threshold=t, padding)` (the model's `corrCentroid`
over ℂ with complex conjugation, modulus and the twiddle tables of any primitive roots of unity) is exactly
`(nx/2 + sx, ny/2 + sy)` — every frame size (odd or even), every padding ≥ 1, every threshold `t < 1`. -/
theorem corr_displacement_of_roll {ny nx pad : ℕ} (hny : 0 < ny) (hnx : 0 < nx) (hpad : 0 < pad) {ζy ζx : ℂ}
    (hζy : IsPrimitiveRoot ζy (ny * pad)) (hζx : IsPrimitiveRoot ζx (nx * pad)) (sy sx : ℤ) {t : ℝ} (ht1 : t < 1)
    (ref : ℕ → ℕ → ℝ) (hne : ∃ u < ny, ∃ v < nx, ref u v ≠ min2 ny nx ref)
    {y0 x0 wy wx : ℕ} (hbox : ContentInBox ny nx y0 x0 wy wx (fun u v => ref u v - min2 ny nx ref))
    (hy0 : 0 ≤ (y0 : ℤ) + sy) (hy1 : (y0 : ℤ) + wy + sy ≤ ny) (hx0 : 0 ≤ (x0 : ℤ) + sx) (hx1 : (x0 : ℤ) + wx + sx ≤ nx)
    (hloy : -((ny * pad / 2 : ℕ) : ℤ) ≤ sy - ((wy : ℤ) - 1))
    (hhiy : sy + ((wy : ℤ) - 1) ≤ ((ny * pad : ℕ) : ℤ) - ((ny * pad / 2 : ℕ) : ℤ) - 1)
    (hlox : -((nx * pad / 2 : ℕ) : ℤ) ≤ sx - ((wx : ℤ) - 1))
    (hhix : sx + ((wx : ℤ) - 1) ≤ ((nx * pad : ℕ) : ℤ) - ((nx * pad / 2 : ℕ) : ℤ) - 1) :
    corrCentroid ny nx pad (fun m => ζy ^ m) (fun m => ζx ^ m) (fun m => ζy⁻¹ ^ m) (fun m => ζx⁻¹ ^ m)
        (1 / ((ny * pad : ℕ) : ℂ)) (1 / ((nx * pad : ℕ) : ℂ)) 0 (starRingEnd ℂ) (fun z => ‖z‖) idm
        (fun r : ℝ => (r : ℂ)) t (roll2 ny nx sy sx ref) ref
      = (((nx / 2 : ℕ) : ℝ) + (sx : ℝ), ((ny / 2 : ℕ) : ℝ) + (sy : ℝ)) := by
  have hin : ContentInside ny nx sy sx (fun u v => ref u v - min2 ny nx ref) := hbox.inside hy0 hy1 hx0 hx1
  obtain ⟨_, hdisp⟩ := corr_hdisp_of_roll hny hnx hpad sy sx ref hin
  obtain ⟨u0, hu0, v0, hv0, hne0⟩ := hne
  exact corr_displacement_of_box hny hnx hpad hζy hζx sy sx ht1
    (fun u v => roll2 ny nx sy sx ref u v - min2 ny nx (roll2 ny nx sy sx ref)) (fun u v => ref u v - min2 ny nx ref)
    (fun u hu v hv => sub_min2_nonneg hny hnx (roll2 ny nx sy sx ref) hu hv)
    (fun u hu v hv => sub_min2_nonneg hny hnx ref hu hv)
    ⟨u0, hu0, v0, hv0, sub_ne_zero.mpr hne0⟩ hdisp hbox hloy hhiy hlox hhix

/-- for every padding ≥ 2 the lag conditions are automatic: ANY roll that keeps the content box inside the frame -/
theorem corr_displacement_of_roll_pad_ge_two {ny nx pad : ℕ} (hny : 0 < ny) (hnx : 0 < nx) (hpad : 2 ≤ pad) {ζy ζx : ℂ}
    (hζy : IsPrimitiveRoot ζy (ny * pad)) (hζx : IsPrimitiveRoot ζx (nx * pad)) (sy sx : ℤ) {t : ℝ} (ht1 : t < 1)
    (ref : ℕ → ℕ → ℝ) (hne : ∃ u < ny, ∃ v < nx, ref u v ≠ min2 ny nx ref)
    {y0 x0 wy wx : ℕ} (hbox : ContentInBox ny nx y0 x0 wy wx (fun u v => ref u v - min2 ny nx ref))
    (hby : y0 + wy ≤ ny) (hbx : x0 + wx ≤ nx)
    (hy0 : 0 ≤ (y0 : ℤ) + sy) (hy1 : (y0 : ℤ) + wy + sy ≤ ny) (hx0 : 0 ≤ (x0 : ℤ) + sx) (hx1 : (x0 : ℤ) + wx + sx ≤ nx) :
    corrCentroid ny nx pad (fun m => ζy ^ m) (fun m => ζx ^ m) (fun m => ζy⁻¹ ^ m) (fun m => ζx⁻¹ ^ m)
        (1 / ((ny * pad : ℕ) : ℂ)) (1 / ((nx * pad : ℕ) : ℂ)) 0 (starRingEnd ℂ) (fun z => ‖z‖) idm
        (fun r : ℝ => (r : ℂ)) t (roll2 ny nx sy sx ref) ref
      = (((nx / 2 : ℕ) : ℝ) + (sx : ℝ), ((ny / 2 : ℕ) : ℝ) + (sy : ℝ)) := by
  have h2y : ny * 2 ≤ ny * pad := Nat.mul_le_mul_left ny hpad
  have h2x : nx * 2 ≤ nx * pad := Nat.mul_le_mul_left nx hpad
  apply corr_displacement_of_roll hny hnx (by omega) hζy hζx sy sx ht1 ref hne hbox hy0 hy1 hx0 hx1
  · generalize ny * pad = P at h2y; omega
  · generalize ny * pad = P at h2y; omega
  · generalize nx * pad = P at h2x; omega
  · generalize nx * pad = P at h2x; omega

/-- the form of the task statement: a NON-NEGATIVE reference whose support (non-zero pixels) lies in the box and that is
not constant -/
theorem corr_displacement_of_roll_nonneg {ny nx pad : ℕ} (hny : 0 < ny) (hnx : 0 < nx) (hpad : 0 < pad) {ζy ζx : ℂ}
    (hζy : IsPrimitiveRoot ζy (ny * pad)) (hζx : IsPrimitiveRoot ζx (nx * pad)) (sy sx : ℤ) {t : ℝ} (ht1 : t < 1)
    (ref : ℕ → ℕ → ℝ) (hnn : ∀ u < ny, ∀ v < nx, 0 ≤ ref u v) (hne : ∃ u < ny, ∃ v < nx, ref u v ≠ min2 ny nx ref)
    {y0 x0 wy wx : ℕ} (hsupp : ContentInBox ny nx y0 x0 wy wx ref)
    (hy0 : 0 ≤ (y0 : ℤ) + sy) (hy1 : (y0 : ℤ) + wy + sy ≤ ny) (hx0 : 0 ≤ (x0 : ℤ) + sx) (hx1 : (x0 : ℤ) + wx + sx ≤ nx)
    (hloy : -((ny * pad / 2 : ℕ) : ℤ) ≤ sy - ((wy : ℤ) - 1))
    (hhiy : sy + ((wy : ℤ) - 1) ≤ ((ny * pad : ℕ) : ℤ) - ((ny * pad / 2 : ℕ) : ℤ) - 1)
    (hlox : -((nx * pad / 2 : ℕ) : ℤ) ≤ sx - ((wx : ℤ) - 1))
    (hhix : sx + ((wx : ℤ) - 1) ≤ ((nx * pad : ℕ) : ℤ) - ((nx * pad / 2 : ℕ) : ℤ) - 1) :
    corrCentroid ny nx pad (fun m => ζy ^ m) (fun m => ζx ^ m) (fun m => ζy⁻¹ ^ m) (fun m => ζx⁻¹ ^ m)
        (1 / ((ny * pad : ℕ) : ℂ)) (1 / ((nx * pad : ℕ) : ℂ)) 0 (starRingEnd ℂ) (fun z => ‖z‖) idm
        (fun r : ℝ => (r : ℂ)) t (roll2 ny nx sy sx ref) ref
      = (((nx / 2 : ℕ) : ℝ) + (sx : ℝ), ((ny / 2 : ℕ) : ℝ) + (sy : ℝ)) := by
  apply corr_displacement_of_roll hny hnx hpad hζy hζx sy sx ht1 ref hne _ hy0 hy1 hx0 hx1 hloy hhiy hlox hhix
  intro u hu v hv hd
  apply hsupp u hu v hv
  intro h0
  obtain ⟨⟨a, ha, b, hb, e⟩, hle⟩ := min2_spec hny hnx ref
  have h1 : min2 ny nx ref ≤ 0 := by rw [← h0]; exact hle u hu v hv
  have h2 : 0 ≤ min2 ny nx ref := by rw [e]; exact hnn a ha b hb
  exact hd (by show ref u v - min2 ny nx ref = 0; rw [h0, le_antisymm h1 h2, sub_zero])

/-- the same for a `(t, y, x)` stack: frame `i` displaced by its own `s i` -/
theorem corr_displacement_of_roll_stack {ι : Type} {ny nx pad : ℕ} (hny : 0 < ny) (hnx : 0 < nx) (hpad : 0 < pad)
    {ζy ζx : ℂ} (hζy : IsPrimitiveRoot ζy (ny * pad)) (hζx : IsPrimitiveRoot ζx (nx * pad)) (s : ι → ℤ × ℤ) {t : ℝ}
    (ht1 : t < 1) (ref : ℕ → ℕ → ℝ) (hne : ∃ u < ny, ∃ v < nx, ref u v ≠ min2 ny nx ref)
    {y0 x0 wy wx : ℕ} (hbox : ContentInBox ny nx y0 x0 wy wx (fun u v => ref u v - min2 ny nx ref)) (i : ι)
    (hy0 : 0 ≤ (y0 : ℤ) + (s i).1) (hy1 : (y0 : ℤ) + wy + (s i).1 ≤ ny)
    (hx0 : 0 ≤ (x0 : ℤ) + (s i).2) (hx1 : (x0 : ℤ) + wx + (s i).2 ≤ nx)
    (hloy : -((ny * pad / 2 : ℕ) : ℤ) ≤ (s i).1 - ((wy : ℤ) - 1))
    (hhiy : (s i).1 + ((wy : ℤ) - 1) ≤ ((ny * pad : ℕ) : ℤ) - ((ny * pad / 2 : ℕ) : ℤ) - 1)
    (hlox : -((nx * pad / 2 : ℕ) : ℤ) ≤ (s i).2 - ((wx : ℤ) - 1))
    (hhix : (s i).2 + ((wx : ℤ) - 1) ≤ ((nx * pad : ℕ) : ℤ) - ((nx * pad / 2 : ℕ) : ℤ) - 1) :
    corrCentroidN ny nx pad (fun m => ζy ^ m) (fun m => ζx ^ m) (fun m => ζy⁻¹ ^ m) (fun m => ζx⁻¹ ^ m)
        (1 / ((ny * pad : ℕ) : ℂ)) (1 / ((nx * pad : ℕ) : ℂ)) 0 (starRingEnd ℂ) (fun z => ‖z‖) idm
        (fun r : ℝ => (r : ℂ)) t (fun j => roll2 ny nx (s j).1 (s j).2 ref) ref i
      = (((nx / 2 : ℕ) : ℝ) + ((s i).2 : ℝ), ((ny / 2 : ℕ) : ℝ) + ((s i).1 : ℝ)) :=
  corr_displacement_of_roll hny hnx hpad hζy hζx (s i).1 (s i).2 ht1 ref hne hbox hy0 hy1 hx0 hx1 hloy hhiy hlox hhix

/-- non-vacuity of the hypothesis set of `corr_displacement_of_roll` over ℝ with padding 1 and a non-trivial shift:
the 1×3 reference `[0, 1, 0]` (content box `x0 = 1`, `w = 1`) displaced by one pixel to the right -/
example : let ref : ℕ → ℕ → ℝ := fun _ v => if v = 1 then 1 else 0
    (∃ u < 1, ∃ v < 3, ref u v ≠ min2 1 3 ref)
    ∧ ContentInBox 1 3 0 1 1 1 (fun u v => ref u v - min2 1 3 ref)
    ∧ (0 ≤ ((0 : ℕ) : ℤ) + 0 ∧ ((0 : ℕ) : ℤ) + (1 : ℕ) + 0 ≤ (1 : ℕ))
    ∧ (0 ≤ ((1 : ℕ) : ℤ) + 1 ∧ ((1 : ℕ) : ℤ) + (1 : ℕ) + 1 ≤ (3 : ℕ))
    ∧ (-((1 * 1 / 2 : ℕ) : ℤ) ≤ 0 - (((1 : ℕ) : ℤ) - 1) ∧ 0 + (((1 : ℕ) : ℤ) - 1) ≤ ((1 * 1 : ℕ) : ℤ) - ((1 * 1 / 2 : ℕ) : ℤ) - 1)
    ∧ (-((3 * 1 / 2 : ℕ) : ℤ) ≤ 1 - (((1 : ℕ) : ℤ) - 1) ∧ 1 + (((1 : ℕ) : ℤ) - 1) ≤ ((3 * 1 : ℕ) : ℤ) - ((3 * 1 / 2 : ℕ) : ℤ) - 1) := by
  intro ref
  have hm : min2 1 3 ref = 0 := by
    apply min2_unique (by norm_num) (by norm_num)
    · exact ⟨0, by norm_num, 0, by norm_num, by simp [ref]⟩
    · intro u _ v _; simp only [ref]; split_ifs <;> norm_num
  refine ⟨⟨0, by norm_num, 1, by norm_num, by rw [hm]; simp [ref]⟩, ?_, by norm_num, by norm_num, by norm_num, by norm_num⟩
  intro u hu v hv hne
  replace hne : ref u v - min2 1 3 ref ≠ 0 := hne
  rw [hm, sub_zero] at hne
  have hv1 : v = 1 := by
    by_contra h; exact hne (by simp [ref, h])
  omega

/-- non-vacuity of `hdisp`: on a 1×2 frame (padding 1) the frame `[0,1]` is the reference `[1,0]` displaced by one pixel -/
example : ∀ u < 1 * 1, ∀ v < 2 * 1,
    zeroPad 1 2 (0 : ℚ) (fun _ v => if v = 1 then 1 else 0) u v
      = roll2 (1 * 1) (2 * 1) 0 1 (zeroPad 1 2 (0 : ℚ) (fun _ v => if v = 0 then 1 else 0)) u v := by
  decide +kernel

section field
variable {K : Type} [Field K] [LinearOrder K] [IsStrictOrderedRing K]

/-! ### quad cell -/

/-- mirroring a 2×2 image left–right flips the sign of the x signal and keeps the y signal;
mirroring it top–bottom flips the y signal and keeps the x signal -/
theorem quad_mirror_sign (img : ℕ → ℕ → K) :
    quadCell 2 2 (fun y x => img y (1 - x)) = (-(quadCell 2 2 img).1, (quadCell 2 2 img).2)
    ∧ quadCell 2 2 (fun y x => img (1 - y) x) = ((quadCell 2 2 img).1, -(quadCell 2 2 img).2) := by
  unfold quadCell
  simp only [sumTo_eq_sum, sum_range_succ, sum_range_zero, zero_add, Prod.mk.injEq]
  refine ⟨⟨?_, ?_⟩, ⟨?_, ?_⟩⟩ <;> ring

/-- the quad-cell output is an un-normalised difference signal: homogeneous of degree 1 (NOT scale invariant) -/
theorem quad_scale_linear (ny nx : ℕ) (c : K) (img : ℕ → ℕ → K) :
    quadCell ny nx (fun y x => c * img y x) = (c * (quadCell ny nx img).1, c * (quadCell ny nx img).2) := by
  unfold quadCell
  simp only [sumTo_eq_sum, ← mul_sum, Prod.mk.injEq]
  constructor <;> ring

end field

/-! ### padding offset -/

/-- for even `n` the repaired integer offset is the pinned `n/2·(padding−1)` -/
theorem pad_offset_even (m pad : ℕ) (hp : 1 ≤ pad) :
    ((padOffset (2 * m) pad : ℕ) : ℚ) = padOffset_pinned (K := ℚ) (2 * m) pad := by
  unfold padOffset padOffset_pinned
  have h1 : 2 * m * pad / 2 = m * pad := by rw [Nat.mul_assoc, Nat.mul_div_cancel_left _ (by norm_num)]
  have h2 : 2 * m / 2 = m := Nat.mul_div_cancel_left _ (by norm_num)
  have h3 : m ≤ m * pad := Nat.le_mul_of_pos_right _ hp
  rw [h1, h2, Nat.cast_sub h3]
  push_cast; ring

/-- the pinned offset is half a pixel off for odd `n` and even padding (witness n = 5, padding = 2) -/
theorem pad_offset_pinned_odd_fails :
    ((padOffset 5 2 : ℕ) : ℚ) ≠ padOffset_pinned (K := ℚ) 5 2 := by
  unfold padOffset padOffset_pinned; norm_num

/-! ### the pinned tree (D9): the N-D path only zeroed below the threshold, the 2-D path subtracted it -/

/-- witness: the one-frame stack `[[4, 2, 1]]` with threshold 1/2 — 2-D path 0, pinned N-D path 1/3 -/
theorem cogN_pinned_fails :
    cogN_pinned (ι := Unit) 1 3 (1/2 : ℚ) 0 (fun _ _ x => if x = 0 then 4 else if x = 1 then 2 else 1) ()
      ≠ cog2 1 3 (1/2 : ℚ) 0 (fun _ x => if x = 0 then 4 else if x = 1 then 2 else 1) := by
  decide +kernel

end AoVerif.Props.C15
