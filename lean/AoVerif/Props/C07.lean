/-
C07 — FFT phase screens have exactly the discretised von Kármán statistics.

Theorems are about `Model/Screen.lean` (hand-written mirror of `phasescreen.ft_phase_screen` /
`ft_sh_phase_screen`, tied to the code by the correspondence driver) with the PSD expression
`Gen.psd_ft_phase_screen` / `Gen.psd_ft_sh_phase_screen` REGENERATED from the source on every run (translator T1),
instantiated at `K = ℝ`, `C = ℂ`, for EVERY even `N > 0`, all pixel pairs, all parameters and all draws.

"Ensemble covariance" is read through the linear-Gaussian bridge (DESIGN §3.4): the screen is `Σ_e g_e φ_e` for the
draw basis `e` (`screen_expansion`), so for i.i.d. unit normal draws its covariance is `Σ_e φ_e(p) φ_e(q)`;
`ensemble_cov` evaluates that sum exactly.
-/
import AoVerif.Lemmas.Screen

namespace AoVerif.Props.C07
open Finset AoVerif AoVerif.Screen AoVerif.DFT

set_option linter.unusedSectionVars false
set_option linter.unusedVariables false
variable [Transc ℝ] [RealTransc]

/-! ### the spectrum is the one the property states -/

/-- the regenerated PSD expression of `ft_phase_screen` is the modified von Kármán spectrum
`0.023 r0^(-5/3) exp(-(f/fm)^2) (f^2 + 1/L0^2)^(-11/6)` -/
theorem psd_is_stated (f fm L0 r0 : ℝ) :
    Gen.psd_ft_phase_screen f fm (f0Of L0) r0
      = 0.023 * r0 ^ (-(5:ℝ) / 3) * Real.exp (-(f / fm) ^ 2) * (f ^ 2 + 1 / L0 ^ 2) ^ (-(11:ℝ) / 6) := by
  real_unfold [Gen.psd_ft_phase_screen, f0Of]
  have hx : 0 ≤ f ^ 2 + (1 / L0) ^ 2 := by positivity
  rw [show (-(11:ℝ) / 6) = -(11 / 6) by ring, Real.rpow_neg (by positivity), div_eq_mul_inv]
  congr 2
  · norm_num
  · rw [one_div, one_div, inv_pow]

/-- the sub-harmonic grids use the same spectrum -/
theorem psd_sh_is_stated (f fm L0 r0 : ℝ) :
    Gen.psd_ft_sh_phase_screen f fm (f0Of L0) r0
      = 0.023 * r0 ^ (-(5:ℝ) / 3) * Real.exp (-(f / fm) ^ 2) * (f ^ 2 + 1 / L0 ^ 2) ^ (-(11:ℝ) / 6) := by
  rw [← psd_is_stated]; rfl

/-- the frequency grid is `(k − N/2)·Δf` with `Δf = 1/(Nδ)`, and `f² = fx² + fy²` -/
theorem fgrid_is_stated (N : ℕ) (delta : ℝ) (k : ℕ) :
    fgrid N delta k = ((k : ℝ) - (N : ℝ) / 2) * (1 / ((N : ℝ) * delta)) := by
  real_unfold [fgrid, delF]

theorem fabs_sq (N : ℕ) (delta : ℝ) (i j : ℕ) :
    (fabs N delta i j) ^ 2 = (fgrid N delta j) ^ 2 + (fgrid N delta i) ^ 2 := by
  real_unfold [fabs]
  exact Real.sq_sqrt (by positivity)

theorem psdHi_nonneg (N : ℕ) (r0 delta L0 l0 : ℝ) (hr : 0 < r0) (i j : ℕ) : 0 ≤ psdHi N r0 delta L0 l0 i j := by
  unfold psdHi
  split_ifs
  · simp
  · rw [psd_is_stated]
    have : 0 ≤ (fabs N delta i j) ^ 2 + 1 / L0 ^ 2 := by positivity
    positivity

/-- the DC sample of the spectrum is removed -/
theorem psdHi_dc (N : ℕ) (r0 delta L0 l0 : ℝ) : psdHi N r0 delta L0 l0 (N / 2) (N / 2) = 0 := by
  unfold psdHi; simp

/-! ### the screen is an explicit real-linear map of the draws -/

/-- for even `N`, `ft_phase_screen` (shift – ifft2 – shift – real part, as coded) is
`Σ_{ij} √PSD_ij Δf (a_ij cos θ_ij(p,q) − b_ij sin θ_ij(p,q))`, `θ_ij(p,q) = 2π((i−N/2)(p−N/2)+(j−N/2)(q−N/2))/N` -/
theorem screen_eq_lin {N : ℕ} (hN : 0 < N) (he : N % 2 = 0) (r0 delta L0 l0 : ℝ) (a b : ℕ → ℕ → ℝ) (p q : ℕ) :
    ftScreen ℂ N r0 delta L0 l0 a b p q
      = ∑ i ∈ range N, ∑ j ∈ range N, ampHi N r0 delta L0 l0 i j
          * (a i j * Real.cos (theta N i j p q) - b i j * Real.sin (theta N i j p q)) := by
  rw [ftScreen_eq_lin hN he]
  real_unfold [ftScreenLin]

/-- linearity in the draws -/
theorem screen_linear {N : ℕ} (hN : 0 < N) (he : N % 2 = 0) (r0 delta L0 l0 : ℝ) (α β : ℝ)
    (a b a' b' : ℕ → ℕ → ℝ) (p q : ℕ) :
    ftScreen ℂ N r0 delta L0 l0 (fun i j => α * a i j + β * a' i j) (fun i j => α * b i j + β * b' i j) p q
      = α * ftScreen ℂ N r0 delta L0 l0 a b p q + β * ftScreen ℂ N r0 delta L0 l0 a' b' p q := by
  simp only [screen_eq_lin hN he, mul_sum, ← sum_add_distrib]
  apply sum_congr rfl; intro i _; apply sum_congr rfl; intro j _; ring

/-- unit draw at frequency sample `(i,j)` -/
def unit (i j : ℕ) : ℕ → ℕ → ℝ := fun i' j' => if i' = i ∧ j' = j then 1 else 0
def zero : ℕ → ℕ → ℝ := fun _ _ => 0

/-- column of the linear map for the real-part draw at `(i,j)` -/
theorem colA {N : ℕ} (hN : 0 < N) (he : N % 2 = 0) (r0 delta L0 l0 : ℝ) {i j : ℕ} (hi : i < N) (hj : j < N) (p q : ℕ) :
    ftScreen ℂ N r0 delta L0 l0 (unit i j) zero p q = ampHi N r0 delta L0 l0 i j * Real.cos (theta N i j p q) := by
  rw [screen_eq_lin hN he]
  rw [sum_eq_single i, sum_eq_single j]
  · simp [unit, zero]
  · intro j' _ hne; simp [unit, zero, hne]
  · intro h; exact absurd (mem_range.2 hj) h
  · intro i' _ hne
    apply sum_eq_zero; intro j' _; simp [unit, zero, hne]
  · intro h; exact absurd (mem_range.2 hi) h

/-- column of the linear map for the imaginary-part draw at `(i,j)` -/
theorem colB {N : ℕ} (hN : 0 < N) (he : N % 2 = 0) (r0 delta L0 l0 : ℝ) {i j : ℕ} (hi : i < N) (hj : j < N) (p q : ℕ) :
    ftScreen ℂ N r0 delta L0 l0 zero (unit i j) p q = -(ampHi N r0 delta L0 l0 i j * Real.sin (theta N i j p q)) := by
  rw [screen_eq_lin hN he]
  rw [sum_eq_single i, sum_eq_single j]
  · simp [unit, zero]
  · intro j' _ hne; simp [unit, zero, hne]
  · intro h; exact absurd (mem_range.2 hj) h
  · intro i' _ hne
    apply sum_eq_zero; intro j' _; simp [unit, zero, hne]
  · intro h; exact absurd (mem_range.2 hi) h

/-- the screen is the draws times the columns: `φ = Σ_e g_e φ_e` over the draw basis -/
theorem screen_expansion {N : ℕ} (hN : 0 < N) (he : N % 2 = 0) (r0 delta L0 l0 : ℝ) (a b : ℕ → ℕ → ℝ) (p q : ℕ) :
    ftScreen ℂ N r0 delta L0 l0 a b p q
      = ∑ i ∈ range N, ∑ j ∈ range N,
          (a i j * ftScreen ℂ N r0 delta L0 l0 (unit i j) zero p q
            + b i j * ftScreen ℂ N r0 delta L0 l0 zero (unit i j) p q) := by
  rw [screen_eq_lin hN he]
  apply sum_congr rfl; intro i hi; apply sum_congr rfl; intro j hj
  rw [colA hN he _ _ _ _ (mem_range.1 hi) (mem_range.1 hj), colB hN he _ _ _ _ (mem_range.1 hi) (mem_range.1 hj)]
  ring

/-! ### exact ensemble covariance -/

/-- the inverse discrete Fourier sum of the sampled spectrum (zero frequency removed) at pixel separation `(d₁,d₂)`:
`Σ_{k≠DC} PSD_k Δf² cos(2π k·d/N)` with `k = (i − N/2, j − N/2)` -/
noncomputable def covSum (N : ℕ) (r0 delta L0 l0 : ℝ) (d1 d2 : ℤ) : ℝ :=
  ∑ i ∈ range N, ∑ j ∈ range N, psdHi N r0 delta L0 l0 i j * (delF N delta) ^ 2
    * Real.cos (2 * Real.pi * (((i : ℝ) - (N : ℝ) / 2) * (d1 : ℝ) + ((j : ℝ) - (N : ℝ) / 2) * (d2 : ℝ)) / N)

theorem ampHi_sq (N : ℕ) (r0 delta L0 l0 : ℝ) (hr : 0 < r0) (i j : ℕ) :
    (ampHi N r0 delta L0 l0 i j) ^ 2 = psdHi N r0 delta L0 l0 i j * (delF N delta) ^ 2 := by
  unfold ampHi
  rw [mul_pow, RealTransc.sqrt_eq, Real.sq_sqrt (psdHi_nonneg N r0 delta L0 l0 hr i j)]

theorem theta_sub (N : ℕ) (i j p1 p2 q1 q2 : ℕ) :
    theta N i j p1 p2 - theta N i j q1 q2
      = 2 * Real.pi * (((i : ℝ) - (N : ℝ) / 2) * (((p1 : ℤ) - (q1 : ℤ) : ℤ) : ℝ)
          + ((j : ℝ) - (N : ℝ) / 2) * (((p2 : ℤ) - (q2 : ℤ) : ℤ) : ℝ)) / N := by
  real_unfold [theta]
  push_cast
  ring

/-- **ensemble covariance.**  Summed over the whole draw basis (real and imaginary draw of every frequency sample),
`Σ_e φ_e(p) φ_e(q)` is the inverse discrete Fourier sum of the spectrum at the separation `p − q`. -/
theorem ensemble_cov {N : ℕ} (hN : 0 < N) (he : N % 2 = 0) (r0 delta L0 l0 : ℝ) (hr : 0 < r0) (p1 p2 q1 q2 : ℕ) :
    ∑ i ∈ range N, ∑ j ∈ range N,
        (ftScreen ℂ N r0 delta L0 l0 (unit i j) zero p1 p2 * ftScreen ℂ N r0 delta L0 l0 (unit i j) zero q1 q2
          + ftScreen ℂ N r0 delta L0 l0 zero (unit i j) p1 p2 * ftScreen ℂ N r0 delta L0 l0 zero (unit i j) q1 q2)
      = covSum N r0 delta L0 l0 ((p1 : ℤ) - q1) ((p2 : ℤ) - q2) := by
  unfold covSum
  apply sum_congr rfl; intro i hi; apply sum_congr rfl; intro j hj
  have hi' := mem_range.1 hi
  have hj' := mem_range.1 hj
  rw [colA hN he _ _ _ _ hi' hj', colA hN he _ _ _ _ hi' hj', colB hN he _ _ _ _ hi' hj', colB hN he _ _ _ _ hi' hj',
    ← theta_sub, Real.cos_sub, ← ampHi_sq N r0 delta L0 l0 hr]
  ring

/-- stationarity: the covariance of two pixels depends only on their separation -/
theorem stationary {N : ℕ} (hN : 0 < N) (he : N % 2 = 0) (r0 delta L0 l0 : ℝ) (hr : 0 < r0)
    (p1 p2 q1 q2 p1' p2' q1' q2' : ℕ)
    (h1 : (p1 : ℤ) - q1 = (p1' : ℤ) - q1') (h2 : (p2 : ℤ) - q2 = (p2' : ℤ) - q2') :
    ∑ i ∈ range N, ∑ j ∈ range N,
        (ftScreen ℂ N r0 delta L0 l0 (unit i j) zero p1 p2 * ftScreen ℂ N r0 delta L0 l0 (unit i j) zero q1 q2
          + ftScreen ℂ N r0 delta L0 l0 zero (unit i j) p1 p2 * ftScreen ℂ N r0 delta L0 l0 zero (unit i j) q1 q2)
      = ∑ i ∈ range N, ∑ j ∈ range N,
        (ftScreen ℂ N r0 delta L0 l0 (unit i j) zero p1' p2' * ftScreen ℂ N r0 delta L0 l0 (unit i j) zero q1' q2'
          + ftScreen ℂ N r0 delta L0 l0 zero (unit i j) p1' p2' * ftScreen ℂ N r0 delta L0 l0 zero (unit i j) q1' q2') := by
  rw [ensemble_cov hN he r0 delta L0 l0 hr, ensemble_cov hN he r0 delta L0 l0 hr, h1, h2]

/-- the covariance is moreover `N`-periodic in the separation (the screen is statistically periodic) -/
theorem covSum_periodic {N : ℕ} (hN : 0 < N) (he : N % 2 = 0) (r0 delta L0 l0 : ℝ) (d1 d2 m1 m2 : ℤ) :
    covSum N r0 delta L0 l0 (d1 + N * m1) (d2 + N * m2) = covSum N r0 delta L0 l0 d1 d2 := by
  unfold covSum
  apply sum_congr rfl; intro i _; apply sum_congr rfl; intro j _
  congr 1
  have hN' : (N : ℝ) ≠ 0 := by positivity
  rw [half_cast he]
  have e : 2 * Real.pi * (((i : ℝ) - ((N / 2 : ℕ) : ℝ)) * ((d1 + N * m1 : ℤ) : ℝ)
        + ((j : ℝ) - ((N / 2 : ℕ) : ℝ)) * ((d2 + N * m2 : ℤ) : ℝ)) / N
      = 2 * Real.pi * (((i : ℝ) - ((N / 2 : ℕ) : ℝ)) * (d1 : ℝ) + ((j : ℝ) - ((N / 2 : ℕ) : ℝ)) * (d2 : ℝ)) / N
        + ((((i : ℤ) - ((N / 2 : ℕ) : ℤ)) * m1 + ((j : ℤ) - ((N / 2 : ℕ) : ℤ)) * m2 : ℤ) : ℝ) * (2 * Real.pi) := by
    simp only [Int.cast_add, Int.cast_mul, Int.cast_sub, Int.cast_natCast]
    field_simp
    ring
  rw [e, Real.cos_add_int_mul_two_pi]

/-- position-independent variance: `Σ_e φ_e(p)² = Σ_{k≠DC} PSD_k Δf²` at every pixel -/
theorem variance_const {N : ℕ} (hN : 0 < N) (he : N % 2 = 0) (r0 delta L0 l0 : ℝ) (hr : 0 < r0) (p1 p2 : ℕ) :
    ∑ i ∈ range N, ∑ j ∈ range N,
        ((ftScreen ℂ N r0 delta L0 l0 (unit i j) zero p1 p2) ^ 2 + (ftScreen ℂ N r0 delta L0 l0 zero (unit i j) p1 p2) ^ 2)
      = ∑ i ∈ range N, ∑ j ∈ range N, psdHi N r0 delta L0 l0 i j * (delF N delta) ^ 2 := by
  have h := ensemble_cov hN he r0 delta L0 l0 hr p1 p2 p1 p2
  simp only [sub_self, covSum, Int.cast_zero, mul_zero, add_zero, zero_div, Real.cos_zero, mul_one] at h
  rw [← h]
  apply sum_congr rfl; intro i _; apply sum_congr rfl; intro j _; ring

/-! ### zero mean -/

/-- ensemble mean: the screen is linear in zero-mean draws — it vanishes at the zero draw (no constant term) -/
theorem zero_mean_ensemble {N : ℕ} (hN : 0 < N) (he : N % 2 = 0) (r0 delta L0 l0 : ℝ) (p q : ℕ) :
    ftScreen ℂ N r0 delta L0 l0 zero zero p q = 0 := by
  rw [screen_eq_lin hN he]
  simp [zero]

theorem ampHi_dc (N : ℕ) (r0 delta L0 l0 : ℝ) : ampHi N r0 delta L0 l0 (N / 2) (N / 2) = 0 := by
  unfold ampHi; rw [psdHi_dc, RealTransc.sqrt_eq, Real.sqrt_zero, zero_mul]

/-- spatial mean: every single screen sums to zero over the grid, whatever the draws (DC sample removed) -/
theorem zero_mean_spatial {N : ℕ} (hN : 0 < N) (he : N % 2 = 0) (r0 delta L0 l0 : ℝ) (a b : ℕ → ℕ → ℝ) :
    ∑ p ∈ range N, ∑ q ∈ range N, ftScreen ℂ N r0 delta L0 l0 a b p q = 0 := by
  simp only [screen_eq_lin hN he]
  -- bring the pixel sums inside
  have sw : ∀ (f : ℕ → ℕ → ℕ → ℕ → ℝ), ∑ p ∈ range N, ∑ q ∈ range N, ∑ i ∈ range N, ∑ j ∈ range N, f p q i j
      = ∑ i ∈ range N, ∑ j ∈ range N, ∑ p ∈ range N, ∑ q ∈ range N, f p q i j := by
    intro f
    calc ∑ p ∈ range N, ∑ q ∈ range N, ∑ i ∈ range N, ∑ j ∈ range N, f p q i j
        = ∑ p ∈ range N, ∑ i ∈ range N, ∑ q ∈ range N, ∑ j ∈ range N, f p q i j :=
          sum_congr rfl (fun p _ => sum_comm)
      _ = ∑ i ∈ range N, ∑ p ∈ range N, ∑ q ∈ range N, ∑ j ∈ range N, f p q i j := sum_comm
      _ = ∑ i ∈ range N, ∑ p ∈ range N, ∑ j ∈ range N, ∑ q ∈ range N, f p q i j :=
          sum_congr rfl (fun i _ => sum_congr rfl (fun p _ => sum_comm))
      _ = ∑ i ∈ range N, ∑ j ∈ range N, ∑ p ∈ range N, ∑ q ∈ range N, f p q i j :=
          sum_congr rfl (fun i _ => sum_comm)
  rw [sw]
  apply sum_eq_zero; intro i hi; apply sum_eq_zero; intro j hj
  have hi' := mem_range.1 hi
  have hj' := mem_range.1 hj
  have hc := sum2_cos hN hi' hj'
  have hs := sum2_sin hN hi' hj'
  have e : ∀ p q : ℕ, ampHi N r0 delta L0 l0 i j * (a i j * Real.cos (theta N i j p q) - b i j * Real.sin (theta N i j p q))
      = ampHi N r0 delta L0 l0 i j * a i j * Real.cos (2 * Real.pi * ((kdot N i j p q : ℤ) : ℝ) / N)
        - ampHi N r0 delta L0 l0 i j * b i j * Real.sin (2 * Real.pi * ((kdot N i j p q : ℤ) : ℝ) / N) := by
    intro p q; rw [theta_eq he]; ring
  simp only [e, sum_sub_distrib, ← mul_sum, hc, hs, mul_zero, sub_zero]
  split_ifs with h
  · rw [h.1, h.2, ampHi_dc]; ring
  · ring

/-! ### amplitude scales exactly as r0^(-5/6) for fixed draws -/

theorem psdHi_scale (N : ℕ) (r0 delta L0 l0 c : ℝ) (hr : 0 < r0) (hc : 0 < c) (i j : ℕ) :
    psdHi N (c * r0) delta L0 l0 i j = c ^ (-(5:ℝ) / 3) * psdHi N r0 delta L0 l0 i j := by
  unfold psdHi
  split_ifs
  · simp
  · rw [psd_is_stated, psd_is_stated, Real.mul_rpow hc.le hr.le]; ring

theorem ampHi_scale (N : ℕ) (r0 delta L0 l0 c : ℝ) (hr : 0 < r0) (hc : 0 < c) (i j : ℕ) :
    ampHi N (c * r0) delta L0 l0 i j = c ^ (-(5:ℝ) / 6) * ampHi N r0 delta L0 l0 i j := by
  unfold ampHi
  rw [psdHi_scale N r0 delta L0 l0 c hr hc, RealTransc.sqrt_eq, RealTransc.sqrt_eq,
    Real.sqrt_mul (Real.rpow_nonneg hc.le _), Real.sqrt_eq_rpow, ← Real.rpow_mul hc.le]
  norm_num
  ring

/-- **r0 scaling**: for fixed draws, `screen(c·r0) = c^(-5/6) · screen(r0)` -/
theorem r0_scaling {N : ℕ} (hN : 0 < N) (he : N % 2 = 0) (r0 delta L0 l0 c : ℝ) (hr : 0 < r0) (hc : 0 < c)
    (a b : ℕ → ℕ → ℝ) (p q : ℕ) :
    ftScreen ℂ N (c * r0) delta L0 l0 a b p q = c ^ (-(5:ℝ) / 6) * ftScreen ℂ N r0 delta L0 l0 a b p q := by
  simp only [screen_eq_lin hN he, mul_sum, ampHi_scale N r0 delta L0 l0 c hr hc]
  apply sum_congr rfl; intro i _; apply sum_congr rfl; intro j _; ring

/-! ### structure function of the high-frequency screen -/

/-- ensemble structure function of `ft_phase_screen`: `Σ_e (φ_e(p) − φ_e(q))²` over the draw basis -/
noncomputable def sfHi (N : ℕ) (r0 delta L0 l0 : ℝ) (p1 p2 q1 q2 : ℕ) : ℝ :=
  ∑ i ∈ range N, ∑ j ∈ range N,
    ((ftScreen ℂ N r0 delta L0 l0 (unit i j) zero p1 p2 - ftScreen ℂ N r0 delta L0 l0 (unit i j) zero q1 q2) ^ 2
      + (ftScreen ℂ N r0 delta L0 l0 zero (unit i j) p1 p2 - ftScreen ℂ N r0 delta L0 l0 zero (unit i j) q1 q2) ^ 2)

/-- `D(p,q) = 2 (C(0) − C(p − q))` -/
theorem sfHi_eq {N : ℕ} (hN : 0 < N) (he : N % 2 = 0) (r0 delta L0 l0 : ℝ) (hr : 0 < r0) (p1 p2 q1 q2 : ℕ) :
    sfHi N r0 delta L0 l0 p1 p2 q1 q2
      = 2 * (covSum N r0 delta L0 l0 0 0 - covSum N r0 delta L0 l0 ((p1 : ℤ) - q1) ((p2 : ℤ) - q2)) := by
  have hpp := ensemble_cov hN he r0 delta L0 l0 hr p1 p2 p1 p2
  have hqq := ensemble_cov hN he r0 delta L0 l0 hr q1 q2 q1 q2
  have hpq := ensemble_cov hN he r0 delta L0 l0 hr p1 p2 q1 q2
  simp only [sub_self] at hpp hqq
  unfold sfHi
  have : 2 * (covSum N r0 delta L0 l0 0 0 - covSum N r0 delta L0 l0 ((p1 : ℤ) - q1) ((p2 : ℤ) - q2))
      = covSum N r0 delta L0 l0 0 0 + covSum N r0 delta L0 l0 0 0
        - 2 * covSum N r0 delta L0 l0 ((p1 : ℤ) - q1) ((p2 : ℤ) - q2) := by ring
  rw [this]
  conv_rhs => rw [← hpq]; arg 1; arg 1; rw [← hpp]
  conv_rhs => arg 1; arg 2; rw [← hqq]
  rw [mul_sum, ← sum_add_distrib, ← sum_sub_distrib]
  apply sum_congr rfl; intro i _
  rw [mul_sum, ← sum_add_distrib, ← sum_sub_distrib]
  apply sum_congr rfl; intro j _
  ring

/-! ### sub-harmonics only add low-frequency power -/

def unit3 (pp i j : ℕ) : ℕ → ℕ → ℕ → ℝ := fun pp' i' j' => if pp' = pp ∧ i' = i ∧ j' = j then 1 else 0
def zero3 : ℕ → ℕ → ℕ → ℝ := fun _ _ _ => 0

/-- the sub-harmonic screen is the high-frequency screen plus a low-frequency screen of separate draws -/
theorem sh_split (N : ℕ) (r0 delta L0 l0 : ℝ) (a b : ℕ → ℕ → ℝ) (la lb : ℕ → ℕ → ℕ → ℝ) (u v : ℕ) :
    shScreen ℂ N r0 delta L0 l0 a b la lb u v
      = loScreen ℂ N r0 delta L0 l0 la lb u v + ftScreen ℂ N r0 delta L0 l0 a b u v := rfl

/-- the low-frequency part as an explicit real-linear map of its 54 draws (any `N`) -/
theorem lo_eq_lin (N : ℕ) (r0 delta L0 l0 : ℝ) (la lb : ℕ → ℕ → ℕ → ℝ) (u v : ℕ) :
    loScreen ℂ N r0 delta L0 l0 la lb u v
      = (∑ pp ∈ range 3, ∑ i ∈ range 3, ∑ j ∈ range 3, ampLo N r0 delta L0 l0 pp i j
            * (la pp i j * Real.cos (phaseLo N delta pp i j u v) - lb pp i j * Real.sin (phaseLo N delta pp i j u v)))
        - (∑ u' ∈ range N, ∑ v' ∈ range N, ∑ pp ∈ range 3, ∑ i ∈ range 3, ∑ j ∈ range 3, ampLo N r0 delta L0 l0 pp i j
            * (la pp i j * Real.cos (phaseLo N delta pp i j u' v') - lb pp i j * Real.sin (phaseLo N delta pp i j u' v')))
          / ((N : ℝ) * N) := by
  rw [loScreen_eq_lin]
  real_unfold [loScreenLin, centre, mean2, loRawLin]

theorem lo_zero_draws (N : ℕ) (r0 delta L0 l0 : ℝ) (u v : ℕ) :
    loScreen ℂ N r0 delta L0 l0 zero3 zero3 u v = 0 := by
  rw [lo_eq_lin]; simp [zero3]

/-- the low-frequency part has zero spatial mean (`phs_lo.real - phs_lo.real.mean()`) -/
theorem lo_zero_mean_spatial {N : ℕ} (hN : 0 < N) (r0 delta L0 l0 : ℝ) (la lb : ℕ → ℕ → ℕ → ℝ) :
    ∑ u ∈ range N, ∑ v ∈ range N, loScreen ℂ N r0 delta L0 l0 la lb u v = 0 := by
  simp only [lo_eq_lin, sum_sub_distrib, sum_const, card_range, nsmul_eq_mul]
  have hN' : (N : ℝ) ≠ 0 := by positivity
  field_simp
  ring

/-- the whole sub-harmonic screen has zero spatial mean -/
theorem sh_zero_mean_spatial {N : ℕ} (hN : 0 < N) (he : N % 2 = 0) (r0 delta L0 l0 : ℝ)
    (a b : ℕ → ℕ → ℝ) (la lb : ℕ → ℕ → ℕ → ℝ) :
    ∑ u ∈ range N, ∑ v ∈ range N, shScreen ℂ N r0 delta L0 l0 a b la lb u v = 0 := by
  simp only [sh_split, sum_add_distrib, lo_zero_mean_spatial hN, zero_mean_spatial hN he, add_zero]

/-- ensemble structure function of the low-frequency part alone, over its own 54-draw basis -/
noncomputable def sfLo (N : ℕ) (r0 delta L0 l0 : ℝ) (p1 p2 q1 q2 : ℕ) : ℝ :=
  ∑ pp ∈ range 3, ∑ i ∈ range 3, ∑ j ∈ range 3,
    ((loScreen ℂ N r0 delta L0 l0 (unit3 pp i j) zero3 p1 p2 - loScreen ℂ N r0 delta L0 l0 (unit3 pp i j) zero3 q1 q2) ^ 2
      + (loScreen ℂ N r0 delta L0 l0 zero3 (unit3 pp i j) p1 p2 - loScreen ℂ N r0 delta L0 l0 zero3 (unit3 pp i j) q1 q2) ^ 2)

/-- ensemble structure function of `ft_sh_phase_screen` when the sub-harmonic draws are separate from the
high-frequency draws (injected `Generator`): sum over the union of the two draw bases -/
noncomputable def sfSh (N : ℕ) (r0 delta L0 l0 : ℝ) (p1 p2 q1 q2 : ℕ) : ℝ :=
  (∑ i ∈ range N, ∑ j ∈ range N,
    ((shScreen ℂ N r0 delta L0 l0 (unit i j) zero zero3 zero3 p1 p2
        - shScreen ℂ N r0 delta L0 l0 (unit i j) zero zero3 zero3 q1 q2) ^ 2
      + (shScreen ℂ N r0 delta L0 l0 zero (unit i j) zero3 zero3 p1 p2
        - shScreen ℂ N r0 delta L0 l0 zero (unit i j) zero3 zero3 q1 q2) ^ 2))
  + ∑ pp ∈ range 3, ∑ i ∈ range 3, ∑ j ∈ range 3,
    ((shScreen ℂ N r0 delta L0 l0 zero zero (unit3 pp i j) zero3 p1 p2
        - shScreen ℂ N r0 delta L0 l0 zero zero (unit3 pp i j) zero3 q1 q2) ^ 2
      + (shScreen ℂ N r0 delta L0 l0 zero zero zero3 (unit3 pp i j) p1 p2
        - shScreen ℂ N r0 delta L0 l0 zero zero zero3 (unit3 pp i j) q1 q2) ^ 2)

/-- **sub-harmonics only add power**: with separate draws, `D_sh(p,q) − D_hi(p,q) = Σ_e (lo_e(p) − lo_e(q))²` -/
theorem sh_adds_power {N : ℕ} (hN : 0 < N) (he : N % 2 = 0) (r0 delta L0 l0 : ℝ) (p1 p2 q1 q2 : ℕ) :
    sfSh N r0 delta L0 l0 p1 p2 q1 q2 = sfHi N r0 delta L0 l0 p1 p2 q1 q2 + sfLo N r0 delta L0 l0 p1 p2 q1 q2 := by
  unfold sfSh sfHi sfLo
  simp only [sh_split, lo_zero_draws, zero_mean_ensemble hN he, zero_add, add_zero]

theorem sfLo_nonneg (N : ℕ) (r0 delta L0 l0 : ℝ) (p1 p2 q1 q2 : ℕ) : 0 ≤ sfLo N r0 delta L0 l0 p1 p2 q1 q2 := by
  unfold sfLo
  apply sum_nonneg; intro pp _; apply sum_nonneg; intro i _; apply sum_nonneg; intro j _
  positivity

/-- no structure-function value decreases -/
theorem sh_sf_ge {N : ℕ} (hN : 0 < N) (he : N % 2 = 0) (r0 delta L0 l0 : ℝ) (p1 p2 q1 q2 : ℕ) :
    sfHi N r0 delta L0 l0 p1 p2 q1 q2 ≤ sfSh N r0 delta L0 l0 p1 p2 q1 q2 := by
  rw [sh_adds_power hN he]
  linarith [sfLo_nonneg N r0 delta L0 l0 p1 p2 q1 q2]

/-! ### closed form of the added power -/

theorem psdLo_nonneg (N : ℕ) (r0 delta L0 l0 : ℝ) (hr : 0 < r0) (pp i j : ℕ) : 0 ≤ psdLo N r0 delta L0 l0 pp i j := by
  unfold psdLo
  split_ifs
  · simp
  · rw [psd_sh_is_stated]
    have : 0 ≤ (fabsSh N delta pp i j) ^ 2 + 1 / L0 ^ 2 := by positivity
    positivity

theorem ampLo_sq (N : ℕ) (r0 delta L0 l0 : ℝ) (hr : 0 < r0) (pp i j : ℕ) :
    (ampLo N r0 delta L0 l0 pp i j) ^ 2 = psdLo N r0 delta L0 l0 pp i j * (delFsh N delta pp) ^ 2 := by
  unfold ampLo
  rw [mul_pow, RealTransc.sqrt_eq, Real.sq_sqrt (psdLo_nonneg N r0 delta L0 l0 hr pp i j)]

/-- difference of the low-frequency part between two pixels for a unit real-part draw (the mean removal cancels) -/
theorem loA_diff (N : ℕ) (r0 delta L0 l0 : ℝ) {pp i j : ℕ} (hp : pp < 3) (hi : i < 3) (hj : j < 3) (p1 p2 q1 q2 : ℕ) :
    loScreen ℂ N r0 delta L0 l0 (unit3 pp i j) zero3 p1 p2 - loScreen ℂ N r0 delta L0 l0 (unit3 pp i j) zero3 q1 q2
      = ampLo N r0 delta L0 l0 pp i j
          * (Real.cos (phaseLo N delta pp i j p1 p2) - Real.cos (phaseLo N delta pp i j q1 q2)) := by
  have key : ∀ u v : ℕ, (∑ pp' ∈ range 3, ∑ i' ∈ range 3, ∑ j' ∈ range 3, ampLo N r0 delta L0 l0 pp' i' j'
        * (unit3 pp i j pp' i' j' * Real.cos (phaseLo N delta pp' i' j' u v)
            - zero3 pp' i' j' * Real.sin (phaseLo N delta pp' i' j' u v)))
      = ampLo N r0 delta L0 l0 pp i j * Real.cos (phaseLo N delta pp i j u v) := by
    intro u v
    rw [sum_eq_single pp, sum_eq_single i, sum_eq_single j]
    · simp [unit3, zero3]
    · intro j' _ hne; simp [unit3, zero3, hne]
    · intro h; exact absurd (mem_range.2 hj) h
    · intro i' _ hne; apply sum_eq_zero; intro j' _; simp [unit3, zero3, hne]
    · intro h; exact absurd (mem_range.2 hi) h
    · intro pp' _ hne; apply sum_eq_zero; intro i' _; apply sum_eq_zero; intro j' _; simp [unit3, zero3, hne]
    · intro h; exact absurd (mem_range.2 hp) h
  rw [lo_eq_lin, lo_eq_lin, key, key]
  ring

theorem loB_diff (N : ℕ) (r0 delta L0 l0 : ℝ) {pp i j : ℕ} (hp : pp < 3) (hi : i < 3) (hj : j < 3) (p1 p2 q1 q2 : ℕ) :
    loScreen ℂ N r0 delta L0 l0 zero3 (unit3 pp i j) p1 p2 - loScreen ℂ N r0 delta L0 l0 zero3 (unit3 pp i j) q1 q2
      = -(ampLo N r0 delta L0 l0 pp i j
          * (Real.sin (phaseLo N delta pp i j p1 p2) - Real.sin (phaseLo N delta pp i j q1 q2))) := by
  have key : ∀ u v : ℕ, (∑ pp' ∈ range 3, ∑ i' ∈ range 3, ∑ j' ∈ range 3, ampLo N r0 delta L0 l0 pp' i' j'
        * (zero3 pp' i' j' * Real.cos (phaseLo N delta pp' i' j' u v)
            - unit3 pp i j pp' i' j' * Real.sin (phaseLo N delta pp' i' j' u v)))
      = -(ampLo N r0 delta L0 l0 pp i j * Real.sin (phaseLo N delta pp i j u v)) := by
    intro u v
    rw [sum_eq_single pp, sum_eq_single i, sum_eq_single j]
    · simp [unit3, zero3]
    · intro j' _ hne; simp [unit3, zero3, hne]
    · intro h; exact absurd (mem_range.2 hj) h
    · intro i' _ hne; apply sum_eq_zero; intro j' _; simp [unit3, zero3, hne]
    · intro h; exact absurd (mem_range.2 hi) h
    · intro pp' _ hne; apply sum_eq_zero; intro i' _; apply sum_eq_zero; intro j' _; simp [unit3, zero3, hne]
    · intro h; exact absurd (mem_range.2 hp) h
  rw [lo_eq_lin, lo_eq_lin, key, key]
  ring

/-- **what the sub-harmonics add**, in closed form: `D_sh − D_hi = Σ_{p=1..3} Σ_{3×3 grid, centre removed}
PSD(f) Δf_p² · 2(1 − cos(2π f·(r_p − r_q)))` with `Δf_p = 1/(3^p N δ)` — the structure function of a field whose only
power sits at the 24 sub-harmonic frequencies `|f| ≤ √2/(3Nδ)` below the FFT grid spacing -/
theorem sfLo_closed_form (N : ℕ) (r0 delta L0 l0 : ℝ) (hr : 0 < r0) (p1 p2 q1 q2 : ℕ) :
    sfLo N r0 delta L0 l0 p1 p2 q1 q2
      = ∑ pp ∈ range 3, ∑ i ∈ range 3, ∑ j ∈ range 3, psdLo N r0 delta L0 l0 pp i j * (delFsh N delta pp) ^ 2
          * (2 * (1 - Real.cos (phaseLo N delta pp i j p1 p2 - phaseLo N delta pp i j q1 q2))) := by
  unfold sfLo
  apply sum_congr rfl; intro pp hp; apply sum_congr rfl; intro i hi; apply sum_congr rfl; intro j hj
  rw [loA_diff N r0 delta L0 l0 (mem_range.1 hp) (mem_range.1 hi) (mem_range.1 hj),
    loB_diff N r0 delta L0 l0 (mem_range.1 hp) (mem_range.1 hi) (mem_range.1 hj),
    ← ampLo_sq N r0 delta L0 l0 hr, Real.cos_sub]
  have h1 := Real.sin_sq_add_cos_sq (phaseLo N delta pp i j p1 p2)
  have h2 := Real.sin_sq_add_cos_sq (phaseLo N delta pp i j q1 q2)
  linear_combination (ampLo N r0 delta L0 l0 pp i j) ^ 2 * (h1 + h2)

/-- the sub-harmonic frequencies are `(m − 1)/(3^p N δ)`, `m ∈ {0,1,2}`, `p = pp + 1 ∈ {1,2,3}` -/
theorem fgridSh_is_stated (N : ℕ) (delta : ℝ) (pp m : ℕ) :
    fgridSh N delta pp m = ((m : ℝ) - 1) * (1 / ((3 : ℝ) ^ (pp + 1) * ((N : ℝ) * delta))) := by
  real_unfold [fgridSh, delFsh]
  push_cast
  rfl

/-! ### r0 scaling of the sub-harmonic screen -/

theorem ampLo_scale (N : ℕ) (r0 delta L0 l0 c : ℝ) (hr : 0 < r0) (hc : 0 < c) (pp i j : ℕ) :
    ampLo N (c * r0) delta L0 l0 pp i j = c ^ (-(5:ℝ) / 6) * ampLo N r0 delta L0 l0 pp i j := by
  have hp : psdLo N (c * r0) delta L0 l0 pp i j = c ^ (-(5:ℝ) / 3) * psdLo N r0 delta L0 l0 pp i j := by
    unfold psdLo
    split_ifs
    · simp
    · rw [psd_sh_is_stated, psd_sh_is_stated, Real.mul_rpow hc.le hr.le]; ring
  unfold ampLo
  rw [hp, RealTransc.sqrt_eq, RealTransc.sqrt_eq,
    Real.sqrt_mul (Real.rpow_nonneg hc.le _), Real.sqrt_eq_rpow, ← Real.rpow_mul hc.le]
  norm_num
  ring

theorem sh_r0_scaling {N : ℕ} (hN : 0 < N) (he : N % 2 = 0) (r0 delta L0 l0 c : ℝ) (hr : 0 < r0) (hc : 0 < c)
    (a b : ℕ → ℕ → ℝ) (la lb : ℕ → ℕ → ℕ → ℝ) (u v : ℕ) :
    shScreen ℂ N (c * r0) delta L0 l0 a b la lb u v = c ^ (-(5:ℝ) / 6) * shScreen ℂ N r0 delta L0 l0 a b la lb u v := by
  rw [sh_split, sh_split, r0_scaling hN he r0 delta L0 l0 c hr hc, lo_eq_lin, lo_eq_lin]
  simp only [ampLo_scale N r0 delta L0 l0 c hr hc]
  simp only [mul_assoc, ← mul_sum]
  ring

/-! ### the sub-harmonic screen is linear in all of its draws -/

theorem lo_linear (N : ℕ) (r0 delta L0 l0 α β : ℝ) (la lb la' lb' : ℕ → ℕ → ℕ → ℝ) (u v : ℕ) :
    loScreen ℂ N r0 delta L0 l0 (fun p i j => α * la p i j + β * la' p i j) (fun p i j => α * lb p i j + β * lb' p i j) u v
      = α * loScreen ℂ N r0 delta L0 l0 la lb u v + β * loScreen ℂ N r0 delta L0 l0 la' lb' u v := by
  simp only [lo_eq_lin]
  have e : ∀ (u v : ℕ), (∑ pp ∈ range 3, ∑ i ∈ range 3, ∑ j ∈ range 3, ampLo N r0 delta L0 l0 pp i j
        * ((α * la pp i j + β * la' pp i j) * Real.cos (phaseLo N delta pp i j u v)
            - (α * lb pp i j + β * lb' pp i j) * Real.sin (phaseLo N delta pp i j u v)))
      = α * (∑ pp ∈ range 3, ∑ i ∈ range 3, ∑ j ∈ range 3, ampLo N r0 delta L0 l0 pp i j
          * (la pp i j * Real.cos (phaseLo N delta pp i j u v) - lb pp i j * Real.sin (phaseLo N delta pp i j u v)))
        + β * (∑ pp ∈ range 3, ∑ i ∈ range 3, ∑ j ∈ range 3, ampLo N r0 delta L0 l0 pp i j
          * (la' pp i j * Real.cos (phaseLo N delta pp i j u v) - lb' pp i j * Real.sin (phaseLo N delta pp i j u v))) := by
    intro u v
    simp only [mul_sum, ← sum_add_distrib]
    apply sum_congr rfl; intro pp _; apply sum_congr rfl; intro i _; apply sum_congr rfl; intro j _; ring
  simp only [e, sum_add_distrib, ← mul_sum]
  ring

theorem sh_linear {N : ℕ} (hN : 0 < N) (he : N % 2 = 0) (r0 delta L0 l0 α β : ℝ)
    (a b a' b' : ℕ → ℕ → ℝ) (la lb la' lb' : ℕ → ℕ → ℕ → ℝ) (u v : ℕ) :
    shScreen ℂ N r0 delta L0 l0 (fun i j => α * a i j + β * a' i j) (fun i j => α * b i j + β * b' i j)
        (fun p i j => α * la p i j + β * la' p i j) (fun p i j => α * lb p i j + β * lb' p i j) u v
      = α * shScreen ℂ N r0 delta L0 l0 a b la lb u v + β * shScreen ℂ N r0 delta L0 l0 a' b' la' lb' u v := by
  simp only [sh_split, lo_linear, screen_linear hN he]
  ring

/-- `ft_phase_screen` as a function of the generator stream: first `N²` draws are the real parts (row-major), the next
`N²` the imaginary parts -/
theorem hi_stream_eq (N : ℕ) (r0 delta L0 l0 : ℝ) (g : ℕ → ℝ) (p q : ℕ) :
    ftScreenStream ℂ N r0 delta L0 l0 g p q
      = ftScreen ℂ N r0 delta L0 l0 (fun i j => g (i * N + j)) (fun i j => g (N * N + i * N + j)) p q := rfl

/-! ### the order in which the generator stream is consumed -/

/-- as coded (one generator for both parts), every draw slot of `ft_sh_phase_screen` reads its own stream position:
any choice of the `2N² + 54` draws is realised by a stream — the draws are free (for an i.i.d. stream: independent) -/
theorem generator_draws_free {N : ℕ} (hN : 0 < N) (a b : ℕ → ℕ → ℝ) (la lb : ℕ → ℕ → ℕ → ℝ) :
    ∃ g : ℕ → ℝ, (∀ i < N, ∀ j < N, hiA N g i j = a i j ∧ hiB N g i j = b i j)
      ∧ ∀ pp < 3, ∀ i < 3, ∀ j < 3, loA (shOffset N) g pp i j = la pp i j ∧ loB (shOffset N) g pp i j = lb pp i j := by
  refine ⟨fun n => if n < N * N then a (n / N) (n % N)
      else if n < 2 * (N * N) then b ((n - N * N) / N) ((n - N * N) % N)
      else if (n - 2 * (N * N)) % 18 < 9
        then la ((n - 2 * (N * N)) / 18) ((n - 2 * (N * N)) % 18 / 3) ((n - 2 * (N * N)) % 18 % 3)
        else lb ((n - 2 * (N * N)) / 18) (((n - 2 * (N * N)) % 18 - 9) / 3) (((n - 2 * (N * N)) % 18 - 9) % 3), ?_, ?_⟩
  · intro i hi j hj
    have h1 : i * N + j < N * N := by
      calc i * N + j < i * N + N := by omega
        _ = (i + 1) * N := by ring
        _ ≤ N * N := Nat.mul_le_mul_right N hi
    have d1 : (i * N + j) / N = i := by
      rw [Nat.add_comm, Nat.add_mul_div_right _ _ hN, Nat.div_eq_of_lt hj, Nat.zero_add]
    have m1 : (i * N + j) % N = j := by
      rw [Nat.add_comm, Nat.add_mul_mod_self_right, Nat.mod_eq_of_lt hj]
    constructor
    · simp only [hiA, h1, if_true, d1, m1]
    · have h2 : ¬ (N * N + i * N + j < N * N) := by omega
      have h3 : N * N + i * N + j < 2 * (N * N) := by omega
      have e : N * N + i * N + j - N * N = i * N + j := by omega
      simp only [hiB, h2, h3, if_false, if_true, e, d1, m1]
  · intro pp hp i hi j hj
    have h2 : ∀ r, ¬ (2 * (N * N) + r < N * N) := by intro r; omega
    have h3 : ∀ r, ¬ (2 * (N * N) + r < 2 * (N * N)) := by intro r; omega
    constructor
    · have e : shOffset N + 18 * pp + 3 * i + j = 2 * (N * N) + (18 * pp + 3 * i + j) := by unfold shOffset; omega
      have e' : 2 * (N * N) + (18 * pp + 3 * i + j) - 2 * (N * N) = 18 * pp + 3 * i + j := by omega
      have m : (18 * pp + 3 * i + j) % 18 = 3 * i + j := by omega
      have d : (18 * pp + 3 * i + j) / 18 = pp := by omega
      have c9 : 3 * i + j < 9 := by omega
      have d3 : (3 * i + j) / 3 = i := by omega
      have m3 : (3 * i + j) % 3 = j := by omega
      simp only [loA, e, h2, h3, if_false, e', m, d, c9, if_true, d3, m3]
    · have e : shOffset N + 18 * pp + 9 + 3 * i + j = 2 * (N * N) + (18 * pp + 9 + 3 * i + j) := by unfold shOffset; omega
      have e' : 2 * (N * N) + (18 * pp + 9 + 3 * i + j) - 2 * (N * N) = 18 * pp + 9 + 3 * i + j := by omega
      have m : (18 * pp + 9 + 3 * i + j) % 18 = 9 + 3 * i + j := by omega
      have d : (18 * pp + 9 + 3 * i + j) / 18 = pp := by omega
      have c9 : ¬ (9 + 3 * i + j < 9) := by omega
      have s9 : 9 + 3 * i + j - 9 = 3 * i + j := by omega
      have d3 : (3 * i + j) / 3 = i := by omega
      have m3 : (3 * i + j) % 3 = j := by omega
      simp only [loB, e, h2, h3, if_false, e', m, d, c9, s9, d3, m3]

/-- hence the stream form of the sub-harmonic screen ranges over exactly the screens with separate draws, to which
`sh_adds_power` applies -/
theorem sh_stream_eq (N : ℕ) (r0 delta L0 l0 : ℝ) (g : ℕ → ℝ) (u v : ℕ) :
    shScreenStream ℂ N r0 delta L0 l0 g u v
      = shScreen ℂ N r0 delta L0 l0 (hiA N g) (hiB N g) (loA (shOffset N) g) (loB (shOffset N) g) u v := rfl

/-- what was wrong on the pinned tree (finding C07-sh-seed-reuse, fixed): with an int seed the first sub-harmonic draw
WAS the first high-frequency draw, so the two draw sets were not separate -/
theorem pinned_seed_reuse (N : ℕ) (g : ℕ → ℝ) : loA (shOffsetPinned N true) g 0 0 0 = hiA N g 0 0 := by
  simp [loA, hiA, shOffsetPinned]

/-! ### the FFT-object branch of `phasescreen.ift2` -/

/-- `ft_phase_screen(..., FFT=obj)` with an object that computes the inverse transform (`fftshift(obj(fftshift(G)))`, a
different shift pair from the default branch) is the SAME function of the draws for every even `N` — so every theorem
above holds for that call path too -/
theorem fft_branch_eq {N : ℕ} (he : N % 2 = 0) (r0 delta L0 l0 : ℝ) (a b : ℕ → ℕ → ℝ) (p q : ℕ) :
    ftScreenFFT ℂ N r0 delta L0 l0 a b p q = ftScreen ℂ N r0 delta L0 l0 a b p q := by
  unfold ftScreenFFT ftScreen
  rw [ift2_psFFT_even he]

theorem sh_fft_branch_eq {N : ℕ} (he : N % 2 = 0) (r0 delta L0 l0 : ℝ) (a b : ℕ → ℕ → ℝ) (la lb : ℕ → ℕ → ℕ → ℝ)
    (u v : ℕ) :
    shScreenFFT ℂ N r0 delta L0 l0 a b la lb u v = shScreen ℂ N r0 delta L0 l0 a b la lb u v := by
  unfold shScreenFFT shScreen
  rw [fft_branch_eq he]

/-- hence e.g. the ensemble covariance of the FFT-object path -/
theorem fft_branch_screen_eq_lin {N : ℕ} (hN : 0 < N) (he : N % 2 = 0) (r0 delta L0 l0 : ℝ) (a b : ℕ → ℕ → ℝ) (p q : ℕ) :
    ftScreenFFT ℂ N r0 delta L0 l0 a b p q
      = ∑ i ∈ range N, ∑ j ∈ range N, ampHi N r0 delta L0 l0 i j
          * (a i j * Real.cos (theta N i j p q) - b i j * Real.sin (theta N i j p q)) := by
  rw [fft_branch_eq he, screen_eq_lin hN he]

/-! ### the domain: no division by zero, no power of a non-positive base

Lean's field operations are total (`x / 0 = 0`, `0 ^ (-5/3) = 0`, `(-1) ^ (-5/3)` is some real), Python's are not
(`ZeroDivisionError`, `nan`/complex).  `psd_is_stated`, `fgrid_is_stated`, … are stated without sign hypotheses and are
true as equations between total functions; they describe the Python code only on the property's domain
`N > 0`, `delta > 0`, `r0 > 0`, `L0 > 0`, `l0 > 0`.  The next theorem says that on this domain none of the model's
divisions has a zero denominator and none of its real powers a non-positive base, so the totalised conventions are never
exercised there. -/
theorem domain_no_division_by_zero {N : ℕ} (hN : 0 < N) (r0 delta L0 l0 : ℝ) (hr : 0 < r0) (hd : 0 < delta)
    (hL : 0 < L0) (hl : 0 < l0) (f : ℝ) (pp : ℕ) :
    (N : ℝ) * delta ≠ 0                                        -- `1./(N*delta)`
      ∧ l0 ≠ 0 ∧ 2 * Real.pi ≠ 0 ∧ fmOf l0 ≠ 0                 -- `5.92/l0/(2*numpy.pi)`, `f/fm`
      ∧ L0 ≠ 0                                                 -- `1./L0`
      ∧ 0 < r0                                                 -- `r0**(-5./3)`
      ∧ 0 < f ^ 2 + (f0Of L0) ^ 2                              -- `/ (f**2 + f0**2)**(11./6)`
      ∧ (((3 ^ (pp + 1) : ℕ) : ℝ) * ((N : ℝ) * delta)) ≠ 0    -- `1 / (3**p*D)`
      ∧ (N : ℝ) * N ≠ 0 := by                                  -- `.mean()`
  have hN' : (0 : ℝ) < N := by exact_mod_cast hN
  have hfm : 0 < fmOf l0 := by
    real_unfold [fmOf]
    positivity
  have hf0 : 0 < f0Of L0 := by
    real_unfold [f0Of]
    positivity
  refine ⟨by positivity, hl.ne', by positivity, hfm.ne', hL.ne', hr, by positivity, by positivity, by positivity⟩

/-- on the domain the spectrum is strictly positive at every sample that is not removed -/
theorem psd_pos (f fm L0 r0 : ℝ) (hr : 0 < r0) (hL : 0 < L0) :
    0 < Gen.psd_ft_phase_screen f fm (f0Of L0) r0 := by
  rw [psd_is_stated]
  have : 0 < f ^ 2 + 1 / L0 ^ 2 := by positivity
  positivity

/-! ### non-vacuity: the hypotheses are satisfiable and the statements are not about an empty sum -/

example : ∃ N : ℕ, 0 < N ∧ N % 2 = 0 := ⟨8, by norm_num, by norm_num⟩
example : ∃ r0 c : ℝ, 0 < r0 ∧ 0 < c := ⟨0.2, 2, by norm_num, by norm_num⟩
example : ∃ r0 delta L0 l0 : ℝ, 0 < r0 ∧ 0 < delta ∧ 0 < L0 ∧ 0 < l0 :=
  ⟨0.2, 0.1, 25, 0.01, by norm_num, by norm_num, by norm_num, by norm_num⟩

/-- the DC-removed spectrum is not identically zero: at `N = 2` the sample `(0,0)` (frequency `(−Δf,−Δf)`) carries power,
so `ensemble_cov`, `variance_const`, `r0_scaling` are statements about non-trivial sums -/
example (r0 delta L0 l0 : ℝ) (hr : 0 < r0) (hL : 0 < L0) : 0 < psdHi 2 r0 delta L0 l0 0 0 := by
  unfold psdHi
  rw [if_neg (by norm_num), psd_is_stated]
  have : 0 < (fabs 2 delta 0 0) ^ 2 + 1 / L0 ^ 2 := by positivity
  positivity

/-- and the unit draws used as the basis are genuinely different draws -/
example : unit 0 1 0 1 = 1 ∧ unit 0 1 1 0 = 0 := by simp [unit]

/-
NOT PROVED (numeric clauses of the property, evaluated by the oracle on fixed configurations, listed in the evidence
under `assumptions`; Mathlib has no Bessel functions, and these are approximation statements, DESIGN §5):

  * convergence: for fixed δ, r0, L0, l0 and fixed pixel separation s,
      sfHi N … (p, q) → D_vK(s δ) = 0.17253 (L0/r0)^{5/3} (1 − 2π^{5/6}/Γ(5/6) (sδ/L0)^{5/6} K_{5/6}(2π sδ/L0))   as N → ∞
  * closer at large separations: for N/4 ≤ s ≤ N/2,
      |sfSh N … (p, p + s) − D_vK(s δ)| < |sfHi N … (p, p + s) − D_vK(s δ)|

NOT A THEOREM but an explicit reading convention (trusted base, DESIGN §3.4): "ensemble covariance of the screen" is
`Σ_e φ_e(p) φ_e(q)` over the draw basis, i.e. the covariance of `Σ_e g_e φ_e` for i.i.d. unit normal `g_e`
(`screen_expansion` is the proved half: the screen IS that combination).
-/

end AoVerif.Props.C07
