/-
C04 — infinite phase screen rows follow the exact conditional von Kármán law.
Model: `Model/InfiniteCov.lean` (hand-written mirror of infinitephasescreen.py) and the T1-regenerated
`Gen.phase_covariance`.
§5b (counterpart of the Python clause `oracle_retune`): rebuilding the matrices after `r0 → c·r0` leaves `A` unchanged and multiplies
`B·Bᵀ` by `c^(-5/3)` (`retune_A_invariant`, `retune_A_of_contract`, `retune_BBt_scales`, `retune_model`, `retune_r0_model`).
-/
import Mathlib.Tactic.Ring
import Mathlib.Tactic.Linarith
import Mathlib.Analysis.Matrix.Order
import Mathlib.LinearAlgebra.Matrix.SchurComplement
import Mathlib.Analysis.InnerProductSpace.GramMatrix
import AoVerif.Lemmas.RealScalar
import AoVerif.Model.InfiniteCov
import AoVerif.Gen.Formulas

namespace AoVerif.Props.C04
open AoVerif AoVerif.InfiniteCov

/-! ## 1. Sizes and coordinates (all sizes; pure `Nat`) -/

private theorem allowedExpAux_spec (req : Nat) : ∀ fuel n, req ≤ n + fuel → (∀ k < n, 2 ^ k + 1 < req) →
    ¬ (2 ^ (allowedExpAux req fuel n) + 1 < req) ∧ ∀ k < allowedExpAux req fuel n, 2 ^ k + 1 < req := by
  intro fuel
  induction fuel with
  | zero =>
    intro n hn hlt
    simp only [allowedExpAux]
    refine ⟨?_, hlt⟩
    have := Nat.lt_two_pow_self (n := n)
    omega
  | succ fuel ih =>
    intro n hn hlt
    simp only [allowedExpAux]
    split
    · rename_i h
      apply ih (n + 1) (by omega)
      intro k hk
      rcases Nat.lt_succ_iff_lt_or_eq.mp hk with h' | h'
      · exact hlt k h'
      · subst h'; exact h
    · rename_i h
      exact ⟨h, hlt⟩

/-- the loop of `find_allowed_size` stops at the FIRST `n` with `2^n + 1 ≥ request` -/
theorem allowedExp_spec (req : Nat) :
    req ≤ 2 ^ allowedExp req + 1 ∧ ∀ k < allowedExp req, 2 ^ k + 1 < req := by
  have h := allowedExpAux_spec req req 0 (by omega) (by intro k hk; omega)
  exact ⟨by have := h.1; unfold allowedExp; omega, h.2⟩

/-- `find_allowed_size` returns a size `2^n + 1`, not below the request, and minimal among such sizes -/
theorem findAllowedSize_spec (req : Nat) :
    ∃ n, findAllowedSize req = 2 ^ n + 1 ∧ req ≤ findAllowedSize req ∧
      ∀ m, req ≤ 2 ^ m + 1 → findAllowedSize req ≤ 2 ^ m + 1 := by
  refine ⟨allowedExp req, rfl, (allowedExp_spec req).1, ?_⟩
  intro m hm
  unfold findAllowedSize
  have hle : allowedExp req ≤ m := by
    by_contra hlt
    have := (allowedExp_spec req).2 m (by omega)
    omega
  have := Nat.pow_le_pow_right (n := 2) (by omega) hle
  omega

/-- sizes that are already `2^m + 1` are kept -/
theorem findAllowedSize_fixed (m : Nat) : findAllowedSize (2 ^ m + 1) = 2 ^ m + 1 := by
  obtain ⟨n, _, hge, hmin⟩ := findAllowedSize_spec (2 ^ m + 1)
  have := hmin m (le_refl _)
  omega

private theorem friedMaxNAux_allowed (m : Nat) : ∀ fuel k, 1 ≤ k → k ≤ m + 1 → m + 1 - k < fuel →
    friedMaxNAux (2 ^ m + 1) fuel k = m := by
  intro fuel
  induction fuel with
  | zero => intro k _ _ h; omega
  | succ fuel ih =>
    intro k h1 h2 h3
    simp only [friedMaxNAux]
    by_cases hk : k = m + 1
    · subst hk
      simp
    · have hlt : k - 1 < m := by omega
      have hpow : 2 ^ (k - 1) < 2 ^ m := Nat.pow_lt_pow_right (by omega) hlt
      rw [if_neg (by omega)]
      exact ih (k + 1) (by omega) (by omega) (by omega)

/-- for `nx = 2^m + 1` the `while True` loop of `set_stencil_coords` ends with `max_n = m` -/
theorem friedMaxN_allowed (m : Nat) : friedMaxN (2 ^ m + 1) = m := by
  unfold friedMaxN
  apply friedMaxNAux_allowed m _ 1 (le_refl _) (by omega)
  have := Nat.lt_two_pow_self (n := m)
  omega

/-- for `nx = 2^m + 1` the rounded `linspace(0, nx-1, 2^(m-n)+1)` is exactly every `2^n`-th column -/
theorem linspaceRound_allowed (m n k : Nat) (hn : n ≤ m) :
    linspaceRound (2 ^ m + 1) (2 ^ (m - n) + 1) k = k * 2 ^ n := by
  unfold linspaceRound roundHalfEvenDiv
  have hb : 0 < 2 ^ (m - n) := Nat.pow_pos (by omega)
  have hsplit : 2 ^ m = 2 ^ n * 2 ^ (m - n) := by rw [← Nat.pow_add]; congr 1; omega
  have ha : k * (2 ^ m + 1 - 1) = (k * 2 ^ n) * (2 ^ (m - n) + 1 - 1) := by
    simp only [Nat.add_sub_cancel]; rw [hsplit]; ring
  rw [ha]
  simp only [Nat.add_sub_cancel]
  rw [Nat.mul_div_cancel _ hb, Nat.mul_mod_left]
  simp [hb]

/-- the Fried stencil of an allowed size `2^m + 1`, as a set: level `n ≤ m` lives on row `friedRow n`
(0, 1, 2, 4, …, 2^(m-1)) and holds every `2^n`-th column `0, 2^n, …, 2^m`; the tail points sit at rows
`t·nx − 1` (`t = 1 … factor`) in the middle column. -/
theorem friedMask_iff (m factor r c : Nat) :
    friedMask (2 ^ m + 1) factor r c = true ↔
      (∃ n, n ≤ m ∧ r = friedRow n ∧ ∃ k, k ≤ 2 ^ (m - n) ∧ c = k * 2 ^ n) ∨
      (∃ t, t < factor ∧ r = (t + 1) * (2 ^ m + 1) - 1 ∧ c = (2 ^ m + 1) / 2) := by
  unfold friedMask
  simp only [friedMaxN_allowed, Bool.or_eq_true, List.any_eq_true, List.mem_range, Bool.and_eq_true,
    decide_eq_true_eq]
  constructor
  · rintro (⟨n, hn, hr, k, hk, hc⟩ | ⟨t, ht, hr, hc⟩)
    · left
      refine ⟨n, by omega, hr, k, by omega, ?_⟩
      rw [hc, linspaceRound_allowed m n k (by omega)]
    · right; exact ⟨t, ht, hr, hc⟩
  · rintro (⟨n, hn, hr, k, hk, hc⟩ | ⟨t, ht, hr, hc⟩)
    · left
      refine ⟨n, by omega, hr, k, by omega, ?_⟩
      rw [hc, linspaceRound_allowed m n k hn]
    · right; exact ⟨t, ht, hr, hc⟩

/-- every point the code writes into the Fried stencil array lies inside the `(factor·nx) × nx` array
(no `IndexError`, no wrap-around), for every allowed size and every `factor ≥ 1` -/
theorem friedMask_inbounds (m factor r c : Nat) (hf : 1 ≤ factor)
    (h : friedMask (2 ^ m + 1) factor r c = true) : r < factor * (2 ^ m + 1) ∧ c < 2 ^ m + 1 := by
  have hnx : 2 ^ m + 1 ≤ factor * (2 ^ m + 1) := Nat.le_mul_of_pos_left _ hf
  have hp : 0 < 2 ^ m := Nat.pow_pos (by omega)
  rcases (friedMask_iff m factor r c).mp h with ⟨n, hn, hr, k, hk, hc⟩ | ⟨t, ht, hr, hc⟩
  · constructor
    · subst hr
      unfold friedRow
      split
      · omega
      · have : 2 ^ (n - 1) ≤ 2 ^ m := Nat.pow_le_pow_right (by omega) (by omega)
        omega
    · subst hc
      have h1 : k * 2 ^ n ≤ 2 ^ (m - n) * 2 ^ n := Nat.mul_le_mul_right _ hk
      have h2 : 2 ^ (m - n) * 2 ^ n = 2 ^ m := by rw [← Nat.pow_add]; congr 1; omega
      omega
  · constructor
    · subst hr
      have : (t + 1) * (2 ^ m + 1) ≤ factor * (2 ^ m + 1) := Nat.mul_le_mul_right _ (by omega)
      have : 0 < (t + 1) * (2 ^ m + 1) := Nat.mul_pos (by omega) (by omega)
      omega
    · subst hc; omega

theorem mem_whereMask (rows cols : Nat) (mask : Nat → Nat → Bool) (p : Nat × Nat) :
    p ∈ whereMask rows cols mask ↔ p.1 < rows ∧ p.2 < cols ∧ mask p.1 p.2 = true := by
  unfold whereMask
  simp only [List.mem_flatMap, List.mem_range, List.mem_filterMap]
  constructor
  · rintro ⟨r, hr, c, hc, h⟩
    split at h
    · rename_i hm
      cases h
      exact ⟨hr, hc, hm⟩
    · cases h
  · rintro ⟨hr, hc, hm⟩
    exact ⟨p.1, hr, p.2, hc, by simp [hm]⟩

/-- `stencil_coords` of the Fried variant is exactly the set of written points: none is lost, none is added -/
theorem mem_friedStencil (m factor : Nat) (hf : 1 ≤ factor) (p : Nat × Nat) :
    p ∈ friedStencil (2 ^ m + 1) factor ↔ friedMask (2 ^ m + 1) factor p.1 p.2 = true := by
  unfold friedStencil
  rw [mem_whereMask]
  constructor
  · exact fun h => h.2.2
  · intro h
    have := friedMask_inbounds m factor p.1 p.2 hf h
    exact ⟨this.1, this.2, h⟩

/-- von Kármán stencil = all pixels of the first `n_columns` rows (of the `nx` existing ones) -/
theorem mem_vkStencil (nx ncol : Nat) (p : Nat × Nat) :
    p ∈ vkStencil nx ncol ↔ p.1 < ncol ∧ p.1 < nx ∧ p.2 < nx := by
  unfold vkStencil vkMask
  rw [mem_whereMask]
  simp only [decide_eq_true_eq]
  constructor
  · rintro ⟨a, b, c⟩; exact ⟨c, a, b⟩
  · rintro ⟨a, b, c⟩; exact ⟨b, c, a⟩

private theorem flatMap_range_if (ncol : Nat) (g : Nat → List (Nat × Nat)) : ∀ rows,
    ((List.range rows).flatMap fun r => if r < ncol then g r else []) = (List.range (min ncol rows)).flatMap g := by
  intro rows
  induction rows with
  | zero => simp
  | succ rows ih =>
    rw [List.range_succ, List.flatMap_append, ih]
    by_cases h : rows < ncol
    · have h1 : min ncol rows = rows := by omega
      have h2 : min ncol (rows + 1) = rows + 1 := by omega
      rw [h1, h2, List.range_succ, List.flatMap_append]
      simp [h]
    · have h1 : min ncol rows = ncol := by omega
      have h2 : min ncol (rows + 1) = ncol := by omega
      rw [h1, h2]
      simp [h]

/-- … listed row-major: `stencil_coords[r·nx + c] = (r, c)`; `n_stencils = min(n_columns, nx)·nx` -/
theorem vkStencil_eq (nx ncol : Nat) :
    vkStencil nx ncol = (List.range (min ncol nx)).flatMap fun r => (List.range nx).map fun c => (r, c) := by
  unfold vkStencil whereMask vkMask
  rw [← flatMap_range_if ncol (fun r => (List.range nx).map fun c => (r, c)) nx]
  congr 1
  funext r
  by_cases h : r < ncol
  · simp only [h, decide_true, if_true]
    induction (List.range nx) with
    | nil => rfl
    | cons a l ih => simp [ih]
  · simp only [h, decide_false]
    induction (List.range nx) with
    | nil => rfl
    | cons a l ih => simp

theorem vkStencil_length (nx ncol : Nat) : (vkStencil nx ncol).length = min ncol nx * nx := by
  rw [vkStencil_eq]
  simp [List.length_flatMap, List.map_const']

/-- the new row: `X_coords[j] = (-1, j)`, `j < nx` -/
theorem xCoords_get (nx j : Nat) (hj : j < nx) : (xCoords nx)[j]? = some ((-1 : Int), (j : Int)) := by
  unfold xCoords
  simp [hj]

theorem xCoords_length (nx : Nat) : (xCoords nx).length = nx := by
  unfold xCoords; simp

/-- `numpy.where` lists every set position once: no stencil point is duplicated (a duplicate would make Σzz singular) -/
theorem whereMask_nodup (rows cols : Nat) (mask : Nat → Nat → Bool) : (whereMask rows cols mask).Nodup := by
  unfold whereMask
  rw [List.nodup_flatMap]
  refine ⟨?_, ?_⟩
  · intro r _
    apply List.Nodup.filterMap _ List.nodup_range
    intro a a' b hb hb'
    split at hb <;> split at hb' <;> simp_all
    cases hb; cases hb'; rfl
  · apply List.Nodup.pairwise_of_forall_ne List.nodup_range
    intro r _ r' _ hne
    intro p hp hq
    simp only [List.mem_filterMap, List.mem_range] at hp hq
    obtain ⟨c, _, hc⟩ := hp
    obtain ⟨c', _, hc'⟩ := hq
    split at hc
    · split at hc'
      · cases hc; cases hc'; exact hne rfl
      · cases hc'
    · cases hc


/-- stencil pixels (rows ≥ 0) and new-row pixels (row −1) never coincide -/
theorem stencil_ne_x (stencil : List (Nat × Nat)) (nx : Nat) (p q : Int × Int)
    (hp : p ∈ toIntCoords stencil) (hq : q ∈ xCoords nx) : p ≠ q := by
  unfold toIntCoords at hp
  unfold xCoords at hq
  simp only [List.mem_map, List.mem_range] at hp hq
  obtain ⟨a, _, rfl⟩ := hp
  obtain ⟨j, _, rfl⟩ := hq
  intro h
  have := congrArg Prod.fst h
  simp at this


/-! ## 2. Separations and covariance entries over ℝ (every pixel scale, every coordinate) -/

set_option linter.unusedSectionVars false
variable [Transc ℝ] [RealTransc]

theorem ofInt_real (z : Int) : (ofInt z : ℝ) = (z : ℝ) := by
  unfold ofInt
  split
  · rename_i h
    rw [Nat.cast_natAbs, abs_of_neg h]
    push_cast; ring
  · rename_i h
    have h0 : 0 ≤ z := by omega
    have : ((z.toNat : ℕ) : ℝ) = ((z.toNat : ℤ) : ℝ) := by push_cast; rfl
    rw [this, Int.toNat_of_nonneg h0]

/-- the separation the code computes is the TRUE distance between the two pixels:
`|pixel_scale| · sqrt(Δrow² + Δcol²)` -/
theorem sep_true_separation (px : ℝ) (p q : Int × Int) :
    sep px p q = |px| * Real.sqrt (((q.1 - p.1 : Int) : ℝ) ^ 2 + ((q.2 - p.2 : Int) : ℝ) ^ 2) := by
  unfold sep
  simp only [RealTransc.sqrt_eq, ofInt_real]
  have : ((q.1 : ℝ) * px - (p.1 : ℝ) * px) ^ 2 + ((q.2 : ℝ) * px - (p.2 : ℝ) * px) ^ 2
      = px ^ 2 * (((q.1 - p.1 : Int) : ℝ) ^ 2 + ((q.2 - p.2 : Int) : ℝ) ^ 2) := by
    push_cast; ring
  rw [this, Real.sqrt_mul (sq_nonneg px), Real.sqrt_sq_eq_abs]

theorem sep_symm (px : ℝ) (p q : Int × Int) : sep px p q = sep px q p := by
  rw [sep_true_separation, sep_true_separation]
  congr 2
  push_cast; ring

/-- separations depend only on the displacement between the two pixels -/
theorem sep_translate (px : ℝ) (p q d : Int × Int) :
    sep px (p.1 + d.1, p.2 + d.2) (q.1 + d.1, q.2 + d.2) = sep px p q := by
  rw [sep_true_separation, sep_true_separation]
  congr 2
  push_cast; ring

/-- the covariance matrix the code builds is symmetric (for any covariance function and rounding) -/
theorem covMat_symm (cov r32 : ℝ → ℝ) (px : ℝ) (pos : Nat → Int × Int) (i j : Nat) :
    covMat cov r32 px pos i j = covMat cov r32 px pos j i := by
  unfold covMat; rw [sep_symm]

/-- … and stationary: translating all points by the same pixel offset leaves it unchanged -/
theorem covMat_translate (cov r32 : ℝ → ℝ) (px : ℝ) (pos : Nat → Int × Int) (d : Int × Int) (i j : Nat) :
    covMat cov r32 px (fun l => ((pos l).1 + d.1, (pos l).2 + d.2)) i j = covMat cov r32 px pos i j := by
  unfold covMat; rw [sep_translate]

/-- extrusion keeps the geometry: the covariance the code assigns to (new-row pixel `j`, stencil pixel `(r, c)`)
is the one it assigns to the screen pixels `(0, j)` and `(r+1, c)` — where the two sit after `add_row` -/
theorem vk_new_row_is_row_zero_shifted (cov r32 : ℝ → ℝ) (px : ℝ) (j r c : Nat) :
    cov (r32 (sep px ((-1 : Int), (j : Int)) ((r : Int), (c : Int))))
      = cov (r32 (sep px ((0 : Int), (j : Int)) (((r + 1 : Nat) : Int), (c : Int)))) := by
  have := sep_translate px ((-1 : Int), (j : Int)) ((r : Int), (c : Int)) ((1 : Int), (0 : Int))
  simp only at this
  rw [← this]
  congr 3

/-! ## 3. The model's array operations are Mathlib's matrix operations -/

open Matrix
open scoped MatrixOrder

/-- an `r × c` array given as an index function, as a Mathlib matrix -/
def toM (r c : ℕ) (f : ℕ → ℕ → ℝ) : Matrix (Fin r) (Fin c) ℝ := Matrix.of fun i j => f i j
/-- a length-`n` array as a vector -/
def toV (n : ℕ) (v : ℕ → ℝ) : Fin n → ℝ := fun i => v i

theorem matMul_eq_mul (r m c : ℕ) (a b : ℕ → ℕ → ℝ) : toM r c (matMul m a b) = toM r m a * toM m c b := by
  ext i k
  simp only [toM, Matrix.of_apply, matMul, sumTo_real, Matrix.mul_apply]
  rw [Fin.sum_univ_eq_sum_range (fun l => a i l * b l k) m]

theorem matVec_eq_mulVec (r m : ℕ) (a : ℕ → ℕ → ℝ) (v : ℕ → ℝ) : toV r (matVec m a v) = toM r m a *ᵥ toV m v := by
  ext i
  simp only [toM, toV, matVec, sumTo_real, Matrix.mulVec, dotProduct, Matrix.of_apply]
  rw [Fin.sum_univ_eq_sum_range (fun l => a i l * v l) m]

/-- `makeAMatrix`: `A_mat = cov_xz · inv` as matrices -/
theorem aMat_eq_mul (nz nx : ℕ) (xz inv : ℕ → ℕ → ℝ) :
    toM nx nz (aMat nz xz inv) = toM nx nz xz * toM nz nz inv := matMul_eq_mul nx nz nz xz inv

/-- `BBt = cov_xx − A · cov_zx` as matrices -/
theorem bbt_eq_sub (nz nx : ℕ) (xx A zx : ℕ → ℕ → ℝ) :
    toM nx nx (bbt nz xx A zx) = toM nx nx xx - toM nx nz A * toM nz nx zx := by
  rw [← matMul_eq_mul]
  ext i j
  simp [toM, bbt]

/-- `makeBMatrix`: `B_mat = u · L_mat = u · diag(sqrt w)` -/
theorem bMat_eq_mul (nx : ℕ) (u : ℕ → ℕ → ℝ) (w : ℕ → ℝ) :
    toM nx nx (bMat nx u w) = toM nx nx u * Matrix.diagonal (fun k : Fin nx => Real.sqrt (w k)) := by
  unfold bMat
  rw [matMul_eq_mul]
  congr 1
  ext l k
  simp only [toM, lMat, Matrix.of_apply, Matrix.diagonal_apply, RealTransc.sqrt_eq, Nat.cast_zero, Fin.ext_iff]
  split
  · rename_i h; rw [h]
  · rfl

/-- `get_new_row` (von Kármán): the new row is `A·Z + B·b` -/
theorem newRow_eq_mulVec (nz nx : ℕ) (A B : ℕ → ℕ → ℝ) (Z b : ℕ → ℝ) :
    toV nx (newRow nz nx A B Z b) = toM nx nz A *ᵥ toV nz Z + toM nx nx B *ᵥ toV nx b := by
  rw [← matVec_eq_mulVec, ← matVec_eq_mulVec]
  rfl

/-- `get_new_row` (Fried): the new row is the affine function `A·(Z − ref) + B·b + ref` -/
theorem newRowFried_affine (nz nx : ℕ) (A B : ℕ → ℕ → ℝ) (Z : ℕ → ℝ) (ref : ℝ) (b : ℕ → ℝ) :
    toV nx (newRowFried nz nx A B Z ref b)
      = toM nx nz A *ᵥ (toV nz Z - fun _ => ref) + toM nx nx B *ᵥ toV nx b + fun _ => ref := by
  have h : (toV nz Z - fun _ => ref) = toV nz (fun l => Z l - ref) := by ext i; simp [toV]
  rw [h, ← matVec_eq_mulVec, ← matVec_eq_mulVec]
  rfl

/-! ## 4. The conditional law (any sizes, any real matrices meeting the kernel contracts) -/

/-- **A_eq.**  Cholesky-solve contract `Σzz · inv = I` ⇒ the code's `A = Σxz · inv` satisfies `A Σzz = Σxz`. -/
theorem A_eq {nz nx : ℕ} (zz inv : Matrix (Fin nz) (Fin nz) ℝ) (xz : Matrix (Fin nx) (Fin nz) ℝ)
    (hinv : zz * inv = 1) : (xz * inv) * zz = xz := by
  rw [Matrix.mul_assoc, mul_eq_one_comm.mp hinv, Matrix.mul_one]

/-- positive semidefinite real matrices with equal squares are equal (uniqueness of the PSD square root) -/
theorem psd_sq_inj {n : ℕ} {M P : Matrix (Fin n) (Fin n) ℝ} (hM : M.PosSemidef) (hP : P.PosSemidef)
    (h : M * M = P * P) : M = P := by
  have h1 := CFC.sqrt_unique (a := M * M) (b := M) rfl hM.nonneg
  have h2 := CFC.sqrt_unique (a := M * M) (b := P) h.symm hP.nonneg
  rw [← h1, ← h2]

/-- **B_eq.**  SVD contract `M = U diag(w) Vt`, `UᵀU = I`, `Vt Vtᵀ = I`, `w ≥ 0` for a symmetric PSD `M`
⇒ the code's `B = U · diag(√w)` satisfies `B Bᵀ = M`.  (The SVD of a symmetric PSD matrix need not have `Vt = Uᵀ`
when singular values repeat or vanish; the argument goes through `M² = U diag(w)² Uᵀ = (U diag(w) Uᵀ)²`.) -/
theorem B_eq {n : ℕ} (M U Vt : Matrix (Fin n) (Fin n) ℝ) (w : Fin n → ℝ) (hM : M.PosSemidef)
    (hsvd : M = U * diagonal w * Vt) (hU : Uᵀ * U = 1) (hV : Vt * Vtᵀ = 1) (hw : ∀ i, 0 ≤ w i) :
    (U * diagonal fun i => Real.sqrt (w i)) * (U * diagonal fun i => Real.sqrt (w i))ᵀ = M := by
  have hMt : Mᵀ = M := by
    have := hM.isHermitian
    rwa [IsHermitian, conjTranspose_eq_transpose_of_trivial] at this
  have hD : (diagonal w).PosSemidef := PosSemidef.diagonal (fun i => hw i)
  have hP : (U * diagonal w * Uᵀ).PosSemidef := by
    have := hD.mul_mul_conjTranspose_same U
    rwa [conjTranspose_eq_transpose_of_trivial] at this
  have hMM : M * M = U * (diagonal w * diagonal w) * Uᵀ := by
    have h1 : M * M = M * Mᵀ := by rw [hMt]
    rw [h1, hsvd]
    simp only [transpose_mul, diagonal_transpose, Matrix.mul_assoc]
    rw [← Matrix.mul_assoc Vt, hV, Matrix.one_mul]
  have hPP : (U * diagonal w * Uᵀ) * (U * diagonal w * Uᵀ) = U * (diagonal w * diagonal w) * Uᵀ := by
    simp only [Matrix.mul_assoc]
    rw [← Matrix.mul_assoc Uᵀ U, hU, Matrix.one_mul]
  have hMP : M = U * diagonal w * Uᵀ := psd_sq_inj hM hP (hMM.trans hPP.symm)
  have hS : (diagonal fun i => Real.sqrt (w i)) * (diagonal fun i => Real.sqrt (w i)) = diagonal w := by
    rw [diagonal_mul_diagonal]
    congr 1; funext i
    exact Real.mul_self_sqrt (hw i)
  rw [hMP, transpose_mul, diagonal_transpose]
  simp only [Matrix.mul_assoc]
  rw [← Matrix.mul_assoc (diagonal fun i => Real.sqrt (w i)), hS]

/-- the Schur complement `Σxx − Σxz Σzz⁻¹ Σzx` of a PSD covariance with positive definite `Σzz` is PSD
(the hypothesis `hM` of `B_eq` follows from H2 and "construction succeeds") -/
theorem schur_posSemidef {nz nx : ℕ} (zz : Matrix (Fin nz) (Fin nz) ℝ) (zx : Matrix (Fin nz) (Fin nx) ℝ)
    (xx : Matrix (Fin nx) (Fin nx) ℝ) (hzz : zz.PosDef) (hS : (fromBlocks zz zx zxᵀ xx).PosSemidef) :
    (xx - zxᵀ * zz⁻¹ * zx).PosSemidef := by
  have : Invertible zz := hzz.isUnit.invertible
  have := (PosDef.fromBlocks₁₁ zx xx hzz).mp (by rwa [conjTranspose_eq_transpose_of_trivial])
  rwa [conjTranspose_eq_transpose_of_trivial] at this

/-- **cond_law.**  `A Σzz = Σxz` and `B Bᵀ = Σxx − A Σzx` (Σ symmetric) ⇒ `A Σzz Aᵀ + B Bᵀ = Σxx`. -/
theorem cond_law {nz nx : ℕ} (zz : Matrix (Fin nz) (Fin nz) ℝ) (xz A : Matrix (Fin nx) (Fin nz) ℝ)
    (xx B : Matrix (Fin nx) (Fin nx) ℝ) (hzz : zzᵀ = zz) (hA : A * zz = xz) (hB : B * Bᵀ = xx - A * xzᵀ) :
    A * zz * Aᵀ + B * Bᵀ = xx := by
  have h : A * xzᵀ = A * zz * Aᵀ := by
    rw [← hA, transpose_mul, hzz, Matrix.mul_assoc]
  rw [hB, h]
  abel

/-- **the conditional law, explicitly**: under the Cholesky-solve contract the code's `A` is the conditional-mean operator
`Σxz Σzz⁻¹`, and `B Bᵀ` is the conditional covariance (Schur complement) `Σxx − Σxz Σzz⁻¹ Σzx` -/
theorem conditional_mean_cov {nz nx : ℕ} (zz inv : Matrix (Fin nz) (Fin nz) ℝ) (xz : Matrix (Fin nx) (Fin nz) ℝ)
    (xx B : Matrix (Fin nx) (Fin nx) ℝ) (hinv : zz * inv = 1) (hB : B * Bᵀ = xx - (xz * inv) * xzᵀ) :
    xz * inv = xz * zz⁻¹ ∧ B * Bᵀ = xx - xz * zz⁻¹ * xzᵀ := by
  have h : zz⁻¹ = inv := Matrix.inv_eq_right_inv hinv
  rw [h]; exact ⟨rfl, hB⟩

/-- **stationary_step.**  If the stencil values are `Z = L g` with `L Lᵀ = Σzz` (i.e. `Cov(Z) = Σzz`) and the new row
is `X = A Z + B b`, then `[X; Z] = T [g; b]` with `T = [[A L, B], [L, 0]]`, and `T Tᵀ` — the joint covariance of new
row and stencil — is exactly the model covariance `[[Σxx, Σxz], [Σzx, Σzz]]`.
SCOPE: one step, and only (new row, stencil): pixels of the exposed screen that the stencil does not read (rows ≥ `n_columns` of
the von Kármán screen, everything off the sparse Fried stencil) do not occur in this statement; their joint law with the new row
is NOT in general the model's (finite-stencil method; proved for the smallest case in C05 `exposed_model_cov_not_fixed`, measured
per run by the C05 oracle).  `hL` (the stencil currently HAS the model covariance) is a hypothesis. -/
theorem stationary_step {nz nx k : ℕ} (zz : Matrix (Fin nz) (Fin nz) ℝ) (xz A : Matrix (Fin nx) (Fin nz) ℝ)
    (xx B : Matrix (Fin nx) (Fin nx) ℝ) (L : Matrix (Fin nz) (Fin k) ℝ)
    (hL : L * Lᵀ = zz) (hA : A * zz = xz) (hlaw : A * zz * Aᵀ + B * Bᵀ = xx) :
    (fromBlocks (A * L) B L 0) * (fromBlocks (A * L) B L (0 : Matrix (Fin nz) (Fin nx) ℝ))ᵀ
      = fromBlocks xx xz xzᵀ zz := by
  have hzz : zzᵀ = zz := by rw [← hL, transpose_mul, transpose_transpose]
  rw [fromBlocks_transpose, fromBlocks_multiply]
  simp only [transpose_mul, transpose_zero, Matrix.mul_zero, Matrix.zero_mul, add_zero]
  have e1 : A * L * (Lᵀ * Aᵀ) = A * zz * Aᵀ := by rw [← hL]; simp only [Matrix.mul_assoc]
  have e2 : A * L * Lᵀ = xz := by rw [Matrix.mul_assoc, hL, hA]
  have e3 : L * (Lᵀ * Aᵀ) = xzᵀ := by rw [← Matrix.mul_assoc, hL, ← hA, transpose_mul, hzz]
  rw [e1, e2, e3, hlaw, hL]

/-! ## 5. End to end for the model of the code (any stencil `pos`, sizes, pixel scale, covariance function) -/

/-- **model_identities.**  For the arrays the model of `make_covmats / makeAMatrix / makeBMatrix` builds from ANY point list
`pos` (first `nz` stencil points, then `nx` new-row points), any pixel scale and any covariance function of the separation:
if Σzz is positive definite ("construction succeeds"), Σ is positive semidefinite (H2) and the external kernels meet their
contracts (`inv`: `Σzz·inv = I`; `u, w, Vt`: SVD of the `BBt` the code hands to `numpy.linalg.svd`), then
`A Σzz = Σxz` and `A Σzz Aᵀ + B Bᵀ = Σxx`. -/
theorem model_identities (nz nx : ℕ) (cov r32 : ℝ → ℝ) (px : ℝ) (pos : ℕ → Int × Int)
    (inv u : ℕ → ℕ → ℝ) (w : ℕ → ℝ) (Vt : Matrix (Fin nx) (Fin nx) ℝ)
    (hzz : (toM nz nz (blockZZ (covMat cov r32 px pos) nz)).PosDef)
    (hH2 : (fromBlocks (toM nz nz (blockZZ (covMat cov r32 px pos) nz)) (toM nz nx (blockZX (covMat cov r32 px pos) nz))
              (toM nx nz (blockXZ (covMat cov r32 px pos) nz)) (toM nx nx (blockXX (covMat cov r32 px pos) nz))).PosSemidef)
    (hinv : toM nz nz (blockZZ (covMat cov r32 px pos) nz) * toM nz nz inv = 1)
    (hsvd : toM nx nx (bbt nz (blockXX (covMat cov r32 px pos) nz) (aMat nz (blockXZ (covMat cov r32 px pos) nz) inv)
              (blockZX (covMat cov r32 px pos) nz)) = toM nx nx u * diagonal (fun k : Fin nx => w k) * Vt)
    (hU : (toM nx nx u)ᵀ * toM nx nx u = 1) (hV : Vt * Vtᵀ = 1) (hw : ∀ k : Fin nx, 0 ≤ w k) :
    toM nx nz (aMat nz (blockXZ (covMat cov r32 px pos) nz) inv) * toM nz nz (blockZZ (covMat cov r32 px pos) nz)
        = toM nx nz (blockXZ (covMat cov r32 px pos) nz) ∧
    toM nx nz (aMat nz (blockXZ (covMat cov r32 px pos) nz) inv) * toM nz nz (blockZZ (covMat cov r32 px pos) nz)
        * (toM nx nz (aMat nz (blockXZ (covMat cov r32 px pos) nz) inv))ᵀ
      + toM nx nx (bMat nx u w) * (toM nx nx (bMat nx u w))ᵀ = toM nx nx (blockXX (covMat cov r32 px pos) nz) := by
  set S := covMat cov r32 px pos with hSdef
  have hxz : toM nx nz (blockXZ S nz) = (toM nz nx (blockZX S nz))ᵀ := by
    ext i j; simp only [toM, blockXZ, blockZX, Matrix.of_apply, transpose_apply, hSdef]; exact covMat_symm ..
  have hzzT : (toM nz nz (blockZZ S nz))ᵀ = toM nz nz (blockZZ S nz) := by
    ext i j; simp only [toM, blockZZ, Matrix.of_apply, transpose_apply, hSdef]; exact covMat_symm ..
  have hA := A_eq _ _ (toM nx nz (blockXZ S nz)) hinv
  rw [← aMat_eq_mul] at hA
  refine ⟨hA, ?_⟩
  have hinv' : (toM nz nz (blockZZ S nz))⁻¹ = toM nz nz inv := Matrix.inv_eq_right_inv hinv
  have hM : (toM nx nx (blockXX S nz) - toM nx nz (aMat nz (blockXZ S nz) inv) * toM nz nx (blockZX S nz)).PosSemidef := by
    rw [hxz] at hH2
    have := schur_posSemidef _ _ _ hzz hH2
    rwa [hinv', ← hxz, ← aMat_eq_mul] at this
  rw [bbt_eq_sub] at hsvd
  have hB := B_eq _ _ Vt (fun k : Fin nx => w k) hM hsvd hU hV hw
  rw [← bMat_eq_mul] at hB
  refine cond_law _ _ _ _ _ hzzT hA ?_
  rw [hB, hxz, transpose_transpose]

/-- the same for the covariance function of the library, `turb.phase_covariance(·, r0, L0)` as regenerated by T1 -/
theorem model_identities_phase_covariance (nz nx : ℕ) (r0 L0 px : ℝ) (pos : ℕ → Int × Int)
    (inv u : ℕ → ℕ → ℝ) (w : ℕ → ℝ) (Vt : Matrix (Fin nx) (Fin nx) ℝ) :
    let S := covMat (fun r => Gen.phase_covariance r r0 L0) id px pos
    (toM nz nz (blockZZ S nz)).PosDef →
    (fromBlocks (toM nz nz (blockZZ S nz)) (toM nz nx (blockZX S nz)) (toM nx nz (blockXZ S nz))
      (toM nx nx (blockXX S nz))).PosSemidef →
    toM nz nz (blockZZ S nz) * toM nz nz inv = 1 →
    toM nx nx (bbt nz (blockXX S nz) (aMat nz (blockXZ S nz) inv) (blockZX S nz))
      = toM nx nx u * diagonal (fun k : Fin nx => w k) * Vt →
    (toM nx nx u)ᵀ * toM nx nx u = 1 → Vt * Vtᵀ = 1 → (∀ k : Fin nx, 0 ≤ w k) →
    toM nx nz (aMat nz (blockXZ S nz) inv) * toM nz nz (blockZZ S nz) = toM nx nz (blockXZ S nz) ∧
    toM nx nz (aMat nz (blockXZ S nz) inv) * toM nz nz (blockZZ S nz) * (toM nx nz (aMat nz (blockXZ S nz) inv))ᵀ
      + toM nx nx (bMat nx u w) * (toM nx nx (bMat nx u w))ᵀ = toM nx nx (blockXX S nz) := by
  intro S h1 h2 h3 h4 h5 h6 h7
  exact model_identities nz nx _ id px pos inv u w Vt h1 h2 h3 h4 h5 h6 h7

open scoped RealInnerProductSpace in
/-- **H2 in its classical form suffices.**  If the covariance entries are inner products `S i j = ⟪φ i, φ j⟫` of some
feature map into a real inner-product space (i.e. the covariance function is a positive-definite kernel on the pixel
positions — for von Kármán: its spectrum is non-negative), the block matrix hypothesis `hH2` of `model_identities` holds. -/
theorem H2_of_kernel (nz nx : ℕ) (S : ℕ → ℕ → ℝ) {E : Type} [NormedAddCommGroup E] [InnerProductSpace ℝ E]
    (φ : ℕ → E) (h : ∀ i j, S i j = ⟪φ i, φ j⟫) :
    (fromBlocks (toM nz nz (blockZZ S nz)) (toM nz nx (blockZX S nz)) (toM nx nz (blockXZ S nz))
      (toM nx nx (blockXX S nz))).PosSemidef := by
  have hg := Matrix.posSemidef_gram ℝ (Sum.elim (fun i : Fin nz => φ i) (fun j : Fin nx => φ (nz + j)))
  have he : fromBlocks (toM nz nz (blockZZ S nz)) (toM nz nx (blockZX S nz)) (toM nx nz (blockXZ S nz))
      (toM nx nx (blockXX S nz)) = gram ℝ (Sum.elim (fun i : Fin nz => φ i) (fun j : Fin nx => φ (nz + j))) := by
    ext i j
    rcases i with i | i <;> rcases j with j | j <;> simp [toM, blockZZ, blockZX, blockXZ, blockXX, gram_apply, h]
  rw [he]; exact hg

/-! ## 5b. Re-tuning: the matrices rebuilt after `r0 → c·r0` (all sizes, any stencil)

`make_covmats(); makeAMatrix(); makeBMatrix()` called again on an existing screen after `r0` was replaced by `c·r0`:
every covariance entry is multiplied by `s = c^(-5/3)`, hence `A` is unchanged and `B·Bᵀ` is multiplied by `s`. -/

/-- **retune_A_invariant.**  If every covariance entry is multiplied by `s ≠ 0`: `s⁻¹ • inv` is the (two-sided) inverse of the scaled
`Σzz`, and the `A` built from the scaled blocks with it is the old `A`. -/
theorem retune_A_invariant {nz nx : ℕ} (s : ℝ) (hs : s ≠ 0) (zz inv : Matrix (Fin nz) (Fin nz) ℝ)
    (xz : Matrix (Fin nx) (Fin nz) ℝ) (hinv : zz * inv = 1) (hinv' : inv * zz = 1) :
    (s • xz) * (s⁻¹ • inv) = xz * inv ∧ (s • zz) * (s⁻¹ • inv) = 1 ∧ (s⁻¹ • inv) * (s • zz) = 1 := by
  refine ⟨?_, ?_, ?_⟩
  · rw [Matrix.smul_mul, Matrix.mul_smul, smul_smul, mul_inv_cancel₀ hs, one_smul]
  · rw [Matrix.smul_mul, Matrix.mul_smul, smul_smul, mul_inv_cancel₀ hs, one_smul, hinv]
  · rw [Matrix.smul_mul, Matrix.mul_smul, smul_smul, inv_mul_cancel₀ hs, one_smul, hinv']

/-- … and the inverse is unique: WHATEVER matrix `inv'` the Cholesky solve returns for the scaled `Σzz` under its contract
`(s • Σzz) · inv' = I`, it is `s⁻¹ • inv`, and the rebuilt `A' = (s • Σxz) · inv'` equals the old `A = Σxz · inv`. -/
theorem retune_A_of_contract {nz nx : ℕ} (s : ℝ) (hs : s ≠ 0) (zz inv inv' : Matrix (Fin nz) (Fin nz) ℝ)
    (xz : Matrix (Fin nx) (Fin nz) ℝ) (hinv : zz * inv = 1) (hinv' : (s • zz) * inv' = 1) :
    inv' = s⁻¹ • inv ∧ (s • xz) * inv' = xz * inv := by
  have h := retune_A_invariant s hs zz inv xz hinv (mul_eq_one_comm.mp hinv)
  have e : inv' = s⁻¹ • inv := by
    rw [← Matrix.inv_eq_right_inv hinv', ← Matrix.inv_eq_right_inv h.2.1]
  exact ⟨e, by rw [e]; exact h.1⟩

/-- **retune_BBt_scales.**  With `A` unchanged, the matrix handed to the SVD (`BBt = Σxx − A Σzx`, whose square-root factor is `B`)
built from the scaled blocks is `s` times the old one. -/
theorem retune_BBt_scales {nz nx : ℕ} (s : ℝ) (xx : Matrix (Fin nx) (Fin nx) ℝ) (A : Matrix (Fin nx) (Fin nz) ℝ)
    (zx : Matrix (Fin nz) (Fin nx) ℝ) : (s • xx) - A * (s • zx) = s • (xx - A * zx) := by
  rw [Matrix.mul_smul, smul_sub]

/-- an array whose entries are all multiplied by `s`, as a matrix -/
theorem toM_smul (r c : ℕ) (f f' : ℕ → ℕ → ℝ) (s : ℝ) (h : ∀ i j, f' i j = s * f i j) : toM r c f' = s • toM r c f := by
  ext i j
  simp [toM, h]

/-- **retune_model.**  For the arrays the model of `make_covmats / makeAMatrix` builds (any stencil `pos`, sizes, pixel scale,
rounding hook): if the covariance function is replaced by `s` times itself (`s ≠ 0`) and both Cholesky solves meet their contract,
the rebuilt `A_mat` is the old one and the rebuilt `BBt` is `s` times the old one; consequently, whenever `B`, `B'` are square-root
factors of the two (`B Bᵀ = BBt`, the conclusion of `B_eq`), `B' B'ᵀ = s • B Bᵀ`. -/
theorem retune_model (nz nx : ℕ) (cov cov' r32 : ℝ → ℝ) (s : ℝ) (hs : s ≠ 0) (h : ∀ r, cov' r = s * cov r)
    (px : ℝ) (pos : ℕ → Int × Int) (inv inv' : ℕ → ℕ → ℝ)
    (hinv : toM nz nz (blockZZ (covMat cov r32 px pos) nz) * toM nz nz inv = 1)
    (hinv' : toM nz nz (blockZZ (covMat cov' r32 px pos) nz) * toM nz nz inv' = 1) :
    toM nx nz (aMat nz (blockXZ (covMat cov' r32 px pos) nz) inv')
        = toM nx nz (aMat nz (blockXZ (covMat cov r32 px pos) nz) inv) ∧
    toM nx nx (bbt nz (blockXX (covMat cov' r32 px pos) nz) (aMat nz (blockXZ (covMat cov' r32 px pos) nz) inv')
          (blockZX (covMat cov' r32 px pos) nz))
        = s • toM nx nx (bbt nz (blockXX (covMat cov r32 px pos) nz) (aMat nz (blockXZ (covMat cov r32 px pos) nz) inv)
          (blockZX (covMat cov r32 px pos) nz)) ∧
    ∀ B B' : Matrix (Fin nx) (Fin nx) ℝ,
      B * Bᵀ = toM nx nx (bbt nz (blockXX (covMat cov r32 px pos) nz) (aMat nz (blockXZ (covMat cov r32 px pos) nz) inv)
          (blockZX (covMat cov r32 px pos) nz)) →
      B' * B'ᵀ = toM nx nx (bbt nz (blockXX (covMat cov' r32 px pos) nz) (aMat nz (blockXZ (covMat cov' r32 px pos) nz) inv')
          (blockZX (covMat cov' r32 px pos) nz)) →
      B' * B'ᵀ = s • (B * Bᵀ) := by
  have ezz : toM nz nz (blockZZ (covMat cov' r32 px pos) nz) = s • toM nz nz (blockZZ (covMat cov r32 px pos) nz) :=
    toM_smul _ _ _ _ s (fun _ _ => h _)
  have exz : toM nx nz (blockXZ (covMat cov' r32 px pos) nz) = s • toM nx nz (blockXZ (covMat cov r32 px pos) nz) :=
    toM_smul _ _ _ _ s (fun _ _ => h _)
  have ezx : toM nz nx (blockZX (covMat cov' r32 px pos) nz) = s • toM nz nx (blockZX (covMat cov r32 px pos) nz) :=
    toM_smul _ _ _ _ s (fun _ _ => h _)
  have exx : toM nx nx (blockXX (covMat cov' r32 px pos) nz) = s • toM nx nx (blockXX (covMat cov r32 px pos) nz) :=
    toM_smul _ _ _ _ s (fun _ _ => h _)
  rw [ezz] at hinv'
  have hA : toM nx nz (aMat nz (blockXZ (covMat cov' r32 px pos) nz) inv')
      = toM nx nz (aMat nz (blockXZ (covMat cov r32 px pos) nz) inv) := by
    rw [aMat_eq_mul, aMat_eq_mul, exz]
    exact (retune_A_of_contract s hs _ _ _ _ hinv hinv').2
  have hQ : toM nx nx (bbt nz (blockXX (covMat cov' r32 px pos) nz) (aMat nz (blockXZ (covMat cov' r32 px pos) nz) inv')
        (blockZX (covMat cov' r32 px pos) nz))
      = s • toM nx nx (bbt nz (blockXX (covMat cov r32 px pos) nz) (aMat nz (blockXZ (covMat cov r32 px pos) nz) inv)
        (blockZX (covMat cov r32 px pos) nz)) := by
    rw [bbt_eq_sub, bbt_eq_sub, hA, exx, ezx]
    exact retune_BBt_scales s _ _ _
  refine ⟨hA, hQ, ?_⟩
  intro B B' hB hB'
  rw [hB', hQ, hB]

/-- `r0 → c·r0` multiplies the library's covariance function (`turb.phase_covariance`, regenerated by T1) by `c^(-5/3)` at every
separation, for every `kv` (the same statement as `Props/C08.r0_scaling_cov`, proved here from the regenerated definition so that the
check of C04 depends on no other property's file) -/
theorem phase_covariance_r0_scaling (c r r0 L0 : ℝ) (hc : 0 < c) (hr0 : 0 < r0) (hL : 0 < L0) :
    Gen.phase_covariance r (c * r0) L0 = c ^ ((-5:ℝ)/3) * Gen.phase_covariance r r0 L0 := by
  have ha : (L0 / (c * r0)) ^ ((5:ℝ)/3) = c ^ ((-5:ℝ)/3) * (L0 / r0) ^ ((5:ℝ)/3) := by
    rw [show L0 / (c * r0) = c⁻¹ * (L0 / r0) by field_simp, Real.mul_rpow (by positivity) (by positivity),
      Real.inv_rpow hc.le, ← Real.rpow_neg hc.le]
    norm_num
  real_unfold [Gen.phase_covariance]
  rw [ha]
  ring

/-- **retune_r0_model.**  The library's model at `c·r0` (c, r0, L0 > 0): every covariance entry is `c^(-5/3)` times the entry at `r0`;
hence, under the Cholesky-solve contract for both builds, the rebuilt `A_mat` is unchanged, the rebuilt `BBt` is `c^(-5/3)` times the
old one, and `B' B'ᵀ = c^(-5/3) • B Bᵀ` for any square-root factors of the two (what `oracle_retune` measures on the real code). -/
theorem retune_r0_model (nz nx : ℕ) (c r0 L0 px : ℝ) (hc : 0 < c) (hr0 : 0 < r0) (hL : 0 < L0) (pos : ℕ → Int × Int)
    (inv inv' : ℕ → ℕ → ℝ) :
    let S := covMat (fun r => Gen.phase_covariance r r0 L0) id px pos
    let S' := covMat (fun r => Gen.phase_covariance r (c * r0) L0) id px pos
    toM nz nz (blockZZ S nz) * toM nz nz inv = 1 →
    toM nz nz (blockZZ S' nz) * toM nz nz inv' = 1 →
    (∀ i j, S' i j = c ^ ((-5:ℝ)/3) * S i j) ∧
    toM nx nz (aMat nz (blockXZ S' nz) inv') = toM nx nz (aMat nz (blockXZ S nz) inv) ∧
    toM nx nx (bbt nz (blockXX S' nz) (aMat nz (blockXZ S' nz) inv') (blockZX S' nz))
      = c ^ ((-5:ℝ)/3) • toM nx nx (bbt nz (blockXX S nz) (aMat nz (blockXZ S nz) inv) (blockZX S nz)) ∧
    ∀ B B' : Matrix (Fin nx) (Fin nx) ℝ,
      B * Bᵀ = toM nx nx (bbt nz (blockXX S nz) (aMat nz (blockXZ S nz) inv) (blockZX S nz)) →
      B' * B'ᵀ = toM nx nx (bbt nz (blockXX S' nz) (aMat nz (blockXZ S' nz) inv') (blockZX S' nz)) →
      B' * B'ᵀ = c ^ ((-5:ℝ)/3) • (B * Bᵀ) := by
  intro S S' hinv hinv'
  have hs : c ^ ((-5:ℝ)/3) ≠ 0 := (Real.rpow_pos_of_pos hc _).ne'
  have h : ∀ r, (fun r => Gen.phase_covariance r (c * r0) L0) r = c ^ ((-5:ℝ)/3) * (fun r => Gen.phase_covariance r r0 L0) r :=
    fun r => phase_covariance_r0_scaling c r r0 L0 hc hr0 hL
  refine ⟨fun i j => ?_, retune_model nz nx _ _ id _ hs h px pos inv inv' hinv hinv'⟩
  exact h _

/-! ## 6. Fried variant: a constant added to the screen is added to the new row -/

/-- **fried_shift.**  For every `A`, `B`, stencil content `Z`, reference value, innovation vector `b` and constant `c`. -/
theorem fried_shift (nz nx : ℕ) (A B : ℕ → ℕ → ℝ) (Z : ℕ → ℝ) (ref c : ℝ) (b : ℕ → ℝ) (i : ℕ) :
    newRowFried nz nx A B (fun l => Z l + c) (ref + c) b i = newRowFried nz nx A B Z ref b i + c := by
  unfold newRowFried
  have : (fun l => Z l + c - (ref + c)) = fun l => Z l - ref := by funext l; ring
  rw [this]; ring

/-- … read off the screen: stencil pixels at `coords`, reference pixel `(1, 1)`; `scrn + c` gives `row + c`. -/
theorem fried_shift_screen (nz nx : ℕ) (A B : ℕ → ℕ → ℝ) (coords : ℕ → ℕ × ℕ) (scrn : ℕ → ℕ → ℝ) (c : ℝ)
    (b : ℕ → ℝ) (i : ℕ) :
    newRowFriedOfScreen nz nx A B coords (fun r k => scrn r k + c) b i
      = newRowFriedOfScreen nz nx A B coords scrn b i + c := by
  unfold newRowFriedOfScreen stencilData
  exact fried_shift nz nx A B _ _ c b i

/-- the von Kármán row has no such invariance in general: it moves by `c · (row sum of A)` -/
theorem vk_shift (nz nx : ℕ) (A B : ℕ → ℕ → ℝ) (Z : ℕ → ℝ) (c : ℝ) (b : ℕ → ℝ) (i : ℕ) :
    newRow nz nx A B (fun l => Z l + c) b i = newRow nz nx A B Z b i + c * matVec nz A (fun _ => 1) i := by
  unfold newRow matVec
  simp only [sumTo_real, mul_add, Finset.sum_add_distrib, mul_one, Finset.mul_sum]
  have : ∀ l, A i l * c = c * A i l := fun l => mul_comm _ _
  simp only [this]
  ring

/-! ## 7. Non-vacuity of the hypothesis sets -/

/-- non-vacuity of `B_eq`: a rank-deficient symmetric PSD matrix whose SVD has `Vt ≠ Uᵀ` -/
example : ∃ (M U Vt : Matrix (Fin 2) (Fin 2) ℝ) (w : Fin 2 → ℝ), M.PosSemidef ∧ M = U * diagonal w * Vt ∧
    Uᵀ * U = 1 ∧ Vt * Vtᵀ = 1 ∧ (∀ i, 0 ≤ w i) ∧ Vt ≠ Uᵀ := by
  refine ⟨diagonal ![1, 0], 1, diagonal ![1, -1], ![1, 0], PosSemidef.diagonal ?_, ?_, by simp, ?_, ?_, ?_⟩
  · intro i; fin_cases i <;> simp
  · rw [Matrix.one_mul, diagonal_mul_diagonal]; congr 1; funext i; fin_cases i <;> simp
  · rw [diagonal_transpose, diagonal_mul_diagonal, ← diagonal_one]; congr 1; funext i; fin_cases i <;> simp
  · intro i; fin_cases i <;> simp
  · intro h
    have := congrFun (congrFun h 1) 1
    simp at this
    linarith

/-- non-vacuity of `A_eq`, `schur_posSemidef`, `cond_law`, `stationary_step`: Σ = [[1,1],[1,2]] = G Gᵀ -/
example : ∃ (zz inv : Matrix (Fin 1) (Fin 1) ℝ) (zx : Matrix (Fin 1) (Fin 1) ℝ) (xx A B L : Matrix (Fin 1) (Fin 1) ℝ),
    zz.PosDef ∧ (fromBlocks zz zx zxᵀ xx).PosSemidef ∧ zz * inv = 1 ∧ zzᵀ = zz ∧ A = zxᵀ * inv ∧
    B * Bᵀ = xx - A * zxᵀᵀ ∧ L * Lᵀ = zz := by
  refine ⟨1, 1, 1, diagonal ![2], 1, 1, 1, PosDef.one, ?_, by simp, by simp, by simp, ?_, by simp⟩
  · have h := posSemidef_self_mul_conjTranspose (fromBlocks (1 : Matrix (Fin 1) (Fin 1) ℝ) (0 : Matrix (Fin 1) (Fin 1) ℝ) (1 : Matrix (Fin 1) (Fin 1) ℝ) (1 : Matrix (Fin 1) (Fin 1) ℝ))
    rw [conjTranspose_eq_transpose_of_trivial, fromBlocks_transpose, fromBlocks_multiply] at h
    convert h using 2 <;> simp
    ext i j; fin_cases i; fin_cases j; simp [diagonal]; norm_num
  · simp
    ext i j; fin_cases i; fin_cases j; simp [diagonal]; norm_num

/-- a concrete instance of the MODEL meeting every hypothesis of `model_identities`: one stencil pixel `(0,0)`, one new pixel
`(-1,0)`, pixel scale 1, covariance `5 − r`: Σ = [[5,4],[4,5]], inv = 1/5, BBt = 9/5 = 1·(9/5)·1 -/

def exPos : ℕ → Int × Int := fun l => if l = 0 then (0, 0) else (-1, 0)
def exCov : ℝ → ℝ := fun r => 5 - r

theorem exS (i j : ℕ) (hi : i < 2) (hj : j < 2) :
    covMat exCov id 1 exPos i j = if i = j then 5 else 4 := by
  unfold covMat
  rw [sep_true_separation]
  interval_cases i <;> interval_cases j <;> simp [exPos, exCov] <;> norm_num

example : ∃ (inv u : ℕ → ℕ → ℝ) (w : ℕ → ℝ) (Vt : Matrix (Fin 1) (Fin 1) ℝ),
    (toM 1 1 (blockZZ (covMat exCov id 1 exPos) 1)).PosDef ∧
    (fromBlocks (toM 1 1 (blockZZ (covMat exCov id 1 exPos) 1)) (toM 1 1 (blockZX (covMat exCov id 1 exPos) 1))
      (toM 1 1 (blockXZ (covMat exCov id 1 exPos) 1)) (toM 1 1 (blockXX (covMat exCov id 1 exPos) 1))).PosSemidef ∧
    toM 1 1 (blockZZ (covMat exCov id 1 exPos) 1) * toM 1 1 inv = 1 ∧
    toM 1 1 (bbt 1 (blockXX (covMat exCov id 1 exPos) 1) (aMat 1 (blockXZ (covMat exCov id 1 exPos) 1) inv)
      (blockZX (covMat exCov id 1 exPos) 1)) = toM 1 1 u * diagonal (fun k : Fin 1 => w k) * Vt ∧
    (toM 1 1 u)ᵀ * toM 1 1 u = 1 ∧ Vt * Vtᵀ = 1 ∧ ∀ k : Fin 1, 0 ≤ w k := by
  have hzz : toM 1 1 (blockZZ (covMat exCov id 1 exPos) 1) = diagonal fun _ => 5 := by
    ext i j; fin_cases i; fin_cases j; simp [toM, blockZZ, exS]
  have hzx : toM 1 1 (blockZX (covMat exCov id 1 exPos) 1) = diagonal fun _ => 4 := by
    ext i j; fin_cases i; fin_cases j; simp [toM, blockZX, exS]
  have hxz : toM 1 1 (blockXZ (covMat exCov id 1 exPos) 1) = diagonal fun _ => 4 := by
    ext i j; fin_cases i; fin_cases j; simp [toM, blockXZ, exS]
  have hxx : toM 1 1 (blockXX (covMat exCov id 1 exPos) 1) = diagonal fun _ => 5 := by
    ext i j; fin_cases i; fin_cases j; simp [toM, blockXX, exS]
  refine ⟨fun _ _ => 1 / 5, fun _ _ => 1, fun _ => 9 / 5, 1, ?_, ?_, ?_, ?_, ?_, by simp, ?_⟩
  · rw [hzz]; exact PosDef.diagonal (fun _ => by norm_num)
  · rw [hzz, hzx, hxz, hxx]
    have h := posSemidef_self_mul_conjTranspose (fromBlocks (diagonal fun _ : Fin 1 => (2 : ℝ)) (1 : Matrix (Fin 1) (Fin 1) ℝ)
      (1 : Matrix (Fin 1) (Fin 1) ℝ) (diagonal fun _ : Fin 1 => (2 : ℝ)))
    rw [conjTranspose_eq_transpose_of_trivial, fromBlocks_transpose, fromBlocks_multiply] at h
    convert h using 2 <;> ext i j <;> fin_cases i <;> fin_cases j <;> simp [diagonal, Matrix.mul_apply] <;> norm_num
  · rw [hzz]; ext i j; fin_cases i; fin_cases j; simp [toM, Matrix.mul_apply]
  · rw [bbt_eq_sub, aMat_eq_mul, hxx, hxz, hzx]
    ext i j; fin_cases i; fin_cases j; simp [toM, Matrix.mul_apply]; norm_num
  · ext i j; fin_cases i; fin_cases j; simp [toM, Matrix.mul_apply]
  · intro k; norm_num

/-! ## NOT PROVED (hypotheses of the theorems above; listed in the evidence under `assumptions`)

* H2 — for `cov = Gen.phase_covariance · r0 L0` (von Kármán) and any finite set of pixel positions the matrix
  `covMat cov id px pos` is positive semidefinite:
    `∀ n pos, (toM n n (covMat (fun r => Gen.phase_covariance r r0 L0) id px pos)).PosSemidef`
  (positivity of the von Kármán spectrum; Mathlib 4.33 has no Bessel functions, `Transc.kv` is unconstrained here).
  `H2_of_kernel` reduces the block hypothesis `hH2` of `model_identities` to the classical statement "the covariance is a
  positive-definite kernel" (`S i j = ⟪φ i, φ j⟫` for some feature map φ).
* `(toM nz nz (blockZZ S nz)).PosDef` — "construction succeeds" (cho_factor accepts Σzz); depends on the configuration.
* the contracts of the external kernels (`Σzz·inv = I`; `BBt = u diag(w) vt`, `uᵀu = I`, `vt vtᵀ = I`, `w ≥ 0`):
  hypotheses, checked numerically on every instance the harness runs.
* the probabilistic reading of `stationary_step`: `Cov(T·[g; b]) = T Tᵀ` for i.i.d. unit normals.
* IEEE rounding: the theorems are exact-arithmetic statements.  (`r32` is a rounding hook on the separations kept from the
  pinned tree, where `turb.phase_covariance` worked in float32; since the repair 4518b2c the code is binary64 and the hook is the
  identity in the driver as well; `covMat_symm`, `covMat_translate`, `model_identities` hold for any `r32`.)
* stationarity beyond (new row, stencil): see the scope note at `stationary_step`.
-/

end AoVerif.Props.C04
