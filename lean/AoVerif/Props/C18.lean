/-
C18 — profile compression conserves the turbulence it compresses.
Theorems about the model `AoVerif.Model.ProfileCompression` at `ℝ` (and `ℕ` for the index arithmetic).
-/
import Mathlib.Tactic.Ring
import Mathlib.Tactic.Linarith
import Mathlib.Tactic.FieldSimp
import Mathlib.Tactic.NormNum
import Mathlib.Algebra.BigOperators.Intervals
import Mathlib.Analysis.SpecialFunctions.Pow.Real
import AoVerif.Lemmas.RealScalar
import AoVerif.Model.ProfileCompression

namespace AoVerif.Props.C18
open AoVerif AoVerif.Model.ProfileCompression Finset

set_option linter.unusedSectionVars false
set_option linter.unusedVariables false
variable [Transc ℝ] [RealTransc]

/-! ## 1. equivalent layers -/

/-- `h.min()` is a lower bound of the heights (fold invariant) -/
theorem foldl_min_le (h : ℕ → ℝ) (l : List ℕ) (a : ℝ) :
    l.foldl (fun acc j => if h j ≤ acc then h j else acc) a ≤ a ∧
    ∀ j ∈ l, l.foldl (fun acc j => if h j ≤ acc then h j else acc) a ≤ h j := by
  induction l generalizing a with
  | nil => simp
  | cons x xs ih =>
    simp only [List.foldl_cons, List.mem_cons]
    obtain ⟨h1, h2⟩ := ih (if h x ≤ a then h x else a)
    refine ⟨?_, ?_⟩
    · split_ifs at h1 ⊢ with hc <;> linarith
    · rintro j (rfl | hj)
      · by_cases hc : h j ≤ a
        · simpa only [if_pos hc] using h1
        · simp only [if_neg hc] at h1 ⊢; linarith
      · exact h2 j hj

theorem minTo_le (N : ℕ) (h : ℕ → ℝ) (j : ℕ) (hj : j < N) : minTo N h ≤ h j :=
  (foldl_min_le h (List.range N) (h 0)).2 j (List.mem_range.2 hj)

theorem digitize_le (n : ℕ) (edge : ℕ → ℝ) (x : ℝ) : digitize n edge x ≤ n := by
  unfold digitize
  exact (List.countP_le_length).trans (by simp)

theorem digitize_pos (n : ℕ) (edge : ℕ → ℝ) (x : ℝ) (hn : 0 < n) (h0 : edge 0 ≤ x) : 1 ≤ digitize n edge x := by
  unfold digitize
  exact List.countP_pos_iff.2 ⟨0, List.mem_range.2 hn, by simpa using h0⟩

theorem slabSum_real (N : ℕ) (ix : ℕ → ℕ) (v : ℕ → ℝ) (i : ℕ) :
    slabSum N ix v i = ∑ j ∈ range N, if ix j = i + 1 then v j else 0 := by
  unfold slabSum; rw [sumTo_real]; simp

/-- what the `L` slab sums add up to, for ANY index function: exactly the layers whose index is in `1 … L` -/
theorem slab_total_ite (N L : ℕ) (ix : ℕ → ℕ) (v : ℕ → ℝ) :
    ∑ i ∈ range L, slabSum N ix v i = ∑ j ∈ range N, if 1 ≤ ix j ∧ ix j ≤ L then v j else 0 := by
  simp only [slabSum_real]
  rw [Finset.sum_comm]
  refine Finset.sum_congr rfl (fun j _ => ?_)
  by_cases hc : 1 ≤ ix j ∧ ix j ≤ L
  · rw [if_pos hc, Finset.sum_eq_single (ix j - 1)]
    · rw [if_pos (by omega)]
    · intro b _ hb; rw [if_neg (by omega)]
    · intro hb; exact absurd (Finset.mem_range.2 (by omega)) hb
  · rw [if_neg hc]
    refine Finset.sum_eq_zero (fun i hi => ?_)
    have := Finset.mem_range.1 hi
    rw [if_neg (by omega)]

theorem slab_total (N L : ℕ) (ix : ℕ → ℕ) (v : ℕ → ℝ) (hix : ∀ j < N, 1 ≤ ix j ∧ ix j ≤ L) :
    ∑ i ∈ range L, slabSum N ix v i = ∑ j ∈ range N, v j := by
  rw [slab_total_ite]
  exact Finset.sum_congr rfl (fun j hj => if_pos (hix j (Finset.mem_range.1 hj)))

/-- the repaired code gives every layer a slab index in `1 … L` -/
theorem elIx_range (N L : ℕ) (h : ℕ → ℝ) (hL : 0 < L) (j : ℕ) (hj : j < N) :
    1 ≤ elIx N L h j ∧ elIx N L h j ≤ L := by
  unfold elIx slabIx
  refine ⟨digitize_pos _ _ _ hL ?_, digitize_le _ _ _⟩
  have := minTo_le N h j hj
  simp only [elEdge, Nat.cast_zero, mul_zero, add_zero]
  exact this

/-- **No layer is dropped by `equivalent_layers`**: every input layer lies in exactly one of the `L` slabs -/
theorem no_layer_dropped_el (N L : ℕ) (h : ℕ → ℝ) (hL : 0 < L) (j : ℕ) (hj : j < N) :
    ∃! i, i < L ∧ elIx N L h j = i + 1 := by
  obtain ⟨h1, h2⟩ := elIx_range N L h hL j hj
  exact ⟨elIx N L h j - 1, ⟨by omega, by omega⟩, fun i hi => by omega⟩

/-- `equivalent_layers` returns exactly `L` layers -/
theorem el_length (L : ℕ) (f : ℕ → ℝ) : ((List.range L).map f).length = L := by simp

/-- non-negative strengths in, non-negative strengths out (any slab indices) -/
theorem el_nonneg (N : ℕ) (ix : ℕ → ℕ) (p : ℕ → ℝ) (hp : ∀ j < N, 0 ≤ p j) (i : ℕ) : 0 ≤ elCn2 N ix p i := by
  unfold elCn2; rw [slabSum_real]
  refine Finset.sum_nonneg (fun j hj => ?_)
  split_ifs
  · exact hp j (Finset.mem_range.1 hj)
  · exact le_rfl

/-- generic form: exactly `L` edges the first of which is `≤` every height ⇒ the total is conserved -/
theorem el_total_of_edges (N L : ℕ) (edge h p : ℕ → ℝ) (hL : 0 < L) (h0 : ∀ j < N, edge 0 ≤ h j) :
    ∑ i ∈ range L, elCn2 N (slabIx L edge h) p i = ∑ j ∈ range N, p j := by
  unfold elCn2
  exact slab_total N L _ p (fun j hj => ⟨digitize_pos _ _ _ hL (h0 j hj), digitize_le _ _ _⟩)

/-- **`equivalent_layers` conserves the total Cn2 exactly** (repaired edge construction; all `N`, all `1 ≤ L`) -/
theorem el_total (N L : ℕ) (h p : ℕ → ℝ) (hL : 0 < L) :
    ∑ i ∈ range L, elCn2 N (elIx N L h) p i = ∑ j ∈ range N, p j := by
  unfold elCn2
  exact slab_total N L _ p (elIx_range N L h hL)

/-- mechanism of the pinned-tree defect (D13), for ANY edge list: a layer whose `digitize` index falls outside `1 … L`
(e.g. `L+1` because `numpy.arange` produced an extra edge below the top layer) is lost from the total -/
theorem el_extra_edge_drops (N L n : ℕ) (edge h p : ℕ → ℝ) (hp : ∀ j < N, 0 ≤ p j)
    (j0 : ℕ) (hj0 : j0 < N) (hpos : 0 < p j0) (hout : L < slabIx n edge h j0) :
    ∑ i ∈ range L, elCn2 N (slabIx n edge h) p i < ∑ j ∈ range N, p j := by
  unfold elCn2
  rw [slab_total_ite]
  refine Finset.sum_lt_sum (fun j hj => ?_) ⟨j0, Finset.mem_range.2 hj0, ?_⟩
  · split_ifs
    · exact le_rfl
    · exact hp j (Finset.mem_range.1 hj)
  · rw [if_neg (by omega)]; exact hpos

/-- `((A/B)^(3/5))^(5/3) · B = A`: one slab of `equivalent_layers` carries its own 5/3 moment -/
theorem slab_moment (A B : ℝ) (hA : 0 ≤ A) (hB : 0 < B) :
    B * ((A / B) ^ ((3:ℝ) / 5)) ^ ((5:ℝ) / 3) = A := by
  have hq : 0 ≤ A / B := div_nonneg hA hB.le
  rw [← Real.rpow_mul hq]
  norm_num
  field_simp

/-- **5/3-moment conservation** for any per-layer quantity `x ≥ 0` (heights: isoplanatic angle; wind speeds: coherence
time), any slab indices in `1 … L`, provided every slab carries turbulence -/
theorem el_moment (N L : ℕ) (ix : ℕ → ℕ) (p x : ℕ → ℝ) (hix : ∀ j < N, 1 ≤ ix j ∧ ix j ≤ L)
    (hp : ∀ j < N, 0 ≤ p j) (hx : ∀ j < N, 0 ≤ x j) (hne : ∀ i < L, 0 < elCn2 N ix p i) :
    ∑ i ∈ range L, elCn2 N ix p i * (elEff N ix p x i) ^ ((5:ℝ) / 3) = ∑ j ∈ range N, p j * (x j) ^ ((5:ℝ) / 3) := by
  rw [← slab_total N L ix (fun j => p j * (x j) ^ ((5:ℝ) / 3)) hix]
  refine Finset.sum_congr rfl (fun i hi => ?_)
  have hB := hne i (Finset.mem_range.1 hi)
  unfold elCn2 at hB ⊢
  unfold elEff
  simp only [RealTransc.rpow_eq, Nat.cast_ofNat]
  refine slab_moment _ _ ?_ hB
  rw [slabSum_real]
  refine Finset.sum_nonneg (fun j hj => ?_)
  split_ifs
  · exact mul_nonneg (hp j (Finset.mem_range.1 hj)) (Real.rpow_nonneg (hx j (Finset.mem_range.1 hj)) _)
  · exact le_rfl

/-- **isoplanatic angle**: `Σ cn2_el · h_el^(5/3) = Σ p · h^(5/3)` for the repaired `equivalent_layers` -/
theorem el_h_moment (N L : ℕ) (h p : ℕ → ℝ) (hL : 0 < L) (hp : ∀ j < N, 0 ≤ p j) (hh : ∀ j < N, 0 ≤ h j)
    (hne : ∀ i < L, 0 < elCn2 N (elIx N L h) p i) :
    ∑ i ∈ range L, elCn2 N (elIx N L h) p i * (elEff N (elIx N L h) p h i) ^ ((5:ℝ) / 3)
      = ∑ j ∈ range N, p j * (h j) ^ ((5:ℝ) / 3) :=
  el_moment N L _ p h (elIx_range N L h hL) hp hh hne

/-- **coherence time**: `Σ cn2_el · w_el^(5/3) = Σ p · w^(5/3)` when wind speeds are given -/
theorem el_w_moment (N L : ℕ) (h p w : ℕ → ℝ) (hL : 0 < L) (hp : ∀ j < N, 0 ≤ p j) (hw : ∀ j < N, 0 ≤ w j)
    (hne : ∀ i < L, 0 < elCn2 N (elIx N L h) p i) :
    ∑ i ∈ range L, elCn2 N (elIx N L h) p i * (elEff N (elIx N L h) p w i) ^ ((5:ℝ) / 3)
      = ∑ j ∈ range N, p j * (w j) ^ ((5:ℝ) / 3) :=
  el_moment N L _ p w (elIx_range N L h hL) hp hw hne

/-! ## 2. optimal grouping: splits and groups (index arithmetic, all `N`, all split lists) -/

theorem validFrom_lt (a : ℕ) (s : List ℕ) (N : ℕ) (hv : ValidFrom a s N) : a < N := by
  induction s generalizing a with
  | nil => exact hv
  | cons x xs ih => have := ih (x + 1) hv.2; have := hv.1; omega

/-- the recursive validity predicate is "strictly increasing, inside `[a, N-2]`" -/
theorem validFrom_iff (a : ℕ) (s : List ℕ) (N : ℕ) :
    ValidFrom a s N ↔ (∀ x ∈ s, a ≤ x) ∧ s.Pairwise (· < ·) ∧ (∀ x ∈ s, x + 2 ≤ N) ∧ a < N := by
  induction s generalizing a with
  | nil => simp [ValidFrom]
  | cons x xs ih =>
    simp only [ValidFrom, ih, List.mem_cons, forall_eq_or_imp, List.pairwise_cons]
    constructor
    · rintro ⟨h1, h2, h3, h4, h5⟩
      exact ⟨⟨h1, fun y hy => by have := h2 y hy; omega⟩, ⟨fun y hy => by have := h2 y hy; omega, h3⟩,
        ⟨by omega, h4⟩, by omega⟩
    · rintro ⟨⟨h1, _⟩, ⟨h3, h4⟩, ⟨h5, h6⟩, _⟩
      exact ⟨h1, fun y hy => by have := h3 y hy; omega, h4, h6, by omega⟩

theorem valid_iff (s : List ℕ) (N : ℕ) :
    Valid s N ↔ s.Pairwise (· < ·) ∧ (∀ x ∈ s, x + 2 ≤ N) ∧ 0 < N := by
  unfold Valid; rw [validFrom_iff]; simp

theorem groupsFrom_length (a : ℕ) (s : List ℕ) (N : ℕ) : (groupsFrom a s N).length = s.length + 1 := by
  induction s generalizing a with
  | nil => rfl
  | cons x xs ih => simp [groupsFrom, ih]

theorem groupsFrom_nonempty (a : ℕ) (s : List ℕ) (N : ℕ) (hv : ValidFrom a s N) :
    ∀ ab ∈ groupsFrom a s N, ab.1 < ab.2 := by
  induction s generalizing a with
  | nil => intro ab hab; simp [groupsFrom] at hab; subst hab; exact hv
  | cons x xs ih =>
    intro ab hab
    simp only [groupsFrom, List.mem_cons] at hab
    rcases hab with rfl | hab
    · have := hv.1; show a < x + 1; omega
    · exact ih (x + 1) hv.2 ab hab

/-- laying the groups end to end gives exactly the layers `a, a+1, …, N-1`, each once, in order -/
theorem groupsFrom_cover (a : ℕ) (s : List ℕ) (N : ℕ) (hv : ValidFrom a s N) :
    (groupsFrom a s N).flatMap (fun ab => List.range' ab.1 (ab.2 - ab.1)) = List.range' a (N - a) := by
  induction s generalizing a with
  | nil => simp [groupsFrom]
  | cons x xs ih =>
    have h1 := hv.1
    have h2 := validFrom_lt _ _ _ hv.2
    simp only [groupsFrom, List.flatMap_cons, ih (x + 1) hv.2]
    have e1 : List.range' (x + 1) (N - (x + 1)) = List.range' (a + (x + 1 - a)) (N - (x + 1)) := by
      congr 1; omega
    have e2 : N - a = (x + 1 - a) + (N - (x + 1)) := by omega
    rw [e1, e2, List.range'_append_1]

/-- **`groups_partition`**: valid splits give `L = len+1` non-empty contiguous groups whose concatenation is
`0, 1, …, N-1` — every layer in exactly one group, none dropped, none repeated -/
theorem groups_partition (s : List ℕ) (N : ℕ) (hv : Valid s N) :
    (groups s N).length = s.length + 1 ∧ (∀ ab ∈ groups s N, ab.1 < ab.2) ∧
    (groups s N).flatMap (fun ab => List.range' ab.1 (ab.2 - ab.1)) = List.range N := by
  refine ⟨groupsFrom_length 0 s N, groupsFrom_nonempty 0 s N hv, ?_⟩
  unfold groups
  rw [groupsFrom_cover 0 s N hv, List.range_eq_range']
  simp

/-- **no layer dropped by the grouping**: layer `j < N` belongs to some group -/
theorem no_layer_dropped_og (s : List ℕ) (N : ℕ) (hv : Valid s N) (j : ℕ) (hj : j < N) :
    ∃ ab ∈ groups s N, ab.1 ≤ j ∧ j < ab.2 := by
  have hc := (groups_partition s N hv).2.2
  have hm : j ∈ List.range N := List.mem_range.2 hj
  rw [← hc, List.mem_flatMap] at hm
  obtain ⟨ab, hab, hjab⟩ := hm
  rw [List.mem_range'_1] at hjab
  exact ⟨ab, hab, hjab.1, by omega⟩

theorem groupSum_real (p : ℕ → ℝ) (a b : ℕ) : groupSum p a b = ∑ j ∈ Finset.Ico a b, p j := by
  unfold groupSum
  rw [sumTo_real, Finset.sum_Ico_eq_sum_range]

theorem groupsFrom_total (a : ℕ) (s : List ℕ) (N : ℕ) (p : ℕ → ℝ) (hv : ValidFrom a s N) :
    ((groupsFrom a s N).map (fun ab => groupSum p ab.1 ab.2)).sum = ∑ j ∈ Finset.Ico a N, p j := by
  induction s generalizing a with
  | nil => simp [groupsFrom, groupSum_real]
  | cons x xs ih =>
    have h1 := hv.1
    have h2 := validFrom_lt _ _ _ hv.2
    simp only [groupsFrom, List.map_cons, List.sum_cons]
    rw [ih (x + 1) hv.2, groupSum_real]
    exact Finset.sum_Ico_consecutive p (by omega) (by omega)

/-- **the strengths of the groups of ANY valid split list add up to the total Cn2** -/
theorem og_total_of_valid (s : List ℕ) (N : ℕ) (h p : ℕ → ℝ) (hv : Valid s N) :
    ((ogOut h p s N).map Prod.snd).sum = ∑ j ∈ range N, p j := by
  unfold ogOut groups
  rw [List.map_map]
  have := groupsFrom_total 0 s N p hv
  simp only [Function.comp_def]
  rw [this, Finset.range_eq_Ico]

theorem og_length (s : List ℕ) (N : ℕ) (h p : ℕ → ℝ) : (ogOut h p s N).length = s.length + 1 := by
  unfold ogOut groups; rw [List.length_map, groupsFrom_length]

theorem og_nonneg (s : List ℕ) (N : ℕ) (h p : ℕ → ℝ) (hp : ∀ j, 0 ≤ p j) :
    ∀ c ∈ (ogOut h p s N).map Prod.snd, 0 ≤ c := by
  intro c hc
  simp only [ogOut, List.map_map, List.mem_map, Function.comp_def] at hc
  obtain ⟨ab, _, rfl⟩ := hc
  rw [groupSum_real]
  exact Finset.sum_nonneg (fun j _ => hp j)

/-- the equal split in exact arithmetic is valid whenever `1 ≤ L < N` -/
theorem equal_split_valid (N L : ℕ) (hL : 0 < L) (hLN : L < N) :
    Valid (equalSplit N L) N ∧ (equalSplit N L).length = L - 1 := by
  refine ⟨?_, by simp [equalSplit]⟩
  rw [valid_iff]
  refine ⟨?_, ?_, by omega⟩
  · unfold equalSplit
    rw [List.pairwise_map]
    refine List.Pairwise.imp ?_ (List.pairwise_lt_range (n := L - 1))
    intro k k' hkk
    have h1 : (k + 1) * N / L + 1 ≤ ((k + 1) * N + L) / L := by
      rw [Nat.add_div_right _ hL]
    have h2 : ((k + 1) * N + L) / L ≤ (k' + 1) * N / L := by
      apply Nat.div_le_div_right
      have : (k + 2) * N ≤ (k' + 1) * N := Nat.mul_le_mul_right N (by omega)
      nlinarith
    omega
  · intro x hx
    simp only [equalSplit, List.mem_map, List.mem_range] at hx
    obtain ⟨k, hk, rfl⟩ := hx
    have h3 : (k + 1) * N / L < N - 1 := by
      rw [Nat.div_lt_iff_lt_mul hL]
      have h4 : (k + 1) * N ≤ (L - 1) * N := Nat.mul_le_mul_right N (by omega)
      have h5 : (L - 1) * N + N = L * N := by
        have : L - 1 + 1 = L := by omega
        calc (L - 1) * N + N = (L - 1 + 1) * N := by ring
          _ = L * N := by rw [this]
      have h6 : (N - 1) * L + L = N * L := by
        have : N - 1 + 1 = N := by omega
        calc (N - 1) * L + L = (N - 1 + 1) * L := by ring
          _ = N * L := by rw [this]
      nlinarith
    omega

/-! ## 3. the vicinity of a grouping -/

theorem insertAt_length (s : List ℕ) (i j : ℕ) : (insertAt s i j).length = s.length + 1 := by
  simp only [insertAt, List.length_append, List.length_take, List.length_cons, List.length_drop]; omega

/-- membership in `_vicinity(s, N)`: split group `i` at `j`, then remove split number `k` -/
theorem mem_vicinity (s v : List ℕ) (N : ℕ) :
    v ∈ vicinity s N ↔ ∃ i, i ≤ s.length ∧ ∃ j, vlo s i ≤ j ∧ j < vhi s N i ∧
      ∃ k, k ≤ s.length ∧ v = (insertAt s i j).eraseIdx k := by
  constructor
  · intro hv
    simp only [vicinity, preMerge, List.mem_flatMap, List.mem_map, List.mem_range, List.mem_range'_1] at hv
    obtain ⟨pre, ⟨i, hi, j, hj, rfl⟩, k, hk, rfl⟩ := hv
    rw [insertAt_length] at hk
    exact ⟨i, by omega, j, hj.1, by omega, k, by omega, rfl⟩
  · rintro ⟨i, hi, j, h1, h2, k, hk, rfl⟩
    simp only [vicinity, preMerge, List.mem_flatMap, List.mem_map, List.mem_range, List.mem_range'_1]
    exact ⟨insertAt s i j, ⟨i, by omega, j, ⟨h1, by omega⟩, rfl⟩, k, by rw [insertAt_length]; omega, rfl⟩

theorem getD_get (s : List ℕ) (i : ℕ) (h : i < s.length) : s.getD i 0 = s[i] := (List.getElem_eq_getD 0).symm

theorem pw_get_le (s : List ℕ) (hs : s.Pairwise (· < ·)) (a b : ℕ) (hab : a ≤ b) (hb : b < s.length) :
    s[a]'(by omega) ≤ s[b] := by
  rcases Nat.eq_or_lt_of_le hab with rfl | hlt
  · exact le_rfl
  · exact (List.pairwise_iff_getElem.1 hs a b (by omega) hb hlt).le

theorem insertAt_pairwise (s : List ℕ) (N i j : ℕ) (hs : s.Pairwise (· < ·)) (hi : i ≤ s.length)
    (h1 : vlo s i ≤ j) (h2 : j < vhi s N i) : (insertAt s i j).Pairwise (· < ·) := by
  have hsplit := hs
  rw [← List.take_append_drop i s, List.pairwise_append] at hsplit
  have hjdrop : ∀ b ∈ s.drop i, j < b := by
    intro b hb
    obtain ⟨t, ht, rfl⟩ := List.mem_iff_getElem.1 hb
    rw [List.length_drop] at ht
    rw [List.getElem_drop]
    have hi' : i < s.length := by omega
    have hv : vhi s N i = s[i] := by unfold vhi; rw [if_pos hi', getD_get _ _ hi']
    have := pw_get_le s hs i (i + t) (by omega) (by omega)
    omega
  have htakej : ∀ a ∈ s.take i, a < j := by
    intro a ha
    obtain ⟨t, ht, rfl⟩ := List.mem_iff_getElem.1 ha
    rw [List.length_take] at ht
    rw [List.getElem_take]
    have hi0 : i ≠ 0 := by omega
    have hi' : i - 1 < s.length := by omega
    have hv : vlo s i = s[i - 1] + 1 := by unfold vlo; rw [if_neg hi0, getD_get _ _ hi']
    have := pw_get_le s hs t (i - 1) (by omega) hi'
    omega
  unfold insertAt
  rw [List.pairwise_append]
  refine ⟨hsplit.1, ?_, ?_⟩
  · rw [List.pairwise_cons]
    exact ⟨hjdrop, hsplit.2.1⟩
  · intro a ha b hb
    rcases List.mem_cons.1 hb with rfl | hb
    · exact htakej a ha
    · exact hsplit.2.2 a ha b hb

/-- **`vicinity_preserves_valid`**: every member of the vicinity of a valid split list is a valid split list with the
same number of splits (so the local search never leaves the set of groupings into `L` non-empty contiguous groups) -/
theorem vicinity_preserves_valid (s v : List ℕ) (N : ℕ) (hv : Valid s N) (hm : v ∈ vicinity s N) :
    Valid v N ∧ v.length = s.length := by
  rw [valid_iff] at hv ⊢
  obtain ⟨hp, hb, hN⟩ := hv
  obtain ⟨i, hi, j, h1, h2, k, hk, rfl⟩ := (mem_vicinity s v N).1 hm
  have hjb : j + 2 ≤ N := by
    unfold vhi at h2
    split_ifs at h2 with hc
    · rw [getD_get _ _ hc] at h2
      have := hb s[i] (List.getElem_mem hc)
      omega
    · omega
  have hins : ∀ x ∈ insertAt s i j, x + 2 ≤ N := by
    intro x hx
    simp only [insertAt, List.mem_append, List.mem_cons] at hx
    rcases hx with hx | rfl | hx
    · exact hb x (List.mem_of_mem_take hx)
    · exact hjb
    · exact hb x (List.mem_of_mem_drop hx)
  refine ⟨⟨(insertAt_pairwise s N i j hp hi h1 h2).sublist (List.eraseIdx_sublist _ _),
    fun x hx => hins x (List.mem_of_mem_eraseIdx hx), hN⟩, ?_⟩
  rw [List.length_eraseIdx, insertAt_length, if_pos (by omega)]
  omega

/-- with fewer groups than layers some group has two layers, i.e. can be split -/
theorem exists_splittable (s : List ℕ) (N : ℕ) (hL : s.length + 1 < N) :
    ∃ i, i ≤ s.length ∧ vlo s i < vhi s N i := by
  by_contra hcon
  simp only [not_exists, not_and, not_lt] at hcon
  have key : ∀ t, (ht : t < s.length) → s[t] ≤ t := by
    intro t
    induction t with
    | zero =>
      intro ht
      have := hcon 0 (by omega)
      unfold vlo vhi at this
      rw [if_pos rfl, if_pos ht, getD_get _ _ ht] at this
      omega
    | succ t ih =>
      intro ht
      have h3 := hcon (t + 1) (by omega)
      unfold vlo vhi at h3
      rw [if_neg (Nat.succ_ne_zero t), if_pos ht, getD_get _ _ ht, Nat.add_sub_cancel,
        getD_get _ _ (by omega)] at h3
      have := ih (by omega)
      omega
  have h4 := hcon s.length le_rfl
  unfold vlo vhi at h4
  rw [if_neg (lt_irrefl _)] at h4
  by_cases h0 : s.length = 0
  · rw [if_pos h0] at h4; omega
  · rw [if_neg h0, getD_get _ _ (by omega)] at h4
    have := key (s.length - 1) (by omega)
    omega

/-- the grouping itself is a member of its own vicinity (split a group, merge it again) whenever `L < N` -/
theorem self_mem_vicinity (s : List ℕ) (N : ℕ) (hL : s.length + 1 < N) : s ∈ vicinity s N := by
  obtain ⟨i, hi, hlt⟩ := exists_splittable s N hL
  refine (mem_vicinity s s N).2 ⟨i, hi, vlo s i, le_rfl, hlt, i, hi, ?_⟩
  unfold insertAt
  rw [List.eraseIdx_append_of_length_le (by rw [List.length_take]; omega)]
  rw [List.length_take, Nat.min_eq_left hi, Nat.sub_self]
  simp

/-! ## 4. the search: for every restart sequence the result is a valid grouping no worse than the start -/

theorem argmin_fold {α : Type} (xs : List (α × ℝ)) (x : α × ℝ) :
    xs.foldl (fun best c => if c.2 < best.2 then c else best) x ∈ x :: xs ∧
    ∀ d ∈ x :: xs, (xs.foldl (fun best c => if c.2 < best.2 then c else best) x).2 ≤ d.2 := by
  induction xs generalizing x with
  | nil => simp
  | cons y ys ih =>
    simp only [List.foldl_cons]
    obtain ⟨h1, h2⟩ := ih (if y.2 < x.2 then y else x)
    have hx' : (if y.2 < x.2 then y else x).2 ≤ x.2 ∧ (if y.2 < x.2 then y else x).2 ≤ y.2 := by
      split_ifs with hc
      · exact ⟨hc.le, le_rfl⟩
      · exact ⟨le_rfl, not_lt.1 hc⟩
    have h0 := h2 _ (List.mem_cons_self)
    refine ⟨?_, ?_⟩
    · rcases List.mem_cons.1 h1 with h1 | h1
      · rw [h1]; split_ifs <;> simp
      · exact List.mem_cons_of_mem _ (List.mem_cons_of_mem _ h1)
    · intro d hd
      simp only [List.mem_cons] at hd
      rcases hd with rfl | rfl | hd
      · linarith [hx'.1]
      · linarith [hx'.2]
      · exact h2 d (List.mem_cons_of_mem _ hd)

/-- `numpy.argmin`/`min`: the selected candidate is a member and no member is cheaper -/
theorem argminFirst_spec {α : Type} (l : List (α × ℝ)) (c : α × ℝ) (h : argminFirst l = some c) :
    c ∈ l ∧ ∀ d ∈ l, c.2 ≤ d.2 := by
  cases l with
  | nil => simp [argminFirst] at h
  | cons x xs =>
    simp only [argminFirst, Option.some.injEq] at h
    subst h
    exact argmin_fold xs x

theorem argminFirst_isSome {α : Type} (l : List (α × ℝ)) (h : l ≠ []) : ∃ c, argminFirst l = some c := by
  cases l with
  | nil => exact absurd rfl h
  | cons x xs => exact ⟨_, rfl⟩

theorem optStep_spec (h p : ℕ → ℝ) (N : ℕ) (old : List ℕ) (c : List ℕ × ℝ) (hc : optStep h p N old = some c) :
    c.1 ∈ vicinity old N ∧ c.2 = G h p c.1 N ∧ ∀ v ∈ vicinity old N, c.2 ≤ G h p v N := by
  obtain ⟨hm, hmin⟩ := argminFirst_spec _ _ hc
  rw [List.mem_map] at hm
  obtain ⟨v, hv, rfl⟩ := hm
  exact ⟨hv, rfl, fun w hw => hmin (w, G h p w N) (List.mem_map.2 ⟨w, hw, rfl⟩)⟩

theorem optStep_isSome (h p : ℕ → ℝ) (N : ℕ) (old : List ℕ) (hL : old.length + 1 < N) :
    ∃ c, optStep h p N old = some c := by
  apply argminFirst_isSome
  intro hnil
  have := self_mem_vicinity old N hL
  rw [List.map_eq_nil_iff] at hnil
  rw [hnil] at this
  simp at this

/-- `_optGroupingMinimization`: from a valid start it returns a valid grouping with the same number of groups, the
returned cost is the cost of the returned grouping, and it is no worse than the start — for every `maxiter` -/
theorem optMin_spec (h p : ℕ → ℝ) (N : ℕ) (fuel : ℕ) (old : List ℕ) (c : List ℕ × ℝ)
    (hv : Valid old N) (hL : old.length + 1 < N) (hc : optMin h p N fuel old = some c) :
    Valid c.1 N ∧ c.1.length = old.length ∧ c.2 = G h p c.1 N ∧ c.2 ≤ G h p old N := by
  induction fuel generalizing old with
  | zero => simp [optMin] at hc
  | succ f ih =>
    unfold optMin at hc
    cases hs : optStep h p N old with
    | none => simp [hs] at hc
    | some c1 =>
      rw [hs] at hc
      simp only at hc
      obtain ⟨hm, hG, hmin⟩ := optStep_spec h p N old c1 hs
      obtain ⟨hv1, hl1⟩ := vicinity_preserves_valid old c1.1 N hv hm
      have hle : c1.2 ≤ G h p old N := hmin old (self_mem_vicinity old N hL)
      split_ifs at hc with hcond
      · simp only [Option.some.injEq] at hc
        subst hc
        exact ⟨hv1, hl1, hG, hle⟩
      · obtain ⟨a, b, c', d⟩ := ih c1.1 hv1 (by omega) hc
        exact ⟨a, by omega, c', by rw [← hG] at d; linarith⟩

theorem optMin_isSome (h p : ℕ → ℝ) (N : ℕ) (fuel : ℕ) (old : List ℕ)
    (hv : Valid old N) (hL : old.length + 1 < N) (hf : 0 < fuel) : ∃ c, optMin h p N fuel old = some c := by
  induction fuel generalizing old with
  | zero => omega
  | succ f ih =>
    obtain ⟨c1, hs⟩ := optStep_isSome h p N old hL
    unfold optMin
    rw [hs]
    simp only
    split_ifs with hcond
    · exact ⟨c1, rfl⟩
    · have hf0 : 0 < f := by
        rcases Nat.eq_zero_or_pos f with h0 | h0
        · exact absurd (Or.inr h0) hcond
        · exact h0
      obtain ⟨hm, _, _⟩ := optStep_spec h p N old c1 hs
      obtain ⟨hv1, hl1⟩ := vicinity_preserves_valid old c1.1 N hv hm
      exact ih c1.1 hv1 (by omega) hf0

/-- what `optimal_grouping` maintains about its incumbent `(gamma_best, G_best)` -/
def Inv (h p : ℕ → ℝ) (N : ℕ) (start : List ℕ) (b : List ℕ × ℝ) : Prop :=
  Valid b.1 N ∧ b.1.length = start.length ∧ b.2 = G h p b.1 N ∧ b.2 ≤ G h p start N

theorem ogFold_spec (h p : ℕ → ℝ) (N fuel : ℕ) (start : List ℕ) (hL : start.length + 1 < N)
    (rs : List (List ℕ)) (hrs : ∀ r ∈ rs, Valid r N ∧ r.length = start.length)
    (acc : Option (List ℕ × ℝ)) (hacc : ∀ b, acc = some b → Inv h p N start b)
    (res : List ℕ × ℝ)
    (hres : rs.foldl (ogStep h p N fuel) acc = some res) : Inv h p N start res := by
  induction rs generalizing acc with
  | nil => exact hacc res hres
  | cons r rs ih =>
    simp only [List.foldl_cons] at hres
    refine ih (fun r' hr' => hrs r' (List.mem_cons_of_mem _ hr')) _ ?_ hres
    intro b hb
    obtain ⟨hrv, hrl⟩ := hrs r List.mem_cons_self
    cases acc with
    | none => simp [ogStep] at hb
    | some b0 =>
      cases hopt : optMin h p N fuel r with
      | none => simp [ogStep, hopt] at hb
      | some c =>
        simp only [ogStep, hopt, Option.some.injEq] at hb
        subst hb
        have hb0 := hacc b0 rfl
        obtain ⟨c1, c2, c3, c4⟩ := optMin_spec h p N fuel r c hrv (by omega) hopt
        unfold better
        split_ifs with hlt
        · exact ⟨c1, by omega, c3, by have := hb0.2.2.2; linarith⟩
        · exact hb0

/-- **the search of `optimal_grouping`, for EVERY sequence of valid restarts (every state of the global random
generator):** the final `(gamma_best, G_best)` is a valid split list into the same number of groups, `G_best` is its
cost, and that cost is no worse than the cost of the starting (equal) split -/
theorem og_result (h p : ℕ → ℝ) (N fuel : ℕ) (start : List ℕ) (restarts : List (List ℕ))
    (hv : Valid start N) (hL : start.length + 1 < N)
    (hrs : ∀ r ∈ restarts, Valid r N ∧ r.length = start.length)
    (b : List ℕ × ℝ) (hb : ogBest h p N fuel start restarts = some b) :
    Valid b.1 N ∧ b.1.length = start.length ∧ b.2 = G h p b.1 N ∧ b.2 ≤ G h p start N := by
  unfold ogBest at hb
  refine ogFold_spec h p N fuel start hL restarts hrs _ ?_ b hb
  intro b0 hb0
  exact optMin_spec h p N fuel start b0 hv hL hb0

/-- **`og_cost_le_equal_split`** (all restart sequences, all `maxiter`) -/
theorem og_cost_le_equal_split (h p : ℕ → ℝ) (N fuel : ℕ) (start : List ℕ) (restarts : List (List ℕ))
    (hv : Valid start N) (hL : start.length + 1 < N)
    (hrs : ∀ r ∈ restarts, Valid r N ∧ r.length = start.length)
    (b : List ℕ × ℝ) (hb : ogBest h p N fuel start restarts = some b) :
    G h p b.1 N ≤ G h p start N := by
  obtain ⟨_, _, h3, h4⟩ := og_result h p N fuel start restarts hv hL hrs b hb
  rw [← h3]; exact h4

/-- **`og_total`**: whatever the restarts, the returned strengths are `L` in number and add up to the total Cn2 -/
theorem og_total (h p : ℕ → ℝ) (N fuel : ℕ) (start : List ℕ) (restarts : List (List ℕ))
    (hv : Valid start N) (hL : start.length + 1 < N)
    (hrs : ∀ r ∈ restarts, Valid r N ∧ r.length = start.length)
    (b : List ℕ × ℝ) (hb : ogBest h p N fuel start restarts = some b) :
    (ogOut h p b.1 N).length = start.length + 1 ∧
    ((ogOut h p b.1 N).map Prod.snd).sum = ∑ j ∈ range N, p j := by
  obtain ⟨h1, h2, _, _⟩ := og_result h p N fuel start restarts hv hL hrs b hb
  exact ⟨by rw [og_length, h2], og_total_of_valid b.1 N h p h1⟩

/-- the model's `none` (NumPy would raise on an empty vicinity) never occurs inside the property's domain -/
theorem og_defined (h p : ℕ → ℝ) (N fuel : ℕ) (start : List ℕ) (restarts : List (List ℕ))
    (hv : Valid start N) (hL : start.length + 1 < N) (hf : 0 < fuel)
    (hrs : ∀ r ∈ restarts, Valid r N ∧ r.length = start.length) :
    ∃ b, ogBest h p N fuel start restarts = some b := by
  unfold ogBest
  obtain ⟨b0, hb0⟩ := optMin_isSome h p N fuel start hv hL hf
  rw [hb0]
  clear hb0
  induction restarts generalizing b0 with
  | nil => exact ⟨b0, rfl⟩
  | cons r rs ih =>
    obtain ⟨hrv, hrl⟩ := hrs r List.mem_cons_self
    obtain ⟨c, hc⟩ := optMin_isSome h p N fuel r hrv (by omega) hf
    simp only [List.foldl_cons, ogStep, hc]
    exact ih (fun r' hr' => hrs r' (List.mem_cons_of_mem _ hr')) _

/-! ## 5. the returned heights: input heights, one per group, in increasing order -/

theorem bestRep_fold (f : ℕ → ℝ) (l : List ℕ) (x : ℕ × ℝ) (hx : x.2 = f x.1) :
    ((l.foldl (fun best g => if f g < best.2 then (g, f g) else best) x).1 = x.1 ∨
      (l.foldl (fun best g => if f g < best.2 then (g, f g) else best) x).1 ∈ l) ∧
    (l.foldl (fun best g => if f g < best.2 then (g, f g) else best) x).2
      = f (l.foldl (fun best g => if f g < best.2 then (g, f g) else best) x).1 ∧
    (l.foldl (fun best g => if f g < best.2 then (g, f g) else best) x).2 ≤ x.2 ∧
    ∀ g ∈ l, (l.foldl (fun best g => if f g < best.2 then (g, f g) else best) x).2 ≤ f g := by
  induction l generalizing x with
  | nil => simp [hx]
  | cons y ys ih =>
    simp only [List.foldl_cons]
    have hx' : (if f y < x.2 then (y, f y) else x).2 = f (if f y < x.2 then (y, f y) else x).1 := by
      split_ifs <;> simp [hx]
    have hle : (if f y < x.2 then (y, f y) else x).2 ≤ x.2 ∧ (if f y < x.2 then (y, f y) else x).2 ≤ f y := by
      split_ifs with hc
      · exact ⟨hc.le, le_rfl⟩
      · exact ⟨le_rfl, not_lt.1 hc⟩
    obtain ⟨h1, h2, h3, h4⟩ := ih _ hx'
    refine ⟨?_, h2, by linarith [hle.1], ?_⟩
    · rcases h1 with h1 | h1
      · rw [h1]
        split_ifs
        · right; simp
        · left; rfl
      · right; exact List.mem_cons_of_mem _ h1
    · intro g hg
      rcases List.mem_cons.1 hg with rfl | hg
      · linarith [hle.2]
      · exact h4 g hg

/-- `bestRep` is `numpy.argmin`/`min` of the representative cost over the group: the representative lies in the group,
its recorded cost is its cost, and no layer of the group is a cheaper representative (Eq. 7 of Saxenhuber et al.) -/
theorem bestRep_spec (h p : ℕ → ℝ) (a b : ℕ) (hab : a < b) :
    (a ≤ (bestRep h p a b).1 ∧ (bestRep h p a b).1 < b) ∧
    (bestRep h p a b).2 = repCost h p a b (bestRep h p a b).1 ∧
    ∀ g, a ≤ g → g < b → (bestRep h p a b).2 ≤ repCost h p a b g := by
  obtain ⟨h1, h2, h3, h4⟩ := bestRep_fold (repCost h p a b) (List.range' (a + 1) (b - (a + 1))) (a, repCost h p a b a) rfl
  refine ⟨?_, h2, ?_⟩
  · rcases h1 with h1 | h1
    · unfold bestRep; rw [h1]; simp only; omega
    · rw [List.mem_range'_1] at h1
      unfold bestRep; omega
  · intro g hga hgb
    rcases Nat.eq_or_lt_of_le hga with rfl | hlt
    · exact h3
    · exact h4 g (List.mem_range'_1.2 ⟨by omega, by omega⟩)

theorem reps_sorted (h p : ℕ → ℝ) (a : ℕ) (s : List ℕ) (N : ℕ) (hv : ValidFrom a s N) :
    ((groupsFrom a s N).map (fun ab => (bestRep h p ab.1 ab.2).1)).Pairwise (· < ·) ∧
    ∀ r ∈ (groupsFrom a s N).map (fun ab => (bestRep h p ab.1 ab.2).1), a ≤ r ∧ r < N := by
  induction s generalizing a with
  | nil =>
    have := (bestRep_spec h p a N hv).1
    simp only [groupsFrom, List.map_cons, List.map_nil, List.pairwise_cons, List.not_mem_nil, false_imp_iff,
      implies_true, List.Pairwise.nil, and_self, List.mem_cons, or_false, forall_eq, true_and]
    exact this
  | cons x xs ih =>
    have h1 := hv.1
    have h2 := validFrom_lt _ _ _ hv.2
    obtain ⟨ihp, ihb⟩ := ih (x + 1) hv.2
    have h0 := (bestRep_spec h p a (x + 1) (by omega)).1
    simp only [groupsFrom, List.map_cons, List.pairwise_cons, List.mem_cons, forall_eq_or_imp]
    refine ⟨⟨fun r hr => ?_, ihp⟩, ⟨h0.1, by omega⟩, fun r hr => ?_⟩
    · have := ihb r hr; omega
    · have := ihb r hr; omega

/-- every returned height is the height of a layer of its own group -/
theorem og_rep_in_group (s : List ℕ) (N : ℕ) (h p : ℕ → ℝ) (hv : Valid s N) :
    (ogOut h p s N).map Prod.fst = (groups s N).map (fun ab => h (bestRep h p ab.1 ab.2).1) ∧
    ∀ ab ∈ groups s N, ab.1 ≤ (bestRep h p ab.1 ab.2).1 ∧ (bestRep h p ab.1 ab.2).1 < ab.2 := by
  refine ⟨by simp [ogOut, Function.comp_def], fun ab hab => ?_⟩
  exact (bestRep_spec h p ab.1 ab.2 (groupsFrom_nonempty 0 s N hv ab hab)).1

/-- **`og_heights_subset_sorted`**: for increasing input heights the returned heights are `h r₀, h r₁, …` for layer
indices `r₀ < r₁ < … < N` (input heights, none repeated), hence strictly increasing -/
theorem og_heights_subset_sorted (s : List ℕ) (N : ℕ) (h p : ℕ → ℝ) (hv : Valid s N)
    (hmono : ∀ i j, i < j → j < N → h i < h j) :
    ∃ reps : List ℕ, (ogOut h p s N).map Prod.fst = reps.map h ∧ reps.length = s.length + 1 ∧
      reps.Pairwise (· < ·) ∧ (∀ r ∈ reps, r < N) ∧ ((ogOut h p s N).map Prod.fst).Pairwise (· < ·) := by
  obtain ⟨hp1, hp2⟩ := reps_sorted h p 0 s N hv
  have e : (ogOut h p s N).map Prod.fst = ((groups s N).map (fun ab => (bestRep h p ab.1 ab.2).1)).map h := by
    simp [ogOut, Function.comp_def]
  refine ⟨(groups s N).map (fun ab => (bestRep h p ab.1 ab.2).1), e, ?_, hp1, fun r hr => (hp2 r hr).2, ?_⟩
  · rw [List.length_map]; exact groupsFrom_length 0 s N
  · rw [e, List.pairwise_map]
    exact List.Pairwise.imp_of_mem (fun {a b} _ hb hab => hmono a b hab (hp2 b hb).2) hp1

/-- **`og_heights_at_increasing_indices`** (the part of `og_heights_subset_sorted` that needs NO hypothesis on the input
heights — they may be unsorted or repeated): the returned heights are `h r₀, h r₁, …` at strictly increasing layer indices
`r₀ < r₁ < … < N`, one per group -/
theorem og_heights_at_increasing_indices (s : List ℕ) (N : ℕ) (h p : ℕ → ℝ) (hv : Valid s N) :
    ∃ reps : List ℕ, (ogOut h p s N).map Prod.fst = reps.map h ∧ reps.length = s.length + 1 ∧
      reps.Pairwise (· < ·) ∧ (∀ r ∈ reps, r < N) := by
  obtain ⟨hp1, hp2⟩ := reps_sorted h p 0 s N hv
  refine ⟨(groups s N).map (fun ab => (bestRep h p ab.1 ab.2).1), by simp [ogOut, Function.comp_def], ?_, hp1,
    fun r hr => (hp2 r hr).2⟩
  rw [List.length_map]; exact groupsFrom_length 0 s N

/-- **`og_heights_descending_input`**: the ordering hypothesis `hmono` of `og_heights_subset_sorted` cannot be dropped —
strictly DEcreasing input heights come back strictly decreasing ("heights in increasing order" is a statement about
profiles given in increasing order) -/
theorem og_heights_descending_input (s : List ℕ) (N : ℕ) (h p : ℕ → ℝ) (hv : Valid s N)
    (hanti : ∀ i j, i < j → j < N → h j < h i) :
    ((ogOut h p s N).map Prod.fst).Pairwise (· > ·) := by
  obtain ⟨hp1, hp2⟩ := reps_sorted h p 0 s N hv
  have e : (ogOut h p s N).map Prod.fst = ((groups s N).map (fun ab => (bestRep h p ab.1 ab.2).1)).map h := by
    simp [ogOut, Function.comp_def]
  rw [e, List.pairwise_map]
  exact List.Pairwise.imp_of_mem (fun {a b} _ hb hab => hanti a b hab (hp2 b hb).2) hp1

/-- the cost `G` of a grouping is the cost of the layers `optimal_grouping` returns for it: the sum over the groups of
`Σ_j p_j |h_j − h_rep|` with `rep` the returned representative, which is the cheapest representative of its group -/
theorem G_eq_returned_cost (s : List ℕ) (N : ℕ) (h p : ℕ → ℝ) (hv : Valid s N) :
    G h p s N = ((groups s N).map (fun ab => repCost h p ab.1 ab.2 (bestRep h p ab.1 ab.2).1)).sum := by
  have e : G h p s N = ((groups s N).map (fun ab => (bestRep h p ab.1 ab.2).2)).sum := by
    unfold G
    rw [List.sum_eq_foldl, List.foldl_map]
    norm_num
  rw [e]
  congr 1
  refine List.map_congr_left (fun ab hab => ?_)
  exact (bestRep_spec h p ab.1 ab.2 (groupsFrom_nonempty 0 s N hv ab hab)).2.1

/-! ## 5b. zero-strength layers (empty bins of a measured profile) -/

/-- the Python-style cost loop is the `Finset` sum `Σ_{j ∈ [a,b)} p_j |h_j − h_g|` (Eq. 7 of Saxenhuber et al.) -/
theorem repCost_real (h p : ℕ → ℝ) (a b g : ℕ) :
    repCost h p a b g = ∑ j ∈ Finset.Ico a b, p j * |h j - h g| := by
  unfold repCost
  rw [sumTo_real, Finset.sum_Ico_eq_sum_range]
  simp only [RealTransc.abs_eq]

/-- **a zero-strength layer at either end of a group costs nothing**, whatever the representative `g` (in the group or not):
dropping it as the LAST layer (`[a, k+1)` versus `[a, k)`) or as the FIRST layer (`[k, b)` versus `[k+1, b)`) leaves the
representative cost unchanged.  No hypothesis on `a`, `b` is needed: for `k < a` resp. `b ≤ k` both sides are empty sums. -/
theorem repCost_zero_layer (h p : ℕ → ℝ) (a b k g : ℕ) (hp : p k = 0) :
    repCost h p a (k + 1) g = repCost h p a k g ∧ repCost h p k b g = repCost h p (k + 1) b g := by
  simp only [repCost_real]
  constructor
  · rcases le_or_gt a k with hak | hak
    · rw [Finset.sum_Ico_succ_top hak]; simp [hp]
    · rw [Finset.Ico_eq_empty_of_le (by omega), Finset.Ico_eq_empty_of_le (by omega)]
  · rcases lt_or_ge k b with hkb | hkb
    · rw [Finset.sum_eq_sum_Ico_succ_bot hkb]; simp [hp]
    · rw [Finset.Ico_eq_empty_of_le hkb, Finset.Ico_eq_empty_of_le (by omega)]

/-- the same two statements for the strength `p[group].sum()` of a group -/
theorem groupSum_zero_layer (p : ℕ → ℝ) (a b k : ℕ) (hp : p k = 0) :
    groupSum p a (k + 1) = groupSum p a k ∧ groupSum p k b = groupSum p (k + 1) b := by
  simp only [groupSum_real]
  constructor
  · rcases le_or_gt a k with hak | hak
    · rw [Finset.sum_Ico_succ_top hak]; simp [hp]
    · rw [Finset.Ico_eq_empty_of_le (by omega), Finset.Ico_eq_empty_of_le (by omega)]
  · rcases lt_or_ge k b with hkb | hkb
    · rw [Finset.sum_eq_sum_Ico_succ_bot hkb]; simp [hp]
    · rw [Finset.Ico_eq_empty_of_le hkb, Finset.Ico_eq_empty_of_le (by omega)]

/-- the cost of a group only sees the layers that carry turbulence: the sum may be restricted to `p j ≠ 0` -/
theorem repCost_support (h p : ℕ → ℝ) (a b g : ℕ) :
    repCost h p a b g = ∑ j ∈ (Finset.Ico a b).filter (fun j => p j ≠ 0), p j * |h j - h g| := by
  rw [repCost_real, Finset.sum_filter]
  refine Finset.sum_congr rfl (fun j _ => ?_)
  by_cases hj : p j = 0 <;> simp [hj]

/-- **where a zero-strength layer goes changes neither the sums nor the cost**: for adjacent groups `[a, k+1), [k+1, b)`
versus `[a, k), [k, b)` with `p k = 0` the two group strengths are pairwise equal and, for FIXED representatives `g1`, `g2`
(any layers — in particular `g1 ∈ [a, k)`, `g2 ∈ [k+1, b)`, which lie in their group under both splittings), the total cost
is the same.  (With the representatives re-optimised the two costs can differ: layer `k` itself is a candidate of the first
group in one splitting and of the second group in the other.) -/
theorem moving_zero_layer_keeps_sums_and_cost (h p : ℕ → ℝ) (a k b g1 g2 : ℕ) (hp : p k = 0) :
    groupSum p a (k + 1) = groupSum p a k ∧ groupSum p (k + 1) b = groupSum p k b ∧
    repCost h p a (k + 1) g1 + repCost h p (k + 1) b g2 = repCost h p a k g1 + repCost h p k b g2 := by
  refine ⟨(groupSum_zero_layer p a b k hp).1, (groupSum_zero_layer p a b k hp).2.symm, ?_⟩
  rw [(repCost_zero_layer h p a b k g1 hp).1, (repCost_zero_layer h p a b k g2 hp).2]

/-! ## 6. GCTM (the optimiser is external) -/

theorem minfunc_real (L : ℕ) (hc cc mom0 : ℕ → ℝ) :
    minfunc L hc cc mom0 = ∑ k ∈ range (2 * L - 1), (moments L hc cc k - mom0 k) ^ 2 := by
  unfold minfunc; rw [sumTo_real]

theorem minfunc_nonneg (L : ℕ) (hc cc mom0 : ℕ → ℝ) : 0 ≤ minfunc L hc cc mom0 := by
  rw [minfunc_real]; exact Finset.sum_nonneg (fun k _ => sq_nonneg _)

/-- the objective GCTM minimises vanishes exactly when the compressed profile has the same first `2L-1` moments -/
theorem minfunc_eq_zero_iff (L : ℕ) (hc cc mom0 : ℕ → ℝ) :
    minfunc L hc cc mom0 = 0 ↔ ∀ k < 2 * L - 1, moments L hc cc k = mom0 k := by
  rw [minfunc_real, Finset.sum_eq_zero_iff_of_nonneg (fun k _ => sq_nonneg _)]
  constructor
  · intro hz k hk
    have := hz k (Finset.mem_range.2 hk)
    nlinarith [sq_nonneg (moments L hc cc k - mom0 k)]
  · intro hz k hk
    rw [hz k (Finset.mem_range.1 hk)]; ring

/-- the zeroth moment is the total Cn2: an exact moment match conserves the total -/
theorem moments_zero (N : ℕ) (h p : ℕ → ℝ) : moments N h p 0 = ∑ j ∈ range N, p j := by
  unfold moments; rw [sumTo_real]; simp

/-- for ANY optimiser that respects the bounds `(0, None)` the un-scaled outputs are non-negative -/
theorem gctm_out_nonneg (L : ℕ) (res : ℕ → ℝ) (hs cs : ℝ) (hres : ∀ i < 2 * L, 0 ≤ res i) (hhs : 0 < hs)
    (hcs : 0 < cs) (i : ℕ) (hi : i < L) : 0 ≤ (gctmOut L res hs cs).1 i ∧ 0 ≤ (gctmOut L res hs cs).2 i := by
  unfold gctmOut
  exact ⟨mul_nonneg (hres i (by omega)) hhs.le, mul_nonneg (hres (L + i) (by omega)) hcs.le⟩

/-! ## non-vacuity of the hypotheses -/

/-- `el_moment`: one slab holding two unit layers at heights 0 and 1 satisfies every hypothesis -/
example : (∀ j < 2, 1 ≤ (fun _ : ℕ => 1) j ∧ (fun _ : ℕ => 1) j ≤ 1) ∧ (∀ j < 2, (0:ℝ) ≤ (fun _ : ℕ => (1:ℝ)) j) ∧
    (∀ j < 2, (0:ℝ) ≤ (fun j : ℕ => (j:ℝ)) j) ∧ (∀ i < 1, 0 < elCn2 2 (fun _ => 1) (fun _ => (1:ℝ)) i) := by
  refine ⟨fun _ _ => ⟨le_rfl, le_rfl⟩, fun _ _ => zero_le_one, fun j _ => Nat.cast_nonneg j, fun i hi => ?_⟩
  have : i = 0 := by omega
  subst this
  simp [elCn2, slabSum_real]

/-- `el_extra_edge_drops`: two edges 0, 1 for L = 1 slab put the layer at height 1 into slab 2 -/
example : (1:ℕ) < slabIx 2 (fun i => (i:ℝ)) (fun j => (j:ℝ)) 1 := by
  simp [slabIx, digitize, List.range_succ]

/-- `og_result` / `og_total` / `og_cost_le_equal_split`: N = 4 layers, L = 2 groups, start `[1]`, restarts `[0]`, `[2]`, `[1]` -/
example : Valid [1] 4 ∧ [1].length + 1 < 4 ∧ ∀ r ∈ [[0], [2], [1]], Valid r 4 ∧ r.length = [1].length := by decide

/-- `L = 1` (no split) is inside the domain: the single group holds every layer -/
example : Valid [] 3 ∧ groups [] 3 = [(0, 3)] ∧ equalSplit 3 1 = [] := by decide

/-- the exact equal split for N = 10, L = 4 (table) -/
example : equalSplit 10 4 = [2, 5, 7] ∧ Valid (equalSplit 10 4) 10 := by decide

/-- `vicinity` of `[1, 3]` for six layers, as enumerated by the code (table; compared with `_vicinity` by the harness) -/
example : vicinity [1, 3] 6 = [[1, 3], [0, 3], [0, 1], [2, 3], [1, 3], [1, 2], [3, 4], [1, 4], [1, 3]] := by decide

/-
NOT PROVED (kept as assumptions, see `chk.assumptions` in harness/props/c18.py)

* IEEE-754 behaviour.  All theorems are about exact real arithmetic.  In particular the pinned-tree defect D13 — that
  `numpy.arange(hmin, hmax, (hmax-hmin)/L)` has `L+1` elements for some `(hmin, hmax, L)` in binary64 — is not a theorem
  (over ℝ the quotient is exactly `L`); `el_extra_edge_drops` proves what follows once an index falls outside `1 … L`,
  and the Float driver op `elpin` reproduces the recorded input.  That the REPAIRED construction has exactly `L` edges
  with `edge 0 = min h ≤ h j` holds by construction in any arithmetic with `x + y·0 = x`.
* `numpy.linspace(0, N, L+1, dtype=int)[1:-1]` (binary64 `⌊k·(N/L)⌋`) is a valid split list for all `1 ≤ L < N`:
      theorem equal_split_float_valid : ∀ N L, 0 < L → L < N → Valid (equalFloat N L) N
  `equal_split_valid` proves it for the exact `⌊kN/L⌋`; the binary64 variant (which differs by one in ~2 % of the
  pairs) is checked exhaustively for N ≤ 200 / 600 by the harness with the model's decidable `Valid`.
* GCTM reproduces the first `2L-1` moments "to optimiser accuracy":
      theorem gctm_moments_close : ∀ k < 2*L-1, |moments L hL cL k - moments N h p k| ≤ ε · moments N h p k
  scipy's L-BFGS-B is external; `minfunc_eq_zero_iff` / `gctm_out_nonneg` are what holds for every optimiser.
* `numpy.random.choice(arange(0, N-2), L-1, replace=False)` sorted is a valid split list: the generator is external;
  every restart the harness observes is checked with `Valid`.
-/

end AoVerif.Props.C18
