/-
C14 — pupil masks and sub-aperture selection are exact geometric indicators.
Theorems about the hand-written model `Model/Pupil.lean` (tied to the source by the exact correspondence of
`harness/props/c14.py`), over an arbitrary linearly ordered field `K` (so in particular ℚ and ℝ).
-/
import Mathlib.Analysis.Real.Sqrt
import Mathlib.Analysis.SpecificLimits.Basic
import AoVerif.Lemmas.Pupil
import AoVerif.Lemmas.PupilArea

namespace AoVerif.Props.C14
open AoVerif.Model.Pupil AoVerif.Lemmas.Pupil
set_option linter.unusedSectionVars false

/-! ## `circle` -/
section Circle
variable {K : Type} [Field K] [LinearOrder K] [IsStrictOrderedRing K]

/-- where the circle centre sits, in the coordinates whose origin is the array corner and in which pixel `k`
has its centre at `k + 1/2` -/
def centrePos (middle : Bool) (n : ℕ) (c : K) : K := (if middle then (n : K) / 2 else 0) + c

/-- the code's coordinate arithmetic is `pixel centre − circle centre` -/
theorem offset_eq (middle : Bool) (n : ℕ) (c : K) (k : ℕ) :
    offset middle n c k = ((k : K) + 1 / 2) - centrePos middle n c := by
  unfold offset coord centrePos
  cases middle <;> norm_num <;> ring

theorem inside_iff (r : K) (n : ℕ) (cx cy : K) (middle : Bool) (i j : ℕ) :
    inside r n cx cy middle i j = true ↔
      ((j : K) + 1 / 2 - centrePos middle n cx) ^ 2 + ((i : K) + 1 / 2 - centrePos middle n cy) ^ 2 ≤ r ^ 2 := by
  simp only [inside, decide_eq_true_eq, offset_eq, sq]

/-- the array holds only zeros and ones -/
theorem circle_zero_or_one (r : K) (n : ℕ) (cx cy : K) (middle : Bool) (i j : ℕ) :
    circleAt r n cx cy middle i j = 0 ∨ circleAt r n cx cy middle i j = 1 := by
  unfold circleAt; split <;> simp

theorem circleAt_eq_one_iff (r : K) (n : ℕ) (cx cy : K) (middle : Bool) (i j : ℕ) :
    circleAt r n cx cy middle i j = 1 ↔ inside r n cx cy middle i j = true := by
  unfold circleAt; split <;> simp_all

theorem circleAt_eq_zero_iff (r : K) (n : ℕ) (cx cy : K) (middle : Bool) (i j : ℕ) :
    circleAt r n cx cy middle i j = 0 ↔ inside r n cx cy middle i j = false := by
  unfold circleAt; split <;> simp_all

/-- **circle is the indicator of the closed disc** (squared form, any ordered field, no hypothesis on `r`):
`C[i,j] = 1` iff the squared distance from the pixel centre `(j+½, i+½)` to the circle centre is `≤ r²`, else `0`.
Origin "middle": centre `(n/2 + cx, n/2 + cy)`; origin "corner": centre `(cx, cy)`. -/
theorem circle_is_indicator_sq (r : K) (n : ℕ) (cx cy : K) (middle : Bool) (i j : ℕ) :
    circleAt r n cx cy middle i j =
      if ((j : K) + 1 / 2 - centrePos middle n cx) ^ 2 + ((i : K) + 1 / 2 - centrePos middle n cy) ^ 2 ≤ r ^ 2
      then 1 else 0 := by
  have h := inside_iff r n cx cy middle i j
  unfold circleAt
  by_cases hi : inside r n cx cy middle i j = true
  · rw [if_pos hi, if_pos (h.mp hi)]; simp
  · rw [if_neg hi, if_neg (fun hc => hi (h.mpr hc))]; simp

/-- nested in the radius -/
theorem circle_nested (r r' : K) (hr : 0 ≤ r) (hrr : r ≤ r') (n : ℕ) (cx cy : K) (middle : Bool) (i j : ℕ)
    (h : circleAt r n cx cy middle i j = 1) : circleAt r' n cx cy middle i j = 1 := by
  rw [circleAt_eq_one_iff, inside_iff] at *
  exact h.trans (by nlinarith)

/-- pointwise monotone in the radius, as arrays of numbers -/
theorem circle_mono (r r' : K) (hr : 0 ≤ r) (hrr : r ≤ r') (n : ℕ) (cx cy : K) (middle : Bool) (i j : ℕ) :
    circleAt r n cx cy middle i j ≤ circleAt r' n cx cy middle i j := by
  rcases circle_zero_or_one r n cx cy middle i j with h | h
  · rw [h]; rcases circle_zero_or_one r' n cx cy middle i j with h' | h' <;> rw [h'] <;> norm_num
  · rw [h, circle_nested r r' hr hrr n cx cy middle i j h]

/-- the eight symmetries of the square when the circle is centred (`c = (0,0)`, origin "middle"):
transposition and the two mirror images generate all of them -/
theorem circle_symm_transpose (r : K) (n : ℕ) (i j : ℕ) :
    circleAt r n 0 0 true j i = circleAt r n 0 0 true i j := by
  rw [circle_is_indicator_sq, circle_is_indicator_sq, add_comm]

theorem circle_symm_flip_rows (r : K) (n : ℕ) (i j : ℕ) (hi : i < n) :
    circleAt r n 0 0 true (n - 1 - i) j = circleAt r n 0 0 true i j := by
  rw [circle_is_indicator_sq, circle_is_indicator_sq]
  have e : ((n - 1 - i : ℕ) : K) = (n : K) - 1 - i := by
    rw [Nat.sub_sub, Nat.cast_sub (by omega)]; push_cast; ring
  have : ((n - 1 - i : ℕ) : K) + 1 / 2 - centrePos true n 0 = -((i : K) + 1 / 2 - centrePos true n 0) := by
    rw [e]; simp only [centrePos, if_true]; ring
  rw [this, neg_sq]

theorem circle_symm_flip_cols (r : K) (n : ℕ) (i j : ℕ) (hj : j < n) :
    circleAt r n 0 0 true i (n - 1 - j) = circleAt r n 0 0 true i j := by
  rw [circle_symm_transpose r n (n - 1 - j) i, circle_symm_flip_rows r n j i hj, circle_symm_transpose]

/-- all eight images of `(i, j)` under the symmetry group of the square carry the same value -/
theorem circle_symm (r : K) (n : ℕ) (i j : ℕ) (hi : i < n) (hj : j < n) :
    let v := circleAt r n 0 0 true i j
    circleAt r n 0 0 true j i = v ∧
    circleAt r n 0 0 true (n - 1 - i) j = v ∧
    circleAt r n 0 0 true i (n - 1 - j) = v ∧
    circleAt r n 0 0 true (n - 1 - i) (n - 1 - j) = v ∧
    circleAt r n 0 0 true (n - 1 - j) i = v ∧
    circleAt r n 0 0 true j (n - 1 - i) = v ∧
    circleAt r n 0 0 true (n - 1 - j) (n - 1 - i) = v := by
  have hi' : n - 1 - i < n := by omega
  have hj' : n - 1 - j < n := by omega
  refine ⟨circle_symm_transpose r n i j, circle_symm_flip_rows r n i j hi, circle_symm_flip_cols r n i j hj, ?_, ?_, ?_, ?_⟩
  · rw [circle_symm_flip_rows r n i _ hi, circle_symm_flip_cols r n i j hj]
  · rw [circle_symm_flip_rows r n j i hj, circle_symm_transpose]
  · rw [circle_symm_flip_cols r n j i hi, circle_symm_transpose]
  · rw [circle_symm_flip_rows r n j _ hj, circle_symm_flip_cols r n j i hi, circle_symm_transpose]

/-- moving the circle centre by the integer vector `(a, b)` moves the pattern by `a` columns and `b` rows
(`i' = i + b`, `j' = j + a` as integers, so negative shifts are covered), for both origins -/
theorem circle_translate (r : K) (n : ℕ) (cx cy : K) (middle : Bool) (a b : ℤ) (i j i' j' : ℕ)
    (hi : (i' : ℤ) = i + b) (hj : (j' : ℤ) = j + a) :
    circleAt r n (cx + a) (cy + b) middle i' j' = circleAt r n cx cy middle i j := by
  have hi' : (i' : K) = i + b := by exact_mod_cast congrArg (Int.cast (R := K)) hi
  have hj' : (j' : K) = j + a := by exact_mod_cast congrArg (Int.cast (R := K)) hj
  rw [circle_is_indicator_sq, circle_is_indicator_sq, hi', hj']
  have e1 : (j : K) + a + 1 / 2 - centrePos middle n (cx + a) = (j : K) + 1 / 2 - centrePos middle n cx := by
    unfold centrePos; ring
  have e2 : (i : K) + b + 1 / 2 - centrePos middle n (cy + b) = (i : K) + 1 / 2 - centrePos middle n cy := by
    unfold centrePos; ring
  rw [e1, e2]

/-- the two origins differ exactly by the half-size shift of the centre -/
theorem circle_origin (r : K) (n : ℕ) (cx cy : K) (i j : ℕ) :
    circleAt r n cx cy true i j = circleAt r n ((n : K) / 2 + cx) ((n : K) / 2 + cy) false i j := by
  rw [circle_is_indicator_sq, circle_is_indicator_sq]; simp [centrePos]

end Circle

/-- **circle is the indicator of pixel centres within Euclidean distance `r`** (`r ≥ 0`, over ℝ, both origins) -/
theorem circle_is_indicator (r : ℝ) (hr : 0 ≤ r) (n : ℕ) (cx cy : ℝ) (middle : Bool) (i j : ℕ) :
    (circleAt r n cx cy middle i j = 1 ↔
      Real.sqrt (((j : ℝ) + 1 / 2 - centrePos middle n cx) ^ 2 + ((i : ℝ) + 1 / 2 - centrePos middle n cy) ^ 2) ≤ r) ∧
    (circleAt r n cx cy middle i j = 0 ↔
      r < Real.sqrt (((j : ℝ) + 1 / 2 - centrePos middle n cx) ^ 2 + ((i : ℝ) + 1 / 2 - centrePos middle n cy) ^ 2)) := by
  rw [Real.sqrt_le_left hr, ← not_le, Real.sqrt_le_left hr, circle_is_indicator_sq]
  constructor <;> split <;> simp_all

/-- non-vacuity: the docstring's `circle(1, 5)` has its 1 at the middle pixel and a 0 in the corner, and
`circle(1, 4, (0.5, 0.5))` (half-pixel centre, tie `distance = radius`) contains pixel `[1, 2]` -/
example : circleAt (1 : ℚ) 5 0 0 true 2 2 = 1 ∧ circleAt (1 : ℚ) 5 0 0 true 0 0 = 0
    ∧ circleAt (1 : ℚ) 4 0.5 0.5 true 1 2 = 1 := by
  simp only [circle_is_indicator_sq, centrePos]; norm_num

/-! ## `findActiveSubaps`, `computeFillFactor`
Over an ordered field with a floor (`ℚ`, `ℝ`, …); `roundHE` is the model's round-half-to-even built on `Int.floor`
(instance `AoVerif.Lemmas.Pupil.floorZField`). -/
section Subaps
variable {K : Type} [Field K] [LinearOrder K] [IsStrictOrderedRing K] [FloorRing K]

/-- **exactly the grid cells whose mean is at least the threshold**: a record is returned iff it is the record of a
grid cell `(x, y)`, `x, y < subaps`, that is non-empty and whose mean mask value is `≥ thr` -/
theorem active_iff_mean_ge (subaps n0 n1 : ℕ) (mask : ℕ → ℕ → K) (thr : K) (s : Subap K) :
    s ∈ findActive subaps n0 n1 mask thr ↔
      ∃ x y, x < subaps ∧ y < subaps ∧ subapCount K subaps n0 n1 x y ≠ 0 ∧ thr ≤ subapMean subaps n0 n1 mask x y
        ∧ s = mkSubap subaps n0 n1 mask x y := by
  rw [findActive_eq_filter]
  simp only [List.mem_map, List.mem_filter, mem_gridList, isActive, decide_eq_true_eq, Prod.exists]
  constructor
  · rintro ⟨x, y, ⟨⟨hx, hy⟩, hc, ht⟩, rfl⟩; exact ⟨x, y, hx, hy, hc, ht, rfl⟩
  · rintro ⟨x, y, hx, hy, hc, ht, rfl⟩; exact ⟨x, y, ⟨⟨hx, hy⟩, hc, ht⟩, rfl⟩

/-- the grid indices of the returned records: the active cells in row-major order, each once -/
theorem findActive_cells (subaps n0 n1 : ℕ) (mask : ℕ → ℕ → K) (thr : K) :
    (findActive subaps n0 n1 mask thr).map (fun s => (s.x, s.y)) =
      (gridList subaps).filter fun p => isActive subaps n0 n1 mask thr p.1 p.2 := by
  rw [findActive_eq_filter, List.map_map]
  exact List.map_id'' (fun p => rfl) _

/-- **the selected set shrinks monotonically with the threshold** (as a sub-sequence of the returned list) -/
theorem active_antitone (subaps n0 n1 : ℕ) (mask : ℕ → ℕ → K) (thr thr' : K) (h : thr ≤ thr') :
    (findActive subaps n0 n1 mask thr').Sublist (findActive subaps n0 n1 mask thr) := by
  rw [findActive_eq_filter, findActive_eq_filter]
  apply List.Sublist.map
  apply List.monotone_filter_right
  intro p hp
  simp only [isActive, decide_eq_true_eq] at hp ⊢
  exact ⟨hp.1, h.trans hp.2⟩

/-- when there are at most as many sub-apertures as pixels no cell is empty, and the rule is simply `mean ≥ threshold` -/
theorem active_iff_mean_ge' (subaps n0 n1 : ℕ) (mask : ℕ → ℕ → K) (thr : K) (h : 0 < subaps)
    (h0 : subaps ≤ n0) (h1 : subaps ≤ n1) (s : Subap K) :
    s ∈ findActive subaps n0 n1 mask thr ↔
      ∃ x y, x < subaps ∧ y < subaps ∧ thr ≤ subapMean subaps n0 n1 mask x y ∧ s = mkSubap subaps n0 n1 mask x y := by
  rw [active_iff_mean_ge]
  constructor
  · rintro ⟨x, y, hx, hy, -, ht, rfl⟩; exact ⟨x, y, hx, hy, ht, rfl⟩
  · rintro ⟨x, y, hx, hy, ht, rfl⟩; exact ⟨x, y, hx, hy, subapCount_pos subaps n0 n1 x y h h0 h1 hx hy, ht, rfl⟩

/-- **the mean of a cell is the mean**: the sum of the mask over the pixel rectangle `[a, min b n0) × [c, min d n1)`
(NumPy slice clipping included) divided by the number of its pixels -/
theorem cell_mean_is_mean (mask : ℕ → ℕ → K) (n0 n1 a b c d : ℕ) :
    cellMean mask n0 n1 a b c d =
      (∑ i ∈ Finset.Ico a (min b n0), ∑ j ∈ Finset.Ico c (min d n1), mask i j)
        / (((min b n0 - a) * (min d n1 - c) : ℕ) : K) := cellMean_eq mask n0 n1 a b c d

/-- the slice bounds are the nearest integers to `x · spacing` (no integer is closer), ties going to the even one -/
theorem bound_is_nearest (s : K) (hs : 0 ≤ s) (x : ℕ) (m : ℤ) :
    |(x : K) * s - ((bound s x : ℕ) : K)| ≤ |(x : K) * s - (m : K)| := by
  have hnn : 0 ≤ roundHE ((x : K) * s) := roundHE_nonneg (by positivity)
  have : ((bound s x : ℕ) : K) = ((roundHE ((x : K) * s) : ℤ) : K) := by
    unfold bound
    have := Int.toNat_of_nonneg hnn
    exact_mod_cast congrArg (Int.cast (R := K)) this
  rw [this]; exact roundHE_nearest _ m

/-- **the grid cells tile the mask axis**: bounds start at 0, end at the mask size, are monotone, so every pixel index lies
in exactly one cell -/
theorem cells_partition (n subaps : ℕ) (h : 0 < subaps) :
    bound (spacing n subaps : K) 0 = 0 ∧ bound (spacing n subaps : K) subaps = n ∧
    (∀ x x', x ≤ x' → bound (spacing n subaps : K) x ≤ bound (spacing n subaps : K) x') ∧
    (∀ p, p < n → ∃! x, x < subaps ∧ bound (spacing n subaps : K) x ≤ p ∧ p < bound (spacing n subaps : K) (x + 1)) :=
  ⟨bound_zero _, bound_last n subaps h, fun _ _ hx => bound_mono _ (spacing_nonneg n subaps) hx,
    fun p hp => cells_tile n subaps p h hp⟩

/-- every cell is non-empty when `subaps ≤ n` -/
theorem cells_nonempty (n subaps x : ℕ) (h : 0 < subaps) (hn : subaps ≤ n) :
    bound (spacing n subaps : K) x < bound (spacing n subaps : K) (x + 1) := by
  apply bound_strict
  unfold spacing
  have hpos : (0 : K) < subaps := by exact_mod_cast h
  rw [le_div_iff₀ hpos, one_mul]; exact_mod_cast hn

/-- when the sub-aperture count divides the mask size the cells are the exact `m × m` blocks -/
theorem cells_of_dvd (m subaps x : ℕ) (h : 0 < subaps) :
    bound (spacing (m * subaps) subaps : K) x = x * m := bound_of_dvd m subaps x h

/-- **fill factors agree with `computeFillFactor`** on the returned coordinates with the same spacing
(square mask; exact arithmetic, for every sub-aperture count) -/
theorem fill_agree_field (subaps n : ℕ) (mask : ℕ → ℕ → K) (thr : K) :
    (findActive subaps n n mask thr).map (fun s => s.fill) =
      computeFill mask n n ((findActive subaps n n mask thr).map fun s => (s.cx, s.cy)) (spacing n subaps) := by
  unfold computeFill
  rw [List.map_map]
  apply List.map_congr_left
  intro s hs
  obtain ⟨x, y, -, -, -, -, rfl⟩ := (active_iff_mean_ge subaps n n mask thr s).mp hs
  simp only [Function.comp, mkSubap, subapMean, cellBounds, bound]
  have e : ∀ k : ℕ, (k : K) * spacing n subaps + spacing n subaps = ((k + 1 : ℕ) : K) * spacing n subaps := by
    intro k; push_cast; ring
  rw [e x, e y]

/-- **fill factors agree whenever the mask size is a multiple of the sub-aperture count** (`n = m · subaps`):
`computeFillFactor(mask, coords, m)` with the integer spacing `m` reproduces the fills returned by `findActiveSubaps` -/
theorem fill_agree (m subaps : ℕ) (h : 0 < subaps) (mask : ℕ → ℕ → K) (thr : K) :
    (findActive subaps (m * subaps) (m * subaps) mask thr).map (fun s => s.fill) =
      computeFill mask (m * subaps) (m * subaps)
        ((findActive subaps (m * subaps) (m * subaps) mask thr).map fun s => (s.cx, s.cy)) (m : K) := by
  have hsp : (spacing (m * subaps) subaps : K) = m := by
    unfold spacing
    have hne : (subaps : K) ≠ 0 := by exact_mod_cast h.ne'
    push_cast; field_simp
  rw [← hsp]; exact fill_agree_field subaps (m * subaps) mask thr

/-- … and in that case each fill is the plain mean over the `m × m` block of the cell -/
theorem fill_of_dvd (m subaps x y : ℕ) (h : 0 < subaps) (hx : x < subaps) (hy : y < subaps) (mask : ℕ → ℕ → K) :
    subapMean subaps (m * subaps) (m * subaps) mask x y =
      (∑ i ∈ Finset.Ico (x * m) ((x + 1) * m), ∑ j ∈ Finset.Ico (y * m) ((y + 1) * m), mask i j) / ((m * m : ℕ) : K) := by
  have hb : ∀ k, k < subaps → min ((k + 1) * m) (m * subaps) = (k + 1) * m := by
    intro k hk
    apply Nat.min_eq_left
    rw [Nat.mul_comm m subaps]; exact Nat.mul_le_mul_right m hk
  unfold subapMean cellBounds
  simp only [cellMean_eq, bound_of_dvd m subaps _ h, hb x hx, hb y hy]
  congr 2
  have e : ∀ k : ℕ, (k + 1) * m - k * m = m := by intro k; rw [Nat.add_mul, Nat.one_mul]; omega
  rw [e x, e y]

/-- every returned fill factor is the mean of its own grid cell, and it is at least the threshold -/
theorem fill_is_mean_ge (subaps n0 n1 : ℕ) (mask : ℕ → ℕ → K) (thr : K) (s : Subap K)
    (hs : s ∈ findActive subaps n0 n1 mask thr) :
    s.x < subaps ∧ s.y < subaps ∧ s.fill = subapMean subaps n0 n1 mask s.x s.y ∧ thr ≤ s.fill := by
  obtain ⟨x, y, hx, hy, -, ht, rfl⟩ := (active_iff_mean_ge subaps n0 n1 mask thr s).mp hs
  exact ⟨hx, hy, rfl, ht⟩

/-- **the tie `mean = threshold` is selected**: a non-empty grid cell whose mean equals the threshold is returned
(this is the case a `>`-for-`≥` change, or a rounding of the comparison, loses) -/
theorem active_of_mean_eq (subaps n0 n1 : ℕ) (mask : ℕ → ℕ → K) (x y : ℕ) (hx : x < subaps) (hy : y < subaps)
    (hc : subapCount K subaps n0 n1 x y ≠ 0) :
    mkSubap subaps n0 n1 mask x y ∈ findActive subaps n0 n1 mask (subapMean subaps n0 n1 mask x y) :=
  (active_iff_mean_ge subaps n0 n1 mask _ _).mpr ⟨x, y, hx, hy, hc, le_rfl, rfl⟩

/-- … and a cell whose mean is strictly below the threshold is not -/
theorem not_active_of_mean_lt (subaps n0 n1 : ℕ) (mask : ℕ → ℕ → K) (thr : K) (x y : ℕ)
    (h : subapMean subaps n0 n1 mask x y < thr) (s : Subap K) (hs : s ∈ findActive subaps n0 n1 mask thr) :
    (s.x, s.y) ≠ (x, y) := by
  obtain ⟨hx, hy, hf, ht⟩ := fill_is_mean_ge subaps n0 n1 mask thr s hs
  rintro he
  have h1 : s.x = x := congrArg Prod.fst he
  have h2 : s.y = y := congrArg Prod.snd he
  rw [hf, h1, h2] at ht
  exact absurd ht (not_le.mpr h)

/-- **`mean ≥ threshold` against `sum ≥ threshold · size`**: in exact arithmetic the two tests coincide on every non-empty
cell.  (At binary64 they do not: `fl(k/N) · N` may round above `k` when `N` is not a power of two, e.g. `0.55 · 100`,
which is why the implementation must compare the MEAN — the harness exercises exactly these ties.) -/
theorem mean_ge_iff_sum_ge (mask : ℕ → ℕ → K) (n0 n1 a b c d : ℕ) (thr : K) (hc : cellCount n0 n1 a b c d ≠ 0) :
    thr ≤ cellMean mask n0 n1 a b c d ↔
      thr * ((cellCount n0 n1 a b c d : ℕ) : K) ≤
        ∑ i ∈ Finset.Ico a (min b n0), ∑ j ∈ Finset.Ico c (min d n1), mask i j := by
  have hpos : (0 : K) < ((cellCount n0 n1 a b c d : ℕ) : K) := by
    exact_mod_cast Nat.pos_of_ne_zero hc
  rw [cellMean_eq, ← cellCount_eq, le_div_iff₀ hpos]

/-- the mean of a cell of a 0/1 mask is `k / N` with `k` the number of transparent pixels: such means are the
thresholds at which ties occur -/
theorem cell_mean_of_indicator (lit : ℕ → ℕ → Bool) (n0 n1 a b c d : ℕ) :
    cellMean (fun i j => if lit i j then (1 : K) else 0) n0 n1 a b c d =
      (((((Finset.Ico a (min b n0)) ×ˢ (Finset.Ico c (min d n1))).filter fun p => lit p.1 p.2 = true).card : ℕ) : K)
        / (((min b n0 - a) * (min d n1 - c) : ℕ) : K) := by
  rw [cellMean_eq, ← Finset.sum_product', Finset.sum_boole]

/-- non-vacuity / the model's rounding on real ties: a 5-pixel axis cut in 2 gives bounds 0, 2, 5 (2.5 → 2, half-to-even),
a 7-pixel axis 0, 4, 7 (3.5 → 4); 12 pixels in 3 gives the exact blocks 0, 4, 8, 12 -/
example : bound (spacing 5 2 : ℚ) 1 = 2 ∧ bound (spacing 7 2 : ℚ) 1 = 4 ∧ bound (spacing 12 3 : ℚ) 2 = 8 := by
  refine ⟨?_, ?_, ?_⟩
  · have : ((1 : ℕ) : ℚ) * spacing 5 2 = ((2 : ℤ) : ℚ) + 1 / 2 := by unfold spacing; norm_num
    unfold bound; rw [this, roundHE_tie]; rfl
  · have : ((1 : ℕ) : ℚ) * spacing 7 2 = ((3 : ℤ) : ℚ) + 1 / 2 := by unfold spacing; norm_num
    unfold bound; rw [this, roundHE_tie]; rfl
  · exact bound_of_dvd 4 3 2 (by norm_num)

/-- a 5×5 mask whose first 14 pixels (row-major) are transparent -/
def mask14 : ℕ → ℕ → ℚ := fun i j => if decide (i * 5 + j < 14) then 1 else 0

/-- non-vacuity of the tie: one 5×5 cell with 14 of 25 pixels transparent has mean 14/25 (not a binary fraction), is selected at
threshold 14/25 and at no larger threshold -/
example : subapMean 1 5 5 mask14 0 0 = 14 / 25 ∧ mkSubap 1 5 5 mask14 0 0 ∈ findActive 1 5 5 mask14 (14 / 25)
    ∧ findActive 1 5 5 mask14 (14 / 25 + 1 / 1000) = [] := by
  have hb0 : bound (spacing 5 1 : ℚ) 0 = 0 := bound_zero _
  have hb1 : bound (spacing 5 1 : ℚ) 1 = 5 := bound_last 5 1 (by norm_num)
  have hcard : ((Finset.Ico 0 (min 5 5) ×ˢ Finset.Ico 0 (min 5 5)).filter
      fun p : ℕ × ℕ => decide (p.1 * 5 + p.2 < 14) = true).card = 14 := by decide
  have hm : subapMean 1 5 5 mask14 0 0 = 14 / 25 := by
    unfold subapMean cellBounds mask14
    simp only [hb0, hb1]
    rw [cell_mean_of_indicator (fun i j => decide (i * 5 + j < 14)), hcard]
    norm_num
  have hcnt : subapCount ℚ 1 5 5 0 0 ≠ 0 := by
    unfold subapCount cellBounds
    simp only [hb0, hb1, cellCount_eq]; norm_num
  refine ⟨hm, ?_, ?_⟩
  · have h := active_of_mean_eq 1 5 5 mask14 0 0 (by norm_num) (by norm_num) hcnt
    rwa [hm] at h
  · rw [List.eq_nil_iff_forall_not_mem]
    intro s hs
    obtain ⟨hx, hy, hf, ht⟩ := fill_is_mean_ge 1 5 5 mask14 _ s hs
    have hx0 : s.x = 0 := by omega
    have hy0 : s.y = 0 := by omega
    rw [hf, hx0, hy0, hm] at ht
    norm_num at ht

example : ∃! x, x < 3 ∧ bound (spacing 7 3 : ℚ) x ≤ 4 ∧ 4 < bound (spacing 7 3 : ℚ) (x + 1) :=
  cells_tile 7 3 4 (by norm_num) (by norm_num)

end Subaps

/-! ## `make_subaps_2d` then reading back through the mask
`α` is an arbitrary payload type (no algebra): the statement is about which datum lands where. -/
section Scatter
variable {α : Type}

theorem validCount_eq (nx : ℕ) (valid : ℕ → ℕ → Bool) :
    validCount nx valid = ((gridList nx).filter fun p => valid p.1 p.2).length := by
  unfold validCount gridList
  rw [List.filter_flatMap, List.length_flatMap, List.length_flatMap]
  congr 2
  funext x
  rw [List.filter_map, List.length_map]
  rfl

/-- the counter ends at the number of valid positions -/
theorem scatter_counter (nx : ℕ) (valid : ℕ → ℕ → Bool) (data : ℕ → α) (zero : α) :
    (scatter nx valid data zero).k = validCount nx valid := by
  rw [scatter_eq_foldl, validCount_eq, (scatter_foldl_spec valid data _ (gridList_nodup nx) _).1]; simp

/-- **scatter then gather is the identity**: reading `make_subaps_2d(data, mask)` back through `mask == 1` returns
`data[0], …, data[count-1]` in order, for every mask, every size and every payload type -/
theorem scatter_gather_id (nx : ℕ) (valid : ℕ → ℕ → Bool) (data : ℕ → α) (zero : α) :
    gather nx valid (scatter nx valid data zero).grid = (List.range (validCount nx valid)).map data := by
  rw [gather_eq_map, scatter_eq_foldl, (scatter_foldl_spec valid data _ (gridList_nodup nx) _).2.2, validCount_eq,
    List.range_eq_range']

/-- the same for data given as a list with exactly one entry per valid sub-aperture -/
theorem scatter_gather_id_list (nx : ℕ) (valid : ℕ → ℕ → Bool) (d : List α) (dflt zero : α)
    (hd : d.length = validCount nx valid) :
    gather nx valid (scatter nx valid (fun k => d.getD k dflt) zero).grid = d := by
  rw [scatter_gather_id, ← hd]
  apply List.ext_getElem
  · simp
  · intro i h1 h2
    simp [List.getElem?_eq_getElem h2]

/-- where each datum lands: the `k`-th valid position in row-major order receives `data[k]` -/
theorem scatter_at (nx : ℕ) (valid : ℕ → ℕ → Bool) (data : ℕ → α) (zero : α) (k : ℕ)
    (hk : k < ((gridList nx).filter fun p => valid p.1 p.2).length) :
    (scatter nx valid data zero).grid (((gridList nx).filter fun p => valid p.1 p.2)[k]).1
      (((gridList nx).filter fun p => valid p.1 p.2)[k]).2 = data k := by
  have h := (scatter_foldl_spec valid data _ (gridList_nodup nx)
    ({ grid := fun _ _ => zero, k := 0 } : ScatterState α)).2.2
  rw [← scatter_eq_foldl] at h
  have h2 := congrArg (fun l => l[k]?) h
  simp only [List.getElem?_map, List.getElem?_eq_getElem hk, Option.map_some] at h2
  rw [List.getElem?_range' (by simpa using hk)] at h2
  simpa using h2

/-- positions outside the mask (or outside the map) keep the initial value -/
theorem scatter_off_mask (nx : ℕ) (valid : ℕ → ℕ → Bool) (data : ℕ → α) (zero : α) (x y : ℕ)
    (h : valid x y = false) : (scatter nx valid data zero).grid x y = zero := by
  rw [scatter_eq_foldl, (scatter_foldl_spec valid data _ (gridList_nodup nx) _).2.1 (x, y)]
  simp [h]

/-- **the map has the type of the DATA, whatever the type of the mask**: with the mask an array over an arbitrary type `M`
(bool, integers, single or double precision numbers …) in which `mask[x, y] == 1` is decidable, the round trip is the
identity on the payload type `α` — nothing of `M` enters the written values -/
theorem scatter_gather_id_mask {M : Type} [DecidableEq M] (one : M) (nx : ℕ) (mask : ℕ → ℕ → M) (data : ℕ → α) (zero : α) :
    gather nx (fun x y => decide (mask x y = one)) (scatter nx (fun x y => decide (mask x y = one)) data zero).grid =
      (List.range (validCount nx fun x y => decide (mask x y = one))).map data :=
  scatter_gather_id nx _ data zero

/-- the round trip for a payload with several components per sub-aperture (the `(frames, 2)` slab): component-wise -/
theorem scatter_gather_id_comp {β : Type} (nx : ℕ) (valid : ℕ → ℕ → Bool) (data : ℕ → α) (zero : α) (f : α → β) :
    (gather nx valid (scatter nx valid data zero).grid).map f = (List.range (validCount nx valid)).map (f ∘ data) := by
  rw [scatter_gather_id, List.map_map]

/-- non-vacuity: a 2×2 mask with three valid sub-apertures -/
example : gather 2 (fun x y => !(x == 0 && y == 1)) (scatter 2 (fun x y => !(x == 0 && y == 1)) (fun k => 10 + k) 0).grid
    = [10, 11, 12] := by decide

end Scatter

/-! ## the area of the mask tends to `π r²`
Lebesgue measure on `ℂ ≃ ℝ²`: the unit squares of the selected pixels cover the disc of radius `r − √½` and lie inside the disc of
radius `r + √½` (`Lemmas/PupilArea.lean`); `Complex.volume_ball` gives the areas. -/
section Area
open AoVerif.Lemmas.PupilArea Filter Topology

/-- what `circle(...).sum()` is: the number of `1`s -/
noncomputable def circleArea (r : ℝ) (n : ℕ) (cx cy : ℝ) (middle : Bool) : ℝ :=
  ∑ i ∈ Finset.range n, ∑ j ∈ Finset.range n, circleAt r n cx cy middle i j

theorem circleArea_eq_card (r : ℝ) (hr : 0 ≤ r) (n : ℕ) (cx cy : ℝ) (middle : Bool) :
    circleArea r n cx cy middle =
      ((discPixels n ⟨centrePos middle n cx, centrePos middle n cy⟩ r).card : ℝ) := by
  classical
  have hpix : ∀ i j : ℕ, circleAt r n cx cy middle i j =
      if dist (pixelCentre (i, j)) ⟨centrePos middle n cx, centrePos middle n cy⟩ ≤ r then 1 else 0 := by
    intro i j
    rw [circle_is_indicator_sq]
    have e : dist (pixelCentre (i, j)) ⟨centrePos middle n cx, centrePos middle n cy⟩ ≤ r ↔
        ((j : ℝ) + 1 / 2 - centrePos middle n cx) ^ 2 + ((i : ℝ) + 1 / 2 - centrePos middle n cy) ^ 2 ≤ r ^ 2 := by
      rw [Complex.dist_eq_re_im, Real.sqrt_le_left hr]; simp only [pixelCentre]
    simp only [e]
  unfold circleArea discPixels
  simp only [hpix]
  rw [← Finset.sum_product', Finset.sum_boole]

/-- the disc of radius `r` about the circle centre lies inside the array `[0, n]²` -/
def DiscInside (r : ℝ) (n : ℕ) (cx cy : ℝ) (middle : Bool) : Prop :=
  r ≤ centrePos middle n cx ∧ centrePos middle n cx + r ≤ n ∧ r ≤ centrePos middle n cy ∧ centrePos middle n cy + r ≤ n

/-- **area, upper bound** (any array size, any centre, both origins): `area ≤ π (r + √½)²` -/
theorem circle_area_le (r : ℝ) (hr : 0 ≤ r) (n : ℕ) (cx cy : ℝ) (middle : Bool) :
    circleArea r n cx cy middle ≤ Real.pi * (r + √(1 / 2)) ^ 2 := by
  rw [circleArea_eq_card r hr]; exact card_discPixels_le n _ r hr

/-- **area, lower bound** (disc inside the array): `π (r − √½)² ≤ area` -/
theorem circle_area_ge (r : ℝ) (hr : √(1 / 2) ≤ r) (n : ℕ) (cx cy : ℝ) (middle : Bool)
    (hin : DiscInside r n cx cy middle) :
    Real.pi * (r - √(1 / 2)) ^ 2 ≤ circleArea r n cx cy middle := by
  rw [circleArea_eq_card r (le_trans (Real.sqrt_nonneg _) hr)]; exact le_card_discPixels n _ r hr hin

/-- **the area tends to `π r²`**: for any centre, origin and any choice `n r` of array sizes that eventually contain the disc,
`area / (π r²) → 1` as `r → ∞` -/
theorem circle_area_tendsto (cx cy : ℝ) (middle : Bool) (n : ℝ → ℕ)
    (hin : ∀ᶠ r in atTop, DiscInside r (n r) cx cy middle) :
    Tendsto (fun r => circleArea r (n r) cx cy middle / (Real.pi * r ^ 2)) atTop (𝓝 1) := by
  have hδ : Tendsto (fun r : ℝ => √(1 / 2) / r) atTop (𝓝 0) := tendsto_const_nhds.div_atTop tendsto_id
  have hlo : Tendsto (fun r : ℝ => (1 - √(1 / 2) / r) ^ 2) atTop (𝓝 1) := by
    have := (hδ.const_sub 1).pow 2; simpa using this
  have hhi : Tendsto (fun r : ℝ => (1 + √(1 / 2) / r) ^ 2) atTop (𝓝 1) := by
    have := (hδ.const_add 1).pow 2; simpa using this
  refine tendsto_of_tendsto_of_tendsto_of_le_of_le' hlo hhi ?_ ?_
  · filter_upwards [hin, eventually_ge_atTop (√(1 / 2) + 1)] with r hr hbig
    have hpos : 0 < r := by have := Real.sqrt_nonneg (1 / 2 : ℝ); linarith
    have h := circle_area_ge r (by linarith) (n r) cx cy middle hr
    rw [le_div_iff₀ (by positivity)]
    have : (1 - √(1 / 2) / r) ^ 2 * (Real.pi * r ^ 2) = Real.pi * (r - √(1 / 2)) ^ 2 := by field_simp
    rw [this]; exact h
  · filter_upwards [eventually_gt_atTop 0] with r hpos
    have h := circle_area_le r hpos.le (n r) cx cy middle
    rw [div_le_iff₀ (by positivity)]
    have : (1 + √(1 / 2) / r) ^ 2 * (Real.pi * r ^ 2) = Real.pi * (r + √(1 / 2)) ^ 2 := by field_simp
    rw [this]; exact h

/-- non-vacuity: arrays of size `2⌈r⌉ + 2` always contain the centred disc -/
example (r : ℝ) (_hr : 0 ≤ r) : DiscInside r (2 * ⌈r⌉₊ + 2) 0 0 true := by
  have h := Nat.le_ceil r
  unfold DiscInside centrePos
  push_cast
  refine ⟨?_, ?_, ?_, ?_⟩ <;> simp <;> linarith

end Area

end AoVerif.Props.C14
