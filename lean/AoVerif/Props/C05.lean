/-
C05 — infinite screen evolves by exactly one row per step, for any history.

Part 1 (this section): the state machine of `Model/InfScreen.lean`, theorems by induction over ARBITRARY
operation histories, over a payload type with no algebraic structure and an opaque row kernel `f`.
Part 2: `find_allowed_size`.  Part 3: the linear recursion of the von Kármán variant (Lyapunov fixed point).
-/
import Mathlib.Analysis.Matrix.Normed
import Mathlib.Data.Matrix.ColumnRowPartitioned
import Mathlib.Data.Matrix.Block
import Mathlib.LinearAlgebra.Matrix.Notation
import Mathlib.Tactic.FinCases
import Mathlib.Tactic.Linarith
import Mathlib.Topology.Instances.Matrix
import AoVerif.Lemmas.Lyapunov
import AoVerif.Lemmas.InfScreenReal
import AoVerif.Model.InfScreen

namespace AoVerif.Props.C05
open AoVerif.InfScreen AoVerif.InfScreen.RealRead

set_option linter.unusedSimpArgs false
set_option linter.unusedSectionVars false
variable {α β γ : Type}

/-! ### list helpers -/

theorem map_take_eq_self (n : Nat) (m : List (List α)) (h : ∀ r ∈ m, r.length ≤ n) :
    m.map (List.take n) = m := by
  induction m with
  | nil => rfl
  | cons a t ih =>
    simp only [List.map_cons]
    rw [List.take_of_length_le (h a (List.mem_cons_self ..)),
      ih (fun r hr => h r (List.mem_cons_of_mem _ hr))]

theorem crop_crop (r c r' c' : Nat) (m : List (List α)) :
    crop r c (crop r' c' m) = crop (min r r') (min c c') m := by
  simp only [crop, ← List.map_take, List.take_take, List.map_map]
  congr 1
  funext x
  simp [List.take_take]

theorem crop_length (r c : Nat) (m : List (List α)) : (crop r c m).length = min r m.length := by
  simp [crop, List.length_take]

theorem crop_row_length (r c n : Nat) (m : List (List α)) (h : ∀ x ∈ m, x.length = n) :
    ∀ x ∈ crop r c m, x.length = min c n := by
  intro x hx
  simp only [crop, List.mem_map] at hx
  obtain ⟨y, hy, rfl⟩ := hx
  rw [List.length_take, h y (List.mem_of_mem_take hy)]

theorem take_append_take (n : Nat) (x y : List α) : (x ++ y.take n).take n = (x ++ y).take n := by
  rw [List.take_append, List.take_append, List.take_take]
  congr 2
  omega

theorem crop_append (r c : Nat) (x y : List (List α)) :
    crop r c (x ++ y) = (x.map (List.take c) ++ crop r c y).take r := by
  simp only [crop, ← List.map_take, ← List.map_append]
  rw [take_append_take]

theorem draws_length (ξ : Nat → β) (p n : Nat) : (draws ξ p n).length = n := by
  simp [draws]

/-! ### well-formed states and the contract of the row kernel -/

/-- `_scrn.shape == (stencil_length, nx_size)` -/
def WF (c : Cfg) (s : State α) : Prop := s.rows.length = c.len ∧ ∀ r ∈ s.rows, r.length = c.nx

/-- contract of the row kernel (`A_mat.shape == (nx_size, n_stencils)`, `B_mat.shape == (nx_size, nx_size)`;
the real code enforces it with `new_row.shape = (1, nx_size)`): on a well-shaped array and `nx` draws it
returns `nx` values.  Nothing else is assumed about `f`. -/
def RowOK (c : Cfg) (f : List (List α) → List β → List α) : Prop :=
  ∀ rows b, rows.length = c.len → (∀ r ∈ rows, r.length = c.nx) → b.length = c.nx → (f rows b).length = c.nx

section machine
variable (c : Cfg) (f : List (List α) → List β → List α) (ξ : Nat → β) (render : List (List α) → γ)

theorem newRow_length {s : State α} (hf : RowOK c f) (h : WF c s) : (newRow c f ξ s).length = c.nx :=
  hf _ _ h.1 h.2 (draws_length ..)

/-- internal array after `add_row`: the new row on top, the rest moved down, cut to `stencil_length` rows -/
theorem addRow_rows {s : State α} (hf : RowOK c f) (h : WF c s) :
    (addRow c f ξ s).rows = (newRow c f ξ s :: s.rows).take c.len := by
  unfold addRow crop
  apply map_take_eq_self
  intro r hr
  rcases List.mem_cons.1 (List.mem_of_mem_take hr) with rfl | hr
  · exact Nat.le_of_eq (newRow_length c f ξ hf h)
  · exact Nat.le_of_eq (h.2 r hr)

/-- … equivalently: new row first, then the old array without its last row (`stencil_length ≥ 1`) -/
theorem addRow_rows_dropLast {s : State α} (hf : RowOK c f) (h : WF c s) (hl : 0 < c.len) :
    (addRow c f ξ s).rows = newRow c f ξ s :: s.rows.dropLast := by
  rw [addRow_rows c f ξ hf h]
  obtain ⟨k, hk⟩ := Nat.exists_eq_succ_of_ne_zero (Nat.pos_iff_ne_zero.1 hl)
  rw [hk, List.take_succ_cons, List.dropLast_eq_take, h.1, hk]
  rfl

theorem wf_addRow {s : State α} (hf : RowOK c f) (h : WF c s) : WF c (addRow c f ξ s) := by
  constructor
  · rw [addRow_rows c f ξ hf h, List.length_take, List.length_cons, h.1]; omega
  · intro r hr
    rw [addRow_rows c f ξ hf h] at hr
    rcases List.mem_cons.1 (List.mem_of_mem_take hr) with rfl | hr
    · exact newRow_length c f ξ hf h
    · exact h.2 r hr

theorem wf_step {s : State α} (hf : RowOK c f) (h : WF c s) (op : Op) : WF c (step c f ξ render s op).1 := by
  cases op
  · exact wf_addRow c f ξ hf h
  · exact h
  · exact h

/-- the internal array keeps its `stencil_length × nx_size` shape through ANY history -/
theorem wf_run {s : State α} (hf : RowOK c f) (h : WF c s) (ops : List Op) : WF c (run c f ξ render s ops) := by
  induction ops generalizing s with
  | nil => exact h
  | cons op ops ih => exact ih (wf_step c f ξ render hf h op)

/-! ### shape -/

/-- exposed array of a well-formed state: exactly `N × N`, also when the internal size is larger -/
theorem scrn_shape {s : State α} (h : WF c s) (h1 : c.req ≤ c.nx) (h2 : c.req ≤ c.len) :
    (scrn c s).length = c.req ∧ ∀ r ∈ scrn c s, r.length = c.req := by
  constructor
  · rw [scrn, crop_length, h.1]; omega
  · intro r hr
    rw [crop_row_length c.req c.req c.nx s.rows h.2 r hr]; omega

/-- **shape_inv**: after any history of `add_row` / `scrn` / `repr` the exposed screen is `N × N` -/
theorem shape_inv {s : State α} (hf : RowOK c f) (h : WF c s) (h1 : c.req ≤ c.nx) (h2 : c.req ≤ c.len)
    (ops : List Op) :
    (scrn c (run c f ξ render s ops)).length = c.req ∧
      ∀ r ∈ scrn c (run c f ξ render s ops), r.length = c.req :=
  scrn_shape c (wf_run c f ξ render hf h ops) h1 h2

/-- every array handed to the caller during any history (by `add_row()` or by `.scrn`) is `N × N` -/
theorem shape_inv_outputs {s : State α} (hf : RowOK c f) (h : WF c s) (h1 : c.req ≤ c.nx) (h2 : c.req ≤ c.len)
    (ops : List Op) :
    ∀ op m, (op, Out.arr m) ∈ trace c f ξ render s ops → m.length = c.req ∧ ∀ r ∈ m, r.length = c.req := by
  induction ops generalizing s with
  | nil => intro op m hm; simp [trace] at hm
  | cons o ops ih =>
    intro op m hm
    rcases List.mem_cons.1 hm with hm | hm
    · cases o
      · simp only [step, Prod.mk.injEq, Out.arr.injEq] at hm
        rw [hm.2]; exact scrn_shape c (wf_addRow c f ξ hf h) h1 h2
      · simp only [step, Prod.mk.injEq, Out.arr.injEq] at hm
        rw [hm.2]; exact scrn_shape c h h1 h2
      · simp [step] at hm
    · exact ih (wf_step c f ξ render hf h o) op m hm

/-! ### shift -/

/-- **shift_inv** (one step): the exposed screen after `add_row` is the exposed part of the new row followed by
the previous exposed screen without its last row; nothing else changes -/
theorem shift_inv {s : State α} (hf : RowOK c f) (h : WF c s) (h1 : c.req ≤ c.nx) (h2 : c.req ≤ c.len)
    (hr : 0 < c.req) :
    scrn c (addRow c f ξ s) = (newRow c f ξ s).take c.req :: (scrn c s).dropLast := by
  have hlen : (scrn c s).length = c.req := (scrn_shape c h h1 h2).1
  unfold scrn at hlen ⊢
  rw [addRow_rows c f ξ hf h]
  have e : crop c.req c.req ((newRow c f ξ s :: s.rows).take c.len)
      = crop c.req c.req (newRow c f ξ s :: s.rows) := by
    have := crop_crop c.req c.req c.len c.nx (newRow c f ξ s :: s.rows)
    have hc : crop c.len c.nx (newRow c f ξ s :: s.rows) = (newRow c f ξ s :: s.rows).take c.len := by
      have := addRow_rows c f ξ hf h
      simpa [addRow] using this
    rw [hc] at this
    rw [this, Nat.min_eq_left h2, Nat.min_eq_left h1]
  rw [e]
  obtain ⟨k, hk⟩ := Nat.exists_eq_succ_of_ne_zero (Nat.pos_iff_ne_zero.1 hr)
  simp only [crop] at hlen ⊢
  rw [hk, List.take_succ_cons, List.map_cons, List.dropLast_eq_take, List.length_map, List.length_take]
  congr 1
  rw [← List.map_take, List.take_take]
  have : s.rows.length ≥ k + 1 := by rw [h.1]; omega
  congr 2
  omega

/-- the unexposed part moves the same way: the whole internal array is shifted by exactly one row -/
theorem shift_inv_internal {s : State α} (hf : RowOK c f) (h : WF c s) (hl : 0 < c.len) :
    (addRow c f ξ s).rows = newRow c f ξ s :: s.rows.dropLast :=
  addRow_rows_dropLast c f ξ hf h hl

/-- internal array after any history: the generated rows, newest first, on top of the initial array -/
theorem rows_hist {s : State α} (hf : RowOK c f) (h : WF c s) (ops : List Op) :
    (run c f ξ render s ops).rows = (newRows c f ξ s ops ++ s.rows).take c.len := by
  induction ops generalizing s with
  | nil => simp [run, newRows, List.take_of_length_le, h.1]
  | cons op ops ih =>
    cases op
    · simp only [run, step, newRows]
      rw [ih (wf_addRow c f ξ hf h), addRow_rows c f ξ hf h, take_append_take]
      simp
    · simpa [run, step, newRows] using ih h
    · simpa [run, step, newRows] using ih h

/-- **shift_inv over whole histories**: after any history the exposed screen is the exposed parts of the
generated rows (newest first) followed by the initial exposed screen, cut to `N` rows: one row per `add_row`,
reads contribute nothing -/
theorem shift_hist {s : State α} (hf : RowOK c f) (h : WF c s) (h2 : c.req ≤ c.len) (ops : List Op) :
    scrn c (run c f ξ render s ops)
      = ((newRows c f ξ s ops).map (List.take c.req) ++ scrn c s).take c.req := by
  unfold scrn
  rw [rows_hist c f ξ render hf h ops]
  have : crop c.req c.req ((newRows c f ξ s ops ++ s.rows).take c.len)
      = crop c.req c.req (newRows c f ξ s ops ++ s.rows) := by
    simp only [crop, List.take_take, Nat.min_eq_left h2]
  rw [this, crop_append]

theorem newRows_length (s : State α) (ops : List Op) :
    (newRows c f ξ s ops).length = ops.count Op.add := by
  induction ops generalizing s with
  | nil => rfl
  | cons op ops ih => cases op <;> simp [newRows, ih, List.count_cons]

/-! ### reads are pure; generator consumption -/

/-- **read_pure** (one step): `.scrn` and `repr` change neither the array nor the generator position -/
theorem read_pure (s : State α) (op : Op) (hop : op ≠ Op.add) : (step c f ξ render s op).1 = s := by
  cases op
  · exact absurd rfl hop
  · rfl
  · rfl

/-- a read returns exactly what the previous operation left exposed -/
theorem read_returns_current (s : State α) : (step c f ξ render s Op.scrn).2 = Out.arr (scrn c s) := rfl

/-- **read_pure over histories**: deleting every read from a history changes neither the final state … -/
theorem run_erase_reads (s : State α) (ops : List Op) :
    run c f ξ render s ops = run c f ξ render s (ops.filter (· = Op.add)) := by
  induction ops generalizing s with
  | nil => rfl
  | cons op ops ih => cases op <;> simp [run, step, ih]

/-- … nor anything an `add_row` returned -/
theorem trace_erase_reads (s : State α) (ops : List Op) :
    (trace c f ξ render s ops).filter (fun p => p.1 = Op.add)
      = trace c f ξ render s (ops.filter (· = Op.add)) := by
  induction ops generalizing s with
  | nil => rfl
  | cons op ops ih => cases op <;> simp [trace, step, ih]

theorem run_append (s : State α) (o1 o2 : List Op) :
    run c f ξ render s (o1 ++ o2) = run c f ξ render (run c f ξ render s o1) o2 := by
  induction o1 generalizing s with
  | nil => rfl
  | cons op ops ih => simp [run, ih]

/-- generator consumption: exactly `nx_size` normals per `add_row`, none for reads -/
theorem pos_inv (s : State α) (ops : List Op) :
    (run c f ξ render s ops).pos = s.pos + c.nx * ops.count Op.add := by
  induction ops generalizing s with
  | nil => simp [run]
  | cons op ops ih =>
    cases op
    · simp only [run, step, ih, addRow, List.count_cons_self]
      rw [Nat.mul_add, Nat.mul_one]; omega
    · simpa [run, step, List.count_cons] using ih s
    · simpa [run, step, List.count_cons] using ih s

/-- the `add_row` that follows a history `pre` (whatever reads it contains) consumes exactly the draws
number `pos₀ + nx·k … pos₀ + nx·(k+1) − 1`, `k` = number of earlier `add_row`s: consecutive blocks, no draw is
used twice or skipped -/
theorem add_uses_fresh_block (s : State α) (pre : List Op) :
    newRow c f ξ (run c f ξ render s pre)
      = f (run c f ξ render s pre).rows (draws ξ (s.pos + c.nx * pre.count Op.add) c.nx) := by
  simp [newRow, pos_inv]

/-! ### an invariant of the entries (read: finiteness) -/

/-- **finite** as an invariant: if the entries of the initial array satisfy `P` and the row kernel maps arrays
with property `P` to rows with property `P` (for IEEE doubles and `P = isfinite` this is "no overflow in
`A·z + B·b`", which is NOT provable and stays numeric), every entry of the array after any history satisfies
`P`; shifting and cropping never create a value. -/
theorem entries_inv (P : α → Prop) (hP : ∀ rows b, (∀ r ∈ rows, ∀ x ∈ r, P x) → ∀ x ∈ f rows b, P x)
    {s : State α} (h0 : ∀ r ∈ s.rows, ∀ x ∈ r, P x) (ops : List Op) :
    ∀ r ∈ (run c f ξ render s ops).rows, ∀ x ∈ r, P x := by
  induction ops generalizing s with
  | nil => exact h0
  | cons op ops ih =>
    cases op
    · apply ih
      intro r hr x hx
      simp only [step, addRow, crop, List.mem_map] at hr
      obtain ⟨y, hy, rfl⟩ := hr
      have hx' := List.mem_of_mem_take hx
      rcases List.mem_cons.1 (List.mem_of_mem_take hy) with rfl | hy
      · exact hP _ _ h0 x hx'
      · exact h0 y hy x hx'
    · exact ih h0
    · exact ih h0

/-- every value in the array after any history is either a value of the initial array or a value of one of the
generated rows (no other value ever appears: "nothing else changes") -/
theorem entries_from (s : State α) (ops : List Op) :
    ∀ r ∈ (run c f ξ render s ops).rows, ∀ x ∈ r,
      (∃ r0 ∈ s.rows, x ∈ r0) ∨ (∃ r1 ∈ newRows c f ξ s ops, x ∈ r1) := by
  induction ops generalizing s with
  | nil => intro r hr x hx; exact Or.inl ⟨r, hr, hx⟩
  | cons op ops ih =>
    cases op
    · intro r hr x hx
      rcases ih (s := addRow c f ξ s) r hr x hx with ⟨r0, hr0, hx0⟩ | ⟨r1, hr1, hx1⟩
      · simp only [addRow, crop, List.mem_map] at hr0
        obtain ⟨y, hy, rfl⟩ := hr0
        have hx' := List.mem_of_mem_take hx0
        rcases List.mem_cons.1 (List.mem_of_mem_take hy) with rfl | hy
        · exact Or.inr ⟨_, by simp [newRows], hx'⟩
        · exact Or.inl ⟨y, hy, hx'⟩
      · exact Or.inr ⟨r1, by simp [newRows, hr1], hx1⟩
    · exact ih s
    · exact ih s

end machine

/-! ### `find_allowed_size` and the two concrete size configurations -/

theorem fasLoop_spec (nx : Nat) : ∀ fuel n, nx ≤ fuel + n → (∀ m, m < n → 2 ^ m + 1 < nx) →
    ¬ (2 ^ (fasLoop nx fuel n) + 1 < nx) ∧ ∀ m, m < fasLoop nx fuel n → 2 ^ m + 1 < nx := by
  intro fuel
  induction fuel with
  | zero =>
    intro n hn hm
    refine ⟨?_, hm⟩
    have : n < 2 ^ n := Nat.lt_two_pow_self
    simp only [fasLoop]; omega
  | succ fuel ih =>
    intro n hn hm
    simp only [fasLoop]
    split
    · rename_i hc
      apply ih (n + 1) (by omega)
      intro m hmn
      rcases Nat.lt_succ_iff_lt_or_eq.1 hmn with h | rfl
      · exact hm m h
      · exact hc
    · rename_i hc
      exact ⟨hc, hm⟩

/-- the loop stops at the first exponent whose size is large enough -/
theorem fasExp_spec (n : Nat) : ¬ (2 ^ fasExp n + 1 < n) ∧ ∀ m, m < fasExp n → 2 ^ m + 1 < n :=
  fasLoop_spec n n 0 (by omega) (fun m hm => absurd hm (Nat.not_lt_zero m))

/-- the internal size is never smaller than the requested one … -/
theorem findAllowedSize_ge (n : Nat) : n ≤ findAllowedSize n := by
  have := (fasExp_spec n).1
  unfold findAllowedSize; omega

/-- … it is of the form `2^k + 1` … -/
theorem findAllowedSize_form (n : Nat) : ∃ k, findAllowedSize n = 2 ^ k + 1 := ⟨fasExp n, rfl⟩

/-- … and it is the smallest such size -/
theorem findAllowedSize_minimal (n k : Nat) (h : n ≤ 2 ^ k + 1) : findAllowedSize n ≤ 2 ^ k + 1 := by
  have hk : fasExp n ≤ k := by
    apply Nat.le_of_not_lt
    intro hlt
    have := (fasExp_spec n).2 k hlt
    omega
  have := Nat.pow_le_pow_right (by decide : 0 < 2) hk
  unfold findAllowedSize; omega

/-- allowed sizes are kept as they are -/
theorem findAllowedSize_fixed (k : Nat) : findAllowedSize (2 ^ k + 1) = 2 ^ k + 1 :=
  Nat.le_antisymm (findAllowedSize_minimal _ k (Nat.le_refl _)) (findAllowedSize_ge _)

/-- small table (kernel-checked): requested size ↦ internal size -/
theorem findAllowedSize_table :
    (List.range 20).map findAllowedSize = [2, 2, 2, 3, 5, 5, 9, 9, 9, 9, 17, 17, 17, 17, 17, 17, 17, 17, 33, 33] := by
  decide +kernel

section concrete
variable (f : List (List α) → List β → List α) (ξ : Nat → β) (render : List (List α) → γ)

/-- **shape_inv**, von Kármán variant: `N × N` after any history, for every `N` -/
theorem shape_inv_vk (n : Nat) {s : State α} (hf : RowOK (vkCfg n) f) (h : WF (vkCfg n) s) (ops : List Op) :
    (scrn (vkCfg n) (run (vkCfg n) f ξ render s ops)).length = n ∧
      ∀ r ∈ scrn (vkCfg n) (run (vkCfg n) f ξ render s ops), r.length = n :=
  shape_inv (vkCfg n) f ξ render hf h (Nat.le_refl _) (Nat.le_refl _) ops

/-- **shape_inv**, Fried/Kolmogorov variant: `N × N` after any history for every requested `N` and every
`stencil_length_factor ≥ 1`, although the working array is `k·(2^m+1) × (2^m+1)` -/
theorem shape_inv_fried (n k : Nat) (hk : 1 ≤ k) {s : State α} (hf : RowOK (friedCfg n k) f)
    (h : WF (friedCfg n k) s) (ops : List Op) :
    (scrn (friedCfg n k) (run (friedCfg n k) f ξ render s ops)).length = n ∧
      ∀ r ∈ scrn (friedCfg n k) (run (friedCfg n k) f ξ render s ops), r.length = n := by
  have h1 : n ≤ findAllowedSize n := findAllowedSize_ge n
  have h2 : n ≤ k * findAllowedSize n := Nat.le_trans h1 (Nat.le_mul_of_pos_left _ hk)
  exact shape_inv (friedCfg n k) f ξ render hf h h1 h2 ops

/-- **shift_inv**, Fried/Kolmogorov variant, requested size smaller than the internal one included -/
theorem shift_inv_fried (n k : Nat) (hn : 0 < n) (hk : 1 ≤ k) {s : State α} (hf : RowOK (friedCfg n k) f)
    (h : WF (friedCfg n k) s) :
    scrn (friedCfg n k) (addRow (friedCfg n k) f ξ s)
      = (newRow (friedCfg n k) f ξ s).take n :: (scrn (friedCfg n k) s).dropLast := by
  have h1 : n ≤ findAllowedSize n := findAllowedSize_ge n
  have h2 : n ≤ k * findAllowedSize n := Nat.le_trans h1 (Nat.le_mul_of_pos_left _ hk)
  exact shift_inv (friedCfg n k) f ξ hf h h1 h2 hn

/-- **shift_inv**, von Kármán variant -/
theorem shift_inv_vk (n : Nat) (hn : 0 < n) {s : State α} (hf : RowOK (vkCfg n) f) (h : WF (vkCfg n) s) :
    scrn (vkCfg n) (addRow (vkCfg n) f ξ s)
      = (newRow (vkCfg n) f ξ s).take n :: (scrn (vkCfg n) s).dropLast :=
  shift_inv (vkCfg n) f ξ hf h (Nat.le_refl _) (Nat.le_refl _) hn

end concrete

/-- non-vacuity: a well-formed 8-requested Fried state (internal 9 wide, 36 rows) with a kernel meeting `RowOK`,
and the shift relation evaluated on it (payload = labels, kernel = the draws themselves) -/
example : WF (friedCfg 8 4) (⟨List.replicate 36 (List.replicate 9 0), 0⟩ : State Nat)
    ∧ RowOK (friedCfg 8 4) (fun (_ : List (List Nat)) (b : List Nat) => b)
    ∧ (friedCfg 8 4) = ⟨8, 9, 36⟩ := by
  refine ⟨⟨by decide +kernel, ?_⟩, ?_, by decide +kernel⟩
  · intro r hr
    rw [List.eq_of_mem_replicate hr]
    decide +kernel
  · intro rows b _ _ hb; exact hb

example : scrn (vkCfg 2) (addRow (vkCfg 2) (fun (_ : List (List Nat)) (b : List Nat) => b) (fun i => 100 + i)
      (⟨[[1, 2], [3, 4]], 6⟩ : State Nat)) = [[106, 107], [1, 2]] := by decide +kernel

/-! ### Part 3 — the von Kármán row recursion as a linear-Gaussian state recursion over ℝ

Stencil state `z` (index type `Z`: the first `n_columns` rows), new row `x = A z + B b` (index type `X`), next
stencil state `z' = T·[x ; z]` where the 0/1 matrix `T` says which entries of (new row, old stencil) make up the
new stencil (`vkShift` below is the concrete one of `PhaseScreenVonKarman`).  Hence `z' = F z + G b` with
`F = T·[A ; I]`, `G = T·[B ; 0]`, and covariances evolve by `P ↦ F P Fᵀ + G Gᵀ` (for `b` unit white noise
independent of `z`: the `L Lᵀ` bridge of DESIGN §3.4, not formalised). -/

section stability
open Matrix

variable {X Z : Type} [Fintype X] [Fintype Z] [DecidableEq X] [DecidableEq Z]

def companionF (T : Matrix Z (X ⊕ Z) ℝ) (A : Matrix X Z ℝ) : Matrix Z Z ℝ := T * fromRows A 1
def companionG (T : Matrix Z (X ⊕ Z) ℝ) (B : Matrix X X ℝ) : Matrix Z X ℝ := T * fromRows B 0

/-- one step of the recursion on the joint vector: `[x ; z]` has exactly the model covariance `Σ` when `z` has
covariance `Σzz` (C04's `stationary_step`, re-derived here from the two identities) -/
theorem joint_step (A : Matrix X Z ℝ) (B : Matrix X X ℝ) (Sxx : Matrix X X ℝ) (Sxz : Matrix X Z ℝ)
    (Szx : Matrix Z X ℝ) (Szz : Matrix Z Z ℝ) (hzz : Szzᵀ = Szz) (hzx : Szxᵀ = Sxz)
    (hA : A * Szz = Sxz) (hB : B * Bᵀ = Sxx - A * Szx) :
    fromRows A 1 * Szz * (fromRows A 1)ᵀ + fromRows B 0 * (fromRows B 0)ᵀ = fromBlocks Sxx Sxz Szx Szz := by
  have h1 : Szz * Aᵀ = Szx := by
    have : (A * Szz)ᵀ = Sxzᵀ := by rw [hA]
    rw [transpose_mul, hzz] at this
    rw [this, ← hzx, transpose_transpose]
  have h2 : A * Szz * Aᵀ + B * Bᵀ = Sxx := by
    rw [hB, Matrix.mul_assoc, h1]; abel
  rw [hA] at h2
  rw [transpose_fromRows, transpose_fromRows, transpose_one, transpose_zero, fromRows_mul, Matrix.one_mul,
    fromRows_mul_fromCols, fromRows_mul_fromCols, fromBlocks_add]
  simp only [Matrix.mul_one, Matrix.mul_zero, Matrix.zero_mul, add_zero, hA, h1, h2]

/-- **vk_is_stationary**: if `Σ` (covariance of new row and stencil) is symmetric, satisfies the two C04
identities `A Σzz = Σxz`, `B Bᵀ = Σxx − A Σzx`, and is block-stationary (the entries that form the next stencil
have the covariance of the stencil), then `Σzz` is a fixed point of the covariance recursion -/
theorem vk_is_stationary (T : Matrix Z (X ⊕ Z) ℝ) (A : Matrix X Z ℝ) (B : Matrix X X ℝ) (Sxx : Matrix X X ℝ)
    (Sxz : Matrix X Z ℝ) (Szx : Matrix Z X ℝ) (Szz : Matrix Z Z ℝ) (hzz : Szzᵀ = Szz) (hzx : Szxᵀ = Sxz)
    (hA : A * Szz = Sxz) (hB : B * Bᵀ = Sxx - A * Szx)
    (hstat : T * fromBlocks Sxx Sxz Szx Szz * Tᵀ = Szz) :
    companionF T A * Szz * (companionF T A)ᵀ + companionG T B * (companionG T B)ᵀ = Szz := by
  have := joint_step A B Sxx Sxz Szx Szz hzz hzx hA hB
  calc companionF T A * Szz * (companionF T A)ᵀ + companionG T B * (companionG T B)ᵀ
      = T * (fromRows A 1 * Szz * (fromRows A 1)ᵀ + fromRows B 0 * (fromRows B 0)ᵀ) * Tᵀ := by
        simp only [companionF, companionG, transpose_mul, Matrix.mul_add, Matrix.add_mul, Matrix.mul_assoc]
    _ = Szz := by rw [this, hstat]

/-- the concrete selection of `PhaseScreenVonKarman` (stencil = first `nc+1` rows, `nx` wide): row 0 of the next
stencil is the new row, row `r+1` is the old row `r`; the old last row drops out -/
def vkShift (nc nx : ℕ) : Matrix (Fin (nc + 1) × Fin nx) (Fin nx ⊕ (Fin (nc + 1) × Fin nx)) ℝ :=
  Matrix.of fun p q => match q with
    | Sum.inl c => if p.1.val = 0 ∧ p.2 = c then 1 else 0
    | Sum.inr (r, c) => if p.1.val = r.val + 1 ∧ p.2 = c then 1 else 0

/-- … and it does to vectors what `add_row` does to the array (`shift_inv_internal` on the stencil rows) -/
theorem vkShift_mulVec (nc nx : ℕ) (x : Fin nx → ℝ) (z : Fin (nc + 1) × Fin nx → ℝ) (p : Fin (nc + 1) × Fin nx) :
    (vkShift nc nx *ᵥ Sum.elim x z) p
      = if h : p.1.val = 0 then x p.2 else z (⟨p.1.val - 1, by omega⟩, p.2) := by
  simp only [mulVec, dotProduct, Fintype.sum_sum_type, Sum.elim_inl, Sum.elim_inr, vkShift, Matrix.of_apply]
  split
  · rename_i h
    have hz : ∀ q : Fin (nc + 1) × Fin nx, (if p.1.val = q.1.val + 1 ∧ p.2 = q.2 then (1:ℝ) else 0) * z q = 0 := by
      intro q; rw [if_neg (by omega), zero_mul]
    rw [Finset.sum_eq_single p.2]
    · simp [h, Fintype.sum_prod_type, hz]
    · intro c _ hc; rw [if_neg (fun hh => hc hh.2.symm), zero_mul]
    · intro hh; exact absurd (Finset.mem_univ _) hh
  · rename_i h
    have hx : ∀ c : Fin nx, (if p.1.val = 0 ∧ p.2 = c then (1:ℝ) else 0) * x c = 0 := by
      intro c; rw [if_neg (fun hh => h hh.1), zero_mul]
    rw [Finset.sum_eq_zero (fun c _ => hx c), zero_add]
    rw [Finset.sum_eq_single (⟨⟨p.1.val - 1, by omega⟩, p.2⟩ : Fin (nc + 1) × Fin nx)]
    · rw [if_pos ⟨by simp; omega, rfl⟩, one_mul]
    · intro q _ hq
      rw [if_neg, zero_mul]
      rintro ⟨h1, h2⟩
      apply hq
      ext
      · simp; omega
      · simp [h2]
    · intro hh; exact absurd (Finset.mem_univ _) hh

open scoped Matrix.Norms.Frobenius

theorem frobenius_norm_transpose_pow (F : Matrix Z Z ℝ) (k : ℕ) : ‖Fᵀ ^ k‖ = ‖F ^ k‖ := by
  rw [← Matrix.transpose_pow, Matrix.frobenius_norm_transpose]

open Filter Topology in
/-- **unique_and_convergent**: under the contraction HYPOTHESIS `hk hc hF : ‖F^k‖_F ≤ c < 1` (not proved: a numerical witness per
configuration, computed and recorded by the check) a fixed point `S` of `P ↦ F P Fᵀ + Q` is the ONLY fixed point, the
recursion started from ANY `P₀` converges to it, and the distance decays geometrically -/
theorem unique_and_convergent (F Q S : Matrix Z Z ℝ) (hfix : F * S * Fᵀ + Q = S) {k : ℕ} (hk : 0 < k) {c : ℝ}
    (hc : c < 1) (hF : ‖F ^ k‖ ≤ c) :
    (∀ S', F * S' * Fᵀ + Q = S' → S' = S)
    ∧ (∀ P0, Tendsto (Lyapunov.iter F Fᵀ Q P0) atTop (𝓝 S))
    ∧ (∀ P0 t, ‖Lyapunov.iter F Fᵀ Q P0 t - S‖
        ≤ Lyapunov.powBound F k * Lyapunov.powBound Fᵀ k * (c ^ 2) ^ (t / k) * ‖P0 - S‖) := by
  have hF' : ‖Fᵀ ^ k‖ ≤ c := by rw [frobenius_norm_transpose_pow]; exact hF
  exact ⟨fun S' h' => Lyapunov.fixed_unique hfix h' hk hc hF hF',
    fun P0 => Lyapunov.tendsto_fixed hfix hk hc hF hF' P0,
    fun P0 t => Lyapunov.dist_fixed_le hfix hk hF hF' P0 t⟩

open Filter Topology in
/-- the stability clause of the property, assembled: C04 identities + block stationarity + contraction witness ⇒
the theoretical covariance is the unique stationary covariance of the row recursion and is reached from any
starting covariance.  The contraction witness `hk hc hF` is a HYPOTHESIS (numerical, per configuration), as are the two C04
identities `hA hB`; the statement is about the recursion STATE `Z` (the stencil rows), not about the whole exposed screen -/
theorem vk_stable (T : Matrix Z (X ⊕ Z) ℝ) (A : Matrix X Z ℝ) (B : Matrix X X ℝ) (Sxx : Matrix X X ℝ)
    (Sxz : Matrix X Z ℝ) (Szx : Matrix Z X ℝ) (Szz : Matrix Z Z ℝ) (hzz : Szzᵀ = Szz) (hzx : Szxᵀ = Sxz)
    (hA : A * Szz = Sxz) (hB : B * Bᵀ = Sxx - A * Szx)
    (hstat : T * fromBlocks Sxx Sxz Szx Szz * Tᵀ = Szz)
    {k : ℕ} (hk : 0 < k) {c : ℝ} (hc : c < 1) (hF : ‖companionF T A ^ k‖ ≤ c) :
    let F := companionF T A
    let Q := companionG T B * (companionG T B)ᵀ
    (∀ S', F * S' * Fᵀ + Q = S' → S' = Szz) ∧ ∀ P0, Tendsto (Lyapunov.iter F Fᵀ Q P0) atTop (𝓝 Szz) := by
  intro F Q
  have hfix := vk_is_stationary T A B Sxx Sxz Szx Szz hzz hzx hA hB hstat
  have := unique_and_convergent F Q Szz hfix hk hc hF
  exact ⟨this.1, this.2.1⟩

/-- the noise term of the covariance recursion depends on `B` only through `B Bᵀ` -/
theorem companionG_gram (T : Matrix Z (X ⊕ Z) ℝ) (B : Matrix X X ℝ) :
    companionG T B * (companionG T B)ᵀ = T * fromBlocks (B * Bᵀ) 0 0 0 * Tᵀ := by
  have h : fromRows B (0 : Matrix Z X ℝ) * (fromRows B (0 : Matrix Z X ℝ))ᵀ = fromBlocks (B * Bᵀ) 0 0 0 := by
    rw [transpose_fromRows, fromRows_mul_fromCols]; simp
  simp only [companionG, transpose_mul]
  rw [← h]; simp only [Matrix.mul_assoc]

/-- **stationary_scales** (sibling screens: one geometry, another `r0`).  The fixed-point predicate is exactly the one of
`vk_is_stationary` / `vk_stable`: `F Σ Fᵀ + G Gᵀ = Σ` with `F = companionF T A`, `G = companionG T B`.  If `Σ` is a fixed point
of the covariance recursion of `(A, B)`, then `s • Σ` is a fixed point of the recursion of `(A, B')` for EVERY `B'` with
`B' B'ᵀ = s • (B Bᵀ)` (the sibling has the same `A` and `s = (r0'/r0)^(-5/3)`).  The hypothesis `0 ≤ s` is not needed for the
algebra and is not assumed (for `s < 0` such a `B'` exists only when `B Bᵀ = 0`). -/
theorem stationary_scales (T : Matrix Z (X ⊕ Z) ℝ) (A : Matrix X Z ℝ) (B B' : Matrix X X ℝ) (S : Matrix Z Z ℝ) (s : ℝ)
    (hB' : B' * B'ᵀ = s • (B * Bᵀ))
    (hfix : companionF T A * S * (companionF T A)ᵀ + companionG T B * (companionG T B)ᵀ = S) :
    companionF T A * (s • S) * (companionF T A)ᵀ + companionG T B' * (companionG T B')ᵀ = s • S := by
  have hG : companionG T B' * (companionG T B')ᵀ = s • (companionG T B * (companionG T B)ᵀ) := by
    rw [companionG_gram, companionG_gram, hB']
    have : fromBlocks (s • (B * Bᵀ)) (0 : Matrix X Z ℝ) (0 : Matrix Z X ℝ) (0 : Matrix Z Z ℝ)
        = s • fromBlocks (B * Bᵀ) 0 0 0 := by
      rw [fromBlocks_smul]; simp
    rw [this, Matrix.mul_smul, Matrix.smul_mul]
  rw [hG, Matrix.mul_smul, Matrix.smul_mul, ← smul_add, hfix]

open Filter Topology in
/-- … and under the contraction witness of the ORIGINAL screen (the sibling has the same `A`, hence the same `F`) the scaled
covariance is the sibling's ONLY stationary covariance and is reached from any starting covariance -/
theorem stationary_scales_unique (T : Matrix Z (X ⊕ Z) ℝ) (A : Matrix X Z ℝ) (B B' : Matrix X X ℝ) (S : Matrix Z Z ℝ) (s : ℝ)
    (hB' : B' * B'ᵀ = s • (B * Bᵀ))
    (hfix : companionF T A * S * (companionF T A)ᵀ + companionG T B * (companionG T B)ᵀ = S)
    {k : ℕ} (hk : 0 < k) {c : ℝ} (hc : c < 1) (hF : ‖companionF T A ^ k‖ ≤ c) :
    let F := companionF T A
    let Q' := companionG T B' * (companionG T B')ᵀ
    (∀ S', F * S' * Fᵀ + Q' = S' → S' = s • S) ∧ ∀ P0, Tendsto (Lyapunov.iter F Fᵀ Q' P0) atTop (𝓝 (s • S)) := by
  intro F Q'
  have := unique_and_convergent F Q' (s • S) (stationary_scales T A B B' S s hB' hfix) hk hc hF
  exact ⟨this.1, this.2.1⟩

open Filter Topology in
/-- the contraction hypothesis cannot be dropped: the scalar recursion `P ↦ 2·P·2` has the fixed point `0` but started from `1`
it runs off to infinity (this is what happened to the ill-conditioned configurations of the finding `stability:vk:L0/pixel>2e4`
on the pinned tree, fixed by 4518b2c) -/
theorem contraction_needed :
    ∃ F F' Q Ps P0 : ℝ, F * Ps * F' + Q = Ps ∧ ¬ Tendsto (Lyapunov.iter F F' Q P0) atTop (𝓝 Ps) := by
  refine ⟨2, 2, 0, 0, 1, by norm_num, ?_⟩
  have h : ∀ t, Lyapunov.iter (2:ℝ) 2 0 1 t = 4 ^ t := by
    intro t
    have := Lyapunov.iter_sub_fixed (F := (2:ℝ)) (F' := 2) (Q := 0) (Ps := 0) (by norm_num) 1 t
    simp only [sub_zero, mul_one] at this
    rw [this, ← mul_pow]; norm_num
  intro hlim
  have h4 : Tendsto (fun t : ℕ => (4:ℝ) ^ t) atTop atTop := tendsto_pow_atTop_atTop_of_one_lt (by norm_num)
  have : Tendsto (Lyapunov.iter (2:ℝ) 2 0 1) atTop atTop := by
    convert h4 using 1; funext t; exact h t
  exact not_tendsto_nhds_of_tendsto_atTop this _ hlim

/-- **bridge between the state machine and the matrix recursion**: for ANY row kernel, the stencil rows of the array after
`add_row` are `vkShift · [new row ; old stencil rows]` -/
theorem stencil_step {β : Type} (c : Cfg) (f : List (List ℝ) → List β → List ℝ) (ξ : ℕ → β) {s : State ℝ}
    (hf : RowOK c f) (h : WF c s) (nc : ℕ) (hnc : nc + 1 ≤ c.len) :
    stencilVec nc c.nx (addRow c f ξ s).rows
      = vkShift nc c.nx *ᵥ Sum.elim (toVec c.nx (newRow c f ξ s)) (stencilVec nc c.nx s.rows) := by
  funext p
  rw [vkShift_mulVec, shift_inv_internal c f ξ hf h (by omega)]
  obtain ⟨⟨r, hr⟩, cc⟩ := p
  cases r with
  | zero => simp [stencilVec, toVec]
  | succ r =>
    have hlt : r < s.rows.dropLast.length := by rw [List.length_dropLast, h.1]; omega
    simp only [stencilVec, toVec, List.getD_cons_succ, Nat.succ_ne_zero, dite_false, Nat.add_sub_cancel]
    congr 1
    rw [List.getD_eq_getElem?_getD, List.getD_eq_getElem?_getD, List.getElem?_dropLast, if_pos (by rw [h.1]; omega)]

theorem vkKernel_rowOK (n nc : ℕ) (hnc : nc + 1 ≤ n) (A B : List (List ℝ)) (hA : A.length = n)
    (hA' : ∀ r ∈ A, r.length = (nc + 1) * n) (hB : B.length = n) (hB' : ∀ r ∈ B, r.length = n) :
    RowOK (vkCfg n) (vkKernel n nc A B) :=
  fun rows b hr hr' hb => (vkKernel_spec n nc hnc A B hA hA' hB hB' rows hr hr' b hb).1

/-- **the state machine with the concrete von Kármán kernel IS the linear recursion `z' = F z + G b`** of Part 3, with
`F = vkShift·[A ; I]`, `G = vkShift·[B ; 0]` and `b` the next `n` values of the generator stream -/
theorem vk_state_recursion (n nc : ℕ) (hnc : nc + 1 ≤ n) (A B : List (List ℝ)) (hA : A.length = n)
    (hA' : ∀ r ∈ A, r.length = (nc + 1) * n) (hB : B.length = n) (hB' : ∀ r ∈ B, r.length = n)
    (ξ : ℕ → ℝ) {s : State ℝ} (h : WF (vkCfg n) s) :
    stencilVec nc n (addRow (vkCfg n) (vkKernel n nc A B) ξ s).rows
      = companionF (vkShift nc n) (pairMat nc n A) *ᵥ stencilVec nc n s.rows
        + companionG (vkShift nc n) (toMat n n B) *ᵥ (fun j : Fin n => ξ (s.pos + j.val)) := by
  have hf := vkKernel_rowOK n nc hnc A B hA hA' hB hB'
  have hs : stencilVec nc n (addRow (vkCfg n) (vkKernel n nc A B) ξ s).rows
      = vkShift nc n *ᵥ Sum.elim (toVec n (newRow (vkCfg n) (vkKernel n nc A B) ξ s)) (stencilVec nc n s.rows) :=
    stencil_step (vkCfg n) _ ξ hf h nc hnc
  rw [hs]
  have hrow : toVec n (newRow (vkCfg n) (vkKernel n nc A B) ξ s)
      = pairMat nc n A *ᵥ stencilVec nc n s.rows + toMat n n B *ᵥ (fun j : Fin n => ξ (s.pos + j.val)) := by
    have := (vkKernel_spec n nc hnc A B hA hA' hB hB' s.rows h.1 h.2 (draws ξ s.pos n) (draws_length ..)).2
    rw [toVec_draws] at this
    exact this
  rw [hrow, companionF, companionG, ← mulVec_mulVec, ← mulVec_mulVec, ← mulVec_add, fromRows_mulVec, fromRows_mulVec,
    one_mulVec, zero_mulVec]
  congr 1
  funext q
  cases q <;> simp

theorem pow_mulVec_eigen (F : Matrix Z Z ℝ) (v : Z → ℝ) (lam : ℝ) (hv : F *ᵥ v = lam • v) (t : ℕ) :
    (F ^ t) *ᵥ v = lam ^ t • v := by
  induction t with
  | zero => simp
  | succ t ih => rw [pow_succ, ← mulVec_mulVec, hv, mulVec_smul, ih, smul_smul, pow_succ, mul_comm]

open Filter Topology in
/-- converse of the contraction hypothesis: if the companion matrix has a real eigenvalue of modulus ≥ 1 (what the check found on
the pinned tree for the configurations of the finding `stability:vk:L0/pixel>2e4`, fixed by 4518b2c), the covariance recursion started at `S + v vᵀ` never returns to the fixed point `S` -/
theorem unstable_diverges (F Q S : Matrix Z Z ℝ) (hfix : F * S * Fᵀ + Q = S) (v : Z → ℝ) (lam : ℝ)
    (hv : F *ᵥ v = lam • v) (hne : v ≠ 0) (hlam : 1 ≤ |lam|) :
    ¬ Tendsto (Lyapunov.iter F Fᵀ Q (S + vecMulVec v v)) atTop (𝓝 S) := by
  intro hlim
  obtain ⟨i, hi⟩ : ∃ i, v i ≠ 0 := by
    by_contra h
    exact hne (funext fun j => by_contra fun hj => h ⟨j, hj⟩)
  have hD : ∀ t, Lyapunov.iter F Fᵀ Q (S + vecMulVec v v) t - S = (lam ^ t * lam ^ t) • vecMulVec v v := by
    intro t
    rw [Lyapunov.iter_sub_fixed hfix, add_sub_cancel_left, mul_vecMulVec, vecMulVec_mul, ← Matrix.transpose_pow,
      vecMul_transpose, pow_mulVec_eigen F v lam hv t, smul_vecMulVec, vecMulVec_smul, smul_smul]
  have hentry : Tendsto (fun t => (Lyapunov.iter F Fᵀ Q (S + vecMulVec v v) t - S) i i) atTop (𝓝 ((S - S) i i)) := by
    have hc : Continuous (fun M : Matrix Z Z ℝ => (M - S) i i) := (continuous_id.sub continuous_const).matrix_elem i i
    exact (hc.tendsto S).comp hlim
  simp only [hD, sub_self, Matrix.zero_apply, Matrix.smul_apply, vecMulVec_apply, smul_eq_mul] at hentry
  have hge : ∀ t : ℕ, v i * v i ≤ |lam ^ t * lam ^ t * (v i * v i)| := by
    intro t
    have h1 : 1 ≤ |lam| ^ t := one_le_pow₀ hlam
    have h2 : (0:ℝ) ≤ v i * v i := mul_self_nonneg _
    rw [abs_mul, abs_mul, abs_pow, abs_of_nonneg h2]
    nlinarith [mul_le_mul h1 h1 (by linarith) (by linarith : (0:ℝ) ≤ |lam| ^ t)]
  have hpos : 0 < v i * v i := mul_self_pos.2 hi
  have habs := hentry.abs
  rw [abs_zero] at habs
  have := (tendsto_order.1 habs).2 (v i * v i) hpos
  obtain ⟨t, ht⟩ := this.exists
  exact absurd (hge t) (not_le.2 ht)

/-- the kernel contract `RowOK` holds for the concrete Fried/Kolmogorov kernel as soon as the stencil coordinates and the
reference point lie inside the working array (C04 `fried_stencil_inbounds`; checked per object by the harness) -/
theorem friedKernel_rowOK (c : Cfg) (A B : List (List ℝ)) (coords : List (ℕ × ℕ)) (ref : ℕ × ℕ)
    (hA : A.length = c.nx) (hB : B.length = c.nx) (hin : ∀ ij ∈ coords, ij.1 < c.len ∧ ij.2 < c.nx)
    (href : ref.1 < c.len ∧ ref.2 < c.nx) : RowOK c (friedKernel A B coords ref) := by
  intro rows b hr hr' _
  obtain ⟨row, e, hl⟩ := friedRow_length c.nx A B rows coords ref b hA hB
    (fun ij hij => inbounds_of_shape c.len c.nx rows hr hr' ij (hin ij hij).1 (hin ij hij).2)
    (inbounds_of_shape c.len c.nx rows hr hr' ref href.1 href.2)
  simp only [friedKernel, e, Option.getD_some, hl]

open Filter Topology in
/-- whatever screen the recursion is started from, its influence `F^t z₀` on later stencil states dies out (given the contraction
witness `hk hc hF`, a hypothesis) -/
theorem start_forgotten (F : Matrix Z Z ℝ) {k : ℕ} (hk : 0 < k) {c : ℝ} (hc : c < 1) (hF : ‖F ^ k‖ ≤ c) :
    Tendsto (fun t : ℕ => F ^ t) atTop (𝓝 0) :=
  Lyapunov.tendsto_pow_zero F hk hc hF

open Filter Topology in
/-- the stability clause for the concrete model: the matrices are those denoted by the lists `A_mat`, `B_mat` the state
machine runs on (`vk_state_recursion`), the selection is `vkShift`.  Hypotheses, not proved: the C04 identities `hA hB`, block
stationarity `hstat` (discharged in `vk_stable_from_cov`) and the contraction witness `hk hc hF`.  State = first `nc+1` rows. -/
theorem vk_stable_concrete (n nc : ℕ) (A B : List (List ℝ)) (Sxx : Matrix (Fin n) (Fin n) ℝ)
    (Sxz : Matrix (Fin n) (Fin (nc + 1) × Fin n) ℝ) (Szx : Matrix (Fin (nc + 1) × Fin n) (Fin n) ℝ)
    (Szz : Matrix (Fin (nc + 1) × Fin n) (Fin (nc + 1) × Fin n) ℝ) (hzz : Szzᵀ = Szz) (hzx : Szxᵀ = Sxz)
    (hA : pairMat nc n A * Szz = Sxz) (hB : toMat n n B * (toMat n n B)ᵀ = Sxx - pairMat nc n A * Szx)
    (hstat : vkShift nc n * fromBlocks Sxx Sxz Szx Szz * (vkShift nc n)ᵀ = Szz)
    {k : ℕ} (hk : 0 < k) {c : ℝ} (hc : c < 1) (hF : ‖companionF (vkShift nc n) (pairMat nc n A) ^ k‖ ≤ c) :
    let F := companionF (vkShift nc n) (pairMat nc n A)
    let Q := companionG (vkShift nc n) (toMat n n B) * (companionG (vkShift nc n) (toMat n n B))ᵀ
    (∀ S', F * S' * Fᵀ + Q = S' → S' = Szz) ∧ (∀ P0, Tendsto (Lyapunov.iter F Fᵀ Q P0) atTop (𝓝 Szz))
      ∧ Tendsto (fun t : ℕ => F ^ t) atTop (𝓝 0) := by
  intro F Q
  have := vk_stable (vkShift nc n) (pairMat nc n A) (toMat n n B) Sxx Sxz Szx Szz hzz hzx hA hB hstat hk hc hF
  exact ⟨this.1, this.2, start_forgotten F hk hc hF⟩

/-- non-vacuity of the stability hypotheses: the AR(1) screen `x = (3/5) z + (4/5) b` with unit variance (one pixel wide, one
stencil row) satisfies the C04 identities, block stationarity and the contraction hypothesis with `k = 1`, `c = 3/5`. -/
example : ∃ (T : Matrix (Fin 1) (Fin 1 ⊕ Fin 1) ℝ) (A B Sxx Sxz Szx Szz : Matrix (Fin 1) (Fin 1) ℝ),
    Szzᵀ = Szz ∧ Szxᵀ = Sxz ∧ A * Szz = Sxz ∧ B * Bᵀ = Sxx - A * Szx
    ∧ T * fromBlocks Sxx Sxz Szx Szz * Tᵀ = Szz ∧ ‖companionF T A ^ 1‖ ≤ 3/5 ∧ companionF T A ≠ 0 := by
  refine ⟨fromCols 1 0, (3/5 : ℝ) • 1, (4/5 : ℝ) • 1, 1, (3/5 : ℝ) • 1, (3/5 : ℝ) • 1, 1, ?_, ?_, ?_, ?_, ?_, ?_, ?_⟩
  · simp
  · simp
  · simp
  · simp only [transpose_smul, transpose_one, Matrix.smul_mul, Matrix.mul_smul, Matrix.one_mul, smul_smul]
    ext i j
    have : i = j := Subsingleton.elim i j
    simp [Matrix.one_apply, this]; norm_num
  · rw [fromCols_mul_fromBlocks, transpose_fromCols, fromCols_mul_fromRows]; simp
  · have hF : companionF (fromCols (1 : Matrix (Fin 1) (Fin 1) ℝ) 0) ((3/5 : ℝ) • 1) = (3/5 : ℝ) • 1 := by
      rw [companionF, fromCols_mul_fromRows]; simp
    rw [hF, pow_one, norm_smul]
    have : ‖(1 : Matrix (Fin 1) (Fin 1) ℝ)‖ = 1 := by
      rw [Matrix.frobenius_norm_def]; simp
    rw [this]; norm_num
  · have hF : companionF (fromCols (1 : Matrix (Fin 1) (Fin 1) ℝ) 0) ((3/5 : ℝ) • 1) = (3/5 : ℝ) • 1 := by
      rw [companionF, fromCols_mul_fromRows]; simp
    rw [hF]
    intro h
    have := congrFun (congrFun h 0) 0
    simp at this

/-! covariance blocks built, like `make_covmats`, from ONE function `κ` of the displacement (in pixels) between two phase points:
the new row sits at row `-1`, the stencil at rows `0 … nc` (`phase_covariance(separations)`: `κ dr dc = Cφ(pixel_scale·√(dr²+dc²))`) -/

def covZZ (κ : ℤ → ℤ → ℝ) (nc nx : ℕ) : Matrix (Fin (nc + 1) × Fin nx) (Fin (nc + 1) × Fin nx) ℝ :=
  fun p q => κ ((p.1.val : ℤ) - q.1.val) ((p.2.val : ℤ) - q.2.val)
def covXX (κ : ℤ → ℤ → ℝ) (nx : ℕ) : Matrix (Fin nx) (Fin nx) ℝ :=
  fun c c' => κ 0 ((c.val : ℤ) - c'.val)
def covXZ (κ : ℤ → ℤ → ℝ) (nc nx : ℕ) : Matrix (Fin nx) (Fin (nc + 1) × Fin nx) ℝ :=
  fun c q => κ (-1 - (q.1.val : ℤ)) ((c.val : ℤ) - q.2.val)
def covZX (κ : ℤ → ℤ → ℝ) (nc nx : ℕ) : Matrix (Fin (nc + 1) × Fin nx) (Fin nx) ℝ :=
  fun p c => κ ((p.1.val : ℤ) + 1) ((p.2.val : ℤ) - c.val)

/-- what `vkShift` selects -/
def vkSel (nc nx : ℕ) (w : Fin nx ⊕ (Fin (nc + 1) × Fin nx) → ℝ) (p : Fin (nc + 1) × Fin nx) : ℝ :=
  if h : p.1.val = 0 then w (Sum.inl p.2) else w (Sum.inr (⟨p.1.val - 1, by omega⟩, p.2))

theorem vkShift_mulVec' (nc nx : ℕ) (w : Fin nx ⊕ (Fin (nc + 1) × Fin nx) → ℝ) :
    vkShift nc nx *ᵥ w = vkSel nc nx w := by
  funext p
  have : w = Sum.elim (w ∘ Sum.inl) (w ∘ Sum.inr) := by funext a; cases a <;> rfl
  rw [this, vkShift_mulVec]
  simp only [vkSel, Function.comp, Sum.elim_inl, Sum.elim_inr]

theorem vkShift_conj (nc nx : ℕ) (M : Matrix (Fin nx ⊕ (Fin (nc + 1) × Fin nx)) (Fin nx ⊕ (Fin (nc + 1) × Fin nx)) ℝ)
    (p q : Fin (nc + 1) × Fin nx) :
    (vkShift nc nx * M * (vkShift nc nx)ᵀ) p q = vkSel nc nx (fun a => vkSel nc nx (M a) q) p := by
  have h1 : ∀ a, (M * (vkShift nc nx)ᵀ) a q = vkSel nc nx (M a) q := by
    intro a
    rw [← vkShift_mulVec']
    simp only [Matrix.mul_apply, mulVec, dotProduct, transpose_apply]
    exact Finset.sum_congr rfl (fun b _ => mul_comm _ _)
  rw [Matrix.mul_assoc]
  have : (vkShift nc nx * (M * (vkShift nc nx)ᵀ)) p q = (vkShift nc nx *ᵥ (fun a => (M * (vkShift nc nx)ᵀ) a q)) p := by
    simp only [Matrix.mul_apply, mulVec, dotProduct]
  rw [this, vkShift_mulVec']
  simp only [h1]

/-- **block stationarity is a theorem** for covariances that depend on the displacement only: the entries that make up the next
stencil (new row at row −1 and stencil rows 0 … nc−1) have the same covariance as the stencil rows 0 … nc -/
theorem vk_block_stationary (κ : ℤ → ℤ → ℝ) (nc nx : ℕ) :
    vkShift nc nx * fromBlocks (covXX κ nx) (covXZ κ nc nx) (covZX κ nc nx) (covZZ κ nc nx) * (vkShift nc nx)ᵀ
      = covZZ κ nc nx := by
  ext p q
  rw [vkShift_conj]
  obtain ⟨⟨r, hr⟩, c⟩ := p
  obtain ⟨⟨r', hr'⟩, c'⟩ := q
  cases r with
  | zero =>
    cases r' with
    | zero => simp [vkSel, covXX, covZZ]
    | succ r' =>
      simp only [vkSel, covXZ, covZZ, fromBlocks_apply₁₂, Nat.succ_ne_zero, dite_false, dite_true, Nat.add_sub_cancel]
      congr 1; push_cast; ring
  | succ r =>
    cases r' with
    | zero =>
      simp only [vkSel, covZX, covZZ, fromBlocks_apply₂₁, Nat.succ_ne_zero, dite_false, dite_true, Nat.add_sub_cancel]
      congr 1
    | succ r' =>
      simp only [vkSel, covZZ, fromBlocks_apply₂₂, Nat.succ_ne_zero, dite_false, Nat.add_sub_cancel]
      congr 1; push_cast; ring

theorem covZZ_symm (κ : ℤ → ℤ → ℝ) (hκ : ∀ a b, κ (-a) (-b) = κ a b) (nc nx : ℕ) : (covZZ κ nc nx)ᵀ = covZZ κ nc nx := by
  ext p q
  simp only [transpose_apply, covZZ]
  rw [← hκ]; congr 1 <;> ring

theorem covZX_transpose (κ : ℤ → ℤ → ℝ) (hκ : ∀ a b, κ (-a) (-b) = κ a b) (nc nx : ℕ) :
    (covZX κ nc nx)ᵀ = covXZ κ nc nx := by
  ext c q
  simp only [transpose_apply, covZX, covXZ]
  rw [← hκ]; congr 1 <;> ring

open Filter Topology in
/-- **the stability clause with block stationarity and symmetry discharged**: for covariance blocks built from an even function
of the displacement, the two C04 identities (`hA hB`, hypotheses) and a contraction witness (`hk hc hF`, a hypothesis: numerical,
per configuration) suffice.  SCOPE: `covZZ κ nc n` is the covariance of the recursion STATE — the first `nc+1 = n_columns` rows of the
working array.  Nothing is said about rows `n_columns … N−1` of the exposed screen; for those see `exposed_model_cov_not_fixed`. -/
theorem vk_stable_from_cov (κ : ℤ → ℤ → ℝ) (hκ : ∀ a b, κ (-a) (-b) = κ a b) (n nc : ℕ) (A B : List (List ℝ))
    (hA : pairMat nc n A * covZZ κ nc n = covXZ κ nc n)
    (hB : toMat n n B * (toMat n n B)ᵀ = covXX κ n - pairMat nc n A * covZX κ nc n)
    {k : ℕ} (hk : 0 < k) {c : ℝ} (hc : c < 1) (hF : ‖companionF (vkShift nc n) (pairMat nc n A) ^ k‖ ≤ c) :
    let F := companionF (vkShift nc n) (pairMat nc n A)
    let Q := companionG (vkShift nc n) (toMat n n B) * (companionG (vkShift nc n) (toMat n n B))ᵀ
    (∀ S', F * S' * Fᵀ + Q = S' → S' = covZZ κ nc n)
      ∧ (∀ P0, Tendsto (Lyapunov.iter F Fᵀ Q P0) atTop (𝓝 (covZZ κ nc n)))
      ∧ Tendsto (fun t : ℕ => F ^ t) atTop (𝓝 0) :=
  vk_stable_concrete n nc A B (covXX κ n) (covXZ κ nc n) (covZX κ nc n) (covZZ κ nc n) (covZZ_symm κ hκ nc n)
    (covZX_transpose κ hκ nc n) hA hB (vk_block_stationary κ nc n) hk hc hF

/-! ### Scope of the stability clause: the recursion STATE, not the whole exposed screen

Everything above (`vk_is_stationary` … `vk_stable_from_cov`) is about the state `Z` = the first `n_columns` rows of the working
array — all the recursion ever reads.  The exposed screen also shows the older rows, which are former states shifted down.  The
smallest instance shows that for THOSE the theoretical covariance is in general not stationary, even when `A` and `B` satisfy the
two C04 identities exactly: a screen one pixel wide with `n_columns = 1` that keeps three rows,
`row₀' = a·row₀ + b·g`, `row₁' = row₀`, `row₂' = row₁`  (`F`, `Q = G Gᵀ` below; `a·c₀ = c₁`, `a c₀ a + b² = c₀` are the identities for
the model covariance `c₀, c₁, c₂` at row lags 0, 1, 2). -/

/-- the stationary covariance of the three exposed rows: lags 0 and 1 are the model's, lag 2 is `a·c₁ = c₁²/c₀` -/
theorem exposed_fixed_point (c0 c1 a q : ℝ) (hA : a * c0 = c1) (hq : a * c0 * a + q = c0) :
    let F : Matrix (Fin 3) (Fin 3) ℝ := !![a, 0, 0; 1, 0, 0; 0, 1, 0]
    let Q : Matrix (Fin 3) (Fin 3) ℝ := !![q, 0, 0; 0, 0, 0; 0, 0, 0]
    let P : Matrix (Fin 3) (Fin 3) ℝ := !![c0, c1, a * c1; c1, c0, c1; a * c1, c1, c0]
    F * P * Fᵀ + Q = P := by
  intro F Q P
  ext i j
  simp only [Matrix.add_apply, Matrix.mul_apply, Matrix.transpose_apply, Fin.sum_univ_three]
  fin_cases i <;> fin_cases j <;> simp [F, Q, P] <;> linarith

/-- **the theoretical covariance of the EXPOSED rows is not stationary** unless `c₂ c₀ = c₁²` (an exponential covariance, which the
von Kármán one is not): the stability clause cannot be extended from the state to the whole exposed screen -/
theorem exposed_model_cov_not_fixed (c0 c1 c2 a q : ℝ) (hA : a * c0 = c1) (h2 : c2 * c0 ≠ c1 * c1) :
    let F : Matrix (Fin 3) (Fin 3) ℝ := !![a, 0, 0; 1, 0, 0; 0, 1, 0]
    let Q : Matrix (Fin 3) (Fin 3) ℝ := !![q, 0, 0; 0, 0, 0; 0, 0, 0]
    let S : Matrix (Fin 3) (Fin 3) ℝ := !![c0, c1, c2; c1, c0, c1; c2, c1, c0]
    F * S * Fᵀ + Q ≠ S := by
  intro F Q S h
  have h02 := congrFun (congrFun h 0) 2
  simp only [Matrix.add_apply, Matrix.mul_apply, Matrix.transpose_apply, Fin.sum_univ_three] at h02
  simp [F, Q, S] at h02
  apply h2
  rw [← h02, ← hA]; ring

open Filter Topology in
/-- … and under a contraction witness (hypothesis, as everywhere) the covariance of the exposed rows converges, from any start,
to the matrix of `exposed_fixed_point`, whose lag-2 entry is `a·c₁` and not the model's `c₂` -/
theorem exposed_stationary_limit (c0 c1 c2 a q : ℝ) (hA : a * c0 = c1) (hq : a * c0 * a + q = c0) (h2 : c2 * c0 ≠ c1 * c1)
    {k : ℕ} (hk : 0 < k) {c : ℝ} (hc : c < 1)
    (hF : ‖(!![a, 0, 0; 1, 0, 0; 0, 1, 0] : Matrix (Fin 3) (Fin 3) ℝ) ^ k‖ ≤ c) :
    let F : Matrix (Fin 3) (Fin 3) ℝ := !![a, 0, 0; 1, 0, 0; 0, 1, 0]
    let Q : Matrix (Fin 3) (Fin 3) ℝ := !![q, 0, 0; 0, 0, 0; 0, 0, 0]
    let P : Matrix (Fin 3) (Fin 3) ℝ := !![c0, c1, a * c1; c1, c0, c1; a * c1, c1, c0]
    (∀ P0, Tendsto (Lyapunov.iter F Fᵀ Q P0) atTop (𝓝 P)) ∧ P 0 0 = c0 ∧ P 0 1 = c1 ∧ P 0 2 ≠ c2 := by
  intro F Q P
  refine ⟨(unique_and_convergent F Q P (exposed_fixed_point c0 c1 a q hA hq) hk hc hF).2.1, by simp [P], by simp [P], ?_⟩
  intro h
  simp [P] at h
  apply h2
  rw [← h, ← hA]; ring

/-- non-vacuity of the hypotheses of the three theorems above (`c = 1, 1/2, 1/3`: `a = 1/2`, `b² = 3/4`) -/
example : ∃ c0 c1 c2 a q : ℝ, a * c0 = c1 ∧ a * c0 * a + q = c0 ∧ c2 * c0 ≠ c1 * c1 ∧ 0 ≤ q :=
  ⟨1, 1 / 2, 1 / 3, 1 / 2, 3 / 4, by norm_num, by norm_num, by norm_num, by norm_num⟩

end stability

/-
NOT PROVED (stated here, listed in the evidence file under `assumptions`, evaluated numerically by the check):

 * finite_ieee : for binary64 payloads no entry of the array is ever ±inf/NaN.  `entries_inv` reduces it to "the row
   kernel maps finite arrays and finite draws to finite rows", i.e. no overflow in `A·Z + B·b`; for the stable
   configurations this is a statement about IEEE arithmetic and the tails of the normal generator; on the
   pinned tree (float32 covariance) it was FALSE for outer scales beyond ≈ 2·10⁴ pixels, and on the repaired tree (double
   precision, 4518b2c) it is FALSE in the long run beyond ≈ 10⁵…10⁶ pixels, where the recursion diverges exponentially (open
   finding `stability:vk:L0/pixel>2e4`: PhaseScreenVonKarman(32, 0.04, 0.3, 4e6) reaches 7·10³⁴ after 20000 rows and overflows
   later); the check replays that witness on every run and generates outer scales up to 10⁷ pixels.
 * contraction_holds : ∀ configurations for which construction succeeds, ∃ k c, ‖companionF (vkShift nc n) A ^ k‖_F ≤ c < 1.
   This is a numerical fact about the matrices SciPy returns; the check computes a witness (k, ‖F^k‖_F) per
   configuration.  It is FALSE of the code for large outer scales (OPEN finding `stability:vk:L0/pixel>2e4`): on the pinned tree
   (float32 covariance) beyond ≈ 2·10⁴ pixels; on the repaired tree (4518b2c) beyond L0/pixel ≈ 10⁵, where the spectral radius of
   the companion matrix is 1 ± eps·cond(Σzz) and its sign a coin toss for every n_columns, the default included
   (PhaseScreenVonKarman(32, 0.04, 0.3, 4e6): 1 + 3.4·10⁻³; marginal already at 1.8·10⁵ pixels: PhaseScreenVonKarman(15, 0.0394399,
   0.307893, 7018.79, n_columns=4): 1 + 9.1·10⁻⁸) — `unstable_diverges` + a real eigenvalue ≥ 1 show non-convergence there.  For
   L0/pixel ≤ 2·10⁴ a witness is found for every configuration the check generates.
   EVERY stability theorem above (`unique_and_convergent`, `vk_stable`, `vk_stable_concrete`, `vk_stable_from_cov`,
   `start_forgotten`, `exposed_stationary_limit`) carries this witness as a HYPOTHESIS (`hk hc hF`).
 * exposed_screen : the stability clause is proved for the recursion STATE (first n_columns rows) only.  For the older rows of
   the exposed N×N screen the theoretical covariance is in general NOT stationary (`exposed_model_cov_not_fixed`); the check
   computes the actual stationary covariance of the whole working array per run: it differs from the model on the real code
   (known finding `stationary:vk:exposed-rows-beyond-stencil`).
 * c04_identities : A·Σzz = Σxz and B·Bᵀ = Σxx − A·Σzx for the matrices the constructor computes (Cholesky solve and SVD
   are external kernels; this is property C04).  Their joint consequence F·S·Fᵀ + G·Gᵀ = S is checked numerically.
 * covariance_bridge : Cov(F z + G b) = F·Cov(z)·Fᵀ + G·Gᵀ for unit white noise b independent of z (DESIGN §3.4).
 * fried_recursion : no matrix-level statement is made for the Fried/Kolmogorov kernel (the property claims none).
-/

end AoVerif.Props.C05
