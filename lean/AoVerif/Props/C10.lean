/-
C10 — optical propagators are linear and conserve power.

Theorems are about `Model/Propagation.lean` (hand-written mirror of `aotools/opticalpropagation.py`, tied to the code by the
correspondence driver) at `K = ℝ`, `C = ℂ`, for EVERY grid size `N` (the property only asks for even `N`).
* linearity: for ANY FFT kernel tables `w`, `wi` (not only roots of unity), complex coefficients `α β`, all parameters;
* power: for the FFT kernel `w m = ζ^m`, `wi m = ζ⁻¹^m` with `ζ` any primitive N-th root of unity in ℂ (`e^{-2πi/N}` is one:
  `Props.C09.fft_root_primitive`), every complex input, spacings ≠ 0, distance / focal length ≠ 0 of either sign, wavelength ≠ 0
  (not even needed for `angularSpectrum`).
Output indices range over the grid `a, b < N`; sums are over the whole grid.
-/
import AoVerif.Lemmas.Propagation

namespace AoVerif.Props.C10
open Finset AoVerif AoVerif.Fourier AoVerif.Propagation

set_option linter.unusedSectionVars false
variable [Transc ℝ] [RealTransc]

/-! ### linearity (any kernel table, any parameters) -/

theorem angularSpectrum_linear (N : ℕ) (w wi : ℕ → ℂ) (U V : ℕ → ℕ → ℂ) (α β : ℂ) (wvl d1 d2 z : ℝ)
    {a b : ℕ} (ha : a < N) (hb : b < N) :
    angularSpectrum N w wi (fun a b => α * U a b + β * V a b) wvl d1 d2 z a b
      = α * angularSpectrum N w wi U wvl d1 d2 z a b + β * angularSpectrum N w wi V wvl d1 d2 z a b := by
  by_cases hz : z = 0
  · subst hz
    simp only [angularSpectrum_zero N w wi _ wvl d1 d2 ha hb]
  · simp only [angularSpectrum_eq N w wi _ wvl d1 d2 z hz ha hb]
    exact ((isLin_mul_left (fun a b => (CField.cis (asTheta3 N wvl d1 d2 z a b) : ℂ))).comp
      ((isLin_ift2' N wi (1 / ((N:ℝ) * d1))).comp
      ((isLin_mul_left (fun a b => (CField.cis (asTheta2 N wvl d1 d2 z a b) : ℂ))).comp
      ((isLin_ft2' N w d1).comp
      (isLin_mul_div (fun a b => (CField.cis (asTheta1 N wvl d1 d2 z a b) : ℂ)) ((d2 / d1 : ℝ) : ℂ)))))) α β U V a b

theorem oneStepFresnel_linear (N : ℕ) (w : ℕ → ℂ) (U V : ℕ → ℕ → ℂ) (α β : ℂ) (wvl d1 z : ℝ)
    {a b : ℕ} (ha : a < N) (hb : b < N) :
    oneStepFresnel N w (fun a b => α * U a b + β * V a b) wvl d1 z a b
      = α * oneStepFresnel N w U wvl d1 z a b + β * oneStepFresnel N w V wvl d1 z a b := by
  simp only [oneStepFresnel_eq N w _ wvl d1 z ha hb]
  exact ((isLin_mul_left (fun a b => fresnelAmp wvl z * (CField.cis (quadTheta N wvl (wvl * z / ((N:ℝ) * d1)) z a b) : ℂ))).comp
    ((isLin_ft2' N w d1).comp (isLin_mul_right _))) α β U V a b

theorem lensAgainst_linear (N : ℕ) (w : ℕ → ℂ) (U V : ℕ → ℕ → ℂ) (α β : ℂ) (wvl d1 f : ℝ)
    {a b : ℕ} (ha : a < N) (hb : b < N) :
    lensAgainst N w (fun a b => α * U a b + β * V a b) wvl d1 f a b
      = α * lensAgainst N w U wvl d1 f a b + β * lensAgainst N w V wvl d1 f a b := by
  simp only [lensAgainst_eq N w _ wvl d1 f ha hb]
  exact ((isLin_mul_left (fun a b => (CField.cis (lensTheta N wvl d1 f a b) : ℂ)
      / ((CField.i (K := ℝ) : ℂ) * (wvl:ℂ) * (f:ℂ)))).comp (isLin_ft2' N w d1)) α β U V a b

theorem twoStepFresnel_pinned_linear (N : ℕ) (w : ℕ → ℂ) (U V : ℕ → ℕ → ℂ) (α β : ℂ) (wvl d1 d2 z : ℝ)
    {a b : ℕ} (ha : a < N) (hb : b < N) :
    twoStepFresnel_pinned N w (fun a b => α * U a b + β * V a b) wvl d1 d2 z a b
      = α * twoStepFresnel_pinned N w U wvl d1 d2 z a b + β * twoStepFresnel_pinned N w V wvl d1 d2 z a b := by
  simp only [twoStepFresnel_pinned_eq N w _ wvl d1 d2 z ha hb]
  exact ((isLin_mul_left (fun a b => fresnelAmp wvl (z - twoStepDz1 d1 d2 z)
        * (CField.cis (quadTheta N wvl d2 (z - twoStepDz1 d1 d2 z) a b) : ℂ))).comp
    ((isLin_ft2' N w _).comp ((isLin_mul_right _).comp
      ((isLin_mul_left (fun a b => fresnelAmp wvl (twoStepDz1 d1 d2 z)
        * (CField.cis (quadTheta N wvl (twoStepD1a N wvl d1 d2 z) (twoStepDz1 d1 d2 z) a b) : ℂ))).comp
      ((isLin_ft2' N w d1).comp (isLin_mul_right _)))))) α β U V a b

/-- the repaired two-step propagator (with the final point reflection whenever the two partial distances have opposite signs) -/
theorem twoStepFresnel_linear (N : ℕ) (w : ℕ → ℂ) (U V : ℕ → ℕ → ℂ) (α β : ℂ) (wvl d1 d2 z : ℝ)
    {a b : ℕ} (ha : a < N) (hb : b < N) :
    twoStepFresnel N w (fun a b => α * U a b + β * V a b) wvl d1 d2 z a b
      = α * twoStepFresnel N w U wvl d1 d2 z a b + β * twoStepFresnel N w V wvl d1 d2 z a b := by
  have hN : 0 < N := by omega
  simp only [twoStepFresnel_eq N w _ wvl d1 d2 z ha hb]
  split_ifs
  · exact twoStepFresnel_pinned_linear N w U V α β wvl d1 d2 z (reflIdx_lt hN a) (reflIdx_lt hN b)
  · exact twoStepFresnel_pinned_linear N w U V α β wvl d1 d2 z ha hb

/-! ### conservation of power -/
section power
variable {N : ℕ} {ζ : ℂ}

/-- `angularSpectrum`: `Σ|U_out|² d2² = Σ|U_in|² d1²`, any magnification `d2/d1`, `z ≠ 0` of either sign, any wavelength -/
theorem angularSpectrum_power (hζ : IsPrimitiveRoot ζ N) (hN : 0 < N) (U : ℕ → ℕ → ℂ) (wvl d1 d2 z : ℝ)
    (hd1 : d1 ≠ 0) (hd2 : d2 ≠ 0) (hz : z ≠ 0) :
    (∑ a ∈ range N, ∑ b ∈ range N,
        Complex.normSq (angularSpectrum N (fun m => ζ ^ m) (fun m => ζ⁻¹ ^ m) U wvl d1 d2 z a b)) * d2 ^ 2
      = (∑ a ∈ range N, ∑ b ∈ range N, Complex.normSq (U a b)) * d1 ^ 2 := by
  have hNr : (N:ℝ) ≠ 0 := by exact_mod_cast (Nat.pos_iff_ne_zero.mp hN)
  have e1 : ∑ a ∈ range N, ∑ b ∈ range N,
        Complex.normSq (angularSpectrum N (fun m => ζ ^ m) (fun m => ζ⁻¹ ^ m) U wvl d1 d2 z a b)
      = ∑ a ∈ range N, ∑ b ∈ range N, Complex.normSq (ift2' N (fun m => ζ⁻¹ ^ m) (1 / ((N:ℝ) * d1))
          (fun a b => (CField.cis (asTheta2 N wvl d1 d2 z a b) : ℂ) * ft2' N (fun m => ζ ^ m) d1
            (fun a b => (CField.cis (asTheta1 N wvl d1 d2 z a b) : ℂ) * U a b / ((d2 / d1 : ℝ) : ℂ)) a b) a b) := by
    apply sum_congr rfl; intro a ha; apply sum_congr rfl; intro b hb
    rw [angularSpectrum_eq N _ _ U wvl d1 d2 z hz (mem_range.mp ha) (mem_range.mp hb), Complex.normSq_mul, normSq_cis, one_mul]
  rw [e1, ift2'_power hζ hN]
  simp only [Complex.normSq_mul, normSq_cis, one_mul]
  rw [ft2'_power hζ hN]
  simp only [Complex.normSq_div, Complex.normSq_mul, normSq_cis, one_mul, Complex.normSq_ofReal]
  simp only [← sum_div]
  field_simp

/-- `oneStepFresnel`: output spacing `d2 = λz/(N d1)` -/
theorem oneStepFresnel_power (hζ : IsPrimitiveRoot ζ N) (hN : 0 < N) (U : ℕ → ℕ → ℂ) (wvl d1 z : ℝ)
    (hw : wvl ≠ 0) (hd1 : d1 ≠ 0) (hz : z ≠ 0) :
    (∑ a ∈ range N, ∑ b ∈ range N, Complex.normSq (oneStepFresnel N (fun m => ζ ^ m) U wvl d1 z a b))
        * (wvl * z / ((N:ℝ) * d1)) ^ 2
      = (∑ a ∈ range N, ∑ b ∈ range N, Complex.normSq (U a b)) * d1 ^ 2 := by
  have hNr : (N:ℝ) ≠ 0 := by exact_mod_cast (Nat.pos_iff_ne_zero.mp hN)
  have e1 : ∑ a ∈ range N, ∑ b ∈ range N, Complex.normSq (oneStepFresnel N (fun m => ζ ^ m) U wvl d1 z a b)
      = ∑ a ∈ range N, ∑ b ∈ range N, 1 / (wvl * z) ^ 2 * Complex.normSq (ft2' N (fun m => ζ ^ m) d1
          (fun a b => U a b * (CField.cis (quadTheta N wvl d1 z a b) : ℂ)) a b) := by
    apply sum_congr rfl; intro a ha; apply sum_congr rfl; intro b hb
    rw [oneStepFresnel_eq N _ U wvl d1 z (mem_range.mp ha) (mem_range.mp hb), Complex.normSq_mul, Complex.normSq_mul,
      normSq_cis, mul_one, normSq_fresnelAmp]
  rw [e1]
  simp only [← mul_sum]
  rw [ft2'_power hζ hN]
  simp only [Complex.normSq_mul, normSq_cis, mul_one]
  field_simp

/-- `lensAgainst`: output spacing `λf/(N d1)` -/
theorem lensAgainst_power (hζ : IsPrimitiveRoot ζ N) (hN : 0 < N) (U : ℕ → ℕ → ℂ) (wvl d1 f : ℝ)
    (hw : wvl ≠ 0) (hd1 : d1 ≠ 0) (hf : f ≠ 0) :
    (∑ a ∈ range N, ∑ b ∈ range N, Complex.normSq (lensAgainst N (fun m => ζ ^ m) U wvl d1 f a b))
        * (wvl * f / ((N:ℝ) * d1)) ^ 2
      = (∑ a ∈ range N, ∑ b ∈ range N, Complex.normSq (U a b)) * d1 ^ 2 := by
  have hNr : (N:ℝ) ≠ 0 := by exact_mod_cast (Nat.pos_iff_ne_zero.mp hN)
  have e1 : ∑ a ∈ range N, ∑ b ∈ range N, Complex.normSq (lensAgainst N (fun m => ζ ^ m) U wvl d1 f a b)
      = ∑ a ∈ range N, ∑ b ∈ range N, 1 / (wvl * f) ^ 2 * Complex.normSq (ft2' N (fun m => ζ ^ m) d1 U a b) := by
    apply sum_congr rfl; intro a ha; apply sum_congr rfl; intro b hb
    rw [lensAgainst_eq N _ U wvl d1 f (mem_range.mp ha) (mem_range.mp hb), Complex.normSq_mul, Complex.normSq_div,
      normSq_cis, i_def, Complex.normSq_mul, Complex.normSq_mul, Complex.normSq_I, Complex.normSq_ofReal, Complex.normSq_ofReal]
    ring
  rw [e1]
  simp only [← mul_sum]
  rw [ft2'_power hζ hN]
  field_simp

/-- the two-step propagator as it stood at the pinned commit already conserved power -/
theorem twoStepFresnel_pinned_power (hζ : IsPrimitiveRoot ζ N) (hN : 0 < N) (U : ℕ → ℕ → ℂ) (wvl d1 d2 z : ℝ)
    (hw : wvl ≠ 0) (hd1 : d1 ≠ 0) (hd2 : d2 ≠ 0) (hz : z ≠ 0) :
    (∑ a ∈ range N, ∑ b ∈ range N, Complex.normSq (twoStepFresnel_pinned N (fun m => ζ ^ m) U wvl d1 d2 z a b)) * d2 ^ 2
      = (∑ a ∈ range N, ∑ b ∈ range N, Complex.normSq (U a b)) * d1 ^ 2 := by
  have hNr : (N:ℝ) ≠ 0 := by exact_mod_cast (Nat.pos_iff_ne_zero.mp hN)
  obtain ⟨hD1, hD2, hD⟩ := twoStep_distances d1 d2 z hd1 hd2 hz
  have e1 : ∑ a ∈ range N, ∑ b ∈ range N, Complex.normSq (twoStepFresnel_pinned N (fun m => ζ ^ m) U wvl d1 d2 z a b)
      = ∑ a ∈ range N, ∑ b ∈ range N, 1 / (wvl * (z - twoStepDz1 d1 d2 z)) ^ 2 *
          Complex.normSq (ft2' N (fun m => ζ ^ m) (twoStepD1a N wvl d1 d2 z) (fun a b =>
              (fresnelAmp wvl (twoStepDz1 d1 d2 z)
                * (CField.cis (quadTheta N wvl (twoStepD1a N wvl d1 d2 z) (twoStepDz1 d1 d2 z) a b) : ℂ)
                * ft2' N (fun m => ζ ^ m) d1 (fun a b => U a b * (CField.cis (quadTheta N wvl d1 (twoStepDz1 d1 d2 z) a b) : ℂ)) a b)
              * (CField.cis (quadTheta N wvl (twoStepD1a N wvl d1 d2 z) (z - twoStepDz1 d1 d2 z) a b) : ℂ)) a b) := by
    apply sum_congr rfl; intro a ha; apply sum_congr rfl; intro b hb
    rw [twoStepFresnel_pinned_eq N _ U wvl d1 d2 z (mem_range.mp ha) (mem_range.mp hb), Complex.normSq_mul, Complex.normSq_mul,
      normSq_cis, mul_one, normSq_fresnelAmp]
  rw [e1]
  simp only [← mul_sum]
  rw [ft2'_power hζ hN]
  simp only [Complex.normSq_mul, normSq_cis, mul_one, normSq_fresnelAmp]
  simp only [← mul_sum]
  rw [ft2'_power hζ hN]
  simp only [Complex.normSq_mul, normSq_cis, mul_one]
  have hd1a : (twoStepD1a N wvl d1 d2 z) ^ 4 = (wvl * twoStepDz1 d1 d2 z / ((N:ℝ) * d1)) ^ 4 := by
    unfold twoStepD1a
    simp only [RealTransc.abs_eq]
    rw [div_pow, div_pow, mul_pow, mul_pow]
    have : |twoStepDz1 d1 d2 z| ^ 4 = (twoStepDz1 d1 d2 z) ^ 4 := by
      rw [show (4:ℕ) = 2 * 2 from rfl, pow_mul, pow_mul, sq_abs]
    rw [this]; ring
  rw [hd1a]
  generalize twoStepDz1 d1 d2 z = D1 at hD1 hD2 hD ⊢
  generalize ∑ a ∈ range N, ∑ b ∈ range N, Complex.normSq (U a b) = P
  field_simp
  linear_combination (-P) * hD

/-- the repaired `twoStepFresnel` (a point reflection permutes the samples) -/
theorem twoStepFresnel_power (hζ : IsPrimitiveRoot ζ N) (hN : 0 < N) (U : ℕ → ℕ → ℂ) (wvl d1 d2 z : ℝ)
    (hw : wvl ≠ 0) (hd1 : d1 ≠ 0) (hd2 : d2 ≠ 0) (hz : z ≠ 0) :
    (∑ a ∈ range N, ∑ b ∈ range N, Complex.normSq (twoStepFresnel N (fun m => ζ ^ m) U wvl d1 d2 z a b)) * d2 ^ 2
      = (∑ a ∈ range N, ∑ b ∈ range N, Complex.normSq (U a b)) * d1 ^ 2 := by
  rw [← twoStepFresnel_pinned_power hζ hN U wvl d1 d2 z hw hd1 hd2 hz]
  congr 1
  by_cases h : twoStepDz1 d1 d2 z * (z - twoStepDz1 d1 d2 z) < 0
  · have e : ∀ a ∈ range N, ∀ b ∈ range N, twoStepFresnel N (fun m => ζ ^ m) U wvl d1 d2 z a b
        = twoStepFresnel_pinned N (fun m => ζ ^ m) U wvl d1 d2 z (reflIdx N a) (reflIdx N b) := by
      intro a ha b hb
      rw [twoStepFresnel_eq N _ U wvl d1 d2 z (mem_range.mp ha) (mem_range.mp hb), if_pos h]
    rw [sum_congr rfl (fun a ha => sum_congr rfl (fun b hb => by rw [e a ha b hb]))]
    rw [sum_reflect N (fun a' => ∑ b ∈ range N,
      Complex.normSq (twoStepFresnel_pinned N (fun m => ζ ^ m) U wvl d1 d2 z a' (reflIdx N b)))]
    apply sum_congr rfl; intro a _
    exact sum_reflect N (fun b' => Complex.normSq (twoStepFresnel_pinned N (fun m => ζ ^ m) U wvl d1 d2 z a b'))
  · apply sum_congr rfl; intro a ha; apply sum_congr rfl; intro b hb
    rw [twoStepFresnel_eq N _ U wvl d1 d2 z (mem_range.mp ha) (mem_range.mp hb), if_neg h]

end power

/-! ### non-vacuity: the hypotheses are met by the FFT's own root on a non-trivial configuration -/
example : IsPrimitiveRoot (Complex.exp (2 * Real.pi * Complex.I / (8:ℕ)))⁻¹ 8 ∧ 0 < 8 ∧ (5e-7:ℝ) ≠ 0 ∧ (1e-3:ℝ) ≠ 0
    ∧ (1.5e-3:ℝ) ≠ 0 ∧ (-20:ℝ) ≠ 0 :=
  ⟨Props.C09.fft_root_primitive (by norm_num), by norm_num, by norm_num, by norm_num, by norm_num, by norm_num⟩

end AoVerif.Props.C10
