/- `#audit_namespace NS` prints one line per theorem declared in namespace `NS`:
   `AUDIT <name> | <axioms, comma separated>`; used by the harness on every run. -/
import Lean
open Lean Elab Command

elab "#audit_namespace " ns:ident : command => do
  let env ← getEnv
  let nsName := ns.getId
  let mut names : Array Name := #[]
  for (n, ci) in env.constants.map₁.toList ++ env.constants.map₂.toList do
    if nsName.isPrefixOf n && !n.isInternal then
      match ci with
      | .thmInfo _ => names := names.push n
      | _ => pure ()
  let sorted := names.qsort (fun a b => a.toString < b.toString)
  for n in sorted do
    let axs ← Lean.collectAxioms n
    let axs := axs.qsort (fun a b => a.toString < b.toString)
    logInfo m!"AUDIT {n} | {", ".intercalate (axs.toList.map toString)}"
