/-
Order statistics: `kthLargest` (k-th brightest value, `numpy.sort(flat)[-k]`) depends only on the multiset of
values, commutes with positive scaling, and at least `k` values are ≥ it.
-/
import AoVerif.Lemmas.CentroidShift
import Mathlib.Data.List.GetD

namespace AoVerif.Centroid
open Finset AoVerif List
set_option linter.unusedSectionVars false

section order
variable {K : Type} [Field K] [LinearOrder K] [IsStrictOrderedRing K]

/-- the comparison handed to `mergeSort` -/
abbrev leB (a b : K) : Bool := !decide (b < a)

theorem leB_iff {a b : K} : leB a b = true ↔ a ≤ b := by simp [leB, not_lt]

theorem sortK_perm (l : List K) : sortK l ~ l := mergeSort_perm _ _

theorem sortK_length (l : List K) : (sortK l).length = l.length := (sortK_perm l).length_eq

theorem sortK_pairwise (l : List K) : (sortK l).Pairwise (· ≤ ·) := by
  have h := pairwise_mergeSort (le := fun a b : K => leB a b)
    (fun a b c hab hbc => leB_iff.mpr (le_trans (leB_iff.mp hab) (leB_iff.mp hbc)))
    (fun a b => by
      rcases le_total a b with h | h
      · simp [leB_iff.mpr h]
      · simp [leB_iff.mpr h]) l
  exact h.imp (fun hab => leB_iff.mp hab)

/-- the sorted list depends only on the multiset -/
theorem sortK_eq_of_perm {l l' : List K} (h : l ~ l') : sortK l = sortK l' :=
  Perm.eq_of_pairwise (le := (· ≤ ·)) (fun _ _ _ _ hab hba => le_antisymm hab hba)
    (sortK_pairwise l) (sortK_pairwise l') ((sortK_perm l).trans (h.trans (sortK_perm l').symm))

theorem kthLargest_perm {l l' : List K} (h : l ~ l') (k : ℕ) : kthLargest l k = kthLargest l' k := by
  unfold kthLargest; rw [sortK_eq_of_perm h, h.length_eq]

/-- sorting commutes with multiplication by `c > 0` -/
theorem sortK_map_mul {c : K} (hc : 0 < c) (l : List K) : sortK (l.map (c * ·)) = (sortK l).map (c * ·) := by
  apply Perm.eq_of_pairwise (le := (· ≤ ·)) (fun _ _ _ _ hab hba => le_antisymm hab hba) (sortK_pairwise _)
  · exact (sortK_pairwise l).map _ (fun {_ _} hab => mul_le_mul_of_nonneg_left hab hc.le)
  · exact (sortK_perm _).trans ((sortK_perm l).map _).symm

theorem kthLargest_map_mul {c : K} (hc : 0 < c) (l : List K) (k : ℕ) :
    kthLargest (l.map (c * ·)) k = c * kthLargest l k := by
  unfold kthLargest
  rw [sortK_map_mul hc, length_map]
  have h := getD_map (l := sortK l) (n := l.length - k) (d := ((0 : ℕ) : K)) (c * ·)
  simp only [Nat.cast_zero, mul_zero] at h ⊢
  exact h

theorem kthLargest_mem {l : List K} {k : ℕ} (hk : 0 < k) (hkl : k ≤ l.length) : kthLargest l k ∈ l := by
  unfold kthLargest
  have hi : l.length - k < (sortK l).length := by rw [sortK_length]; omega
  rw [getD_eq_getElem _ _ hi]
  exact (sortK_perm l).mem_iff.mp (getElem_mem hi)

/-- at least `k` values are ≥ the k-th largest -/
theorem kthLargest_count_ge {l : List K} {k : ℕ} (hk : 0 < k) (hkl : k ≤ l.length) :
    k ≤ l.countP (fun v => decide (kthLargest l k ≤ v)) := by
  have hi : l.length - k < (sortK l).length := by rw [sortK_length]; omega
  have hp : kthLargest l k = (sortK l)[l.length - k] := by
    unfold kthLargest; exact getD_eq_getElem _ _ hi
  rw [← (sortK_perm l).countP_eq, ← take_append_drop (l.length - k) (sortK l), countP_append]
  have hd : (drop (l.length - k) (sortK l)).countP (fun v => decide (kthLargest l k ≤ v))
      = (drop (l.length - k) (sortK l)).length := by
    rw [countP_eq_length]
    intro a ha
    rw [drop_eq_getElem_cons hi] at ha
    have hpw : (drop (l.length - k) (sortK l)).Pairwise (· ≤ ·) := (sortK_pairwise l).sublist (drop_sublist _ _)
    rw [drop_eq_getElem_cons hi] at hpw
    rcases mem_cons.mp ha with rfl | ha
    · simp [hp]
    · simp only [decide_eq_true_eq, hp]; exact rel_of_pairwise_cons hpw ha
  rw [hd, length_drop, sortK_length]
  omega

/-! ### the flattened frame -/

theorem countP_range_map {α : Type} (n : ℕ) (f : ℕ → α) (q : α → Bool) :
    ((List.range n).map f).countP q = ∑ i ∈ Finset.range n, if q (f i) then 1 else 0 := by
  induction n with
  | zero => simp
  | succ n ih =>
    rw [List.range_succ, map_append, countP_append, ih, Finset.sum_range_succ]
    simp [countP_cons]

theorem countP_flat (ny nx : ℕ) (img : ℕ → ℕ → K) (q : K → Bool) :
    (flat ny nx img).countP q = ∑ y ∈ Finset.range ny, ∑ x ∈ Finset.range nx, if q (img y x) then 1 else 0 := by
  unfold flat
  induction ny with
  | zero => simp
  | succ n ih =>
    rw [List.range_succ, flatMap_append, countP_append, ih, Finset.sum_range_succ]
    congr 1
    rw [flatMap_singleton]
    exact countP_range_map nx (fun x => img n x) q

theorem flat_length (ny nx : ℕ) (img : ℕ → ℕ → K) : (flat ny nx img).length = ny * nx := by
  unfold flat
  induction ny with
  | zero => simp
  | succ n ih => rw [List.range_succ, flatMap_append, length_append, ih]; simp [Nat.succ_mul]

theorem mem_flat {ny nx : ℕ} {img : ℕ → ℕ → K} {v : K} (h : v ∈ flat ny nx img) :
    ∃ y < ny, ∃ x < nx, v = img y x := by
  unfold flat at h
  simp only [mem_flatMap, List.mem_range, List.mem_map] at h
  obtain ⟨y, hy, x, hx, e⟩ := h
  exact ⟨y, hy, x, hx, e.symm⟩

/-- a roll permutes the pixel values -/
theorem flat_roll2_perm {ny nx : ℕ} (hy : 0 < ny) (hx : 0 < nx) (ky kx : ℤ) (img : ℕ → ℕ → K) :
    flat ny nx (roll2 ny nx ky kx img) ~ flat ny nx img := by
  rw [perm_iff_count]
  intro a
  rw [count_eq_countP, count_eq_countP, countP_flat, countP_flat]
  exact sum_roll2 hy hx ky kx img (fun _ _ v => if (v == a) then 1 else 0)

theorem flat_mul (ny nx : ℕ) (c : K) (img : ℕ → ℕ → K) :
    flat ny nx (fun y x => c * img y x) = (flat ny nx img).map (c * ·) := by
  unfold flat
  rw [map_flatMap]
  simp [List.map_map, Function.comp_def]

/-! ### `clip(0, None)` -/

theorem clip0_mul {c : K} (hc : 0 < c) (v : K) : clip0 (c * v) = c * clip0 v := by
  unfold clip0
  simp only [Nat.cast_zero]
  by_cases h : v < 0
  · rw [if_pos h, if_pos (mul_neg_of_pos_of_neg hc h), mul_zero]
  · rw [if_neg h, if_neg (not_lt.mpr (mul_nonneg hc.le (not_lt.mp h)))]

theorem clip0_nonneg (v : K) : 0 ≤ clip0 v := by
  unfold clip0; simp only [Nat.cast_zero]; split_ifs with h
  · exact le_refl _
  · exact not_lt.mp h

theorem clip0_of_pos {v : K} (h : 0 < v) : clip0 v = v := by
  unfold clip0; simp only [Nat.cast_zero]; rw [if_neg (not_lt.mpr h.le)]

theorem clip0_ne_zero {v : K} (h : clip0 v ≠ 0) : 0 < v := by
  unfold clip0 at h; simp only [Nat.cast_zero] at h
  by_contra hv
  rcases lt_or_eq_of_le (not_lt.mp hv) with h1 | h1
  · rw [if_pos h1] at h; exact h rfl
  · rw [h1, if_neg (lt_irrefl _)] at h; exact h rfl

end order
end AoVerif.Centroid
