/-
Real-number facts about the naive-DFT periodogram of `AoVerif.Model.Estimators` (used by Props/C19):
expansion as a double sum, Parseval, mirror symmetry, response to a pure sinusoid.
-/
import AoVerif.Lemmas.RealScalar
import AoVerif.Lemmas.EstimatorsDft
import AoVerif.Model.Estimators

namespace AoVerif.Lemmas.EstimatorsTps
open Finset AoVerif AoVerif.Model.Estimators AoVerif.Lemmas.EstimatorsDft

set_option linter.unusedSectionVars false
set_option linter.unusedVariables false
variable [Transc ℝ] [RealTransc]

theorem dftRe_real (n : ℕ) (x : ℕ → ℝ) (k : ℕ) :
    dftRe n x k = ∑ t ∈ range n, x t * Real.cos (2 * Real.pi * (k : ℝ) * (t : ℝ) / (n : ℝ)) := by
  real_unfold [dftRe, dftAngle]
  apply sum_congr rfl; intro t _; push_cast; ring_nf

theorem dftIm_real (n : ℕ) (x : ℕ → ℝ) (k : ℕ) :
    dftIm n x k = -∑ t ∈ range n, x t * Real.sin (2 * Real.pi * (k : ℝ) * (t : ℝ) / (n : ℝ)) := by
  real_unfold [dftIm, dftAngle]
  congr 1
  apply sum_congr rfl; intro t _; push_cast; ring_nf

theorem pgram1_real (n : ℕ) (x : ℕ → ℝ) (k : ℕ) :
    pgram1 n x k = (∑ t ∈ range n, x t * Real.cos (2 * Real.pi * (k : ℝ) * (t : ℝ) / (n : ℝ))) ^ 2
      + (∑ t ∈ range n, x t * Real.sin (2 * Real.pi * (k : ℝ) * (t : ℝ) / (n : ℝ))) ^ 2 := by
  simp only [pgram1, dftRe_real, dftIm_real]
  ring

theorem pgram_real (nF nS : ℕ) (x : ℕ → ℕ → ℝ) (k : ℕ) :
    pgram nF nS x k = (∑ s ∈ range nS, pgram1 nF (fun t => x t s) k) / (nS : ℝ) := by
  real_unfold [pgram]

/-- `|X_k|² = Σ_t Σ_u x_t x_u cos(2π (t-u) k / n)` -/
theorem pgram1_expand (n : ℕ) (x : ℕ → ℝ) (k : ℕ) :
    pgram1 n x k = ∑ t ∈ range n, ∑ u ∈ range n,
      x t * x u * Real.cos (2 * Real.pi * (((t : ℤ) - (u : ℤ) : ℤ) : ℝ) * (k : ℝ) / (n : ℝ)) := by
  rw [pgram1_real, sq, sq, sum_mul_sum, sum_mul_sum, ← sum_add_distrib]
  apply sum_congr rfl; intro t _
  rw [← sum_add_distrib]
  apply sum_congr rfl; intro u _
  have : 2 * Real.pi * (((t : ℤ) - (u : ℤ) : ℤ) : ℝ) * (k : ℝ) / (n : ℝ)
      = 2 * Real.pi * (k : ℝ) * (t : ℝ) / (n : ℝ) - 2 * Real.pi * (k : ℝ) * (u : ℝ) / (n : ℝ) := by
    push_cast; ring
  rw [this, Real.cos_sub]
  ring

/-- Parseval for one real signal: `Σ_{k<n} |X_k|² = n Σ_t x_t²` -/
theorem parseval1 (n : ℕ) (x : ℕ → ℝ) :
    ∑ k ∈ range n, pgram1 n x k = (n : ℝ) * ∑ t ∈ range n, x t ^ 2 := by
  rcases Nat.eq_zero_or_pos n with h0 | hn
  · subst h0; simp
  simp only [pgram1_expand]
  rw [sum_comm]
  rw [mul_sum]
  apply sum_congr rfl; intro t ht
  rw [sum_comm]
  have hinner : ∀ u ∈ range n, ∑ k ∈ range n,
      x t * x u * Real.cos (2 * Real.pi * (((t : ℤ) - (u : ℤ) : ℤ) : ℝ) * (k : ℝ) / (n : ℝ))
      = if u = t then (n : ℝ) * x t ^ 2 else 0 := by
    intro u hu
    rw [← mul_sum, sum_cos_int n hn]
    have ht' := mem_range.mp ht
    have hu' := mem_range.mp hu
    by_cases hut : u = t
    · subst hut; simp; ring
    · have : ¬ ((n : ℤ) ∣ (t : ℤ) - (u : ℤ)) := by
        intro hd
        have hlt : |(t : ℤ) - (u : ℤ)| < (n : ℤ) := by
          rw [abs_lt]; constructor <;> omega
        have := Int.eq_zero_of_abs_lt_dvd hd hlt
        omega
      simp [this, hut]
  rw [sum_congr rfl hinner, sum_ite_eq' (range n) t]
  simp [ht]

/-- mirror symmetry of the spectrum of a real signal: `|X_{n-k}|² = |X_k|²` -/
theorem pgram1_mirror (n : ℕ) (x : ℕ → ℝ) (k : ℕ) (hk : k ≤ n) (hn : 0 < n) :
    pgram1 n x (n - k) = pgram1 n x k := by
  have hn' : (n : ℝ) ≠ 0 := by exact_mod_cast hn.ne'
  rw [pgram1_real, pgram1_real]
  have hc : ∀ t : ℕ, Real.cos (2 * Real.pi * ((n - k : ℕ) : ℝ) * (t : ℝ) / (n : ℝ))
      = Real.cos (2 * Real.pi * (k : ℝ) * (t : ℝ) / (n : ℝ)) := by
    intro t
    rw [← Real.cos_nat_mul_two_pi_sub _ t, Nat.cast_sub hk]
    congr 1; field_simp; ring
  have hs : ∀ t : ℕ, Real.sin (2 * Real.pi * ((n - k : ℕ) : ℝ) * (t : ℝ) / (n : ℝ))
      = -Real.sin (2 * Real.pi * (k : ℝ) * (t : ℝ) / (n : ℝ)) := by
    intro t
    rw [← Real.sin_nat_mul_two_pi_sub _ t, Nat.cast_sub hk]
    congr 1; field_simp
  simp only [hc, hs, mul_neg, sum_neg_distrib, neg_sq]

/-- a sequence with the mirror symmetry `f (n-k) = f k` summed over a full period, written through its first
    `n/2` values and the bins `n/2 … n - n/2` that a half-spectrum `[: n/2]` drops -/
theorem sum_half (n : ℕ) (hn : 2 ≤ n) (f : ℕ → ℝ) (hf : ∀ k, 0 < k → k < n → f (n - k) = f k) :
    ∑ k ∈ range n, f k = 2 * ∑ k ∈ range (n / 2), f k - f 0 + ∑ k ∈ Ico (n / 2) (n - n / 2 + 1), f k := by
  have hh : 1 ≤ n / 2 := by omega
  have h2 : 2 * (n / 2) ≤ n := Nat.mul_div_le n 2
  have e1 : ∑ k ∈ range n, f k
      = ∑ k ∈ range (n / 2), f k + (∑ k ∈ Ico (n / 2) (n - n / 2 + 1), f k + ∑ k ∈ Ico (n - n / 2 + 1) n, f k) := by
    rw [sum_Ico_consecutive f (by omega) (by omega), sum_range_add_sum_Ico f (by omega)]
  have e2 : ∑ k ∈ Ico (n - n / 2 + 1) n, f k = ∑ k ∈ Ico 1 (n / 2), f k := by
    have := sum_Ico_reflect f 1 (m := n / 2) (n := n) (by omega)
    rw [show n + 1 - n / 2 = n - n / 2 + 1 by omega, show n + 1 - 1 = n by omega] at this
    rw [← this]
    apply sum_congr rfl
    intro k hk
    rw [mem_Ico] at hk
    exact hf k (by omega) (by omega)
  have e3 : ∑ k ∈ range (n / 2), f k = f 0 + ∑ k ∈ Ico 1 (n / 2), f k :=
    sum_range_eq_add_Ico f (by omega)
  rw [e1, e2, e3]
  ring

/-! ### a pure sinusoid -/

theorem sum_cos_shift (n : ℕ) (hn : 0 < n) (m : ℤ) (φ : ℝ) :
    ∑ t ∈ range n, Real.cos (2 * Real.pi * (m : ℝ) * (t : ℝ) / (n : ℝ) + φ)
      = if (n : ℤ) ∣ m then (n : ℝ) * Real.cos φ else 0 := by
  simp only [Real.cos_add, sum_sub_distrib, ← sum_mul, sum_cos_int n hn, sum_sin_int n hn]
  split_ifs <;> simp

theorem sum_sin_shift (n : ℕ) (hn : 0 < n) (m : ℤ) (φ : ℝ) :
    ∑ t ∈ range n, Real.sin (2 * Real.pi * (m : ℝ) * (t : ℝ) / (n : ℝ) + φ)
      = if (n : ℤ) ∣ m then (n : ℝ) * Real.sin φ else 0 := by
  simp only [Real.sin_add, sum_add_distrib, ← sum_mul, sum_cos_int n hn, sum_sin_int n hn]
  split_ifs <;> simp

/-- DFT of `A cos(2π k0 t/n + φ)` at bin `k`, real part -/
theorem sinus_re (n : ℕ) (hn : 0 < n) (A φ : ℝ) (k0 k : ℕ) :
    ∑ t ∈ range n, A * Real.cos (2 * Real.pi * (k0 : ℝ) * (t : ℝ) / (n : ℝ) + φ)
        * Real.cos (2 * Real.pi * (k : ℝ) * (t : ℝ) / (n : ℝ))
      = A / 2 * ((if (n : ℤ) ∣ (k0 : ℤ) + (k : ℤ) then (n : ℝ) * Real.cos φ else 0)
          + (if (n : ℤ) ∣ (k0 : ℤ) - (k : ℤ) then (n : ℝ) * Real.cos φ else 0)) := by
  rw [← sum_cos_shift n hn, ← sum_cos_shift n hn, ← sum_add_distrib, mul_sum]
  apply sum_congr rfl; intro t _
  have e1 : 2 * Real.pi * (((k0 : ℤ) + (k : ℤ) : ℤ) : ℝ) * (t : ℝ) / (n : ℝ) + φ
      = (2 * Real.pi * (k0 : ℝ) * (t : ℝ) / (n : ℝ) + φ) + 2 * Real.pi * (k : ℝ) * (t : ℝ) / (n : ℝ) := by
    push_cast; ring
  have e2 : 2 * Real.pi * (((k0 : ℤ) - (k : ℤ) : ℤ) : ℝ) * (t : ℝ) / (n : ℝ) + φ
      = (2 * Real.pi * (k0 : ℝ) * (t : ℝ) / (n : ℝ) + φ) - 2 * Real.pi * (k : ℝ) * (t : ℝ) / (n : ℝ) := by
    push_cast; ring
  rw [e1, e2]
  generalize 2 * Real.pi * (k0 : ℝ) * (t : ℝ) / (n : ℝ) + φ = a
  generalize 2 * Real.pi * (k : ℝ) * (t : ℝ) / (n : ℝ) = b
  rw [Real.cos_add, Real.cos_sub]
  ring

/-- DFT of `A cos(2π k0 t/n + φ)` at bin `k`, (minus the) imaginary part -/
theorem sinus_im (n : ℕ) (hn : 0 < n) (A φ : ℝ) (k0 k : ℕ) :
    ∑ t ∈ range n, A * Real.cos (2 * Real.pi * (k0 : ℝ) * (t : ℝ) / (n : ℝ) + φ)
        * Real.sin (2 * Real.pi * (k : ℝ) * (t : ℝ) / (n : ℝ))
      = A / 2 * ((if (n : ℤ) ∣ (k0 : ℤ) + (k : ℤ) then (n : ℝ) * Real.sin φ else 0)
          - (if (n : ℤ) ∣ (k0 : ℤ) - (k : ℤ) then (n : ℝ) * Real.sin φ else 0)) := by
  rw [← sum_sin_shift n hn, ← sum_sin_shift n hn, ← sum_sub_distrib, mul_sum]
  apply sum_congr rfl; intro t _
  have e1 : 2 * Real.pi * (((k0 : ℤ) + (k : ℤ) : ℤ) : ℝ) * (t : ℝ) / (n : ℝ) + φ
      = (2 * Real.pi * (k0 : ℝ) * (t : ℝ) / (n : ℝ) + φ) + 2 * Real.pi * (k : ℝ) * (t : ℝ) / (n : ℝ) := by
    push_cast; ring
  have e2 : 2 * Real.pi * (((k0 : ℤ) - (k : ℤ) : ℤ) : ℝ) * (t : ℝ) / (n : ℝ) + φ
      = (2 * Real.pi * (k0 : ℝ) * (t : ℝ) / (n : ℝ) + φ) - 2 * Real.pi * (k : ℝ) * (t : ℝ) / (n : ℝ) := by
    push_cast; ring
  rw [e1, e2]
  generalize 2 * Real.pi * (k0 : ℝ) * (t : ℝ) / (n : ℝ) + φ = a
  generalize 2 * Real.pi * (k : ℝ) * (t : ℝ) / (n : ℝ) = b
  rw [Real.sin_add, Real.sin_sub]
  ring

/-- periodogram of one pure sinusoid at a returned bin -/
theorem pgram1_sinusoid (n : ℕ) (A φ : ℝ) (k0 k : ℕ) (h0 : 0 < k0) (hk0 : k0 < n / 2) (hk : k < n / 2) :
    pgram1 n (fun t => A * Real.cos (2 * Real.pi * (k0 : ℝ) * (t : ℝ) / (n : ℝ) + φ)) k
      = if k = k0 then (n : ℝ) ^ 2 / 4 * A ^ 2 else 0 := by
  have hn : 0 < n := by omega
  rw [pgram1_real, sinus_re n hn, sinus_im n hn]
  have hplus : ¬ ((n : ℤ) ∣ (k0 : ℤ) + (k : ℤ)) := by
    intro hd
    have := Int.le_of_dvd (by omega) hd
    omega
  have hminus : ((n : ℤ) ∣ (k0 : ℤ) - (k : ℤ)) ↔ k = k0 := by
    constructor
    · intro hd
      have hlt : |(k0 : ℤ) - (k : ℤ)| < (n : ℤ) := by
        rw [abs_lt]; constructor <;> omega
      have := Int.eq_zero_of_abs_lt_dvd hd hlt
      omega
    · intro h; subst h; simp
  rw [if_neg hplus, if_neg hplus]
  by_cases hkk : k = k0
  · rw [if_pos (hminus.mpr hkk), if_pos (hminus.mpr hkk), if_pos hkk]
    have := Real.cos_sq_add_sin_sq φ
    have e : (A / 2 * (0 + (n : ℝ) * Real.cos φ)) ^ 2 + (A / 2 * (0 - (n : ℝ) * Real.sin φ)) ^ 2
        = (n : ℝ) ^ 2 / 4 * A ^ 2 * (Real.cos φ ^ 2 + Real.sin φ ^ 2) := by ring
    rw [e, this, mul_one]
  · rw [if_neg (fun h => hkk (hminus.mp h)), if_neg (fun h => hkk (hminus.mp h)), if_neg hkk]
    ring

end AoVerif.Lemmas.EstimatorsTps
