/-
Named hypotheses about the Bessel function K_{5/6} (DESIGN §3 item 4) and what follows from them.
Mathlib 4.33 has no Bessel functions: `Transc.kv` is an arbitrary function, and the two classical facts that the
monotonicity / saturation / positive-semidefiniteness clauses of C08 (and C01/C04/C05) need are THEOREM HYPOTHESES
(structures `H1`, predicate `PosDefKernel`), never axioms.
-/
import Mathlib.Topology.Order.OrderClosed
import Mathlib.Topology.Order.Basic
import Mathlib.LinearAlgebra.Matrix.PosDef
import AoVerif.Lemmas.RealScalar
import AoVerif.Model.VonKarman

namespace AoVerif.VonKarman
open Filter Topology Matrix

set_option linter.unusedSectionVars false
variable [Transc ℝ]

/-- **H1**: `h(x) = x^(5/6) K_{5/6}(x)` is non-increasing on (0,∞), tends to `h₀ = 2^(−1/6) Γ(5/6)` at 0⁺ and to 0 at ∞. -/
structure H1 : Prop where
  antitone : AntitoneOn (hK : ℝ → ℝ) (Set.Ioi 0)
  lim_zero : Tendsto (hK : ℝ → ℝ) (𝓝[>] 0) (𝓝 h0)
  lim_top  : Tendsto (hK : ℝ → ℝ) atTop (𝓝 0)

theorem H1.le_h0 (H : H1) {x : ℝ} (hx : 0 < x) : (hK x : ℝ) ≤ h0 := by
  refine ge_of_tendsto H.lim_zero ?_
  filter_upwards [Ioo_mem_nhdsGT hx] with y hy
  exact H.antitone (Set.mem_Ioi.mpr hy.1) (Set.mem_Ioi.mpr hx) hy.2.le

theorem H1.nonneg (H : H1) {x : ℝ} (hx : 0 < x) : 0 ≤ (hK x : ℝ) := by
  refine le_of_tendsto H.lim_top ?_
  filter_upwards [eventually_ge_atTop x] with y hy
  exact H.antitone (Set.mem_Ioi.mpr hx) (Set.mem_Ioi.mpr (lt_of_lt_of_le hx hy)) hy

/-- a radial kernel `g(dist u v)` is positive definite on the (pseudo-)metric space `E` -/
def PosDefKernel (E : Type*) [PseudoMetricSpace E] (g : ℝ → ℝ) : Prop :=
  ∀ (n : ℕ) (p : Fin n → E) (c : Fin n → ℝ), 0 ≤ ∑ i, ∑ j, c i * c j * g (dist (p i) (p j))

/-- a non-negative multiple of a positive-definite radial kernel gives positive-semidefinite matrices -/
theorem posSemidef_of_kernel {E : Type*} [PseudoMetricSpace E] {g : ℝ → ℝ} (hg : PosDefKernel E g)
    {a : ℝ} (ha : 0 ≤ a) (n : ℕ) (p : Fin n → E) :
    (Matrix.of fun i j : Fin n => a * g (dist (p i) (p j))).PosSemidef := by
  refine Matrix.PosSemidef.of_dotProduct_mulVec_nonneg ?_ ?_
  · ext i j
    simp [Matrix.conjTranspose_apply, dist_comm]
  · intro x
    have h := hg n p x
    have e : star x ⬝ᵥ (Matrix.of (fun i j : Fin n => a * g (dist (p i) (p j))) *ᵥ x)
        = a * ∑ i, ∑ j, x i * x j * g (dist (p i) (p j)) := by
      simp only [dotProduct, Matrix.mulVec, Matrix.of_apply, Finset.mul_sum, star_trivial, Pi.star_apply]
      refine Finset.sum_congr rfl fun i _ => Finset.sum_congr rfl fun j _ => ?_
      ring
    rw [e]
    positivity

end AoVerif.VonKarman
