/-
Root-of-unity sums in real form, for the temporal-power-spectrum theorems of C19:
  Σ_{k<n} cos(2π m k / n) = n if n ∣ m else 0,   Σ_{k<n} sin(2π m k / n) = 0      (m : ℤ).
-/
import Mathlib.Analysis.SpecialFunctions.Complex.Log
import Mathlib.Algebra.Ring.GeomSum
import Mathlib.Tactic.Ring
import Mathlib.Tactic.Linarith
import Mathlib.Tactic.FieldSimp

namespace AoVerif.Lemmas.EstimatorsDft
open Finset Complex

theorem sum_exp_int (n : ℕ) (hn : 0 < n) (m : ℤ) :
    ∑ k ∈ range n, Complex.exp (2 * Real.pi * I * m * k / n) = if (n : ℤ) ∣ m then (n : ℂ) else 0 := by
  have hn' : (n : ℂ) ≠ 0 := by exact_mod_cast hn.ne'
  set z : ℂ := Complex.exp (2 * Real.pi * I * m / n) with hz
  have hterm : ∀ k : ℕ, Complex.exp (2 * Real.pi * I * m * k / n) = z ^ k := by
    intro k
    rw [hz, ← Complex.exp_nat_mul]
    congr 1
    ring
  simp only [hterm]
  have hzn : z ^ n = 1 := by
    rw [hz, ← Complex.exp_nat_mul]
    have : (n : ℂ) * (2 * Real.pi * I * m / n) = m * (2 * Real.pi * I) := by field_simp
    rw [this, Complex.exp_int_mul_two_pi_mul_I]
  split_ifs with hd
  · obtain ⟨q, rfl⟩ := hd
    have hz1 : z = 1 := by
      rw [hz]
      have : (2 * Real.pi * I * ((n : ℤ) * q : ℤ) / n : ℂ) = q * (2 * Real.pi * I) := by
        push_cast; field_simp
      rw [this, Complex.exp_int_mul_two_pi_mul_I]
    simp [hz1]
  · have hz1 : z ≠ 1 := by
      intro h
      rw [hz, Complex.exp_eq_one_iff] at h
      obtain ⟨j, hj⟩ := h
      apply hd
      refine ⟨j, ?_⟩
      have h2 : (2 * Real.pi * I : ℂ) ≠ 0 := by
        simp [Real.pi_ne_zero]
      have : (m : ℂ) = (n : ℂ) * j := by
        field_simp at hj
        exact hj
      exact_mod_cast this
    have := mul_geom_sum z n
    rw [hzn, sub_self] at this
    rcases mul_eq_zero.mp this with h | h
    · exact absurd (sub_eq_zero.mp h) hz1
    · exact h

theorem exp_form (n : ℕ) (m : ℤ) (k : ℕ) :
    (2 * Real.pi * I * m * k / n : ℂ) = ((2 * Real.pi * m * k / n : ℝ) : ℂ) * I := by
  push_cast; ring

theorem sum_cos_int (n : ℕ) (hn : 0 < n) (m : ℤ) :
    ∑ k ∈ range n, Real.cos (2 * Real.pi * m * k / n) = if (n : ℤ) ∣ m then (n : ℝ) else 0 := by
  have h := congrArg Complex.re (sum_exp_int n hn m)
  rw [Complex.re_sum] at h
  simp only [exp_form, Complex.exp_ofReal_mul_I_re] at h
  rw [h]
  split_ifs <;> simp

theorem sum_sin_int (n : ℕ) (hn : 0 < n) (m : ℤ) :
    ∑ k ∈ range n, Real.sin (2 * Real.pi * m * k / n) = 0 := by
  have h := congrArg Complex.im (sum_exp_int n hn m)
  rw [Complex.im_sum] at h
  simp only [exp_form, Complex.exp_ofReal_mul_I_im] at h
  rw [h]
  split_ifs <;> simp

end AoVerif.Lemmas.EstimatorsDft
