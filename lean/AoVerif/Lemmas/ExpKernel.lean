/-
The exponential kernel `e^{-b|s-t|}` on the real line is positive definite (used by `Props/C08.lean` to exhibit ONE
function `kv` that satisfies the named hypotheses H1 and H2 of C08 jointly).

Proof: `-b|s-t| = -b s - b t + 2 b min(s,t)`, `e^{2b min(s,t)} = min(e^{2bs}, e^{2bt})`, and
`min(u,v) = ∫ 1_{(0,u]} 1_{(0,v]}` is a Gram kernel.
-/
import Mathlib.MeasureTheory.Integral.Bochner.Set
import Mathlib.MeasureTheory.Measure.Lebesgue.Basic
import Mathlib.Analysis.SpecialFunctions.Exp

namespace AoVerif.VonKarman
open MeasureTheory Set

/-- `Σ d_i d_j min(u_i,u_j) ≥ 0` for `u ≥ 0` -/
theorem min_kernel_nonneg {n : ℕ} (d u : Fin n → ℝ) (hu : ∀ i, 0 ≤ u i) :
    0 ≤ ∑ i, ∑ j, d i * d j * min (u i) (u j) := by
  have hint : ∀ i j, Integrable (fun x : ℝ => (Ioc 0 (u i)).indicator (1 : ℝ → ℝ) x * (Ioc 0 (u j)).indicator (1 : ℝ → ℝ) x) := by
    intro i j
    have : (fun x => (Ioc 0 (u i)).indicator (1 : ℝ → ℝ) x * (Ioc 0 (u j)).indicator (1 : ℝ → ℝ) x)
        = (Ioc 0 (min (u i) (u j))).indicator (1 : ℝ → ℝ) := by
      funext x
      rw [← Set.inter_indicator_mul, Ioc_inter_Ioc, sup_idem]
      simp [Set.indicator]
    rw [this]
    exact (integrable_indicator_iff measurableSet_Ioc).2 (integrableOn_const (by simp))
  have key : ∀ i j, min (u i) (u j)
      = ∫ x, (Ioc 0 (u i)).indicator (1 : ℝ → ℝ) x * (Ioc 0 (u j)).indicator (1 : ℝ → ℝ) x := by
    intro i j
    have : (fun x => (Ioc 0 (u i)).indicator (1 : ℝ → ℝ) x * (Ioc 0 (u j)).indicator (1 : ℝ → ℝ) x)
        = (Ioc 0 (min (u i) (u j))).indicator (1 : ℝ → ℝ) := by
      funext x
      rw [← Set.inter_indicator_mul, Ioc_inter_Ioc, sup_idem]
      simp [Set.indicator]
    rw [this, integral_indicator_one measurableSet_Ioc, Real.volume_real_Ioc_of_le (le_min (hu i) (hu j)), sub_zero]
  have sq : ∑ i, ∑ j, d i * d j * min (u i) (u j)
      = ∫ x, (∑ i, d i * (Ioc 0 (u i)).indicator (1 : ℝ → ℝ) x) ^ 2 := by
    simp only [key, pow_two, Finset.sum_mul_sum]
    rw [integral_finsetSum]
    · refine Finset.sum_congr rfl fun i _ => ?_
      rw [integral_finsetSum]
      · refine Finset.sum_congr rfl fun j _ => ?_
        rw [← integral_const_mul]
        congr 1
        funext x
        ring
      · intro j _
        have := (hint i j).const_mul (d i * d j)
        refine this.congr (Filter.Eventually.of_forall fun x => ?_)
        simp only []
        ring
    · intro i _
      refine integrable_finsetSum _ fun j _ => ?_
      have := (hint i j).const_mul (d i * d j)
      refine this.congr (Filter.Eventually.of_forall fun x => ?_)
      simp only []
      ring
  rw [sq]
  exact integral_nonneg fun x => sq_nonneg _

/-- the exponential (Ornstein–Uhlenbeck) kernel on ℝ is positive definite -/
theorem exp_kernel_nonneg {n : ℕ} (b : ℝ) (hb : 0 ≤ b) (s c : Fin n → ℝ) :
    0 ≤ ∑ i, ∑ j, c i * c j * Real.exp (-(b * |s i - s j|)) := by
  have h := min_kernel_nonneg (fun i => c i * Real.exp (-(b * s i))) (fun i => Real.exp (2 * b * s i))
    (fun i => (Real.exp_pos _).le)
  refine h.trans_eq ?_
  refine Finset.sum_congr rfl fun i _ => Finset.sum_congr rfl fun j _ => ?_
  have hm : min (Real.exp (2 * b * s i)) (Real.exp (2 * b * s j)) = Real.exp (2 * b * min (s i) (s j)) := by
    rcases le_total (s i) (s j) with hle | hle
    · rw [min_eq_left hle, min_eq_left (Real.exp_le_exp.2 (by nlinarith))]
    · rw [min_eq_right hle, min_eq_right (Real.exp_le_exp.2 (by nlinarith))]
  have ha : |s i - s j| = s i + s j - 2 * min (s i) (s j) := by
    rcases le_total (s i) (s j) with hle | hle
    · rw [min_eq_left hle, abs_of_nonpos (by linarith)]; ring
    · rw [min_eq_right hle, abs_of_nonneg (by linarith)]; ring
  rw [hm, ha]
  have : c i * Real.exp (-(b * s i)) * (c j * Real.exp (-(b * s j))) * Real.exp (2 * b * min (s i) (s j))
      = c i * c j * (Real.exp (-(b * s i)) * Real.exp (-(b * s j)) * Real.exp (2 * b * min (s i) (s j))) := by ring
  rw [this, ← Real.exp_add, ← Real.exp_add]
  congr 2
  ring

end AoVerif.VonKarman
