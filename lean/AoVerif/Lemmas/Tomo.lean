/-
Real matrix algebra behind C02 (tomographic reconstructor): the SVD-truncated pseudo-inverse contract, the retained
projector, the residual-variance functional, and the bridge from the Mathlib-free model `Model/Tomo.lean`
(index functions `ℕ → ℕ → ℝ`, `sumTo` loops) to Mathlib's `Matrix (Fin a) (Fin b) ℝ`.
-/
import Mathlib.LinearAlgebra.Matrix.PosDef
import Mathlib.LinearAlgebra.Matrix.NonsingularInverse
import Mathlib.Data.Matrix.Block
import Mathlib.Analysis.Matrix.Order
import Mathlib.Tactic.Ring
import Mathlib.Tactic.Linarith
import AoVerif.Lemmas.Sum
import AoVerif.Model.Tomo

namespace AoVerif.Tomo
open Matrix
set_option linter.unusedSectionVars false

/-! ## The pseudo-inverse contract (abstract index type) -/

section Contract
variable {q : Type} [Fintype q] [DecidableEq q]

/-- indicator of the retained singular values -/
noncomputable def keep (cutoff : ℝ) (σ : q → ℝ) : q → ℝ := fun i => if cutoff < σ i then 1 else 0
/-- truncated reciprocal singular values -/
noncomputable def sinv (cutoff : ℝ) (σ : q → ℝ) : q → ℝ := fun i => if cutoff < σ i then (σ i)⁻¹ else 0

/-- A singular value decomposition: `U`, `V` orthogonal, `σ ≥ 0`; the decomposed matrix is `mat`. -/
structure Svd (q : Type) [Fintype q] [DecidableEq q] where
  U : Matrix q q ℝ
  V : Matrix q q ℝ
  σ : q → ℝ
  hU : Uᵀ * U = 1
  hV : Vᵀ * V = 1
  σ_nonneg : ∀ i, 0 ≤ σ i

namespace Svd
variable (s : Svd q) (cutoff : ℝ)

/-- the decomposed matrix `U diag(σ) Vᵀ` -/
noncomputable def mat : Matrix q q ℝ := s.U * diagonal s.σ * s.Vᵀ
/-- the truncated pseudo-inverse `V diag(σ_i⁻¹ [σ_i > cutoff]) Uᵀ` -/
noncomputable def pinv : Matrix q q ℝ := s.V * diagonal (sinv cutoff s.σ) * s.Uᵀ
/-- orthogonal projector on the retained right-singular subspace -/
noncomputable def projR : Matrix q q ℝ := s.V * diagonal (keep cutoff s.σ) * s.Vᵀ
/-- orthogonal projector on the retained left-singular subspace -/
noncomputable def projL : Matrix q q ℝ := s.U * diagonal (keep cutoff s.σ) * s.Uᵀ

theorem hU' : s.U * s.Uᵀ = 1 := mul_eq_one_comm.mp s.hU
theorem hV' : s.V * s.Vᵀ = 1 := mul_eq_one_comm.mp s.hV

variable {cutoff}

theorem sinv_mul_sigma (hc : 0 ≤ cutoff) (σ : q → ℝ) :
    diagonal (sinv cutoff σ) * diagonal σ = diagonal (keep cutoff σ) := by
  rw [diagonal_mul_diagonal]; congr 1; funext i
  by_cases hi : cutoff < σ i
  · have : σ i ≠ 0 := by linarith
    simp [sinv, keep, hi, this]
  · simp [sinv, keep, hi]

theorem sigma_mul_sinv (hc : 0 ≤ cutoff) (σ : q → ℝ) :
    diagonal σ * diagonal (sinv cutoff σ) = diagonal (keep cutoff σ) := by
  rw [diagonal_mul_diagonal]; congr 1; funext i
  by_cases hi : cutoff < σ i
  · have : σ i ≠ 0 := by linarith
    simp [sinv, keep, hi, this]
  · simp [sinv, keep, hi]

theorem keep_mul_keep (σ : q → ℝ) :
    diagonal (keep cutoff σ) * diagonal (keep cutoff σ) = diagonal (keep cutoff σ) := by
  rw [diagonal_mul_diagonal]; congr 1; funext i
  by_cases hi : cutoff < σ i <;> simp [keep, hi]

theorem keep_mul_sinv (σ : q → ℝ) :
    diagonal (keep cutoff σ) * diagonal (sinv cutoff σ) = diagonal (sinv cutoff σ) := by
  rw [diagonal_mul_diagonal]; congr 1; funext i
  by_cases hi : cutoff < σ i <;> simp [keep, sinv, hi]

theorem sinv_mul_keep (σ : q → ℝ) :
    diagonal (sinv cutoff σ) * diagonal (keep cutoff σ) = diagonal (sinv cutoff σ) := by
  rw [diagonal_mul_diagonal]; congr 1; funext i
  by_cases hi : cutoff < σ i <;> simp [keep, sinv, hi]

theorem sigma_mul_keep_zero (σ : q → ℝ) (hσ : ∀ i, 0 ≤ σ i) :
    diagonal σ * diagonal (keep 0 σ) = diagonal σ := by
  rw [diagonal_mul_diagonal]; congr 1; funext i
  by_cases hi : 0 < σ i
  · simp [keep, hi]
  · have : σ i = 0 := le_antisymm (not_lt.mp hi) (hσ i)
    simp [keep, this]

/-- `P A` is the projector on the retained right-singular subspace -/
theorem pinv_mul_mat (hc : 0 ≤ cutoff) : s.pinv cutoff * s.mat = s.projR cutoff := by
  have e : s.pinv cutoff * s.mat
      = s.V * (diagonal (sinv cutoff s.σ) * (s.Uᵀ * s.U) * diagonal s.σ) * s.Vᵀ := by
    simp only [pinv, mat, Matrix.mul_assoc]
  rw [e, s.hU, Matrix.mul_one, sinv_mul_sigma hc]; rfl

/-- `A P` is the projector on the retained left-singular subspace -/
theorem mat_mul_pinv (hc : 0 ≤ cutoff) : s.mat * s.pinv cutoff = s.projL cutoff := by
  have e : s.mat * s.pinv cutoff
      = s.U * (diagonal s.σ * (s.Vᵀ * s.V) * diagonal (sinv cutoff s.σ)) * s.Uᵀ := by
    simp only [pinv, mat, Matrix.mul_assoc]
  rw [e, s.hV, Matrix.mul_one, sigma_mul_sinv hc]; rfl

theorem projR_symm : (s.projR cutoff)ᵀ = s.projR cutoff := by
  simp only [projR, transpose_mul, transpose_transpose, diagonal_transpose, Matrix.mul_assoc]

theorem projL_symm : (s.projL cutoff)ᵀ = s.projL cutoff := by
  simp only [projL, transpose_mul, transpose_transpose, diagonal_transpose, Matrix.mul_assoc]

theorem projR_idem : s.projR cutoff * s.projR cutoff = s.projR cutoff := by
  have e : s.projR cutoff * s.projR cutoff =
      s.V * (diagonal (keep cutoff s.σ) * (s.Vᵀ * s.V) * diagonal (keep cutoff s.σ)) * s.Vᵀ := by
    simp only [projR, Matrix.mul_assoc]
  rw [e, s.hV, Matrix.mul_one, keep_mul_keep]; rfl

theorem projL_idem : s.projL cutoff * s.projL cutoff = s.projL cutoff := by
  have e : s.projL cutoff * s.projL cutoff =
      s.U * (diagonal (keep cutoff s.σ) * (s.Uᵀ * s.U) * diagonal (keep cutoff s.σ)) * s.Uᵀ := by
    simp only [projL, Matrix.mul_assoc]
  rw [e, s.hU, Matrix.mul_one, keep_mul_keep]; rfl

/-- the truncated pseudo-inverse lives on the retained subspaces -/
theorem projR_mul_pinv : s.projR cutoff * s.pinv cutoff = s.pinv cutoff := by
  have e : s.projR cutoff * s.pinv cutoff =
      s.V * (diagonal (keep cutoff s.σ) * (s.Vᵀ * s.V) * diagonal (sinv cutoff s.σ)) * s.Uᵀ := by
    simp only [projR, pinv, Matrix.mul_assoc]
  rw [e, s.hV, Matrix.mul_one, keep_mul_sinv]; rfl

theorem pinv_mul_projL : s.pinv cutoff * s.projL cutoff = s.pinv cutoff := by
  have e : s.pinv cutoff * s.projL cutoff =
      s.V * (diagonal (sinv cutoff s.σ) * (s.Uᵀ * s.U) * diagonal (keep cutoff s.σ)) * s.Uᵀ := by
    simp only [projL, pinv, Matrix.mul_assoc]
  rw [e, s.hU, Matrix.mul_one, sinv_mul_keep]; rfl

/-! ### the four Penrose equations (2–4 always; 1 when nothing non-zero is truncated) -/

theorem penrose2 (hc : 0 ≤ cutoff) : s.pinv cutoff * s.mat * s.pinv cutoff = s.pinv cutoff := by
  rw [s.pinv_mul_mat hc, s.projR_mul_pinv]

theorem penrose3 (hc : 0 ≤ cutoff) : (s.mat * s.pinv cutoff)ᵀ = s.mat * s.pinv cutoff := by
  rw [s.mat_mul_pinv hc, s.projL_symm]

theorem penrose4 (hc : 0 ≤ cutoff) : (s.pinv cutoff * s.mat)ᵀ = s.pinv cutoff * s.mat := by
  rw [s.pinv_mul_mat hc, s.projR_symm]

/-- with zero conditioning the pseudo-inverse is the Moore–Penrose inverse: `A P A = A` -/
theorem penrose1 : s.mat * s.pinv 0 * s.mat = s.mat := by
  have e : s.mat * s.projR 0 = s.U * (diagonal s.σ * (s.Vᵀ * s.V) * diagonal (keep 0 s.σ)) * s.Vᵀ := by
    simp only [projR, mat, Matrix.mul_assoc]
  rw [Matrix.mul_assoc, s.pinv_mul_mat le_rfl, e, s.hV, Matrix.mul_one,
    sigma_mul_keep_zero _ s.σ_nonneg]; rfl

end Svd

/-- **Contract of `numpy.linalg.pinv(A, rcond)`** with `cutoff = rcond · σ_max`: there is a singular value
decomposition `A = U diag(σ) Vᵀ` (U, V orthogonal, σ ≥ 0) and `P = V diag(σ_i⁻¹ [σ_i > cutoff]) Uᵀ`. -/
def PinvContract (s : Svd q) (cutoff : ℝ) (A P : Matrix q q ℝ) : Prop := A = s.mat ∧ P = s.pinv cutoff

end Contract


/-! ## Invertible argument, zero conditioning: the pseudo-inverse is the inverse -/

section Invertible
variable {q : Type} [Fintype q] [DecidableEq q]

theorem Svd.sigma_pos_of_isUnit (s : Svd q) (h : IsUnit s.mat.det) (i : q) : 0 < s.σ i := by
  have hd : s.mat.det ≠ 0 := h.ne_zero
  rw [Svd.mat, det_mul, det_mul, det_diagonal] at hd
  have hp : (∏ i, s.σ i) ≠ 0 := fun h0 => hd (by rw [h0]; ring)
  have := Finset.prod_ne_zero_iff.mp hp i (Finset.mem_univ i)
  exact lt_of_le_of_ne (s.σ_nonneg i) (Ne.symm this)

theorem Svd.projR_zero_of_isUnit (s : Svd q) (h : IsUnit s.mat.det) : s.projR 0 = 1 := by
  have : keep 0 s.σ = fun _ => (1 : ℝ) := by
    funext i; simp [keep, s.sigma_pos_of_isUnit h i]
  rw [Svd.projR, this, diagonal_one, Matrix.mul_one, s.hV']

theorem Svd.pinv_zero_eq_inv (s : Svd q) (h : IsUnit s.mat.det) : s.pinv 0 = s.mat⁻¹ := by
  have := s.pinv_mul_mat (cutoff := 0) le_rfl
  rw [s.projR_zero_of_isUnit h] at this
  exact (inv_eq_left_inv this).symm

end Invertible

/-! ## Symmetric argument: left and right retained projectors coincide -/

section Symmetric
variable {q : Type} [Fintype q] [DecidableEq q]

/-- if the decomposed matrix is symmetric, `U diag(k) Uᵀ = V diag(k) Vᵀ` for every `k` that is a function of the
singular value (spectral projectors of `A²` are unique) -/
theorem Svd.conj_eq_of_symm (s : Svd q) (hs : s.matᵀ = s.mat) (k : q → ℝ)
    (hk : ∀ i j, s.σ i = s.σ j → k i = k j) :
    s.U * diagonal k * s.Uᵀ = s.V * diagonal k * s.Vᵀ := by
  set W := s.Uᵀ * s.V with hW
  -- A Aᵀ = U Σ² Uᵀ and Aᵀ A = V Σ² Vᵀ agree
  have h1 : s.mat * s.matᵀ = s.U * diagonal (fun i => s.σ i * s.σ i) * s.Uᵀ := by
    have e : s.mat * s.matᵀ = s.U * (diagonal s.σ * (s.Vᵀ * s.V) * diagonal s.σ) * s.Uᵀ := by
      simp only [Svd.mat, transpose_mul, transpose_transpose, diagonal_transpose, Matrix.mul_assoc]
    rw [e, s.hV, Matrix.mul_one, diagonal_mul_diagonal]
  have h2 : s.matᵀ * s.mat = s.V * diagonal (fun i => s.σ i * s.σ i) * s.Vᵀ := by
    have e : s.matᵀ * s.mat = s.V * (diagonal s.σ * (s.Uᵀ * s.U) * diagonal s.σ) * s.Vᵀ := by
      simp only [Svd.mat, transpose_mul, transpose_transpose, diagonal_transpose, Matrix.mul_assoc]
    rw [e, s.hU, Matrix.mul_one, diagonal_mul_diagonal]
  have h3 : s.U * diagonal (fun i => s.σ i * s.σ i) * s.Uᵀ
      = s.V * diagonal (fun i => s.σ i * s.σ i) * s.Vᵀ := by
    rw [← h1, ← h2, hs]
  -- hence Σ² W = W Σ²
  have h4 : diagonal (fun i => s.σ i * s.σ i) * W = W * diagonal (fun i => s.σ i * s.σ i) := by
    have := congrArg (fun M => s.Uᵀ * M * s.V) h3
    beta_reduce at this
    have l : s.Uᵀ * (s.U * diagonal (fun i => s.σ i * s.σ i) * s.Uᵀ) * s.V
        = (s.Uᵀ * s.U) * diagonal (fun i => s.σ i * s.σ i) * (s.Uᵀ * s.V) := by
      simp only [Matrix.mul_assoc]
    have r : s.Uᵀ * (s.V * diagonal (fun i => s.σ i * s.σ i) * s.Vᵀ) * s.V
        = (s.Uᵀ * s.V) * diagonal (fun i => s.σ i * s.σ i) * (s.Vᵀ * s.V) := by
      simp only [Matrix.mul_assoc]
    rw [l, r, s.hU, s.hV, Matrix.one_mul, Matrix.mul_one] at this
    exact this
  -- entrywise: W i j ≠ 0 → σ i = σ j → k i = k j
  have h5 : diagonal k * W = W * diagonal k := by
    ext i j
    have e := congrFun (congrFun h4 i) j
    rw [diagonal_mul, mul_diagonal] at e
    rw [diagonal_mul, mul_diagonal]
    by_cases hw : W i j = 0
    · simp [hw]
    · have hsq : s.σ i * s.σ i = s.σ j * s.σ j := by
        have : (s.σ i * s.σ i - s.σ j * s.σ j) * W i j = 0 := by linarith
        rcases mul_eq_zero.mp this with h | h
        · linarith
        · exact absurd h hw
      have hij : s.σ i = s.σ j := by
        have hi := s.σ_nonneg i; have hj := s.σ_nonneg j
        nlinarith [sq_nonneg (s.σ i - s.σ j), sq_nonneg (s.σ i + s.σ j)]
      rw [hk i j hij]; ring
  have hWW : W * Wᵀ = 1 := by
    have e : W * Wᵀ = s.Uᵀ * (s.V * s.Vᵀ) * s.U := by
      simp only [hW, transpose_mul, transpose_transpose, Matrix.mul_assoc]
    rw [e, s.hV', Matrix.mul_one, s.hU]
  -- Uᵀ (V K Vᵀ) U = W K Wᵀ = K W Wᵀ = K
  have h6 : s.Uᵀ * (s.V * diagonal k * s.Vᵀ) * s.U = diagonal k := by
    have e : s.Uᵀ * (s.V * diagonal k * s.Vᵀ) * s.U = (W * diagonal k) * Wᵀ := by
      simp only [hW, transpose_mul, transpose_transpose, Matrix.mul_assoc]
    rw [e, ← h5, Matrix.mul_assoc, hWW, Matrix.mul_one]
  have h7 : s.U * (s.Uᵀ * (s.V * diagonal k * s.Vᵀ) * s.U) * s.Uᵀ = s.V * diagonal k * s.Vᵀ := by
    have e : s.U * (s.Uᵀ * (s.V * diagonal k * s.Vᵀ) * s.U) * s.Uᵀ
        = (s.U * s.Uᵀ) * (s.V * diagonal k * s.Vᵀ) * (s.U * s.Uᵀ) := by
      simp only [Matrix.mul_assoc]
    rw [e, s.hU', Matrix.one_mul, Matrix.mul_one]
  rw [← h7, h6]

theorem Svd.projL_eq_projR_of_symm (s : Svd q) (hs : s.matᵀ = s.mat) (cutoff : ℝ) :
    s.projL cutoff = s.projR cutoff :=
  s.conj_eq_of_symm hs (keep cutoff s.σ) (fun i j h => by simp [keep, h])

/-- for a symmetric argument the truncated pseudo-inverse is symmetric -/
theorem Svd.pinv_symm_of_symm (s : Svd q) (hs : s.matᵀ = s.mat) {cutoff : ℝ} (hc : 0 ≤ cutoff) :
    (s.pinv cutoff)ᵀ = s.pinv cutoff := by
  have hPi := s.projL_eq_projR_of_symm hs cutoff
  have hAP := s.mat_mul_pinv hc
  have hAPt : (s.pinv cutoff)ᵀ * s.mat = s.projR cutoff := by
    have := congrArg Matrix.transpose hAP
    rw [transpose_mul, hs, s.projL_symm, hPi] at this; exact this
  calc (s.pinv cutoff)ᵀ = (s.projR cutoff * s.pinv cutoff)ᵀ := by rw [s.projR_mul_pinv]
    _ = (s.pinv cutoff)ᵀ * s.projR cutoff := by rw [transpose_mul, s.projR_symm]
    _ = (s.pinv cutoff)ᵀ * (s.mat * s.pinv cutoff) := by rw [← hPi, hAP]
    _ = ((s.pinv cutoff)ᵀ * s.mat) * s.pinv cutoff := by rw [Matrix.mul_assoc]
    _ = s.pinv cutoff := by rw [hAPt, s.projR_mul_pinv]

end Symmetric

/-! ## Positive semi-definite block matrices: the off-diagonal block vanishes on the kernel of the diagonal block -/

section Range
variable {p q : Type} [Fintype p] [Fintype q] [DecidableEq p] [DecidableEq q]

theorem offdiag_mulVec_eq_zero_of_ker {Con : Matrix p p ℝ} {Conoff : Matrix p q ℝ} {A : Matrix q q ℝ}
    (hM : (fromBlocks Con Conoff Conoffᵀ A).PosSemidef) (x : q → ℝ) (hx : A *ᵥ x = 0) :
    Conoff *ᵥ x = 0 := by
  have h0 : star (Sum.elim (0 : p → ℝ) x) ⬝ᵥ (fromBlocks Con Conoff Conoffᵀ A *ᵥ Sum.elim 0 x) = 0 := by
    rw [fromBlocks_mulVec]
    simp [hx, dotProduct, Fintype.sum_sum_type]
  have h1 := (hM.dotProduct_mulVec_zero_iff _).mp h0
  rw [fromBlocks_mulVec] at h1
  have h2 := congrArg (fun v => v ∘ Sum.inl) h1
  simpa using h2

theorem offdiag_mul_eq_zero_of_ker {Con : Matrix p p ℝ} {Conoff : Matrix p q ℝ} {A : Matrix q q ℝ}
    (hM : (fromBlocks Con Conoff Conoffᵀ A).PosSemidef) (Z : Matrix q q ℝ) (hZ : A * Z = 0) :
    Conoff * Z = 0 := by
  ext i j
  have hx : A *ᵥ (fun k => Z k j) = 0 := by
    funext k
    have := congrFun (congrFun hZ k) j
    simpa [Matrix.mul_apply, mulVec, dotProduct] using this
  have := congrFun (offdiag_mulVec_eq_zero_of_ker hM _ hx) i
  simpa [Matrix.mul_apply, mulVec, dotProduct] using this

/-- zero conditioning, PSD joint covariance: the normal equations hold exactly even when `A` is singular -/
theorem Svd.offdiag_mul_projR_zero (s : Svd q) {Con : Matrix p p ℝ} {Conoff : Matrix p q ℝ}
    (hM : (fromBlocks Con Conoff Conoffᵀ s.mat).PosSemidef) : Conoff * s.projR 0 = Conoff := by
  have hZ : s.mat * (1 - s.projR 0) = 0 := by
    rw [Matrix.mul_sub, Matrix.mul_one, ← s.pinv_mul_mat le_rfl, ← Matrix.mul_assoc, s.penrose1, sub_self]
  have := offdiag_mul_eq_zero_of_ker hM _ hZ
  rw [Matrix.mul_sub, Matrix.mul_one, sub_eq_zero] at this
  exact this.symm

end Range

/-! ## Residual variance of a linear estimator and the optimality identity -/

section Optimal
variable {p q : Type} [Fintype p] [Fintype q]

/-- `J(R) = tr(C_onon − R C_offon − C_onoff Rᵀ + R C_offoff Rᵀ)` with `C_offon = C_onoffᵀ`
(the expected squared residual `E|s_on − R s_off|²`, see `J_eq_sum_sq`) -/
def J (Con : Matrix p p ℝ) (Conoff : Matrix p q ℝ) (A : Matrix q q ℝ) (R : Matrix p q ℝ) : ℝ :=
  Matrix.trace (Con - R * Conoffᵀ - Conoff * Rᵀ + R * A * Rᵀ)

theorem trace_mul_transpose_comm (X Y : Matrix p q ℝ) : Matrix.trace (X * Yᵀ) = Matrix.trace (Y * Xᵀ) := by
  rw [← trace_transpose, transpose_mul, transpose_transpose]

/-- exact second-order expansion of `J` around `R` (A symmetric) -/
theorem J_add (Con : Matrix p p ℝ) (Conoff : Matrix p q ℝ) (A : Matrix q q ℝ) (hA : Aᵀ = A)
    (R Δ : Matrix p q ℝ) :
    J Con Conoff A (R + Δ) - J Con Conoff A R
      = Matrix.trace (Δ * A * Δᵀ) + 2 * Matrix.trace ((R * A - Conoff) * Δᵀ) := by
  have h1 : Matrix.trace (Δ * Conoffᵀ) = Matrix.trace (Conoff * Δᵀ) := trace_mul_transpose_comm _ _
  have h2 : Matrix.trace (Δ * A * Rᵀ) = Matrix.trace (R * A * Δᵀ) := by
    rw [trace_mul_transpose_comm, Matrix.mul_assoc R, ← hA, ← transpose_mul, hA,
      trace_mul_transpose_comm]
  simp only [J, Matrix.add_mul, Matrix.mul_add, Matrix.sub_mul, transpose_add, trace_add, trace_sub]
  rw [h1, h2]; ring

/-- **Optimality identity.**  If `R` satisfies the normal equations `R A = C_onoff` then for every competitor
`R'`: `J R' − J R = tr((R'−R) A (R'−R)ᵀ)`. -/
theorem J_sub_of_normal_eq (Con : Matrix p p ℝ) (Conoff : Matrix p q ℝ) (A : Matrix q q ℝ)
    (hA : Aᵀ = A) (R : Matrix p q ℝ) (hR : R * A = Conoff) (R' : Matrix p q ℝ) :
    J Con Conoff A R' - J Con Conoff A R = Matrix.trace ((R' - R) * A * (R' - R)ᵀ) := by
  have := J_add Con Conoff A hA R (R' - R)
  rw [add_sub_cancel] at this
  rw [this, hR]; simp

theorem trace_conj_nonneg {A : Matrix q q ℝ} (hA : A.PosSemidef) (D : Matrix p q ℝ) :
    0 ≤ Matrix.trace (D * A * Dᵀ) := by
  have := (hA.mul_mul_conjTranspose_same D).trace_nonneg
  simpa [conjTranspose_eq_transpose_of_trivial] using this

theorem conj_diag_eq (A : Matrix q q ℝ) (D : Matrix p q ℝ) (i : p) :
    (D * A * Dᵀ) i i = star (D i) ⬝ᵥ (A *ᵥ (D i)) := by
  simp only [Matrix.mul_apply, transpose_apply, dotProduct, mulVec, star_trivial, Finset.sum_mul,
    Finset.mul_sum]
  rw [Finset.sum_comm]
  exact Finset.sum_congr rfl fun j _ => Finset.sum_congr rfl fun k _ => by ring

/-- for a positive DEFINITE `A` the excess `tr(D A Dᵀ)` is strictly positive unless `D = 0` -/
theorem trace_conj_pos {A : Matrix q q ℝ} (hA : A.PosDef) (D : Matrix p q ℝ) (hD : D ≠ 0) :
    0 < Matrix.trace (D * A * Dᵀ) := by
  obtain ⟨i, hi⟩ : ∃ i, D i ≠ 0 := by
    by_contra h
    simp only [not_exists, not_not] at h
    exact hD (by ext i j; simp [h i])
  simp only [Matrix.trace, Matrix.diag, conj_diag_eq]
  exact Finset.sum_pos' (fun i _ => hA.posSemidef.dotProduct_mulVec_nonneg _)
    ⟨i, Finset.mem_univ i, hA.dotProduct_mulVec_pos hi⟩

/-- **Reading of `J` as a mean squared residual.**  If the covariance blocks are the second moments of a finite
sample of slope vectors (columns of `Son`, `Soff`: every PSD matrix is such a Gram matrix) then `J R` is the summed
squared residual `Σ_t |s_on(t) − R s_off(t)|²`. -/
theorem J_eq_sum_sq {T : Type} [Fintype T] (Son : Matrix p T ℝ) (Soff : Matrix q T ℝ) (R : Matrix p q ℝ) :
    J (Son * Sonᵀ) (Son * Soffᵀ) (Soff * Soffᵀ) R = ∑ i, ∑ t, ((Son - R * Soff) i t) ^ 2 := by
  have e : Son * Sonᵀ - R * (Son * Soffᵀ)ᵀ - Son * Soffᵀ * Rᵀ + R * (Soff * Soffᵀ) * Rᵀ
      = (Son - R * Soff) * (Son - R * Soff)ᵀ := by
    simp only [transpose_sub, transpose_mul, transpose_transpose, Matrix.mul_sub, Matrix.sub_mul,
      Matrix.mul_assoc]
    abel
  unfold J
  rw [e]
  simp only [Matrix.trace, Matrix.diag, Matrix.mul_apply, transpose_apply, sq]

end Optimal

/-! ## Bridge: the Mathlib-free model (`ℕ`-indexed functions, `sumTo` loops) as Mathlib matrices -/

section Bridge

/-- the `a×b` top-left window of an index function as a Mathlib matrix -/
def toMat (a b : ℕ) (f : Mat ℝ) : Matrix (Fin a) (Fin b) ℝ := Matrix.of fun i j => f i j

@[simp] theorem toMat_apply (a b : ℕ) (f : Mat ℝ) (i : Fin a) (j : Fin b) : toMat a b f i j = f i j := rfl

theorem toMat_matMul (a m b : ℕ) (A B : Mat ℝ) :
    toMat a b (matMul m A B) = toMat a m A * toMat m b B := by
  ext i j
  simp only [toMat_apply, matMul, Matrix.mul_apply, sumTo_eq_sum]
  exact Finset.sum_range (fun k => A i k * B k j)

theorem toMat_transpose (a b : ℕ) (A : Mat ℝ) : toMat a b (Tomo.transpose A) = (toMat b a A)ᵀ := rfl

theorem trace_toMat (p : ℕ) (A : Mat ℝ) : Tomo.trace p A = Matrix.trace (toMat p p A) := by
  simp only [Tomo.trace, Matrix.trace, sumTo_eq_sum, Matrix.diag, toMat_apply]
  exact Finset.sum_range (fun k => A k k)

/-- positions of the on-axis rows/columns in the full matrix -/
def onIdx {N n : ℕ} (h : 2 * n ≤ N) : Fin (2 * n) → Fin N := fun i => ⟨i, by have := i.isLt; omega⟩
/-- positions of the off-axis rows/columns in the full matrix -/
def offIdx {N n : ℕ} (h : 2 * n ≤ N) : Fin (N - 2 * n) → Fin N := fun i => ⟨2 * n + i, by have := i.isLt; omega⟩

theorem toMat_covOnOn {N n : ℕ} (h : 2 * n ≤ N) (C : Mat ℝ) :
    toMat (2 * n) (2 * n) (covOnOn n C) = (toMat N N C).submatrix (onIdx h) (onIdx h) := rfl
theorem toMat_covOnOff {N n : ℕ} (h : 2 * n ≤ N) (C : Mat ℝ) :
    toMat (2 * n) (N - 2 * n) (covOnOff n C) = (toMat N N C).submatrix (onIdx h) (offIdx h) := rfl
theorem toMat_covOffOn {N n : ℕ} (h : 2 * n ≤ N) (C : Mat ℝ) :
    toMat (N - 2 * n) (2 * n) (covOffOn n C) = (toMat N N C).submatrix (offIdx h) (onIdx h) := rfl
theorem toMat_covOffOff {N n : ℕ} (h : 2 * n ≤ N) (C : Mat ℝ) :
    toMat (N - 2 * n) (N - 2 * n) (covOffOff n C) = (toMat N N C).submatrix (offIdx h) (offIdx h) := rfl

theorem toMat_covOffOn_eq_transpose {N n : ℕ} (h : 2 * n ≤ N) (C : Mat ℝ) (hC : (toMat N N C)ᵀ = toMat N N C) :
    toMat (N - 2 * n) (2 * n) (covOffOn n C) = (toMat (2 * n) (N - 2 * n) (covOnOff n C))ᵀ := by
  rw [toMat_covOffOn h, toMat_covOnOff h, transpose_submatrix, hC]

theorem covOffOff_symm {N n : ℕ} (h : 2 * n ≤ N) (C : Mat ℝ) (hC : (toMat N N C)ᵀ = toMat N N C) :
    (toMat (N - 2 * n) (N - 2 * n) (covOffOff n C))ᵀ = toMat (N - 2 * n) (N - 2 * n) (covOffOff n C) := by
  rw [toMat_covOffOff h, transpose_submatrix, hC]

theorem covOffOff_posSemidef {N n : ℕ} (h : 2 * n ≤ N) (C : Mat ℝ) (hC : (toMat N N C).PosSemidef) :
    (toMat (N - 2 * n) (N - 2 * n) (covOffOff n C)).PosSemidef := by
  rw [toMat_covOffOff h]; exact hC.submatrix _

/-- the partitioned matrix, re-indexed by `on ⊕ off`, is the block matrix of the four slices -/
theorem blocks_posSemidef {N n : ℕ} (h : 2 * n ≤ N) (C : Mat ℝ) (hC : (toMat N N C).PosSemidef) :
    (fromBlocks (toMat (2 * n) (2 * n) (covOnOn n C)) (toMat (2 * n) (N - 2 * n) (covOnOff n C))
      (toMat (2 * n) (N - 2 * n) (covOnOff n C))ᵀ (toMat (N - 2 * n) (N - 2 * n) (covOffOff n C))).PosSemidef := by
  have hs : (toMat N N C)ᵀ = toMat N N C := by
    have := hC.isHermitian; rwa [IsHermitian, conjTranspose_eq_transpose_of_trivial] at this
  have := hC.submatrix (Sum.elim (onIdx h) (offIdx h))
  convert this using 1
  rw [← toMat_covOffOn_eq_transpose h C hs]
  ext (i | i) (j | j) <;> rfl

/-- the model's residual variance is the matrix functional `J` -/
theorem residualVariance_eq_J {N n : ℕ} (h : 2 * n ≤ N) (C R : Mat ℝ) (hC : (toMat N N C)ᵀ = toMat N N C) :
    residualVariance N n C R
      = J (toMat (2 * n) (2 * n) (covOnOn n C)) (toMat (2 * n) (N - 2 * n) (covOnOff n C))
          (toMat (N - 2 * n) (N - 2 * n) (covOffOff n C)) (toMat (2 * n) (N - 2 * n) R) := by
  unfold residualVariance J
  rw [trace_toMat]
  congr 1
  ext i j
  simp only [toMat_apply, Matrix.add_apply, Matrix.sub_apply]
  rw [← toMat_apply (2 * n) (2 * n) (matMul (N - 2 * n) R (covOffOn n C)) i j,
    ← toMat_apply (2 * n) (2 * n) (matMul (N - 2 * n) (covOnOff n C) (Tomo.transpose R)) i j,
    ← toMat_apply (2 * n) (2 * n)
      (matMul (N - 2 * n) (matMul (N - 2 * n) R (covOffOff n C)) (Tomo.transpose R)) i j,
    toMat_matMul, toMat_matMul, toMat_matMul, toMat_matMul, toMat_transpose,
    toMat_covOffOn_eq_transpose h C hC]

end Bridge

/-! ## numpy.linalg.pinv as written in the model (`pinvFromSvd`) meets the abstract contract -/

section Numpy

theorem sigMax_fold_mem (σ : ℕ → ℝ) (l : List ℕ) (m0 : ℝ) :
    (l.foldl (fun m i => if m < σ i then σ i else m) m0 = m0) ∨
      ∃ i ∈ l, l.foldl (fun m i => if m < σ i then σ i else m) m0 = σ i := by
  induction l generalizing m0 with
  | nil => left; rfl
  | cons a t ih =>
    simp only [List.foldl_cons]
    rcases ih (if m0 < σ a then σ a else m0) with h | ⟨i, hi, h⟩
    · by_cases hm : m0 < σ a
      · right; exact ⟨a, List.mem_cons_self, by rw [h]; simp [hm]⟩
      · left; rw [h]; simp [hm]
    · right; exact ⟨i, List.mem_cons_of_mem _ hi, h⟩

theorem sigMax_fold_ge (σ : ℕ → ℝ) (l : List ℕ) (m0 : ℝ) :
    m0 ≤ l.foldl (fun m i => if m < σ i then σ i else m) m0 ∧
      ∀ i ∈ l, σ i ≤ l.foldl (fun m i => if m < σ i then σ i else m) m0 := by
  induction l generalizing m0 with
  | nil => simp
  | cons a t ih =>
    simp only [List.foldl_cons, List.mem_cons, forall_eq_or_imp]
    obtain ⟨h1, h2⟩ := ih (if m0 < σ a then σ a else m0)
    refine ⟨?_, ?_, h2⟩
    · refine le_trans ?_ h1; split_ifs with hm <;> linarith
    · refine le_trans ?_ h1; split_ifs with hm <;> linarith

/-- `sigMax` is the largest singular value: an upper bound … -/
theorem sigMax_ge (q : ℕ) (σ : ℕ → ℝ) (i : ℕ) (hi : i < q) : σ i ≤ sigMax q σ :=
  (sigMax_fold_ge σ (List.range q) (σ 0)).2 i (List.mem_range.mpr hi)

/-- … that is attained -/
theorem sigMax_mem (q : ℕ) (hq : 0 < q) (σ : ℕ → ℝ) : ∃ i < q, sigMax q σ = σ i := by
  rcases sigMax_fold_mem σ (List.range q) (σ 0) with h | ⟨i, hi, h⟩
  · exact ⟨0, hq, h⟩
  · exact ⟨i, List.mem_range.mp hi, h⟩

theorem sigMax_nonneg (q : ℕ) (hq : 0 < q) (σ : ℕ → ℝ) (hσ : ∀ i < q, 0 ≤ σ i) : 0 ≤ sigMax q σ := by
  obtain ⟨i, hi, h⟩ := sigMax_mem q hq σ
  rw [h]; exact hσ i hi

theorem truncInv_eq (cutoff s : ℝ) : truncInv cutoff s = if cutoff < s then s⁻¹ else 0 := by
  unfold truncInv; split_ifs <;> simp

theorem toMat_pinvFromSvd (q : ℕ) (rcond : ℝ) (U : Mat ℝ) (σ : ℕ → ℝ) (Vt : Mat ℝ) :
    toMat q q (pinvFromSvd q rcond U σ Vt)
      = (toMat q q Vt)ᵀ * diagonal (sinv (rcond * sigMax q σ) (fun i : Fin q => σ i)) * (toMat q q U)ᵀ := by
  ext i j
  rw [Matrix.mul_apply]
  simp only [mul_diagonal, transpose_apply, toMat_apply, pinvFromSvd, sumTo_eq_sum, truncInv_eq, sinv]
  rw [Finset.sum_range (fun k => Vt k i * ((if rcond * sigMax q σ < σ k then (σ k)⁻¹ else 0) * U j k))]
  exact Finset.sum_congr rfl (fun k _ => by ring)

/-- **The kernel contract, on the model's own representation.**  `u, s, vt` are what `numpy.linalg.svd` returned
for the `q×q` argument `A` (orthogonal factors, non-negative singular values, `A = u·diag(s)·vt`) and the kernel's
output `P` is `pinvFromSvd` of them. -/
structure NumpyPinv (q : ℕ) (rcond : ℝ) (A P : Mat ℝ) where
  u : Mat ℝ
  sv : ℕ → ℝ
  vt : Mat ℝ
  orth_u : (toMat q q u)ᵀ * toMat q q u = 1
  orth_vt : toMat q q vt * (toMat q q vt)ᵀ = 1
  sv_nonneg : ∀ i < q, 0 ≤ sv i
  factor : toMat q q A = toMat q q u * diagonal (fun i : Fin q => sv i) * toMat q q vt
  out : toMat q q P = toMat q q (pinvFromSvd q rcond u sv vt)

namespace NumpyPinv
variable {q : ℕ} {rcond : ℝ} {A P : Mat ℝ} (h : NumpyPinv q rcond A P)

/-- the abstract SVD behind a kernel call -/
noncomputable def svd : Svd (Fin q) where
  U := toMat q q h.u
  V := (toMat q q h.vt)ᵀ
  σ := fun i => h.sv i
  hU := h.orth_u
  hV := by rw [transpose_transpose]; exact h.orth_vt
  σ_nonneg := fun i => h.sv_nonneg i i.isLt

/-- the truncation threshold `rcond · σ_max` -/
noncomputable def cutoff : ℝ := rcond * sigMax q h.sv

theorem cutoff_nonneg (hq : 0 < q) (hr : 0 ≤ rcond) : 0 ≤ h.cutoff :=
  mul_nonneg hr (sigMax_nonneg q hq h.sv h.sv_nonneg)

theorem cutoff_zero (hr : rcond = 0) : h.cutoff = 0 := by simp [cutoff, hr]

theorem contract : PinvContract h.svd h.cutoff (toMat q q A) (toMat q q P) := by
  refine ⟨?_, ?_⟩
  · rw [h.factor]; simp [Svd.mat, svd]
  · rw [h.out, toMat_pinvFromSvd]; rfl

end NumpyPinv
end Numpy

end AoVerif.Tomo
