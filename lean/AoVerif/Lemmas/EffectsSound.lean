/- Soundness of the abstract interpreter of `Model/Effects.lean` (core Lean only). -/
import AoVerif.Model.Effects

namespace AoVerif.Effects

theorem get_nil (x : Var) : get [] x = [] := by cases x <;> rfl

theorem get_set (l : List (List Var)) (x y : Var) (v : List Var) :
    get (set l x v) y = if y = x then v else get l y := by
  induction l generalizing x y with
  | nil =>
    induction x generalizing y with
    | zero => cases y <;> simp [set, get, get_nil]
    | succ x ih => cases y with
      | zero => simp [set, get]
      | succ y =>
        simp only [set, get, ih, get_nil]
        by_cases h : y = x <;> simp [h]
  | cons r rs ih =>
    cases x with
    | zero => cases y <;> simp [set, get]
    | succ x => cases y with
      | zero => simp [set, get]
      | succ y =>
        simp only [set, get, ih]
        by_cases h : y = x <;> simp [h]

theorem get_joinR (a b : List (List Var)) (x : Var) : get (joinR a b) x = get a x ++ get b x := by
  induction a generalizing b x with
  | nil => simp [joinR, get_nil]
  | cons r rs ih =>
    cases b with
    | nil => simp [joinR, get_nil]
    | cons q qs => cases x with
      | zero => simp [joinR, get]
      | succ x => simp [joinR, get, ih]

theorem mem_dedup (l : List Var) (p : Var) : p ∈ dedup l ↔ p ∈ l := by
  unfold dedup
  have : ∀ (acc : List Var), p ∈ l.foldl (fun acc x => if acc.contains x then acc else acc ++ [x]) acc ↔ p ∈ acc ∨ p ∈ l := by
    induction l with
    | nil => intro acc; simp
    | cons x xs ih =>
      intro acc
      rw [List.foldl_cons, ih, List.mem_cons]
      by_cases h : acc.contains x = true
      · rw [if_pos h]
        have hx : x ∈ acc := by simpa using h
        constructor
        · rintro (h1 | h1)
          · exact Or.inl h1
          · exact Or.inr (Or.inr h1)
        · rintro (h1 | h1 | h1)
          · exact Or.inl h1
          · exact Or.inl (h1 ▸ hx)
          · exact Or.inr h1
      · rw [if_neg h, List.mem_append, List.mem_singleton]
        constructor
        · rintro ((h1 | h1) | h1)
          · exact Or.inl h1
          · exact Or.inr (Or.inl h1)
          · exact Or.inr (Or.inr h1)
        · rintro (h1 | h1 | h1)
          · exact Or.inl (Or.inl h1)
          · exact Or.inl (Or.inr h1)
          · exact Or.inr h1
  simpa using this []

theorem get_init (k x : Var) : get (init k).roots x = if x < k then [x] else [] := by
  unfold init
  simp only
  have : ∀ (n : Nat) (x : Var), get ((List.range' n k).map (fun x => [x])) x = if x < k then [n + x] else [] := by
    intro n
    induction k generalizing n with
    | zero => intro x; simp [get_nil]
    | succ k ih =>
      intro x
      cases x with
      | zero => simp [List.range'_succ, get]
      | succ x =>
        simp only [List.range'_succ, List.map_cons, get, ih (n+1) x]
        by_cases h : x < k <;> simp [h] <;> omega
  rw [List.range_eq_range', this 0 x]; simp

theorem get_top (k m x : Var) : get (top k m).roots x = if x < m then List.range k else [] := by
  unfold top
  simp only
  induction m generalizing x with
  | zero => simp [get_nil]
  | succ m ih =>
    cases x with
    | zero => simp [List.replicate_succ, get]
    | succ x => simp only [List.replicate_succ, get, ih x]; by_cases h : x < m <;> simp [h]

/-- abstraction relation: original buffers (`< n0`) are exactly the parameters' buffers `b0 p`, `p < k` -/
structure Gam (b0 : Var → Buf) (k m n0 : Nat) (c : CState) (a : AbsState) : Prop where
  env : ∀ x buf, c.env x = some buf → buf < n0 → ∃ p, p ∈ get a.roots x ∧ p < k ∧ b0 p = buf
  wr : ∀ buf, buf ∈ c.written → buf < n0 → ∃ p, p ∈ a.w ∧ p < k ∧ b0 p = buf
  g : c.g = true → a.g = true
  nx : n0 ≤ c.next
  out : ∀ x, m ≤ x → c.env x = none

variable {b0 : Var → Buf} {k m n0 : Nat}

theorem leq_sound {a b : AbsState} (h : leq m a b = true) :
    (∀ x, x < m → ∀ p, p ∈ get a.roots x → p ∈ get b.roots x) ∧ (∀ p, p ∈ a.w → p ∈ b.w) ∧ (a.g = true → b.g = true) := by
  unfold leq at h
  simp only [Bool.and_eq_true, List.all_eq_true, List.mem_range, List.contains_eq_mem, decide_eq_true_eq,
    Bool.or_eq_true, Bool.not_eq_true'] at h
  obtain ⟨⟨h1, h2⟩, h3⟩ := h
  refine ⟨fun x hx p hp => h1 x hx p hp, h2, ?_⟩
  intro hg
  cases h3 with
  | inl h => rw [hg] at h; cases h
  | inr h => exact h

theorem Gam.mono {c : CState} {a b : AbsState} (hc : Gam b0 k m n0 c a) (h : leq m a b = true) :
    Gam b0 k m n0 c b := by
  obtain ⟨h1, h2, h3⟩ := leq_sound h
  refine ⟨?_, ?_, fun hg => h3 (hc.g hg), hc.nx, hc.out⟩
  · intro x buf hx hb
    obtain ⟨p, hp, hk, hbp⟩ := hc.env x buf hx hb
    have hxm : x < m := by
      rcases Nat.lt_or_ge x m with h | h
      · exact h
      · rw [hc.out x h] at hx; cases hx
    exact ⟨p, h1 x hxm p hp, hk, hbp⟩
  · intro buf hb hlt
    obtain ⟨p, hp, hk, hbp⟩ := hc.wr buf hb hlt
    exact ⟨p, h2 p hp, hk, hbp⟩

theorem Gam.join_left {c : CState} {a b : AbsState} (hc : Gam b0 k m n0 c a) : Gam b0 k m n0 c (join a b) := by
  refine ⟨?_, ?_, ?_, hc.nx, hc.out⟩
  · intro x buf hx hb
    obtain ⟨p, hp, hk, hbp⟩ := hc.env x buf hx hb
    exact ⟨p, by simp only [join, get_joinR]; exact List.mem_append_left _ hp, hk, hbp⟩
  · intro buf hb hlt
    obtain ⟨p, hp, hk, hbp⟩ := hc.wr buf hb hlt
    exact ⟨p, List.mem_append_left _ hp, hk, hbp⟩
  · intro hg; simp [join, hc.g hg]

theorem Gam.join_right {c : CState} {a b : AbsState} (hc : Gam b0 k m n0 c b) : Gam b0 k m n0 c (join a b) := by
  refine ⟨?_, ?_, ?_, hc.nx, hc.out⟩
  · intro x buf hx hb
    obtain ⟨p, hp, hk, hbp⟩ := hc.env x buf hx hb
    exact ⟨p, by simp only [join, get_joinR]; exact List.mem_append_right _ hp, hk, hbp⟩
  · intro buf hb hlt
    obtain ⟨p, hp, hk, hbp⟩ := hc.wr buf hb hlt
    exact ⟨p, List.mem_append_right _ hp, hk, hbp⟩
  · intro hg; simp [join, hc.g hg]

/-- every state whose original buffers all belong to parameters is below `top` -/
theorem Gam.top {c : CState} {a : AbsState} (hsurj : ∀ buf, buf < n0 → ∃ p, p < k ∧ b0 p = buf)
    (hc : Gam b0 k m n0 c a) : Gam b0 k m n0 c (top k m) := by
  refine ⟨?_, ?_, fun _ => rfl, hc.nx, hc.out⟩
  · intro x buf hx hb
    obtain ⟨p, hk, hbp⟩ := hsurj buf hb
    have hxm : x < m := by
      rcases Nat.lt_or_ge x m with h | h
      · exact h
      · rw [hc.out x h] at hx; cases hx
    exact ⟨p, by rw [get_top, if_pos hxm]; exact List.mem_range.2 hk, hk, hbp⟩
  · intro buf _ hlt
    obtain ⟨p, hk, hbp⟩ := hsurj buf hlt
    exact ⟨p, List.mem_range.2 hk, hk, hbp⟩

/-- the loop rule: if one body step preserves the abstraction (for every abstract state), any number of steps does -/
theorem absLoop_sound (f : AbsState → AbsState) (R : CState → CState → Prop)
    (hsurj : ∀ buf, buf < n0 → ∃ p, p < k ∧ b0 p = buf)
    (hf : ∀ c c' a, R c c' → Gam b0 k m n0 c a → Gam b0 k m n0 c' (f a)) :
    ∀ fuel a c c' n, Gam b0 k m n0 c a → iter R n c c' → Gam b0 k m n0 c' (absLoop f k m fuel a) := by
  intro fuel
  induction fuel with
  | zero =>
    intro a c c' n hc hit
    -- result is `top`; show reachability keeps the structural invariants
    have : ∀ n c c' a, Gam b0 k m n0 c a → iter R n c c' → ∃ a', Gam b0 k m n0 c' a' := by
      intro n
      induction n with
      | zero => intro c c' a hc h; exact ⟨a, by simpa [iter] using h ▸ hc⟩
      | succ n ih =>
        intro c c' a hc h
        obtain ⟨c1, h1, h2⟩ := h
        exact ih c1 c' (f a) (hf c c1 a h1 hc) h2
    obtain ⟨a', ha'⟩ := this n c c' a hc hit
    exact ha'.top hsurj
  | succ fuel ih =>
    intro a c c' n hc hit
    unfold absLoop
    by_cases hle : leq m (f a) a = true
    · simp only [hle, if_true]
      -- `a` is a post-fixpoint: invariant along the iteration
      induction n generalizing c with
      | zero => simpa [iter] using hit ▸ hc
      | succ n ihn =>
        obtain ⟨c1, h1, h2⟩ := hit
        exact ihn c1 ((hf c c1 a h1 hc).mono hle) h2
    · simp only [hle]
      exact ih (join a (f a)) c c' n hc.join_left hit

theorem abs_sound (hsurj : ∀ buf, buf < n0 → ∃ p, p < k ∧ b0 p = buf) :
    ∀ (s : Stmt) (c c' : CState) (a : AbsState), wf m s = true → Exec s c c' → Gam b0 k m n0 c a →
      Gam b0 k m n0 c' (abs k m s a) := by
  intro s
  induction s with
  | skip => intro c c' a _ h hc; simp only [Exec] at h; subst h; exact hc
  | assign x srcs =>
    intro c c' a hw h hc
    simp only [wf, Bool.and_eq_true, decide_eq_true_eq, List.all_eq_true] at hw
    obtain ⟨hxm, hsm⟩ := hw
    simp only [Exec] at h
    rcases h with h | ⟨y, hy, h⟩
    · subst h
      refine ⟨?_, hc.wr, hc.g, Nat.le_succ_of_le hc.nx, ?_⟩
      · intro z buf hz hb
        simp only [upd] at hz
        by_cases hzx : z = x
        · rw [hzx] at hz
          simp only [if_true, Option.some.injEq] at hz
          exact absurd (hz ▸ hb : c.next < n0) (Nat.not_lt.2 hc.nx)
        · simp only [hzx, if_false] at hz
          obtain ⟨p, hp, hk, hbp⟩ := hc.env z buf hz hb
          exact ⟨p, by simp only [abs, get_set, hzx, if_false]; exact hp, hk, hbp⟩
      · intro z hz
        simp only [upd]
        have : z ≠ x := by intro h; rw [h] at hz; exact absurd hxm (Nat.not_lt.2 hz)
        simp only [this, if_false]; exact hc.out z hz
    · subst h
      refine ⟨?_, hc.wr, hc.g, hc.nx, ?_⟩
      · intro z buf hz hb
        simp only [upd] at hz
        by_cases hzx : z = x
        · simp only [hzx, if_true] at hz
          obtain ⟨p, hp, hk, hbp⟩ := hc.env y buf hz hb
          refine ⟨p, ?_, hk, hbp⟩
          simp only [abs, get_set, hzx, if_true]
          exact (mem_dedup _ _).2 (List.mem_flatMap.2 ⟨y, hy, hp⟩)
        · simp only [hzx, if_false] at hz
          obtain ⟨p, hp, hk, hbp⟩ := hc.env z buf hz hb
          exact ⟨p, by simp only [abs, get_set, hzx, if_false]; exact hp, hk, hbp⟩
      · intro z hz
        simp only [upd]
        have : z ≠ x := by intro h; rw [h] at hz; exact absurd hxm (Nat.not_lt.2 hz)
        simp only [this, if_false]; exact hc.out z hz
  | write x =>
    intro c c' a _ h hc
    simp only [Exec] at h
    rcases h with ⟨b, hb, h⟩ | ⟨_, h⟩
    · subst h
      refine ⟨hc.env, ?_, hc.g, hc.nx, hc.out⟩
      intro buf hmem hlt
      simp only [List.mem_cons] at hmem
      rcases hmem with hmem | hmem
      · subst hmem
        obtain ⟨p, hp, hk, hbp⟩ := hc.env x buf hb hlt
        exact ⟨p, (mem_dedup _ _).2 (List.mem_append_right _ hp), hk, hbp⟩
      · obtain ⟨p, hp, hk, hbp⟩ := hc.wr buf hmem hlt
        exact ⟨p, (mem_dedup _ _).2 (List.mem_append_left _ hp), hk, hbp⟩
    · subst h
      refine ⟨hc.env, ?_, hc.g, hc.nx, hc.out⟩
      intro buf hmem hlt
      obtain ⟨p, hp, hk, hbp⟩ := hc.wr buf hmem hlt
      exact ⟨p, (mem_dedup _ _).2 (List.mem_append_left _ hp), hk, hbp⟩
  | globalWrite =>
    intro c c' a _ h hc
    simp only [Exec] at h; subst h
    exact ⟨hc.env, hc.wr, fun _ => rfl, hc.nx, hc.out⟩
  | seq s t ihs iht =>
    intro c c' a hw h hc
    simp only [wf, Bool.and_eq_true] at hw
    obtain ⟨c1, h1, h2⟩ := h
    exact iht c1 c' _ hw.2 h2 (ihs c c1 a hw.1 h1 hc)
  | ite s t ihs iht =>
    intro c c' a hw h hc
    simp only [wf, Bool.and_eq_true] at hw
    rcases h with h | h
    · exact (ihs c c' a hw.1 h hc).join_left
    · exact (iht c c' a hw.2 h hc).join_right
  | loop b ih =>
    intro c c' a hw h hc
    simp only [wf] at hw
    obtain ⟨n, hn⟩ := h
    exact absLoop_sound (abs k m b) (Exec b) hsurj (fun c c' a h hc => ih c c' a hw h hc) _ a c c' n hc hn

end AoVerif.Effects
