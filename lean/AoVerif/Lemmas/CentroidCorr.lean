/-
The correlation theorem for the DFT kernel of C09: `ifft(fft(x) · fft⁻(y))` is the circular cross-correlation
`k ↦ Σ_m y_m x_{(m+k) mod n}` (`fft⁻` = the transform against the inverse root, i.e. `conj(fft(y))` for real `y`).
Over any field with a primitive n-th root of unity.
-/
import AoVerif.Lemmas.DFT
import AoVerif.Model.Centroid

namespace AoVerif.Centroid
open Finset AoVerif AoVerif.Fourier AoVerif.DFT
set_option linter.unusedSectionVars false

section root
variable {K : Type} [Field K] {n : ℕ} {ζ : K}

theorem dft_pow (hζ : IsPrimitiveRoot ζ n) (hn : 0 < n) (x : ℕ → K) (k : ℕ) :
    dft n (fun m => ζ ^ m) x k = ∑ a ∈ range n, x a * ζ ^ ((a : ℤ) * (k : ℤ)) := by
  unfold dft
  rw [sumTo_eq_sum]
  apply sum_congr rfl; intro a _
  congr 1
  show ζ ^ (a * k % n) = _
  rw [← zpow_natCast]
  apply zpow_congr hζ hn
  have : ((a * k % n : ℕ) : ℤ) = ((a : ℤ) * (k : ℤ)) % (n : ℤ) := by push_cast; rfl
  rw [this, Int.emod_def]
  exact ⟨-((a : ℤ) * (k : ℤ) / (n : ℤ)), by ring⟩

theorem idft_pow (hζ : IsPrimitiveRoot ζ n) (hn : 0 < n) (ninv : K) (x : ℕ → K) (j : ℕ) :
    idft n (fun m => ζ⁻¹ ^ m) ninv x j = ninv * ∑ k ∈ range n, x k * ζ⁻¹ ^ ((j : ℤ) * (k : ℤ)) := by
  rw [idft_eq_dft, dft_pow hζ.inv hn]
  congr 1
  apply sum_congr rfl; intro k _
  rw [mul_comm (k : ℤ)]

/-- 1-D correlation theorem -/
theorem idft_mul_dft (hζ : IsPrimitiveRoot ζ n) (hn : 0 < n) (x y : ℕ → K) (j : ℕ) :
    idft n (fun m => ζ⁻¹ ^ m) (1 / (n : K))
        (fun k => dft n (fun m => ζ ^ m) x k * dft n (fun m => ζ⁻¹ ^ m) y k) j
      = ∑ m ∈ range n, y m * x ((m + j) % n) := by
  have hne := root_ne_zero hζ hn
  have hnK := natCast_ne_zero hζ hn
  rw [idft_pow hζ hn]
  simp only [dft_pow hζ hn, dft_pow hζ.inv hn]
  -- expand the product of the two spectra and exchange the sums
  have e1 : ∀ k ∈ range n,
      (∑ a ∈ range n, x a * ζ ^ ((a : ℤ) * (k : ℤ))) * (∑ m ∈ range n, y m * ζ⁻¹ ^ ((m : ℤ) * (k : ℤ)))
        * ζ⁻¹ ^ ((j : ℤ) * (k : ℤ))
      = ∑ m ∈ range n, ∑ a ∈ range n, y m * x a * ζ ^ (((a : ℤ) - m - j) * (k : ℤ)) := by
    intro k _
    rw [sum_mul_sum, sum_comm, sum_mul]
    apply sum_congr rfl; intro m _
    rw [sum_mul]
    apply sum_congr rfl; intro a _
    rw [inv_zpow', inv_zpow']
    have : ζ ^ (((a : ℤ) - m - j) * (k : ℤ)) = ζ ^ ((a : ℤ) * (k : ℤ)) * ζ ^ (-((m : ℤ) * (k : ℤ))) * ζ ^ (-((j : ℤ) * (k : ℤ))) := by
      rw [← zpow_add₀ hne, ← zpow_add₀ hne]; congr 1; ring
    rw [this]; ring
  rw [sum_congr rfl e1, sum_comm]
  have e2 : ∀ m ∈ range n, ∑ k ∈ range n, ∑ a ∈ range n, y m * x a * ζ ^ (((a : ℤ) - m - j) * (k : ℤ))
      = (n : K) * (y m * x ((m + j) % n)) := by
    intro m hm
    rw [sum_comm]
    have e3 : ∀ a ∈ range n, ∑ k ∈ range n, y m * x a * ζ ^ (((a : ℤ) - m - j) * (k : ℤ))
        = if a = (m + j) % n then (n : K) * (y m * x a) else 0 := by
      intro a ha
      rw [← mul_sum, orth hζ hn]
      have ha' := mem_range.mp ha
      have hm' := mem_range.mp hm
      by_cases hd : (n : ℤ) ∣ (a : ℤ) - m - j
      · have : a = (m + j) % n := by
          obtain ⟨q, hq⟩ := hd
          have h1 : ((m + j : ℕ) : ℤ) % (n : ℤ) = (a : ℤ) := by
            have : ((m + j : ℕ) : ℤ) = (a : ℤ) + (n : ℤ) * (-q) := by push_cast; linarith
            rw [this, Int.add_mul_emod_self_left, Int.emod_eq_of_lt (by omega) (by omega)]
          have h2 : (((m + j) % n : ℕ) : ℤ) = (a : ℤ) := by rw [← h1]; push_cast; rfl
          exact_mod_cast h2.symm
        rw [if_pos hd, if_pos this]; ring
      · have : a ≠ (m + j) % n := by
          intro h; apply hd
          have h2 : (a : ℤ) = ((m + j : ℕ) : ℤ) % (n : ℤ) := by rw [h]; push_cast; rfl
          rw [h2, Int.emod_def]
          exact ⟨-(((m + j : ℕ) : ℤ) / (n : ℤ)), by push_cast; ring⟩
        rw [if_neg hd, if_neg this, mul_zero]
    rw [sum_congr rfl e3, sum_ite_eq' (range n) ((m + j) % n) (fun a => (n : K) * (y m * x a)),
      if_pos (mem_range.mpr (Nat.mod_lt _ hn))]
  rw [sum_congr rfl e2, ← mul_sum]
  field_simp

end root
/-! ### two dimensions -/

section two
variable {K : Type} [Field K] {py px : ℕ} {ζy ζx : K}

/-- the `memo` of the theorems: no caching -/
def idm {C : Type} : (ℕ → ℕ → C) → Img C := fun f => { px := f }

theorem dft_comm (wy wx : ℕ → K) (X : ℕ → ℕ → K) (a b : ℕ) :
    dft py wy (fun a' => dft px wx (fun b' => X a' b') b) a
      = dft px wx (fun b' => dft py wy (fun a' => X a' b') a) b := by
  unfold dft
  simp only [sumTo_eq_sum, sum_mul]
  rw [sum_comm]
  apply sum_congr rfl; intro v _; apply sum_congr rfl; intro u _; ring

theorem idft_sum (wi : ℕ → K) (ninv : K) (m : ℕ) (f : ℕ → ℕ → K) (i : ℕ) :
    idft py wi ninv (fun a => ∑ q ∈ range m, f q a) i = ∑ q ∈ range m, idft py wi ninv (fun a => f q a) i := by
  unfold idft
  simp only [sumTo_eq_sum, sum_mul, mul_sum]
  rw [sum_comm]

/-- 2-D correlation theorem for the model's spectral pipeline: `ifft2(fft2(X) · fft2⁻(Y))[i, j]
= Σ_{p,q} Y[p, q] · X[(p+i) mod P_y, (q+j) mod P_x]` -/
theorem idft2_mul_dft2 (hζy : IsPrimitiveRoot ζy py) (hy : 0 < py) (hζx : IsPrimitiveRoot ζx px) (hx : 0 < px)
    (X Y : ℕ → ℕ → K) (i j : ℕ) :
    (idft2 idm py px (fun m => ζy⁻¹ ^ m) (fun m => ζx⁻¹ ^ m) (1 / (py : K)) (1 / (px : K))
      (fun a b => (dft2 idm py px (fun m => ζy ^ m) (fun m => ζx ^ m) X).px a b
                * (dft2 idm py px (fun m => ζy⁻¹ ^ m) (fun m => ζx⁻¹ ^ m) Y).px a b)).px i j
      = ∑ p ∈ range py, ∑ q ∈ range px, Y p q * X ((p + i) % py) ((q + j) % px) := by
  show idft py (fun m => ζy⁻¹ ^ m) (1 / (py : K)) (fun a' =>
      idft px (fun m => ζx⁻¹ ^ m) (1 / (px : K)) (fun b' =>
        dft py (fun m => ζy ^ m) (fun u => dft px (fun m => ζx ^ m) (fun v => X u v) b') a'
        * dft py (fun m => ζy⁻¹ ^ m) (fun u => dft px (fun m => ζx⁻¹ ^ m) (fun v => Y u v) b') a') j) i = _
  simp only [dft_comm (py := py) (px := px)]
  -- along x
  have hxax : ∀ a', idft px (fun m => ζx⁻¹ ^ m) (1 / (px : K)) (fun b' =>
        dft px (fun m => ζx ^ m) (fun v => dft py (fun m => ζy ^ m) (fun u => X u v) a') b'
        * dft px (fun m => ζx⁻¹ ^ m) (fun v => dft py (fun m => ζy⁻¹ ^ m) (fun u => Y u v) a') b') j
      = ∑ q ∈ range px, dft py (fun m => ζy⁻¹ ^ m) (fun u => Y u q) a'
          * dft py (fun m => ζy ^ m) (fun u => X u ((q + j) % px)) a' :=
    fun a' => idft_mul_dft hζx hx _ _ j
  simp only [hxax]
  rw [idft_sum]
  rw [sum_comm]
  apply sum_congr rfl; intro q _
  have := idft_mul_dft hζy hy (fun u => X u ((q + j) % px)) (fun u => Y u q) i
  simp only [mul_comm (dft py (fun m => ζy⁻¹ ^ m) (fun u => Y u q) _)]
  exact this

end two
end AoVerif.Centroid
