/-
`Transc ℝ` read as the real functions.  `RealTransc` is a *Prop-valued law class*: theorems are
stated for every `Transc ℝ` satisfying it, so `kv` (Bessel K, absent from Mathlib) is universally
quantified while `rpow`, `sqrt`, `exp`, `log10`, `π`, `Γ`, `cos`, `sin`, `|·|` are pinned to Mathlib's.
-/
import Mathlib.Analysis.SpecialFunctions.Pow.Real
import Mathlib.Analysis.SpecialFunctions.Gamma.Basic
import Mathlib.Analysis.SpecialFunctions.Log.Base
import Mathlib.Analysis.SpecialFunctions.Trigonometric.Basic
import Mathlib.Algebra.BigOperators.Intervals
import AoVerif.Model.Scalar

namespace AoVerif

class RealTransc [T : Transc ℝ] : Prop where
  pi_eq    : (Transc.pi : ℝ) = Real.pi
  sqrt_eq  : ∀ x : ℝ, Transc.sqrt x = Real.sqrt x
  exp_eq   : ∀ x : ℝ, Transc.exp x = Real.exp x
  log10_eq : ∀ x : ℝ, Transc.log10 x = Real.logb 10 x
  rpow_eq  : ∀ x y : ℝ, Transc.rpow x y = x ^ y
  abs_eq   : ∀ x : ℝ, Transc.abs x = |x|
  cos_eq   : ∀ x : ℝ, Transc.cos x = Real.cos x
  sin_eq   : ∀ x : ℝ, Transc.sin x = Real.sin x
  gamma_eq : ∀ x : ℝ, Transc.gamma x = Real.Gamma x

attribute [simp] RealTransc.pi_eq RealTransc.sqrt_eq RealTransc.exp_eq RealTransc.log10_eq
  RealTransc.rpow_eq RealTransc.abs_eq RealTransc.cos_eq RealTransc.sin_eq RealTransc.gamma_eq

/-- the canonical lawful instance, for an arbitrary `kv` -/
noncomputable def realTransc (kv : ℝ → ℝ → ℝ) : Transc ℝ where
  pi := Real.pi
  sqrt := Real.sqrt
  exp := Real.exp
  log10 := Real.logb 10
  rpow := fun x y => x ^ y
  abs := fun x => |x|
  cos := Real.cos
  sin := Real.sin
  gamma := Real.Gamma
  kv := kv

theorem realTransc_lawful (kv : ℝ → ℝ → ℝ) : @RealTransc (realTransc kv) :=
  @RealTransc.mk (realTransc kv) rfl (fun _ => rfl) (fun _ => rfl) (fun _ => rfl) (fun _ _ => rfl)
    (fun _ => rfl) (fun _ => rfl) (fun _ => rfl) (fun _ => rfl)

/-- the Python-style accumulation loop is the `Finset` sum -/
theorem sumToFrom_eq {K : Type} [AddCommMonoid K] (z : K) (n : ℕ) (f : ℕ → K) :
    sumToFrom z n f = z + ∑ i ∈ Finset.range n, f i := by
  unfold sumToFrom
  induction n with
  | zero => simp
  | succ n ih => rw [List.range_succ, List.foldl_append, ih, Finset.sum_range_succ]; simp [add_assoc]

theorem sumTo_real (n : ℕ) (f : ℕ → ℝ) : sumTo n f = ∑ i ∈ Finset.range n, f i := by
  unfold sumTo; rw [sumToFrom_eq]; norm_num


/-- unfold generated definitions at `ℝ`: pins `Transc` operations to Mathlib's and normalises the
cast-natural literals the translator emits -/
macro "real_unfold" "[" ds:Lean.Parser.Tactic.simpLemma,* "]" : tactic =>
  `(tactic| simp only [$ds,*, RealTransc.pi_eq, RealTransc.sqrt_eq, RealTransc.exp_eq, RealTransc.log10_eq,
      RealTransc.rpow_eq, RealTransc.abs_eq, RealTransc.cos_eq, RealTransc.sin_eq, RealTransc.gamma_eq,
      Nat.cast_ofNat, Nat.cast_one, Nat.cast_zero, sumTo_real])

end AoVerif
