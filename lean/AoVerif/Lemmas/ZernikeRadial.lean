/-
Combinatorial core of `R_n^m(1) = 1` (C12): for all `a s`,
  `Σ_{k ≤ s} (-1)^k C(a, k) C(a + s - k, a) = 1`,
i.e. the coefficient of `x^s` in `(1 - x)^a · (1 - x)^-(a+1) = 1/(1 - x)`.
Proved by induction on `a` for the two-parameter family `G a b s = [x^s] (1-x)^a (1-x)^-(b+1) = C(b - a + s, s)` (`a ≤ b`),
using Pascal's rule in `a`:  `G (a+1) b (s+1) = G a b (s+1) - G a b s`.
-/
import Mathlib.Data.Nat.Choose.Basic
import Mathlib.Data.Nat.Choose.Cast
import Mathlib.Algebra.BigOperators.Intervals
import Mathlib.Algebra.BigOperators.Ring.Finset
import Mathlib.Tactic.Ring
import Mathlib.Tactic.Linarith
import Mathlib.Tactic.FieldSimp

namespace AoVerif.Lemmas.ZernikeRadial

/-- `[x^s] (1-x)^a (1-x)^-(b+1)` written out as the Cauchy product -/
def G (a b s : ℕ) : ℤ :=
  ∑ k ∈ Finset.range (s + 1), (-1 : ℤ) ^ k * (a.choose k : ℤ) * ((b + s - k).choose b : ℤ)

theorem G_zero_left (b s : ℕ) : G 0 b s = ((b + s).choose b : ℤ) := by
  unfold G
  rw [Finset.sum_range_succ']
  have : ∑ k ∈ Finset.range s, (-1 : ℤ) ^ (k + 1) * ((Nat.choose 0 (k + 1) : ℕ) : ℤ) * (((b + s - (k + 1)).choose b : ℕ) : ℤ) = 0 := by
    apply Finset.sum_eq_zero
    intro k _
    simp
  rw [this]
  simp

theorem G_zero_right (a b : ℕ) : G a b 0 = 1 := by
  unfold G
  simp

/-- Pascal's rule in the first parameter -/
theorem G_succ (a b t : ℕ) : G (a + 1) b (t + 1) = G a b (t + 1) - G a b t := by
  unfold G
  rw [Finset.sum_range_succ' _ (t + 1), Finset.sum_range_succ' _ (t + 1)]
  have e : ∀ k, b + (t + 1) - (k + 1) = b + t - k := fun k => by omega
  simp only [e, Nat.choose_succ_succ, Nat.choose_zero_right, Nat.cast_add, pow_succ, pow_zero, Nat.sub_zero]
  rw [← sub_eq_zero]
  have : ∀ (f g h : ℕ → ℤ) (c : ℤ),
      (∑ k ∈ Finset.range (t + 1), f k + c) - ((∑ k ∈ Finset.range (t + 1), g k + c) - ∑ k ∈ Finset.range (t + 1), h k)
        = ∑ k ∈ Finset.range (t + 1), (f k - g k + h k) := by
    intro f g h c
    rw [Finset.sum_add_distrib, Finset.sum_sub_distrib]
    ring
  rw [this]
  apply Finset.sum_eq_zero
  intro k _
  ring

/-- `[x^s] (1-x)^a (1-x)^-(a+c+1) = [x^s] (1-x)^-(c+1) = C(c+s, s)` -/
theorem G_eq (a : ℕ) : ∀ c s : ℕ, G a (a + c) s = ((c + s).choose s : ℤ) := by
  induction a with
  | zero =>
    intro c s
    rw [G_zero_left, Nat.zero_add, Nat.choose_symm_add]
  | succ a ih =>
    intro c s
    cases s with
    | zero => rw [G_zero_right]; simp
    | succ t =>
      have e : a + 1 + c = a + (c + 1) := by omega
      rw [G_succ, e, ih, ih]
      have p : (c + 1 + (t + 1)).choose (t + 1) = (c + 1 + t).choose t + (c + (t + 1)).choose (t + 1) := by
        rw [show c + 1 + (t + 1) = (c + 1 + t) + 1 by omega, Nat.choose_succ_succ, show c + 1 + t = c + (t + 1) by omega]
      rw [p]
      push_cast
      ring

/-- **the alternating sum behind `R_n^m(1) = 1`**, all `a s` -/
theorem alt_sum_choose (a s : ℕ) :
    ∑ k ∈ Finset.range (s + 1), (-1 : ℤ) ^ k * (a.choose k : ℤ) * ((a + s - k).choose a : ℤ) = 1 := by
  have := G_eq a 0 s
  simpa [G] using this

/-- the factorial quotient of the code is that product of binomials: for `k ≤ s ≤ a`,
`(a+s-k)! = C(a,k) · C(a+s-k, a) · (k! (a-k)! (s-k)!)` -/
theorem factorial_split (a s k : ℕ) (hk : k ≤ s) (hs : s ≤ a) :
    (a + s - k).factorial = a.choose k * (a + s - k).choose a * (k.factorial * (a - k).factorial * (s - k).factorial) := by
  have h1 := Nat.choose_mul_factorial_mul_factorial (show k ≤ a by omega)
  have h2 := Nat.choose_mul_factorial_mul_factorial (show a ≤ a + s - k by omega)
  have e : a + s - k - a = s - k := by omega
  rw [e] at h2
  calc (a + s - k).factorial = (a + s - k).choose a * a.factorial * (s - k).factorial := h2.symm
    _ = (a + s - k).choose a * (a.choose k * k.factorial * (a - k).factorial) * (s - k).factorial := by rw [h1]
    _ = _ := by ring

/-- in particular the integer division in the exact-integer form of the coefficient is exact -/
theorem factorial_dvd (a s k : ℕ) (hk : k ≤ s) (hs : s ≤ a) :
    (k.factorial * (a - k).factorial * (s - k).factorial) ∣ (a + s - k).factorial :=
  ⟨a.choose k * (a + s - k).choose a, by rw [factorial_split a s k hk hs]; ring⟩

theorem factorial_div (a s k : ℕ) (hk : k ≤ s) (hs : s ≤ a) :
    (a + s - k).factorial / (k.factorial * (a - k).factorial * (s - k).factorial) = a.choose k * (a + s - k).choose a := by
  rw [factorial_split a s k hk hs]
  apply Nat.mul_div_cancel
  positivity

/-- the sum of the factorial quotients in any field of characteristic zero -/
theorem alt_sum_factorial {K : Type} [Field K] [CharZero K] (a s : ℕ) (hs : s ≤ a) :
    ∑ k ∈ Finset.range (s + 1),
      (-1 : K) ^ k * ((a + s - k).factorial : K) / ((k.factorial * (a - k).factorial * (s - k).factorial : ℕ) : K) = 1 := by
  have h := congrArg (fun z : ℤ => (z : K)) (alt_sum_choose a s)
  simp only [Int.cast_sum, Int.cast_mul, Int.cast_pow, Int.cast_neg, Int.cast_one, Int.cast_natCast] at h
  refine Eq.trans ?_ h
  apply Finset.sum_congr rfl
  intro k hk
  rw [Finset.mem_range] at hk
  have hne : ((k.factorial * (a - k).factorial * (s - k).factorial : ℕ) : K) ≠ 0 := by
    rw [Nat.cast_ne_zero]; positivity
  rw [div_eq_iff hne, factorial_split a s k (by omega) hs]
  push_cast
  ring

end AoVerif.Lemmas.ZernikeRadial
