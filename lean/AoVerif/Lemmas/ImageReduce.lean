/-
Helper lemmas for C16 about the model `Model/ImageReduce.lean`, over an arbitrary linearly ordered field
(`ℝ`, `ℚ`, …): sums, nested circles, rings, piecewise-linear interpolation, arg-min.
-/
import Mathlib.Algebra.BigOperators.Intervals
import Mathlib.Algebra.Order.BigOperators.Ring.Finset
import Mathlib.Algebra.Order.Field.Basic
import Mathlib.Tactic.Ring
import Mathlib.Tactic.Linarith
import Mathlib.Tactic.FieldSimp
import Mathlib.Tactic.Positivity
import Mathlib.Analysis.SpecialFunctions.Pow.Real
import Mathlib.Analysis.SpecialFunctions.Trigonometric.Basic
import Mathlib.Tactic.GCongr
import Mathlib.Tactic.NormNum
import AoVerif.Lemmas.RealScalar
import AoVerif.Model.ImageReduce

namespace AoVerif.ImageReduce
open Finset

set_option linter.unusedSectionVars false
set_option linter.unusedVariables false

variable {K : Type} [Field K] [LinearOrder K] [IsStrictOrderedRing K]

/-- `array.sum()` is the double `Finset` sum -/
theorem sum2_eq (rows cols : ℕ) (f : ℕ → ℕ → K) :
    sum2 rows cols f = ∑ r ∈ range rows, ∑ c ∈ range cols, f r c := by
  simp only [sum2, sumToFrom_eq, Nat.cast_zero, zero_add]

theorem ind_true : ind (K := K) true = 1 := by simp [ind]
theorem ind_false : ind (K := K) false = 0 := by simp [ind]
theorem ind_nonneg (b : Bool) : (0 : K) ≤ ind b := by cases b <;> simp [ind]
theorem ind_le_one (b : Bool) : ind b ≤ (1 : K) := by cases b <;> simp [ind]

/-- circles with the same centre are nested: a larger (non-negative) radius contains the smaller -/
theorem circle_mono (r1 r2 : K) (h1 : 0 ≤ r1) (h12 : r1 ≤ r2) (size : ℕ) (cx cy : K) (middle : Bool) (r c : ℕ)
    (h : circle r1 size cx cy middle r c = true) : circle r2 size cx cy middle r c = true := by
  simp only [circle, decide_eq_true_eq] at h ⊢
  exact h.trans (mul_self_le_mul_self h1 h12)

theorem ind_circle_mono (r1 r2 : K) (h1 : 0 ≤ r1) (h12 : r1 ≤ r2) (size : ℕ) (cx cy : K) (middle : Bool) (r c : ℕ) :
    ind (K := K) (circle r1 size cx cy middle r c) ≤ ind (circle r2 size cx cy middle r c) := by
  cases h : circle r1 size cx cy middle r c
  · rw [ind_false]; exact ind_nonneg _
  · rw [circle_mono r1 r2 h1 h12 size cx cy middle r c h]

/-- a ring pixel is 0 or 1 (never −1): `circle(i) ⊆ circle(i+1)` -/
theorem ring_nonneg (size i r c : ℕ) : (0 : K) ≤ ring size i r c := by
  unfold ring
  have := ind_circle_mono (K := K) ((i : ℕ) : K) ((i + 1 : ℕ) : K) (Nat.cast_nonneg _)
    (by exact_mod_cast Nat.le_succ i) size ((0 : ℕ) : K) ((0 : ℕ) : K) true r c
  linarith

theorem ring_le_one (size i r c : ℕ) : ring size i r c ≤ (1 : K) := by
  unfold ring
  have h1 := ind_le_one (K := K) (circle (((i + 1 : ℕ) : K)) size ((0 : ℕ) : K) ((0 : ℕ) : K) true r c)
  have h2 := ind_nonneg (K := K) (circle ((i : ℕ) : K) size ((0 : ℕ) : K) ((0 : ℕ) : K) true r c)
  linarith

/-- membership in the ring: inside `circle(i+1)` and outside `circle(i)` -/
theorem ring_eq_one (size i r c : ℕ)
    (hin : circle (K := K) (((i + 1 : ℕ) : K)) size ((0 : ℕ) : K) ((0 : ℕ) : K) true r c = true)
    (hout : circle (K := K) ((i : ℕ) : K) size ((0 : ℕ) : K) ((0 : ℕ) : K) true r c = false) :
    ring (K := K) size i r c = 1 := by
  unfold ring; rw [hin, hout, ind_true, ind_false, sub_zero]

theorem azDen_eq (size i : ℕ) :
    azDen (K := K) size i = ∑ r ∈ range size, ∑ c ∈ range size, ring size i r c := by
  unfold azDen; rw [sum2_eq]

theorem azNum_eq (size : ℕ) (data : ℕ → ℕ → K) (i : ℕ) :
    azNum size data i = ∑ r ∈ range size, ∑ c ∈ range size, ring size i r c * data r c := by
  unfold azNum; rw [sum2_eq]

/-- the ring of index `i < size/2` contains the pixel `(size/2, size/2 + i)` (even size) resp.
`(size/2, size/2 + i + 1)` (odd size) -/
theorem ring_witness (size i : ℕ) (hi : i < size / 2) :
    ∃ r c, r < size ∧ c < size ∧ ring (K := K) size i r c = 1 := by
  obtain ⟨k, hk⟩ : ∃ k, size = 2 * k ∨ size = 2 * k + 1 := ⟨size / 2, by omega⟩
  rcases hk with rfl | rfl
  · have hik : i < k := by omega
    refine ⟨k, k + i, by omega, by omega, ring_eq_one _ _ _ _ ?_ ?_⟩
    · simp only [circle, coord, half, decide_eq_true_eq, if_true]
      push_cast
      have : (0 : K) ≤ (i : K) := Nat.cast_nonneg _
      nlinarith
    · simp only [circle, coord, half, decide_eq_false_iff_not, if_true, not_le]
      push_cast
      have : (0 : K) ≤ (i : K) := Nat.cast_nonneg _
      nlinarith
  · have hik : i < k := by omega
    refine ⟨k, k + i + 1, by omega, by omega, ring_eq_one _ _ _ _ ?_ ?_⟩
    · simp only [circle, coord, half, decide_eq_true_eq, if_true]
      push_cast
      have : (0 : K) ≤ (i : K) := Nat.cast_nonneg _
      nlinarith
    · simp only [circle, coord, half, decide_eq_false_iff_not, if_true, not_le]
      push_cast
      have : (0 : K) ≤ (i : K) := Nat.cast_nonneg _
      nlinarith

theorem azDen_pos (size i : ℕ) (hi : i < size / 2) : (0 : K) < azDen (K := K) size i := by
  obtain ⟨r, c, hr, hc, h1⟩ := ring_witness (K := K) size i hi
  rw [azDen_eq]
  have hrow : ∀ r' ∈ range size, (0 : K) ≤ ∑ c' ∈ range size, ring (K := K) size i r' c' :=
    fun r' _ => sum_nonneg (fun c' _ => ring_nonneg size i r' c')
  have h2 : ring (K := K) size i r c ≤ ∑ c' ∈ range size, ring (K := K) size i r c' :=
    single_le_sum (f := fun c' => ring (K := K) size i r c') (fun c' _ => ring_nonneg size i r c') (mem_range.mpr hc)
  have h3 : ∑ c' ∈ range size, ring (K := K) size i r c' ≤ ∑ r' ∈ range size, ∑ c' ∈ range size, ring (K := K) size i r' c' :=
    single_le_sum (f := fun r' => ∑ c' ∈ range size, ring (K := K) size i r' c') hrow (mem_range.mpr hr)
  linarith

/-! ### numpy.linspace -/

theorem linspace0_at_zero (stop : K) (num : ℕ) : linspace0 stop num 0 = 0 := by
  unfold linspace0
  by_cases h1 : num ≤ 1
  · simp [h1]
  · have : ¬ (0 + 1 = num) := by omega
    simp [h1, this]

/-- the grid is non-decreasing for a non-negative end point -/
theorem linspace0_mono (stop : K) (hs : 0 ≤ stop) (num i j : ℕ) (hij : i ≤ j) (hj : j < num) :
    linspace0 stop num i ≤ linspace0 stop num j := by
  unfold linspace0
  by_cases h1 : num ≤ 1
  · simp [h1]
  · simp only [if_neg h1]
    have hpos : (0 : K) < ((num - 1 : ℕ) : K) := by
      have : 0 < num - 1 := by omega
      exact_mod_cast this
    have hstep : (0 : K) ≤ stop / ((num - 1 : ℕ) : K) := div_nonneg hs hpos.le
    by_cases hj2 : j + 1 = num
    · rw [if_pos hj2]
      by_cases hi2 : i + 1 = num
      · rw [if_pos hi2]
      · rw [if_neg hi2]
        have hle : (i : K) ≤ ((num - 1 : ℕ) : K) := by
          have : i ≤ num - 1 := by omega
          exact_mod_cast this
        calc (i : K) * (stop / ((num - 1 : ℕ) : K)) ≤ ((num - 1 : ℕ) : K) * (stop / ((num - 1 : ℕ) : K)) :=
              mul_le_mul_of_nonneg_right hle hstep
          _ = stop := by field_simp
    · have hi2 : ¬ (i + 1 = num) := by omega
      rw [if_neg hj2, if_neg hi2]
      exact mul_le_mul_of_nonneg_right (by exact_mod_cast hij) hstep

theorem linspace0_nonneg (stop : K) (hs : 0 ≤ stop) (num i : ℕ) : 0 ≤ linspace0 stop num i := by
  unfold linspace0
  by_cases h1 : num ≤ 1
  · simp [h1]
  · rw [if_neg h1]
    by_cases h2 : i + 1 = num
    · rw [if_pos h2]; exact hs
    · rw [if_neg h2]
      have hpos : (0 : K) ≤ ((num - 1 : ℕ) : K) := Nat.cast_nonneg _
      exact mul_nonneg (Nat.cast_nonneg _) (div_nonneg hs hpos)

/-! ### numpy.interp -/

theorem lastLE_some (xp : ℕ → K) (x : K) (n j : ℕ) (h : lastLE xp x n = some j) :
    j < n ∧ xp j ≤ x ∧ ∀ k, j < k → k < n → x < xp k := by
  induction n with
  | zero => simp [lastLE] at h
  | succ n ih =>
    unfold lastLE at h
    by_cases hx : xp n ≤ x
    · rw [if_pos hx] at h
      have hj : n = j := Option.some.inj h
      subst hj
      exact ⟨Nat.lt_succ_self _, hx, fun k h1 h2 => by omega⟩
    · rw [if_neg hx] at h
      obtain ⟨h1, h2, h3⟩ := ih h
      refine ⟨Nat.lt_succ_of_lt h1, h2, fun k hk1 hk2 => ?_⟩
      by_cases hkn : k = n
      · subst hkn; exact not_le.mp hx
      · exact h3 k hk1 (by omega)

theorem lastLE_none (xp : ℕ → K) (x : K) (n : ℕ) (h : lastLE xp x n = none) : ∀ k < n, x < xp k := by
  induction n with
  | zero => intro k hk; omega
  | succ n ih =>
    unfold lastLE at h
    by_cases hx : xp n ≤ x
    · rw [if_pos hx] at h; exact absurd h (by simp)
    · rw [if_neg hx] at h
      intro k hk
      by_cases hkn : k = n
      · subst hkn; exact not_le.mp hx
      · exact ih h k (by omega)

/-- monotone node tables on `[0, n)` -/
def MonoOn (n : ℕ) (f : ℕ → K) : Prop := ∀ a b, a ≤ b → b < n → f a ≤ f b

/-- inside the interval found by the search the interpolated value lies between the two node values -/
theorem interp_some_bounds (n : ℕ) (xp fp : ℕ → K) (hfp : MonoOn n fp) (x : K) (j : ℕ)
    (h : lastLE xp x n = some j) :
    fp j ≤ interp n xp fp x ∧ (j + 1 < n → interp n xp fp x ≤ fp (j + 1)) := by
  obtain ⟨hjn, hle, hgt⟩ := lastLE_some xp x n j h
  unfold interp
  rw [h]
  by_cases h1 : j + 1 = n
  · simp only [if_pos h1]; exact ⟨le_refl _, fun h2 => by omega⟩
  · simp only [if_neg h1]
    have hj1 : j + 1 < n := by omega
    have hf : fp j ≤ fp (j + 1) := hfp j (j + 1) (Nat.le_succ j) hj1
    by_cases h2 : x ≤ xp j
    · simp only [if_pos h2]; exact ⟨le_refl _, fun _ => hf⟩
    · simp only [if_neg h2]
      have hx1 : xp j < x := not_le.mp h2
      have hx2 : x < xp (j + 1) := hgt (j + 1) (Nat.lt_succ_self j) hj1
      have hd : 0 < xp (j + 1) - xp j := by linarith
      have hslope : 0 ≤ (fp (j + 1) - fp j) / (xp (j + 1) - xp j) := div_nonneg (by linarith) hd.le
      constructor
      · have : 0 ≤ (fp (j + 1) - fp j) / (xp (j + 1) - xp j) * (x - xp j) := mul_nonneg hslope (by linarith)
        linarith
      · intro _
        have h3 : (fp (j + 1) - fp j) / (xp (j + 1) - xp j) * (x - xp j)
            ≤ (fp (j + 1) - fp j) / (xp (j + 1) - xp j) * (xp (j + 1) - xp j) :=
          mul_le_mul_of_nonneg_left (by linarith) hslope
        have h4 : (fp (j + 1) - fp j) / (xp (j + 1) - xp j) * (xp (j + 1) - xp j) = fp (j + 1) - fp j := by
          field_simp
        linarith

/-- the interpolated value never leaves `[fp 0, fp (n-1)]` -/
theorem interp_bounds (n : ℕ) (hn : 0 < n) (xp fp : ℕ → K) (hfp : MonoOn n fp) (x : K) :
    fp 0 ≤ interp n xp fp x ∧ interp n xp fp x ≤ fp (n - 1) := by
  cases h : lastLE xp x n with
  | none =>
    unfold interp; rw [h]
    exact ⟨le_refl _, hfp 0 (n - 1) (Nat.zero_le _) (by omega)⟩
  | some j =>
    obtain ⟨hjn, _, _⟩ := lastLE_some xp x n j h
    obtain ⟨hlo, hhi⟩ := interp_some_bounds n xp fp hfp x j h
    refine ⟨le_trans (hfp 0 j (Nat.zero_le _) hjn) hlo, ?_⟩
    by_cases h1 : j + 1 = n
    · unfold interp; rw [h]; simp only [if_pos h1]
      exact hfp j (n - 1) (by omega) (by omega)
    · exact le_trans (hhi (by omega)) (hfp (j + 1) (n - 1) (by omega) (by omega))

/-- **piecewise-linear interpolation of a monotone table on monotone nodes is monotone** -/
theorem interp_mono (n : ℕ) (hn : 0 < n) (xp fp : ℕ → K) (hxp : MonoOn n xp) (hfp : MonoOn n fp)
    (x x' : K) (hxx : x ≤ x') : interp n xp fp x ≤ interp n xp fp x' := by
  cases h : lastLE xp x n with
  | none =>
    have : interp n xp fp x = fp 0 := by unfold interp; rw [h]
    rw [this]; exact (interp_bounds n hn xp fp hfp x').1
  | some j =>
    obtain ⟨hjn, hle, hgt⟩ := lastLE_some xp x n j h
    cases h' : lastLE xp x' n with
    | none => exact absurd (lastLE_none xp x' n h' j hjn) (not_lt.mpr (le_trans hle hxx))
    | some j' =>
      obtain ⟨hjn', hle', hgt'⟩ := lastLE_some xp x' n j' h'
      obtain ⟨hlo, hhi⟩ := interp_some_bounds n xp fp hfp x j h
      obtain ⟨hlo', hhi'⟩ := interp_some_bounds n xp fp hfp x' j' h'
      have hjj : j ≤ j' := by
        by_contra hc
        have : x' < xp j := hgt' j (by omega) hjn
        linarith
      rcases Nat.lt_or_ge j j' with hlt | hge
      · exact le_trans (hhi (by omega)) (le_trans (hfp (j + 1) j' hlt hjn') hlo')
      · have hjeq : j' = j := by omega
        subst hjeq
        unfold interp
        rw [h, h']
        by_cases h1 : j' + 1 = n
        · simp only [if_pos h1]; exact le_refl _
        · simp only [if_neg h1]
          have hj1 : j' + 1 < n := by omega
          have hf : fp j' ≤ fp (j' + 1) := hfp j' (j' + 1) (Nat.le_succ _) hj1
          by_cases h2 : x ≤ xp j'
          · simp only [if_pos h2]
            by_cases h3 : x' ≤ xp j'
            · simp only [if_pos h3]; exact le_refl _
            · simp only [if_neg h3]
              have hx2 : x' < xp (j' + 1) := hgt' (j' + 1) (Nat.lt_succ_self _) hj1
              have hd : 0 < xp (j' + 1) - xp j' := by linarith [not_le.mp h3]
              have : 0 ≤ (fp (j' + 1) - fp j') / (xp (j' + 1) - xp j') * (x' - xp j') :=
                mul_nonneg (div_nonneg (by linarith) hd.le) (by linarith [not_le.mp h3])
              linarith
          · have h3 : ¬ x' ≤ xp j' := by intro hc; exact h2 (le_trans hxx hc)
            simp only [if_neg h2, if_neg h3]
            have hx2 : x' < xp (j' + 1) := hgt' (j' + 1) (Nat.lt_succ_self _) hj1
            have hd : 0 < xp (j' + 1) - xp j' := by linarith [not_le.mp h3]
            have hslope : 0 ≤ (fp (j' + 1) - fp j') / (xp (j' + 1) - xp j') := div_nonneg (by linarith) hd.le
            have := mul_le_mul_of_nonneg_left (sub_le_sub_right hxx (xp j')) hslope
            linarith

/-! ### numpy.argmin -/

theorem argmin_le (g : ℕ → K) (n : ℕ) : argmin g n ≤ n := by
  induction n with
  | zero => simp [argmin]
  | succ n ih => unfold argmin; split <;> omega

/-- the selected index carries the minimum … -/
theorem argmin_min (g : ℕ → K) (n : ℕ) : ∀ k ≤ n, g (argmin g n) ≤ g k := by
  induction n with
  | zero => intro k hk; have : k = 0 := by omega
            subst this; simp [argmin]
  | succ n ih =>
    intro k hk
    unfold argmin
    by_cases h : g (n + 1) < g (argmin g n)
    · rw [if_pos h]
      rcases Nat.lt_or_ge k (n + 1) with hlt | hge
      · exact le_trans h.le (ih k (by omega))
      · have : k = n + 1 := by omega
        subst this; exact le_refl _
    · rw [if_neg h]
      rcases Nat.lt_or_ge k (n + 1) with hlt | hge
      · exact ih k (by omega)
      · have : k = n + 1 := by omega
        subst this; exact not_lt.mp h

/-- … and is the first index that does -/
theorem argmin_first (g : ℕ → K) (n : ℕ) : ∀ k < argmin g n, g (argmin g n) < g k := by
  induction n with
  | zero => intro k hk; simp [argmin] at hk
  | succ n ih =>
    intro k hk
    unfold argmin at hk ⊢
    by_cases h : g (n + 1) < g (argmin g n)
    · rw [if_pos h] at hk ⊢
      exact lt_of_lt_of_le h (argmin_min g n k (by omega))
    · rw [if_neg h] at hk ⊢
      exact ih k hk

/-! ### encircled energy over ℝ -/
section EE
variable [Transc ℝ] [RealTransc]

theorem eePup_nonneg (dim : ℕ) (xc yc rad : ℝ) (r c : ℕ) : 0 ≤ eePup dim xc yc rad r c := ind_nonneg _
theorem eePup_le_one (dim : ℕ) (xc yc rad : ℝ) (r c : ℕ) : eePup dim xc yc rad r c ≤ 1 := ind_le_one _

/-- nested corner-origin circles -/
theorem eePup_mono (dim : ℕ) (xc yc r1 r2 : ℝ) (h1 : 0 ≤ r1) (h12 : r1 ≤ r2) (r c : ℕ) :
    eePup dim xc yc r1 r c ≤ eePup dim xc yc r2 r c :=
  ind_circle_mono r1 r2 h1 h12 _ _ _ _ _ _

theorem eeCount_eq (dim : ℕ) (xc yc rad : ℝ) :
    eeCount dim xc yc rad = ∑ r ∈ range (2 * dim), ∑ c ∈ range (2 * dim), eePup dim xc yc rad r c := by
  unfold eeCount; rw [sum2_eq]

theorem eeRaw_eq (dim : ℕ) (xc yc : ℝ) (data : ℕ → ℕ → ℝ) (rad : ℝ) :
    eeRaw dim xc yc data rad = ∑ r ∈ range (2 * dim), ∑ c ∈ range (2 * dim), eePup dim xc yc rad r c * data r c := by
  unfold eeRaw; rw [sum2_eq]

theorem eeCount_nonneg (dim : ℕ) (xc yc rad : ℝ) : 0 ≤ eeCount dim xc yc rad := by
  rw [eeCount_eq]; exact sum_nonneg (fun r _ => sum_nonneg (fun c _ => eePup_nonneg dim xc yc rad r c))

theorem eeCount_mono (dim : ℕ) (xc yc r1 r2 : ℝ) (h1 : 0 ≤ r1) (h12 : r1 ≤ r2) :
    eeCount dim xc yc r1 ≤ eeCount dim xc yc r2 := by
  rw [eeCount_eq, eeCount_eq]
  exact sum_le_sum (fun r _ => sum_le_sum (fun c _ => eePup_mono dim xc yc r1 r2 h1 h12 r c))

/-- non-negativity of the image on the frame -/
def NonnegOn (dim : ℕ) (data : ℕ → ℕ → ℝ) : Prop := ∀ r < 2 * dim, ∀ c < 2 * dim, 0 ≤ data r c

theorem eeRaw_nonneg (dim : ℕ) (xc yc : ℝ) (data : ℕ → ℕ → ℝ) (hd : NonnegOn dim data) (rad : ℝ) :
    0 ≤ eeRaw dim xc yc data rad := by
  rw [eeRaw_eq]
  exact sum_nonneg (fun r hr => sum_nonneg (fun c hc =>
    mul_nonneg (eePup_nonneg dim xc yc rad r c) (hd r (mem_range.mp hr) c (mem_range.mp hc))))

theorem eeRaw_mono (dim : ℕ) (xc yc : ℝ) (data : ℕ → ℕ → ℝ) (hd : NonnegOn dim data) (r1 r2 : ℝ)
    (h1 : 0 ≤ r1) (h12 : r1 ≤ r2) : eeRaw dim xc yc data r1 ≤ eeRaw dim xc yc data r2 := by
  rw [eeRaw_eq, eeRaw_eq]
  exact sum_le_sum (fun r hr => sum_le_sum (fun c hc =>
    mul_le_mul_of_nonneg_right (eePup_mono dim xc yc r1 r2 h1 h12 r c) (hd r (mem_range.mp hr) c (mem_range.mp hc))))

/-- the energy inside any circle is at most the total -/
theorem eeRaw_le_total (dim : ℕ) (xc yc : ℝ) (data : ℕ → ℕ → ℝ) (hd : NonnegOn dim data) (rad : ℝ) :
    eeRaw dim xc yc data rad ≤ sum2 (2 * dim) (2 * dim) data := by
  rw [eeRaw_eq, sum2_eq]
  refine sum_le_sum (fun r hr => sum_le_sum (fun c hc => ?_))
  have := mul_le_mul_of_nonneg_right (eePup_le_one dim xc yc rad r c) (hd r (mem_range.mp hr) c (mem_range.mp hc))
  simpa using this

/-- an empty mask collects no energy -/
theorem eeRaw_zero_of_count_zero (dim : ℕ) (xc yc : ℝ) (data : ℕ → ℕ → ℝ) (rad : ℝ)
    (h : eeCount dim xc yc rad = 0) : eeRaw dim xc yc data rad = 0 := by
  rw [eeCount_eq] at h
  have hrow := (sum_eq_zero_iff_of_nonneg (fun r _ => sum_nonneg (fun c _ => eePup_nonneg dim xc yc rad r c))).mp h
  rw [eeRaw_eq]
  refine sum_eq_zero (fun r hr => sum_eq_zero (fun c hc => ?_))
  have := (sum_eq_zero_iff_of_nonneg (fun c _ => eePup_nonneg dim xc yc rad r c)).mp (hrow r hr) c hc
  rw [this, zero_mul]

theorem eeDiam_eq (dim : ℕ) (xc yc rad : ℝ) :
    eeDiam dim xc yc rad = Real.sqrt (eeCount dim xc yc rad * 4 / Real.pi) := by
  unfold eeDiam; simp only [RealTransc.sqrt_eq, RealTransc.pi_eq, Nat.cast_ofNat]

theorem eeDiam_nonneg (dim : ℕ) (xc yc rad : ℝ) : 0 ≤ eeDiam dim xc yc rad := by
  rw [eeDiam_eq]; exact Real.sqrt_nonneg _

theorem eeDiam_mono (dim : ℕ) (xc yc r1 r2 : ℝ) (h1 : 0 ≤ r1) (h12 : r1 ≤ r2) :
    eeDiam dim xc yc r1 ≤ eeDiam dim xc yc r2 := by
  rw [eeDiam_eq, eeDiam_eq]
  apply Real.sqrt_le_sqrt
  have := eeCount_mono dim xc yc r1 r2 h1 h12
  have hpi := Real.pi_pos
  gcongr

theorem eeCount_zero_of_diam_zero (dim : ℕ) (xc yc rad : ℝ) (h : eeDiam dim xc yc rad ≤ 0) :
    eeCount dim xc yc rad = 0 := by
  rw [eeDiam_eq] at h
  have h0 : eeCount dim xc yc rad * 4 / Real.pi ≤ 0 := Real.sqrt_eq_zero'.mp (le_antisymm h (Real.sqrt_nonneg _))
  have hpi := Real.pi_pos
  have hc := eeCount_nonneg dim xc yc rad
  have : eeCount dim xc yc rad * 4 ≤ 0 := by
    by_contra hcon
    have : 0 < eeCount dim xc yc rad * 4 / Real.pi := div_pos (not_le.mp hcon) hpi
    linarith
  linarith

/-- radius tables that are non-negative and non-decreasing on the `npt` indices -/
def RadOK (rad : ℕ → ℝ) : Prop := (∀ i, i < eeNpt → 0 ≤ rad i) ∧ ∀ i j, i ≤ j → j < eeNpt → rad i ≤ rad j

theorem eeXp_nonneg (dim : ℕ) (xc yc : ℝ) (rad : ℕ → ℝ) (k : ℕ) : 0 ≤ eeXp dim xc yc rad k := by
  cases k with
  | zero => simp [eeXp]
  | succ k => exact eeDiam_nonneg _ _ _ _

theorem eeXp_mono (dim : ℕ) (xc yc : ℝ) (rad : ℕ → ℝ) (hr : RadOK rad) :
    MonoOn (eeNpt + 1) (eeXp dim xc yc rad) := by
  intro a b hab hb
  cases a with
  | zero => simpa [eeXp] using eeXp_nonneg dim xc yc rad b
  | succ a =>
    cases b with
    | zero => omega
    | succ b =>
      simp only [eeXp]
      exact eeDiam_mono dim xc yc _ _ (hr.1 a (by omega)) (hr.2 a b (by omega) (by omega))

theorem eeFp_zero (dim : ℕ) (xc yc : ℝ) (data : ℕ → ℕ → ℝ) (rad : ℕ → ℝ) : eeFp dim xc yc data rad 0 = 0 := by
  simp [eeFp]

theorem eeFp_mono (dim : ℕ) (xc yc : ℝ) (data : ℕ → ℕ → ℝ) (hd : NonnegOn dim data)
    (ht : 0 < sum2 (2 * dim) (2 * dim) data) (rad : ℕ → ℝ) (hr : RadOK rad) :
    MonoOn (eeNpt + 1) (eeFp dim xc yc data rad) := by
  intro a b hab hb
  unfold eeFp
  apply div_le_div_of_nonneg_right _ ht.le
  cases a with
  | zero =>
    cases b with
    | zero => exact le_refl _
    | succ b => simpa using eeRaw_nonneg dim xc yc data hd (rad b)
  | succ a =>
    cases b with
    | zero => omega
    | succ b => exact eeRaw_mono dim xc yc data hd _ _ (hr.1 a (by omega)) (hr.2 a b (by omega) (by omega))

theorem eeFp_le_one (dim : ℕ) (xc yc : ℝ) (data : ℕ → ℕ → ℝ) (hd : NonnegOn dim data)
    (ht : 0 < sum2 (2 * dim) (2 * dim) data) (rad : ℕ → ℝ) (k : ℕ) : eeFp dim xc yc data rad k ≤ 1 := by
  unfold eeFp
  rw [div_le_one ht]
  cases k with
  | zero => simpa using ht.le
  | succ k => exact eeRaw_le_total dim xc yc data hd (rad k)

/-- the radii used by the code, `linspace(0, dim**(1/1.9), 20)**1.9`, are non-negative and non-decreasing -/
theorem eeRadius_ok (dim : ℕ) : RadOK (eeRadius (K := ℝ) dim) := by
  have hstop : (0 : ℝ) ≤ (dim : ℝ) ^ ((1 : ℝ) / 1.9) := Real.rpow_nonneg (Nat.cast_nonneg _) _
  have he : (0 : ℝ) ≤ 1.9 := by norm_num
  constructor
  · intro i _
    simp only [eeRadius, RealTransc.rpow_eq, Nat.cast_one]
    exact Real.rpow_nonneg (linspace0_nonneg _ hstop _ _) _
  · intro i j hij hj
    simp only [eeRadius, RealTransc.rpow_eq, Nat.cast_one]
    exact Real.rpow_le_rpow (linspace0_nonneg _ hstop _ _) (linspace0_mono _ hstop _ _ _ hij hj) he

end EE

/-! ### the spline kernel contract -/

/-- The contract assumed of the external kernel `RectBivariateSpline(arange nx, arange ny, data, kx=ky=order)`
(smoothing `s = 0`), for grids with more than `order` nodes per axis.  It is checked numerically by the harness
on every instance it runs. -/
structure SplineContract (S : SplineKernel ℝ) : Prop where
  /-- only the samples on the `nx × ny` grid matter -/
  congr : ∀ order nx ny (d d' : ℕ → ℕ → ℝ), (∀ i < nx, ∀ j < ny, d i j = d' i j) →
    ∀ x y, S.eval order nx ny d x y = S.eval order nx ny d' x y
  /-- the spline interpolates the nodes -/
  interp : ∀ order nx ny (d : ℕ → ℕ → ℝ), order < nx → order < ny → ∀ i < nx, ∀ j < ny,
    S.eval order nx ny d (i : ℝ) (j : ℝ) = d i j
  /-- the fit is linear in the data -/
  add : ∀ order nx ny (d d' : ℕ → ℕ → ℝ) x y,
    S.eval order nx ny (fun i j => d i j + d' i j) x y = S.eval order nx ny d x y + S.eval order nx ny d' x y
  smul : ∀ order nx ny (a : ℝ) (d : ℕ → ℕ → ℝ) x y,
    S.eval order nx ny (fun i j => a * d i j) x y = a * S.eval order nx ny d x y
  /-- tensor monomials of degree ≤ order per axis are reproduced inside the grid -/
  monomial : ∀ order nx ny p q, order < nx → order < ny → p ≤ order → q ≤ order →
    ∀ x y : ℝ, 0 ≤ x → x ≤ ((nx - 1 : ℕ) : ℝ) → 0 ≤ y → y ≤ ((ny - 1 : ℕ) : ℝ) →
    S.eval order nx ny (fun i j => (i : ℝ) ^ p * (j : ℝ) ^ q) x y = x ^ p * y ^ q


end AoVerif.ImageReduce
