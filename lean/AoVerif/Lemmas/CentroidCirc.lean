/-
The circular cross-correlation of an image with a circularly displaced copy of itself is point-symmetric about the
displacement (after `fftshift`: about `P/2 + s`).
-/
import AoVerif.Lemmas.CentroidSym

namespace AoVerif.Centroid
open Finset AoVerif
set_option linter.unusedSectionVars false

theorem rollIdx_comp {n : ℕ} (hn : 0 < n) (a b : ℤ) (x : ℕ) :
    rollIdx n a (rollIdx n b x) = rollIdx n (a + b) x := by
  have h1 := rollIdx_cast hn a (rollIdx n b x)
  rw [rollIdx_cast hn b x, Int.emod_sub_emod] at h1
  have h2 := rollIdx_cast hn (a + b) x
  have : (x : ℤ) - b - a = (x : ℤ) - (a + b) := by ring
  rw [this] at h1
  exact_mod_cast h1.trans h2.symm

theorem rollIdx_congr {n : ℕ} (hn : 0 < n) {a b : ℤ} (h : (n : ℤ) ∣ a - b) (x : ℕ) : rollIdx n a x = rollIdx n b x := by
  have h1 := rollIdx_cast hn a x
  have h2 := rollIdx_cast hn b x
  have : ((x : ℤ) - a) % (n : ℤ) = ((x : ℤ) - b) % (n : ℤ) := by
    rw [Int.emod_eq_emod_iff_emod_sub_eq_zero]
    apply Int.emod_eq_zero_of_dvd
    have : (x : ℤ) - a - ((x : ℤ) - b) = -(a - b) := by ring
    rw [this]; exact (dvd_neg).mpr h
  rw [this] at h1
  exact_mod_cast h1.trans h2.symm

/-- `(p + i) mod n` is the index read by a roll by `−i` -/
theorem add_mod_eq_rollIdx {n : ℕ} (hn : 0 < n) (p i : ℕ) : (p + i) % n = rollIdx n (-(i : ℤ)) p := by
  have h := rollIdx_cast hn (-(i : ℤ)) p
  have : (((p + i) % n : ℕ) : ℤ) = ((p : ℤ) - -(i : ℤ)) % (n : ℤ) := by push_cast; rw [sub_neg_eq_add]
  exact_mod_cast this.trans h.symm

section ring
variable {K : Type} [CommRing K]

/-- circular cross-correlation `Σ_{p,q} Y[p,q] · X[(p+i) mod P_y, (q+j) mod P_x]` (what the FFT pipeline computes) -/
def circCorr (py px : ℕ) (X Y : ℕ → ℕ → K) (i j : ℕ) : K :=
  ∑ p ∈ range py, ∑ q ∈ range px, Y p q * X ((p + i) % py) ((q + j) % px)

theorem circCorr_congr {py px : ℕ} (hy : 0 < py) (hx : 0 < px) {X X' : ℕ → ℕ → K} (Y : ℕ → ℕ → K)
    (h : ∀ u < py, ∀ v < px, X u v = X' u v) (i j : ℕ) : circCorr py px X Y i j = circCorr py px X' Y i j := by
  unfold circCorr
  apply sum_congr rfl; intro p _; apply sum_congr rfl; intro q _
  rw [h _ (Nat.mod_lt _ hy) _ (Nat.mod_lt _ hx)]

/-- circular autocorrelation at integer lag `(k, l)` -/
def autoCorr (py px : ℕ) (Y : ℕ → ℕ → K) (k l : ℤ) : K :=
  ∑ p ∈ range py, ∑ q ∈ range px, Y p q * Y (rollIdx py (-k) p) (rollIdx px (-l) q)

theorem autoCorr_neg {py px : ℕ} (hy : 0 < py) (hx : 0 < px) (Y : ℕ → ℕ → K) (k l : ℤ) :
    autoCorr py px Y (-k) (-l) = autoCorr py px Y k l := by
  unfold autoCorr
  simp only [neg_neg]
  have h := sum_roll2 (M := K) hy hx k l Y (fun y x v => Y y x * v)
  unfold roll2 at h
  rw [h]
  apply sum_congr rfl; intro p _; apply sum_congr rfl; intro q _; ring

theorem autoCorr_congr {py px : ℕ} (hy : 0 < py) (hx : 0 < px) (Y : ℕ → ℕ → K) {k k' l l' : ℤ}
    (hk : (py : ℤ) ∣ k - k') (hl : (px : ℤ) ∣ l - l') : autoCorr py px Y k l = autoCorr py px Y k' l' := by
  unfold autoCorr
  apply sum_congr rfl; intro p _; apply sum_congr rfl; intro q _
  rw [rollIdx_congr hy (a := -k) (b := -k') (by rw [neg_sub_neg]; exact (dvd_sub_comm).mp hk),
    rollIdx_congr hx (a := -l) (b := -l') (by rw [neg_sub_neg]; exact (dvd_sub_comm).mp hl)]

/-- the cross-correlation with a circularly displaced copy is the autocorrelation at lag `(i − sy, j − sx)` -/
theorem circCorr_roll {py px : ℕ} (hy : 0 < py) (hx : 0 < px) (Y : ℕ → ℕ → K) (sy sx : ℤ) (i j : ℕ) :
    circCorr py px (roll2 py px sy sx Y) Y i j = autoCorr py px Y ((i : ℤ) - sy) ((j : ℤ) - sx) := by
  unfold circCorr autoCorr roll2
  apply sum_congr rfl; intro p _; apply sum_congr rfl; intro q _
  rw [add_mod_eq_rollIdx hy, add_mod_eq_rollIdx hx, rollIdx_comp hy, rollIdx_comp hx]
  congr 2 <;> congr 1 <;> ring

/-- the `fftshift`ed cross-correlation with a displaced copy, read at pixel `(a, b)`, is the autocorrelation at lag
`(a − my, b − mx)` where `(my, mx) = (P_y/2 + sy, P_x/2 + sx)` -/
theorem shifted_circCorr_eq_autoCorr {py px my mx : ℕ} (hy : 0 < py) (hx : 0 < px) (Y : ℕ → ℕ → K) (sy sx : ℤ)
    (hmy : (my : ℤ) = ((py / 2 : ℕ) : ℤ) + sy) (hmx : (mx : ℤ) = ((px / 2 : ℕ) : ℤ) + sx) (a b : ℕ) :
    circCorr py px (roll2 py px sy sx Y) Y ((a + (py - py / 2)) % py) ((b + (px - px / 2)) % px)
      = autoCorr py px Y ((a : ℤ) - my) ((b : ℤ) - mx) := by
  rw [circCorr_roll hy hx]
  apply autoCorr_congr hy hx
  · have h1 : (((a + (py - py / 2)) % py : ℕ) : ℤ) = ((a : ℤ) + ((py : ℤ) - ((py / 2 : ℕ) : ℤ))) % (py : ℤ) := by
      have : py / 2 ≤ py := Nat.div_le_self _ _
      push_cast [Nat.cast_sub this]; rfl
    rw [h1, hmy, Int.emod_def]
    exact ⟨1 - ((a : ℤ) + ((py : ℤ) - ((py / 2 : ℕ) : ℤ))) / (py : ℤ), by ring⟩
  · have h1 : (((b + (px - px / 2)) % px : ℕ) : ℤ) = ((b : ℤ) + ((px : ℤ) - ((px / 2 : ℕ) : ℤ))) % (px : ℤ) := by
      have : px / 2 ≤ px := Nat.div_le_self _ _
      push_cast [Nat.cast_sub this]; rfl
    rw [h1, hmx, Int.emod_def]
    exact ⟨1 - ((b : ℤ) + ((px : ℤ) - ((px / 2 : ℕ) : ℤ))) / (px : ℤ), by ring⟩

theorem rollIdx_zero {n : ℕ} {x : ℕ} (hx : x < n) : rollIdx n 0 x = x := by
  have h := rollIdx_cast (by omega : 0 < n) 0 x
  rw [sub_zero, Int.emod_eq_of_lt (by omega) (by omega)] at h
  exact_mod_cast h

/-- zero-lag autocorrelation is the sum of squares -/
theorem autoCorr_zero (py px : ℕ) (Y : ℕ → ℕ → K) :
    autoCorr py px Y 0 0 = ∑ p ∈ range py, ∑ q ∈ range px, Y p q * Y p q := by
  unfold autoCorr
  apply sum_congr rfl; intro p hp; apply sum_congr rfl; intro q hq
  rw [neg_zero, rollIdx_zero (mem_range.mp hp), rollIdx_zero (mem_range.mp hq)]

end ring

section field
variable {K : Type} [Field K] [LinearOrder K] [IsStrictOrderedRing K]

/-- the `fftshift`ed circular cross-correlation of `Y` with its copy displaced by `(sy, sx)` is point-symmetric about
`(P_y/2 + sy, P_x/2 + sx)`, provided its non-zero part does not wrap around the frame (`hnowrap`: for a centred,
undisplaced pair on an even frame this says that the autocorrelation vanishes at the Nyquist lag) -/
theorem pointSym_shifted_circCorr {py px my mx : ℕ} (hy : 0 < py) (hx : 0 < px) (Y : ℕ → ℕ → K) (sy sx : ℤ)
    (hmy : (my : ℤ) = ((py / 2 : ℕ) : ℤ) + sy) (hmx : (mx : ℤ) = ((px / 2 : ℕ) : ℤ) + sx)
    (S : ℕ → ℕ → K)
    (hS : ∀ a b, S a b = circCorr py px (roll2 py px sy sx Y) Y ((a + (py - py / 2)) % py) ((b + (px - px / 2)) % px))
    (hnowrap : ∀ a < py, ∀ b < px, S a b ≠ 0 → a ≤ 2 * my ∧ 2 * my - a < py ∧ b ≤ 2 * mx ∧ 2 * mx - b < px) :
    PointSym py px my mx S := by
  have key : ∀ a b, S a b = autoCorr py px Y ((a : ℤ) - my) ((b : ℤ) - mx) :=
    fun a b => by rw [hS]; exact shifted_circCorr_eq_autoCorr hy hx Y sy sx hmy hmx a b
  intro a ha b hb hne
  obtain ⟨h1, h2, h3, h4⟩ := hnowrap a ha b hb hne
  refine ⟨h1, h2, h3, h4, ?_⟩
  rw [key, key, ← autoCorr_neg hy hx]
  congr 1
  · rw [Nat.cast_sub h1]; push_cast; ring
  · rw [Nat.cast_sub h3]; push_cast; ring

/-- the correlation peak: at the centre of symmetry the surface is `Σ Y²`, positive unless the reference is blank -/
theorem shifted_circCorr_centre_pos {py px my mx : ℕ} (hy : 0 < py) (hx : 0 < px) (Y : ℕ → ℕ → K) (sy sx : ℤ)
    (hmy : (my : ℤ) = ((py / 2 : ℕ) : ℤ) + sy) (hmx : (mx : ℤ) = ((px / 2 : ℕ) : ℤ) + sx)
    (hY : ∃ p < py, ∃ q < px, Y p q ≠ 0) :
    0 < circCorr py px (roll2 py px sy sx Y) Y ((my + (py - py / 2)) % py) ((mx + (px - px / 2)) % px) := by
  rw [shifted_circCorr_eq_autoCorr hy hx Y sy sx hmy hmx, sub_self, sub_self, autoCorr_zero]
  obtain ⟨p, hp, q, hq, hne⟩ := hY
  apply sum_pos'
  · intro p' _; exact sum_nonneg (fun q' _ => mul_self_nonneg _)
  · exact ⟨p, mem_range.mpr hp, sum_pos' (fun q' _ => mul_self_nonneg _)
      ⟨q, mem_range.mpr hq, mul_self_pos.mpr hne⟩⟩

end field
end AoVerif.Centroid
