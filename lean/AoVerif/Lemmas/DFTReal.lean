import Mathlib.Data.Complex.Basic
import Mathlib.Analysis.SpecialFunctions.Complex.Circle
import Mathlib.RingTheory.RootsOfUnity.Complex
import AoVerif.Lemmas.DFT

/- un-centred DFT inversion, Hermitian symmetry and shift cancellation (used by the real-input variants of C09) -/
namespace AoVerif.DFT
open Finset AoVerif AoVerif.Fourier

theorem shift_cancel (m k : ℕ) (hk : k < m) : ((k + m / 2) % m + (m - m / 2)) % m = k := by
  rw [Nat.mod_add_mod]
  have : k + m / 2 + (m - m / 2) = k + m := by have := Nat.div_le_self m 2; omega
  rw [this, Nat.add_mod_right, Nat.mod_eq_of_lt hk]

theorem shift_cancel' (m k : ℕ) (hk : k < m) : ((k + (m - m / 2)) % m + m / 2) % m = k := by
  rw [Nat.mod_add_mod]
  have : k + (m - m / 2) + m / 2 = k + m := by have := Nat.div_le_self m 2; omega
  rw [this, Nat.add_mod_right, Nat.mod_eq_of_lt hk]

section
variable {K : Type} [Field K] {n : ℕ} {ζ : K}

theorem pow_mod_root (hζ : IsPrimitiveRoot ζ n) (a : ℕ) : ζ ^ (a % n) = ζ ^ a := by
  conv_rhs => rw [← Nat.mod_add_div a n, pow_add, pow_mul, hζ.pow_eq_one, one_pow, mul_one]

/-- plain (un-centred) DFT inversion: `ifft(fft(u)) = u` -/
theorem idft_dft (hζ : IsPrimitiveRoot ζ n) (hn : 0 < n) (u : ℕ → K) {j : ℕ} (hj : j < n) :
    idft n (fun m => ζ⁻¹ ^ m) (1 / (n:K)) (dft n (fun m => ζ ^ m) u) j = u j := by
  have hne := root_ne_zero hζ hn
  have hnK := natCast_ne_zero hζ hn
  unfold idft dft
  simp only [sumTo_eq_sum, pow_mod_root hζ, pow_mod_root hζ.inv]
  simp only [sum_mul]
  rw [sum_comm]
  have key : ∀ m ∈ range n, ∑ k ∈ range n, u m * ζ ^ (m * k) * ζ⁻¹ ^ (j * k) = if m = j then (n:K) * u j else 0 := by
    intro m hm
    have e : ∀ k : ℕ, u m * ζ ^ (m * k) * ζ⁻¹ ^ (j * k) = u m * ζ ^ (((m:ℤ) - j) * (k:ℤ)) := by
      intro k
      rw [mul_assoc, ← zpow_natCast, ← zpow_natCast, inv_zpow', ← zpow_add₀ hne]
      congr 2; push_cast; ring
    simp only [e, ← mul_sum]
    rw [orth hζ hn]
    have hm' := mem_range.mp hm
    by_cases hmj : m = j
    · subst hmj; simp; ring
    · have : ¬ (n:ℤ) ∣ (m:ℤ) - j := by
        intro hd; apply hmj
        have h1 : ((m:ℤ) - j) = 0 := by
          apply Int.eq_zero_of_abs_lt_dvd hd
          rw [abs_lt]; constructor <;> omega
        omega
      simp [this, hmj]
  rw [sum_congr rfl key]
  simp [hj]
  field_simp
end

section
open Complex
variable {n : ℕ} {ζ : ℂ}

theorem idft_congr' {K : Type} [Field K] (wi : ℕ → K) (ninv : K) {x y : ℕ → K} (h : ∀ m < n, x m = y m) (j : ℕ) :
    idft n wi ninv x j = idft n wi ninv y j := by
  unfold idft
  simp only [sumTo_eq_sum]
  congr 1
  exact sum_congr rfl (fun k hk => by rw [h k (mem_range.mp hk)])

theorem idft_mul_const {K : Type} [Field K] (wi : ℕ → K) (ninv a : K) (x : ℕ → K) (j : ℕ) :
    idft n wi ninv (fun k => x k * a) j = idft n wi ninv x j * a := by
  unfold idft
  simp only [sumTo_eq_sum]
  rw [mul_assoc, sum_mul]
  congr 1
  exact sum_congr rfl (fun k _ => by ring)

/-- Hermitian symmetry of the DFT of a real signal: `conj X[n-k] = X[k]` -/
theorem dft_herm (hζ : IsPrimitiveRoot ζ n) (hn : 0 < n) (u : ℕ → ℂ) (hu : ∀ j, (starRingEnd ℂ) (u j) = u j)
    {k : ℕ} (hk : k ≤ n) :
    (starRingEnd ℂ) (dft n (fun m => ζ ^ m) u (n - k)) = dft n (fun m => ζ ^ m) u k := by
  have h1 : ‖ζ‖ = 1 := hζ.norm'_eq_one (by omega)
  have hc : (starRingEnd ℂ) ζ = ζ⁻¹ := (Complex.inv_eq_conj h1).symm
  have hne := root_ne_zero hζ hn
  unfold dft
  simp only [sumTo_eq_sum, pow_mod_root hζ]
  rw [map_sum]
  apply sum_congr rfl; intro j _
  rw [map_mul, hu, map_pow, hc]
  congr 1
  -- ζ⁻¹^(j (n-k)) = ζ^(j k)
  rw [← zpow_natCast, ← zpow_natCast, inv_zpow']
  apply zpow_congr hζ hn
  refine ⟨-(j:ℤ), ?_⟩
  push_cast [Nat.cast_sub hk]
  ring
end

end AoVerif.DFT
