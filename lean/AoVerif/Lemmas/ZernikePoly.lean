/-
Bridge lemmas for C12: the integer monomial-list polynomials `Poly` of `Model/Zernike.lean`, evaluated over ℝ.

* `Poly.eval` is a ring homomorphism for the list operations (`addMono`, `norm`, `add`, `smul`, `mul`, `pow`);
* `Poly.dx` / `Poly.dy` are the partial derivatives of `Poly.eval` (`HasDerivAt`);
* a polynomial whose normal form has only zero coefficients evaluates to `0`;
* `csPoly` evaluates to `cs`, `radialQuotPoly` to `radialQuot` (exactness of the integer division in `radialCoefInt`).
-/
import Mathlib.Analysis.Calculus.Deriv.Pow
import Mathlib.Analysis.Calculus.Deriv.Mul
import Mathlib.Analysis.Calculus.Deriv.Add
import Mathlib.Algebra.BigOperators.Intervals
import Mathlib.Tactic.Ring
import Mathlib.Tactic.Linarith
import AoVerif.Lemmas.RealScalar
import AoVerif.Lemmas.ZernikeRadial
import AoVerif.Model.Zernike

namespace AoVerif.Lemmas.ZernikePoly
open AoVerif AoVerif.Model.Zernike

/-! ### evaluation is a sum of monomials -/

theorem intCast_real (c : ℤ) : (Poly.intCast c : ℝ) = (c : ℝ) := by
  unfold Poly.intCast
  obtain ⟨k, rfl | rfl⟩ := Int.eq_nat_or_neg c
  · simp
  · rcases Nat.eq_zero_or_pos k with rfl | hk
    · simp
    · simp

/-- value of one monomial `(a, b, c) = c x^a y^b` -/
def mono (t : ℕ × ℕ × ℤ) (x y : ℝ) : ℝ := (t.2.2 : ℝ) * x ^ t.1 * y ^ t.2.1

theorem eval_foldl (p : Poly) (a x y : ℝ) :
    p.foldl (fun acc t => acc + Poly.intCast t.2.2 * x ^ t.1 * y ^ t.2.1) a = a + (p.map (fun t => mono t x y)).sum := by
  induction p generalizing a with
  | nil => simp
  | cons t p ih =>
    rw [List.foldl_cons, ih]
    simp only [List.map_cons, List.sum_cons, intCast_real, mono]
    ring

theorem eval_eq_sum (p : Poly) (x y : ℝ) : Poly.eval p x y = (p.map (fun t => mono t x y)).sum := by
  unfold Poly.eval
  rw [eval_foldl]
  simp

@[simp] theorem eval_nil (x y : ℝ) : Poly.eval ([] : Poly) x y = 0 := by
  rw [eval_eq_sum]; simp

theorem eval_cons (t : ℕ × ℕ × ℤ) (p : Poly) (x y : ℝ) : Poly.eval (t :: p) x y = mono t x y + Poly.eval p x y := by
  rw [eval_eq_sum, eval_eq_sum]; simp

theorem eval_append (p q : Poly) (x y : ℝ) : Poly.eval (p ++ q) x y = Poly.eval p x y + Poly.eval q x y := by
  rw [eval_eq_sum, eval_eq_sum, eval_eq_sum]; simp

/-! ### homomorphism lemmas -/

theorem eval_addMono (t : ℕ × ℕ × ℤ) (p : Poly) (x y : ℝ) :
    Poly.eval (Poly.addMono t p) x y = Poly.eval p x y + mono t x y := by
  induction p with
  | nil => simp [Poly.addMono, eval_cons]
  | cons s p ih =>
    unfold Poly.addMono
    split_ifs with h
    · simp only [eval_cons, mono, ← h.1, ← h.2]
      push_cast
      ring
    · simp only [eval_cons, ih]
      ring

theorem eval_foldl_addMono (p q : Poly) (x y : ℝ) :
    Poly.eval (p.foldl (fun acc t => Poly.addMono t acc) q) x y = Poly.eval q x y + Poly.eval p x y := by
  induction p generalizing q with
  | nil => simp
  | cons t p ih =>
    simp only [List.foldl_cons, ih, eval_addMono, eval_cons]
    ring

theorem eval_norm (p : Poly) (x y : ℝ) : Poly.eval (Poly.norm p) x y = Poly.eval p x y := by
  unfold Poly.norm
  rw [eval_foldl_addMono]
  simp

theorem eval_add (p q : Poly) (x y : ℝ) : Poly.eval (Poly.add p q) x y = Poly.eval p x y + Poly.eval q x y := by
  unfold Poly.add
  rw [eval_norm, eval_append]

theorem eval_smul (c : ℤ) (p : Poly) (x y : ℝ) : Poly.eval (Poly.smul c p) x y = (c : ℝ) * Poly.eval p x y := by
  unfold Poly.smul
  split_ifs with h
  · simp [h]
  · induction p with
    | nil => simp
    | cons t p ih =>
      simp only [List.map_cons, eval_cons, ih, mono]
      push_cast
      ring

theorem eval_map_mulMono (s : ℕ × ℕ × ℤ) (q : Poly) (x y : ℝ) :
    Poly.eval (q.map (fun t => (s.1 + t.1, s.2.1 + t.2.1, s.2.2 * t.2.2))) x y = mono s x y * Poly.eval q x y := by
  induction q with
  | nil => simp
  | cons t q ih =>
    simp only [List.map_cons, eval_cons, ih, mono]
    push_cast
    ring

theorem eval_mul (p q : Poly) (x y : ℝ) : Poly.eval (Poly.mul p q) x y = Poly.eval p x y * Poly.eval q x y := by
  unfold Poly.mul
  rw [eval_norm]
  induction p with
  | nil => simp
  | cons s p ih =>
    simp only [List.flatMap_cons, eval_append, eval_map_mulMono, ih, eval_cons]
    ring

theorem eval_pow (p : Poly) (k : ℕ) (x y : ℝ) : Poly.eval (Poly.pow p k) x y = (Poly.eval p x y) ^ k := by
  induction k with
  | zero => simp [Poly.pow, eval_cons, mono]
  | succ k ih =>
    simp only [Poly.pow, eval_mul, ih, pow_succ]
    ring

/-- evaluation of a `flatMap` over `List.range` is the `Finset` sum -/
theorem eval_flatMap_range (g : ℕ → Poly) (k : ℕ) (x y : ℝ) :
    Poly.eval ((List.range k).flatMap g) x y = ∑ j ∈ Finset.range k, Poly.eval (g j) x y := by
  induction k with
  | zero => simp
  | succ k ih =>
    rw [List.range_succ, List.flatMap_append, eval_append, ih, Finset.sum_range_succ]
    simp

/-- evaluation of an accumulation loop `acc := add acc (g i)` over `List.range` -/
theorem eval_foldl_range_add (g : ℕ → Poly) (k : ℕ) (x y : ℝ) :
    Poly.eval ((List.range k).foldl (fun acc i => Poly.add acc (g i)) []) x y = ∑ i ∈ Finset.range k, Poly.eval (g i) x y := by
  induction k with
  | zero => simp
  | succ k ih =>
    rw [List.range_succ, List.foldl_append, Finset.sum_range_succ]
    simp only [List.foldl_cons, List.foldl_nil, eval_add, ih]

/-! ### zero polynomials -/

theorem eval_of_all_zero (p : Poly) (h : p.all (fun t => t.2.2 = 0) = true) (x y : ℝ) : Poly.eval p x y = 0 := by
  induction p with
  | nil => simp
  | cons t p ih =>
    simp only [List.all_cons, Bool.and_eq_true, decide_eq_true_eq] at h
    rw [eval_cons, ih h.2, mono, h.1]
    simp

/-- what the kernel-checked tables establish: all coefficients of the normal form vanish ⇒ the polynomial function is `0` -/
theorem eval_of_norm_all_zero (p : Poly) (h : (Poly.norm p).all (fun t => t.2.2 = 0) = true) (x y : ℝ) :
    Poly.eval p x y = 0 := by
  rw [← eval_norm]
  exact eval_of_all_zero _ h x y

/-! ### `Poly.dx`, `Poly.dy` are the partial derivatives of `Poly.eval` -/

theorem hasDerivAt_eval_dx (p : Poly) (x y : ℝ) :
    HasDerivAt (fun x => Poly.eval p x y) (Poly.eval (Poly.dx p) x y) x := by
  induction p with
  | nil =>
    simp only [Poly.dx, List.map_nil, eval_nil]
    exact hasDerivAt_const x 0
  | cons t p ih =>
    have e : (fun x => Poly.eval (t :: p) x y) = fun x => mono t x y + Poly.eval p x y := by
      funext x; exact eval_cons t p x y
    have e2 : Poly.dx (t :: p) = (t.1 - 1, t.2.1, (t.1 : ℤ) * t.2.2) :: Poly.dx p := rfl
    rw [e, e2, eval_cons]
    refine HasDerivAt.add ?_ ih
    unfold mono
    have h := ((hasDerivAt_pow t.1 x).const_mul (t.2.2 : ℝ)).mul_const (y ^ t.2.1)
    refine h.congr_deriv ?_
    push_cast
    ring

theorem hasDerivAt_eval_dy (p : Poly) (x y : ℝ) :
    HasDerivAt (fun y => Poly.eval p x y) (Poly.eval (Poly.dy p) x y) y := by
  induction p with
  | nil =>
    simp only [Poly.dy, List.map_nil, eval_nil]
    exact hasDerivAt_const y 0
  | cons t p ih =>
    have e : (fun y => Poly.eval (t :: p) x y) = fun y => mono t x y + Poly.eval p x y := by
      funext y; exact eval_cons t p x y
    have e2 : Poly.dy (t :: p) = (t.1, t.2.1 - 1, (t.2.1 : ℤ) * t.2.2) :: Poly.dy p := rfl
    rw [e, e2, eval_cons]
    refine HasDerivAt.add ?_ ih
    unfold mono
    have h := (hasDerivAt_pow t.2.1 y).const_mul ((t.2.2 : ℝ) * x ^ t.1)
    refine h.congr_deriv ?_
    push_cast
    ring

/-! ### the polynomial twins evaluate to the model's functions -/

/-- `csPoly` is the polynomial twin of `cs` -/
theorem eval_csPoly (m : ℕ) (x y : ℝ) :
    cs m x y = (Poly.eval (csPoly m).1 x y, Poly.eval (csPoly m).2 x y) := by
  induction m with
  | zero => simp [cs, csPoly, eval_cons, mono]
  | succ m ih =>
    simp only [cs, csPoly, ih, eval_add, eval_mul, eval_smul, polyX, polyY, eval_cons, eval_nil, mono]
    ext
    · simp; ring
    · simp

/-- the model's `fact` is the factorial -/
theorem fact_eq_factorial (n : ℕ) : fact n = n.factorial := by
  induction n with
  | zero => rfl
  | succ n ih => rw [fact, ih, Nat.factorial_succ]

/-- a valid `(n, m)` in terms of `a = (n+m)/2`, `s = (n-m)/2`: `s ≤ a` and `n = a + s` -/
theorem valid_split (n m : ℕ) (hm : m ≤ n) (hp : (n - m) % 2 = 0) :
    (n - m) / 2 ≤ (n + m) / 2 ∧ ∀ i, n - i = (n + m) / 2 + (n - m) / 2 - i := by
  constructor
  · omega
  · intro i; omega

/-- **exactness of the integer division in `radialCoefInt`**: the integer coefficient of the polynomial twin is the real
quotient `(-1)^i (n-i)! / (i! ((n+m)/2-i)! ((n-m)/2-i)!)` of the code, for every valid `(n, m)` and `i ≤ (n-m)/2` -/
theorem radialCoefInt_real (n m i : ℕ) (hm : m ≤ n) (hp : (n - m) % 2 = 0) (hi : i ≤ (n - m) / 2) :
    ((radialCoefInt n m i : ℤ) : ℝ)
      = altSign i ((fact (n - i) : ℕ) : ℝ) / ((fact i * fact ((n + m) / 2 - i) * fact ((n - m) / 2 - i) : ℕ) : ℝ) := by
  obtain ⟨hs, hn⟩ := valid_split n m hm hp
  unfold radialCoefInt
  simp only [fact_eq_factorial, hn i]
  rw [ZernikeRadial.factorial_div _ _ i hi hs]
  have hne : ((i.factorial * ((n + m) / 2 - i).factorial * ((n - m) / 2 - i).factorial : ℕ) : ℝ) ≠ 0 := by
    rw [Nat.cast_ne_zero]; positivity
  have hsplit := ZernikeRadial.factorial_split ((n + m) / 2) ((n - m) / 2) i hi hs
  unfold altSign
  split_ifs <;> rw [eq_div_iff hne, hsplit] <;> push_cast <;> ring

/-- `radialQuotPoly n m` is the polynomial twin of `radialQuot n m (x² + y²)` -/
theorem eval_radialQuotPoly (n m : ℕ) (hm : m ≤ n) (hp : (n - m) % 2 = 0) (x y : ℝ) :
    Poly.eval (radialQuotPoly n m) x y = radialQuot n m (x ^ 2 + y ^ 2) := by
  unfold radialQuotPoly radialQuot
  rw [sumTo_real]
  simp only
  rw [eval_foldl_range_add]
  apply Finset.sum_congr rfl
  intro i hi
  rw [Finset.mem_range] at hi
  rw [eval_smul, eval_pow, radialCoefInt_real n m i hm hp (by omega)]
  unfold radialQuotTerm
  have et : Poly.eval ([(2, 0, 1), (0, 2, 1)] : Poly) x y = x ^ 2 + y ^ 2 := by
    simp [eval_cons, mono]
  rw [et]
  ring

end AoVerif.Lemmas.ZernikePoly
