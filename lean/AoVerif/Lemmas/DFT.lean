/-
Discrete-Fourier lemmas for the model in `Model/Fourier.lean`, over any field with a primitive n-th root.
-/
import Mathlib.RingTheory.RootsOfUnity.PrimitiveRoots
import Mathlib.Algebra.BigOperators.Intervals
import Mathlib.Algebra.Order.Ring.GeomSum
import Mathlib.Tactic.Ring
import Mathlib.Tactic.Linarith
import Mathlib.Tactic.FieldSimp
import AoVerif.Model.Fourier
import AoVerif.Lemmas.Sum

namespace AoVerif.DFT
open Finset AoVerif AoVerif.Fourier

/-- circular re-indexing of a sum over `range n` -/
theorem sum_shift {M : Type*} [AddCommMonoid M] {n : ℕ} (hn : 0 < n) (f : ℕ → M) (s : ℕ) :
    ∑ j ∈ range n, f ((j + s) % n) = ∑ j ∈ range n, f j := by
  induction s generalizing f with
  | zero =>
    apply sum_congr rfl; intro j hj
    rw [Nat.add_zero, Nat.mod_eq_of_lt (mem_range.mp hj)]
  | succ s ih =>
    have h1 : ∀ j, (j + (s + 1)) % n = ((j + 1) % n + s) % n := by
      intro j; rw [Nat.mod_add_mod]; congr 1; omega
    simp only [h1]
    -- one-step rotation
    have rot : ∀ g : ℕ → M, ∑ j ∈ range n, g ((j + 1) % n) = ∑ j ∈ range n, g j := by
      intro g
      obtain ⟨m, rfl⟩ : ∃ m, n = m + 1 := ⟨n - 1, by omega⟩
      rw [sum_range_succ, sum_range_succ']
      have : ∀ j ∈ range m, g ((j + 1) % (m + 1)) = g (j + 1) := by
        intro j hj; rw [Nat.mod_eq_of_lt]; have := mem_range.mp hj; omega
      rw [sum_congr rfl this]
      simp
    rw [rot (fun j => f ((j + s) % n))]
    exact ih f


section root
variable {K : Type} [Field K] {n : ℕ} {ζ : K}

theorem root_ne_zero (hζ : IsPrimitiveRoot ζ n) (hn : 0 < n) : ζ ≠ 0 := hζ.ne_zero (by omega)

theorem zpow_congr (hζ : IsPrimitiveRoot ζ n) (hn : 0 < n) {a b : ℤ} (h : (n:ℤ) ∣ a - b) : ζ ^ a = ζ ^ b := by
  have hne := root_ne_zero hζ hn
  have h1 : ζ ^ (a - b) = 1 := (hζ.zpow_eq_one_iff_dvd _).2 h
  rw [zpow_sub₀ hne] at h1
  exact (div_eq_one_iff_eq (zpow_ne_zero _ hne)).1 h1

/-- orthogonality of the characters of ℤ/n -/
theorem orth (hζ : IsPrimitiveRoot ζ n) (hn : 0 < n) (d : ℤ) :
    ∑ p ∈ range n, ζ ^ (d * (p : ℤ)) = if (n:ℤ) ∣ d then (n:K) else 0 := by
  have hpow : ∀ p : ℕ, ζ ^ (d * (p:ℤ)) = (ζ ^ d) ^ p := by
    intro p; rw [zpow_mul, zpow_natCast]
  simp only [hpow]
  split_ifs with hd
  · have : ζ ^ d = 1 := (hζ.zpow_eq_one_iff_dvd _).2 hd
    simp [this]
  · have hne : ζ ^ d ≠ 1 := fun h => hd ((hζ.zpow_eq_one_iff_dvd _).1 h)
    have hn1 : (ζ ^ d) ^ n = 1 := by
      rw [← zpow_natCast, ← zpow_mul, mul_comm, zpow_mul, zpow_natCast, hζ.pow_eq_one, one_zpow]
    have := geom_sum_mul (ζ ^ d) n
    rw [hn1, sub_self] at this
    exact (mul_eq_zero.1 this).resolve_right (sub_ne_zero.2 hne)

theorem natCast_ne_zero (hζ : IsPrimitiveRoot ζ n) (hn : 0 < n) : (n : K) ≠ 0 := by
  haveI : NeZero n := ⟨by omega⟩
  exact (hζ.neZero' (R := K)).ne

end root


section centred
variable {K : Type} [Field K] {n : ℕ} {ζ : K}

/-- index of the centre sample -/
abbrev ctr (n : ℕ) : ℤ := ((n / 2 : ℕ) : ℤ)

/-- the centred DFT: origin of both grids at sample `n/2` -/
noncomputable def cdft (n : ℕ) (ζ : K) (x : ℕ → K) (k : ℕ) : K :=
  ∑ m ∈ range n, x m * ζ ^ (((m:ℤ) - ctr n) * ((k:ℤ) - ctr n))

theorem ft_centred (hζ : IsPrimitiveRoot ζ n) (hn : 0 < n) (δ : K) (x : ℕ → K) (k : ℕ) :
    ft n (fun m => ζ ^ m) δ x k = cdft n ζ x k * δ := by
  unfold ft fftshift dft ifftshift cdft
  rw [sumTo_eq_sum]
  congr 1
  rw [← sum_shift hn (fun m => x m * ζ ^ (((m:ℤ) - ctr n) * ((k:ℤ) - ctr n))) (n / 2)]
  apply sum_congr rfl
  intro j _
  congr 1
  show ζ ^ (j * ((k + (n - n / 2)) % n) % n) = _
  rw [← zpow_natCast]
  apply zpow_congr hζ hn
  -- exponents agree modulo n
  have e1 : ((j * ((k + (n - n / 2)) % n) % n : ℕ) : ℤ) = ((j:ℤ) * (((k:ℤ) + ((n:ℤ) - ctr n)) % n)) % n := by
    have : n / 2 ≤ n := Nat.div_le_self _ _
    push_cast [Nat.cast_sub this]; rfl
  have e2 : (((j + n / 2) % n : ℕ) : ℤ) = ((j:ℤ) + ctr n) % n := by push_cast; rfl
  rw [e1, e2]
  simp only [Int.emod_def]
  generalize ((k:ℤ) + ((n:ℤ) - ctr n)) / (n:ℤ) = a2
  generalize ((j:ℤ) * ((k:ℤ) + ((n:ℤ) - ctr n) - (n:ℤ) * a2)) / (n:ℤ) = a1
  generalize ((j:ℤ) + ctr n) / (n:ℤ) = a3
  exact ⟨(j:ℤ) - j * a2 - a1 + a3 * ((k:ℤ) - ctr n), by ring⟩


theorem idft_eq_dft (wi : ℕ → K) (ninv : K) (x : ℕ → K) (j : ℕ) :
    idft n wi ninv x j = ninv * dft n wi x j := by
  unfold idft dft
  simp only [Nat.mul_comm j]

theorem ift_centred (hζ : IsPrimitiveRoot ζ n) (hn : 0 < n) (ninv nC δf : K) (X : ℕ → K) (j : ℕ) :
    ift n (fun m => ζ⁻¹ ^ m) ninv nC δf X j = ninv * cdft n ζ⁻¹ X j * nC * δf := by
  have h := ft_centred (hζ.inv) hn 1 X j
  unfold ft at h
  unfold ift
  unfold fftshift at h ⊢
  rw [idft_eq_dft]
  simp only [mul_one] at h
  rw [h]

/-- `cdft` only reads indices `< n` -/
theorem cdft_congr {x y : ℕ → K} (h : ∀ m < n, x m = y m) (k : ℕ) : cdft n ζ x k = cdft n ζ y k := by
  unfold cdft
  exact sum_congr rfl (fun m hm => by rw [h m (mem_range.mp hm)])

/-- inversion of the centred DFT -/
theorem cdft_inv (hζ : IsPrimitiveRoot ζ n) (hn : 0 < n) (x : ℕ → K) {j : ℕ} (hj : j < n) :
    cdft n ζ⁻¹ (cdft n ζ x) j = (n : K) * x j := by
  have hne := root_ne_zero hζ hn
  unfold cdft
  simp only [sum_mul]
  rw [sum_comm]
  have key : ∀ m ∈ range n, ∑ p ∈ range n,
      x m * ζ ^ (((m:ℤ) - ctr n) * ((p:ℤ) - ctr n)) * ζ⁻¹ ^ (((p:ℤ) - ctr n) * ((j:ℤ) - ctr n))
      = if m = j then (n:K) * x j else 0 := by
    intro m hm
    have e : ∀ p : ℕ, x m * ζ ^ (((m:ℤ) - ctr n) * ((p:ℤ) - ctr n)) * ζ⁻¹ ^ (((p:ℤ) - ctr n) * ((j:ℤ) - ctr n))
        = (x m * ζ ^ (-(((m:ℤ) - j) * ctr n))) * ζ ^ (((m:ℤ) - j) * (p:ℤ)) := by
      intro p
      rw [inv_zpow', mul_assoc, mul_assoc, ← zpow_add₀ hne, ← zpow_add₀ hne]
      congr 2; ring
    simp only [e, ← mul_sum]
    rw [orth hζ hn]
    have hm' := mem_range.mp hm
    by_cases hmj : m = j
    · subst hmj; simp; ring
    · have : ¬ (n:ℤ) ∣ (m:ℤ) - j := by
        intro hd
        apply hmj
        have h1 : ((m:ℤ) - j) = 0 := by
          apply Int.eq_zero_of_abs_lt_dvd hd
          rw [abs_lt]; constructor <;> omega
        omega
      simp [this, hmj]
  rw [sum_congr rfl key]
  simp [hj]


theorem cdft_smul (a : K) (x : ℕ → K) (k : ℕ) : cdft n ζ (fun m => a * x m) k = a * cdft n ζ x k := by
  unfold cdft; rw [mul_sum]; exact sum_congr rfl (fun m _ => by ring)

theorem cdft_mul_const (a : K) (x : ℕ → K) (k : ℕ) : cdft n ζ (fun m => x m * a) k = cdft n ζ x k * a := by
  unfold cdft; rw [sum_mul]; exact sum_congr rfl (fun m _ => by ring)

theorem cdft_add (x y : ℕ → K) (k : ℕ) : cdft n ζ (fun m => x m + y m) k = cdft n ζ x k + cdft n ζ y k := by
  unfold cdft; rw [← sum_add_distrib]; exact sum_congr rfl (fun m _ => by ring)

/-- Plancherel identity over any field: `Σ_k X_k Ỹ_k = n Σ_m x_m y_m` (X = cdft ζ x, Ỹ = cdft ζ⁻¹ y) -/
theorem plancherel (hζ : IsPrimitiveRoot ζ n) (hn : 0 < n) (x y : ℕ → K) :
    ∑ k ∈ range n, cdft n ζ x k * cdft n ζ⁻¹ y k = (n : K) * ∑ m ∈ range n, x m * y m := by
  have h1 : ∀ k ∈ range n, cdft n ζ x k * cdft n ζ⁻¹ y k
      = ∑ m ∈ range n, y m * (cdft n ζ x k * ζ⁻¹ ^ (((k:ℤ) - ctr n) * ((m:ℤ) - ctr n))) := by
    intro k _
    conv_lhs => rw [cdft.eq_1 n ζ⁻¹ y k]
    rw [mul_sum]; apply sum_congr rfl; intro m _
    rw [mul_comm ((k:ℤ) - ctr n)]; ring
  rw [sum_congr rfl h1, sum_comm]
  have h2 : ∀ m ∈ range n, ∑ k ∈ range n, y m * (cdft n ζ x k * ζ⁻¹ ^ (((k:ℤ) - ctr n) * ((m:ℤ) - ctr n)))
      = y m * ((n:K) * x m) := by
    intro m hm
    rw [← mul_sum, ← cdft_inv hζ hn x (mem_range.mp hm)]
    rfl
  rw [sum_congr rfl h2, mul_sum]
  exact sum_congr rfl (fun m _ => by ring)

/-- circular shift by `s` samples multiplies the centred spectrum by the matching linear phase -/
theorem cdft_shift (hζ : IsPrimitiveRoot ζ n) (hn : 0 < n) (x : ℕ → K) {s : ℕ} (hs : s ≤ n) (k : ℕ) :
    cdft n ζ (fun m => x ((m + (n - s)) % n)) k = ζ ^ ((s:ℤ) * ((k:ℤ) - ctr n)) * cdft n ζ x k := by
  have hne := root_ne_zero hζ hn
  unfold cdft
  let f : ℕ → K := fun m' => x m' * ζ ^ (((((m' + s) % n : ℕ) : ℤ) - ctr n) * ((k:ℤ) - ctr n))
  have h1 : ∑ m ∈ range n, x ((m + (n - s)) % n) * ζ ^ (((m:ℤ) - ctr n) * ((k:ℤ) - ctr n))
      = ∑ m ∈ range n, f ((m + (n - s)) % n) := by
    apply sum_congr rfl; intro m hm
    have hm' := mem_range.mp hm
    have : ((m + (n - s)) % n + s) % n = m := by
      rw [Nat.mod_add_mod]
      have : m + (n - s) + s = m + n := by omega
      rw [this, Nat.add_mod_right, Nat.mod_eq_of_lt hm']
    simp only [f, this]
  rw [h1, sum_shift hn f (n - s), mul_sum]
  apply sum_congr rfl; intro m _
  simp only [f]
  rw [mul_left_comm, ← zpow_add₀ hne]
  congr 1
  apply zpow_congr hζ hn
  generalize ctr n = c
  push_cast
  simp only [Int.emod_def]
  generalize ((m:ℤ) + (s:ℤ)) / (n:ℤ) = q
  exact ⟨-(q * ((k:ℤ) - c)), by ring⟩

end centred

end AoVerif.DFT
