/-
Helper lemmas for the centroider model (`Model/Centroid.lean`) over a linearly ordered field.
-/
import Mathlib.Algebra.Order.Field.Basic
import Mathlib.Algebra.BigOperators.Intervals
import Mathlib.Algebra.Order.BigOperators.Ring.Finset
import Mathlib.Tactic.Ring
import Mathlib.Tactic.Linarith
import Mathlib.Tactic.FieldSimp
import AoVerif.Model.Centroid
import AoVerif.Lemmas.Sum

namespace AoVerif.Centroid
open Finset AoVerif
set_option linter.unusedSectionVars false

section field
variable {K : Type} [Field K] [LinearOrder K] [IsStrictOrderedRing K]

/-! ### sums -/

theorem sum2_eq (ny nx : ℕ) (f : ℕ → ℕ → K) :
    sum2 ny nx f = ∑ y ∈ range ny, ∑ x ∈ range nx, f y x := by
  unfold sum2; rw [sumTo_eq_sum]; exact sum_congr rfl (fun y _ => sumTo_eq_sum _ _)

theorem sum2_congr {ny nx : ℕ} {f g : ℕ → ℕ → K} (h : ∀ y < ny, ∀ x < nx, f y x = g y x) :
    sum2 ny nx f = sum2 ny nx g := by
  rw [sum2_eq, sum2_eq]
  exact sum_congr rfl (fun y hy => sum_congr rfl (fun x hx => h y (mem_range.mp hy) x (mem_range.mp hx)))

theorem sum2_smul (ny nx : ℕ) (c : K) (f : ℕ → ℕ → K) :
    sum2 ny nx (fun y x => c * f y x) = c * sum2 ny nx f := by
  rw [sum2_eq, sum2_eq, mul_sum]; exact sum_congr rfl (fun y _ => by rw [mul_sum])

/-! ### maxima -/

theorem maxK_eq_max (a b : K) : maxK a b = max a b := by
  unfold maxK; split_ifs with h
  · exact (max_eq_right h.le).symm
  · exact (max_eq_left (not_lt.mp h)).symm

theorem maxK_mul {c : K} (hc : 0 < c) (a b : K) : maxK (c * a) (c * b) = c * maxK a b := by
  unfold maxK
  by_cases h : a < b
  · rw [if_pos h, if_pos (mul_lt_mul_of_pos_left h hc)]
  · rw [if_neg h, if_neg (by rw [mul_lt_mul_iff_right₀ hc]; exact h)]

theorem foldl_maxK_mul {c : K} (hc : 0 < c) (f : ℕ → K) (l : List ℕ) (acc : K) :
    l.foldl (fun acc i => maxK acc (c * f i)) (c * acc) = c * l.foldl (fun acc i => maxK acc (f i)) acc := by
  induction l generalizing acc with
  | nil => rfl
  | cons i l ih => simp only [List.foldl_cons]; rw [maxK_mul hc, ih]

theorem maxTo_mul {c : K} (hc : 0 < c) (n : ℕ) (f : ℕ → K) :
    maxTo n (fun i => c * f i) = c * maxTo n f := by
  unfold maxTo; exact foldl_maxK_mul hc f _ _

theorem max2_mul {c : K} (hc : 0 < c) (ny nx : ℕ) (img : ℕ → ℕ → K) :
    max2 ny nx (fun y x => c * img y x) = c * max2 ny nx img := by
  unfold max2
  simp only [maxTo_mul hc]

theorem foldl_maxK_spec (f : ℕ → K) (l : List ℕ) (acc : K) :
    (l.foldl (fun acc i => maxK acc (f i)) acc = acc ∨ ∃ i ∈ l, l.foldl (fun acc i => maxK acc (f i)) acc = f i)
    ∧ acc ≤ l.foldl (fun acc i => maxK acc (f i)) acc
    ∧ ∀ i ∈ l, f i ≤ l.foldl (fun acc i => maxK acc (f i)) acc := by
  induction l generalizing acc with
  | nil => simp
  | cons j l ih =>
    simp only [List.foldl_cons]
    obtain ⟨h1, h2, h3⟩ := ih (maxK acc (f j))
    have hm : maxK acc (f j) = max acc (f j) := maxK_eq_max _ _
    refine ⟨?_, ?_, ?_⟩
    · rcases h1 with h | ⟨i, hi, h⟩
      · rw [h, hm]
        rcases max_choice acc (f j) with h' | h'
        · left; exact h'
        · right; exact ⟨j, List.mem_cons_self, h'⟩
      · right; exact ⟨i, List.mem_cons_of_mem _ hi, h⟩
    · exact le_trans (by rw [hm]; exact le_max_left _ _) h2
    · intro i hi
      rcases List.mem_cons.mp hi with rfl | hi
      · exact le_trans (by rw [hm]; exact le_max_right _ _) h2
      · exact h3 i hi

/-- the running maximum is attained and dominates -/
theorem maxTo_spec {n : ℕ} (hn : 0 < n) (f : ℕ → K) :
    (∃ i < n, maxTo n f = f i) ∧ ∀ i < n, f i ≤ maxTo n f := by
  unfold maxTo
  obtain ⟨h1, _, h3⟩ := foldl_maxK_spec f (List.range n) (f 0)
  refine ⟨?_, fun i hi => h3 i (List.mem_range.mpr hi)⟩
  rcases h1 with h | ⟨i, hi, h⟩
  · exact ⟨0, hn, h⟩
  · exact ⟨i, List.mem_range.mp hi, h⟩

theorem max2_spec {ny nx : ℕ} (hy : 0 < ny) (hx : 0 < nx) (img : ℕ → ℕ → K) :
    (∃ y < ny, ∃ x < nx, max2 ny nx img = img y x) ∧ ∀ y < ny, ∀ x < nx, img y x ≤ max2 ny nx img := by
  unfold max2
  obtain ⟨⟨y, hyy, e⟩, hle⟩ := maxTo_spec hy (fun y => maxTo nx (fun x => img y x))
  obtain ⟨⟨x, hxx, e'⟩, _⟩ := maxTo_spec hx (fun x => img y x)
  refine ⟨⟨y, hyy, x, hxx, by rw [e]; exact e'⟩, ?_⟩
  intro y' hy' x' hx'
  exact le_trans ((maxTo_spec hx (fun x => img y' x)).2 x' hx') (hle y' hy')

/-- a value that is attained and dominates is the maximum -/
theorem max2_unique {ny nx : ℕ} (hy : 0 < ny) (hx : 0 < nx) (img : ℕ → ℕ → K) (m : K)
    (hatt : ∃ y < ny, ∃ x < nx, m = img y x) (hdom : ∀ y < ny, ∀ x < nx, img y x ≤ m) :
    max2 ny nx img = m := by
  obtain ⟨⟨y, hyy, x, hxx, e⟩, hle⟩ := max2_spec hy hx img
  obtain ⟨y', hy', x', hx', e'⟩ := hatt
  apply le_antisymm
  · rw [e]; exact hdom y hyy x hxx
  · rw [e']; exact hle y' hy' x' hx'

/-! ### threshold step -/

theorem zero_cast : (((0 : ℕ) : K)) = 0 := Nat.cast_zero

theorem nonzero_iff (t : K) : nonzero t = true ↔ t ≠ 0 := by
  unfold nonzero
  simp only [zero_cast, Bool.or_eq_true, decide_eq_true_eq]
  exact ⟨fun h => h.elim ne_of_lt (fun h => (ne_of_lt h).symm), fun h => lt_or_gt_of_ne h⟩

theorem clipSub_mul {c : K} (hc : 0 < c) (th v : K) : clipSub (c * th) (c * v) = c * clipSub th v := by
  unfold clipSub
  by_cases h : th < v
  · rw [if_pos h, if_pos (mul_lt_mul_of_pos_left h hc)]; ring
  · rw [if_neg h, if_neg (by rw [mul_lt_mul_iff_right₀ hc]; exact h)]; simp

theorem clipSub_nonneg (th v : K) : 0 ≤ clipSub th v := by
  unfold clipSub; split_ifs with h
  · exact (sub_pos.mpr h).le
  · simp

theorem clipSub_zero {th : K} (h : 0 ≤ th) : clipSub th 0 = 0 := by
  unfold clipSub; rw [if_neg (not_lt.mpr h)]; simp

theorem clipSub_pos {th v : K} (h : th < v) : 0 < clipSub th v := by
  unfold clipSub; rw [if_pos h]; exact sub_pos.mpr h

theorem thresOf_mul {c : K} (hc : 0 < c) (t mn m : K) : thresOf t (c * mn) (c * m) = c * thresOf t mn m := by
  unfold thresOf
  rw [← maxK_mul hc]; congr 1; ring

theorem thresOf_nonneg {t mn m : K} (hmn : 0 ≤ mn) : 0 ≤ thresOf t mn m := by
  unfold thresOf; rw [maxK_eq_max]; exact le_max_of_le_right hmn

/-- scaling the image and the absolute floor by `c > 0` scales the thresholded image by `c` -/
theorem thresholded_mul {c : K} (hc : 0 < c) (ny nx : ℕ) (t mn : K) (img : ℕ → ℕ → K) (y x : ℕ) :
    thresholded ny nx t (c * mn) (fun y x => c * img y x) y x = c * thresholded ny nx t mn img y x := by
  unfold thresholded
  split_ifs
  · simp only [max2_mul hc, thresOf_mul hc, clipSub_mul hc]
  · rfl

/-! ### moments -/

theorem moments_mul {c : K} (hc : c ≠ 0) (ny nx : ℕ) (img : ℕ → ℕ → K) :
    moments ny nx (fun y x => c * img y x) = moments ny nx img := by
  unfold moments
  have e1 : sum2 ny nx (fun y x => (x : K) * (c * img y x)) = c * sum2 ny nx (fun y x => (x : K) * img y x) := by
    rw [← sum2_smul]; exact sum2_congr (fun _ _ _ _ => by ring)
  have e2 : sum2 ny nx (fun y x => (y : K) * (c * img y x)) = c * sum2 ny nx (fun y x => (y : K) * img y x) := by
    rw [← sum2_smul]; exact sum2_congr (fun _ _ _ _ => by ring)
  rw [e1, e2, sum2_smul, mul_div_mul_left _ _ hc, mul_div_mul_left _ _ hc]

theorem moments_congr {ny nx : ℕ} {f g : ℕ → ℕ → K} (h : ∀ y < ny, ∀ x < nx, f y x = g y x) :
    moments ny nx f = moments ny nx g := by
  unfold moments
  rw [sum2_congr h, sum2_congr (f := fun y x => (x : K) * f y x) (g := fun y x => (x : K) * g y x)
    (fun y hy x hx => by rw [h y hy x hx]),
    sum2_congr (f := fun y x => (y : K) * f y x) (g := fun y x => (y : K) * g y x)
    (fun y hy x hx => by rw [h y hy x hx])]

/-- the image that is `v` at `(y0, x0)` and zero elsewhere -/
def delta (y0 x0 : ℕ) (v : K) : ℕ → ℕ → K := fun y x => if y = y0 ∧ x = x0 then v else 0

theorem sum2_delta {ny nx y0 x0 : ℕ} (hy : y0 < ny) (hx : x0 < nx) (w : ℕ → ℕ → K) (v : K) :
    sum2 ny nx (fun y x => w y x * delta y0 x0 v y x) = w y0 x0 * v := by
  rw [sum2_eq, sum_eq_single y0, sum_eq_single x0]
  · simp [delta]
  · intro x _ hne; simp [delta, hne]
  · intro h; exact absurd (mem_range.mpr hx) h
  · intro y _ hne; apply sum_eq_zero; intro x _; simp [delta, hne]
  · intro h; exact absurd (mem_range.mpr hy) h

theorem moments_delta {ny nx y0 x0 : ℕ} (hy : y0 < ny) (hx : x0 < nx) {v : K} (hv : v ≠ 0) :
    moments ny nx (delta y0 x0 v) = ((x0 : K), (y0 : K)) := by
  unfold moments
  have e0 : sum2 ny nx (delta y0 x0 v) = v := by
    have := sum2_delta hy hx (fun _ _ => (1 : K)) v
    simpa using this
  rw [sum2_delta hy hx (fun _ x => (x : K)) v, sum2_delta hy hx (fun y _ => (y : K)) v, e0,
    mul_div_cancel_right₀ _ hv, mul_div_cancel_right₀ _ hv]

end field
end AoVerif.Centroid
