/-
`cross_correlate` over ℂ on real non-negative images: the modulus of the FFT pipeline is the (real) circular
cross-correlation of the zero-padded images.
-/
import Mathlib.Data.Complex.Basic
import Mathlib.Analysis.SpecialFunctions.Complex.Circle
import Mathlib.RingTheory.RootsOfUnity.Complex
import AoVerif.Lemmas.CentroidCorr
import AoVerif.Lemmas.CentroidCirc

namespace AoVerif.Centroid
open Finset AoVerif AoVerif.Fourier AoVerif.DFT Complex
set_option linter.unusedSectionVars false

theorem conj_root' {n : ℕ} {ζ : ℂ} (hζ : IsPrimitiveRoot ζ n) (hn : 0 < n) : (starRingEnd ℂ) ζ = ζ⁻¹ := by
  have h1 : ‖ζ‖ = 1 := hζ.norm'_eq_one (by omega)
  exact (Complex.inv_eq_conj h1).symm

/-- conjugating the transform of a conjugation-invariant (real) signal = transforming against the inverse root -/
theorem conj_dft {n : ℕ} {ζ : ℂ} (hζ : IsPrimitiveRoot ζ n) (hn : 0 < n) (x : ℕ → ℂ)
    (hx : ∀ m, (starRingEnd ℂ) (x m) = x m) (k : ℕ) :
    (starRingEnd ℂ) (dft n (fun m => ζ ^ m) x k) = dft n (fun m => ζ⁻¹ ^ m) x k := by
  unfold dft
  simp only [sumTo_eq_sum, map_sum, map_mul, map_pow, hx, conj_root' hζ hn]

theorem conj_dft2 {py px : ℕ} {ζy ζx : ℂ} (hζy : IsPrimitiveRoot ζy py) (hy : 0 < py) (hζx : IsPrimitiveRoot ζx px)
    (hx : 0 < px) (Y : ℕ → ℕ → ℂ) (hY : ∀ u v, (starRingEnd ℂ) (Y u v) = Y u v) (a b : ℕ) :
    (starRingEnd ℂ) ((dft2 idm py px (fun m => ζy ^ m) (fun m => ζx ^ m) Y).px a b)
      = (dft2 idm py px (fun m => ζy⁻¹ ^ m) (fun m => ζx⁻¹ ^ m) Y).px a b := by
  show (starRingEnd ℂ) (dft py (fun m => ζy ^ m) (fun u => dft px (fun m => ζx ^ m) (fun v => Y u v) b) a)
    = dft py (fun m => ζy⁻¹ ^ m) (fun u => dft px (fun m => ζx⁻¹ ^ m) (fun v => Y u v) b) a
  unfold dft
  simp only [sumTo_eq_sum, map_sum, map_mul, map_pow, hY, conj_root' hζy hy, conj_root' hζx hx]

/-- the model's `cross_correlate` over ℂ (conj = complex conjugation, abs = modulus, no caching) applied to real
non-negative images is the fftshifted circular cross-correlation of the zero-padded images -/
theorem crossCorrelate_real {ny nx pad : ℕ} {ζy ζx : ℂ}
    (hζy : IsPrimitiveRoot ζy (ny * pad)) (hy : 0 < ny * pad) (hζx : IsPrimitiveRoot ζx (nx * pad)) (hx : 0 < nx * pad)
    (x y : ℕ → ℕ → ℝ) (hx0 : ∀ u v, 0 ≤ x u v) (hy0 : ∀ u v, 0 ≤ y u v) (a b : ℕ) :
    (crossCorrelate ny nx pad (fun m => ζy ^ m) (fun m => ζx ^ m) (fun m => ζy⁻¹ ^ m) (fun m => ζx⁻¹ ^ m)
        (1 / ((ny * pad : ℕ) : ℂ)) (1 / ((nx * pad : ℕ) : ℂ)) 0 (starRingEnd ℂ) (fun z => ‖z‖) idm
        (fun u v => (x u v : ℂ)) (fun u v => (y u v : ℂ))).px a b
      = circCorr (ny * pad) (nx * pad) (zeroPad ny nx 0 x) (zeroPad ny nx 0 y)
          ((a + (ny * pad - ny * pad / 2)) % (ny * pad)) ((b + (nx * pad - nx * pad / 2)) % (nx * pad)) := by
  set py := ny * pad
  set px := nx * pad
  have hpadc : ∀ (z : ℕ → ℕ → ℝ) u v, zeroPad ny nx (0 : ℂ) (fun u v => (z u v : ℂ)) u v = ((zeroPad ny nx 0 z u v : ℝ) : ℂ) := by
    intro z u v; unfold zeroPad; split_ifs <;> simp
  have hreal : ∀ u v, (starRingEnd ℂ) (zeroPad ny nx (0 : ℂ) (fun u v => (y u v : ℂ)) u v)
      = zeroPad ny nx (0 : ℂ) (fun u v => (y u v : ℂ)) u v := by
    intro u v; rw [hpadc]; exact Complex.conj_ofReal _
  show ‖(idft2 idm py px (fun m => ζy⁻¹ ^ m) (fun m => ζx⁻¹ ^ m) (1 / (py : ℂ)) (1 / (px : ℂ))
      (fun a b => (dft2 idm py px (fun m => ζy ^ m) (fun m => ζx ^ m) (zeroPad ny nx 0 (fun u v => (x u v : ℂ)))).px a b
        * (starRingEnd ℂ) ((dft2 idm py px (fun m => ζy ^ m) (fun m => ζx ^ m) (zeroPad ny nx 0 (fun u v => (y u v : ℂ)))).px a b))).px
      ((a + (py - py / 2)) % py) ((b + (px - px / 2)) % px)‖ = _
  simp only [conj_dft2 hζy hy hζx hx _ hreal]
  rw [idft2_mul_dft2 hζy hy hζx hx]
  unfold circCorr
  simp only [hpadc]
  have hz : ∀ (z : ℕ → ℕ → ℝ), (∀ u v, 0 ≤ z u v) → ∀ u v, 0 ≤ zeroPad ny nx 0 z u v := by
    intro z hz u v; unfold zeroPad; split_ifs
    · exact hz u v
    · exact le_refl _
  have hcast : (∑ p ∈ range py, ∑ q ∈ range px, ((zeroPad ny nx 0 y p q : ℝ) : ℂ)
        * ((zeroPad ny nx 0 x ((p + (a + (py - py / 2)) % py) % py) ((q + (b + (px - px / 2)) % px) % px) : ℝ) : ℂ))
      = ((∑ p ∈ range py, ∑ q ∈ range px, zeroPad ny nx 0 y p q
        * zeroPad ny nx 0 x ((p + (a + (py - py / 2)) % py) % py) ((q + (b + (px - px / 2)) % px) % px) : ℝ) : ℂ) := by
    push_cast; rfl
  rw [hcast, Complex.norm_real, Real.norm_of_nonneg]
  exact sum_nonneg (fun p _ => sum_nonneg (fun q _ => mul_nonneg (hz y hy0 _ _) (hz x hx0 _ _)))

end AoVerif.Centroid
