/-
Structural lemmas about the lag loop of `calculate_structure_function` (no algebra on the payload type):
what a buffer holds after the loop, for an ARBITRARY initial buffer.
-/
import Mathlib.Tactic.Ring
import Mathlib.Tactic.Linarith
import AoVerif.Model.Estimators

namespace AoVerif.Lemmas.Estimators
set_option linter.unusedSectionVars false
open AoVerif AoVerif.Model.Estimators

/-- `range(step, xm*step, step)` is `step·1, step·2, …, step·(xm-1)` -/
theorem pyRange_lags (step xm : Nat) (hs : 1 ≤ step) :
    pyRange step (xm * step) step = (List.range (xm - 1)).map (fun t => (t + 1) * step) := by
  unfold pyRange
  have h1 : xm * step - step = (xm - 1) * step := by rw [Nat.sub_mul, Nat.one_mul]
  have h2 : ((xm - 1) * step + step - 1) / step = xm - 1 := by
    have : (xm - 1) * step + step - 1 = (step - 1) + (xm - 1) * step := by omega
    rw [this, Nat.add_mul_div_right _ _ (by omega), Nat.div_eq_of_lt (by omega)]; simp
  rw [h1, h2]
  apply List.map_congr_left
  intro t _
  ring

section
variable {α : Type}

/-- writes `F 1, …, F m` at positions `1 … m` (those inside the buffer) -/
def writeN (F : Nat → α) (buf : Array α) (m : Nat) : Array α :=
  (List.range m).foldl (fun b t => b.setIfInBounds (t + 1) (F (t + 1))) buf

theorem writeN_size (F : Nat → α) (buf : Array α) (m : Nat) : (writeN F buf m).size = buf.size := by
  induction m with
  | zero => simp [writeN]
  | succ m ih =>
    unfold writeN at ih ⊢
    rw [List.range_succ, List.foldl_append]
    simp [ih]

theorem writeN_get (F : Nat → α) (buf : Array α) (m j : Nat) :
    (writeN F buf m)[j]? = if 1 ≤ j ∧ j ≤ m ∧ j < buf.size then some (F j) else buf[j]? := by
  induction m with
  | zero =>
    have : ¬ (1 ≤ j ∧ j ≤ 0 ∧ j < buf.size) := by omega
    rw [if_neg this]
    simp [writeN]
  | succ m ih =>
    have hsz := writeN_size F buf m
    unfold writeN at ih hsz ⊢
    rw [List.range_succ, List.foldl_append]
    simp only [List.foldl_cons, List.foldl_nil]
    rw [Array.getElem?_setIfInBounds, hsz, ih]
    by_cases hj : m + 1 = j
    · subst hj
      by_cases hb : m + 1 < buf.size
      · simp [hb]
      · have : buf[m + 1]? = none := by
          apply Array.getElem?_eq_none; omega
        simp [hb]
    · simp only [hj, if_false]
      by_cases hc : 1 ≤ j ∧ j ≤ m ∧ j < buf.size
      · have : 1 ≤ j ∧ j ≤ m + 1 ∧ j < buf.size := by omega
        simp [hc, this]
      · have : ¬ (1 ≤ j ∧ j ≤ m + 1 ∧ j < buf.size) := by omega
        simp [hc, this]

end

section
variable {K : Type} [Add K] [Sub K] [Mul K] [Div K] [Neg K] [NatCast K] [OfScientific K] [HPow K Nat K]

/-- the lag loop is `writeN` of the lag means -/
theorem sfLoop_eq (n0 n1 : Nat) (φ : Nat → Nat → K) (step xm : Nat) (hs : 1 ≤ step) (buf : Array K) :
    sfLoop n0 n1 φ step xm buf = writeN (fun j => lagMean n0 n1 φ (j * step)) buf (xm - 1) := by
  unfold sfLoop writeN
  rw [pyRange_lags step xm hs, List.foldl_map]
  congr 1
  funext b t
  rw [Nat.mul_div_cancel _ (by omega : 0 < step)]

/-- contents of the output after the loop, for an arbitrary initial buffer of the right size -/
theorem sfLoop_get (n0 n1 : Nat) (φ : Nat → Nat → K) (step xm : Nat) (hs : 1 ≤ step) (buf : Array K)
    (hb : buf.size = xm) (j : Nat) :
    (sfLoop n0 n1 φ step xm buf)[j]? =
      if 1 ≤ j ∧ j < xm then some (lagMean n0 n1 φ (j * step)) else buf[j]? := by
  rw [sfLoop_eq _ _ _ _ _ hs, writeN_get, hb]
  by_cases h : 1 ≤ j ∧ j < xm
  · have : 1 ≤ j ∧ j ≤ xm - 1 ∧ j < xm := by omega
    simp [h, this]
  · have : ¬ (1 ≤ j ∧ j ≤ xm - 1 ∧ j < xm) := by omega
    simp [h, this]

theorem sfLoop_size (n0 n1 : Nat) (φ : Nat → Nat → K) (step xm : Nat) (hs : 1 ≤ step) (buf : Array K) :
    (sfLoop n0 n1 φ step xm buf).size = buf.size := by
  rw [sfLoop_eq _ _ _ _ _ hs, writeN_size]

end
end AoVerif.Lemmas.Estimators
