/-
Lemmas for the phase-screen model (`Model/Screen.lean`) over `K = ℝ`, `C = ℂ`:
the mirror of the code (shift – ifft2 – shift – real part) equals the explicit real-linear form `ftScreenLin`
for every even `N`, and the real (cos/sin) orthogonality relations of the `N`-point grid.
-/
import Mathlib.Data.Complex.Basic
import Mathlib.Data.Complex.BigOperators
import Mathlib.Analysis.SpecialFunctions.Complex.Circle
import Mathlib.RingTheory.RootsOfUnity.Complex
import AoVerif.Lemmas.DFT
import AoVerif.Lemmas.RealScalar
import AoVerif.Model.Screen

namespace AoVerif.Screen
set_option linter.unusedSectionVars false
open Finset AoVerif AoVerif.Fourier AoVerif.DFT

/-- Mathlib's `ℂ` as the complex type of the model -/
noncomputable instance : CxOps ℝ ℂ := ⟨fun x y => ⟨x, y⟩, Complex.re⟩

theorem ofParts_eq (x y : ℝ) : (CxOps.ofParts x y : ℂ) = ⟨x, y⟩ := rfl
theorem rePart_eq (z : ℂ) : (CxOps.rePart z : ℝ) = z.re := rfl

/-- for even `n` both shifts are the rotation by `n/2`, so `phasescreen.ift2` is `fouriertransform.ift2` -/
theorem ift1_ps_even {C : Type} [Add C] [Mul C] [OfScientific C] {n : ℕ} (h : n % 2 = 0)
    (wi : ℕ → C) (ninv nC δf : C) (x : ℕ → C) (j : ℕ) :
    ift1_ps n wi ninv nC δf x j = ift n wi ninv nC δf x j := by
  have e : n - n / 2 = n / 2 := by omega
  unfold ift1_ps ift ifftshift fftshift
  simp only [e]

/-- for even `n` the shift pair of the FFT-object branch of `phasescreen.ift2` (`fftshift ∘ FFT ∘ fftshift`) is the one
of the default branch (`ifftshift ∘ ifft2 ∘ fftshift`): any complex type, no algebraic laws needed -/
theorem ift1_psFFT_even {C : Type} [Add C] [Mul C] [OfScientific C] {n : ℕ} (h : n % 2 = 0)
    (wi : ℕ → C) (ninv nC δf : C) (x : ℕ → C) (j : ℕ) :
    ift1_psFFT n wi ninv nC δf x j = ift1_ps n wi ninv nC δf x j := by
  have e : n - n / 2 = n / 2 := by omega
  unfold ift1_psFFT ift1_ps ifftshift fftshift
  simp only [e]

theorem ift2_psFFT_even {C : Type} [Add C] [Mul C] [OfScientific C] {n : ℕ} (h : n % 2 = 0)
    (wi : ℕ → C) (ninv nC δf : C) (x : ℕ → ℕ → C) (a b : ℕ) :
    ift2_psFFT n wi ninv nC δf x a b = ift2_ps n wi ninv nC δf x a b := by
  have e1 : ∀ (x : ℕ → C) (j : ℕ), ift1_psFFT n wi ninv nC δf x j = ift1_ps n wi ninv nC δf x j :=
    ift1_psFFT_even h wi ninv nC δf
  unfold ift2_psFFT ift2_ps
  simp only [e1]

/-- the root `W = e^{2πi/N}` -/
noncomputable def W (N : ℕ) : ℂ := Complex.exp (2 * Real.pi * Complex.I / N)

theorem W_inv_primitive {N : ℕ} (hN : 0 < N) : IsPrimitiveRoot (W N)⁻¹ N :=
  (Complex.isPrimitiveRoot_exp N (by omega)).inv

theorem W_zpow (N : ℕ) (k : ℤ) : (W N) ^ k = Complex.exp (((2 * Real.pi * k / N : ℝ) : ℂ) * Complex.I) := by
  unfold W
  rw [← Complex.exp_int_mul]
  congr 1
  push_cast
  ring

theorem W_zpow_re (N : ℕ) (k : ℤ) : ((W N) ^ k).re = Real.cos (2 * Real.pi * k / N) := by
  rw [W_zpow, Complex.exp_ofReal_mul_I_re]

theorem W_zpow_im (N : ℕ) (k : ℤ) : ((W N) ^ k).im = Real.sin (2 * Real.pi * k / N) := by
  rw [W_zpow, Complex.exp_ofReal_mul_I_im]

section
variable [Transc ℝ] [RealTransc]

/-- the model's twiddle table is `m ↦ W^m` -/
theorem twiddle_eq (N : ℕ) (m : ℕ) : cisC ℂ (twAngle N m : ℝ) = ((W N)⁻¹)⁻¹ ^ m := by
  rw [inv_inv, ← zpow_natCast, W_zpow]
  unfold cisC twAngle
  rw [ofParts_eq]
  simp only [RealTransc.pi_eq, RealTransc.cos_eq, RealTransc.sin_eq, Nat.cast_ofNat]
  apply Complex.ext
  · rw [Complex.exp_ofReal_mul_I_re]; push_cast; rfl
  · rw [Complex.exp_ofReal_mul_I_im]; push_cast; rfl

/-- `1/N · N = 1` for the two real scale factors of `phasescreen.ift2` seen as complex numbers -/
theorem ninv_nC {N : ℕ} (hN : 0 < N) :
    (CxOps.ofParts (((1 : ℕ) : ℝ) / (N : ℝ)) ((0 : ℕ) : ℝ) : ℂ) * (CxOps.ofParts (N : ℝ) ((0 : ℕ) : ℝ) : ℂ) = 1 := by
  have h : (N : ℝ) ≠ 0 := by positivity
  rw [ofParts_eq, ofParts_eq]
  apply Complex.ext <;> simp [h]

theorem one_C : (CxOps.ofParts ((1 : ℕ) : ℝ) ((0 : ℕ) : ℝ) : ℂ) = 1 := by
  rw [ofParts_eq]; apply Complex.ext <;> simp

/-- the complex screen before `.real`: all shifts resolved, for even `N` -/
theorem ift2_ps_centred {N : ℕ} (hN : 0 < N) (he : N % 2 = 0) (x : ℕ → ℕ → ℂ) (p q : ℕ) :
    ift2_ps N (fun m => cisC ℂ (twAngle N m : ℝ))
      (CxOps.ofParts (((1 : ℕ) : ℝ) / (N : ℝ)) ((0 : ℕ) : ℝ))
      (CxOps.ofParts (N : ℝ) ((0 : ℕ) : ℝ))
      (CxOps.ofParts ((1 : ℕ) : ℝ) ((0 : ℕ) : ℝ)) x p q
    = ∑ i ∈ range N, ∑ j ∈ range N,
        x i j * (W N) ^ (((i : ℤ) - ctr N) * ((p : ℤ) - ctr N) + ((j : ℤ) - ctr N) * ((q : ℤ) - ctr N)) := by
  have hζ := W_inv_primitive hN
  have hW : W N ≠ 0 := by unfold W; exact Complex.exp_ne_zero _
  have htw : (fun m => cisC ℂ (twAngle N m : ℝ)) = fun m : ℕ => ((W N)⁻¹)⁻¹ ^ m := funext (twiddle_eq N)
  unfold ift2_ps
  simp only [ift1_ps_even (C := ℂ) he, htw, ift_centred hζ hN, one_C, mul_one]
  unfold cdft
  rw [inv_inv]
  set a : ℂ := CxOps.ofParts (((1 : ℕ) : ℝ) / (N : ℝ)) ((0 : ℕ) : ℝ) with ha
  set b : ℂ := CxOps.ofParts (N : ℝ) ((0 : ℕ) : ℝ) with hb
  have hab : a * b = 1 := ninv_nC hN
  have hs : ∀ s : ℂ, a * s * b = s := fun s => by rw [mul_comm a s, mul_assoc, hab, mul_one]
  simp only [hs]
  apply sum_congr rfl; intro i _
  rw [sum_mul]
  apply sum_congr rfl; intro j _
  rw [zpow_add₀ hW]
  ring

theorem half_cast {N : ℕ} (he : N % 2 = 0) : (N : ℝ) / 2 = ((N / 2 : ℕ) : ℝ) := by
  have h : N = 2 * (N / 2) := by omega
  have h' : (N : ℝ) = 2 * ((N / 2 : ℕ) : ℝ) := by exact_mod_cast h
  rw [h']; ring

/-- the integer that multiplies `2π/N` in the phase of frequency sample `(i,j)` at pixel `(p,q)` -/
def kdot (N i j p q : ℕ) : ℤ := ((i : ℤ) - ctr N) * ((p : ℤ) - ctr N) + ((j : ℤ) - ctr N) * ((q : ℤ) - ctr N)

theorem theta_eq {N : ℕ} (he : N % 2 = 0) (i j p q : ℕ) :
    (theta N i j p q : ℝ) = 2 * Real.pi * ((kdot N i j p q : ℤ) : ℝ) / N := by
  unfold theta kdot
  simp only [RealTransc.pi_eq, Nat.cast_ofNat]
  rw [half_cast he]
  simp only [Int.cast_add, Int.cast_mul, Int.cast_sub, Int.cast_natCast]

/-- **the mirror of the code equals the explicit real-linear form** (every even `N`) -/
theorem ftScreen_eq_lin {N : ℕ} (hN : 0 < N) (he : N % 2 = 0) (r0 delta L0 l0 : ℝ) (a b : ℕ → ℕ → ℝ) (p q : ℕ) :
    ftScreen ℂ N r0 delta L0 l0 a b p q = ftScreenLin N r0 delta L0 l0 a b p q := by
  unfold ftScreen ftScreenLin
  rw [rePart_eq, ift2_ps_centred hN he, Complex.re_sum]
  simp only [sumTo_real]
  apply sum_congr rfl; intro i _
  rw [Complex.re_sum]
  apply sum_congr rfl; intro j _
  rw [Complex.mul_re, W_zpow_re, W_zpow_im, theta_eq he]
  unfold cnHi ampHi
  rw [ofParts_eq]
  simp only [RealTransc.cos_eq, RealTransc.sin_eq]
  unfold kdot
  ring

/-! ### explicit real-linear form: columns, orthogonality -/

theorem W_primitive {N : ℕ} (hN : 0 < N) : IsPrimitiveRoot (W N) N :=
  Complex.isPrimitiveRoot_exp N (by omega)

/-- complex orthogonality on the centred grid: `Σ_p W^{k (p − c)} = N` if `N ∣ k`, else `0` -/
theorem sum_W_centred {N : ℕ} (hN : 0 < N) (k : ℤ) :
    ∑ p ∈ range N, (W N) ^ (k * ((p : ℤ) - ctr N)) = if (N : ℤ) ∣ k then (N : ℂ) else 0 := by
  have hW : W N ≠ 0 := by unfold W; exact Complex.exp_ne_zero _
  have e : ∀ p : ℕ, (W N) ^ (k * ((p : ℤ) - ctr N)) = (W N) ^ (-(k * ctr N)) * (W N) ^ (k * (p : ℤ)) := by
    intro p; rw [← zpow_add₀ hW]; congr 1; ring
  simp only [e, ← mul_sum]
  rw [orth (W_primitive hN) hN]
  split_ifs with hd
  · have : (W N) ^ (-(k * ctr N)) = 1 := by
      apply ((W_primitive hN).zpow_eq_one_iff_dvd _).2
      exact Dvd.dvd.neg_right (Dvd.dvd.mul_right hd _)
    rw [this, one_mul]
  · rw [mul_zero]

theorem sum_cos_centred {N : ℕ} (hN : 0 < N) (k : ℤ) :
    ∑ p ∈ range N, Real.cos (2 * Real.pi * ((k * ((p : ℤ) - ctr N) : ℤ) : ℝ) / N)
      = if (N : ℤ) ∣ k then (N : ℝ) else 0 := by
  have h := congrArg Complex.re (sum_W_centred hN k)
  rw [Complex.re_sum] at h
  simp only [W_zpow_re] at h
  rw [h]; split_ifs <;> simp

theorem sum_sin_centred {N : ℕ} (hN : 0 < N) (k : ℤ) :
    ∑ p ∈ range N, Real.sin (2 * Real.pi * ((k * ((p : ℤ) - ctr N) : ℤ) : ℝ) / N) = 0 := by
  have h := congrArg Complex.im (sum_W_centred hN k)
  rw [Complex.im_sum] at h
  simp only [W_zpow_im] at h
  rw [h]; split_ifs <;> simp

theorem dvd_centred_iff {N i : ℕ} (hi : i < N) : (N : ℤ) ∣ ((i : ℤ) - ctr N) ↔ i = N / 2 := by
  constructor
  · intro hd
    have h0 : (i : ℤ) - ctr N = 0 := by
      apply Int.eq_zero_of_abs_lt_dvd hd
      rw [abs_lt]; constructor <;> (simp only [ctr]; omega)
    simp only [ctr] at h0; omega
  · intro h; subst h; simp [ctr]

/-- the spatial sum of one Fourier mode over the whole `N × N` grid vanishes unless it is the DC sample -/
theorem sum2_W {N : ℕ} (hN : 0 < N) {i j : ℕ} (hi : i < N) (hj : j < N) :
    ∑ p ∈ range N, ∑ q ∈ range N, (W N) ^ (kdot N i j p q)
      = if i = N / 2 ∧ j = N / 2 then (N : ℂ) * N else 0 := by
  have hW : W N ≠ 0 := by unfold W; exact Complex.exp_ne_zero _
  have e : ∀ p q : ℕ, (W N) ^ (kdot N i j p q)
      = (W N) ^ (((i : ℤ) - ctr N) * ((p : ℤ) - ctr N)) * (W N) ^ (((j : ℤ) - ctr N) * ((q : ℤ) - ctr N)) := by
    intro p q; unfold kdot; rw [zpow_add₀ hW]
  simp only [e, ← mul_sum, ← sum_mul]
  rw [sum_W_centred hN, sum_W_centred hN]
  simp only [dvd_centred_iff hi, dvd_centred_iff hj]
  by_cases h1 : i = N / 2 <;> by_cases h2 : j = N / 2 <;> simp [h1, h2]

theorem sum2_cos {N : ℕ} (hN : 0 < N) {i j : ℕ} (hi : i < N) (hj : j < N) :
    ∑ p ∈ range N, ∑ q ∈ range N, Real.cos (2 * Real.pi * ((kdot N i j p q : ℤ) : ℝ) / N)
      = if i = N / 2 ∧ j = N / 2 then (N : ℝ) * N else 0 := by
  have h := congrArg Complex.re (sum2_W hN hi hj)
  simp only [Complex.re_sum, W_zpow_re] at h
  rw [h]; split_ifs <;> simp

theorem sum2_sin {N : ℕ} (hN : 0 < N) {i j : ℕ} (hi : i < N) (hj : j < N) :
    ∑ p ∈ range N, ∑ q ∈ range N, Real.sin (2 * Real.pi * ((kdot N i j p q : ℤ) : ℝ) / N) = 0 := by
  have h := congrArg Complex.im (sum2_W hN hi hj)
  simp only [Complex.im_sum, W_zpow_im] at h
  rw [h]; split_ifs <;> simp

/-! ### sub-harmonic part: real form -/

theorem cisC_re (t : ℝ) : (cisC ℂ t).re = Real.cos t := by
  unfold cisC; rw [ofParts_eq]; simp only [RealTransc.cos_eq]
theorem cisC_im (t : ℝ) : (cisC ℂ t).im = Real.sin t := by
  unfold cisC; rw [ofParts_eq]; simp only [RealTransc.sin_eq]

/-- real part of the three accumulated `SH` arrays = the explicit real-linear form (any `N`) -/
theorem loRaw_re (N : ℕ) (r0 delta L0 l0 : ℝ) (la lb : ℕ → ℕ → ℕ → ℝ) (u v : ℕ) :
    (loRawC ℂ N r0 delta L0 l0 la lb u v).re = loRawLin N r0 delta L0 l0 la lb u v := by
  unfold loRawC loRawLin
  simp only [sumTo_eq_sum, Complex.re_sum]
  apply sum_congr rfl; intro pp _; apply sum_congr rfl; intro i _; apply sum_congr rfl; intro j _
  rw [Complex.mul_re, cisC_re, cisC_im]
  unfold cnLo ampLo
  rw [ofParts_eq]
  simp only [RealTransc.cos_eq, RealTransc.sin_eq]
  ring

theorem loScreen_eq_lin (N : ℕ) (r0 delta L0 l0 : ℝ) (la lb : ℕ → ℕ → ℕ → ℝ) (u v : ℕ) :
    loScreen ℂ N r0 delta L0 l0 la lb u v = loScreenLin N r0 delta L0 l0 la lb u v := by
  unfold loScreen loScreenLin
  simp only [rePart_eq, loRaw_re]

end

end AoVerif.Screen
