/- the Python-style accumulation loop `sumTo` is the `Finset` sum (light imports) -/
import Mathlib.Algebra.BigOperators.Intervals
import Mathlib.Tactic.NormNum.OfScientific
import Mathlib.Tactic.NormNum.Basic
import Mathlib.Data.NNRat.Defs
import AoVerif.Model.Scalar

namespace AoVerif

theorem sumToFrom_eq_sum {K : Type} [AddCommMonoid K] (z : K) (n : ℕ) (f : ℕ → K) :
    sumToFrom z n f = z + ∑ i ∈ Finset.range n, f i := by
  unfold sumToFrom
  induction n with
  | zero => simp
  | succ n ih => rw [List.range_succ, List.foldl_append, ih, Finset.sum_range_succ]; simp [add_assoc]

theorem zero_lit {K : Type} [DivisionRing K] : (0.0 : K) = 0 := by
  show (OfScientific.ofScientific 0 true 1 : K) = 0
  rw [NNRatCast.ofScientific_eq_ite]
  have : NNRat.divNat 0 10 = 0 := by apply NNRat.coe_injective; simp
  simp only [if_true, pow_one, this, NNRat.cast_zero]

theorem sumTo_eq_sum {K : Type} [DivisionRing K] (n : ℕ) (f : ℕ → K) :
    sumTo n f = ∑ i ∈ Finset.range n, f i := by
  unfold sumTo; rw [sumToFrom_eq_sum, zero_lit, zero_add]

end AoVerif
