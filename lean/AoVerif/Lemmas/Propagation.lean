/-
The model of `Model/Propagation.lean` read over `K = ℝ`, `C = ℂ`: the `CField ℝ ℂ` instance (`cis θ = e^{iθ}`),
`idx N (tabulate N f) a b = f a b`, and the tabulation-free form of each propagator.
-/
import Mathlib.Analysis.SpecialFunctions.Trigonometric.Basic
import Mathlib.Analysis.SpecialFunctions.Complex.Circle
import AoVerif.Model.Propagation
import AoVerif.Lemmas.RealScalar
import AoVerif.Lemmas.DFT2

namespace AoVerif.Propagation
open AoVerif AoVerif.Fourier Finset

/-- the complex numbers over the reals: `ofReal` the coercion, `cis θ = exp(θ i)`, `i = Complex.I` -/
noncomputable instance : CField ℝ ℂ where
  ofReal := fun x => (x : ℂ)
  cis := fun t => Complex.exp ((t : ℂ) * Complex.I)
  i := Complex.I

theorem ofReal_def (x : ℝ) : (CField.ofReal x : ℂ) = (x : ℂ) := rfl
theorem cis_def (t : ℝ) : (CField.cis t : ℂ) = Complex.exp ((t : ℂ) * Complex.I) := rfl
theorem i_def : (CField.i (K := ℝ) : ℂ) = Complex.I := rfl

theorem normSq_cis (t : ℝ) : Complex.normSq (CField.cis t : ℂ) = 1 := by
  rw [cis_def, Complex.normSq_eq_norm_sq, Complex.norm_exp_ofReal_mul_I]; norm_num

theorem cis_add (s t : ℝ) : (CField.cis (s + t) : ℂ) = CField.cis s * CField.cis t := by
  simp only [cis_def]; rw [← Complex.exp_add]; congr 1; push_cast; ring

theorem cis_zero : (CField.cis (0:ℝ) : ℂ) = 1 := by simp [cis_def]

theorem cis_ne_zero (t : ℝ) : (CField.cis t : ℂ) ≠ 0 := by rw [cis_def]; exact Complex.exp_ne_zero _

theorem cis_neg_mul (t : ℝ) : (CField.cis (-t) : ℂ) * CField.cis t = 1 := by
  rw [← cis_add]; simp [cis_zero]

/-- `e^{2πi k} = 1` for integer `k` -/
theorem cis_two_pi_int (k : ℤ) : (CField.cis (2 * Real.pi * (k:ℝ)) : ℂ) = 1 := by
  rw [cis_def]
  have : ((2 * Real.pi * (k:ℝ) : ℝ) : ℂ) * Complex.I = (k:ℂ) * (2 * Real.pi * Complex.I) := by push_cast; ring
  rw [this, Complex.exp_int_mul_two_pi_mul_I]

theorem isZero_iff (z : ℝ) : isZero z ↔ z = 0 := by
  unfold isZero; simp only [Nat.cast_zero]; exact ⟨fun h => le_antisymm h.1 h.2, fun h => by simp [h]⟩

section tab
variable {C : Type} [Inhabited C]

theorem idx_tabulate (N : ℕ) (f : ℕ → ℕ → C) {a b : ℕ} (ha : a < N) (hb : b < N) :
    idx N (tabulate N f) a b = f a b := by
  unfold idx tabulate
  have hlt : a * N + b < N * N := by
    calc a * N + b < a * N + N := by omega
      _ = (a + 1) * N := by ring
      _ ≤ N * N := Nat.mul_le_mul_right N ha
  have hN : 0 < N := by omega
  have h1 : (a * N + b) / N = a := by
    rw [Nat.add_comm, Nat.add_mul_div_right _ _ hN, Nat.div_eq_of_lt hb, Nat.zero_add]
  have h2 : (a * N + b) % N = b := by
    rw [Nat.add_comm, Nat.add_mul_mod_self_right, Nat.mod_eq_of_lt hb]
  simp [hlt, h1, h2]

attribute [local irreducible] tabulate idx

end tab

/-! ### the model at ℝ / ℂ without the materialisation steps -/
section spec
set_option linter.unusedSectionVars false
variable [Transc ℝ] [RealTransc]

theorem mul_left_congr {a b c : ℂ} (h : b = c) : a * b = a * c := by rw [h]
theorem mul_right_congr {a b c : ℂ} (h : b = c) : b * a = c * a := by rw [h]

theorem ft2'_congr (N : ℕ) (w : ℕ → ℂ) (d : ℝ) {x y : ℕ → ℕ → ℂ} (h : ∀ a < N, ∀ b < N, x a b = y a b) (a b : ℕ) :
    ft2' N w d x a b = ft2' N w d y a b := DFT2.ft2_congr _ _ h a b

theorem ift2'_congr (N : ℕ) (w : ℕ → ℂ) (d : ℝ) {x y : ℕ → ℕ → ℂ} (h : ∀ a < N, ∀ b < N, x a b = y a b) (a b : ℕ) :
    ift2' N w d x a b = ift2' N w d y a b := DFT2.ift2_congr _ _ _ _ h a b

theorem angularSpectrum_zero (N : ℕ) (w wi : ℕ → ℂ) (U : ℕ → ℕ → ℂ) (wvl d1 d2 : ℝ) {a b : ℕ} (ha : a < N) (hb : b < N) :
    angularSpectrum N w wi U wvl d1 d2 0 a b = U a b := by
  unfold angularSpectrum angularSpectrumA
  rw [if_pos ((isZero_iff 0).2 rfl), idx_tabulate N _ ha hb]

theorem angularSpectrum_eq (N : ℕ) (w wi : ℕ → ℂ) (U : ℕ → ℕ → ℂ) (wvl d1 d2 z : ℝ) (hz : z ≠ 0)
    {a b : ℕ} (ha : a < N) (hb : b < N) :
    angularSpectrum N w wi U wvl d1 d2 z a b
      = (CField.cis (asTheta3 N wvl d1 d2 z a b) : ℂ) * ift2' N wi (1 / ((N:ℝ) * d1))
          (fun a b => (CField.cis (asTheta2 N wvl d1 d2 z a b) : ℂ) * ft2' N w d1
            (fun a b => (CField.cis (asTheta1 N wvl d1 d2 z a b) : ℂ) * U a b / ((d2 / d1 : ℝ) : ℂ)) a b) a b := by
  unfold angularSpectrum angularSpectrumA
  rw [if_neg (fun h => hz ((isZero_iff z).1 h))]
  simp only [Nat.cast_one]
  rw [idx_tabulate N _ ha hb]
  apply mul_left_congr
  apply ift2'_congr
  intro a' ha' b' hb'
  rw [idx_tabulate N _ ha' hb']
  apply mul_left_congr
  apply ft2'_congr
  intro a'' ha'' b'' hb''
  rw [idx_tabulate N _ ha'' hb'']
  rfl

theorem oneStepFresnel_eq (N : ℕ) (w : ℕ → ℂ) (U : ℕ → ℕ → ℂ) (wvl d1 z : ℝ) {a b : ℕ} (ha : a < N) (hb : b < N) :
    oneStepFresnel N w U wvl d1 z a b
      = fresnelAmp wvl z * (CField.cis (quadTheta N wvl (wvl * z / ((N:ℝ) * d1)) z a b) : ℂ)
          * ft2' N w d1 (fun a b => U a b * (CField.cis (quadTheta N wvl d1 z a b) : ℂ)) a b := by
  unfold oneStepFresnel oneStepFresnelA
  simp only []
  rw [idx_tabulate N _ ha hb]
  apply mul_left_congr
  apply ft2'_congr
  intro a' ha' b' hb'
  rw [idx_tabulate N _ ha' hb']

theorem lensAgainst_eq (N : ℕ) (w : ℕ → ℂ) (U : ℕ → ℕ → ℂ) (wvl d1 f : ℝ) {a b : ℕ} (ha : a < N) (hb : b < N) :
    lensAgainst N w U wvl d1 f a b
      = (CField.cis (lensTheta N wvl d1 f a b) : ℂ) / ((CField.i (K := ℝ) : ℂ) * (wvl:ℂ) * (f:ℂ)) * ft2' N w d1 U a b := by
  unfold lensAgainst lensAgainstA
  rw [idx_tabulate N _ ha hb]
  rfl

/-- the pinned two-step propagator is literally two chained one-step propagators: first over `Dz1` from spacing `d1`,
then over `Dz2 = z - Dz1` from spacing `d1a = wvl |Dz1| / (N d1)`, except that the last quadratic factor is evaluated on the
requested spacing `d2` instead of the second step's own output spacing `wvl Dz2 / (N d1a)` (they agree up to sign, and only
squares of coordinates enter) -/
theorem twoStepFresnel_pinned_eq (N : ℕ) (w : ℕ → ℂ) (U : ℕ → ℕ → ℂ) (wvl d1 d2 z : ℝ) {a b : ℕ} (ha : a < N) (hb : b < N) :
    twoStepFresnel_pinned N w U wvl d1 d2 z a b
      = fresnelAmp wvl (z - twoStepDz1 d1 d2 z) * (CField.cis (quadTheta N wvl d2 (z - twoStepDz1 d1 d2 z) a b) : ℂ)
          * ft2' N w (twoStepD1a N wvl d1 d2 z) (fun a b =>
              (fresnelAmp wvl (twoStepDz1 d1 d2 z)
                * (CField.cis (quadTheta N wvl (twoStepD1a N wvl d1 d2 z) (twoStepDz1 d1 d2 z) a b) : ℂ)
                * ft2' N w d1 (fun a b => U a b * (CField.cis (quadTheta N wvl d1 (twoStepDz1 d1 d2 z) a b) : ℂ)) a b)
              * (CField.cis (quadTheta N wvl (twoStepD1a N wvl d1 d2 z) (z - twoStepDz1 d1 d2 z) a b) : ℂ)) a b := by
  unfold twoStepFresnel_pinned twoStepFresnel_pinnedA
  simp only []
  rw [idx_tabulate N _ ha hb]
  apply mul_left_congr
  apply ft2'_congr
  intro a' ha' b' hb'
  rw [idx_tabulate N _ ha' hb', idx_tabulate N _ ha' hb']
  apply mul_right_congr
  apply mul_left_congr
  apply ft2'_congr
  intro a'' ha'' b'' hb''
  rw [idx_tabulate N _ ha'' hb'']

theorem twoStepFresnel_eq (N : ℕ) (w : ℕ → ℂ) (U : ℕ → ℕ → ℂ) (wvl d1 d2 z : ℝ) {a b : ℕ} (ha : a < N) (hb : b < N) :
    twoStepFresnel N w U wvl d1 d2 z a b
      = if twoStepDz1 d1 d2 z * (z - twoStepDz1 d1 d2 z) < 0
          then twoStepFresnel_pinned N w U wvl d1 d2 z (reflIdx N a) (reflIdx N b)
          else twoStepFresnel_pinned N w U wvl d1 d2 z a b := by
  unfold twoStepFresnel twoStepFresnelA
  simp only [Nat.cast_zero]
  split_ifs with h
  · rw [idx_tabulate N _ ha hb]; rfl
  · rfl

/-! ### linear maps on fields (for the linearity theorems; any kernel table) -/

/-- `T` is ℂ-linear, pointwise at every output index -/
def IsLin (T : (ℕ → ℕ → ℂ) → ℕ → ℕ → ℂ) : Prop :=
  ∀ (α β : ℂ) (x y : ℕ → ℕ → ℂ) (a b : ℕ), T (fun a b => α * x a b + β * y a b) a b = α * T x a b + β * T y a b

theorem IsLin.comp {S T : (ℕ → ℕ → ℂ) → ℕ → ℕ → ℂ} (hS : IsLin S) (hT : IsLin T) : IsLin (fun x => S (T x)) := by
  intro α β x y a b
  have : T (fun a b => α * x a b + β * y a b) = fun a b => α * T x a b + β * T y a b := by
    funext a b; exact hT α β x y a b
  show S (T _) a b = _
  rw [this]; exact hS α β (T x) (T y) a b

theorem isLin_mul_left (g : ℕ → ℕ → ℂ) : IsLin (fun x a b => g a b * x a b) := by
  intro α β x y a b; ring
theorem isLin_mul_right (g : ℕ → ℕ → ℂ) : IsLin (fun x a b => x a b * g a b) := by
  intro α β x y a b; ring
theorem isLin_mul_div (g : ℕ → ℕ → ℂ) (m : ℂ) : IsLin (fun x a b => g a b * x a b / m) := by
  intro α β x y a b; ring
theorem isLin_ft2' (N : ℕ) (w : ℕ → ℂ) (d : ℝ) : IsLin (ft2' N w d) := by
  intro α β x y a b; exact DFT2.ft2_lin _ _ _ _ _ _ _ _
theorem isLin_ift2' (N : ℕ) (w : ℕ → ℂ) (d : ℝ) : IsLin (ift2' N w d) := by
  intro α β x y a b; exact DFT2.ift2_lin _ _ _ _ _ _ _ _ _ _
theorem isLin_reflect (N : ℕ) : IsLin (reflect N) := by
  intro α β x y a b; rfl

/-! ### power bookkeeping -/
section power
variable {N : ℕ} {ζ : ℂ}

theorem ft2'_power (hζ : IsPrimitiveRoot ζ N) (hN : 0 < N) (d : ℝ) (x : ℕ → ℕ → ℂ) :
    ∑ a ∈ range N, ∑ b ∈ range N, Complex.normSq (ft2' N (fun m => ζ ^ m) d x a b)
      = (N:ℝ) ^ 2 * d ^ 4 * ∑ a ∈ range N, ∑ b ∈ range N, Complex.normSq (x a b) :=
  DFT2.ft2_normSq_sum hζ hN d x

theorem ift2'_power (hζ : IsPrimitiveRoot ζ N) (hN : 0 < N) (df : ℝ) (X : ℕ → ℕ → ℂ) :
    ∑ a ∈ range N, ∑ b ∈ range N, Complex.normSq (ift2' N (fun m => ζ⁻¹ ^ m) df X a b)
      = (N:ℝ) ^ 2 * df ^ 4 * ∑ a ∈ range N, ∑ b ∈ range N, Complex.normSq (X a b) := by
  have := DFT2.ift2_normSq_sum hζ hN df X
  unfold ift2'
  simp only [ofReal_def]
  push_cast
  exact this

theorem normSq_fresnelAmp (wvl z : ℝ) : Complex.normSq (fresnelAmp wvl z : ℂ) = 1 / (wvl * z) ^ 2 := by
  unfold fresnelAmp
  simp only [ofReal_def, i_def, Nat.cast_one, Complex.ofReal_one]
  rw [Complex.normSq_div, Complex.normSq_mul, Complex.normSq_mul, Complex.normSq_I, Complex.normSq_ofReal,
    Complex.normSq_ofReal, Complex.normSq_one]
  ring

/-- `reflIdx` on an even grid is `(N − a) % N` -/
theorem reflIdx_even {N : ℕ} (hev : Even N) (a : ℕ) : reflIdx N a = (N - a) % N := by
  obtain ⟨c, rfl⟩ := hev
  unfold reflIdx
  have : 2 * ((c + c) / 2) = c + c := by omega
  rw [this]

/-- `reflIdx` on an odd grid is `N − 1 − a` -/
theorem reflIdx_odd {N : ℕ} (hodd : ¬ Even N) {a : ℕ} (ha : a < N) : reflIdx N a = N - 1 - a := by
  have h2 : 2 * (N / 2) = N - 1 := by
    have := Nat.not_even_iff_odd.mp hodd
    obtain ⟨c, rfl⟩ := this
    omega
  unfold reflIdx
  rw [h2, Nat.mod_eq_of_lt (by omega)]

theorem reflIdx_lt {N : ℕ} (hN : 0 < N) (a : ℕ) : reflIdx N a < N := Nat.mod_lt _ hN

theorem reflIdx_invol {N : ℕ} {a : ℕ} (ha : a < N) : reflIdx N (reflIdx N a) = a := by
  by_cases hev : Even N
  · rw [reflIdx_even hev, reflIdx_even hev]
    rcases Nat.eq_zero_or_pos a with h0 | hpos
    · subst h0; simp
    · rw [Nat.mod_eq_of_lt (by omega : N - a < N)]
      have : N - (N - a) = a := by omega
      rw [this, Nat.mod_eq_of_lt ha]
  · rw [reflIdx_odd hev ha, reflIdx_odd hev (by omega)]
    omega

/-- the point reflection permutes `range N` (every `N`) -/
theorem sum_reflect {M : Type*} [AddCommMonoid M] (N : ℕ) (f : ℕ → M) :
    ∑ a ∈ range N, f (reflIdx N a) = ∑ a ∈ range N, f a := by
  have inv : ∀ a ∈ range N, reflIdx N (reflIdx N a) = a := fun a ha => reflIdx_invol (mem_range.mp ha)
  have mem : ∀ a ∈ range N, reflIdx N a ∈ range N := by
    intro a ha
    have ha' := mem_range.mp ha
    exact mem_range.mpr (reflIdx_lt (by omega) a)
  exact sum_nbij' (fun a => reflIdx N a) (fun a => reflIdx N a) mem mem inv inv (fun a _ => rfl)

end power

/-! ### the branch structure of `twoStepFresnel` over ℝ -/

theorem twoStepDz1_of_ne (d1 d2 z : ℝ) (h : 1 - d2 / d1 ≠ 0) : twoStepDz1 d1 d2 z = z / (1 - d2 / d1) := by
  unfold twoStepDz1
  simp only [Nat.cast_one]
  rw [if_neg (fun hh => h ((isZero_iff _).1 hh))]

theorem twoStepDz1_of_eq (d1 d2 z : ℝ) (h : 1 - d2 / d1 = 0) : twoStepDz1 d1 d2 z = z / (1 + d2 / d1) := by
  unfold twoStepDz1
  simp only [Nat.cast_one]
  rw [if_pos ((isZero_iff _).2 h)]

/-- spacing algebra of the two-step method: `Dz2² d1² = Dz1² d2²` (for `m ≠ 1`, `Dz2 = -m Dz1`; for `m = 1`, `Dz1 = Dz2 = z/2`),
and neither partial distance vanishes -/
theorem twoStep_distances (d1 d2 z : ℝ) (hd1 : d1 ≠ 0) (hd2 : d2 ≠ 0) (hz : z ≠ 0) :
    twoStepDz1 d1 d2 z ≠ 0 ∧ z - twoStepDz1 d1 d2 z ≠ 0 ∧
      (z - twoStepDz1 d1 d2 z) ^ 2 * d1 ^ 2 = (twoStepDz1 d1 d2 z) ^ 2 * d2 ^ 2 := by
  by_cases h : 1 - d2 / d1 = 0
  · rw [twoStepDz1_of_eq _ _ _ h]
    have hm : d2 / d1 = 1 := by linarith
    have hd : d2 = d1 := by field_simp at hm; exact hm
    rw [hm, hd]
    refine ⟨by positivity, ?_, by ring⟩
    intro h0; apply hz; linarith
  · rw [twoStepDz1_of_ne _ _ _ h]
    have h' : d1 - d2 ≠ 0 := by
      intro h0; apply h; field_simp; linarith
    have e : z / (1 - d2 / d1) = z * d1 / (d1 - d2) := by field_simp
    have e2 : z - z * d1 / (d1 - d2) = -(z * d2) / (d1 - d2) := by field_simp; ring
    rw [e, e2]
    refine ⟨div_ne_zero (mul_ne_zero hz hd1) h', div_ne_zero (neg_ne_zero.2 (mul_ne_zero hz hd2)) h', ?_⟩
    field_simp

/-! ### inverse pair and centred-sum form of the primed transforms -/
section inverse
variable {N : ℕ} {ζ : ℂ}

theorem ft2'_eq_cdft2 (hζ : IsPrimitiveRoot ζ N) (hN : 0 < N) (d : ℝ) (x : ℕ → ℕ → ℂ) (a b : ℕ) :
    ft2' N (fun m => ζ ^ m) d x a b = DFT2.cdft2 N ζ x a b * ((d:ℂ) * (d:ℂ)) :=
  DFT2.ft2_eq hζ hN _ x a b

theorem ift2'_eq_cdft2 (hζ : IsPrimitiveRoot ζ N) (hN : 0 < N) (df : ℝ) (X : ℕ → ℕ → ℂ) (a b : ℕ) :
    ift2' N (fun m => ζ⁻¹ ^ m) df X a b = DFT2.cdft2 N ζ⁻¹ X a b * ((df:ℂ) * (df:ℂ)) := by
  have hNC : (N:ℂ) ≠ 0 := by exact_mod_cast (Nat.pos_iff_ne_zero.mp hN)
  unfold ift2'
  rw [DFT2.ift2_eq hζ hN]
  simp only [ofReal_def]
  push_cast
  have : (1 / (N:ℂ)) * (N:ℂ) * (df:ℂ) = (df:ℂ) := by field_simp
  rw [this]

theorem ift2'_ft2' (hζ : IsPrimitiveRoot ζ N) (hN : 0 < N) (d df : ℝ) (h : (N:ℝ) * d * df = 1) (x : ℕ → ℕ → ℂ)
    {a b : ℕ} (ha : a < N) (hb : b < N) :
    ift2' N (fun m => ζ⁻¹ ^ m) df (ft2' N (fun m => ζ ^ m) d x) a b = x a b := by
  have h' : (N:ℂ) * (d:ℂ) * (df:ℂ) = 1 := by exact_mod_cast h
  rw [ift2'_eq_cdft2 hζ hN]
  have : DFT2.cdft2 N ζ⁻¹ (ft2' N (fun m => ζ ^ m) d x) a b
      = DFT2.cdft2 N ζ⁻¹ (fun a b => DFT2.cdft2 N ζ x a b * ((d:ℂ) * (d:ℂ))) a b :=
    DFT2.cdft2_congr (fun a' _ b' _ => ft2'_eq_cdft2 hζ hN d x a' b') a b
  rw [this, DFT2.cdft2_mul_const, DFT2.cdft2_inv hζ hN x ha hb]
  linear_combination (x a b * ((N:ℂ) * (d:ℂ) * (df:ℂ) + 1)) * h'

theorem ft2'_ift2' (hζ : IsPrimitiveRoot ζ N) (hN : 0 < N) (d df : ℝ) (h : (N:ℝ) * d * df = 1) (X : ℕ → ℕ → ℂ)
    {a b : ℕ} (ha : a < N) (hb : b < N) :
    ft2' N (fun m => ζ ^ m) d (ift2' N (fun m => ζ⁻¹ ^ m) df X) a b = X a b := by
  have h' : (N:ℂ) * (d:ℂ) * (df:ℂ) = 1 := by exact_mod_cast h
  rw [ft2'_eq_cdft2 hζ hN]
  have : DFT2.cdft2 N ζ (ift2' N (fun m => ζ⁻¹ ^ m) df X) a b
      = DFT2.cdft2 N ζ (fun a b => DFT2.cdft2 N ζ⁻¹ X a b * ((df:ℂ) * (df:ℂ))) a b :=
    DFT2.cdft2_congr (fun a' _ b' _ => ift2'_eq_cdft2 hζ hN df X a' b') a b
  have hinv := DFT2.cdft2_inv hζ.inv hN X ha hb
  rw [inv_inv] at hinv
  rw [this, DFT2.cdft2_mul_const, hinv]
  linear_combination (X a b * ((N:ℂ) * (d:ℂ) * (df:ℂ) + 1)) * h'

end inverse

/-! ### the FFT's own root `e^{-2πi/N}` -/

/-- `ζ = e^{-2πi/N}`, the twiddle root of `numpy.fft.fft` -/
noncomputable def fftRoot (N : ℕ) : ℂ := (Complex.exp (2 * Real.pi * Complex.I / N))⁻¹

theorem fftRoot_primitive {N : ℕ} (hN : 0 < N) : IsPrimitiveRoot (fftRoot N) N :=
  Props.C09.fft_root_primitive hN

/-- `ζ^j = e^{-2πi j/N}` for every integer `j` -/
theorem fftRoot_zpow (N : ℕ) (j : ℤ) : (fftRoot N) ^ j = (CField.cis (-(2 * Real.pi * (j:ℝ) / N)) : ℂ) := by
  unfold fftRoot
  rw [cis_def, ← Complex.exp_neg, ← Complex.exp_int_mul]
  congr 1
  push_cast
  ring

theorem half_cast {N : ℕ} (hev : Even N) : ((N / 2 : ℕ) : ℝ) = (N:ℝ) / 2 := by
  obtain ⟨c, rfl⟩ := hev
  have : (c + c) / 2 = c := by omega
  rw [this]; push_cast; ring

end spec
end AoVerif.Propagation
