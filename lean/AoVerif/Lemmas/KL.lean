/-
Helper lemmas for C13 (Karhunen–Loève): list glue (expansion / pairing), piston-filter sums.
-/
import Mathlib.Algebra.BigOperators.Intervals
import Mathlib.Tactic.Ring
import Mathlib.Tactic.Linarith
import Mathlib.Tactic.FieldSimp
import Mathlib.Tactic.NormNum
import Mathlib.Tactic.LinearCombination
import Mathlib.Analysis.Real.Sqrt
import AoVerif.Lemmas.RealScalar
import AoVerif.Lemmas.TrigGrid
import AoVerif.Model.KL

namespace AoVerif.KL
open Finset

/-! ### the pairing loop -/

theorem mem_expand (nr : ℕ) (l : List ℕ) (y : ℕ) : y ∈ expand nr l ↔ y ∈ l := by
  induction l with
  | nil => simp [expand]
  | cons x xs ih =>
    unfold expand
    split <;> simp [ih]

theorem expand_pairwise {R : ℕ → ℕ → Prop} (hrefl : ∀ x, R x x) (nr : ℕ) {l : List ℕ}
    (h : l.Pairwise R) : (expand nr l).Pairwise R := by
  induction l with
  | nil => simp [expand]
  | cons x xs ih =>
    rw [List.pairwise_cons] at h
    have hx : ∀ y ∈ expand nr xs, R x y := fun y hy => h.1 y ((mem_expand nr xs y).1 hy)
    unfold expand
    split
    · exact List.pairwise_cons.2 ⟨hx, ih h.2⟩
    · refine List.pairwise_cons.2 ⟨?_, List.pairwise_cons.2 ⟨hx, ih h.2⟩⟩
      intro y hy
      rcases List.mem_cons.1 hy with rfl | hy
      · exact hrefl _
      · exact hx y hy

theorem oind_pairwise {R : ℕ → ℕ → Prop} (hrefl : ∀ x, R x x) {nr nfunc : ℕ} {a : List ℕ}
    (h : a.Pairwise R) : (oind nr nfunc a).Pairwise R := by
  unfold oind
  exact (expand_pairwise hrefl nr (h.sublist (List.take_sublist _ _))).sublist (List.take_sublist _ _)

theorem expand_pair (nr : ℕ) (a : List ℕ) (x : ℕ) (hx : x ∈ a) (hnr : nr ≤ x) :
    ∃ i, (expand nr a)[i]? = some x ∧ (expand nr a)[i+1]? = some x := by
  induction a with
  | nil => simp at hx
  | cons y ys ih =>
    rcases List.mem_cons.1 hx with rfl | hx
    · refine ⟨0, ?_, ?_⟩ <;> · unfold expand; rw [if_neg (by omega)]; simp
    · obtain ⟨i, h1, h2⟩ := ih hx
      unfold expand
      split
      · exact ⟨i + 1, by simpa using h1, by simpa using h2⟩
      · exact ⟨i + 2, by simpa using h1, by simpa using h2⟩

/-- position bookkeeping of the pairing loop: when the argsort output has no repeated index, the same flat index can
only be met at two positions of the expansion if these are the two consecutive copies of a doubled (order ≥ 1) index -/
theorem expand_same_index (nr : ℕ) (l : List ℕ) (hl : l.Nodup) :
    ∀ i j x, i < j → (expand nr l)[i]? = some x → (expand nr l)[j]? = some x → j = i + 1 ∧ nr ≤ x := by
  induction l with
  | nil => intro i j x _ h; simp [expand] at h
  | cons z zs ih =>
    rw [List.nodup_cons] at hl
    have hmem : ∀ (m y : ℕ), (expand nr zs)[m]? = some y → y ≠ z := by
      intro m y h hy
      exact hl.1 ((mem_expand nr zs z).1 (hy ▸ List.mem_of_getElem? h))
    intro i j x hij hi hj
    unfold expand at hi hj
    by_cases hz : z < nr
    · rw [if_pos hz] at hi hj
      rcases j with _ | j
      · omega
      rcases i with _ | i
      · simp only [List.getElem?_cons_zero, Option.some.injEq] at hi
        simp only [List.getElem?_cons_succ] at hj
        exact absurd hi.symm (hmem j x hj)
      · simp only [List.getElem?_cons_succ] at hi hj
        have := ih hl.2 i j x (by omega) hi hj
        omega
    · rw [if_neg hz] at hi hj
      rcases j with _ | j
      · omega
      rcases i with _ | i
      · simp only [List.getElem?_cons_zero, Option.some.injEq] at hi
        rcases j with _ | j
        · exact ⟨rfl, by omega⟩
        · simp only [List.getElem?_cons_succ] at hj
          exact absurd hi.symm (hmem j x hj)
      · rcases j with _ | j
        · omega
        rcases i with _ | i
        · simp only [List.getElem?_cons_succ, List.getElem?_cons_zero, Option.some.injEq] at hi hj
          exact absurd hi.symm (hmem j x hj)
        · simp only [List.getElem?_cons_succ] at hi hj
          have := ih hl.2 i j x (by omega) hi hj
          omega

/-- the two consecutive copies of a doubled index get different azimuthal indices (`2t` and `2t-1` in some order) -/
theorem oordAt_succ_ne (nr i x : ℕ) (hnr : 0 < nr) (hx : nr ≤ x) : oordAt nr i x ≠ oordAt nr (i + 1) x := by
  have h1 : 1 ≤ x / nr := (Nat.le_div_iff_mul_le hnr).2 (by omega)
  unfold oordAt
  split_ifs <;> omega

/-- `oind` is a prefix of the expansion of the first `nfunc` argsort entries -/
theorem oind_getElem? (nr nfunc : ℕ) (a : List ℕ) (i x : ℕ) (h : (oind nr nfunc a)[i]? = some x) :
    (expand nr (a.take nfunc))[i]? = some x := by
  unfold oind at h
  rw [List.getElem?_take] at h
  split at h
  · exact h
  · simp at h


/-! ### the piston filter `piston_orth` -/

section piston
set_option linter.unusedSectionVars false
variable [Transc ℝ] [RealTransc]

/-- un-normalised column `j < nr-1` of `piston_orth` : `j+1` ones, then `-(j+1)`, then zeros -/
noncomputable def pw (j i : ℕ) : ℝ := if i ≤ j then 1 else if i = j + 1 then -((j:ℝ) + 1) else 0

theorem sum_pw (nr j : ℕ) (h : j + 1 < nr) (g : ℕ → ℝ) :
    ∑ i ∈ range nr, pw j i * g i = ∑ i ∈ range (j+1), g i - ((j:ℝ) + 1) * g (j+1) := by
  obtain ⟨k, rfl⟩ : ∃ k, nr = (j + 2) + k := ⟨nr - (j+2), by omega⟩
  rw [Finset.sum_range_add, Finset.sum_range_succ]
  have h1 : ∑ i ∈ range (j+1), pw j i * g i = ∑ i ∈ range (j+1), g i :=
    sum_congr rfl (fun i hi => by have := mem_range.1 hi; simp [pw, show i ≤ j by omega])
  have h2 : pw j (j+1) = -((j:ℝ) + 1) := by simp [pw]
  have h3 : ∑ x ∈ range k, pw j (j+2+x) * g (j+2+x) = 0 :=
    sum_eq_zero (fun x _ => by simp [pw, show ¬ (j+2+x ≤ j) by omega, show ¬ (j+2+x = j+1) by omega])
  rw [h1, h2, h3]; ring

theorem pistonOrth_low (nr i j : ℕ) (h : j + 1 < nr) :
    pistonOrth (K := ℝ) nr i j = pw j i / Real.sqrt (((j:ℝ) + 1) * ((j:ℝ) + 2)) := by
  real_unfold [pistonOrth, pw]
  rw [if_pos h]
  push_cast
  split_ifs <;> ring

theorem pistonOrth_last (nr i j : ℕ) (h : j + 1 = nr) :
    pistonOrth (K := ℝ) nr i j = 1 / Real.sqrt (nr:ℝ) := by
  real_unfold [pistonOrth]
  rw [if_neg (by omega), if_pos h]

theorem pw_lt {j j' i : ℕ} (h : j < j') (hi : i ≤ j + 1) : pw j' i = 1 := by
  simp [pw, show i ≤ j' by omega]

/-- every column but the last sums to zero -/
theorem pistonOrth_col_sum (nr j : ℕ) (h : j + 1 < nr) : ∑ i ∈ range nr, pistonOrth (K := ℝ) nr i j = 0 := by
  simp only [pistonOrth_low nr _ j h]
  rw [← Finset.sum_div]
  have := sum_pw nr j h (fun _ => 1)
  simp only [mul_one, sum_const, card_range, nsmul_eq_mul] at this
  rw [this]; push_cast; ring

/-- the columns of `piston_orth(nr)` are orthonormal, for every `nr` -/
theorem pistonOrth_orthonormal (nr j j' : ℕ) (hj : j < nr) (hj' : j' < nr) :
    ∑ i ∈ range nr, pistonOrth (K := ℝ) nr i j * pistonOrth (K := ℝ) nr i j' = if j = j' then 1 else 0 := by
  have hpos : ∀ m : ℕ, (0:ℝ) < ((m:ℝ) + 1) * ((m:ℝ) + 2) := fun m => by positivity
  have hnr : (0:ℝ) < nr := by exact_mod_cast (show 0 < nr by omega)
  -- low × low, j < j'
  have lowlow : ∀ a b : ℕ, a < b → b + 1 < nr →
      ∑ i ∈ range nr, pistonOrth (K := ℝ) nr i a * pistonOrth (K := ℝ) nr i b = 0 := by
    intro a b hab hb
    have ha : a + 1 < nr := by omega
    simp only [pistonOrth_low nr _ a ha, pistonOrth_low nr _ b hb, div_mul_div_comm]
    rw [← Finset.sum_div, sum_pw nr a ha (pw b)]
    have h1 : ∑ i ∈ range (a+1), pw b i = (a:ℝ) + 1 := by
      rw [sum_congr rfl (fun i hi => pw_lt hab (by have := mem_range.1 hi; omega))]
      simp
    rw [h1, pw_lt hab (le_refl _)]; ring
  have lowlast : ∀ a b : ℕ, a + 1 < nr → b + 1 = nr →
      ∑ i ∈ range nr, pistonOrth (K := ℝ) nr i a * pistonOrth (K := ℝ) nr i b = 0 := by
    intro a b ha hb
    simp only [pistonOrth_last nr _ b hb, ← Finset.sum_mul, pistonOrth_col_sum nr a ha, zero_mul]
  by_cases hjj : j = j'
  · subst hjj
    rw [if_pos rfl]
    by_cases hl : j + 1 < nr
    · simp only [pistonOrth_low nr _ j hl, div_mul_div_comm]
      rw [← Finset.sum_div, sum_pw nr j hl (pw j)]
      have h1 : ∑ i ∈ range (j+1), pw j i = (j:ℝ) + 1 := by
        rw [sum_congr rfl (fun i hi => by
          have := mem_range.1 hi; show pw j i = 1; simp [pw, show i ≤ j by omega])]
        simp
      have h2 : pw j (j+1) = -((j:ℝ) + 1) := by simp [pw]
      rw [h1, h2, Real.mul_self_sqrt (hpos j).le]
      field_simp; ring
    · have hl' : j + 1 = nr := by omega
      simp only [pistonOrth_last nr _ j hl', div_mul_div_comm, one_mul, Real.mul_self_sqrt hnr.le,
        sum_const, card_range, nsmul_eq_mul]
      field_simp
  · rw [if_neg hjj]
    rcases Nat.lt_or_gt_of_ne hjj with hlt | hgt
    · by_cases hl : j' + 1 < nr
      · exact lowlow j j' hlt hl
      · exact lowlast j j' (by omega) (by omega)
    · simp only [mul_comm (pistonOrth (K := ℝ) nr _ j)]
      by_cases hl : j + 1 < nr
      · exact lowlow j' j hgt hl
      · exact lowlast j' j (by omega) (by omega)

end piston


/-! ### azimuthal functions on the uniform grid -/

section azimuthal
set_option linter.unusedSectionVars false
variable [Transc ℝ] [RealTransc]
open TrigGrid

/-- azimuthal frequency of the function with azimuthal index `o` (`0`, then `cos θ, sin θ, cos 2θ, sin 2θ, …`) -/
def freq (o : ℕ) : ℕ := (o + 1) / 2

theorem azi_zero (nord npp b : ℕ) : azi (K := ℝ) nord npp 0 b = 1 := by
  real_unfold [azi]; simp

theorem azi_odd (nord npp k b : ℕ) (h : 2 * k + 1 < nord) :
    azi (K := ℝ) nord npp (2 * k + 1) b = Real.cos (((k + 1 : ℕ) : ℝ) * ang npp b) := by
  real_unfold [azi, ang]
  rw [if_neg (by omega), if_pos h, if_pos (by omega)]
  have : (2 * k + 1) / 2 + 1 = k + 1 := by omega
  rw [this]

theorem azi_even (nord npp k b : ℕ) (hk : 0 < k) (h : 2 * k < nord) :
    azi (K := ℝ) nord npp (2 * k) b = Real.sin ((k : ℝ) * ang npp b) := by
  real_unfold [azi, ang]
  rw [if_neg (by omega), if_pos h, if_neg (by omega)]
  have : (2 * k) / 2 = k := by omega
  rw [this]

/-- every azimuthal index is `0`, `2k+1` (cos (k+1)θ) or `2k`, `k>0` (sin kθ) -/
theorem index_cases (o : ℕ) : o = 0 ∨ (∃ k, o = 2 * k + 1 ∧ freq o = k + 1) ∨ (∃ k, 0 < k ∧ o = 2 * k ∧ freq o = k) := by
  unfold freq
  rcases Nat.even_or_odd' o with ⟨k, rfl | rfl⟩
  · by_cases hk : k = 0
    · left; omega
    · right; right; exact ⟨k, by omega, rfl, by omega⟩
  · right; left; exact ⟨k, rfl, by omega⟩

/-- discrete orthogonality of the azimuthal table: Gram matrix `diag(npp, npp/2, npp/2, …)` as long as the two
frequencies are resolved by the grid -/
theorem azi_gram (nord npp o o' : ℕ) (ho : o < nord) (ho' : o' < nord) (hres : freq o + freq o' < npp) :
    ∑ b ∈ range npp, azi (K := ℝ) nord npp o b * azi (K := ℝ) nord npp o' b
      = if o = o' then (if o = 0 then (npp:ℝ) else (npp:ℝ) / 2) else 0 := by
  have hn : 0 < npp := by omega
  rcases index_cases o with rfl | ⟨k, rfl, hf⟩ | ⟨k, hk, rfl, hf⟩ <;>
  rcases index_cases o' with rfl | ⟨k', rfl, hf'⟩ | ⟨k', hk', rfl, hf'⟩
  · simp [azi_zero]
  · simp only [azi_zero, azi_odd _ _ _ _ ho', one_mul]
    rw [sum_cos_nat npp (k'+1) (by omega) (by omega), if_neg (by omega)]
  · simp only [azi_zero, azi_even _ _ _ _ hk' ho', one_mul]
    rw [sum_sin_nat npp k' hn, if_neg (by omega)]
  · simp only [azi_zero, azi_odd _ _ _ _ ho, mul_one]
    rw [sum_cos_nat npp (k+1) (by omega) (by omega), if_neg (by omega)]
  · simp only [azi_odd _ _ _ _ ho, azi_odd _ _ _ _ ho']
    rw [sum_cos_cos npp (k+1) (k'+1) (by omega) (by omega) (by omega)]
    by_cases h : k = k'
    · subst h; simp
    · rw [if_neg (by omega), if_neg (by omega)]
  · simp only [azi_odd _ _ _ _ ho, azi_even _ _ _ _ hk' ho']
    rw [sum_cos_sin npp (k+1) k' hn, if_neg (by omega)]
  · simp only [azi_zero, azi_even _ _ _ _ hk ho, mul_one]
    rw [sum_sin_nat npp k hn, if_neg (by omega)]
  · simp only [azi_odd _ _ _ _ ho', azi_even _ _ _ _ hk ho]
    rw [sum_sin_cos npp k (k'+1) hn, if_neg (by omega)]
  · simp only [azi_even _ _ _ _ hk ho, azi_even _ _ _ _ hk' ho']
    rw [sum_sin_sin npp k k' hk hk' (by omega)]
    by_cases h : k = k'
    · subst h; rw [if_pos rfl, if_pos rfl, if_neg (by omega)]
    · rw [if_neg h, if_neg (by omega)]

/-- every azimuthal function but the constant one sums to zero over the grid -/
theorem azi_sum (nord npp o : ℕ) (ho : o < nord) (h0 : o ≠ 0) (hres : freq o < npp) :
    ∑ b ∈ range npp, azi (K := ℝ) nord npp o b = 0 := by
  have := azi_gram nord npp o 0 ho (by omega) (by simpa [freq] using hres)
  simpa [azi_zero, h0] using this

end azimuthal

/-! ### change of basis in quadratic forms -/

/-- reordering of a four-fold sum: the two outer indices change places with the two inner ones -/
theorem sum_comm4 (n m : ℕ) (T : ℕ → ℕ → ℕ → ℕ → ℝ) :
    ∑ a ∈ range n, ∑ a' ∈ range n, ∑ q ∈ range m, ∑ q' ∈ range m, T a a' q q'
      = ∑ q ∈ range m, ∑ q' ∈ range m, ∑ a ∈ range n, ∑ a' ∈ range n, T a a' q q' := by
  rw [sum_congr rfl (fun a _ => sum_comm), sum_comm]
  apply sum_congr rfl; intro q _
  rw [sum_congr rfl (fun a _ => sum_congr rfl (fun a' _ => rfl)), sum_congr rfl (fun a _ => sum_comm), sum_comm]

/-- change of basis in a quadratic form: `(P c)ᵀ Z (P c') = cᵀ (Pᵀ Z P) c'` -/
theorem quad_change_basis (n : ℕ) (P Z : ℕ → ℕ → ℝ) (c c' : ℕ → ℝ) :
    ∑ a ∈ range n, ∑ a' ∈ range n, (∑ q ∈ range n, c q * P a q) * Z a a' * (∑ q' ∈ range n, c' q' * P a' q')
      = ∑ q ∈ range n, ∑ q' ∈ range n, c q * (∑ j ∈ range n, (∑ i ∈ range n, P i q * Z i j) * P j q') * c' q' := by
  have e1 : ∀ a a', (∑ q ∈ range n, c q * P a q) * Z a a' * (∑ q' ∈ range n, c' q' * P a' q')
      = ∑ q ∈ range n, ∑ q' ∈ range n, c q * c' q' * (P a q * Z a a' * P a' q') := by
    intro a a'
    rw [Finset.sum_mul, Finset.sum_mul_sum]
    exact sum_congr rfl (fun q _ => sum_congr rfl (fun q' _ => by ring))
  have e2 : ∀ q q', c q * (∑ j ∈ range n, (∑ i ∈ range n, P i q * Z i j) * P j q') * c' q'
      = ∑ a ∈ range n, ∑ a' ∈ range n, c q * c' q' * (P a q * Z a a' * P a' q') := by
    intro q q'
    rw [Finset.mul_sum, Finset.sum_mul, sum_comm]
    apply sum_congr rfl; intro j _
    rw [Finset.sum_mul, Finset.mul_sum, Finset.sum_mul]
    exact sum_congr rfl (fun i _ => by ring)
  simp only [e1, e2]
  exact sum_comm4 n n _

/-! ### radial functions from the eigen-decompositions -/

section radial
set_option linter.unusedSectionVars false
variable [Transc ℝ] [RealTransc]

/-- Gram matrix of linear combinations of orthonormal columns -/
theorem sum_mul_orth (n : ℕ) (P : ℕ → ℕ → ℝ)
    (hP : ∀ q q', q < n → q' < n → ∑ a ∈ range n, P a q * P a q' = if q = q' then 1 else 0) (A B : ℕ → ℝ) :
    ∑ a ∈ range n, (∑ q ∈ range n, A q * P a q) * (∑ q' ∈ range n, B q' * P a q')
      = ∑ q ∈ range n, A q * B q := by
  have e1 : ∀ a, (∑ q ∈ range n, A q * P a q) * (∑ q' ∈ range n, B q' * P a q')
      = ∑ q ∈ range n, ∑ q' ∈ range n, (A q * B q') * (P a q * P a q') := by
    intro a; rw [Finset.sum_mul_sum]
    exact sum_congr rfl (fun q _ => sum_congr rfl (fun q' _ => by ring))
  simp only [e1]
  rw [sum_comm]
  apply sum_congr rfl; intro q hq
  rw [sum_comm]
  have e2 : ∀ q' ∈ range n, ∑ a ∈ range n, A q * B q' * (P a q * P a q') = if q = q' then A q * B q' else 0 := by
    intro q' hq'
    rw [← Finset.mul_sum, hP q q' (mem_range.1 hq) (mem_range.1 hq')]
    split_ifs <;> simp
  rw [sum_congr rfl e2, Finset.sum_ite_eq (range n) q]
  simp [hq]

/-- contract of `eigh` on the filtered order-0 block: the `nr-1` eigenvectors are orthonormal -/
def Orthonormal0 (nr : ℕ) (v0 : ℕ → ℕ → ℝ) : Prop :=
  ∀ m m', m + 1 < nr → m' + 1 < nr → ∑ q ∈ range (nr - 1), v0 q m * v0 q m' = if m = m' then 1 else 0

/-- contract of `eigh` on an order `t ≥ 1`: the `nr` eigenvectors (columns) are orthonormal -/
def OrthonormalT (nr : ℕ) (v : ℕ → ℕ → ℝ) : Prop :=
  ∀ k k', k < nr → k' < nr → ∑ a ∈ range nr, v a k * v a k' = if k = k' then 1 else 0

theorem v1_gram (nr : ℕ) (v0 : ℕ → ℕ → ℝ) (h0 : Orthonormal0 nr v0) (m m' : ℕ) (hm : m < nr) (hm' : m' < nr) :
    ∑ q ∈ range nr, v1 nr v0 m q * v1 nr v0 m' q = if m = m' then 1 else 0 := by
  obtain ⟨n, rfl⟩ : ∃ n, nr = n + 1 := ⟨nr - 1, by omega⟩
  rw [Finset.sum_range_succ]
  have hlow : ∀ a b : ℕ, ∀ q ∈ range n, v1 (K := ℝ) (n+1) v0 a q * v1 (n+1) v0 b q
      = if a + 1 < n + 1 ∧ b + 1 < n + 1 then v0 q a * v0 q b else 0 := by
    intro a b q hq
    have hq' := mem_range.1 hq
    have hqn : q ≠ n := by omega
    unfold v1
    by_cases ha : a + 1 < n + 1 <;> by_cases hb : b + 1 < n + 1 <;>
      simp [ha, hb, hqn, show q + 1 < n + 1 by omega]
  have hlast : ∀ a, v1 (K := ℝ) (n+1) v0 a n = if a = n then 1 else 0 := by
    intro a
    unfold v1
    by_cases ha : a = n
    · subst ha; simp
    · simp [ha]
  rw [sum_congr rfl (hlow m m'), hlast m, hlast m']
  by_cases hml : m + 1 < n + 1 <;> by_cases hml' : m' + 1 < n + 1
  · have := h0 m m' hml hml'
    simp only [Nat.add_sub_cancel] at this
    simp only [hml, hml', and_self, if_true, this]
    rw [if_neg (show ¬ m = n by omega)]; simp
  · have hm'n : m' = n := by omega
    simp only [hml, hml', and_false, if_false, sum_const_zero]
    rw [if_neg (show ¬ m = n by omega), if_neg (show ¬ m = m' by omega)]; simp
  · have hmn : m = n := by omega
    simp only [hml, hml', false_and, if_false, sum_const_zero]
    rw [if_neg (show ¬ m' = n by omega), if_neg (show ¬ m = m' by omega)]; simp
  · have hmn : m = n := by omega
    have hm'n : m' = n := by omega
    simp only [hml, hml', false_and, if_false, sum_const_zero]
    rw [if_pos hmn, if_pos hm'n, if_pos (by omega)]; simp

/-- radial Gram matrix of one azimuthal order: `nr·I` for order 0, `2nr·I` for the others -/
theorem kers_gram (nr : ℕ) (V : ℕ → ℕ → ℕ → ℝ) (h0 : Orthonormal0 nr (V 0))
    (hT : ∀ t, 0 < t → OrthonormalT nr (V t)) (t k k' : ℕ) (hk : k < nr) (hk' : k' < nr) :
    ∑ a ∈ range nr, kers nr V t a k * kers nr V t a k'
      = if k = k' then (if t = 0 then (nr:ℝ) else 2 * (nr:ℝ)) else 0 := by
  by_cases ht : t = 0
  · subst ht
    real_unfold [kers, vs0]
    simp only [if_true]
    have e : ∀ a, Real.sqrt nr * (∑ q ∈ range nr, v1 nr (V 0) k q * pistonOrth nr a q)
        * (Real.sqrt nr * ∑ q ∈ range nr, v1 nr (V 0) k' q * pistonOrth nr a q)
        = (nr:ℝ) * ((∑ q ∈ range nr, v1 nr (V 0) k q * pistonOrth nr a q)
          * (∑ q ∈ range nr, v1 nr (V 0) k' q * pistonOrth nr a q)) := by
      intro a
      generalize (∑ q ∈ range nr, v1 nr (V 0) k q * pistonOrth nr a q) = S1
      generalize (∑ q ∈ range nr, v1 nr (V 0) k' q * pistonOrth nr a q) = S2
      have := Real.mul_self_sqrt (Nat.cast_nonneg (α := ℝ) nr)
      linear_combination (S1 * S2) * this
    simp only [e]
    rw [← Finset.mul_sum, sum_mul_orth nr (fun a q => pistonOrth nr a q)
      (fun q q' hq hq' => pistonOrth_orthonormal nr q q' hq hq'), v1_gram nr (V 0) h0 k k' hk hk']
    split_ifs <;> simp
  · real_unfold [kers]
    simp only [if_neg ht]
    have hs : Real.sqrt ((2 * nr : ℕ) : ℝ) * Real.sqrt ((2 * nr : ℕ) : ℝ) = 2 * (nr:ℝ) := by
      rw [Real.mul_self_sqrt (Nat.cast_nonneg _)]; push_cast; ring
    have e : ∀ a, Real.sqrt ((2 * nr : ℕ) : ℝ) * V t a k * (Real.sqrt ((2 * nr : ℕ) : ℝ) * V t a k')
        = 2 * (nr:ℝ) * (V t a k * V t a k') := by
      intro a; rw [← hs]; ring
    simp only [e]
    rw [← Finset.mul_sum, hT t (by omega) k k' hk hk']
    split_ifs <;> simp

/-- the order-0 radial functions other than the piston sum to zero over the radial grid -/
theorem kers0_sum (nr : ℕ) (V : ℕ → ℕ → ℕ → ℝ) (k : ℕ) (hk : k + 1 < nr) :
    ∑ a ∈ range nr, kers nr V 0 a k = 0 := by
  real_unfold [kers, vs0]
  simp only [if_true]
  rw [← Finset.mul_sum, sum_comm]
  have : ∀ q ∈ range nr, ∑ a ∈ range nr, v1 nr (V 0) k q * pistonOrth nr a q = 0 := by
    intro q hq
    rw [← Finset.mul_sum]
    by_cases hq1 : q + 1 < nr
    · rw [pistonOrth_col_sum nr q hq1, mul_zero]
    · have : q + 1 = nr := by have := mem_range.1 hq; omega
      unfold v1
      simp [hq1, show ¬ (k + 1 = nr) by omega]
  rw [sum_congr rfl this]; simp

theorem v1_low (nr : ℕ) (v0 : ℕ → ℕ → ℝ) (k q : ℕ) (hk : k + 1 < nr) :
    v1 (K := ℝ) nr v0 k q = if q + 1 < nr then v0 q k else 0 := by
  unfold v1
  by_cases hq : q + 1 < nr
  · simp [hk, hq]
  · simp [hq, show ¬ (k + 1 = nr) by omega]

/-- the order-0 radial functions in terms of the filtered eigenvectors: `u_k = P[:, 0:nr-1] · v0[:, k]`, and their
quadratic form in any matrix `Z` is the quadratic form of the eigenvectors in the filtered block `(Pᵀ Z P)[0:nr-1, 0:nr-1]` -/
theorem vs0_quad (nr : ℕ) (Z v0 : ℕ → ℕ → ℝ) (k k' : ℕ) (hk : k + 1 < nr) (hk' : k' + 1 < nr) :
    ∑ a ∈ range nr, ∑ a' ∈ range nr, vs0 nr v0 k a * Z a a' * vs0 nr v0 k' a'
      = ∑ q ∈ range (nr - 1), ∑ q' ∈ range (nr - 1), v0 q k * b1 nr Z q q' * v0 q' k' := by
  real_unfold [vs0, b1]
  rw [quad_change_basis nr (fun a q => pistonOrth nr a q) Z (v1 nr v0 k) (v1 nr v0 k')]
  obtain ⟨n, rfl⟩ : ∃ n, nr = n + 1 := ⟨nr - 1, by omega⟩
  simp only [Nat.add_sub_cancel]
  have hz : v1 (K := ℝ) (n + 1) v0 k n = 0 := by rw [v1_low _ _ _ _ hk]; simp
  have hz' : v1 (K := ℝ) (n + 1) v0 k' n = 0 := by rw [v1_low _ _ _ _ hk']; simp
  rw [Finset.sum_range_succ, hz]
  simp only [zero_mul, sum_const_zero, add_zero]
  apply sum_congr rfl; intro q hq
  rw [Finset.sum_range_succ, hz', mul_zero, add_zero]
  apply sum_congr rfl; intro q' hq'
  rw [v1_low _ _ _ _ hk, v1_low _ _ _ _ hk', if_pos (by have := mem_range.1 hq; omega),
    if_pos (by have := mem_range.1 hq'; omega)]

end radial

end AoVerif.KL
