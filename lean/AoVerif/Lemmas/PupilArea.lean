/-
C14, area clause: the number of pixel centres of an `n × n` array within distance `r` of a point `c` is sandwiched between the
areas of the discs of radius `r ∓ δ`, `δ = √½` half a pixel diagonal (Lebesgue measure on `ℂ ≃ ℝ²`, `Complex.volume_ball`).
-/
import Mathlib.MeasureTheory.Measure.Lebesgue.VolumeOfBalls
import Mathlib.MeasureTheory.Measure.Lebesgue.Complex
import Mathlib.Analysis.Complex.Norm
import Mathlib.Tactic.Ring
import Mathlib.Tactic.Linarith

namespace AoVerif.Lemmas.PupilArea
open MeasureTheory Complex Set

/-- the unit square of pixel `p = (i, j)` (row `i`, column `j`): `j ≤ re z < j+1`, `i ≤ im z < i+1` -/
def pixelSq (p : ℕ × ℕ) : Set ℂ :=
  {z | (p.2 : ℝ) ≤ z.re ∧ z.re < p.2 + 1 ∧ (p.1 : ℝ) ≤ z.im ∧ z.im < p.1 + 1}

/-- its centre `(j + ½, i + ½)` -/
noncomputable def pixelCentre (p : ℕ × ℕ) : ℂ := ⟨p.2 + 1 / 2, p.1 + 1 / 2⟩

/-- half the diagonal of a pixel -/
noncomputable def δ : ℝ := √(1 / 2)

theorem δ_pos : 0 < δ := Real.sqrt_pos.mpr (by norm_num)
theorem δ_sq : δ ^ 2 = 1 / 2 := Real.sq_sqrt (by norm_num)

theorem pixelSq_eq (p : ℕ × ℕ) :
    pixelSq p = measurableEquivRealProd ⁻¹' (Ico (p.2 : ℝ) (p.2 + 1) ×ˢ Ico (p.1 : ℝ) (p.1 + 1)) := by
  ext z; simp [pixelSq, and_assoc]

theorem measurableSet_pixelSq (p : ℕ × ℕ) : MeasurableSet (pixelSq p) := by
  rw [pixelSq_eq]
  exact measurableEquivRealProd.measurable (measurableSet_Ico.prod measurableSet_Ico)

theorem volume_pixelSq (p : ℕ × ℕ) : volume (pixelSq p) = 1 := by
  rw [pixelSq_eq, volume_preserving_equiv_real_prod.measure_preimage
    (measurableSet_Ico.prod measurableSet_Ico).nullMeasurableSet, Measure.volume_eq_prod, Measure.prod_prod,
    Real.volume_Ico, Real.volume_Ico]
  simp

theorem pixelSq_disjoint : Pairwise (Function.onFun Disjoint pixelSq) := by
  intro p q hpq
  rw [Function.onFun, Set.disjoint_left]
  rintro z ⟨h1, h2, h3, h4⟩ ⟨k1, k2, k3, k4⟩
  apply hpq
  have a1 : (p.2 : ℝ) < q.2 + 1 := by linarith
  have a2 : (q.2 : ℝ) < p.2 + 1 := by linarith
  have a3 : (p.1 : ℝ) < q.1 + 1 := by linarith
  have a4 : (q.1 : ℝ) < p.1 + 1 := by linarith
  have b1 : p.2 < q.2 + 1 := by exact_mod_cast a1
  have b2 : q.2 < p.2 + 1 := by exact_mod_cast a2
  have b3 : p.1 < q.1 + 1 := by exact_mod_cast a3
  have b4 : q.1 < p.1 + 1 := by exact_mod_cast a4
  exact Prod.ext (by omega) (by omega)

/-- every point of a pixel is within half a diagonal of its centre -/
theorem dist_pixelCentre_le {p : ℕ × ℕ} {z : ℂ} (hz : z ∈ pixelSq p) : dist z (pixelCentre p) ≤ δ := by
  obtain ⟨h1, h2, h3, h4⟩ := hz
  rw [Complex.dist_eq_re_im, δ]
  apply Real.sqrt_le_sqrt
  simp only [pixelCentre]
  have e1 : (z.re - ((p.2 : ℝ) + 1 / 2)) ^ 2 ≤ 1 / 4 := by nlinarith
  have e2 : (z.im - ((p.1 : ℝ) + 1 / 2)) ^ 2 ≤ 1 / 4 := by nlinarith
  linarith

/-- the pixels of an `n × n` array whose centre is within distance `r` of `c` -/
noncomputable def discPixels (n : ℕ) (c : ℂ) (r : ℝ) : Finset (ℕ × ℕ) := by
  classical exact (Finset.range n ×ˢ Finset.range n).filter fun p => dist (pixelCentre p) c ≤ r

theorem mem_discPixels {n : ℕ} {c : ℂ} {r : ℝ} {p : ℕ × ℕ} :
    p ∈ discPixels n c r ↔ (p.1 < n ∧ p.2 < n) ∧ dist (pixelCentre p) c ≤ r := by
  classical simp [discPixels]

/-- the region covered by the selected pixels has area = their number -/
theorem volume_discRegion (n : ℕ) (c : ℂ) (r : ℝ) :
    volume (⋃ p ∈ discPixels n c r, pixelSq p) = (discPixels n c r).card := by
  rw [measure_biUnion_finset (fun p _ q _ hpq => pixelSq_disjoint hpq) (fun p _ => measurableSet_pixelSq p)]
  simp [volume_pixelSq]

theorem discRegion_subset (n : ℕ) (c : ℂ) (r : ℝ) :
    (⋃ p ∈ discPixels n c r, pixelSq p) ⊆ Metric.closedBall c (r + δ) := by
  intro z hz
  simp only [mem_iUnion] at hz
  obtain ⟨p, hp, hzp⟩ := hz
  rw [Metric.mem_closedBall]
  have := dist_triangle z (pixelCentre p) c
  have := dist_pixelCentre_le hzp
  have := (mem_discPixels.mp hp).2
  linarith

/-- if the disc of radius `r` about `c` lies inside the array `[0, n]²`, the disc of radius `r − δ` is covered -/
theorem ball_subset_discRegion (n : ℕ) (c : ℂ) (r : ℝ)
    (hin : r ≤ c.re ∧ c.re + r ≤ n ∧ r ≤ c.im ∧ c.im + r ≤ n) :
    Metric.ball c (r - δ) ⊆ ⋃ p ∈ discPixels n c r, pixelSq p := by
  intro z hz
  rw [Metric.mem_ball] at hz
  have hδ := δ_pos
  have hre := Complex.abs_re_le_norm (z - c)
  have him := Complex.abs_im_le_norm (z - c)
  rw [← dist_eq_norm] at hre him
  simp only [Complex.sub_re, Complex.sub_im] at hre him
  rw [abs_le] at hre him
  have z1 : 0 ≤ z.re := by linarith
  have z2 : z.re < n := by linarith
  have z3 : 0 ≤ z.im := by linarith
  have z4 : z.im < n := by linarith
  have hzp : z ∈ pixelSq (⌊z.im⌋₊, ⌊z.re⌋₊) :=
    ⟨Nat.floor_le z1, Nat.lt_floor_add_one _, Nat.floor_le z3, Nat.lt_floor_add_one _⟩
  simp only [mem_iUnion]
  refine ⟨(⌊z.im⌋₊, ⌊z.re⌋₊), mem_discPixels.mpr ⟨⟨(Nat.floor_lt z3).mpr z4, (Nat.floor_lt z1).mpr z2⟩, ?_⟩, hzp⟩
  have := dist_triangle (pixelCentre (⌊z.im⌋₊, ⌊z.re⌋₊)) z c
  have := dist_pixelCentre_le hzp
  rw [dist_comm] at this
  linarith

theorem ennreal_disc (ρ : ℝ) (hρ : 0 ≤ ρ) :
    ENNReal.ofReal ρ ^ 2 * (NNReal.pi : ENNReal) = ENNReal.ofReal (Real.pi * ρ ^ 2) := by
  rw [mul_comm Real.pi, ENNReal.ofReal_mul (by positivity), ENNReal.ofReal_pow hρ, ← NNReal.coe_real_pi,
    ENNReal.ofReal_coe_nnreal]

/-- **upper bound**: at most `π (r + δ)²` pixel centres lie within distance `r` of `c` -/
theorem card_discPixels_le (n : ℕ) (c : ℂ) (r : ℝ) (hr : 0 ≤ r) :
    ((discPixels n c r).card : ℝ) ≤ Real.pi * (r + δ) ^ 2 := by
  have h := measure_mono (μ := volume) (discRegion_subset n c r)
  rw [volume_discRegion, Complex.volume_closedBall, ennreal_disc _ (by have := δ_pos; linarith),
    ← ENNReal.ofReal_natCast, ENNReal.ofReal_le_ofReal_iff (by positivity)] at h
  exact h

/-- **lower bound**: at least `π (r − δ)²` when the disc lies inside the array -/
theorem le_card_discPixels (n : ℕ) (c : ℂ) (r : ℝ) (hr : δ ≤ r)
    (hin : r ≤ c.re ∧ c.re + r ≤ n ∧ r ≤ c.im ∧ c.im + r ≤ n) :
    Real.pi * (r - δ) ^ 2 ≤ ((discPixels n c r).card : ℝ) := by
  have h := measure_mono (μ := volume) (ball_subset_discRegion n c r hin)
  rw [volume_discRegion, Complex.volume_ball, ennreal_disc _ (by linarith),
    ← ENNReal.ofReal_natCast, ENNReal.ofReal_le_ofReal_iff (by positivity)] at h
  exact h

end AoVerif.Lemmas.PupilArea
