import AoVerif.Lemmas.DFTReal

/-
Half-spectrum lemmas for the real-input variants of C09:
un-centred Parseval for the plain DFT, folding of a mirror-symmetric sum onto its first half, Parseval on the
`n/2+1` bins of the DFT of a real signal of even length, where the bins of `fftshift` land, and the pinned
(`fftshift ∘ fft ∘ fftshift`, `ifftshift ∘ ifft ∘ ifftshift`) pair used along axis −2 by `rft2`/`irft2`.
-/
namespace AoVerif.DFT
open Finset AoVerif AoVerif.Fourier

/-- a sum over `range (2(r+1))` of a function with `g (2(r+1) − q) = g q` folds onto the first `r+2` terms: the two
self-mirrored terms `q = 0` and `q = r+1` count once, the others twice -/
theorem sum_fold (r : ℕ) (g : ℕ → ℝ) (hsym : ∀ q, 0 < q → q < r + 1 → g (2 * (r + 1) - q) = g q) :
    ∑ q ∈ range (2 * (r + 1)), g q
      = ∑ q ∈ range (r + 2), (if q = 0 ∨ q = r + 1 then (1:ℝ) else 2) * g q := by
  have h2 : 2 * (r + 1) = (r + 2) + r := by ring
  have hB : ∑ q ∈ range r, g (r + 2 + q) = ∑ q ∈ range r, g (q + 1) := by
    rw [← sum_range_reflect (fun q => g (r + 2 + q)) r]
    apply sum_congr rfl; intro q hq
    have hq' := mem_range.mp hq
    have : r + 2 + (r - 1 - q) = 2 * (r + 1) - (q + 1) := by omega
    rw [this, hsym (q + 1) (by omega) (by omega)]
  have hW : ∀ q ∈ range r, (if q + 1 = 0 ∨ q + 1 = r + 1 then (1:ℝ) else 2) * g (q + 1) = 2 * g (q + 1) := by
    intro q hq
    have hq' := mem_range.mp hq
    rw [if_neg (by omega)]
  rw [h2, sum_range_add, hB]
  rw [sum_range_succ (fun q => (if q = 0 ∨ q = r + 1 then (1:ℝ) else 2) * g q) (r + 1),
    sum_range_succ' (fun q => (if q = 0 ∨ q = r + 1 then (1:ℝ) else 2) * g q) r,
    sum_congr rfl hW, ← mul_sum,
    sum_range_succ g (r + 1), sum_range_succ' g r]
  simp only [true_or, or_true, if_true]
  ring

section
open Complex
variable {n : ℕ} {ζ : ℂ}

/-- Parseval for the plain (un-centred) DFT: `Σ_q |Y_q|² = n Σ_j |u_j|²` -/
theorem dft_parseval (hζ : IsPrimitiveRoot ζ n) (hn : 0 < n) (u : ℕ → ℂ) :
    ∑ q ∈ range n, Complex.normSq (dft n (fun m => ζ ^ m) u q) = (n:ℝ) * ∑ j ∈ range n, Complex.normSq (u j) := by
  have h1 : ‖ζ‖ = 1 := hζ.norm'_eq_one (by omega)
  have hc : (starRingEnd ℂ) ζ = ζ⁻¹ := (Complex.inv_eq_conj h1).symm
  have hnC : (n:ℂ) ≠ 0 := natCast_ne_zero hζ hn
  obtain ⟨Y, hY⟩ : ∃ Y : ℕ → ℂ, Y = dft n (fun m => ζ ^ m) u := ⟨_, rfl⟩
  have hinv : ∀ j < n, ∑ q ∈ range n, Y q * ζ⁻¹ ^ ((j * q) % n) = (n:ℂ) * u j := by
    intro j hj
    have := idft_dft hζ hn u hj
    unfold idft at this
    rw [sumTo_eq_sum, ← hY] at this
    rw [← this]; field_simp
  have hconj : ∀ q, (starRingEnd ℂ) (Y q) = ∑ j ∈ range n, (starRingEnd ℂ) (u j) * ζ⁻¹ ^ ((j * q) % n) := by
    intro q
    rw [hY]
    unfold dft
    rw [sumTo_eq_sum, map_sum]
    apply sum_congr rfl; intro j _
    rw [map_mul, map_pow, hc]
  have key : ∑ q ∈ range n, Y q * (starRingEnd ℂ) (Y q) = (n:ℂ) * ∑ j ∈ range n, u j * (starRingEnd ℂ) (u j) := by
    simp only [hconj, mul_sum]
    rw [sum_comm]
    apply sum_congr rfl; intro j hj
    have : ∀ q ∈ range n, Y q * ((starRingEnd ℂ) (u j) * ζ⁻¹ ^ ((j * q) % n))
        = (starRingEnd ℂ) (u j) * (Y q * ζ⁻¹ ^ ((j * q) % n)) := fun q _ => by ring
    rw [sum_congr rfl this, ← mul_sum, hinv j (mem_range.mp hj)]; ring
  rw [← hY]
  simp only [Complex.mul_conj] at key
  have := congrArg Complex.re key
  simpa [← Complex.ofReal_sum, ← Complex.ofReal_mul] using this

/-- Parseval on the half-spectrum of a real signal of even length `n = 2(r+1)`: the `r+2 = n/2+1` bins `0 … n/2` of the
plain DFT carry the whole energy when DC (`q = 0`) and Nyquist (`q = n/2`) are counted once and the others twice -/
theorem dft_half_parseval (hζ : IsPrimitiveRoot ζ n) (r : ℕ) (hn : n = 2 * (r + 1)) (u : ℕ → ℂ)
    (hu : ∀ j, (starRingEnd ℂ) (u j) = u j) :
    ∑ q ∈ range (r + 2), (if q = 0 ∨ q = r + 1 then (1:ℝ) else 2) * Complex.normSq (dft n (fun m => ζ ^ m) u q)
      = (n:ℝ) * ∑ j ∈ range n, Complex.normSq (u j) := by
  have hpos : 0 < n := by omega
  rw [← dft_parseval hζ hpos u]
  have hsym : ∀ q, 0 < q → q < r + 1 →
      Complex.normSq (dft n (fun m => ζ ^ m) u (2 * (r + 1) - q)) = Complex.normSq (dft n (fun m => ζ ^ m) u q) := by
    intro q _ hq
    rw [← hn, ← dft_herm hζ hpos u hu (by omega : q ≤ n), Complex.normSq_conj]
  rw [← sum_fold r _ hsym, hn]

end

/-! ### where `fftshift` puts the bins -/

/-- for `k < m`: the bin read at position `k` of `fftshift m` is bin 0 exactly when `k = m/2` -/
theorem fftshift_zero_iff (m k : ℕ) (hk : k < m) : (k + (m - m / 2)) % m = 0 ↔ k = m / 2 := by
  have hle := Nat.div_le_self m 2
  have hlt : m / 2 < m := Nat.div_lt_self (by omega) (by norm_num)
  by_cases h : k + (m - m / 2) < m
  · rw [Nat.mod_eq_of_lt h]; omega
  · have : k + (m - m / 2) = (k + (m - m / 2) - m) + m := by omega
    rw [this, Nat.add_mod_right, Nat.mod_eq_of_lt (by omega)]; omega

/-- for `k < m`, `m ≥ 2`: the bin read at position `k` of `fftshift m` is the last bin `m−1` exactly when `k = m/2 − 1` -/
theorem fftshift_last_iff (m k : ℕ) (hm : 2 ≤ m) (hk : k < m) : (k + (m - m / 2)) % m = m - 1 ↔ k = m / 2 - 1 := by
  have hle := Nat.div_le_self m 2
  have hlt : m / 2 < m := Nat.div_lt_self (by omega) (by norm_num)
  have h1 : 1 ≤ m / 2 := by omega
  by_cases h : k + (m - m / 2) < m
  · rw [Nat.mod_eq_of_lt h]; omega
  · have : k + (m - m / 2) = (k + (m - m / 2) - m) + m := by omega
    rw [this, Nat.add_mod_right, Nat.mod_eq_of_lt (by omega)]; omega

/-! ### the pinned pair (`fftshift∘fft∘fftshift`, `ifftshift∘ifft∘ifftshift`) is an inverse pair for every n -/
section
variable {K : Type} [Field K] {n : ℕ} {ζ : K}

theorem ift_pinned_ft_pinned (hζ : IsPrimitiveRoot ζ n) (hn : 0 < n) (δ δf : K) (hδ : (n:K) * δ * δf = 1) (y : ℕ → K)
    {a : ℕ} (ha : a < n) :
    ift_pinned n (fun m => ζ⁻¹ ^ m) (1 / (n:K)) (n:K) δf (ft_pinned n (fun m => ζ ^ m) δ y) a = y a := by
  unfold ift_pinned
  unfold ifftshift
  have hfull : ∀ k < n, ft_pinned n (fun m => ζ ^ m) δ y ((k + n / 2) % n)
      = dft n (fun m => ζ ^ m) (fftshift n y) k * δ := by
    intro k hk
    unfold ft_pinned
    show dft n (fun m => ζ ^ m) (fftshift n y) (((k + n / 2) % n + (n - n / 2)) % n) * δ = _
    rw [shift_cancel _ _ hk]
  rw [idft_congr' _ _ hfull, idft_mul_const, idft_dft hζ hn _ (Nat.mod_lt _ hn)]
  unfold fftshift
  rw [shift_cancel _ _ ha]
  linear_combination (y a) * hδ

end

/-- Parseval for the pinned forward composition `fftshift ∘ fft ∘ fftshift` (axis −2 of `rft2`), every n ≥ 1 -/
theorem parseval_pinned {n : ℕ} {ζ : ℂ} (hζ : IsPrimitiveRoot ζ n) (hn : 0 < n) (δ δf : ℝ) (hδ : (n:ℝ) * δ * δf = 1)
    (y : ℕ → ℂ) :
    (∑ a ∈ range n, Complex.normSq (ft_pinned n (fun m => ζ ^ m) (δ:ℂ) y a)) * δf
      = (∑ j ∈ range n, Complex.normSq (y j)) * δ := by
  let f : ℕ → ℝ := fun q => Complex.normSq (dft n (fun m => ζ ^ m) (fftshift n y) q) * (δ * δ)
  have h1 : ∀ a ∈ range n, Complex.normSq (ft_pinned n (fun m => ζ ^ m) (δ:ℂ) y a) = f ((a + (n - n / 2)) % n) := by
    intro a _
    unfold ft_pinned
    show Complex.normSq (dft n (fun m => ζ ^ m) (fftshift n y) ((a + (n - n / 2)) % n) * (δ:ℂ)) = _
    rw [Complex.normSq_mul, Complex.normSq_ofReal]
  rw [sum_congr rfl h1, sum_shift hn f]
  simp only [f]
  rw [← sum_mul, dft_parseval hζ hn]
  have hys : ∑ j ∈ range n, Complex.normSq (fftshift n y j) = ∑ j ∈ range n, Complex.normSq (y j) :=
    sum_shift hn (fun j => Complex.normSq (y j)) (n - n / 2)
  rw [hys]
  linear_combination ((∑ j ∈ range n, Complex.normSq (y j)) * δ) * hδ

/-! ### the other composition: `fft ∘ ifft = id`, and realness of `irfft` on Hermitian-consistent half-spectra -/
section
variable {K : Type} [Field K] {n : ℕ} {ζ : K}

theorem dft_congr' (w : ℕ → K) {x y : ℕ → K} (h : ∀ m < n, x m = y m) (k : ℕ) : dft n w x k = dft n w y k := by
  unfold dft
  simp only [sumTo_eq_sum]
  exact sum_congr rfl (fun j hj => by rw [h j (mem_range.mp hj)])

theorem dft_mul_const' (w : ℕ → K) (a : K) (x : ℕ → K) (k : ℕ) : dft n w (fun j => x j * a) k = dft n w x k * a := by
  unfold dft
  simp only [sumTo_eq_sum]
  rw [sum_mul]
  exact sum_congr rfl (fun j _ => by ring)

theorem dft_const_mul' (w : ℕ → K) (a : K) (x : ℕ → K) (k : ℕ) : dft n w (fun j => a * x j) k = a * dft n w x k := by
  unfold dft
  simp only [sumTo_eq_sum]
  rw [mul_sum]
  exact sum_congr rfl (fun j _ => by ring)

/-- `fft(ifft(G)) = G` -/
theorem dft_idft (hζ : IsPrimitiveRoot ζ n) (hn : 0 < n) (G : ℕ → K) {q : ℕ} (hq : q < n) :
    dft n (fun m => ζ ^ m) (idft n (fun m => ζ⁻¹ ^ m) (1 / (n:K)) G) q = G q := by
  have h := idft_dft hζ.inv hn G hq
  rw [idft_eq_dft] at h
  simp only [inv_inv] at h
  have : dft n (fun m => ζ ^ m) (idft n (fun m => ζ⁻¹ ^ m) (1 / (n:K)) G) q
      = dft n (fun m => ζ ^ m) (fun j => (1 / (n:K)) * dft n (fun m => ζ⁻¹ ^ m) G j) q :=
    dft_congr' _ (fun j _ => idft_eq_dft _ _ _ j) q
  rw [this, dft_const_mul', h]

theorem ft_pinned_ift_pinned (hζ : IsPrimitiveRoot ζ n) (hn : 0 < n) (δ δf : K) (hδ : (n:K) * δ * δf = 1) (Y : ℕ → K)
    {a : ℕ} (ha : a < n) :
    ft_pinned n (fun m => ζ ^ m) δ (ift_pinned n (fun m => ζ⁻¹ ^ m) (1 / (n:K)) (n:K) δf Y) a = Y a := by
  unfold ft_pinned
  have hfull : ∀ j < n, fftshift n (ift_pinned n (fun m => ζ⁻¹ ^ m) (1 / (n:K)) (n:K) δf Y) j
      = idft n (fun m => ζ⁻¹ ^ m) (1 / (n:K)) (ifftshift n Y) j * ((n:K) * δf) := by
    intro j hj
    unfold fftshift ift_pinned
    show idft n (fun m => ζ⁻¹ ^ m) (1 / (n:K)) (ifftshift n Y) (((j + (n - n / 2)) % n + n / 2) % n) * (n:K) * δf = _
    rw [shift_cancel' _ _ hj]; ring
  show dft n (fun m => ζ ^ m) (fftshift n (ift_pinned n (fun m => ζ⁻¹ ^ m) (1 / (n:K)) (n:K) δf Y))
    ((a + (n - n / 2)) % n) * δ = _
  rw [dft_congr' _ hfull, dft_mul_const', dft_idft hζ hn _ (Nat.mod_lt _ hn)]
  unfold ifftshift
  rw [shift_cancel' _ _ ha]
  linear_combination (Y a) * hδ

end

/-- reversal `k ↦ (n − k) mod n` permutes `range n` -/
theorem sum_neg_mod {M : Type*} [AddCommMonoid M] {n : ℕ} (hn : 0 < n) (F : ℕ → M) :
    ∑ k ∈ range n, F ((n - k) % n) = ∑ k ∈ range n, F k := by
  obtain ⟨p, rfl⟩ : ∃ p, n = p + 1 := ⟨n - 1, by omega⟩
  rw [sum_range_succ' _ p, sum_range_succ' F p]
  congr 1
  · rw [← sum_range_reflect (fun k => F (k + 1)) p]
    apply sum_congr rfl; intro k hk
    have hk' := mem_range.mp hk
    have : p + 1 - (k + 1) = p - 1 - k + 1 := by omega
    rw [this, Nat.mod_eq_of_lt (by omega)]
  · simp

section
open Complex
variable {n : ℕ} {ζ : ℂ}

/-- the inverse DFT of a Hermitian-symmetric spectrum (`conj G[(n−k) mod n] = G[k]`) is real -/
theorem idft_real_of_herm (hζ : IsPrimitiveRoot ζ n) (hn : 0 < n) (G : ℕ → ℂ)
    (hG : ∀ k < n, (starRingEnd ℂ) (G ((n - k) % n)) = G k) (j : ℕ) :
    (starRingEnd ℂ) (idft n (fun m => ζ⁻¹ ^ m) (1 / (n:ℂ)) G j) = idft n (fun m => ζ⁻¹ ^ m) (1 / (n:ℂ)) G j := by
  have h1 : ‖ζ‖ = 1 := hζ.norm'_eq_one (by omega)
  have hc : (starRingEnd ℂ) ζ = ζ⁻¹ := (Complex.inv_eq_conj h1).symm
  have hne := root_ne_zero hζ hn
  unfold idft
  simp only [sumTo_eq_sum, pow_mod_root hζ.inv]
  rw [map_mul, map_div₀, map_one, map_natCast, map_sum]
  congr 1
  rw [← sum_neg_mod hn (fun k => G k * ζ⁻¹ ^ (j * k))]
  apply sum_congr rfl; intro k hk
  have hk' := mem_range.mp hk
  rw [map_mul, map_pow, map_inv₀, hc, inv_inv, ← hG k hk']
  congr 1
  · exact Complex.conj_conj _
  · rw [← zpow_natCast, ← zpow_natCast, inv_zpow']
    apply zpow_congr hζ hn
    by_cases h0 : k = 0
    · subst h0
      simp
    · rw [Nat.mod_eq_of_lt (by omega)]
      refine ⟨(j:ℤ), ?_⟩
      push_cast [Nat.cast_sub (le_of_lt hk')]
      ring

/-- the Hermitian completion of a half-spectrum (even `n`, `n/2+1` bins) whose DC and Nyquist bins are real is
Hermitian-symmetric -/
theorem hermComplete_herm (heven : n % 2 = 0) (H : ℕ → ℂ)
    (h0 : (starRingEnd ℂ) (H 0) = H 0) (hN : (starRingEnd ℂ) (H (n / 2)) = H (n / 2)) :
    ∀ k < n, (starRingEnd ℂ) (hermComplete n (starRingEnd ℂ) H ((n - k) % n)) = hermComplete n (starRingEnd ℂ) H k := by
  intro k hk
  unfold hermComplete
  by_cases hk0 : k = 0
  · subst hk0
    simp [h0]
  · rw [Nat.mod_eq_of_lt (by omega : n - k < n)]
    by_cases hle : k ≤ n / 2
    · by_cases heq : k = n / 2
      · have : n - k = n / 2 := by omega
        rw [this, heq]
        simp [hN]
      · rw [if_neg (by omega : ¬ n - k ≤ n / 2), if_pos hle]
        have : n - (n - k) = k := by omega
        rw [this, Complex.conj_conj]
    · rw [if_pos (by omega : n - k ≤ n / 2), if_neg hle]

end

end AoVerif.DFT
