/-
Helper lemmas for C14 (`Props/C14.lean`): the row-major position list, loop ↔ filter/sum conversions, the loop invariant of
`make_subaps_2d`, and the arithmetic of round-half-to-even and of the sub-aperture slice bounds over an ordered field with a floor.
-/
import Mathlib.Algebra.Order.Floor.Ring
import Mathlib.Algebra.Order.Field.Basic
import Mathlib.Algebra.BigOperators.Intervals
import Mathlib.Data.List.Basic
import Mathlib.Data.List.Nodup
import Mathlib.Data.List.Range
import Mathlib.Tactic.Ring
import Mathlib.Tactic.Linarith
import Mathlib.Tactic.NormNum
import Mathlib.Tactic.NormNum.OfScientific
import Mathlib.Tactic.FieldSimp
import AoVerif.Model.Pupil

namespace AoVerif.Lemmas.Pupil
open AoVerif.Model.Pupil
set_option linter.unusedSectionVars false

/-! ### row-major positions and the scatter loop -/
section Scatter
variable {α : Type}

/-- the positions of an `nx × nx` map in row-major order -/
def gridList (nx : ℕ) : List (ℕ × ℕ) := (List.range nx).flatMap fun x => (List.range nx).map fun y => (x, y)

theorem gridList_nodup (nx : ℕ) : (gridList nx).Nodup := by
  unfold gridList
  rw [List.nodup_flatMap]
  refine ⟨fun x _ => (List.nodup_range).map (fun a b h => by simpa using h), ?_⟩
  refine (List.nodup_range).pairwise_of_forall_ne ?_
  intro a _ b _ hab
  simp only [Function.onFun, List.disjoint_left, List.mem_map, List.mem_range, not_exists, not_and]
  rintro p ⟨y, _, rfl⟩ y' _ h
  exact hab (by simpa using (congrArg Prod.fst h).symm)

theorem mem_gridList (nx : ℕ) (p : ℕ × ℕ) : p ∈ gridList nx ↔ p.1 < nx ∧ p.2 < nx := by
  unfold gridList
  simp only [List.mem_flatMap, List.mem_map, List.mem_range]
  constructor
  · rintro ⟨x, hx, y, hy, rfl⟩; exact ⟨hx, hy⟩
  · rintro ⟨h1, h2⟩; exact ⟨p.1, h1, p.2, h2, rfl⟩

theorem scatter_eq_foldl (nx : ℕ) (valid : ℕ → ℕ → Bool) (data : ℕ → α) (zero : α) :
    scatter nx valid data zero = (gridList nx).foldl (scatterStep valid data) { grid := fun _ _ => zero, k := 0 } := by
  unfold scatter gridList
  rw [List.foldl_flatMap]
  simp only [List.foldl_map]

theorem gather_eq_map (nx : ℕ) (valid : ℕ → ℕ → Bool) (g : ℕ → ℕ → α) :
    gather nx valid g = ((gridList nx).filter fun p => valid p.1 p.2).map fun p => g p.1 p.2 := by
  unfold gather gridList
  rw [List.filter_flatMap, List.map_flatMap]
  congr 1
  funext x
  induction (List.range nx) with
  | nil => rfl
  | cons y t ih =>
    simp only [List.filterMap_cons, List.map_cons, List.filter_cons]
    cases h : valid x y <;> simp [ih]

/-- the loop invariant, by induction over the list of positions still to visit -/
theorem scatter_foldl_spec (valid : ℕ → ℕ → Bool) (data : ℕ → α) (ps : List (ℕ × ℕ)) (hnd : ps.Nodup)
    (st : ScatterState α) :
    (ps.foldl (scatterStep valid data) st).k = st.k + (ps.filter fun p => valid p.1 p.2).length ∧
    (∀ q : ℕ × ℕ, q ∉ (ps.filter fun p => valid p.1 p.2) →
        (ps.foldl (scatterStep valid data) st).grid q.1 q.2 = st.grid q.1 q.2) ∧
    ((ps.filter fun p => valid p.1 p.2).map fun p => (ps.foldl (scatterStep valid data) st).grid p.1 p.2)
      = (List.range' st.k (ps.filter fun p => valid p.1 p.2).length).map data := by
  induction ps generalizing st with
  | nil => simp
  | cons p t ih =>
    rw [List.nodup_cons] at hnd
    obtain ⟨hk, hoff, hon⟩ := ih hnd.2 (scatterStep valid data st p)
    simp only [List.foldl_cons]
    by_cases hv : valid p.1 p.2 = true
    · have hstep : scatterStep valid data st p =
          { grid := fun a b => if a = p.1 ∧ b = p.2 then data st.k else st.grid a b, k := st.k + 1 } := by
        simp [scatterStep, hv]
      have hp : p ∉ (t.filter fun p => valid p.1 p.2) := fun h => hnd.1 (List.mem_of_mem_filter h)
      simp only [List.filter_cons, hv, if_true, List.length_cons, List.map_cons, List.mem_cons, not_or]
      refine ⟨?_, ?_, ?_⟩
      · rw [hk, hstep]; simp only; omega
      · rintro q ⟨hq1, hq2⟩
        rw [hoff q hq2, hstep]
        have : ¬ (q.1 = p.1 ∧ q.2 = p.2) := fun h => hq1 (Prod.ext h.1 h.2)
        simp [this]
      · rw [hon, hoff p hp, hstep]
        simp [List.range'_succ]
    · have hv' : valid p.1 p.2 = false := by simpa using hv
      have hstep : scatterStep valid data st p = st := by simp [scatterStep, hv']
      rw [hstep] at hk hoff hon ⊢
      simp only [List.filter_cons, hv', Bool.false_eq_true, if_false]
      exact ⟨hk, hoff, hon⟩

end Scatter

/-! ### sub-aperture selection: loops as filters and sums; rounding -/
section Field
variable {K : Type} [Field K] [LinearOrder K] [IsStrictOrderedRing K] [FloorRing K]

/-- the scalar's own floor and integer embedding: what `roundHE` uses over an ordered field with a floor.
Scoped: active after `open AoVerif.Lemmas.Pupil`. -/
scoped instance floorZField : FloorZ K := ⟨Int.floor, Int.cast⟩

/-- appending in a loop under a condition = filtering -/
theorem foldl_append_if {β γ : Type} (l : List β) (p : β → Bool) (f : β → γ) (init : List γ) :
    l.foldl (fun acc a => if p a then acc ++ [f a] else acc) init = init ++ (l.filter p).map f := by
  induction l generalizing init with
  | nil => simp
  | cons a t ih =>
    simp only [List.foldl_cons, ih, List.filter_cons]
    cases p a <;> simp

/-- the double loop of `findActiveSubaps` visits the grid in row-major order and keeps the active cells -/
theorem findActive_eq_filter (subaps n0 n1 : ℕ) (mask : ℕ → ℕ → K) (thr : K) :
    findActive subaps n0 n1 mask thr =
      ((gridList subaps).filter fun p => isActive subaps n0 n1 mask thr p.1 p.2).map
        fun p => mkSubap subaps n0 n1 mask p.1 p.2 := by
  unfold findActive gridList
  have h := foldl_append_if ((List.range subaps).flatMap fun x => (List.range subaps).map fun y => (x, y))
    (fun p => isActive subaps n0 n1 mask thr p.1 p.2) (fun p => mkSubap subaps n0 n1 mask p.1 p.2) []
  rw [List.foldl_flatMap] at h
  simp only [List.foldl_map, List.nil_append] at h
  exact h

theorem foldl_add_eq {β : Type} (l : List β) (f : β → K) (a : K) :
    l.foldl (fun acc j => acc + f j) a = a + (l.map f).sum := by
  induction l generalizing a with
  | nil => simp
  | cons b t ih => simp only [List.foldl_cons, ih, List.map_cons, List.sum_cons]; ring

theorem sum_range' (f : ℕ → K) (a len : ℕ) :
    ((List.range' a len).map f).sum = ∑ i ∈ Finset.Ico a (a + len), f i := by
  induction len with
  | zero => simp
  | succ m ih =>
    rw [List.range'_concat, List.map_append, List.sum_append, ih, ← Nat.add_assoc,
      Finset.sum_Ico_succ_top (by omega)]
    simp

theorem sum_sliceIdx (f : ℕ → K) (a b n : ℕ) :
    ((sliceIdx a b n).map f).sum = ∑ i ∈ Finset.Ico a (min b n), f i := by
  unfold sliceIdx
  rw [sum_range']
  by_cases h : a ≤ min b n
  · rw [Nat.add_sub_cancel' h]
  · rw [Nat.sub_eq_zero_of_le (by omega), Nat.add_zero, Finset.Ico_self, Finset.Ico_eq_empty (by omega)]

/-- the loop-accumulated sum over the slice is the double sum over the index rectangle -/
theorem sumOver_eq (mask : ℕ → ℕ → K) (a b n0 c d n1 : ℕ) :
    sumOver mask (sliceIdx a b n0) (sliceIdx c d n1)
      = ∑ i ∈ Finset.Ico a (min b n0), ∑ j ∈ Finset.Ico c (min d n1), mask i j := by
  unfold sumOver
  have h : ∀ (acc : K) (i : ℕ), (sliceIdx c d n1).foldl (fun acc j => acc + mask i j) acc
      = acc + ∑ j ∈ Finset.Ico c (min d n1), mask i j := by
    intro acc i; rw [foldl_add_eq, sum_sliceIdx]
  simp only [h]
  rw [foldl_add_eq, sum_sliceIdx]; simp

theorem cellCount_eq (n0 n1 a b c d : ℕ) : cellCount n0 n1 a b c d = (min b n0 - a) * (min d n1 - c) := by
  simp [cellCount, sliceIdx]

/-- **the mean of a cell is the mean**: the sum of the mask over the pixel rectangle `[a, min b n0) × [c, min d n1)`
(NumPy slice clipping included) divided by the number of its pixels -/
theorem cellMean_eq (mask : ℕ → ℕ → K) (n0 n1 a b c d : ℕ) :
    cellMean mask n0 n1 a b c d =
      (∑ i ∈ Finset.Ico a (min b n0), ∑ j ∈ Finset.Ico c (min d n1), mask i j)
        / (((min b n0 - a) * (min d n1 - c) : ℕ) : K) := by
  unfold cellMean; rw [sumOver_eq, cellCount_eq]

theorem roundHE_def (x : K) : roundHE x =
    if x - (⌊x⌋ : K) < 1 / 2 then ⌊x⌋ else if 1 / 2 < x - (⌊x⌋ : K) then ⌊x⌋ + 1
    else if ⌊x⌋ % 2 = 0 then ⌊x⌋ else ⌊x⌋ + 1 := by
  unfold roundHE
  simp only [FloorZ.floorZ, FloorZ.ofInt]
  norm_num

/-- the result is the floor or the floor plus one -/
theorem roundHE_cases (x : K) : roundHE x = ⌊x⌋ ∨ roundHE x = ⌊x⌋ + 1 := by
  rw [roundHE_def]; split_ifs <;> simp

/-- rounding moves a number by at most one half -/
theorem roundHE_sub_le (x : K) : x - 1 / 2 ≤ (roundHE x : K) ∧ (roundHE x : K) ≤ x + 1 / 2 := by
  have h1 := Int.floor_le x
  have h2 := Int.lt_floor_add_one x
  rw [roundHE_def]
  split_ifs with ha hb hc <;> push_cast <;> constructor <;> linarith

theorem roundHE_intCast (z : ℤ) : roundHE (z : K) = z := by
  rw [roundHE_def]; simp

theorem roundHE_natCast (m : ℕ) : roundHE (m : K) = m := by
  have := roundHE_intCast (K := K) (m : ℤ); simpa using this

/-- ties go to the even neighbour (`numpy.round(2.5) = 2`, `numpy.round(3.5) = 4`) -/
theorem roundHE_tie (z : ℤ) : roundHE ((z : K) + 1 / 2) = if z % 2 = 0 then z else z + 1 := by
  have hf : ⌊(z : K) + 1 / 2⌋ = z := by
    rw [Int.floor_eq_iff]; constructor <;> linarith
  rw [roundHE_def, hf]
  have : (z : K) + 1 / 2 - z = 1 / 2 := by ring
  rw [this]; simp

/-- rounding is monotone -/
theorem roundHE_mono {x y : K} (h : x ≤ y) : roundHE x ≤ roundHE y := by
  have hfl : ⌊x⌋ ≤ ⌊y⌋ := Int.floor_le_floor h
  rcases lt_or_eq_of_le hfl with hlt | heq
  · rcases roundHE_cases x with hx | hx <;> rcases roundHE_cases y with hy | hy <;> omega
  · rw [roundHE_def, roundHE_def, heq]
    have hd : x - (⌊y⌋ : K) ≤ y - (⌊y⌋ : K) := by linarith
    split_ifs <;> first | omega | (exfalso; linarith)

/-- nearest integer: no integer is closer to `x` than `roundHE x` -/
theorem roundHE_nearest (x : K) (m : ℤ) : |x - (roundHE x : K)| ≤ |x - (m : K)| := by
  obtain ⟨h1, h2⟩ := roundHE_sub_le x
  have hr : |x - (roundHE x : K)| ≤ 1 / 2 := by rw [abs_le]; constructor <;> linarith
  by_cases hm : m = roundHE x
  · rw [hm]
  · have : (1 : K) ≤ |((roundHE x : ℤ) : K) - (m : K)| := by
      rw [← Int.cast_sub, ← Int.cast_abs]
      have : (1 : ℤ) ≤ |roundHE x - m| := Int.one_le_abs (sub_ne_zero.mpr (Ne.symm hm))
      exact_mod_cast this
    have tri : |((roundHE x : ℤ) : K) - (m : K)| ≤ |x - (roundHE x : K)| + |x - (m : K)| := by
      have := abs_sub_le ((roundHE x : ℤ) : K) x (m : K)
      rwa [abs_sub_comm ((roundHE x : ℤ) : K) x] at this
    linarith

/-! cell bounds -/

theorem bound_zero (s : K) : bound s 0 = 0 := by
  unfold bound
  have : ((0 : ℕ) : K) * s = ((0 : ℤ) : K) := by simp
  rw [this, roundHE_intCast]; rfl

theorem spacing_mul (n subaps : ℕ) (h : 0 < subaps) : (subaps : K) * spacing n subaps = n := by
  unfold spacing
  have : (subaps : K) ≠ 0 := by exact_mod_cast h.ne'
  field_simp

theorem spacing_nonneg (n subaps : ℕ) : (0 : K) ≤ spacing n subaps := by
  unfold spacing; positivity

/-- the last bound is the mask size: nothing is cut off, nothing lies outside -/
theorem bound_last (n subaps : ℕ) (h : 0 < subaps) : bound (spacing n subaps : K) subaps = n := by
  unfold bound
  rw [spacing_mul n subaps h, roundHE_natCast]; rfl

theorem bound_mono (s : K) (hs : 0 ≤ s) {x x' : ℕ} (h : x ≤ x') : bound s x ≤ bound s x' := by
  unfold bound
  apply Int.toNat_le_toNat
  apply roundHE_mono
  have : (x : K) ≤ x' := by exact_mod_cast h
  exact mul_le_mul_of_nonneg_right this hs

theorem bound_le_size (n subaps x : ℕ) (h : 0 < subaps) (hx : x ≤ subaps) :
    bound (spacing n subaps : K) x ≤ n := by
  have := bound_mono (spacing n subaps : K) (spacing_nonneg n subaps) hx
  rwa [bound_last (K := K) n subaps h] at this

/-- when the sub-aperture count divides the mask size the bounds are the exact multiples of the integer spacing -/
theorem bound_of_dvd (m subaps x : ℕ) (h : 0 < subaps) : bound (spacing (m * subaps) subaps : K) x = x * m := by
  unfold bound spacing
  have hne : (subaps : K) ≠ 0 := by exact_mod_cast h.ne'
  have : (x : K) * (((m * subaps : ℕ) : K) / (subaps : K)) = ((x * m : ℕ) : K) := by
    push_cast; field_simp
  rw [this, roundHE_natCast]; rfl

/-- **the cells tile the axis**: every pixel index `p < n` lies in exactly one interval `[bound x, bound (x+1))`, `x < subaps` -/
theorem cells_tile (n subaps p : ℕ) (h : 0 < subaps) (hp : p < n) :
    ∃! x, x < subaps ∧ bound (spacing n subaps : K) x ≤ p ∧ p < bound (spacing n subaps : K) (x + 1) := by
  set b := bound (spacing n subaps : K) with hb
  have hmono : ∀ {x x'}, x ≤ x' → b x ≤ b x' := fun h => bound_mono (spacing n subaps : K) (spacing_nonneg n subaps) h
  have hex : ∃ x, p < b (x + 1) := ⟨subaps - 1, by
    rw [Nat.sub_add_cancel h, hb, bound_last (K := K) n subaps h]; exact hp⟩
  classical
  refine ⟨Nat.find hex, ⟨?_, ?_, Nat.find_spec hex⟩, ?_⟩
  · have : Nat.find hex ≤ subaps - 1 := Nat.find_min' hex (by
      rw [Nat.sub_add_cancel h, hb, bound_last (K := K) n subaps h]; exact hp)
    omega
  · rcases Nat.eq_zero_or_pos (Nat.find hex) with h0 | hpos
    · rw [h0, hb, bound_zero]; exact Nat.zero_le _
    · by_contra hlt
      have := Nat.find_min hex (m := Nat.find hex - 1) (by omega)
      rw [Nat.sub_add_cancel hpos] at this
      exact this (by omega)
  · rintro y ⟨-, hy1, hy2⟩
    have h1 := Nat.find_spec hex
    have hle : Nat.find hex ≤ y := Nat.find_min' hex hy2
    by_contra hne
    have hlt : Nat.find hex + 1 ≤ y := by omega
    have := hmono hlt
    omega

theorem roundHE_nonneg {x : K} (h : 0 ≤ x) : 0 ≤ roundHE x := by
  have := roundHE_mono h
  have h0 : roundHE (0 : K) = 0 := by simpa using roundHE_intCast (K := K) 0
  omega

/-- consecutive bounds are strictly increasing as soon as the spacing is at least one pixel -/
theorem bound_strict (s : K) (hs : 1 ≤ s) (x : ℕ) : bound s x < bound s (x + 1) := by
  unfold bound
  have ha : (0 : K) ≤ (x : K) * s := by positivity
  have hlt : roundHE ((x : K) * s) < roundHE (((x + 1 : ℕ) : K) * s) := by
    by_contra hcon
    have hle : roundHE (((x + 1 : ℕ) : K) * s) ≤ roundHE ((x : K) * s) := not_lt.mp hcon
    have hleK : (roundHE (((x + 1 : ℕ) : K) * s) : K) ≤ (roundHE ((x : K) * s) : K) := by exact_mod_cast hle
    have h1 := (roundHE_sub_le (((x + 1 : ℕ) : K) * s)).1
    have h2 := (roundHE_sub_le ((x : K) * s)).2
    have hs1 : s = 1 := by
      apply le_antisymm _ hs
      have e : ((x + 1 : ℕ) : K) * s = (x : K) * s + s := by push_cast; ring
      rw [e] at h1 hleK
      linarith
    subst hs1
    rw [mul_one, mul_one, roundHE_natCast, roundHE_natCast] at hle
    push_cast at hle; omega
  have := roundHE_nonneg ha
  omega

/-- every grid cell is non-empty when there are at most as many sub-apertures as pixels -/
theorem subapCount_pos (subaps n0 n1 x y : ℕ) (h : 0 < subaps) (h0 : subaps ≤ n0) (h1 : subaps ≤ n1)
    (hx : x < subaps) (hy : y < subaps) : subapCount K subaps n0 n1 x y ≠ 0 := by
  have one_le : ∀ n : ℕ, subaps ≤ n → (1 : K) ≤ spacing n subaps := by
    intro n hn
    unfold spacing
    have hpos : (0 : K) < subaps := by exact_mod_cast h
    rw [le_div_iff₀ hpos, one_mul]; exact_mod_cast hn
  have key : ∀ n k : ℕ, subaps ≤ n → k < subaps →
      0 < min (bound (spacing n subaps : K) (k + 1)) n - bound (spacing n subaps : K) k := by
    intro n k hn hk
    have := bound_strict (spacing n subaps : K) (one_le n hn) k
    have := bound_le_size (K := K) n subaps (k + 1) h hk
    omega
  unfold subapCount cellBounds
  simp only [cellCount, sliceIdx, List.length_range']
  exact Nat.mul_ne_zero (key n0 x h0 hx).ne' (key n1 y h1 hy).ne'

end Field

end AoVerif.Lemmas.Pupil
