/-
Discrete orthogonality of cos / sin on a uniform azimuthal grid `θ_b = b · 2π/n`, `b = 0..n-1`
(from the orthogonality of the characters of ℤ/n, `DFT.orth`, at the complex root `exp(2πi/n)`).
-/
import Mathlib.RingTheory.RootsOfUnity.Complex
import Mathlib.Analysis.Complex.Trigonometric
import Mathlib.Data.Complex.BigOperators
import Mathlib.Algebra.BigOperators.Field
import Mathlib.Analysis.SpecialFunctions.Trigonometric.Basic
import AoVerif.Lemmas.DFT

namespace AoVerif.TrigGrid
open Finset Real

/-- grid angle -/
noncomputable def ang (n b : ℕ) : ℝ := (b:ℝ) * (2 * π / n)

theorem exp_grid (n : ℕ) (hn : 0 < n) (d : ℤ) (b : ℕ) :
    Complex.exp (2 * π * Complex.I / n) ^ (d * (b:ℤ)) = Complex.exp ((((d:ℝ) * ang n b : ℝ) : ℂ) * Complex.I) := by
  rw [← Complex.exp_int_mul]
  congr 1
  have : (n:ℂ) ≠ 0 := by exact_mod_cast hn.ne'
  unfold ang
  push_cast
  field_simp

theorem sum_cos_int (n : ℕ) (hn : 0 < n) (d : ℤ) :
    ∑ b ∈ range n, Real.cos ((d:ℝ) * ang n b) = if (n:ℤ) ∣ d then (n:ℝ) else 0 := by
  have h := DFT.orth (Complex.isPrimitiveRoot_exp n hn.ne') hn d
  simp only [exp_grid n hn] at h
  have h2 := congrArg Complex.re h
  rw [Complex.re_sum] at h2
  simp only [Complex.exp_ofReal_mul_I_re] at h2
  rw [h2]
  split_ifs <;> simp

theorem sum_sin_int (n : ℕ) (hn : 0 < n) (d : ℤ) :
    ∑ b ∈ range n, Real.sin ((d:ℝ) * ang n b) = 0 := by
  have h := DFT.orth (Complex.isPrimitiveRoot_exp n hn.ne') hn d
  simp only [exp_grid n hn] at h
  have h2 := congrArg Complex.im h
  rw [Complex.im_sum] at h2
  simp only [Complex.exp_ofReal_mul_I_im] at h2
  rw [h2]
  split_ifs <;> simp

theorem not_dvd_of_pos_lt {n : ℕ} {d : ℤ} (h0 : d ≠ 0) (h1 : |d| < n) : ¬ (n:ℤ) ∣ d := by
  intro h
  have := Int.le_of_dvd (abs_pos.2 h0) ((dvd_abs _ _).2 h)
  omega

/-- `Σ_b cos(p θ_b) = 0` for `0 < p < n` -/
theorem sum_cos_nat (n p : ℕ) (hp : 0 < p) (hpn : p < n) : ∑ b ∈ range n, Real.cos ((p:ℝ) * ang n b) = 0 := by
  have := sum_cos_int n (by omega) (p:ℤ)
  rw [if_neg (not_dvd_of_pos_lt (by omega) (by rw [abs_of_nonneg (by omega)]; omega))] at this
  simpa using this

theorem sum_sin_nat (n p : ℕ) (hn : 0 < n) : ∑ b ∈ range n, Real.sin ((p:ℝ) * ang n b) = 0 := by
  simpa using sum_sin_int n hn (p:ℤ)

theorem sum_cos_cos (n p q : ℕ) (hp : 0 < p) (hq : 0 < q) (hpq : p + q < n) :
    ∑ b ∈ range n, Real.cos ((p:ℝ) * ang n b) * Real.cos ((q:ℝ) * ang n b) = if p = q then (n:ℝ) / 2 else 0 := by
  have hn : 0 < n := by omega
  have e : ∀ b, Real.cos ((p:ℝ) * ang n b) * Real.cos ((q:ℝ) * ang n b)
      = (Real.cos ((((p:ℤ) - q : ℤ) : ℝ) * ang n b) + Real.cos ((((p:ℤ) + q : ℤ) : ℝ) * ang n b)) / 2 := by
    intro b; push_cast; rw [sub_mul, add_mul, Real.cos_sub, Real.cos_add]; ring
  simp only [e]
  rw [← Finset.sum_div, sum_add_distrib, sum_cos_int n hn, sum_cos_int n hn]
  rw [if_neg (not_dvd_of_pos_lt (d := (p:ℤ) + q) (by omega) (by rw [abs_of_nonneg (by omega)]; omega))]
  by_cases hpq' : p = q
  · subst hpq'; simp
  · rw [if_neg hpq', if_neg (not_dvd_of_pos_lt (d := (p:ℤ) - q) (by omega) (by rw [abs_lt]; constructor <;> omega))]
    simp

theorem sum_sin_sin (n p q : ℕ) (hp : 0 < p) (hq : 0 < q) (hpq : p + q < n) :
    ∑ b ∈ range n, Real.sin ((p:ℝ) * ang n b) * Real.sin ((q:ℝ) * ang n b) = if p = q then (n:ℝ) / 2 else 0 := by
  have hn : 0 < n := by omega
  have e : ∀ b, Real.sin ((p:ℝ) * ang n b) * Real.sin ((q:ℝ) * ang n b)
      = (Real.cos ((((p:ℤ) - q : ℤ) : ℝ) * ang n b) - Real.cos ((((p:ℤ) + q : ℤ) : ℝ) * ang n b)) / 2 := by
    intro b; push_cast; rw [sub_mul, add_mul, Real.cos_sub, Real.cos_add]; ring
  simp only [e]
  rw [← Finset.sum_div, sum_sub_distrib, sum_cos_int n hn, sum_cos_int n hn]
  rw [if_neg (not_dvd_of_pos_lt (d := (p:ℤ) + q) (by omega) (by rw [abs_of_nonneg (by omega)]; omega))]
  by_cases hpq' : p = q
  · subst hpq'; simp
  · rw [if_neg hpq', if_neg (not_dvd_of_pos_lt (d := (p:ℤ) - q) (by omega) (by rw [abs_lt]; constructor <;> omega))]
    simp

theorem sum_sin_cos (n p q : ℕ) (hn : 0 < n) :
    ∑ b ∈ range n, Real.sin ((p:ℝ) * ang n b) * Real.cos ((q:ℝ) * ang n b) = 0 := by
  have e : ∀ b, Real.sin ((p:ℝ) * ang n b) * Real.cos ((q:ℝ) * ang n b)
      = (Real.sin ((((p:ℤ) + q : ℤ) : ℝ) * ang n b) + Real.sin ((((p:ℤ) - q : ℤ) : ℝ) * ang n b)) / 2 := by
    intro b; push_cast; rw [sub_mul, add_mul, Real.sin_sub, Real.sin_add]; ring
  simp only [e]
  rw [← Finset.sum_div, sum_add_distrib, sum_sin_int n hn, sum_sin_int n hn]; simp

theorem sum_cos_sin (n p q : ℕ) (hn : 0 < n) :
    ∑ b ∈ range n, Real.cos ((p:ℝ) * ang n b) * Real.sin ((q:ℝ) * ang n b) = 0 := by
  simp only [mul_comm (Real.cos _)]
  exact sum_sin_cos n q p hn

end AoVerif.TrigGrid

/-! ### circulant double sums over the grid -/
namespace AoVerif.TrigGrid
open Finset Real

theorem periodic_mul {n : ℕ} {h : ℕ → ℝ} (hper : ∀ m, h (m + n) = h m) (m q : ℕ) : h (m + n * q) = h m := by
  induction q with
  | zero => simp
  | succ q ih => rw [Nat.mul_succ, ← Nat.add_assoc, hper, ih]

theorem periodic_mod {n : ℕ} {h : ℕ → ℝ} (hper : ∀ m, h (m + n) = h m) (m : ℕ) : h (m % n) = h m := by
  conv_rhs => rw [← Nat.mod_add_div m n]
  rw [periodic_mul hper]

theorem sum_periodic_shift {n : ℕ} (hn : 0 < n) {h : ℕ → ℝ} (hper : ∀ m, h (m + n) = h m) (s : ℕ) :
    ∑ j ∈ range n, h (j + s) = ∑ j ∈ range n, h j := by
  rw [← DFT.sum_shift hn h s]
  exact sum_congr rfl (fun j _ => (periodic_mod hper _).symm)

/-- a matrix whose entry depends on `b - b'` modulo `n` only acts on a periodic sequence by circular correlation -/
theorem circulant_sum {n : ℕ} (hn : 0 < n) {u w : ℕ → ℝ} (hu : ∀ m, u (m + n) = u m) (hw : ∀ m, w (m + n) = w m)
    (b' : ℕ) (hb' : b' < n) :
    ∑ b ∈ range n, u b * w (b + n - b') = ∑ c ∈ range n, u (c + b') * w c := by
  have hper : ∀ m, (fun m => u m * w (m + n - b')) (m + n) = (fun m => u m * w (m + n - b')) m := by
    intro m
    show u (m + n) * w (m + n + n - b') = u m * w (m + n - b')
    rw [hu, show m + n + n - b' = (m + n - b') + n by omega, hw]
  rw [← sum_periodic_shift hn hper b']
  apply sum_congr rfl; intro j _
  show u (j + b') * w (j + b' + n - b') = u (j + b') * w j
  rw [show j + b' + n - b' = j + n by omega, hw]

theorem ang_add (n c b : ℕ) : ang n (c + b) = ang n c + ang n b := by unfold ang; push_cast; ring

theorem ang_period (n m : ℕ) (hn : 0 < n) : ang n (m + n) = ang n m + 2 * π := by
  unfold ang; push_cast
  have : (n:ℝ) ≠ 0 := by exact_mod_cast hn.ne'
  field_simp

theorem cos_grid_periodic (n p : ℕ) (hn : 0 < n) (m : ℕ) :
    Real.cos ((p:ℝ) * ang n (m + n)) = Real.cos ((p:ℝ) * ang n m) := by
  rw [ang_period n m hn, mul_add, show (p:ℝ) * (2 * π) = (p:ℕ) * (2 * π) by rfl, Real.cos_add_nat_mul_two_pi]

theorem sin_grid_periodic (n p : ℕ) (hn : 0 < n) (m : ℕ) :
    Real.sin ((p:ℝ) * ang n (m + n)) = Real.sin ((p:ℝ) * ang n m) := by
  rw [ang_period n m hn, mul_add, show (p:ℝ) * (2 * π) = (p:ℕ) * (2 * π) by rfl, Real.sin_add_nat_mul_two_pi]

/-- cos/cos block: `Σ_b Σ_b' cos(pθ_b) w(b-b') cos(qθ_b') = δ_pq (n/2) Σ_c w(c) cos(pθ_c)` -/
theorem block_cos_cos (n p q : ℕ) (hp : 0 < p) (hq : 0 < q) (hpq : p + q < n) {w : ℕ → ℝ}
    (hw : ∀ m, w (m + n) = w m) :
    ∑ b ∈ range n, ∑ b' ∈ range n, Real.cos ((p:ℝ) * ang n b) * w (b + n - b') * Real.cos ((q:ℝ) * ang n b')
      = (if p = q then (n:ℝ) / 2 else 0) * ∑ c ∈ range n, w c * Real.cos ((p:ℝ) * ang n c) := by
  have hn : 0 < n := by omega
  rw [sum_comm]
  have e1 : ∀ b' ∈ range n, ∑ b ∈ range n, Real.cos ((p:ℝ) * ang n b) * w (b + n - b') * Real.cos ((q:ℝ) * ang n b')
      = ∑ c ∈ range n, w c * (Real.cos ((p:ℝ) * ang n (c + b')) * Real.cos ((q:ℝ) * ang n b')) := by
    intro b' hb'
    rw [← Finset.sum_mul, circulant_sum hn (cos_grid_periodic n p hn) hw b' (mem_range.1 hb'), Finset.sum_mul]
    exact sum_congr rfl (fun c _ => by ring)
  rw [sum_congr rfl e1, sum_comm]
  simp only [← Finset.mul_sum]
  have e2 : ∀ c, ∑ b' ∈ range n, Real.cos ((p:ℝ) * ang n (c + b')) * Real.cos ((q:ℝ) * ang n b')
      = Real.cos ((p:ℝ) * ang n c) * (if p = q then (n:ℝ) / 2 else 0) := by
    intro c
    have : ∀ b', Real.cos ((p:ℝ) * ang n (c + b')) * Real.cos ((q:ℝ) * ang n b')
        = Real.cos ((p:ℝ) * ang n c) * (Real.cos ((p:ℝ) * ang n b') * Real.cos ((q:ℝ) * ang n b'))
          - Real.sin ((p:ℝ) * ang n c) * (Real.sin ((p:ℝ) * ang n b') * Real.cos ((q:ℝ) * ang n b')) := by
      intro b'; rw [ang_add, mul_add, Real.cos_add]; ring
    simp only [this, sum_sub_distrib, ← Finset.mul_sum]
    rw [sum_cos_cos n p q hp hq hpq, sum_sin_cos n p q hn]; ring
  simp only [e2]
  rw [Finset.mul_sum]
  exact sum_congr rfl (fun c _ => by ring)


/-- the three other blocks: only the expansion of `A(θ_c + θ_b')` changes -/
theorem block_sin_sin (n p q : ℕ) (hp : 0 < p) (hq : 0 < q) (hpq : p + q < n) {w : ℕ → ℝ}
    (hw : ∀ m, w (m + n) = w m) :
    ∑ b ∈ range n, ∑ b' ∈ range n, Real.sin ((p:ℝ) * ang n b) * w (b + n - b') * Real.sin ((q:ℝ) * ang n b')
      = (if p = q then (n:ℝ) / 2 else 0) * ∑ c ∈ range n, w c * Real.cos ((p:ℝ) * ang n c) := by
  have hn : 0 < n := by omega
  rw [sum_comm]
  have e1 : ∀ b' ∈ range n, ∑ b ∈ range n, Real.sin ((p:ℝ) * ang n b) * w (b + n - b') * Real.sin ((q:ℝ) * ang n b')
      = ∑ c ∈ range n, w c * (Real.sin ((p:ℝ) * ang n (c + b')) * Real.sin ((q:ℝ) * ang n b')) := by
    intro b' hb'
    rw [← Finset.sum_mul, circulant_sum hn (sin_grid_periodic n p hn) hw b' (mem_range.1 hb'), Finset.sum_mul]
    exact sum_congr rfl (fun c _ => by ring)
  rw [sum_congr rfl e1, sum_comm]
  simp only [← Finset.mul_sum]
  have e2 : ∀ c, ∑ b' ∈ range n, Real.sin ((p:ℝ) * ang n (c + b')) * Real.sin ((q:ℝ) * ang n b')
      = Real.cos ((p:ℝ) * ang n c) * (if p = q then (n:ℝ) / 2 else 0) := by
    intro c
    have : ∀ b', Real.sin ((p:ℝ) * ang n (c + b')) * Real.sin ((q:ℝ) * ang n b')
        = Real.sin ((p:ℝ) * ang n c) * (Real.cos ((p:ℝ) * ang n b') * Real.sin ((q:ℝ) * ang n b'))
          + Real.cos ((p:ℝ) * ang n c) * (Real.sin ((p:ℝ) * ang n b') * Real.sin ((q:ℝ) * ang n b')) := by
      intro b'; rw [ang_add, mul_add, Real.sin_add]; ring
    simp only [this, sum_add_distrib, ← Finset.mul_sum]
    rw [sum_sin_sin n p q hp hq hpq, sum_cos_sin n p q hn]; ring
  simp only [e2]
  rw [Finset.mul_sum]
  exact sum_congr rfl (fun c _ => by ring)

theorem block_cos_sin (n p q : ℕ) (hp : 0 < p) (hq : 0 < q) (hpq : p + q < n) {w : ℕ → ℝ}
    (hw : ∀ m, w (m + n) = w m) :
    ∑ b ∈ range n, ∑ b' ∈ range n, Real.cos ((p:ℝ) * ang n b) * w (b + n - b') * Real.sin ((q:ℝ) * ang n b')
      = -(if p = q then (n:ℝ) / 2 else 0) * ∑ c ∈ range n, w c * Real.sin ((p:ℝ) * ang n c) := by
  have hn : 0 < n := by omega
  rw [sum_comm]
  have e1 : ∀ b' ∈ range n, ∑ b ∈ range n, Real.cos ((p:ℝ) * ang n b) * w (b + n - b') * Real.sin ((q:ℝ) * ang n b')
      = ∑ c ∈ range n, w c * (Real.cos ((p:ℝ) * ang n (c + b')) * Real.sin ((q:ℝ) * ang n b')) := by
    intro b' hb'
    rw [← Finset.sum_mul, circulant_sum hn (cos_grid_periodic n p hn) hw b' (mem_range.1 hb'), Finset.sum_mul]
    exact sum_congr rfl (fun c _ => by ring)
  rw [sum_congr rfl e1, sum_comm]
  simp only [← Finset.mul_sum]
  have e2 : ∀ c, ∑ b' ∈ range n, Real.cos ((p:ℝ) * ang n (c + b')) * Real.sin ((q:ℝ) * ang n b')
      = -(Real.sin ((p:ℝ) * ang n c) * (if p = q then (n:ℝ) / 2 else 0)) := by
    intro c
    have : ∀ b', Real.cos ((p:ℝ) * ang n (c + b')) * Real.sin ((q:ℝ) * ang n b')
        = Real.cos ((p:ℝ) * ang n c) * (Real.cos ((p:ℝ) * ang n b') * Real.sin ((q:ℝ) * ang n b'))
          - Real.sin ((p:ℝ) * ang n c) * (Real.sin ((p:ℝ) * ang n b') * Real.sin ((q:ℝ) * ang n b')) := by
      intro b'; rw [ang_add, mul_add, Real.cos_add]; ring
    simp only [this, sum_sub_distrib, ← Finset.mul_sum]
    rw [sum_sin_sin n p q hp hq hpq, sum_cos_sin n p q hn]; ring
  simp only [e2]
  rw [Finset.mul_sum]
  exact sum_congr rfl (fun c _ => by ring)

theorem block_sin_cos (n p q : ℕ) (hp : 0 < p) (hq : 0 < q) (hpq : p + q < n) {w : ℕ → ℝ}
    (hw : ∀ m, w (m + n) = w m) :
    ∑ b ∈ range n, ∑ b' ∈ range n, Real.sin ((p:ℝ) * ang n b) * w (b + n - b') * Real.cos ((q:ℝ) * ang n b')
      = (if p = q then (n:ℝ) / 2 else 0) * ∑ c ∈ range n, w c * Real.sin ((p:ℝ) * ang n c) := by
  have hn : 0 < n := by omega
  rw [sum_comm]
  have e1 : ∀ b' ∈ range n, ∑ b ∈ range n, Real.sin ((p:ℝ) * ang n b) * w (b + n - b') * Real.cos ((q:ℝ) * ang n b')
      = ∑ c ∈ range n, w c * (Real.sin ((p:ℝ) * ang n (c + b')) * Real.cos ((q:ℝ) * ang n b')) := by
    intro b' hb'
    rw [← Finset.sum_mul, circulant_sum hn (sin_grid_periodic n p hn) hw b' (mem_range.1 hb'), Finset.sum_mul]
    exact sum_congr rfl (fun c _ => by ring)
  rw [sum_congr rfl e1, sum_comm]
  simp only [← Finset.mul_sum]
  have e2 : ∀ c, ∑ b' ∈ range n, Real.sin ((p:ℝ) * ang n (c + b')) * Real.cos ((q:ℝ) * ang n b')
      = Real.sin ((p:ℝ) * ang n c) * (if p = q then (n:ℝ) / 2 else 0) := by
    intro c
    have : ∀ b', Real.sin ((p:ℝ) * ang n (c + b')) * Real.cos ((q:ℝ) * ang n b')
        = Real.sin ((p:ℝ) * ang n c) * (Real.cos ((p:ℝ) * ang n b') * Real.cos ((q:ℝ) * ang n b'))
          + Real.cos ((p:ℝ) * ang n c) * (Real.sin ((p:ℝ) * ang n b') * Real.cos ((q:ℝ) * ang n b')) := by
      intro b'; rw [ang_add, mul_add, Real.sin_add]; ring
    simp only [this, sum_add_distrib, ← Finset.mul_sum]
    rw [sum_cos_cos n p q hp hq hpq, sum_sin_cos n p q hn]; ring
  simp only [e2]
  rw [Finset.mul_sum]
  exact sum_congr rfl (fun c _ => by ring)

/-- constant/anything block: `Σ_b Σ_b' 1 · w(b-b') · A(b') = (Σ_c w(c)) · Σ_b' A(b')` (every column of a circulant matrix has
the same sum) -/
theorem block_one (n : ℕ) (hn : 0 < n) {w : ℕ → ℝ} (hw : ∀ m, w (m + n) = w m) (A : ℕ → ℝ) :
    ∑ b ∈ range n, ∑ b' ∈ range n, w (b + n - b') * A b' = (∑ c ∈ range n, w c) * ∑ b' ∈ range n, A b' := by
  rw [sum_comm, Finset.mul_sum]
  apply sum_congr rfl; intro b' hb'
  rw [← Finset.sum_mul]
  have := circulant_sum hn (u := fun _ => 1) (fun _ => rfl) hw b' (mem_range.1 hb')
  simp only [one_mul] at this
  rw [this]

/-- an even sequence on the grid has no sine component -/
theorem sum_even_sin (n p : ℕ) (hn : 0 < n) {w : ℕ → ℝ} (hev : ∀ c, c ≤ n → w (n - c) = w c) :
    ∑ c ∈ range n, w c * Real.sin ((p:ℝ) * ang n c) = 0 := by
  obtain ⟨m, rfl⟩ : ∃ m, n = m + 1 := ⟨n - 1, by omega⟩
  set h : ℕ → ℝ := fun c => w c * Real.sin ((p:ℝ) * ang (m+1) c) with hh
  have hodd : ∀ c, c ≤ m + 1 → h (m + 1 - c) = - h c := by
    intro c hc
    simp only [hh]
    rw [hev c hc]
    have : (p:ℝ) * ang (m+1) (m + 1 - c) = (p:ℕ) * (2 * π) - (p:ℝ) * ang (m+1) c := by
      unfold ang
      rw [Nat.cast_sub hc]
      have : ((m + 1 : ℕ) : ℝ) ≠ 0 := by positivity
      field_simp
    rw [this, Real.sin_nat_mul_two_pi_sub]; ring
  rw [sum_range_succ']
  have h0 : h 0 = 0 := by simp [hh, ang]
  have hT : ∑ j ∈ range m, h (j + 1) = - ∑ j ∈ range m, h (j + 1) := by
    conv_lhs => rw [← Finset.sum_range_reflect]
    rw [← Finset.sum_neg_distrib]
    apply sum_congr rfl; intro j hj
    have hj' := mem_range.1 hj
    rw [show m - 1 - j + 1 = m + 1 - (j + 1) by omega, hodd (j + 1) (by omega)]
  show ∑ j ∈ range m, h (j + 1) + h 0 = 0
  rw [h0]; linarith

end AoVerif.TrigGrid
