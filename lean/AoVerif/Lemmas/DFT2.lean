/-
Two-dimensional discrete-Fourier lemmas on top of `Lemmas/DFT.lean` / `Props/C09.lean`:
linearity of `ft`/`ift`/`ft2`/`ift2` for ANY kernel table, congruence (only indices `< n` are read), the centred 2-D DFT
`cdft2`, its inversion, 2-D Plancherel, and (over ℂ) 2-D Parseval for `ft2` and `ift2`.
-/
import AoVerif.Props.C09

namespace AoVerif.DFT2
open Finset AoVerif AoVerif.Fourier AoVerif.DFT

/-! ### linearity and congruence for an arbitrary kernel table -/
section anytable
variable {K : Type} [Field K] {n : ℕ}

theorem ft_lin (w : ℕ → K) (δ α β : K) (x y : ℕ → K) (k : ℕ) :
    ft n w δ (fun j => α * x j + β * y j) k = α * ft n w δ x k + β * ft n w δ y k := by
  unfold ft fftshift dft ifftshift
  simp only [sumTo_eq_sum]
  have : ∀ k', ∑ j ∈ range n, (α * x ((j + n / 2) % n) + β * y ((j + n / 2) % n)) * w (j * k' % n)
      = α * ∑ j ∈ range n, x ((j + n / 2) % n) * w (j * k' % n) + β * ∑ j ∈ range n, y ((j + n / 2) % n) * w (j * k' % n) := by
    intro k'
    rw [mul_sum, mul_sum, ← sum_add_distrib]
    exact sum_congr rfl (fun j _ => by ring)
  rw [this]; ring

theorem ift_lin (w : ℕ → K) (ninv nC δ α β : K) (x y : ℕ → K) (k : ℕ) :
    ift n w ninv nC δ (fun j => α * x j + β * y j) k = α * ift n w ninv nC δ x k + β * ift n w ninv nC δ y k := by
  unfold ift fftshift idft ifftshift
  simp only [sumTo_eq_sum]
  have : ∀ k', ∑ j ∈ range n, (α * x ((j + n / 2) % n) + β * y ((j + n / 2) % n)) * w (k' * j % n)
      = α * ∑ j ∈ range n, x ((j + n / 2) % n) * w (k' * j % n) + β * ∑ j ∈ range n, y ((j + n / 2) % n) * w (k' * j % n) := by
    intro k'
    rw [mul_sum, mul_sum, ← sum_add_distrib]
    exact sum_congr rfl (fun j _ => by ring)
  rw [this]; ring

theorem ft2_lin (w : ℕ → K) (δ α β : K) (x y : ℕ → ℕ → K) (a b : ℕ) :
    ft2 n w δ (fun a b => α * x a b + β * y a b) a b = α * ft2 n w δ x a b + β * ft2 n w δ y a b := by
  unfold ft2
  simp only [ft_lin]

theorem ift2_lin (w : ℕ → K) (ninv nC δ α β : K) (x y : ℕ → ℕ → K) (a b : ℕ) :
    ift2 n w ninv nC δ (fun a b => α * x a b + β * y a b) a b
      = α * ift2 n w ninv nC δ x a b + β * ift2 n w ninv nC δ y a b := by
  unfold ift2
  simp only [ift_lin]

theorem ft2_congr (w : ℕ → K) (δ : K) {x y : ℕ → ℕ → K} (h : ∀ a < n, ∀ b < n, x a b = y a b) (a b : ℕ) :
    ft2 n w δ x a b = ft2 n w δ y a b := by
  unfold ft2
  apply Props.C09.ft_congr
  intro a' ha'
  exact Props.C09.ft_congr _ _ (fun b' hb' => h a' ha' b' hb') b

theorem ift2_congr (w : ℕ → K) (ninv nC δ : K) {x y : ℕ → ℕ → K} (h : ∀ a < n, ∀ b < n, x a b = y a b) (a b : ℕ) :
    ift2 n w ninv nC δ x a b = ift2 n w ninv nC δ y a b := by
  unfold ift2
  apply Props.C09.ift_congr
  intro a' ha'
  exact Props.C09.ift_congr _ _ _ _ (fun b' hb' => h a' ha' b' hb') b

end anytable

/-! ### the centred 2-D DFT -/
section centred
variable {K : Type} [Field K] {n : ℕ} {ζ : K}

/-- centred 2-D DFT: transform along the second index, then along the first -/
noncomputable def cdft2 (n : ℕ) (ζ : K) (x : ℕ → ℕ → K) (a b : ℕ) : K :=
  cdft n ζ (fun a' => cdft n ζ (fun b' => x a' b') b) a

theorem cdft2_sum (x : ℕ → ℕ → K) (a b : ℕ) :
    cdft2 n ζ x a b = ∑ a' ∈ range n, ∑ b' ∈ range n,
      x a' b' * (ζ ^ (((a':ℤ) - ctr n) * ((a:ℤ) - ctr n)) * ζ ^ (((b':ℤ) - ctr n) * ((b:ℤ) - ctr n))) := by
  unfold cdft2 cdft
  apply sum_congr rfl; intro a' _
  rw [sum_mul]
  apply sum_congr rfl; intro b' _
  ring

theorem ft2_eq (hζ : IsPrimitiveRoot ζ n) (hn : 0 < n) (δ : K) (x : ℕ → ℕ → K) (a b : ℕ) :
    ft2 n (fun m => ζ ^ m) δ x a b = cdft2 n ζ x a b * (δ * δ) := by
  unfold ft2 cdft2
  rw [DFT.ft_centred hζ hn]
  have : cdft n ζ (fun a' => ft n (fun m => ζ ^ m) δ (fun b' => x a' b') b) a
      = cdft n ζ (fun a' => cdft n ζ (fun b' => x a' b') b * δ) a :=
    cdft_congr (fun a' _ => DFT.ft_centred hζ hn δ _ b) a
  rw [this, cdft_mul_const]; ring

theorem ift2_eq (hζ : IsPrimitiveRoot ζ n) (hn : 0 < n) (ninv nC δf : K) (X : ℕ → ℕ → K) (a b : ℕ) :
    ift2 n (fun m => ζ⁻¹ ^ m) ninv nC δf X a b = cdft2 n ζ⁻¹ X a b * ((ninv * nC * δf) * (ninv * nC * δf)) := by
  unfold ift2 cdft2
  rw [DFT.ift_centred hζ hn]
  have : cdft n ζ⁻¹ (fun a' => ift n (fun m => ζ⁻¹ ^ m) ninv nC δf (fun b' => X a' b') b) a
      = cdft n ζ⁻¹ (fun a' => cdft n ζ⁻¹ (fun b' => X a' b') b * (ninv * nC * δf)) a :=
    cdft_congr (fun a' _ => by rw [DFT.ift_centred hζ hn]; ring) a
  rw [this, cdft_mul_const]; ring

theorem cdft2_congr {x y : ℕ → ℕ → K} (h : ∀ a < n, ∀ b < n, x a b = y a b) (a b : ℕ) :
    cdft2 n ζ x a b = cdft2 n ζ y a b := by
  unfold cdft2
  exact cdft_congr (fun a' ha' => cdft_congr (fun b' hb' => h a' ha' b' hb') b) a

theorem cdft2_mul_const (c : K) (x : ℕ → ℕ → K) (a b : ℕ) :
    cdft2 n ζ (fun a b => x a b * c) a b = cdft2 n ζ x a b * c := by
  unfold cdft2
  simp only [cdft_mul_const]

theorem cdft2_const_mul (c : K) (x : ℕ → ℕ → K) (a b : ℕ) :
    cdft2 n ζ (fun a b => c * x a b) a b = c * cdft2 n ζ x a b := by
  unfold cdft2
  simp only [cdft_smul]

/-- the two 1-D transforms commute -/
theorem cdft2_swap (x : ℕ → ℕ → K) (a b : ℕ) :
    cdft2 n ζ x a b = cdft n ζ (fun b' => cdft n ζ (fun a' => x a' b') a) b := by
  unfold cdft2 cdft
  simp only [sum_mul]
  rw [sum_comm]
  exact sum_congr rfl (fun i _ => sum_congr rfl (fun l _ => by ring))

/-- inversion of the centred 2-D DFT -/
theorem cdft2_inv (hζ : IsPrimitiveRoot ζ n) (hn : 0 < n) (x : ℕ → ℕ → K) {a b : ℕ} (ha : a < n) (hb : b < n) :
    cdft2 n ζ⁻¹ (cdft2 n ζ x) a b = (n : K) * (n : K) * x a b := by
  -- inner inverse along b undoes (after swapping) the forward transform along b
  have inner : ∀ a' < n, cdft n ζ⁻¹ (fun b' => cdft2 n ζ x a' b') b = (n : K) * cdft n ζ (fun a'' => x a'' b) a' := by
    intro a' _
    have : ∀ b', cdft2 n ζ x a' b' = cdft n ζ (fun b'' => cdft n ζ (fun a'' => x a'' b'') a') b' :=
      fun b' => cdft2_swap x a' b'
    simp only [this]
    exact cdft_inv hζ hn (fun b'' => cdft n ζ (fun a'' => x a'' b'') a') hb
  unfold cdft2 at inner ⊢
  rw [cdft_congr inner a, cdft_smul, cdft_inv hζ hn (fun a'' => x a'' b) ha]
  ring

/-- 2-D Plancherel over any field -/
theorem plancherel2 (hζ : IsPrimitiveRoot ζ n) (hn : 0 < n) (x y : ℕ → ℕ → K) :
    ∑ a ∈ range n, ∑ b ∈ range n, cdft2 n ζ x a b * cdft2 n ζ⁻¹ y a b
      = (n : K) * (n : K) * ∑ a ∈ range n, ∑ b ∈ range n, x a b * y a b := by
  -- along the first index (outer transform), for each fixed b
  have step1 : ∑ a ∈ range n, ∑ b ∈ range n, cdft2 n ζ x a b * cdft2 n ζ⁻¹ y a b
      = ∑ b ∈ range n, (n : K) * ∑ a' ∈ range n,
          cdft n ζ (fun b' => x a' b') b * cdft n ζ⁻¹ (fun b' => y a' b') b := by
    rw [sum_comm]
    apply sum_congr rfl; intro b _
    exact DFT.plancherel hζ hn (fun a' => cdft n ζ (fun b' => x a' b') b) (fun a' => cdft n ζ⁻¹ (fun b' => y a' b') b)
  rw [step1, ← mul_sum, sum_comm]
  have step2 : ∀ a' ∈ range n, ∑ b ∈ range n, cdft n ζ (fun b' => x a' b') b * cdft n ζ⁻¹ (fun b' => y a' b') b
      = (n : K) * ∑ b' ∈ range n, x a' b' * y a' b' :=
    fun a' _ => DFT.plancherel hζ hn (fun b' => x a' b') (fun b' => y a' b')
  rw [sum_congr rfl step2, ← mul_sum]; ring

end centred

/-! ### complex numbers: 2-D Parseval -/
section complex
open Complex
variable {n : ℕ} {ζ : ℂ}

theorem cdft2_conj (hζ : IsPrimitiveRoot ζ n) (hn : 0 < n) (x : ℕ → ℕ → ℂ) (a b : ℕ) :
    cdft2 n ζ⁻¹ (fun a b => (starRingEnd ℂ) (x a b)) a b = (starRingEnd ℂ) (cdft2 n ζ x a b) := by
  have hc := Props.C09.conj_root hζ hn
  rw [cdft2_sum, cdft2_sum, map_sum]
  apply sum_congr rfl; intro a' _
  rw [map_sum]
  apply sum_congr rfl; intro b' _
  rw [map_mul, map_mul, map_zpow₀, map_zpow₀, hc]

/-- `Σ_{a,b} |X_{ab}|² = n² Σ |x_{ab}|²` for the centred 2-D DFT `X` of `x` -/
theorem parseval_cdft2 (hζ : IsPrimitiveRoot ζ n) (hn : 0 < n) (x : ℕ → ℕ → ℂ) :
    ∑ a ∈ range n, ∑ b ∈ range n, Complex.normSq (cdft2 n ζ x a b)
      = (n : ℝ) * (n : ℝ) * ∑ a ∈ range n, ∑ b ∈ range n, Complex.normSq (x a b) := by
  have key := plancherel2 hζ hn x (fun a b => (starRingEnd ℂ) (x a b))
  simp only [cdft2_conj hζ hn, Complex.mul_conj] at key
  have := congrArg Complex.re key
  simpa [← Complex.ofReal_sum, ← Complex.ofReal_mul] using this

/-- Parseval for `ft2`: `Σ|ft2(x, δ)|² = n² δ⁴ Σ|x|²` (so `Σ|X|² δf² = Σ|x|² δ²` when `n δ δf = 1`) -/
theorem ft2_normSq_sum (hζ : IsPrimitiveRoot ζ n) (hn : 0 < n) (δ : ℝ) (x : ℕ → ℕ → ℂ) :
    ∑ a ∈ range n, ∑ b ∈ range n, Complex.normSq (ft2 n (fun m => ζ ^ m) (δ:ℂ) x a b)
      = (n : ℝ) ^ 2 * δ ^ 4 * ∑ a ∈ range n, ∑ b ∈ range n, Complex.normSq (x a b) := by
  simp only [ft2_eq hζ hn, Complex.normSq_mul, Complex.normSq_ofReal]
  simp only [← sum_mul]
  rw [parseval_cdft2 hζ hn]; ring

/-- Parseval for `ift2` (called with `ninv = 1/n`, `nC = n`): `Σ|ift2(X, δf)|² = n² δf⁴ Σ|X|²` -/
theorem ift2_normSq_sum (hζ : IsPrimitiveRoot ζ n) (hn : 0 < n) (δf : ℝ) (X : ℕ → ℕ → ℂ) :
    ∑ a ∈ range n, ∑ b ∈ range n,
        Complex.normSq (ift2 n (fun m => ζ⁻¹ ^ m) (1 / (n:ℂ)) (n:ℂ) (δf:ℂ) X a b)
      = (n : ℝ) ^ 2 * δf ^ 4 * ∑ a ∈ range n, ∑ b ∈ range n, Complex.normSq (X a b) := by
  have hnC : (n:ℂ) ≠ 0 := by exact_mod_cast (Nat.pos_iff_ne_zero.mp hn)
  have h1 : (1 / (n:ℂ)) * (n:ℂ) * (δf:ℂ) = (δf:ℂ) := by field_simp
  simp only [ift2_eq hζ hn, h1, Complex.normSq_mul, Complex.normSq_ofReal]
  simp only [← sum_mul]
  have := parseval_cdft2 hζ.inv hn X
  rw [this]; ring

end complex

end AoVerif.DFT2
