/-
Reduction of the two padded-frame hypotheses of `corr_displacement` to the un-padded inputs:
* minima (`min2`) are attained, dominate, and are unchanged by a roll;
* zero-padding commutes with a roll that keeps the content inside the frame;
* the autocorrelation of a zero-padded image whose content lies in a box vanishes outside the lags `|k| ≤ w − 1`,
  so that the shifted correlation surface does not wrap when the lags `s ± (w − 1)` fit the window of the padded frame.
-/
import AoVerif.Lemmas.CentroidCirc
import Mathlib.Tactic.Push

namespace AoVerif.Centroid
open Finset AoVerif
set_option linter.unusedSectionVars false

/-! ### integer windows -/

theorem int_mul_eq_zero_of_abs_lt {n c : ℤ} (hn : 0 < n) (h1 : -n < n * c) (h2 : n * c < n) : c = 0 := by
  by_contra hc
  rcases lt_or_gt_of_ne hc with h | h
  · have : n * c ≤ n * (-1) := Int.mul_le_mul_of_nonneg_left (by omega) hn.le
    omega
  · have : n * 1 ≤ n * c := Int.mul_le_mul_of_nonneg_left (by omega) hn.le
    omega

/-- two integers of one window of length `n` that agree modulo `n` are equal -/
theorem eq_of_emod_eq_of_window {n x y lo : ℤ} (hn : 0 < n) (hx : lo ≤ x) (hx' : x < lo + n) (hy : lo ≤ y)
    (hy' : y < lo + n) (h : x % n = y % n) : x = y := by
  have h0 : (x - y) % n = 0 := (Int.emod_eq_emod_iff_emod_sub_eq_zero).mp h
  obtain ⟨c, hc⟩ := Int.dvd_of_emod_eq_zero h0
  have : c = 0 := int_mul_eq_zero_of_abs_lt hn (by omega) (by omega)
  rw [this, mul_zero] at hc
  omega

/-- position `a` with `a + k = u` on the axis is the one read by a roll by `k` at `u` -/
theorem rollIdx_eq_of_add {n : ℕ} (hn : 0 < n) (k : ℤ) {u a : ℕ} (ha : a < n) (h : (a : ℤ) + k = u) :
    rollIdx n k u = a := by
  have h1 := rollIdx_cast hn k u
  have e : (u : ℤ) - k = a := by omega
  rw [e, Int.emod_eq_of_lt (by omega) (by omega)] at h1
  exact_mod_cast h1

/-- if the position read by a roll by `k` at `u`, moved by `k`, is still on the axis, then it lands on `u` (no wrap) -/
theorem rollIdx_add_of_inside {n : ℕ} (hn : 0 < n) (k : ℤ) {u : ℕ} (hu : u < n)
    (h0 : 0 ≤ (rollIdx n k u : ℤ) + k) (h1 : (rollIdx n k u : ℤ) + k < n) : (rollIdx n k u : ℤ) + k = u := by
  apply eq_of_emod_eq_of_window (n := (n : ℤ)) (lo := 0) (by omega) h0 (by omega) (by omega) (by omega)
  rw [rollIdx_cast hn k u, Int.emod_add_emod, sub_add_cancel]

section field
variable {K : Type} [Field K] [LinearOrder K] [IsStrictOrderedRing K]

/-! ### minima -/

theorem minK_eq_min (a b : K) : minK a b = min a b := by
  unfold minK; split_ifs with h
  · exact (min_eq_right h.le).symm
  · exact (min_eq_left (not_lt.mp h)).symm

theorem foldl_minK_spec (f : ℕ → K) (l : List ℕ) (acc : K) :
    (l.foldl (fun acc i => minK acc (f i)) acc = acc ∨ ∃ i ∈ l, l.foldl (fun acc i => minK acc (f i)) acc = f i)
    ∧ l.foldl (fun acc i => minK acc (f i)) acc ≤ acc
    ∧ ∀ i ∈ l, l.foldl (fun acc i => minK acc (f i)) acc ≤ f i := by
  induction l generalizing acc with
  | nil => simp
  | cons j l ih =>
    simp only [List.foldl_cons]
    obtain ⟨h1, h2, h3⟩ := ih (minK acc (f j))
    have hm : minK acc (f j) = min acc (f j) := minK_eq_min _ _
    refine ⟨?_, ?_, ?_⟩
    · rcases h1 with h | ⟨i, hi, h⟩
      · rw [h, hm]
        rcases min_choice acc (f j) with h' | h'
        · left; exact h'
        · right; exact ⟨j, List.mem_cons_self, h'⟩
      · right; exact ⟨i, List.mem_cons_of_mem _ hi, h⟩
    · exact le_trans h2 (by rw [hm]; exact min_le_left _ _)
    · intro i hi
      rcases List.mem_cons.mp hi with rfl | hi
      · exact le_trans h2 (by rw [hm]; exact min_le_right _ _)
      · exact h3 i hi

/-- the running minimum is attained and is a lower bound -/
theorem minTo_spec {n : ℕ} (hn : 0 < n) (f : ℕ → K) :
    (∃ i < n, minTo n f = f i) ∧ ∀ i < n, minTo n f ≤ f i := by
  unfold minTo
  obtain ⟨h1, _, h3⟩ := foldl_minK_spec f (List.range n) (f 0)
  refine ⟨?_, fun i hi => h3 i (List.mem_range.mpr hi)⟩
  rcases h1 with h | ⟨i, hi, h⟩
  · exact ⟨0, hn, h⟩
  · exact ⟨i, List.mem_range.mp hi, h⟩

theorem min2_spec {ny nx : ℕ} (hy : 0 < ny) (hx : 0 < nx) (img : ℕ → ℕ → K) :
    (∃ y < ny, ∃ x < nx, min2 ny nx img = img y x) ∧ ∀ y < ny, ∀ x < nx, min2 ny nx img ≤ img y x := by
  unfold min2
  obtain ⟨⟨y, hyy, e⟩, hle⟩ := minTo_spec hy (fun y => minTo nx (fun x => img y x))
  obtain ⟨⟨x, hxx, e'⟩, _⟩ := minTo_spec hx (fun x => img y x)
  refine ⟨⟨y, hyy, x, hxx, by rw [e]; exact e'⟩, ?_⟩
  intro y' hy' x' hx'
  exact le_trans (hle y' hy') ((minTo_spec hx (fun x => img y' x)).2 x' hx')

/-- a value that is attained and is a lower bound is the minimum -/
theorem min2_unique {ny nx : ℕ} (hy : 0 < ny) (hx : 0 < nx) (img : ℕ → ℕ → K) (m : K)
    (hatt : ∃ y < ny, ∃ x < nx, m = img y x) (hdom : ∀ y < ny, ∀ x < nx, m ≤ img y x) :
    min2 ny nx img = m := by
  obtain ⟨⟨y, hyy, x, hxx, e⟩, hle⟩ := min2_spec hy hx img
  obtain ⟨y', hy', x', hx', e'⟩ := hatt
  apply le_antisymm
  · rw [e']; exact hle y' hy' x' hx'
  · rw [e]; exact hdom y hyy x hxx

/-- `numpy.roll` does not change the minimum of a frame -/
theorem min2_roll2 {ny nx : ℕ} (hy : 0 < ny) (hx : 0 < nx) (ky kx : ℤ) (img : ℕ → ℕ → K) :
    min2 ny nx (roll2 ny nx ky kx img) = min2 ny nx img := by
  obtain ⟨⟨y, hyy, x, hxx, e⟩, hle⟩ := min2_spec hy hx img
  apply min2_unique hy hx
  · refine ⟨rollIdx ny (-ky) y, rollIdx_lt hy _ _, rollIdx nx (-kx) x, rollIdx_lt hx _ _, ?_⟩
    unfold roll2
    have h1 := rollIdx_inv hy (-ky) hyy
    have h2 := rollIdx_inv hx (-kx) hxx
    rw [neg_neg] at h1 h2
    rw [h1, h2, e]
  · intro y' _ x' _
    exact hle _ (rollIdx_lt hy _ _) _ (rollIdx_lt hx _ _)

/-- a frame minus its own minimum is non-negative on the frame -/
theorem sub_min2_nonneg {ny nx : ℕ} (hy : 0 < ny) (hx : 0 < nx) (img : ℕ → ℕ → K) {u v : ℕ} (hu : u < ny) (hv : v < nx) :
    0 ≤ img u v - min2 ny nx img := sub_nonneg.mpr ((min2_spec hy hx img).2 u hu v hv)

/-! ### zero-padding and rolls -/

theorem zeroPad_idem {C : Type} (ny nx : ℕ) (zero : C) (x : ℕ → ℕ → C) :
    zeroPad ny nx zero (zeroPad ny nx zero x) = zeroPad ny nx zero x := by
  funext u v; unfold zeroPad; split_ifs <;> rfl

theorem zeroPad_congr {C : Type} {ny nx : ℕ} (zero : C) {x x' : ℕ → ℕ → C} (h : ∀ u < ny, ∀ v < nx, x u v = x' u v) :
    zeroPad ny nx zero x = zeroPad ny nx zero x' := by
  funext u v; unfold zeroPad; split_ifs with hc
  · exact h u hc.1 v hc.2
  · rfl

/-- `cross_correlate` reads its two arguments only inside the `ny × nx` frame -/
theorem crossCorrelate_congr_frame {C K' : Type} [Add C] [Mul C] [OfScientific C] {ny nx : ℕ} (pad : ℕ)
    (wy wx wiy wix : ℕ → C) (ninvy ninvx zero : C) (conj : C → C) (absC : C → K') (memo : (ℕ → ℕ → C) → Img C)
    {x x' y y' : ℕ → ℕ → C} (hx : ∀ u < ny, ∀ v < nx, x u v = x' u v) (hy : ∀ u < ny, ∀ v < nx, y u v = y' u v) :
    crossCorrelate ny nx pad wy wx wiy wix ninvy ninvx zero conj absC memo x y
      = crossCorrelate ny nx pad wy wx wiy wix ninvy ninvx zero conj absC memo x' y' := by
  unfold crossCorrelate
  rw [zeroPad_congr zero hx, zeroPad_congr zero hy]

/-- zero-padding commutes with a roll that keeps the content inside the (un-padded) frame: the padded rolled frame is
the padded frame rolled on the padded axes -/
theorem zeroPad_roll2 {ny nx py px : ℕ} (hny : 0 < ny) (hnx : 0 < nx) (hpy : ny ≤ py) (hpx : nx ≤ px) (sy sx : ℤ)
    (y : ℕ → ℕ → K) (hin : ContentInside ny nx sy sx y) :
    ∀ u < py, ∀ v < px,
      zeroPad ny nx 0 (roll2 ny nx sy sx y) u v = roll2 py px sy sx (zeroPad ny nx 0 y) u v := by
  have hy : 0 < py := lt_of_lt_of_le hny hpy
  have hx : 0 < px := lt_of_lt_of_le hnx hpx
  -- a content pixel read through the padded roll is read at the same place by the frame roll, and `(u, v)` is in the frame
  have back : ∀ u < py, ∀ v < px, rollIdx py sy u < ny → rollIdx px sx v < nx →
      y (rollIdx py sy u) (rollIdx px sx v) ≠ 0 →
      u < ny ∧ v < nx ∧ rollIdx ny sy u = rollIdx py sy u ∧ rollIdx nx sx v = rollIdx px sx v := by
    intro u hu v hv ha hb hne
    obtain ⟨c1, c2, c3, c4⟩ := hin _ ha _ hb hne
    have e1 := rollIdx_add_of_inside hy sy hu c1 (by omega)
    have e2 := rollIdx_add_of_inside hx sx hv c3 (by omega)
    exact ⟨by omega, by omega, rollIdx_eq_of_add hny sy ha e1, rollIdx_eq_of_add hnx sx hb e2⟩
  intro u hu v hv
  unfold roll2 zeroPad
  beta_reduce
  by_cases h1 : u < ny ∧ v < nx
  · rw [if_pos h1]
    by_cases hne : y (rollIdx ny sy u) (rollIdx nx sx v) = 0
    · rw [hne]
      by_cases h2 : rollIdx py sy u < ny ∧ rollIdx px sx v < nx
      · rw [if_pos h2]
        by_contra hc
        obtain ⟨_, _, e1, e2⟩ := back u hu v hv h2.1 h2.2 (Ne.symm hc)
        rw [e1, e2] at hne
        exact hc hne.symm
      · rw [if_neg h2]
    · obtain ⟨c1, c2, c3, c4⟩ := hin _ (rollIdx_lt hny sy u) _ (rollIdx_lt hnx sx v) hne
      have e1 := rollIdx_add_of_inside hny sy h1.1 c1 c2
      have e2 := rollIdx_add_of_inside hnx sx h1.2 c3 c4
      have f1 : rollIdx py sy u = rollIdx ny sy u :=
        rollIdx_eq_of_add hy sy (lt_of_lt_of_le (rollIdx_lt hny sy u) hpy) e1
      have f2 : rollIdx px sx v = rollIdx nx sx v :=
        rollIdx_eq_of_add hx sx (lt_of_lt_of_le (rollIdx_lt hnx sx v) hpx) e2
      rw [f1, f2, if_pos ⟨rollIdx_lt hny sy u, rollIdx_lt hnx sx v⟩]
  · rw [if_neg h1]
    by_cases h2 : rollIdx py sy u < ny ∧ rollIdx px sx v < nx
    · rw [if_pos h2]
      by_contra hc
      obtain ⟨a1, a2, _, _⟩ := back u hu v hv h2.1 h2.2 (Ne.symm hc)
      exact h1 ⟨a1, a2⟩
    · rw [if_neg h2]

/-! ### support of the autocorrelation of a boxed image -/

/-- "the non-zero pixels of the frame lie in the box `[y0, y0+wy) × [x0, x0+wx)`" -/
def ContentInBox (ny nx y0 x0 wy wx : ℕ) (y : ℕ → ℕ → K) : Prop :=
  ∀ u < ny, ∀ v < nx, y u v ≠ 0 → y0 ≤ u ∧ u < y0 + wy ∧ x0 ≤ v ∧ v < x0 + wx

/-- a boxed content that is moved by `s` with the box staying inside the frame stays inside the frame -/
theorem ContentInBox.inside {ny nx y0 x0 wy wx : ℕ} {y : ℕ → ℕ → K} (h : ContentInBox ny nx y0 x0 wy wx y) {sy sx : ℤ}
    (hy0 : 0 ≤ (y0 : ℤ) + sy) (hy1 : (y0 : ℤ) + wy + sy ≤ ny) (hx0 : 0 ≤ (x0 : ℤ) + sx) (hx1 : (x0 : ℤ) + wx + sx ≤ nx) :
    ContentInside ny nx sy sx y := by
  intro u hu v hv hne
  obtain ⟨a, b, c, d⟩ := h u hu v hv hne
  refine ⟨?_, ?_, ?_, ?_⟩ <;> omega

/-- where the circular autocorrelation of the zero-padded frame is non-zero, some box pixel is read together with
another box pixel -/
theorem autoCorr_zeroPad_ne_zero {ny nx py px y0 x0 wy wx : ℕ} {y : ℕ → ℕ → K}
    (hbox : ContentInBox ny nx y0 x0 wy wx y) {k l : ℤ} (h : autoCorr py px (zeroPad ny nx 0 y) k l ≠ 0) :
    ∃ p q, (y0 ≤ p ∧ p < y0 + wy) ∧ (y0 ≤ rollIdx py (-k) p ∧ rollIdx py (-k) p < y0 + wy)
      ∧ (x0 ≤ q ∧ q < x0 + wx) ∧ (x0 ≤ rollIdx px (-l) q ∧ rollIdx px (-l) q < x0 + wx) := by
  unfold autoCorr at h
  obtain ⟨p, _, hp⟩ := exists_ne_zero_of_sum_ne_zero h
  obtain ⟨q, _, hq⟩ := exists_ne_zero_of_sum_ne_zero hp
  have hz : ∀ a b, zeroPad ny nx (0 : K) y a b ≠ 0 → y0 ≤ a ∧ a < y0 + wy ∧ x0 ≤ b ∧ b < x0 + wx := by
    intro a b hab
    unfold zeroPad at hab
    split_ifs at hab with hc
    · exact hbox a hc.1 b hc.2 hab
    · exact absurd rfl hab
  obtain ⟨a1, a2, a3, a4⟩ := hz _ _ (left_ne_zero_of_mul hq)
  obtain ⟨b1, b2, b3, b4⟩ := hz _ _ (right_ne_zero_of_mul hq)
  exact ⟨p, q, ⟨a1, a2⟩, ⟨b1, b2⟩, ⟨a3, a4⟩, ⟨b3, b4⟩⟩

end field

/-- one axis of the no-wrap condition: pixel `a` of the shifted correlation (centre `m = P/2 + s`) at which two box
positions `p` and `(p + (a − m)) mod P` meet has its mirror image `2m − a` on the axis, provided the extreme lags
`s ± (w − 1)` fit the window `[−⌊P/2⌋, P − ⌊P/2⌋ − 1]` -/
theorem nowrap_axis {P m a p y0 w : ℕ} (hP : 0 < P) (s : ℤ) (hm : (m : ℤ) = ((P / 2 : ℕ) : ℤ) + s) (ha : a < P)
    (hp : y0 ≤ p ∧ p < y0 + w)
    (hp' : y0 ≤ rollIdx P (-((a : ℤ) - m)) p ∧ rollIdx P (-((a : ℤ) - m)) p < y0 + w)
    (hlo : -((P / 2 : ℕ) : ℤ) ≤ s - ((w : ℤ) - 1)) (hhi : s + ((w : ℤ) - 1) ≤ (P : ℤ) - ((P / 2 : ℕ) : ℤ) - 1) :
    a ≤ 2 * m ∧ 2 * m - a < P := by
  have hc := rollIdx_cast hP (-((a : ℤ) - m)) p
  rw [Int.emod_def] at hc
  generalize rollIdx P (-((a : ℤ) - m)) p = r at hc hp'
  generalize hcq : ((p : ℤ) - -((a : ℤ) - m)) / (P : ℤ) = c at hc
  have hc0 : c = 0 := by
    apply int_mul_eq_zero_of_abs_lt (n := (P : ℤ)) (by omega)
    · generalize (P : ℤ) * c = q at hc; omega
    · generalize (P : ℤ) * c = q at hc; omega
  rw [hc0, mul_zero] at hc
  omega

section field
variable {K : Type} [Field K] [LinearOrder K] [IsStrictOrderedRing K]

/-- the no-wrap condition of `pointSym_shifted_circCorr` from a box condition on the un-padded frame: if the content
of `y` lies in a box of extent `(wy, wx)` and the extreme lags `s ± (w − 1)` fit the window
`[−⌊P/2⌋, P − ⌊P/2⌋ − 1]` of each padded axis, then wherever the shifted correlation surface is non-zero the mirrored
pixel about `(P_y/2 + sy, P_x/2 + sx)` is on the padded frame -/
theorem nowrap_of_box {ny nx py px my mx y0 x0 wy wx : ℕ} (hy : 0 < py) (hx : 0 < px) (y : ℕ → ℕ → K) (sy sx : ℤ)
    (hmy : (my : ℤ) = ((py / 2 : ℕ) : ℤ) + sy) (hmx : (mx : ℤ) = ((px / 2 : ℕ) : ℤ) + sx)
    (hbox : ContentInBox ny nx y0 x0 wy wx y)
    (hloy : -((py / 2 : ℕ) : ℤ) ≤ sy - ((wy : ℤ) - 1)) (hhiy : sy + ((wy : ℤ) - 1) ≤ (py : ℤ) - ((py / 2 : ℕ) : ℤ) - 1)
    (hlox : -((px / 2 : ℕ) : ℤ) ≤ sx - ((wx : ℤ) - 1)) (hhix : sx + ((wx : ℤ) - 1) ≤ (px : ℤ) - ((px / 2 : ℕ) : ℤ) - 1)
    (S : ℕ → ℕ → K)
    (hS : ∀ a b, S a b = circCorr py px (roll2 py px sy sx (zeroPad ny nx 0 y)) (zeroPad ny nx 0 y)
      ((a + (py - py / 2)) % py) ((b + (px - px / 2)) % px)) :
    ∀ a < py, ∀ b < px, S a b ≠ 0 → a ≤ 2 * my ∧ 2 * my - a < py ∧ b ≤ 2 * mx ∧ 2 * mx - b < px := by
  intro a ha b hb hne
  rw [hS, shifted_circCorr_eq_autoCorr hy hx _ sy sx hmy hmx] at hne
  obtain ⟨p, q, hp, hp', hq, hq'⟩ := autoCorr_zeroPad_ne_zero hbox hne
  obtain ⟨h1, h2⟩ := nowrap_axis hy sy hmy ha hp hp' hloy hhiy
  obtain ⟨h3, h4⟩ := nowrap_axis hx sx hmx hb hq hq' hlox hhix
  exact ⟨h1, h2, h3, h4⟩

end field

end AoVerif.Centroid
