/-
Circular shifts (`numpy.roll`) of frames: re-indexing of sums, invariance of the maximum, first moments.
-/
import AoVerif.Lemmas.Centroid
import Mathlib.Tactic.Push

namespace AoVerif.Centroid
open Finset AoVerif
set_option linter.unusedSectionVars false

/-- index read by `numpy.roll(a, k)` at position `x` on an axis of length `n`: `(x - k) mod n` -/
def rollIdx (n : ℕ) (k : ℤ) (x : ℕ) : ℕ := (((x : ℤ) - k) % (n : ℤ)).toNat

theorem rollIdx_cast {n : ℕ} (hn : 0 < n) (k : ℤ) (x : ℕ) : ((rollIdx n k x : ℕ) : ℤ) = ((x : ℤ) - k) % (n : ℤ) := by
  unfold rollIdx
  exact Int.toNat_of_nonneg (Int.emod_nonneg _ (by omega))

theorem rollIdx_lt {n : ℕ} (hn : 0 < n) (k : ℤ) (x : ℕ) : rollIdx n k x < n := by
  have h := rollIdx_cast hn k x
  have := Int.emod_lt_of_pos ((x : ℤ) - k) (show (0 : ℤ) < n by omega)
  omega

theorem rollIdx_inv {n : ℕ} (hn : 0 < n) (k : ℤ) {x : ℕ} (hx : x < n) : rollIdx n (-k) (rollIdx n k x) = x := by
  have h1 := rollIdx_cast hn (-k) (rollIdx n k x)
  rw [rollIdx_cast hn k x, sub_neg_eq_add, Int.emod_add_emod, sub_add_cancel,
    Int.emod_eq_of_lt (by omega) (by omega)] at h1
  exact_mod_cast h1

/-- when `x + k` stays on the axis, position `x` moves to `x + k` -/
theorem rollIdx_neg_of_inside {n : ℕ} (hn : 0 < n) (k : ℤ) (x : ℕ) (h0 : 0 ≤ (x : ℤ) + k) (h1 : (x : ℤ) + k < n) :
    ((rollIdx n (-k) x : ℕ) : ℤ) = (x : ℤ) + k := by
  rw [rollIdx_cast hn, sub_neg_eq_add, Int.emod_eq_of_lt h0 h1]

/-- re-indexing a sum along a rolled axis -/
theorem sum_roll {M : Type*} [AddCommMonoid M] {n : ℕ} (hn : 0 < n) (k : ℤ) (F : ℕ → ℕ → M) :
    ∑ x ∈ range n, F x (rollIdx n k x) = ∑ x' ∈ range n, F (rollIdx n (-k) x') x' := by
  apply sum_nbij' (rollIdx n k) (rollIdx n (-k))
  · intro a _; exact mem_range.mpr (rollIdx_lt hn k a)
  · intro a _; exact mem_range.mpr (rollIdx_lt hn (-k) a)
  · intro a ha; exact rollIdx_inv hn k (mem_range.mp ha)
  · intro a ha
    have := rollIdx_inv hn (-k) (mem_range.mp ha)
    rwa [neg_neg] at this
  · intro a ha; rw [rollIdx_inv hn k (mem_range.mp ha)]

/-- `numpy.roll(img, (ky, kx), axis=(-2, -1))` -/
def roll2 {α : Type} (ny nx : ℕ) (ky kx : ℤ) (img : ℕ → ℕ → α) : ℕ → ℕ → α :=
  fun y x => img (rollIdx ny ky y) (rollIdx nx kx x)

theorem sum_roll2 {M : Type*} {α : Type} [AddCommMonoid M] {ny nx : ℕ} (hy : 0 < ny) (hx : 0 < nx) (ky kx : ℤ)
    (img : ℕ → ℕ → α) (F : ℕ → ℕ → α → M) :
    ∑ y ∈ range ny, ∑ x ∈ range nx, F y x (roll2 ny nx ky kx img y x)
      = ∑ y ∈ range ny, ∑ x ∈ range nx, F (rollIdx ny (-ky) y) (rollIdx nx (-kx) x) (img y x) := by
  unfold roll2
  rw [sum_roll hy ky (fun y y' => ∑ x ∈ range nx, F y x (img y' (rollIdx nx kx x)))]
  apply sum_congr rfl; intro y _
  exact sum_roll hx kx (fun x x' => F (rollIdx ny (-ky) y) x (img y x'))

section field
variable {K : Type} [Field K] [LinearOrder K] [IsStrictOrderedRing K]

/-- the sum of any pixel-wise function of the values is unchanged by a roll -/
theorem sum2_roll2 {ny nx : ℕ} (hy : 0 < ny) (hx : 0 < nx) (ky kx : ℤ) (img : ℕ → ℕ → K) (g : K → K) :
    sum2 ny nx (fun y x => g (roll2 ny nx ky kx img y x)) = sum2 ny nx (fun y x => g (img y x)) := by
  rw [sum2_eq, sum2_eq]
  exact sum_roll2 hy hx ky kx img (fun _ _ v => g v)

theorem max2_roll2 {ny nx : ℕ} (hy : 0 < ny) (hx : 0 < nx) (ky kx : ℤ) (img : ℕ → ℕ → K) :
    max2 ny nx (roll2 ny nx ky kx img) = max2 ny nx img := by
  obtain ⟨⟨y, hyy, x, hxx, e⟩, hle⟩ := max2_spec hy hx img
  apply max2_unique hy hx
  · refine ⟨rollIdx ny (-ky) y, rollIdx_lt hy _ _, rollIdx nx (-kx) x, rollIdx_lt hx _ _, ?_⟩
    unfold roll2
    have h1 := rollIdx_inv hy (-ky) hyy
    have h2 := rollIdx_inv hx (-kx) hxx
    rw [neg_neg] at h1 h2
    rw [h1, h2, e]
  · intro y' _ x' _
    exact hle _ (rollIdx_lt hy _ _) _ (rollIdx_lt hx _ _)

/-- "the content stays inside the frame when moved by `(ky, kx)`" -/
def ContentInside (ny nx : ℕ) (ky kx : ℤ) (img : ℕ → ℕ → K) : Prop :=
  ∀ y < ny, ∀ x < nx, img y x ≠ 0 →
    0 ≤ (y : ℤ) + ky ∧ (y : ℤ) + ky < ny ∧ 0 ≤ (x : ℤ) + kx ∧ (x : ℤ) + kx < nx

/-- first moments of a pixel-wise function `g` (with `g 0 = 0`) of a rolled image whose content stays inside -/
theorem moment_x_roll2 {ny nx : ℕ} (hy : 0 < ny) (hx : 0 < nx) (ky kx : ℤ) (img : ℕ → ℕ → K) (g : K → K) (g0 : g 0 = 0)
    (hin : ContentInside ny nx ky kx img) :
    sum2 ny nx (fun y x => (x : K) * g (roll2 ny nx ky kx img y x))
      = sum2 ny nx (fun y x => (x : K) * g (img y x)) + (kx : K) * sum2 ny nx (fun y x => g (img y x)) := by
  rw [sum2_eq, sum2_eq, sum2_eq, sum_roll2 hy hx ky kx img (fun _ x v => (x : K) * g v), mul_sum, ← sum_add_distrib]
  apply sum_congr rfl; intro y hyy
  rw [mul_sum, ← sum_add_distrib]
  apply sum_congr rfl; intro x hxx
  by_cases h : img y x = 0
  · rw [h, g0]; ring
  · obtain ⟨_, _, h0, h1⟩ := hin y (mem_range.mp hyy) x (mem_range.mp hxx) h
    have hc : ((rollIdx nx (-kx) x : ℕ) : K) = (x : K) + (kx : K) := by
      have := rollIdx_neg_of_inside hx kx x h0 h1
      have h2 : (((rollIdx nx (-kx) x : ℕ) : ℤ) : K) = (((x : ℤ) + kx : ℤ) : K) := by rw [this]
      push_cast at h2; exact h2
    rw [hc]; ring

theorem moment_y_roll2 {ny nx : ℕ} (hy : 0 < ny) (hx : 0 < nx) (ky kx : ℤ) (img : ℕ → ℕ → K) (g : K → K) (g0 : g 0 = 0)
    (hin : ContentInside ny nx ky kx img) :
    sum2 ny nx (fun y x => (y : K) * g (roll2 ny nx ky kx img y x))
      = sum2 ny nx (fun y x => (y : K) * g (img y x)) + (ky : K) * sum2 ny nx (fun y x => g (img y x)) := by
  rw [sum2_eq, sum2_eq, sum2_eq, sum_roll2 hy hx ky kx img (fun y _ v => (y : K) * g v), mul_sum, ← sum_add_distrib]
  apply sum_congr rfl; intro y hyy
  rw [mul_sum, ← sum_add_distrib]
  apply sum_congr rfl; intro x hxx
  by_cases h : img y x = 0
  · rw [h, g0]; ring
  · obtain ⟨h0, h1, _, _⟩ := hin y (mem_range.mp hyy) x (mem_range.mp hxx) h
    have hc : ((rollIdx ny (-ky) y : ℕ) : K) = (y : K) + (ky : K) := by
      have := rollIdx_neg_of_inside hy ky y h0 h1
      have h2 : (((rollIdx ny (-ky) y : ℕ) : ℤ) : K) = (((y : ℤ) + ky : ℤ) : K) := by rw [this]
      push_cast at h2; exact h2
    rw [hc]; ring

/-- moments of `g ∘ roll = roll ∘ g`: the centroid moves by exactly `(kx, ky)` -/
theorem moments_roll2 {ny nx : ℕ} (hy : 0 < ny) (hx : 0 < nx) (ky kx : ℤ) (img : ℕ → ℕ → K) (g : K → K) (g0 : g 0 = 0)
    (hin : ContentInside ny nx ky kx img) (htot : sum2 ny nx (fun y x => g (img y x)) ≠ 0) :
    moments ny nx (fun y x => g (roll2 ny nx ky kx img y x))
      = ((moments ny nx (fun y x => g (img y x))).1 + (kx : K), (moments ny nx (fun y x => g (img y x))).2 + (ky : K)) := by
  unfold moments
  rw [moment_x_roll2 hy hx ky kx img g g0 hin, moment_y_roll2 hy hx ky kx img g g0 hin, sum2_roll2 hy hx ky kx img g]
  simp only [Prod.mk.injEq]
  constructor <;> field_simp

/-! ### the threshold step as a pixel-wise map -/

/-- the pixel-wise map applied by the threshold step, given the frame maximum `m` -/
def gOf (t mn m : K) : K → K := if nonzero t then clipSub (thresOf t mn m) else id

theorem thresholded_eq_gOf (ny nx : ℕ) (t mn : K) (img : ℕ → ℕ → K) (y x : ℕ) :
    thresholded ny nx t mn img y x = gOf t mn (max2 ny nx img) (img y x) := by
  unfold thresholded gOf; split_ifs <;> rfl

theorem gOf_zero {t mn m : K} (hmn : 0 ≤ mn) : gOf t mn m 0 = 0 := by
  unfold gOf; split_ifs
  · exact clipSub_zero (thresOf_nonneg hmn)
  · rfl

theorem gOf_nonneg {t mn m v : K} (hv : 0 ≤ v) : 0 ≤ gOf t mn m v := by
  unfold gOf; split_ifs
  · exact clipSub_nonneg _ _
  · exact hv

theorem gOf_ne_zero_imp {t mn m v : K} (hmn : 0 ≤ mn) (h : gOf t mn m v ≠ 0) : v ≠ 0 :=
  fun hv => h (by rw [hv]; exact gOf_zero hmn)

theorem thresOf_lt {t mn m : K} (ht1 : t < 1) (hm : 0 < m) (hmn : mn < m) : thresOf t mn m < m := by
  unfold thresOf; rw [maxK_eq_max]; apply max_lt _ hmn
  calc t * m < 1 * m := mul_lt_mul_of_pos_right ht1 hm
    _ = m := one_mul m

theorem gOf_max_pos {t mn m : K} (ht1 : t < 1) (hmn0 : 0 ≤ mn) (hmn : mn < m) : 0 < gOf t mn m m := by
  have hm : 0 < m := lt_of_le_of_lt hmn0 hmn
  unfold gOf; split_ifs
  · exact clipSub_pos (thresOf_lt ht1 hm hmn)
  · exact hm

/-- the thresholded total is positive: non-negative image, threshold below 1, absolute floor below the maximum -/
theorem thresholded_total_pos {ny nx : ℕ} (hy : 0 < ny) (hx : 0 < nx) {t mn : K} {img : ℕ → ℕ → K}
    (hnn : ∀ y < ny, ∀ x < nx, 0 ≤ img y x) (ht1 : t < 1) (hmn0 : 0 ≤ mn) (hmn : mn < max2 ny nx img) :
    0 < sum2 ny nx (thresholded ny nx t mn img) := by
  rw [sum2_eq]
  obtain ⟨⟨y0, hy0, x0, hx0, e⟩, _⟩ := max2_spec hy hx img
  apply sum_pos'
  · intro y hyy; apply sum_nonneg; intro x hxx
    rw [thresholded_eq_gOf]; exact gOf_nonneg (hnn y (mem_range.mp hyy) x (mem_range.mp hxx))
  · refine ⟨y0, mem_range.mpr hy0, ?_⟩
    apply sum_pos'
    · intro x hxx; rw [thresholded_eq_gOf]; exact gOf_nonneg (hnn y0 hy0 x (mem_range.mp hxx))
    · refine ⟨x0, mem_range.mpr hx0, ?_⟩
      rw [thresholded_eq_gOf, ← e]; exact gOf_max_pos ht1 hmn0 hmn

theorem thresholded_roll2 {ny nx : ℕ} (hy : 0 < ny) (hx : 0 < nx) (ky kx : ℤ) (t mn : K) (img : ℕ → ℕ → K) (y x : ℕ) :
    thresholded ny nx t mn (roll2 ny nx ky kx img) y x
      = gOf t mn (max2 ny nx img) (roll2 ny nx ky kx img y x) := by
  rw [thresholded_eq_gOf, max2_roll2 hy hx]

/-- general form of the shift law for the 2-D centre of gravity (centroid defined: total ≠ 0) -/
theorem cog2_roll2 {ny nx : ℕ} (hy : 0 < ny) (hx : 0 < nx) (ky kx : ℤ) {t mn : K} (hmn0 : 0 ≤ mn) (img : ℕ → ℕ → K)
    (hin : ContentInside ny nx ky kx img) (htot : sum2 ny nx (thresholded ny nx t mn img) ≠ 0) :
    cog2 ny nx t mn (roll2 ny nx ky kx img)
      = ((cog2 ny nx t mn img).1 + (kx : K), (cog2 ny nx t mn img).2 + (ky : K)) := by
  unfold cog2
  have e1 : moments ny nx (thresholded ny nx t mn (roll2 ny nx ky kx img))
      = moments ny nx (fun y x => gOf t mn (max2 ny nx img) (roll2 ny nx ky kx img y x)) :=
    moments_congr (fun y _ x _ => thresholded_roll2 hy hx ky kx t mn img y x)
  have e2 : moments ny nx (thresholded ny nx t mn img)
      = moments ny nx (fun y x => gOf t mn (max2 ny nx img) (img y x)) :=
    moments_congr (fun y _ x _ => thresholded_eq_gOf ny nx t mn img y x)
  have e3 : sum2 ny nx (thresholded ny nx t mn img) = sum2 ny nx (fun y x => gOf t mn (max2 ny nx img) (img y x)) :=
    sum2_congr (fun y _ x _ => thresholded_eq_gOf ny nx t mn img y x)
  rw [e1, e2]
  exact moments_roll2 hy hx ky kx img _ (gOf_zero hmn0) hin (by rwa [← e3])

end field
end AoVerif.Centroid
