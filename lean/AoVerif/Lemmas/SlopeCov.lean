import Mathlib.Analysis.InnerProductSpace.Basic
import Mathlib.Tactic.Ring
import Mathlib.Tactic.Linarith
import Mathlib.Algebra.BigOperators.Intervals
import AoVerif.Lemmas.RealScalar
import AoVerif.Model.SlopeCov


namespace AoVerif.SlopeCov
set_option linter.unusedSectionVars false

variable {H : Type} [NormedAddCommGroup H] [InnerProductSpace ℝ H]
local notation "⟪" x ", " y "⟫" => inner ℝ x y

theorem polarisation (a b c d : H) :
    2 * ⟪a - b, c - d⟫ = -‖a - c‖ ^ 2 + ‖a - d‖ ^ 2 + ‖b - c‖ ^ 2 - ‖b - d‖ ^ 2 := by
  simp only [@norm_sub_sq_real, inner_sub_left, inner_sub_right]
  ring

variable [Transc ℝ] [RealTransc]

/-- squared-distance representation of a structure function -/
def IsSqDist (φ : ℝ × ℝ → H) (sf : ℝ → ℝ) : Prop :=
  ∀ u v : ℝ × ℝ, ‖φ u - φ v‖ ^ 2 = sf (Real.sqrt ((v.1 - u.1) ^ 2 + (v.2 - u.2) ^ 2))

theorem sf_congr (sf : ℝ → ℝ) {x y : ℝ} (h : x = y) : sf (Real.sqrt x) = sf (Real.sqrt y) := by rw [h]

theorem covXX_eq_inner (φ : ℝ × ℝ → H) (sf : ℝ → ℝ) (hD : IsSqDist φ sf) (p q : ℝ × ℝ) (d1 d2 : ℝ) :
    covXX sf (q.1 - p.1) (q.2 - p.2) d1 d2
      = 2 * ⟪φ (p.1 + d1 / 2, p.2) - φ (p.1 - d1 / 2, p.2), φ (q.1 + d2 / 2, q.2) - φ (q.1 - d2 / 2, q.2)⟫ := by
  rw [polarisation, hD, hD, hD, hD]
  real_unfold [covXX]
  rw [sf_congr sf (by ring : (q.1 - p.1 + (d2 - d1) * 5e-1) ^ 2 + (q.2 - p.2) ^ 2
        = ((q.1 + d2 / 2, q.2).1 - (p.1 + d1 / 2, p.2).1) ^ 2 + ((q.1 + d2 / 2, q.2).2 - (p.1 + d1 / 2, p.2).2) ^ 2),
      sf_congr sf (by ring : (q.1 - p.1 - (d2 + d1) * 5e-1) ^ 2 + (q.2 - p.2) ^ 2
        = ((q.1 - d2 / 2, q.2).1 - (p.1 + d1 / 2, p.2).1) ^ 2 + ((q.1 - d2 / 2, q.2).2 - (p.1 + d1 / 2, p.2).2) ^ 2),
      sf_congr sf (by ring : (q.1 - p.1 + (d2 + d1) * 5e-1) ^ 2 + (q.2 - p.2) ^ 2
        = ((q.1 + d2 / 2, q.2).1 - (p.1 - d1 / 2, p.2).1) ^ 2 + ((q.1 + d2 / 2, q.2).2 - (p.1 - d1 / 2, p.2).2) ^ 2),
      sf_congr sf (by ring : (q.1 - p.1 - (d2 - d1) * 5e-1) ^ 2 + (q.2 - p.2) ^ 2
        = ((q.1 - d2 / 2, q.2).1 - (p.1 - d1 / 2, p.2).1) ^ 2 + ((q.1 - d2 / 2, q.2).2 - (p.1 - d1 / 2, p.2).2) ^ 2)]
  ring

theorem covYY_eq_inner (φ : ℝ × ℝ → H) (sf : ℝ → ℝ) (hD : IsSqDist φ sf) (p q : ℝ × ℝ) (d1 d2 : ℝ) :
    covYY sf (q.1 - p.1) (q.2 - p.2) d1 d2
      = 2 * ⟪φ (p.1, p.2 + d1 / 2) - φ (p.1, p.2 - d1 / 2), φ (q.1, q.2 + d2 / 2) - φ (q.1, q.2 - d2 / 2)⟫ := by
  rw [polarisation, hD, hD, hD, hD]
  real_unfold [covYY]
  rw [sf_congr sf (by ring : (q.1 - p.1) ^ 2 + (q.2 - p.2 + (d2 - d1) * 5e-1) ^ 2
        = ((q.1, q.2 + d2 / 2).1 - (p.1, p.2 + d1 / 2).1) ^ 2 + ((q.1, q.2 + d2 / 2).2 - (p.1, p.2 + d1 / 2).2) ^ 2),
      sf_congr sf (by ring : (q.1 - p.1) ^ 2 + (q.2 - p.2 - (d2 + d1) * 5e-1) ^ 2
        = ((q.1, q.2 - d2 / 2).1 - (p.1, p.2 + d1 / 2).1) ^ 2 + ((q.1, q.2 - d2 / 2).2 - (p.1, p.2 + d1 / 2).2) ^ 2),
      sf_congr sf (by ring : (q.1 - p.1) ^ 2 + (q.2 - p.2 + (d2 + d1) * 5e-1) ^ 2
        = ((q.1, q.2 + d2 / 2).1 - (p.1, p.2 - d1 / 2).1) ^ 2 + ((q.1, q.2 + d2 / 2).2 - (p.1, p.2 - d1 / 2).2) ^ 2),
      sf_congr sf (by ring : (q.1 - p.1) ^ 2 + (q.2 - p.2 - (d2 - d1) * 5e-1) ^ 2
        = ((q.1, q.2 - d2 / 2).1 - (p.1, p.2 - d1 / 2).1) ^ 2 + ((q.1, q.2 - d2 / 2).2 - (p.1, p.2 - d1 / 2).2) ^ 2)]
  ring

/-- x-slope of the first sub-aperture (diameter `d1`) with y-slope of the second (diameter `d2`) -/
theorem covXY_eq_inner (φ : ℝ × ℝ → H) (sf : ℝ → ℝ) (hD : IsSqDist φ sf) (p q : ℝ × ℝ) (d1 d2 : ℝ) :
    covXY sf (q.1 - p.1) (q.2 - p.2) d1 d2
      = 2 * ⟪φ (p.1 + d1 / 2, p.2) - φ (p.1 - d1 / 2, p.2), φ (q.1, q.2 + d2 / 2) - φ (q.1, q.2 - d2 / 2)⟫ := by
  rw [polarisation, hD, hD, hD, hD]
  real_unfold [covXY]
  rw [sf_congr sf (by ring : (q.1 - p.1 - d1 * 5e-1) ^ 2 + (q.2 - p.2 + d2 * 5e-1) ^ 2
        = ((q.1, q.2 + d2 / 2).1 - (p.1 + d1 / 2, p.2).1) ^ 2 + ((q.1, q.2 + d2 / 2).2 - (p.1 + d1 / 2, p.2).2) ^ 2),
      sf_congr sf (by ring : (q.1 - p.1 - d1 * 5e-1) ^ 2 + (q.2 - p.2 - d2 * 5e-1) ^ 2
        = ((q.1, q.2 - d2 / 2).1 - (p.1 + d1 / 2, p.2).1) ^ 2 + ((q.1, q.2 - d2 / 2).2 - (p.1 + d1 / 2, p.2).2) ^ 2),
      sf_congr sf (by ring : (q.1 - p.1 + d1 * 5e-1) ^ 2 + (q.2 - p.2 + d2 * 5e-1) ^ 2
        = ((q.1, q.2 + d2 / 2).1 - (p.1 - d1 / 2, p.2).1) ^ 2 + ((q.1, q.2 + d2 / 2).2 - (p.1 - d1 / 2, p.2).2) ^ 2),
      sf_congr sf (by ring : (q.1 - p.1 + d1 * 5e-1) ^ 2 + (q.2 - p.2 - d2 * 5e-1) ^ 2
        = ((q.1, q.2 - d2 / 2).1 - (p.1 - d1 / 2, p.2).1) ^ 2 + ((q.1, q.2 - d2 / 2).2 - (p.1 - d1 / 2, p.2).2) ^ 2)]
  ring

/-- y-slope of the first sub-aperture (diameter `d1`) with x-slope of the second (diameter `d2`): the code's
`cov_yx = compute_covariance_xy(sep, d2, d1)` -/
theorem covYX_eq_inner (φ : ℝ × ℝ → H) (sf : ℝ → ℝ) (hD : IsSqDist φ sf) (p q : ℝ × ℝ) (d1 d2 : ℝ) :
    covXY sf (q.1 - p.1) (q.2 - p.2) d2 d1
      = 2 * ⟪φ (p.1, p.2 + d1 / 2) - φ (p.1, p.2 - d1 / 2), φ (q.1 + d2 / 2, q.2) - φ (q.1 - d2 / 2, q.2)⟫ := by
  rw [polarisation, hD, hD, hD, hD]
  real_unfold [covXY]
  rw [sf_congr sf (by ring : (q.1 - p.1 + d2 * 5e-1) ^ 2 + (q.2 - p.2 - d1 * 5e-1) ^ 2
        = ((q.1 + d2 / 2, q.2).1 - (p.1, p.2 + d1 / 2).1) ^ 2 + ((q.1 + d2 / 2, q.2).2 - (p.1, p.2 + d1 / 2).2) ^ 2),
      sf_congr sf (by ring : (q.1 - p.1 - d2 * 5e-1) ^ 2 + (q.2 - p.2 - d1 * 5e-1) ^ 2
        = ((q.1 - d2 / 2, q.2).1 - (p.1, p.2 + d1 / 2).1) ^ 2 + ((q.1 - d2 / 2, q.2).2 - (p.1, p.2 + d1 / 2).2) ^ 2),
      sf_congr sf (by ring : (q.1 - p.1 + d2 * 5e-1) ^ 2 + (q.2 - p.2 + d1 * 5e-1) ^ 2
        = ((q.1 + d2 / 2, q.2).1 - (p.1, p.2 - d1 / 2).1) ^ 2 + ((q.1 + d2 / 2, q.2).2 - (p.1, p.2 - d1 / 2).2) ^ 2),
      sf_congr sf (by ring : (q.1 - p.1 - d2 * 5e-1) ^ 2 + (q.2 - p.2 + d1 * 5e-1) ^ 2
        = ((q.1 - d2 / 2, q.2).1 - (p.1, p.2 - d1 / 2).1) ^ 2 + ((q.1 - d2 / 2, q.2).2 - (p.1, p.2 - d1 / 2).2) ^ 2)]
  ring


/-! ### assembly: a fold of block writes is "initial value + sum of the contributions of the blocks containing the entry" -/

section assembly
set_option linter.unusedSectionVars false

def Write.contrib (w : Write ℝ) (r c : ℕ) : ℝ := if w.inside r c then w.blk (r - w.r0) (c - w.c0) else 0

theorem applyWrites_eq (ws : List (Write ℝ)) (M : ℕ → ℕ → ℝ) (r c : ℕ) :
    applyWrites ws M r c = M r c + (ws.map (fun w => w.contrib r c)).sum := by
  induction ws generalizing M with
  | nil => simp [applyWrites]
  | cons w ws ih =>
    simp only [applyWrites, List.foldl_cons] at ih ⊢
    rw [ih]
    simp only [Write.apply, Write.contrib, List.map_cons, List.sum_cons]
    split_ifs <;> ring

theorem sum_map_flatMap {α β : Type} (ls : List β) (f : β → List α) (g : α → ℝ) :
    ((ls.flatMap f).map g).sum = (ls.map (fun l => ((f l).map g).sum)).sum := by
  induction ls with
  | nil => simp
  | cons l ls ih => simp [List.flatMap_cons, ih]

theorem sum_map_range (n : ℕ) (g : ℕ → ℝ) : ((List.range n).map g).sum = ∑ i ∈ Finset.range n, g i := by
  induction n with
  | zero => simp
  | succ n ih => rw [List.range_succ, List.map_append, List.sum_append, ih, Finset.sum_range_succ]; simp

theorem offs_succ_le (n : ℕ → ℕ) {i k : ℕ} (h : i < k) : offs n i + n i ≤ offs n k := by
  induction k with
  | zero => omega
  | succ k ih =>
    rcases Nat.lt_succ_iff_lt_or_eq.mp h with h' | h'
    · have := ih h'; simp only [offs]; omega
    · subst h'; simp [offs]

/-- rows `[2·offs i' + (ey' ? n i' : 0), … + n i')` contain `rowIdx i ey a` iff `(i', ey') = (i, ey)` -/
theorem row_inside_iff (n : ℕ → ℕ) (i i' : ℕ) (ey ey' : Bool) (a : ℕ) (ha : a < n i) :
    (offs n i' * 2 + (if ey' then n i' else 0) ≤ rowIdx n i ey a
      ∧ rowIdx n i ey a < offs n i' * 2 + (if ey' then n i' else 0) + n i') ↔ (i' = i ∧ ey' = ey) := by
  unfold rowIdx
  rcases lt_trichotomy i' i with h | h | h
  · have := offs_succ_le n h
    constructor
    · rintro ⟨_, h2⟩; cases ey' <;> cases ey <;> simp at h2 ⊢ <;> omega
    · rintro ⟨rfl, _⟩; omega
  · subst h
    cases ey' <;> cases ey <;> simp <;> omega
  · have := offs_succ_le n h
    constructor
    · rintro ⟨h1, _⟩; cases ey' <;> cases ey <;> simp at h1 ⊢ <;> omega
    · rintro ⟨rfl, _⟩; omega

theorem rowIdx_sub (n : ℕ → ℕ) (i : ℕ) (ey : Bool) (a : ℕ) :
    rowIdx n i ey a - (offs n i * 2 + (if ey then n i else 0)) = a := by
  unfold rowIdx; cases ey <;> simp <;> omega

theorem rowIdx_lt_of_lt (n : ℕ → ℕ) {i j : ℕ} (h : j < i) (ey ex : Bool) (a b : ℕ) (hb : b < n j) :
    rowIdx n j ex b < rowIdx n i ey a := by
  have := offs_succ_le n h
  unfold rowIdx; cases ey <;> cases ex <;> simp <;> omega

theorem rowIdx_lt_size (n : ℕ → ℕ) {i W : ℕ} (h : i < W) (ey : Bool) (a : ℕ) (ha : a < n i) :
    rowIdx n i ey a < 2 * offs n W := by
  have := offs_succ_le n h
  unfold rowIdx; cases ey <;> simp <;> omega

/-! ### closed form of the assembled matrix -/

/-- the write of block `(i', ey'; j', ex')` -/
noncomputable def wr (sf : ℝ → ℝ → ℝ → ℝ) (c : Cfg ℝ) (l : Layer ℝ) (i' j' : ℕ) (ey' ex' : Bool) : Write ℝ :=
  ⟨offs c.nsubs i' * 2 + (if ey' then c.nsubs i' else 0), offs c.nsubs j' * 2 + (if ex' then c.nsubs j' else 0),
   c.nsubs i', c.nsubs j', blockEntry sf c l i' j' ey' ex'⟩

theorem pairWrites_eq (sf : ℝ → ℝ → ℝ → ℝ) (c : Cfg ℝ) (l : Layer ℝ) (i' j' : ℕ) :
    pairWrites sf c l i' j' = [wr sf c l i' j' false false, wr sf c l i' j' true false,
      wr sf c l i' j' false true, wr sf c l i' j' true true] := by
  simp [pairWrites, wr]

theorem contrib_wr (sf : ℝ → ℝ → ℝ → ℝ) (c : Cfg ℝ) (l : Layer ℝ) (i j i' j' : ℕ) (ey ex ey' ex' : Bool)
    (a b : ℕ) (ha : a < c.nsubs i) (hb : b < c.nsubs j) :
    (wr sf c l i' j' ey' ex').contrib (rowIdx c.nsubs i ey a) (rowIdx c.nsubs j ex b)
      = if (i' = i ∧ ey' = ey) ∧ (j' = j ∧ ex' = ex) then blockEntry sf c l i j ey ex a b else 0 := by
  have hr := row_inside_iff c.nsubs i i' ey ey' a ha
  have hc := row_inside_iff c.nsubs j j' ex ex' b hb
  have hin : (wr sf c l i' j' ey' ex').inside (rowIdx c.nsubs i ey a) (rowIdx c.nsubs j ex b)
      ↔ (i' = i ∧ ey' = ey) ∧ (j' = j ∧ ex' = ex) := by
    rw [← hr, ← hc]; unfold Write.inside wr; simp only; tauto
  unfold Write.contrib
  by_cases h : (i' = i ∧ ey' = ey) ∧ (j' = j ∧ ex' = ex)
  · rw [if_pos h, if_pos (hin.mpr h)]
    obtain ⟨⟨rfl, rfl⟩, rfl, rfl⟩ := h
    show blockEntry sf c l i' j' ey' ex' (rowIdx c.nsubs i' ey' a - (offs c.nsubs i' * 2 + (if ey' then c.nsubs i' else 0)))
      (rowIdx c.nsubs j' ex' b - (offs c.nsubs j' * 2 + (if ex' then c.nsubs j' else 0))) = _
    rw [rowIdx_sub, rowIdx_sub]
  · rw [if_neg h, if_neg (fun hh => h (hin.mp hh))]

theorem pair_contrib (sf : ℝ → ℝ → ℝ → ℝ) (c : Cfg ℝ) (l : Layer ℝ) (i j i' j' : ℕ) (ey ex : Bool)
    (a b : ℕ) (ha : a < c.nsubs i) (hb : b < c.nsubs j) :
    ((pairWrites sf c l i' j').map (fun w => w.contrib (rowIdx c.nsubs i ey a) (rowIdx c.nsubs j ex b))).sum
      = if i' = i ∧ j' = j then blockEntry sf c l i j ey ex a b else 0 := by
  rw [pairWrites_eq]
  simp only [List.map_cons, List.map_nil, List.sum_cons, List.sum_nil, contrib_wr sf c l i j i' j' ey ex _ _ a b ha hb]
  by_cases h : i' = i ∧ j' = j
  · obtain ⟨rfl, rfl⟩ := h
    cases ey <;> cases ex <;> simp
  · rw [if_neg h]
    have : ∀ (p q : Prop), ¬ ((i' = i ∧ p) ∧ (j' = j ∧ q)) := fun p q hh => h ⟨hh.1.1, hh.2.1⟩
    simp [this]

theorem layer_contrib (sf : ℝ → ℝ → ℝ → ℝ) (c : Cfg ℝ) (l : Layer ℝ) (i j : ℕ) (ey ex : Bool)
    (a b : ℕ) (hi : i < c.nwfs) (ha : a < c.nsubs i) (hb : b < c.nsubs j) :
    ((layerWrites sf c l).map (fun w => w.contrib (rowIdx c.nsubs i ey a) (rowIdx c.nsubs j ex b))).sum
      = if j ≤ i then blockEntry sf c l i j ey ex a b else 0 := by
  unfold layerWrites
  rw [sum_map_flatMap, sum_map_range]
  simp only [sum_map_flatMap, sum_map_range, pair_contrib sf c l i j _ _ ey ex a b ha hb]
  rw [Finset.sum_eq_single i]
  · by_cases hji : j ≤ i
    · rw [if_pos hji, Finset.sum_eq_single j]
      · simp
      · intro j' _ hne; simp [hne]
      · intro hn; exact absurd (Finset.mem_range.mpr (Nat.lt_succ_of_le hji)) hn
    · rw [if_neg hji]
      apply Finset.sum_eq_zero
      intro j' hj'
      have : j' ≠ j := by have := Finset.mem_range.mp hj'; omega
      simp [this]
  · intro i' _ hne
    apply Finset.sum_eq_zero
    intro j' _; simp [hne]
  · intro hn; exact absurd (Finset.mem_range.mpr hi) hn

/-- closed form of one entry: sum over the layers of the kernel of its block -/
noncomputable def entryF (sf : ℝ → ℝ → ℝ → ℝ) (c : Cfg ℝ) (i j : ℕ) (ey ex : Bool) (a b : ℕ) : ℝ :=
  (c.layers.map (fun l => blockEntry sf c l i j ey ex a b)).sum

theorem preMirror_entry (sf : ℝ → ℝ → ℝ → ℝ) (c : Cfg ℝ) (i j : ℕ) (ey ex : Bool)
    (a b : ℕ) (hi : i < c.nwfs) (ha : a < c.nsubs i) (hb : b < c.nsubs j) :
    preMirror sf c (rowIdx c.nsubs i ey a) (rowIdx c.nsubs j ex b)
      = if j ≤ i then entryF sf c i j ey ex a b else 0 := by
  unfold preMirror allWrites entryF
  rw [applyWrites_eq, sum_map_flatMap]
  simp only [layer_contrib sf c _ i j ey ex a b hi ha hb, Nat.cast_zero, zero_add]
  split_ifs
  · rfl
  · simp

theorem final_entry (sf : ℝ → ℝ → ℝ → ℝ) (c : Cfg ℝ) (i j : ℕ) (ey ex : Bool)
    (a b : ℕ) (hi : i < c.nwfs) (hj : j < c.nwfs) (ha : a < c.nsubs i) (hb : b < c.nsubs j) :
    covarianceMatrix sf c (rowIdx c.nsubs i ey a) (rowIdx c.nsubs j ex b)
      = if rowIdx c.nsubs j ex b ≤ rowIdx c.nsubs i ey a then entryF sf c i j ey ex a b
        else entryF sf c j i ex ey b a := by
  unfold covarianceMatrix mirror
  simp only [Nat.cast_zero, add_zero, zero_add]
  split_ifs with h
  · rw [preMirror_entry sf c i j ey ex a b hi ha hb, if_pos]
    by_contra hji
    have := rowIdx_lt_of_lt c.nsubs (Nat.lt_of_not_le hji) ex ey b a ha
    omega
  · rw [preMirror_entry sf c j i ex ey b a hj hb ha, if_pos]
    by_contra hij
    have := rowIdx_lt_of_lt c.nsubs (Nat.lt_of_not_le hij) ey ex a b hb
    omega

end assembly

/-! ### slopes and the Gram reading of a block entry -/

/-- finite difference of the phase `φ` across a sub-aperture of diameter `d` centred at `p`, along x or y -/
noncomputable def fdiff (φ : ℝ × ℝ → H) (p : ℝ × ℝ) (d : ℝ) : Bool → H
  | false => φ (p.1 + d / 2, p.2) - φ (p.1 - d / 2, p.2)
  | true => φ (p.1, p.2 + d / 2) - φ (p.1, p.2 - d / 2)

/-- the slope measured through layer `l` by a sub-aperture of sensor `w` centred (at that layer) at `p`:
`(λ_w / 2π) · (φ(p + d/2·e) − φ(p − d/2·e)) / d`, `d` the projected diameter -/
noncomputable def slopeAt (φ : ℝ × ℝ → H) (c : Cfg ℝ) (l : Layer ℝ) (w : ℕ) (isY : Bool) (p : ℝ × ℝ) : H :=
  ((c.wfs w).lam / (2 * Real.pi * layerDiam c l w)) • fdiff φ p (layerDiam c l w) isY

/-- slope of sub-aperture `a` of sensor `w` at its geometrically projected position -/
noncomputable def subapSlope (φ : ℝ × ℝ → H) (c : Cfg ℝ) (l : Layer ℝ) (w : ℕ) (isY : Bool) (a : ℕ) : H :=
  slopeAt φ c l w isY (layerPos c l w a)

theorem blockEntry_eq_inner (sf : ℝ → ℝ → ℝ → ℝ) (c : Cfg ℝ) (l : Layer ℝ) (φ : ℝ × ℝ → H)
    (hD : IsSqDist φ (fun r => sf r l.r0 l.L0)) (i j : ℕ) (ey ex : Bool) (a b : ℕ) :
    blockEntry sf c l i j ey ex a b
      = ⟪slopeAt φ c l i ey (layerPos c l i a),
         slopeAt φ c l j ex ((layerPos c l j b).1 + c.eps, (layerPos c l j b).2 + c.eps)⟫ := by
  unfold blockEntry kernEntry sep slopeAt
  simp only [inner_smul_left, inner_smul_right, conj_trivial]
  generalize layerPos c l i a = p
  generalize layerPos c l j b = q
  have h1 : q.1 - p.1 + c.eps = q.1 + c.eps - p.1 := by ring
  have h2 : q.2 - p.2 + c.eps = q.2 + c.eps - p.2 := by ring
  rw [h1, h2]
  cases ey <;> cases ex <;> simp only [fdiff]
  · have key := covXX_eq_inner φ _ hD p (q.1 + c.eps, q.2 + c.eps) (layerDiam c l i) (layerDiam c l j)
    simp only at key
    rw [key]; real_unfold [r0Scale]; ring
  · have key := covXY_eq_inner φ _ hD p (q.1 + c.eps, q.2 + c.eps) (layerDiam c l i) (layerDiam c l j)
    simp only at key
    rw [key]; real_unfold [r0Scale]; ring
  · have key := covYX_eq_inner φ _ hD p (q.1 + c.eps, q.2 + c.eps) (layerDiam c l i) (layerDiam c l j)
    simp only at key
    rw [key]; real_unfold [r0Scale]; ring
  · have key := covYY_eq_inner φ _ hD p (q.1 + c.eps, q.2 + c.eps) (layerDiam c l i) (layerDiam c l j)
    simp only at key
    rw [key]; real_unfold [r0Scale]; ring

end AoVerif.SlopeCov
