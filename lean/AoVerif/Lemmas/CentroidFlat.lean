/-
The N-D paths of the centroiders on the flat C-ordered buffer (`cogFlat`, `bpFlat`, `quadFlat`, `corrFlat` of
`Model/Centroid.lean`): the index arithmetic of axis reductions, broadcasting and `[..., -k]` gives frame `i` of the
buffer exactly the answer of the 2-D path on that frame.
-/
import AoVerif.Lemmas.Centroid
import AoVerif.Lemmas.CentroidSort
import AoVerif.Lemmas.CentroidPad

namespace AoVerif.Centroid
open Finset AoVerif
set_option linter.unusedSectionVars false

/-! ### unravelling the index of element `[i, y, x]` -/

theorem frame_index_lt {ny nx y x : ℕ} (hy : y < ny) (hx : x < nx) : y * nx + x < ny * nx :=
  calc y * nx + x < y * nx + nx := Nat.add_lt_add_left hx _
    _ = (y + 1) * nx := (Nat.succ_mul y nx).symm
    _ ≤ ny * nx := Nat.mul_le_mul_right nx hy

theorem frame_index_eq (ny nx i y x : ℕ) : (i * ny + y) * nx + x = i * (ny * nx) + (y * nx + x) := by ring

theorem unravelX_frame {nx x : ℕ} (q : ℕ) (hx : x < nx) : unravelX nx (q * nx + x) = x := by
  unfold unravelX; exact Nat.mul_add_mod_of_lt hx

theorem div_frame {nx x : ℕ} (q : ℕ) (hx : x < nx) : (q * nx + x) / nx = q := by
  have hpos : 0 < nx := Nat.lt_of_le_of_lt (Nat.zero_le _) hx
  rw [Nat.add_comm, Nat.add_mul_div_right _ _ hpos, Nat.div_eq_of_lt hx, Nat.zero_add]

theorem unravelY_frame {ny nx y x : ℕ} (i : ℕ) (hy : y < ny) (hx : x < nx) :
    unravelY ny nx ((i * ny + y) * nx + x) = y := by
  unfold unravelY; rw [div_frame _ hx]; exact Nat.mul_add_mod_of_lt hy

theorem unravelF_frame {ny nx y x : ℕ} (i : ℕ) (hy : y < ny) (hx : x < nx) :
    unravelF ny nx ((i * ny + y) * nx + x) = i := by
  unfold unravelF; rw [frame_index_eq]; exact div_frame _ (frame_index_lt hy hx)

/-- `img.reshape(lead + (ny*nx,))[i]` is frame `i` flattened row by row -/
theorem range_mul_map {α : Type} (ny nx : ℕ) (f : ℕ → α) :
    (List.range (ny * nx)).map f = (List.range ny).flatMap (fun y => (List.range nx).map (fun x => f (y * nx + x))) := by
  induction ny with
  | zero => simp
  | succ n ih =>
    rw [Nat.succ_mul, List.range_add, List.map_append, ih, List.range_succ, List.flatMap_append, List.map_map]
    simp [Function.comp_def]

section field
variable {K : Type} [Field K] [LinearOrder K] [IsStrictOrderedRing K]

theorem row_eq_flat (ny nx : ℕ) (a : ℕ → K) (i : ℕ) :
    (List.range (ny * nx)).map (fun j => a (i * (ny * nx) + j)) = flat ny nx (frameOf ny nx a i) := by
  rw [range_mul_map]; unfold flat frameOf
  simp only [frame_index_eq]

theorem sumLast2 (ny nx : ℕ) (g : ℕ → K) (i : ℕ) :
    sumLast ny (sumLast nx g) i = sum2 ny nx (frameOf ny nx g i) := rfl

theorem maxLast2 (ny nx : ℕ) (g : ℕ → K) (i : ℕ) :
    maxLast ny (maxLast nx g) i = max2 ny nx (frameOf ny nx g i) := rfl

/-- the N-D path of `centre_of_gravity` on the buffer gives frame `i` the answer of the 2-D path on `img[i]` -/
theorem cogFlat_eq_frame (ny nx : ℕ) (t mn : K) (a : ℕ → K) (i : ℕ) :
    cogFlat ny nx t mn a i = cog2 ny nx t mn (frameOf ny nx a i) := by
  unfold cogFlat cog2 moments thresholded
  simp only [sumLast2, maxLast2]
  split_ifs with hnz
  · have e0 : ∀ y < ny, ∀ x < nx,
        frameOf ny nx (fun e => clipSub (thresOf t mn (max2 ny nx (frameOf ny nx a (unravelF ny nx e)))) (a e)) i y x
          = clipSub (thresOf t mn (max2 ny nx (frameOf ny nx a i))) (frameOf ny nx a i y x) := by
      intro y hy x hx; simp only [frameOf, unravelF_frame i hy hx]
    have ex : ∀ y < ny, ∀ x < nx,
        frameOf ny nx (fun e => ((unravelX nx e : ℕ) : K)
            * clipSub (thresOf t mn (max2 ny nx (frameOf ny nx a (unravelF ny nx e)))) (a e)) i y x
          = (x : K) * clipSub (thresOf t mn (max2 ny nx (frameOf ny nx a i))) (frameOf ny nx a i y x) := by
      intro y hy x hx; simp only [frameOf, unravelF_frame i hy hx, unravelX_frame _ hx]
    have ey : ∀ y < ny, ∀ x < nx,
        frameOf ny nx (fun e => ((unravelY ny nx e : ℕ) : K)
            * clipSub (thresOf t mn (max2 ny nx (frameOf ny nx a (unravelF ny nx e)))) (a e)) i y x
          = (y : K) * clipSub (thresOf t mn (max2 ny nx (frameOf ny nx a i))) (frameOf ny nx a i y x) := by
      intro y hy x hx; simp only [frameOf, unravelF_frame i hy hx, unravelY_frame i hy hx]
    rw [sum2_congr e0, sum2_congr ex, sum2_congr ey]
  · have ex : ∀ y < ny, ∀ x < nx,
        frameOf ny nx (fun e => ((unravelX nx e : ℕ) : K) * a e) i y x = (x : K) * frameOf ny nx a i y x := by
      intro y hy x hx; simp only [frameOf, unravelX_frame _ hx]
    have ey : ∀ y < ny, ∀ x < nx,
        frameOf ny nx (fun e => ((unravelY ny nx e : ℕ) : K) * a e) i y x = (y : K) * frameOf ny nx a i y x := by
      intro y hy x hx; simp only [frameOf, unravelY_frame i hy hx]
    rw [sum2_congr ex, sum2_congr ey]

/-- `brightest_pixel` on the buffer: the reshape / sort / `[..., -k]` / broadcast pipeline gives frame `i` the answer of
the 2-D path on `img[i]`, for every pixel count -/
theorem bpFlat_eq_frame (ny nx k : ℕ) (a : ℕ → K) (i : ℕ) :
    bpFlat ny nx k a i = bp2 ny nx k (frameOf ny nx a i) := by
  unfold bpFlat bp2
  rw [cogFlat_eq_frame]
  unfold cog2
  apply moments_congr
  intro y hy x hx
  have h0 : nonzero (((0 : ℕ) : K)) = false := by
    rw [Bool.eq_false_iff]; intro h; exact (nonzero_iff _).mp h Nat.cast_zero
  unfold thresholded
  rw [h0]
  simp only [Bool.false_eq_true, if_false]
  show clip0 (a ((i * ny + y) * nx + x) - _) = _
  rw [unravelF_frame i hy hx, row_eq_flat]
  rfl

/-- `quadCell` on the buffer (`img.sum(-2)`, `img.sum(-1)`, `[..., 1] - [..., 0]`) for frames with at least two columns -/
theorem quadFlat_eq_frame {nx : ℕ} (ny : ℕ) (hx : 2 ≤ nx) (a : ℕ → K) (i : ℕ) :
    quadFlat ny nx a i = quadCell ny nx (frameOf ny nx a i) := by
  unfold quadFlat quadCell sumLast frameOf
  have h1 : (i * nx + 1) / nx = i := div_frame i (by omega)
  have h0 : (i * nx + 0) / nx = i := div_frame i (by omega)
  have m1 : (i * nx + 1) % nx = 1 := Nat.mul_add_mod_of_lt (by omega)
  have m0 : (i * nx + 0) % nx = 0 := Nat.mul_add_mod_of_lt (by omega)
  simp only [h1, h0, m1, m0]

end field

/-- `correlation_centroid` on a `(nt, ny, nx)` buffer (`(im.T - im.min((1,2))).T`, then the loop over `im[frame]`) gives
frame `i` the answer of the 2-D entry on `im[i]` -/
theorem corrFlat_eq_frame {K C : Type} [Field K] [LinearOrder K] [IsStrictOrderedRing K] [Add C] [Mul C] [OfScientific C]
    (ny nx pad : ℕ) (wy wx wiy wix : ℕ → C) (ninvy ninvx zero : C) (conj : C → C) (absC : C → K)
    (memo : (ℕ → ℕ → C) → Img C) (ofReal : K → C) (t : K) (a : ℕ → K) (ref : ℕ → ℕ → K) (i : ℕ) :
    corrFlat ny nx pad wy wx wiy wix ninvy ninvx zero conj absC memo ofReal t a ref i
      = corrCentroid ny nx pad wy wx wiy wix ninvy ninvx zero conj absC memo ofReal t (frameOf ny nx a i) ref := by
  unfold corrFlat corrCentroid
  congr 2
  apply crossCorrelate_congr_frame
  · intro u hu v hv
    show ofReal (a ((i * ny + u) * nx + v) - _) = _
    rw [unravelF_frame i hu hv]
    rfl
  · intro u _ v _; rfl

end AoVerif.Centroid
