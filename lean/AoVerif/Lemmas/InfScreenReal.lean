/-
The concrete row functions of `Model/InfScreen.lean` read over ℝ: the list-level `dot` / `matVec` / `fetch?` /
`vkRow?` (the very definitions the correspondence driver runs at `Float`) are Mathlib's `Matrix.mulVec` on the
matrices and vectors the lists denote.
-/
import Mathlib.Data.Matrix.Mul
import Mathlib.Algebra.BigOperators.Fin
import Mathlib.Data.Real.Basic
import Mathlib.Tactic.NormNum
import AoVerif.Model.InfScreen

namespace AoVerif.InfScreen.RealRead
open AoVerif.InfScreen Matrix

/-- the vector a list denotes (entries beyond the end read as 0; never used under the shape hypotheses) -/
def toVec (n : ℕ) (l : List ℝ) : Fin n → ℝ := fun i => l.getD i.val 0

/-- the matrix a list of rows denotes -/
def toMat (m n : ℕ) (A : List (List ℝ)) : Matrix (Fin m) (Fin n) ℝ := fun i j => (A.getD i.val []).getD j.val 0

/-- entry `(i, j)` of the working array -/
def entry (rows : List (List ℝ)) (ij : ℕ × ℕ) : ℝ := (rows.getD ij.1 []).getD ij.2 0

theorem zero_lit : (0.0 : ℝ) = 0 := by norm_num

theorem dot_eq_list_sum (a b : List ℝ) : dot a b = (List.zipWith (· * ·) a b).sum := by
  unfold dot
  rw [zero_lit, List.sum_eq_foldl]

theorem zipWith_mul_sum (n : ℕ) : ∀ (a b : List ℝ), a.length = n → b.length = n →
    (List.zipWith (· * ·) a b).sum = ∑ i : Fin n, a.getD i.val 0 * b.getD i.val 0 := by
  induction n with
  | zero =>
    intro a b ha hb
    rw [List.length_eq_zero_iff.1 ha]; simp
  | succ n ih =>
    intro a b ha hb
    match a, b, ha, hb with
    | x :: a', y :: b', ha, hb =>
      rw [Fin.sum_univ_succ]
      simp only [List.zipWith_cons_cons, List.sum_cons, Fin.val_zero, List.getD_cons_zero, Fin.val_succ,
        List.getD_cons_succ]
      rw [ih a' b' (by simpa using ha) (by simpa using hb)]

theorem dot_eq_sum (n : ℕ) (a b : List ℝ) (ha : a.length = n) (hb : b.length = n) :
    dot a b = ∑ i : Fin n, a.getD i.val 0 * b.getD i.val 0 := by
  rw [dot_eq_list_sum, zipWith_mul_sum n a b ha hb]

/-- `matVec` is `Matrix.mulVec` -/
theorem matVec_eq (m n : ℕ) (A : List (List ℝ)) (v : List ℝ) (hA : A.length = m) (hA' : ∀ r ∈ A, r.length = n)
    (hv : v.length = n) :
    (matVec A v).length = m ∧ toVec m (matVec A v) = toMat m n A *ᵥ toVec n v := by
  refine ⟨by simp [matVec, hA], ?_⟩
  funext i
  have hi : i.val < A.length := by rw [hA]; exact i.isLt
  have hrow : (A.getD i.val []) = A[i.val] := by
    rw [List.getD_eq_getElem?_getD, List.getElem?_eq_getElem hi]; rfl
  simp only [toVec, toMat, matVec, mulVec, dotProduct]
  rw [List.getD_eq_getElem?_getD, List.getElem?_map, List.getElem?_eq_getElem hi]
  simp only [Option.map_some, Option.getD_some]
  rw [dot_eq_sum n _ v (hA' _ (List.getElem_mem hi)) hv, hrow]

theorem mapM_option_map {α β : Type} (g : α → Option β) (h : α → β) :
    ∀ l : List α, (∀ x ∈ l, g x = some (h x)) → l.mapM g = some (l.map h) := by
  intro l
  induction l with
  | nil => intro _; rfl
  | cons a t ih =>
    intro hl
    rw [List.mapM_cons, hl a (List.mem_cons_self ..), ih (fun x hx => hl x (List.mem_cons_of_mem _ hx))]
    rfl

/-- in-range stencil coordinates are fetched as the entries they name -/
theorem fetch_eq (rows : List (List ℝ)) (coords : List (ℕ × ℕ))
    (hin : ∀ ij ∈ coords, ij.1 < rows.length ∧ ij.2 < (rows.getD ij.1 []).length) :
    fetch? rows coords = some (coords.map (entry rows)) := by
  unfold fetch?
  apply mapM_option_map
  intro ij hij
  obtain ⟨h1, h2⟩ := hin ij hij
  have hrow : rows.getD ij.1 [] = rows[ij.1] := by
    rw [List.getD_eq_getElem?_getD, List.getElem?_eq_getElem h1]; rfl
  rw [hrow] at h2
  simp only [entry, hrow, List.getElem?_eq_getElem h1, Option.bind_some, List.getElem?_eq_getElem h2]
  rw [List.getD_eq_getElem?_getD, List.getElem?_eq_getElem h2]; rfl

theorem toVec_vadd (n : ℕ) (a b : List ℝ) (ha : a.length = n) (hb : b.length = n) :
    (vadd a b).length = n ∧ toVec n (vadd a b) = toVec n a + toVec n b := by
  refine ⟨by simp [vadd, ha, hb], ?_⟩
  funext i
  have hia : i.val < a.length := by rw [ha]; exact i.isLt
  have hib : i.val < b.length := by rw [hb]; exact i.isLt
  simp only [toVec, vadd, Pi.add_apply, List.getD_eq_getElem?_getD, List.getElem?_zipWith,
    List.getElem?_eq_getElem hia, List.getElem?_eq_getElem hib]
  rfl

/-- **the von Kármán row function is `A·z + B·b`** with `z` the fetched stencil entries -/
theorem vkRow_eq (nx nst : ℕ) (A B rows : List (List ℝ)) (coords : List (ℕ × ℕ)) (b : List ℝ)
    (hA : A.length = nx) (hA' : ∀ r ∈ A, r.length = nst) (hB : B.length = nx) (hB' : ∀ r ∈ B, r.length = nx)
    (hc : coords.length = nst) (hin : ∀ ij ∈ coords, ij.1 < rows.length ∧ ij.2 < (rows.getD ij.1 []).length)
    (hb : b.length = nx) :
    ∃ row, vkRow? A B coords rows b = some row ∧ row.length = nx ∧
      toVec nx row = toMat nx nst A *ᵥ toVec nst (coords.map (entry rows)) + toMat nx nx B *ᵥ toVec nx b := by
  have hz : (coords.map (entry rows)).length = nst := by simp [hc]
  obtain ⟨l1, e1⟩ := matVec_eq nx nst A _ hA hA' hz
  obtain ⟨l2, e2⟩ := matVec_eq nx nx B b hB hB' hb
  obtain ⟨l3, e3⟩ := toVec_vadd nx _ _ l1 l2
  refine ⟨_, ?_, l3, ?_⟩
  · rw [vkRow?, fetch_eq rows coords hin]; rfl
  · rw [e3, e1, e2]

/-! ### the von Kármán stencil as a row-major enumeration of `Fin ncol × Fin nx` -/

theorem flat_length {γ : Type} (g : ℕ → ℕ → γ) (n : ℕ) : ∀ m : ℕ,
    ((List.range m).flatMap (fun i => (List.range n).map (g i))).length = m * n := by
  intro m
  induction m with
  | zero => simp
  | succ m ih => rw [List.range_succ, List.flatMap_append, List.length_append, ih]; simp [Nat.succ_mul]

theorem flat_get {γ : Type} (g : ℕ → ℕ → γ) (n : ℕ) : ∀ m i j : ℕ, i < m → j < n →
    ((List.range m).flatMap (fun i => (List.range n).map (g i)))[i * n + j]? = some (g i j) := by
  intro m
  induction m with
  | zero => intro i j hi; omega
  | succ m ih =>
    intro i j hi hj
    rw [List.range_succ, List.flatMap_append]
    rcases Nat.lt_succ_iff_lt_or_eq.1 hi with h | rfl
    · have h1 : (i + 1) * n ≤ m * n := Nat.mul_le_mul_right n h
      rw [Nat.succ_mul] at h1
      rw [List.getElem?_append_left (by rw [flat_length]; omega)]
      exact ih i j h hj
    · rw [List.getElem?_append_right (by rw [flat_length]; omega), flat_length]
      simp [hj]

theorem mem_vkStencil (len nx ncol : ℕ) (ij : ℕ × ℕ) :
    ij ∈ vkStencil len nx ncol ↔ ij.1 < min ncol len ∧ ij.2 < nx := by
  unfold vkStencil
  simp only [List.mem_flatMap, List.mem_range, List.mem_map]
  constructor
  · rintro ⟨i, hi, j, hj, rfl⟩; exact ⟨hi, hj⟩
  · rintro ⟨h1, h2⟩; exact ⟨ij.1, h1, ij.2, h2, rfl⟩

theorem vkStencil_length (len nx ncol : ℕ) : (vkStencil len nx ncol).length = min ncol len * nx :=
  flat_length _ _ _

theorem vkStencil_get (len nx ncol i j : ℕ) (hi : i < min ncol len) (hj : j < nx) :
    (vkStencil len nx ncol)[i * nx + j]? = some (i, j) :=
  flat_get (fun i j => (i, j)) nx _ i j hi hj

/-- stencil vector of a von Kármán state: entry `(r, c)` of the working array, `r ≤ nc` (`n_columns = nc+1`) -/
def stencilVec (nc nx : ℕ) (rows : List (List ℝ)) : Fin (nc + 1) × Fin nx → ℝ :=
  fun p => (rows.getD p.1.val []).getD p.2.val 0

/-- the list-of-rows `A_mat` read with the stencil index as (row, column) of the working array -/
def pairMat (nc nx : ℕ) (A : List (List ℝ)) : Matrix (Fin nx) (Fin (nc + 1) × Fin nx) ℝ :=
  fun i p => (A.getD i.val []).getD (p.1.val * nx + p.2.val) 0

theorem stencil_mulVec (nc nx len : ℕ) (hlen : nc + 1 ≤ len) (A rows : List (List ℝ)) :
    toMat nx ((nc + 1) * nx) A *ᵥ toVec ((nc + 1) * nx) ((vkStencil len nx (nc + 1)).map (entry rows))
      = pairMat nc nx A *ᵥ stencilVec nc nx rows := by
  funext i
  simp only [mulVec, dotProduct]
  symm
  apply Fintype.sum_equiv finProdFinEquiv
  intro p
  have hidx : (finProdFinEquiv p).val = p.1.val * nx + p.2.val := by
    simp [finProdFinEquiv, Nat.mul_comm, Nat.add_comm]
  have hmin : min (nc + 1) len = nc + 1 := Nat.min_eq_left hlen
  have hget := vkStencil_get len nx (nc + 1) p.1.val p.2.val (by rw [hmin]; exact p.1.isLt) p.2.isLt
  simp only [pairMat, toMat, toVec, stencilVec, hidx]
  congr 1
  rw [List.getD_eq_getElem?_getD (l := List.map _ _), List.getElem?_map, hget]
  simp [entry]

/-- the row kernel of `PhaseScreenVonKarman` built from list matrices: `Model.vkRow?` on the stencil of the first
`nc+1` rows (`n_columns = nc+1`) -/
def vkKernel (n nc : ℕ) (A B : List (List ℝ)) : List (List ℝ) → List ℝ → List ℝ :=
  fun rows b => (vkRow? A B (vkStencil n n (nc + 1)) rows b).getD []

theorem vkKernel_spec (n nc : ℕ) (hnc : nc + 1 ≤ n) (A B : List (List ℝ)) (hA : A.length = n)
    (hA' : ∀ r ∈ A, r.length = (nc + 1) * n) (hB : B.length = n) (hB' : ∀ r ∈ B, r.length = n)
    (rows : List (List ℝ)) (hr : rows.length = n) (hr' : ∀ r ∈ rows, r.length = n) (b : List ℝ) (hb : b.length = n) :
    (vkKernel n nc A B rows b).length = n ∧
      toVec n (vkKernel n nc A B rows b)
        = pairMat nc n A *ᵥ stencilVec nc n rows + toMat n n B *ᵥ toVec n b := by
  have hmin : min (nc + 1) n = nc + 1 := Nat.min_eq_left hnc
  have hc : (vkStencil n n (nc + 1)).length = (nc + 1) * n := by rw [vkStencil_length, hmin]
  have hin : ∀ ij ∈ vkStencil n n (nc + 1), ij.1 < rows.length ∧ ij.2 < (rows.getD ij.1 []).length := by
    intro ij hij
    obtain ⟨h1, h2⟩ := (mem_vkStencil n n (nc + 1) ij).1 hij
    have h1' : ij.1 < rows.length := by rw [hr]; omega
    refine ⟨h1', ?_⟩
    rw [List.getD_eq_getElem?_getD, List.getElem?_eq_getElem h1']
    simp only [Option.getD_some]
    rw [hr' _ (List.getElem_mem h1')]; exact h2
  obtain ⟨row, e, hl, hv⟩ := vkRow_eq n ((nc + 1) * n) A B rows _ b hA hA' hB hB' hc hin hb
  simp only [vkKernel, e, Option.getD_some]
  exact ⟨hl, by rw [hv, stencil_mulVec nc n n hnc]⟩

theorem toVec_draws (ξ : ℕ → ℝ) (pos n : ℕ) : toVec n (draws ξ pos n) = fun j : Fin n => ξ (pos + j.val) := by
  funext j
  simp [toVec, draws, List.getD_eq_getElem?_getD, j.isLt]


theorem inbounds_of_shape (len nx : ℕ) (rows : List (List ℝ)) (hr : rows.length = len) (hr' : ∀ r ∈ rows, r.length = nx)
    (ij : ℕ × ℕ) (h1 : ij.1 < len) (h2 : ij.2 < nx) : ij.1 < rows.length ∧ ij.2 < (rows.getD ij.1 []).length := by
  have h1' : ij.1 < rows.length := by rw [hr]; exact h1
  refine ⟨h1', ?_⟩
  rw [List.getD_eq_getElem?_getD, List.getElem?_eq_getElem h1']
  simp only [Option.getD_some]
  rw [hr' _ (List.getElem_mem h1')]; exact h2

/-- the row kernel of `PhaseScreenKolmogorov` built from list matrices -/
def friedKernel (A B : List (List ℝ)) (coords : List (ℕ × ℕ)) (ref : ℕ × ℕ) : List (List ℝ) → List ℝ → List ℝ :=
  fun rows b => (friedRow? A B coords ref rows b).getD []

/-- the Fried/Kolmogorov row function returns `nx` values whenever the stencil coordinates and the reference point lie inside
the working array (C04 `fried_stencil_inbounds`) and `A_mat` has `nx` rows, `B_mat` has `nx` rows -/
theorem friedRow_length (nx : ℕ) (A B rows : List (List ℝ)) (coords : List (ℕ × ℕ)) (ref : ℕ × ℕ) (b : List ℝ)
    (hA : A.length = nx) (hB : B.length = nx)
    (hin : ∀ ij ∈ coords, ij.1 < rows.length ∧ ij.2 < (rows.getD ij.1 []).length)
    (href : ref.1 < rows.length ∧ ref.2 < (rows.getD ref.1 []).length) :
    ∃ row, friedRow? A B coords ref rows b = some row ∧ row.length = nx := by
  obtain ⟨h1, h2⟩ := href
  have hrow : rows.getD ref.1 [] = rows[ref.1] := by
    rw [List.getD_eq_getElem?_getD, List.getElem?_eq_getElem h1]; rfl
  rw [hrow] at h2
  have e : friedRow? A B coords ref rows b
      = some ((vadd (matVec A ((coords.map (entry rows)).map (· - rows[ref.1][ref.2]))) (matVec B b)).map
          (· + rows[ref.1][ref.2])) := by
    rw [friedRow?, fetch_eq rows coords hin]
    simp only [Option.bind_some, List.getElem?_eq_getElem h1, List.getElem?_eq_getElem h2, Option.map_some]
  exact ⟨_, e, by simp [vadd, matVec, hA, hB]⟩

end AoVerif.InfScreen.RealRead
