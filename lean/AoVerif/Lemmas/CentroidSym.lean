/-
Centre of gravity of a point-symmetric surface (the correlation of an image with a displaced copy of itself).
-/
import AoVerif.Lemmas.CentroidShift
import Mathlib.Algebra.BigOperators.Group.Finset.Sigma

namespace AoVerif.Centroid
open Finset AoVerif
set_option linter.unusedSectionVars false

section field
variable {K : Type} [Field K] [LinearOrder K] [IsStrictOrderedRing K]

/-- `f` is point-symmetric about the pixel `(my, mx)` of a `py × px` frame: wherever it is non-zero the mirrored
pixel `(2my − a, 2mx − b)` is inside the frame and carries the same value -/
def PointSym (py px my mx : ℕ) (f : ℕ → ℕ → K) : Prop :=
  ∀ a < py, ∀ b < px, f a b ≠ 0 →
    a ≤ 2 * my ∧ 2 * my - a < py ∧ b ≤ 2 * mx ∧ 2 * mx - b < px ∧ f (2 * my - a) (2 * mx - b) = f a b

theorem PointSym.comp {py px my mx : ℕ} {f : ℕ → ℕ → K} (h : PointSym py px my mx f) (g : K → K) (g0 : g 0 = 0) :
    PointSym py px my mx (fun a b => g (f a b)) := by
  intro a ha b hb hne
  have hf : f a b ≠ 0 := fun h0 => hne (by show g (f a b) = 0; rw [h0, g0])
  obtain ⟨h1, h2, h3, h4, h5⟩ := h a ha b hb hf
  exact ⟨h1, h2, h3, h4, by show g (f (2 * my - a) (2 * mx - b)) = g (f a b); rw [h5]⟩

/-- weighted sum with an odd weight about the centre vanishes -/
theorem sum_odd_weight_zero {py px my mx : ℕ} {f : ℕ → ℕ → K} (h : PointSym py px my mx f)
    (w : ℕ → ℕ → K) (hw : ∀ a b, a ≤ 2 * my → b ≤ 2 * mx → w (2 * my - a) (2 * mx - b) = - w a b) :
    sum2 py px (fun a b => w a b * f a b) = 0 := by
  classical
  rw [sum2_eq, ← sum_product' (range py) (range px) (fun a b => w a b * f a b)]
  apply sum_involution (fun p _ => if f p.1 p.2 ≠ 0 then (2 * my - p.1, 2 * mx - p.2) else p)
  · intro p hp
    obtain ⟨ha, hb⟩ := mem_product.mp hp
    by_cases hf : f p.1 p.2 ≠ 0
    · obtain ⟨h1, _, h3, _, h5⟩ := h p.1 (mem_range.mp ha) p.2 (mem_range.mp hb) hf
      simp only [hf, ne_eq, not_false_eq_true, if_true]
      rw [h5, hw p.1 p.2 h1 h3]; ring
    · have hf0 : f p.1 p.2 = 0 := not_not.mp hf
      simp only [ne_eq, hf0, not_true_eq_false, if_false, mul_zero, add_zero]
  · intro p hp hne
    obtain ⟨ha, hb⟩ := mem_product.mp hp
    have hf : f p.1 p.2 ≠ 0 := fun h0 => hne (by rw [h0, mul_zero])
    obtain ⟨h1, _, h3, _, _⟩ := h p.1 (mem_range.mp ha) p.2 (mem_range.mp hb) hf
    simp only [hf, ne_eq, not_false_eq_true, if_true]
    intro heq
    have e1 : 2 * my - p.1 = p.1 := congrArg Prod.fst heq
    have e2 : 2 * mx - p.2 = p.2 := congrArg Prod.snd heq
    have hw0 := hw p.1 p.2 h1 h3
    rw [e1, e2] at hw0
    have : w p.1 p.2 = 0 := by linarith
    exact hne (by rw [this, zero_mul])
  · intro p hp
    obtain ⟨ha, hb⟩ := mem_product.mp hp
    by_cases hf : f p.1 p.2 ≠ 0
    · obtain ⟨_, h2, _, h4, _⟩ := h p.1 (mem_range.mp ha) p.2 (mem_range.mp hb) hf
      simp only [hf, ne_eq, not_false_eq_true, if_true]
      exact mem_product.mpr ⟨mem_range.mpr h2, mem_range.mpr h4⟩
    · simp only [hf, if_false]; exact hp
  · intro p hp
    obtain ⟨ha, hb⟩ := mem_product.mp hp
    by_cases hf : f p.1 p.2 ≠ 0
    · obtain ⟨h1, _, h3, _, h5⟩ := h p.1 (mem_range.mp ha) p.2 (mem_range.mp hb) hf
      have hf' : f (2 * my - p.1) (2 * mx - p.2) ≠ 0 := by rw [h5]; exact hf
      simp only [hf, hf', ne_eq, not_false_eq_true, if_true]
      ext <;> simp <;> omega
    · simp only [hf, if_false]

/-- the moments of a point-symmetric surface with non-zero total are the centre of symmetry -/
theorem moments_pointSym {py px my mx : ℕ} {f : ℕ → ℕ → K} (h : PointSym py px my mx f)
    (htot : sum2 py px f ≠ 0) : moments py px f = ((mx : K), (my : K)) := by
  have hx := sum_odd_weight_zero h (fun _ b => (b : K) - (mx : K)) (by
    intro a b _ hb
    rw [Nat.cast_sub hb]; push_cast; ring)
  have hy := sum_odd_weight_zero h (fun a _ => (a : K) - (my : K)) (by
    intro a b ha _
    rw [Nat.cast_sub ha]; push_cast; ring)
  have ex : sum2 py px (fun a b => (b : K) * f a b) = (mx : K) * sum2 py px f := by
    rw [← sum2_smul, ← sub_eq_zero, ← hx, sum2_eq, sum2_eq, sum2_eq, ← sum_sub_distrib]
    apply sum_congr rfl; intro a _; rw [← sum_sub_distrib]; apply sum_congr rfl; intro b _; ring
  have ey : sum2 py px (fun a b => (a : K) * f a b) = (my : K) * sum2 py px f := by
    rw [← sum2_smul, ← sub_eq_zero, ← hy, sum2_eq, sum2_eq, sum2_eq, ← sum_sub_distrib]
    apply sum_congr rfl; intro a _; rw [← sum_sub_distrib]; apply sum_congr rfl; intro b _; ring
  unfold moments
  rw [ex, ey, mul_div_cancel_right₀ _ htot, mul_div_cancel_right₀ _ htot]

/-- thresholded centre of gravity (2-D path) of a non-negative point-symmetric surface -/
theorem cog2_pointSym {py px my mx : ℕ} (hy : 0 < py) (hx : 0 < px) {t : K} (ht1 : t < 1) {f : ℕ → ℕ → K}
    (hnn : ∀ a < py, ∀ b < px, 0 ≤ f a b) (hpos : ∃ a < py, ∃ b < px, 0 < f a b) (h : PointSym py px my mx f) :
    cog2 py px t 0 f = ((mx : K), (my : K)) := by
  have hmax : (0 : K) < max2 py px f := by
    obtain ⟨a, ha, b, hb, hab⟩ := hpos
    exact lt_of_lt_of_le hab ((max2_spec hy hx f).2 a ha b hb)
  have htot := thresholded_total_pos hy hx hnn ht1 (le_refl 0) hmax
  unfold cog2
  have e : ∀ a < py, ∀ b < px, thresholded py px t 0 f a b = gOf t 0 (max2 py px f) (f a b) :=
    fun a _ b _ => thresholded_eq_gOf py px t 0 f a b
  rw [moments_congr e]
  apply moments_pointSym (h.comp _ (gOf_zero (le_refl 0)))
  rw [← sum2_congr e]; exact htot.ne'

end field
end AoVerif.Centroid
