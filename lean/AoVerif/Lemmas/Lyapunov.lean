/-
The covariance recursion `P ↦ F·P·F' + Q` in an arbitrary normed ring (used by C05 with real matrices and the
Frobenius norm, `F' = Fᵀ`, `Q = G·Gᵀ`): closed form of the distance to a fixed point, geometric decay under the
contraction hypothesis `‖F^k‖ ≤ c < 1`, uniqueness of the fixed point, convergence from any start.
-/
import Mathlib.Analysis.SpecificLimits.Basic
import Mathlib.Analysis.Normed.Ring.Basic
import Mathlib.Analysis.Normed.Group.Continuity
import Mathlib.Tactic.Ring
import Mathlib.Tactic.Linarith
import Mathlib.Tactic.NoncommRing

namespace AoVerif.Lyapunov

variable {R : Type*} [NormedRing R]

/-- `t` steps of `P ↦ F·P·F' + Q` from `P0` -/
def iter (F F' Q P0 : R) : ℕ → R
  | 0 => P0
  | t + 1 => F * iter F F' Q P0 t * F' + Q

/-- a bound for all the powers below `k` -/
noncomputable def powBound (a : R) (k : ℕ) : ℝ := ∑ r ∈ Finset.range k, ‖a ^ r‖

theorem powBound_nonneg (a : R) (k : ℕ) : 0 ≤ powBound a k :=
  Finset.sum_nonneg (fun _ _ => norm_nonneg _)

theorem le_powBound (a : R) {k r : ℕ} (h : r < k) : ‖a ^ r‖ ≤ powBound a k :=
  Finset.single_le_sum (f := fun r => ‖a ^ r‖) (fun _ _ => norm_nonneg _) (Finset.mem_range.2 h)

/-- distance to a fixed point, closed form -/
theorem iter_sub_fixed {F F' Q Ps : R} (hfix : F * Ps * F' + Q = Ps) (P0 : R) (t : ℕ) :
    iter F F' Q P0 t - Ps = F ^ t * (P0 - Ps) * F' ^ t := by
  induction t with
  | zero => simp [iter]
  | succ t ih =>
    have : iter F F' Q P0 (t + 1) - Ps = F * (iter F F' Q P0 t - Ps) * F' := by
      conv_lhs => rw [← hfix]
      simp only [iter]; noncomm_ring
    rw [this, ih, pow_succ', pow_succ]
    noncomm_ring

/-- powers decay geometrically in blocks of `k` -/
theorem norm_pow_le_block (a : R) {k : ℕ} (hk : 0 < k) {c : ℝ} (hc : ‖a ^ k‖ ≤ c) (t : ℕ) :
    ‖a ^ t‖ ≤ powBound a k * c ^ (t / k) := by
  have hc0 : 0 ≤ c := le_trans (norm_nonneg _) hc
  have hr : t % k < k := Nat.mod_lt _ hk
  rcases Nat.eq_zero_or_pos (t / k) with hq | hq
  · have : t = t % k := by
      conv_lhs => rw [← Nat.div_add_mod t k, hq]
      simp
    rw [hq, pow_zero, mul_one, this]
    exact le_powBound a hr
  · have e : a ^ t = a ^ (t % k) * (a ^ k) ^ (t / k) := by
      rw [← pow_mul, ← pow_add, Nat.mod_add_div]
    rw [e]
    calc ‖a ^ (t % k) * (a ^ k) ^ (t / k)‖ ≤ ‖a ^ (t % k)‖ * ‖(a ^ k) ^ (t / k)‖ := norm_mul_le _ _
      _ ≤ powBound a k * c ^ (t / k) := by
        apply mul_le_mul (le_powBound a hr) _ (norm_nonneg _) (powBound_nonneg a k)
        exact le_trans (norm_pow_le' _ hq) (pow_le_pow_left₀ (norm_nonneg _) hc _)

/-- **geometric convergence**: under `‖F^k‖ ≤ c`, `‖F'^k‖ ≤ c` the distance to a fixed point after `t` steps is at
most `M·M'·c^(2⌊t/k⌋)` times the initial distance (`M`, `M'` bound the first `k` powers) -/
theorem dist_fixed_le {F F' Q Ps : R} (hfix : F * Ps * F' + Q = Ps) {k : ℕ} (hk : 0 < k) {c : ℝ}
    (hF : ‖F ^ k‖ ≤ c) (hF' : ‖F' ^ k‖ ≤ c) (P0 : R) (t : ℕ) :
    ‖iter F F' Q P0 t - Ps‖ ≤ powBound F k * powBound F' k * (c ^ 2) ^ (t / k) * ‖P0 - Ps‖ := by
  rw [iter_sub_fixed hfix]
  have hc0 : 0 ≤ c := le_trans (norm_nonneg _) hF
  have h1 := norm_pow_le_block F hk hF t
  have h2 := norm_pow_le_block F' hk hF' t
  have hb1 : 0 ≤ powBound F k * c ^ (t / k) := mul_nonneg (powBound_nonneg _ _) (pow_nonneg hc0 _)
  calc ‖F ^ t * (P0 - Ps) * F' ^ t‖ ≤ ‖F ^ t‖ * ‖P0 - Ps‖ * ‖F' ^ t‖ :=
        le_trans (norm_mul_le _ _) (mul_le_mul_of_nonneg_right (norm_mul_le _ _) (norm_nonneg _))
    _ ≤ (powBound F k * c ^ (t / k)) * ‖P0 - Ps‖ * (powBound F' k * c ^ (t / k)) := by
        apply mul_le_mul _ h2 (norm_nonneg _) (mul_nonneg hb1 (norm_nonneg _))
        exact mul_le_mul_of_nonneg_right h1 (norm_nonneg _)
    _ = powBound F k * powBound F' k * (c ^ 2) ^ (t / k) * ‖P0 - Ps‖ := by
        rw [← pow_mul, mul_comm 2, pow_mul]; ring

/-- a fixed point stays where it is -/
theorem iter_fixed {F F' Q Ps : R} (hfix : F * Ps * F' + Q = Ps) (t : ℕ) : iter F F' Q Ps t = Ps := by
  induction t with
  | zero => rfl
  | succ t ih => simp only [iter, ih, hfix]

/-- **uniqueness** of the fixed point under the contraction hypothesis -/
theorem fixed_unique {F F' Q Ps Ps' : R} (hfix : F * Ps * F' + Q = Ps) (hfix' : F * Ps' * F' + Q = Ps')
    {k : ℕ} (hk : 0 < k) {c : ℝ} (hc : c < 1) (hF : ‖F ^ k‖ ≤ c) (hF' : ‖F' ^ k‖ ≤ c) : Ps' = Ps := by
  have hc0 : 0 ≤ c := le_trans (norm_nonneg _) hF
  by_contra hne
  have hx : 0 < ‖Ps' - Ps‖ := norm_pos_iff.2 (sub_ne_zero.2 hne)
  set K := powBound F k * powBound F' k with hK
  have hK0 : 0 ≤ K := mul_nonneg (powBound_nonneg _ _) (powBound_nonneg _ _)
  have hc2 : c ^ 2 < 1 := by nlinarith
  obtain ⟨n, hn⟩ := exists_pow_lt_of_lt_one (x := 1 / (K + 1)) (by positivity) hc2
  have hb := dist_fixed_le hfix hk hF hF' Ps' (k * n)
  rw [iter_fixed hfix', Nat.mul_div_cancel_left _ hk] at hb
  have : K * (c ^ 2) ^ n < 1 := by
    have h1 : K * (c ^ 2) ^ n ≤ K * (1 / (K + 1)) := mul_le_mul_of_nonneg_left hn.le hK0
    have h2 : K * (1 / (K + 1)) < 1 := by
      rw [mul_one_div, div_lt_one (by linarith)]; linarith
    linarith
  nlinarith

open Filter Topology in
/-- **convergence** from any start under the contraction hypothesis -/
theorem tendsto_fixed {F F' Q Ps : R} (hfix : F * Ps * F' + Q = Ps) {k : ℕ} (hk : 0 < k) {c : ℝ} (hc : c < 1)
    (hF : ‖F ^ k‖ ≤ c) (hF' : ‖F' ^ k‖ ≤ c) (P0 : R) :
    Tendsto (iter F F' Q P0) atTop (𝓝 Ps) := by
  have hc0 : 0 ≤ c := le_trans (norm_nonneg _) hF
  have hc2 : c ^ 2 < 1 := by nlinarith
  rw [tendsto_iff_norm_sub_tendsto_zero]
  have hpow : Tendsto (fun t : ℕ => (c ^ 2) ^ (t / k)) atTop (𝓝 0) :=
    (tendsto_pow_atTop_nhds_zero_of_lt_one (by positivity) hc2).comp
      (Nat.tendsto_div_const_atTop (Nat.pos_iff_ne_zero.1 hk))
  have hlim : Tendsto (fun t : ℕ => powBound F k * powBound F' k * (c ^ 2) ^ (t / k) * ‖P0 - Ps‖) atTop (𝓝 0) := by
    have := (hpow.const_mul (powBound F k * powBound F' k)).mul_const ‖P0 - Ps‖
    simpa using this
  exact squeeze_zero (fun _ => norm_nonneg _) (fun t => dist_fixed_le hfix hk hF hF' P0 t) hlim

open Filter Topology in
/-- under the contraction hypothesis the powers themselves tend to zero (the influence `F^t z₀` of the start dies out) -/
theorem tendsto_pow_zero (a : R) {k : ℕ} (hk : 0 < k) {c : ℝ} (hc : c < 1) (ha : ‖a ^ k‖ ≤ c) :
    Tendsto (fun t : ℕ => a ^ t) atTop (𝓝 0) := by
  have hc0 : 0 ≤ c := le_trans (norm_nonneg _) ha
  have hpow : Tendsto (fun t : ℕ => c ^ (t / k)) atTop (𝓝 0) :=
    (tendsto_pow_atTop_nhds_zero_of_lt_one hc0 hc).comp (Nat.tendsto_div_const_atTop (Nat.pos_iff_ne_zero.1 hk))
  have hlim : Tendsto (fun t : ℕ => powBound a k * c ^ (t / k)) atTop (𝓝 0) := by
    simpa using hpow.const_mul (powBound a k)
  exact squeeze_zero_norm (fun t => norm_pow_le_block a hk ha t) hlim

end AoVerif.Lyapunov
