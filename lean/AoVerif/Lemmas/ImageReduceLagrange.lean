/- A concrete kernel meeting `SplineContract` (tensor-product Lagrange interpolation on the integer nodes): shows the
   contract assumed of RectBivariateSpline is consistent, so the zoom theorems of C16 are not vacuous. -/
import Mathlib.LinearAlgebra.Lagrange
import AoVerif.Lemmas.ImageReduce

namespace AoVerif.ImageReduce
open AoVerif AoVerif.ImageReduce Finset Polynomial

/-- 1-D Lagrange interpolation of the samples `g 0 … g (n-1)` on the nodes `0 … n-1`, evaluated at `x` -/
noncomputable def lag (n : ℕ) (g : ℕ → ℝ) (x : ℝ) : ℝ :=
  ∑ i ∈ range n, g i * (Lagrange.basis (range n) (fun k : ℕ => (k : ℝ)) i).eval x

theorem castInjOn (n : ℕ) : Set.InjOn (fun k : ℕ => (k : ℝ)) (range n : Finset ℕ) :=
  (Nat.cast_injective (R := ℝ)).injOn

theorem lag_eq_interpolate (n : ℕ) (g : ℕ → ℝ) (x : ℝ) :
    lag n g x = (Lagrange.interpolate (range n) (fun k : ℕ => (k : ℝ)) g).eval x := by
  unfold lag
  rw [Lagrange.interpolate_apply, eval_finsetSum]
  refine sum_congr rfl (fun i _ => ?_)
  rw [eval_mul, eval_C]

theorem lag_node (n : ℕ) (g : ℕ → ℝ) (i : ℕ) (hi : i < n) : lag n g (i : ℝ) = g i := by
  rw [lag_eq_interpolate]
  exact Lagrange.eval_interpolate_at_node (v := fun k : ℕ => (k : ℝ)) g (castInjOn n) (mem_range.mpr hi)

theorem lag_pow (n p : ℕ) (hp : p < n) (x : ℝ) : lag n (fun i => (i : ℝ) ^ p) x = x ^ p := by
  rw [lag_eq_interpolate]
  have hdeg : (X ^ p : ℝ[X]).degree < (range n).card := by
    rw [degree_X_pow, card_range]; exact_mod_cast hp
  have := Lagrange.eq_interpolate (v := fun k : ℕ => (k : ℝ)) (castInjOn n) hdeg
  simp only [eval_pow, eval_X] at this
  rw [← this, eval_pow, eval_X]

/-- tensor-product Lagrange interpolation: a kernel meeting the contract (so the contract is consistent) -/
noncomputable def lagrangeKernel : SplineKernel ℝ where
  eval := fun _ nx ny d x y => lag nx (fun i => lag ny (fun j => d i j) y) x

theorem lagrangeKernel_contract : SplineContract lagrangeKernel where
  congr := by
    intro order nx ny d d' h x y
    simp only [lagrangeKernel, lag]
    refine sum_congr rfl (fun i hi => ?_)
    congr 1
    refine sum_congr rfl (fun j hj => ?_)
    rw [h i (mem_range.mp hi) j (mem_range.mp hj)]
  interp := by
    intro order nx ny d _ _ i hi j hj
    simp only [lagrangeKernel]
    rw [lag_node nx _ i hi, lag_node ny _ j hj]
  add := by
    intro order nx ny d d' x y
    simp only [lagrangeKernel, lag]
    simp only [add_mul, sum_add_distrib]
  smul := by
    intro order nx ny a d x y
    simp only [lagrangeKernel, lag]
    simp only [mul_sum, sum_mul, mul_assoc]
  monomial := by
    intro order nx ny p q hx hy hp hq x y _ _ _ _
    simp only [lagrangeKernel]
    have h1 : ∀ i : ℕ, lag ny (fun j => (i : ℝ) ^ p * (j : ℝ) ^ q) y = (i : ℝ) ^ p * y ^ q := by
      intro i
      have := lag_pow ny q (by omega) y
      unfold lag at this ⊢
      rw [← this, mul_sum]
      exact sum_congr rfl (fun j _ => by ring)
    simp only [h1]
    have := lag_pow nx p (by omega) x
    unfold lag at this ⊢
    rw [← this, sum_mul]
    exact sum_congr rfl (fun i _ => by ring)

end AoVerif.ImageReduce
