/- Correspondence driver ops for C16: the model definitions of `Model/ImageReduce.lean` run at `Int` / `Float`. -/
import AoVerif.Drive.Util
import AoVerif.Model.ImageReduce
namespace AoVerif.Drive.C16
open AoVerif AoVerif.Drive AoVerif.ImageReduce

/-- row-major array → index function (out-of-range reads are never requested by well-formed ops) -/
def img2 {α : Type} [Inhabited α] (a : Array α) (cols : Nat) : Nat → Nat → α := fun r c => a[r * cols + c]!

def tab2 {α : Type} (rows cols : Nat) (f : Nat → Nat → α) : Array α :=
  (Array.range (rows * cols)).map (fun k => f (k / cols) (k % cols))

/-- bilinear interpolation on the integer grid = `RectBivariateSpline(..., kx=1, ky=1)` (s = 0) inside the grid;
used as the concrete order-1 kernel when the model's zoom glue is executed -/
def bilinear : SplineKernel Float where
  eval := fun _ nx ny data x y =>
    let i0 : Nat := min (x.floor.toUInt64.toNat) (nx - 2)
    let j0 : Nat := min (y.floor.toUInt64.toNat) (ny - 2)
    let tx := x - i0.toFloat
    let ty := y - j0.toFloat
    (1.0 - tx) * ((1.0 - ty) * data i0 j0 + ty * data i0 (j0 + 1))
      + tx * ((1.0 - ty) * data (i0 + 1) j0 + ty * data (i0 + 1) (j0 + 1))

def boolStr (b : Bool) : String := if b then "1" else "0"

/-- `azavg` answer: size/2 triples  num den avg -/
def azAnswer (size : Nat) (data : Nat → Nat → Float) : String :=
  joinFloats ((Array.range (size / 2)).flatMap (fun i =>
    #[azNum size data i, azDen (K := Float) size i, azimuthalAverage size data i]))

/-- `ee` answer: index, diameter, xi (4dim), yi (4dim); the 21 nodes are tabulated once (same definitions, memoised) -/
def eeAnswer (dim : Nat) (xc yc fr : Float) (data : Nat → Nat → Float) : String :=
  let xpA := (Array.range (eeNpt + 1)).map (eeXp dim xc yc (eeRadius (K := Float) dim))
  let fpA := (Array.range (eeNpt + 1)).map (eeFp dim xc yc data (eeRadius (K := Float) dim))
  let yiA := (Array.range (4 * dim)).map (fun k => interp (eeNpt + 1) (fun j => xpA[j]!) (fun j => fpA[j]!) (eeXi dim k))
  let idx := argmin (fun k => Transc.abs (yiA[k]! - fr)) (4 * dim - 1)
  toString idx ++ " " ++ floatHex (eeXi (K := Float) dim idx) ++ " "
    ++ joinFloats ((Array.range (4 * dim)).map (eeXi (K := Float) dim)) ++ " " ++ joinFloats yiA

def handle (args : List String) : Option String :=
  match args with
  -- bin2 rows cols n v…   (Int image, rows and cols divisible by n)
  | "bin2" :: rows :: cols :: n :: rest => do
      let rows ← rows.toNat?; let cols ← cols.toNat?; let n ← n.toNat?
      let a ← parseInts? rest
      if n = 0 ∨ a.size ≠ rows * cols ∨ rows % n ≠ 0 ∨ cols % n ≠ 0 then none else
      pure (joinInts (tab2 (rows / n) (cols / n) (binImgs2 (0 : Int) n (img2 a cols))))
  -- binN batch rows cols n v…   (stack of `batch` Int images, leading axes flattened)
  | "binN" :: b :: rows :: cols :: n :: rest => do
      let b ← b.toNat?; let rows ← rows.toNat?; let cols ← cols.toNat?; let n ← n.toNat?
      let a ← parseInts? rest
      if n = 0 ∨ a.size ≠ b * rows * cols ∨ rows % n ≠ 0 ∨ cols % n ≠ 0 then none else
      let stack : Nat → Nat → Nat → Int := fun k r c => a[k * rows * cols + r * cols + c]!
      let out := binImgsN (0 : Int) n stack
      pure (joinInts ((Array.range b).flatMap (fun k => tab2 (rows / n) (cols / n) (out k))))
  -- lin stop num  → numpy.linspace(0, stop, num)
  | ["lin", stop, num] => do
      let stop ← stop.toNat?; let num ← num.toNat?
      pure (joinFloats ((Array.range num).map (fun i => linspace0 (stop.toFloat) num i)))
  -- zoom1 entry nx ny xSize ySize v…  (Float data) : model zoom glue with the bilinear order-1 kernel
  | "zoom1" :: entry :: nx :: ny :: xs :: ys :: rest => do
      let nx ← nx.toNat?; let ny ← ny.toNat?; let xs ← xs.toNat?; let ys ← ys.toNat?
      let a ← parseFloats? rest
      if a.size ≠ nx * ny ∨ nx < 2 ∨ ny < 2 then none else
      let out ← (match entry with
        | "zoom_rbs" => some (zoomRbs bilinear 1 nx ny (img2 a ny) xs ys)
        | "zoom" => zoom bilinear 1 nx ny (img2 a ny) xs ys
        | _ => none)
      pure (joinFloats (tab2 xs ys out))
  -- zoomc1 entry nx ny xSize ySize re… im…  : complex path, answer re… then im…
  | "zoomc1" :: entry :: nx :: ny :: xs :: ys :: rest => do
      let nx ← nx.toNat?; let ny ← ny.toNat?; let xs ← xs.toNat?; let ys ← ys.toNat?
      let a ← parseFloats? rest
      if a.size ≠ 2 * nx * ny ∨ nx < 2 ∨ ny < 2 then none else
      let re := img2 (a.extract 0 (nx * ny)) ny
      let im := img2 (a.extract (nx * ny) (2 * nx * ny)) ny
      let out ← (match entry with
        | "zoom_rbs" => some (zoomRbsComplex bilinear 1 nx ny re im xs ys)
        | "zoom" => zoomComplex bilinear 1 nx ny re im xs ys
        | _ => none)
      pure (joinFloats (tab2 xs ys (fun i j => (out i j).1) ++ tab2 xs ys (fun i j => (out i j).2)))
  -- zoomorder order : does `zoom` accept this order?
  | ["zoomorder", order] => do
      let order ← order.toNat?
      pure (boolStr (zoom bilinear order 2 2 (fun _ _ => 0.0) 2 2).isSome)
  -- circle radius size cx cy middle(0/1)  (floats as hex) → size*size mask bits
  | ["circle", radius, size, cx, cy, middle] => do
      let radius ← parseFloat? radius; let size ← size.toNat?
      let cx ← parseFloat? cx; let cy ← parseFloat? cy
      let middle ← (match middle with | "1" => some true | "0" => some false | _ => none)
      pure (" ".intercalate ((tab2 size size (circle radius size cx cy middle)).toList.map boolStr))
  -- azavg size v… (Int image size×size) → size/2 triples  num den avg  (floats)
  | "azavg" :: size :: rest => do
      let size ← size.toNat?
      let a ← parseInts? rest
      if a.size ≠ size * size then none else
      pure (azAnswer size (fun r c => Float.ofInt (a[r * size + c]!)))
  -- azavgf size v… (Float image, hex)
  | "azavgf" :: size :: rest => do
      let size ← size.toNat?
      let a ← parseFloats? rest
      if a.size ≠ size * size then none else
      pure (azAnswer size (img2 a size))
  -- ee dim xc yc fraction v… (Int image 2dim×2dim) → index, diameter, xi (4dim), yi (4dim)
  | "ee" :: dim :: xc :: yc :: fr :: rest => do
      let dim ← dim.toNat?
      let xc ← parseFloat? xc; let yc ← parseFloat? yc; let fr ← parseFloat? fr
      let a ← parseInts? rest
      if dim = 0 ∨ a.size ≠ 4 * dim * dim then none else
      pure (eeAnswer dim xc yc fr (fun r c => Float.ofInt (a[r * (2 * dim) + c]!)))
  -- eef dim xc yc fraction v… (Float image, hex)
  | "eef" :: dim :: xc :: yc :: fr :: rest => do
      let dim ← dim.toNat?
      let xc ← parseFloat? xc; let yc ← parseFloat? yc; let fr ← parseFloat? fr
      let a ← parseFloats? rest
      if dim = 0 ∨ a.size ≠ 4 * dim * dim then none else
      pure (eeAnswer dim xc yc fr (img2 a (2 * dim)))
  -- eeslow dim xc yc fraction v… : the un-memoised model definitions themselves (index, diameter, yi)
  | "eeslow" :: dim :: xc :: yc :: fr :: rest => do
      let dim ← dim.toNat?
      let xc ← parseFloat? xc; let yc ← parseFloat? yc; let fr ← parseFloat? fr
      let a ← parseInts? rest
      if dim = 0 ∨ a.size ≠ 4 * dim * dim then none else
      let data : Nat → Nat → Float := fun r c => Float.ofInt (a[r * (2 * dim) + c]!)
      pure (toString (eeIndexOf dim xc yc data (eeRadius (K := Float) dim) fr) ++ " "
        ++ floatHex (eeDiameter dim xc yc data fr) ++ " "
        ++ joinFloats ((Array.range (4 * dim)).map (eeCurve dim xc yc data)))
  | _ => none

end AoVerif.Drive.C16
