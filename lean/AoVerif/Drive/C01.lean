/-
Correspondence driver of C01: runs `Model/SlopeCov.lean` at `Float` (with the T1-regenerated `structure_function_vk`,
or an integer-valued stand-in structure function for exact block-placement comparison).

Line:  C01 <op> <nwfs> <nlayers> <telDiam> <eps>  { <nrows> <ncols> <mask cells…> <diam> <gsAlt> <gsX> <gsY> <lam> }*nwfs
                                                  { <alt> <r0> <L0> }*nlayers
  ints in decimal, floats as 16-hex-digit bit patterns.
  op = build   full matrix, von Kármán structure function (Gen.structure_function_vk, quadrature K_ν)
       place   full matrix, stand-in  D(r, r0, L0) = floor(16 r² + 1/2 + 2^-12) · r0
       pre     matrix before mirroring, stand-in D
       geom    per layer, per sensor: projected diameter, then x y of every sub-aperture
       where   per sensor: number of sub-apertures then row col of each (`numpy.where(mask == 1)` order)
-/
import AoVerif.Drive.Util
import AoVerif.Model.SlopeCov
import AoVerif.Gen.Formulas
namespace AoVerif.Drive.C01
open AoVerif AoVerif.Drive AoVerif.SlopeCov

/-- only to make `ws[w]!` typecheck; the model never indexes a sensor `≥ nwfs` -/
instance : Inhabited (Wfs Float) := ⟨⟨0, fun _ => (0, 0), 0.0, 0.0, 0.0, 0.0, 0.0⟩⟩

structure Parsed where
  cfg : Cfg Float
  masks : Array (List (List Nat))

def takeN (l : List String) (n : Nat) : Option (List String × List String) :=
  if l.length < n then none else some (l.take n, l.drop n)

def parseWfs (toks : List String) : Option (Wfs Float × List (List Nat) × List String) := do
  match toks with
  | nr :: nc :: rest =>
    let nr ← nr.toNat?
    let nc ← nc.toNat?
    let (cells, rest) ← takeN rest (nr * nc)
    let cells ← parseNats? cells
    let (fl, rest) ← takeN rest 5
    let fl ← parseFloats? fl
    let mask : List (List Nat) := (List.range nr).map (fun r => (List.range nc).map (fun c => cells[r * nc + c]!))
    pure (Wfs.ofMask mask fl[0]! fl[1]! fl[2]! fl[3]! fl[4]!, mask, rest)
  | _ => none

def parseAll (toks : List String) : Option Parsed := do
  match toks with
  | nw :: nl :: td :: ep :: rest =>
    let nw ← nw.toNat?
    let nl ← nl.toNat?
    let td ← parseFloat? td
    let ep ← parseFloat? ep
    let mut rest := rest
    let mut ws : Array (Wfs Float) := #[]
    let mut masks : Array (List (List Nat)) := #[]
    for _ in [0:nw] do
      let (w, m, r) ← parseWfs rest
      ws := ws.push w
      masks := masks.push m
      rest := r
    let fl ← parseFloats? rest
    if fl.size ≠ 3 * nl then none else
    let layers : List (Layer Float) := (List.range nl).map (fun k => ⟨fl[3*k]!, fl[3*k+1]!, fl[3*k+2]!⟩)
    pure ⟨⟨td, nw, fun w => ws[w]!, layers, ep⟩, masks⟩
  | _ => none

/-- integer-valued stand-in structure function (exact in binary64 on dyadic geometry) -/
def standIn (r r0 _L0 : Float) : Float := Float.floor ((16.0 * r) * r + 0.500244140625) * r0

def vk (r r0 L0 : Float) : Float := Gen.structure_function_vk r r0 L0

def outMatrix (n : Nat) (M : Nat → Nat → Float) : String :=
  joinFloats ((Array.range (n * n)).map (fun k => M (k / n) (k % n)))

def handle (args : List String) : Option String :=
  match args with
  | op :: rest => do
    let p ← parseAll rest
    let c := p.cfg
    match op with
    | "build" => some (outMatrix c.size (covarianceMatrix vk c))
    | "place" => some (outMatrix c.size (covarianceMatrix standIn c))
    | "pre" => some (outMatrix c.size (preMirror standIn c))
    | "geom" =>
      let out := c.layers.foldl (fun acc l =>
        (List.range c.nwfs).foldl (fun acc w =>
          (List.range (c.nsubs w)).foldl (fun acc a =>
            let q := layerPos c l w a
            (acc.push q.1).push q.2) (acc.push (layerDiam c l w))) acc) (#[] : Array Float)
      some (joinFloats out)
    | "where" =>
      let out := (List.range c.nwfs).foldl (fun acc w =>
        (List.range (c.nsubs w)).foldl (fun acc a =>
          let q := (c.wfs w).idx a
          (acc.push q.1).push q.2) (acc.push (c.nsubs w))) (#[] : Array Nat)
      some (joinNats out)
    | _ => none
  | _ => none

end AoVerif.Drive.C01
