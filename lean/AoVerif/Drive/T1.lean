import AoVerif.Drive.Util
import AoVerif.Gen.FormulasDispatch
namespace AoVerif.Drive.T1
open AoVerif.Drive

/-- `T1 <lean name> <hex float>*` → value of the generated formula at `Float` -/
def handle (args : List String) : Option String :=
  match args with
  | name :: rest => do
      let a ← parseFloats? rest
      let v ← AoVerif.Gen.evalFormula name a
      pure (floatHex v)
  | _ => none

end AoVerif.Drive.T1
